import GqlProofs.ValSpec.ValuesCorrectHyps
import GqlProofs.ValSpec.VarRules
/-
  ValuesOfCorrectType and `@oneOf`: THE RULE IS COMPLETE for `Spec.oneOfVariablesNonNull`
  (a silent rule implies the specification predicate), without the hypothesis `noOneOf`.

  Every usage `u` the specification finds in the scope of an operation `op` with `u.oneOf = some _`
  is the value of a field of an object literal that the walker types with a `@oneOf` input object,
  in an argument block that is walked on behalf of `op` (scope completeness); the event of that
  object literal has the `VariableDefinition` link of `op` for its single field in its snapshot,
  and the silent rule has tested it.

  The converse (the specification predicates make the rule silent) is in `ValuesCorrectOneOfConv.lean` /
  `ValuesCorrectOneOfRun.lean`; it needs more: a fragment definition is walked once more stand-alone
  (`CurrentOperation = nil`), where the link of a variable is whatever the last operation that reached a
  node at that position left in the side table.
-/
namespace Gql.Validate
open Gql Gql.Validate.Rules

/- ================= usages below an untyped position carry no `@oneOf` mark ================= -/

mutual
  theorem usesInValue_untyped (s : Schema) : ∀ (v : Value) (ld : Bool), ∀ u ∈ Spec.usesInValue s none ld none v, u.oneOf = none
    | .mk k raw ch p, ld, u, hu => by
      unfold Spec.usesInValue at hu
      cases k <;> simp only [List.not_mem_nil, List.mem_singleton] at hu
      case «variable» => rw [hu]
      case list => exact usesInItems_untyped s ch u hu
      case object => exact usesInFields_untyped s ch u hu
  theorem usesInItems_untyped (s : Schema) : ∀ (ch : Children), ∀ u ∈ Spec.usesInItems s none ch, u.oneOf = none
    | .nil, u, hu => by simp [Spec.usesInItems] at hu
    | .cons n v p rest, u, hu => by
      rw [Spec.usesInItems] at hu
      rcases List.mem_append.1 hu with hu | hu
      · exact usesInValue_untyped s v false u hu
      · exact usesInItems_untyped s rest u hu
  theorem usesInFields_untyped (s : Schema) : ∀ (ch : Children), ∀ u ∈ Spec.usesInFields s none ch, u.oneOf = none
    | .nil, u, hu => by simp [Spec.usesInFields] at hu
    | .cons n v p rest, u, hu => by
      rw [Spec.usesInFields] at hu
      rcases List.mem_append.1 hu with hu | hu
      · exact usesInValue_untyped s v false u hu
      · exact usesInFields_untyped s rest u hu
end

/- ================= a marked usage is a field of a typed `@oneOf` object literal ================= -/

/-- `(n, v)` is one of the fields -/
def ChildIs : Children → Name → Value → Prop
  | .nil, _, _ => False
  | .cons n v _ rest, n', v' => (n = n' ∧ v = v') ∨ ChildIs rest n' v'

/-- the site is an object literal typed with a `@oneOf` input object, and the usage `u` is the value of one of its fields -/
def OneOfSite (x : VSite) (u : Spec.VarUse) : Prop :=
  ∃ t dd raw ch p, x.1 = some t ∧ x.2.1 = some dd ∧ x.2.2 = .mk .object raw ch p ∧ dd.kind = .inputObject ∧
    Spec.hasOneOf dd = true ∧ ∃ n chv, ChildIs ch n (.mk .variable u.name chv u.pos)

/-- the walker's definition link of a typed position -/
def dfnOf (s : Schema) (exp : Option GType) : Option Definition := exp.bind fun t => s.type? t.name

mutual
  theorem use_site_value (s : Schema) (nm : Name) :
      ∀ (v : Value) (exp : Option GType) (ld : Bool) (oo : Option Name) (u : Spec.VarUse),
        u ∈ Spec.usesInValue s exp ld oo v → u.oneOf = some nm →
        (∃ raw ch p, v = .mk .variable raw ch p ∧ u.name = raw ∧ u.pos = p ∧ oo = some nm) ∨
        ∃ x ∈ valSites s.view exp (dfnOf s exp) v, OneOfSite x u
    | .mk k raw ch p, exp, ld, oo, u, hu, ho => by
      unfold Spec.usesInValue at hu
      cases k <;> simp only [List.not_mem_nil, List.mem_singleton] at hu
      case «variable» =>
        subst hu
        exact Or.inl ⟨raw, ch, p, rfl, rfl, rfl, ho⟩
      case list =>
        right
        have hl : listChildLink exp (dfnOf s exp) = (Spec.elemOf exp, dfnOf s (Spec.elemOf exp)) := by
          cases exp with
          | none => rfl
          | some t => cases t <;> rfl
        obtain ⟨x, hx, hs⟩ := use_site_items s nm ch exp (dfnOf s exp) _ hl u hu ho
        refine ⟨x, ?_, hs⟩
        unfold valSites
        exact List.mem_append_left _ hx
      case object =>
        right
        cases hb : exp.bind (fun t => s.type? t.name) with
        | none =>
          rw [hb] at hu
          rw [usesInFields_untyped s ch u hu] at ho
          cases ho
        | some d0 =>
          rw [hb] at hu
          simp only at hu
          split at hu
          · rename_i hio
            have hio' : d0.kind = .inputObject := by simpa using hio
            rcases use_site_fields s nm ch d0 u hu ho with ⟨h1, n, chv, hc⟩ | ⟨x, hx, hs⟩
            · refine ⟨(exp, dfnOf s exp, .mk .object raw ch p), self_mem_valSites _ _ _ _, ?_⟩
              cases exp with
              | none => cases hb
              | some t => exact ⟨t, d0, raw, ch, p, rfl, hb, rfl, hio', h1, n, chv, hc⟩
            · refine ⟨x, ?_, hs⟩
              unfold valSites
              refine List.mem_append_left _ ?_
              simp only [dfnOf, hb]
              exact hx
          · rw [usesInFields_untyped s ch u hu] at ho
            cases ho
  theorem use_site_items (s : Schema) (nm : Name) :
      ∀ (ch : Children) (exp : Option GType) (dfn : Option Definition) (e : Option GType),
        listChildLink exp dfn = (e, dfnOf s e) → ∀ (u : Spec.VarUse),
        u ∈ Spec.usesInItems s e ch → u.oneOf = some nm → ∃ x ∈ listSites s.view exp dfn ch, OneOfSite x u
    | .nil, exp, dfn, e, hl, u, hu, ho => by simp [Spec.usesInItems] at hu
    | .cons n v p rest, exp, dfn, e, hl, u, hu, ho => by
      rw [Spec.usesInItems] at hu
      rw [listSites, hl]
      rcases List.mem_append.1 hu with hu | hu
      · rcases use_site_value s nm v e false none u hu ho with ⟨_, _, _, _, _, _, h⟩ | ⟨x, hx, hs⟩
        · cases h
        · exact ⟨x, List.mem_append_left _ hx, hs⟩
      · obtain ⟨x, hx, hs⟩ := use_site_items s nm rest exp dfn e hl u hu ho
        exact ⟨x, List.mem_append_right _ hx, hs⟩
  theorem use_site_fields (s : Schema) (nm : Name) :
      ∀ (ch : Children) (dd : Definition) (u : Spec.VarUse),
        u ∈ Spec.usesInFields s (some dd) ch → u.oneOf = some nm →
        (Spec.hasOneOf dd = true ∧ ∃ n chv, ChildIs ch n (.mk .variable u.name chv u.pos)) ∨
        ∃ x ∈ objSites s.view (some dd) ch, OneOfSite x u
    | .nil, dd, u, hu, ho => by simp [Spec.usesInFields] at hu
    | .cons n v p rest, dd, u, hu, ho => by
      rw [Spec.usesInFields] at hu
      rcases List.mem_append.1 hu with hu | hu
      · have hsame : Spec.inputFieldByName dd n = fieldForName dd.fields n := rfl
        simp only [Option.bind_some, hsame] at hu
        cases hf : fieldForName dd.fields n with
        | none =>
          rw [hf] at hu
          simp only [Option.map_none] at hu
          rw [usesInValue_untyped s v false u hu] at ho
          cases ho
        | some fd =>
          rw [hf] at hu
          simp only [Option.map_some] at hu
          have hlink : objChildLink s.view (some dd) n = (some fd.type, dfnOf s (some fd.type)) := by
            simp only [objChildLink, hf, linkOfType, dfnOf, Option.bind_some]
            rfl
          rcases use_site_value s nm v (some fd.type) _ _ u hu ho with ⟨raw, chv, q, hv, hn, hp, hoo⟩ | ⟨x, hx, hs⟩
          · left
            have hone : Spec.hasOneOf dd = true := by
              cases h : Spec.hasOneOf dd with
              | true => rfl
              | false => rw [h] at hoo; cases hoo
            refine ⟨hone, n, chv, Or.inl ⟨rfl, ?_⟩⟩
            rw [hv, hn, hp]
          · right
            refine ⟨x, ?_, hs⟩
            rw [objSites, hlink]
            exact List.mem_append_left _ hx
      · rcases use_site_fields s nm rest dd u hu ho with ⟨h1, n', chv, hc⟩ | ⟨x, hx, hs⟩
        · exact Or.inl ⟨h1, n', chv, Or.inr hc⟩
        · right
          refine ⟨x, ?_, hs⟩
          rw [objSites]
          exact List.mem_append_right _ hx
end

/- ================= the link of the single field in the snapshot of the object's event ================= -/

theorem walkObjChildren_nil (s : SV) (cur : Option OperationDef) (dfn : Option Definition) (ws : WS) :
    walkObjChildren s cur dfn .nil ws = (ws, []) := by
  unfold walkObjChildren; rfl

mutual
  theorem walkValue_oneOfLink (s : SV) (op : OperationDef) :
      ∀ (v : Value) (exp : Option GType) (dfn : Option Definition) (ws : WS), ∀ e ∈ (walkValue s (some op) exp dfn v ws).2,
        ∀ raw0 n rawv chv pv q p0 exp' dfn',
          e.p = .value (.mk .object raw0 (.cons n (.mk .variable rawv chv pv) q .nil) p0) exp' dfn' →
          e.links.varDef pv.start = varForName op.vars rawv
    | .mk k raw ch p, exp, dfn, ws, e, he, raw0, n, rawv, chv, pv, q, p0, exp', dfn', hp => by
      rw [walkValue_mk] at he
      rcases List.mem_append.1 he with he | he
      · cases k <;> simp only [walkChildren] at he <;> first
          | exact walkListChildren_oneOfLink s op ch exp dfn _ e he raw0 n rawv chv pv q p0 exp' dfn' hp
          | exact walkObjChildren_oneOfLink s op ch dfn _ e he raw0 n rawv chv pv q p0 exp' dfn' hp
          | cases he
      · rw [List.mem_singleton.1 he] at hp ⊢
        simp only [Payload.value.injEq, Value.mk.injEq] at hp
        obtain ⟨⟨rfl, rfl, rfl, rfl⟩, _, _⟩ := hp
        simp only [walkChildren, varMark]
        rw [walkObjChildren_cons, walkObjChildren_nil, walkValue_mk]
        simp only [walkChildren]
        exact varMark_varDef op rawv pv ws
  theorem walkObjChildren_oneOfLink (s : SV) (op : OperationDef) :
      ∀ (ch : Children) (dfn : Option Definition) (ws : WS), ∀ e ∈ (walkObjChildren s (some op) dfn ch ws).2,
        ∀ raw0 n rawv chv pv q p0 exp' dfn',
          e.p = .value (.mk .object raw0 (.cons n (.mk .variable rawv chv pv) q .nil) p0) exp' dfn' →
          e.links.varDef pv.start = varForName op.vars rawv
    | .nil, dfn, ws, e, he => by simp [walkObjChildren] at he
    | .cons name v p rest, dfn, ws, e, he => by
      rw [walkObjChildren_cons] at he
      rcases List.mem_append.1 he with he | he
      · exact walkValue_oneOfLink s op v _ _ ws e he
      · exact walkObjChildren_oneOfLink s op rest dfn _ e he
  theorem walkListChildren_oneOfLink (s : SV) (op : OperationDef) :
      ∀ (ch : Children) (exp : Option GType) (dfn : Option Definition) (ws : WS),
        ∀ e ∈ (walkListChildren s (some op) exp dfn ch ws).2,
        ∀ raw0 n rawv chv pv q p0 exp' dfn',
          e.p = .value (.mk .object raw0 (.cons n (.mk .variable rawv chv pv) q .nil) p0) exp' dfn' →
          e.links.varDef pv.start = varForName op.vars rawv
    | .nil, exp, dfn, ws, e, he => by simp [walkListChildren] at he
    | .cons name v p rest, exp, dfn, ws, e, he => by
      rw [walkListChildren_cons] at he
      rcases List.mem_append.1 he with he | he
      · exact walkValue_oneOfLink s op v _ _ ws e he
      · exact walkListChildren_oneOfLink s op rest exp dfn _ e he
end

theorem walkArgs_oneOfLink (s : SV) (op : OperationDef) (defs : Option (List ArgDef)) :
    ∀ (args : List Argument) (ws : WS), ∀ e ∈ (walkArgs s (some op) defs args ws).2,
      ∀ raw0 n rawv chv pv q p0 exp' dfn',
        e.p = .value (.mk .object raw0 (.cons n (.mk .variable rawv chv pv) q .nil) p0) exp' dfn' →
        e.links.varDef pv.start = varForName op.vars rawv
  | [], ws, e, he => by simp [walkArgs] at he
  | a :: rest, ws, e, he => by
    rw [walkArgs_cons] at he
    rcases List.mem_append.1 he with he | he
    · exact walkValue_oneOfLink s op a.value _ _ ws e he
    · exact walkArgs_oneOfLink s op defs rest _ e he


/- ================= one argument block ================= -/

theorem childIs_single {n1 n : Name} {fv v : Value} {q : Pos} (h : ChildIs (.cons n1 fv q .nil) n v) : fv = v := by
  rcases h with ⟨_, h⟩ | h
  · exact h
  · cases h

/-- a silent rule has tested every marked usage of an argument block walked on behalf of `op` -/
theorem oneOf_args (s : Schema) (d : QueryDoc) (evs : List Event)
    (hsilent : ∀ e ∈ evs, valuesOfCorrectTypeStep s.view d e = []) (op : OperationDef)
    (defs : Option (List ArgDef)) (args : List Argument) (ws : WS)
    (hsub : ∀ e ∈ (walkArgs s.view (some op) defs args ws).2, e ∈ evs)
    (u : Spec.VarUse) (hu : u ∈ Spec.usesInArgs s defs args) (nm : Name) (ho : u.oneOf = some nm)
    (v : VarDef) (hv : Spec.varDefByName op u.name = some v) : v.type.nonNull = true := by
  unfold Spec.usesInArgs at hu
  obtain ⟨a, ha, hu'⟩ := List.mem_flatMap.1 hu
  clear hu
  have hu := hu'
  clear hu'
  cases hb : defs.bind (Spec.argDefByName · a.name) with
  | none =>
    rw [hb] at hu
    rw [usesInValue_untyped s a.value false u hu] at ho
    cases ho
  | some ad =>
    rw [hb] at hu
    simp only at hu
    cases defs with
    | none => cases hb
    | some dl =>
      have had : Spec.argDefByName dl a.name = some ad := hb
      rcases use_site_value s nm a.value (some ad.type) _ none u hu ho with ⟨_, _, _, _, _, _, h⟩ | ⟨x, hx, hs⟩
      · cases h
      · have hx' : x ∈ argValSites s.view (some dl) args := by
          refine mem_argValSites_of_arg s.view _ _ a ha x ?_
          rw [argLink_some s.view dl a.name ad had]
          exact hx
        obtain ⟨e, he, hpe⟩ := walkArgs_complete (some op) ws hx'
        obtain ⟨t, dd, raw, ch, p, h1, h2, h3, hio, hone, n, chv, hc⟩ := hs
        rw [h1, h2, h3] at hpe
        have hst := (step_nil_iff s.view d e _ t dd hpe).1 (hsilent e (hsub e he))
        have hcs : customScalar dd = false := by simp [customScalar, hio]
        simp only [stepOK, localOK, Value.kind, Value.children, hcs, Bool.false_or, Bool.and_eq_true,
          List.isEmpty_iff] at hst
        have hchk := hst.1.2.1.2
        rw [oneOfChecks_nil_iff] at hchk
        have hany : dd.dirs.any (·.name == str "oneOf") = true := hone
        rcases hchk with hchk | hchk
        · rw [hany] at hchk; cases hchk
        · rw [oneOfCheck_nil_iff] at hchk
          obtain ⟨hshape, hvar⟩ := hchk
          simp only [Value.children] at hshape
          cases ch with
          | nil => cases hshape
          | cons n1 fv q rest =>
            cases rest with
            | cons _ _ _ _ => cases hshape
            | nil =>
              have hfv := childIs_single hc
              subst hfv
              have hlink := walkArgs_oneOfLink s.view op (some dl) args ws e he raw n1 u.name chv u.pos q p _ _ hpe
              simp only [oneOfVarOK, Value.children, Value.kind, Value.pos, beq_self_eq_true, Bool.not_true,
                Bool.false_or, hlink] at hvar
              have hv' : varForName op.vars u.name = some v := hv
              rw [hv'] at hvar
              exact hvar

/- ================= the usages of a selection set, node by node ================= -/

/-- the usages written at a typed node: in its arguments (typed by the field definition on the
    declarative parent type) and in its directives -/
def nodeUsesV (s : Schema) (t : Spec.TSel) : List Spec.VarUse :=
  (match t.sel with
   | .field _ nm args _ _ _ => Spec.usesInArgs s ((t.parent.bind (Spec.fieldDefOn · nm)).map (·.args)) args
   | _ => []) ++ Spec.usesInDirs s (Spec.selDirs t.sel)

mutual
  theorem mem_usesInSel_typedV (s : Schema) (u : Spec.VarUse) : ∀ (sel : Selection) (parent : Option Definition),
      u ∈ Spec.usesInSel s parent sel → ∃ t ∈ Spec.typedSel s parent sel, u ∈ nodeUsesV s t
    | .field al nm args dirs sub p, parent, h => by
      rw [Spec.usesInSel] at h
      rw [Spec.typedSel]
      rcases List.mem_append.1 h with h | h
      · exact ⟨_, List.mem_cons_self, h⟩
      · obtain ⟨t, ht, hu⟩ := mem_usesInSels_typedV s u sub _ h
        exact ⟨t, List.mem_cons_of_mem _ ht, hu⟩
    | .spread nm dirs p, parent, h => by
      rw [Spec.usesInSel] at h
      rw [Spec.typedSel]
      exact ⟨_, List.mem_singleton.2 rfl, by simpa [nodeUsesV, Spec.selDirs] using h⟩
    | .inline tc dirs sub p, parent, h => by
      rw [Spec.usesInSel] at h
      rw [Spec.typedSel]
      rcases List.mem_append.1 h with h | h
      · exact ⟨_, List.mem_cons_self, by simpa [nodeUsesV, Spec.selDirs] using h⟩
      · obtain ⟨t, ht, hu⟩ := mem_usesInSels_typedV s u sub _ h
        exact ⟨t, List.mem_cons_of_mem _ ht, hu⟩
  theorem mem_usesInSels_typedV (s : Schema) (u : Spec.VarUse) : ∀ (sels : Selections) (parent : Option Definition),
      u ∈ Spec.usesInSels s parent sels → ∃ t ∈ Spec.typedSels s parent sels, u ∈ nodeUsesV s t
    | .nil, parent, h => by simp [Spec.usesInSels] at h
    | .cons x rest, parent, h => by
      rw [Spec.usesInSels] at h
      rw [Spec.typedSels]
      rcases List.mem_append.1 h with h | h
      · obtain ⟨t, ht, hu⟩ := mem_usesInSel_typedV s u x parent h
        exact ⟨t, List.mem_append_left _ ht, hu⟩
      · obtain ⟨t, ht, hu⟩ := mem_usesInSels_typedV s u rest parent h
        exact ⟨t, List.mem_append_right _ ht, hu⟩
end

/- ================= the run ================= -/

section
variable (s : Schema) (d : QueryDoc) (evs : List Event) (hw : walkDoc s.view d = some evs)
  (hsilent : ∀ e ∈ evs, valuesOfCorrectTypeStep s.view d e = [])
include hw hsilent

/-- the marked usages in a directive list walked on behalf of `op` -/
theorem oneOf_dirs (op : OperationDef) (loc : Bytes) (ds : List Directive) (h : HasDirsC s.view (some op) loc ds evs)
    (u : Spec.VarUse) (hu : u ∈ Spec.usesInDirs s ds) (nm : Name) (ho : u.oneOf = some nm)
    (v : VarDef) (hv : Spec.varDefByName op u.name = some v) : v.type.nonNull = true := by
  have hB := walkDoc_blocks (valInv_sites s.view d) evs hw
  unfold Spec.usesInDirs at hu
  obtain ⟨dir, hdir, hu⟩ := List.mem_flatMap.1 hu
  obtain ⟨e', he', par, hc, hp⟩ := h.2 dir hdir
  obtain ⟨ws, hsub⟩ := hB.dirArgs e' he' dir _ par loc hp
  rw [hc] at hsub
  exact oneOf_args s d evs hsilent op _ dir.args ws hsub u hu nm ho v hv

/-- the marked usages at a node that has been walked on behalf of `op` with its declarative parent type -/
theorem oneOf_node (op : OperationDef) (t : Spec.TSel) (hwpt : Spec.nodeWellParented t = true)
    (hn : HasNodeCur d (some op) evs t.parent t.sel)
    (hd : HasDirsC s.view (some op) (Spec.selLoc t.sel) (Spec.selDirs t.sel) evs)
    (u : Spec.VarUse) (hu : u ∈ nodeUsesV s t) (nm : Name) (ho : u.oneOf = some nm)
    (v : VarDef) (hv : Spec.varDefByName op u.name = some v) : v.type.nonNull = true := by
  have hB := walkDoc_blocks (valInv_sites s.view d) evs hw
  unfold nodeUsesV at hu
  rcases List.mem_append.1 hu with hu | hu
  · obtain ⟨par, sel⟩ := t
    cases sel with
    | field al nm' args dirs sub p =>
      simp only at hu
      obtain ⟨e', he', hc, hp⟩ := hn
      obtain ⟨ws, hsub⟩ := hB.fieldArgs e' he' _ _ _ hp
      rw [hc, wFieldDef_eq par al nm' args dirs sub p hwpt] at hsub
      exact oneOf_args s d evs hsilent op _ args ws hsub u hu nm ho v hv
    | spread nm' dirs p => simp at hu
    | inline tc dirs sub p => simp at hu
  · exact oneOf_dirs s d evs hw hsilent op _ _ hd u hu nm ho v hv

/-- COMPLETENESS FOR `@oneOf`: a silent rule implies `Spec.oneOfVariablesNonNull` (well-parented
    documents with distinct fragment names; no hypothesis on the schema) -/
theorem oneOfVariablesNonNull_of_silent (hwp : Spec.wellParented s d = true)
    (hfu : Spec.fragmentNameUniqueness d = true) : Spec.oneOfVariablesNonNull s d = true := by
  unfold Spec.oneOfVariablesNonNull
  rw [List.all_eq_true]
  intro op hop
  rw [List.all_eq_true]
  intro u hu
  cases ho : u.oneOf with
  | none => rfl
  | some nm =>
    cases hv : Spec.varDefByName op u.name with
    | none => rfl
    | some v =>
      simp only
      have hscope := walkDoc_scope_complete s.view d evs hw op hop
      have hwp' : ∀ t ∈ Spec.docSels s d, Spec.nodeWellParented t = true := by
        unfold Spec.wellParented at hwp
        exact List.all_eq_true.1 hwp
      unfold Spec.scopeUses at hu
      rcases List.mem_append.1 hu with hu | hu
      · unfold Spec.usesInOperation at hu
        rcases List.mem_append.1 hu with hu | hu
        · rcases List.mem_append.1 hu with hu | hu
          · obtain ⟨vd, hvd, hu⟩ := List.mem_flatMap.1 hu
            exact oneOf_dirs s d evs hw hsilent op _ _ (hscope.varDirs vd hvd) u hu nm ho v hv
          · exact oneOf_dirs s d evs hw hsilent op _ _ hscope.opDirs u hu nm ho v hv
        · obtain ⟨t, ht, hut⟩ := mem_usesInSels_typedV s u op.sel _ hu
          have hdoc : ∀ t' ∈ Spec.typedSels s (Spec.rootDef s op.op) op.sel, t' ∈ Spec.docSels s d := by
            intro t' ht'
            unfold Spec.docSels
            exact List.mem_append_left _ (List.mem_flatMap.2 ⟨op, hop, ht'⟩)
          have hiw : InSelsW s.view (opRoot s.view op.op).1 op.sel t.parent t.sel := by
            rw [opRoot_def]
            exact (inSelsW_iff s op.sel _ (fun t' ht' => hwp' t' (hdoc t' ht')) t.parent t.sel).2 ht
          obtain ⟨h1, h2⟩ := hscope.nodes t.parent t.sel (Or.inl hiw)
          exact oneOf_node s d evs hw hsilent op t (hwp' t (hdoc t ht)) h1 h2 u hut nm ho v hv
      · obtain ⟨g, hg, hu⟩ := List.mem_flatMap.1 hu
        obtain ⟨n, hr, hgn⟩ := (mem_opFragments_iff d hfu op g).1 hg
        have hgd : g ∈ d.frags := by
          unfold Spec.opFragments at hg
          exact (List.mem_filter.1 hg).1
        unfold Spec.usesInFragment at hu
        rcases List.mem_append.1 hu with hu | hu
        · exact oneOf_dirs s d evs hw hsilent op _ _ (hscope.fragDirs n g hr hgn) u hu nm ho v hv
        · obtain ⟨t, ht, hut⟩ := mem_usesInSels_typedV s u g.sel _ hu
          have hdoc : ∀ t' ∈ Spec.typedSels s (s.type? g.typeCond) g.sel, t' ∈ Spec.docSels s d := by
            intro t' ht'
            unfold Spec.docSels
            exact List.mem_append_right _ (List.mem_flatMap.2 ⟨g, hgd, ht'⟩)
          have hiw : InSelsW s.view (s.view.type? g.typeCond) g.sel t.parent t.sel :=
            (inSelsW_iff s g.sel _ (fun t' ht' => hwp' t' (hdoc t' ht')) t.parent t.sel).2 ht
          obtain ⟨h1, h2⟩ := hscope.nodes t.parent t.sel (Or.inr ⟨n, g, hr, hgn, hiw⟩)
          exact oneOf_node s d evs hw hsilent op t (hwp' t (hdoc t ht)) h1 h2 u hut nm ho v hv

end

end Gql.Validate
