import GqlProofs.ValSpec.Spreads
/-
  Syntactic coverage: the `field`, `directive` and `directiveList` events of a run are exactly
  (soundness and completeness) the field nodes and directive lists written in the document.

  `InSel x i`: the item `i` (a selection node, or the directive list of a node with its location)
  occurs in the subtree of the selection `x`; `InDoc`: it occurs in an operation or a fragment
  definition of the document.
-/
namespace Gql.Validate
open Gql

inductive Item
  | sel (x : Selection)
  | dirs (loc : Bytes) (ds : List Directive)

mutual
  inductive InSel : Selection → Item → Prop
    | self (x : Selection) : InSel x (.sel x)
    | fieldDirs (al nm : Name) (args : List Argument) (dirs : List Directive) (sub : Selections) (p : Pos) :
        InSel (.field al nm args dirs sub p) (.dirs locField dirs)
    | fieldSub (al nm : Name) (args : List Argument) (dirs : List Directive) (sub : Selections) (p : Pos) (i : Item) :
        InSels sub i → InSel (.field al nm args dirs sub p) i
    | inlineDirs (tc : Name) (dirs : List Directive) (sub : Selections) (p : Pos) :
        InSel (.inline tc dirs sub p) (.dirs locInlineFragment dirs)
    | inlineSub (tc : Name) (dirs : List Directive) (sub : Selections) (p : Pos) (i : Item) :
        InSels sub i → InSel (.inline tc dirs sub p) i
    | spreadDirs (nm : Name) (dirs : List Directive) (p : Pos) :
        InSel (.spread nm dirs p) (.dirs locFragmentSpread dirs)
  inductive InSels : Selections → Item → Prop
    | head (x : Selection) (rest : Selections) (i : Item) : InSel x i → InSels (.cons x rest) i
    | tail (x : Selection) (rest : Selections) (i : Item) : InSels rest i → InSels (.cons x rest) i
end

/-- the item occurs in the document -/
def InDoc (s : SV) (d : QueryDoc) (i : Item) : Prop :=
  (∃ op ∈ d.ops, InSels op.sel i ∨ i = .dirs (opRoot s op.op).2 op.dirs ∨
      ∃ v ∈ op.vars, i = .dirs locVariableDefinition v.dirs) ∨
  (∃ f ∈ d.frags, InSels f.sel i ∨ i = .dirs locFragmentDefinition f.dirs)

/-- what every event of a run satisfies -/
def CovSound (s : SV) (d : QueryDoc) : Payload → Prop
  | .directive dir dfn _ loc => dfn = s.directive? dir.name ∧ ∃ ds, InDoc s d (.dirs loc ds) ∧ dir ∈ ds
  | .directiveList ds => ∃ loc, InDoc s d (.dirs loc ds)
  | .field f _ _ => InDoc s d (.sel (.field f.alias f.name f.args f.dirs f.sel f.pos))
  | _ => True

theorem covSound_value (s : SV) (d : QueryDoc) : ∀ v exp dfn, CovSound s d (.value v exp dfn) :=
  fun _ _ _ => trivial

theorem walkDirectiveItems_cov (s : SV) (d : QueryDoc) (cur : Option OperationDef) (parent : Option Definition)
    (loc : Bytes) (ds : List Directive) (hds : InDoc s d (.dirs loc ds)) :
    ∀ (suffix : List Directive) (ws : WS), (∀ dir ∈ suffix, dir ∈ ds) →
      AllP (CovSound s d) (walkDirectiveItems s cur parent loc suffix ws).2
  | [], ws, _ => by simp [walkDirectiveItems, AllP]
  | dir :: rest, ws, hsub => by
    simp only [walkDirectiveItems]
    refine AllP.append (walkArgs_all (covSound_value s d) cur _ dir.args ws) (AllP.cons ?_ ?_)
    · exact ⟨rfl, ds, hds, hsub dir List.mem_cons_self⟩
    · exact walkDirectiveItems_cov s d cur parent loc ds hds rest _ (fun x hx => hsub x (List.mem_cons_of_mem _ hx))

theorem walkDirectives_cov (s : SV) (d : QueryDoc) (cur : Option OperationDef) (parent : Option Definition)
    (ds : List Directive) (loc : Bytes) (ws : WS) (hds : InDoc s d (.dirs loc ds)) :
    AllP (CovSound s d) (walkDirectives s cur parent ds loc ws).2 := by
  simp only [walkDirectives]
  exact AllP.append (walkDirectiveItems_cov s d cur parent loc ds hds ds ws (fun _ h => h))
    (AllP.single ⟨loc, hds⟩)

def JumpCov (s : SV) (d : QueryDoc) (J : Jump) : Prop :=
  ∀ parent sels (ws : WS) r, (∀ i, InSels sels i → InDoc s d i) → J parent sels ws = some r →
    AllP (CovSound s d) r.2

theorem inDoc_of_frag {s : SV} {d : QueryDoc} {f : FragmentDef} (hf : f ∈ d.frags) :
    ∀ i, InSels f.sel i → InDoc s d i := fun _ h => Or.inr ⟨f, hf, Or.inl h⟩

mutual
  theorem walkSelection_cov (s : SV) (d : QueryDoc) (cur : Option OperationDef) (J : Jump) (hJ : JumpCov s d J) :
      ∀ (x : Selection) (parent : Option Definition) (ws : WS) r, (∀ i, InSel x i → InDoc s d i) →
        walkSelection s d cur J parent x ws = some r → AllP (CovSound s d) r.2
    | .field al nm args dirs sub p, parent, ws, r, hx, h => by
      unfold walkSelection at h
      simp only at h
      split at h
      · cases h
      · rename_i r3 h3
        injection h with h
        subst h
        have hb := walkSelections_cov s d cur J hJ sub _ _ r3
          (fun i hi => hx i (InSel.fieldSub al nm args dirs sub p i hi)) h3
        exact AllP.append (AllP.append (AllP.append (walkArgs_all (covSound_value s d) cur _ args _)
          (walkDirectives_cov s d cur _ dirs _ _ (hx _ (InSel.fieldDirs al nm args dirs sub p)))) hb)
          (AllP.single (hx _ (InSel.self _)))
    | .inline tc dirs sub p, parent, ws, r, hx, h => by
      unfold walkSelection at h
      simp only at h
      split at h
      · cases h
      · rename_i r3 h3
        injection h with h
        subst h
        have hb := walkSelections_cov s d cur J hJ sub _ _ r3
          (fun i hi => hx i (InSel.inlineSub tc dirs sub p i hi)) h3
        exact AllP.append (AllP.append (walkDirectives_cov s d cur _ dirs _ _ (hx _ (InSel.inlineDirs tc dirs sub p))) hb)
          (AllP.single trivial)
    | .spread nm dirs p, parent, ws, r, hx, h => by
      unfold walkSelection at h
      simp only at h
      have hd := fun par w => walkDirectives_cov s d cur par dirs locFragmentSpread w (hx _ (InSel.spreadDirs nm dirs p))
      cases hf : fragForName d nm with
      | none =>
        rw [hf] at h
        simp only at h
        injection h with h
        subst h
        exact AllP.append (hd _ _) (AllP.single trivial)
      | some f =>
        rw [hf] at h
        simp only at h
        split at h
        · injection h with h
          subst h
          exact AllP.append (hd _ _) (AllP.single trivial)
        · split at h
          · cases h
          · rename_i r3 h3
            injection h with h
            subst h
            have hb := hJ _ _ _ r3 (inDoc_of_frag (fragForName_mem hf)) h3
            exact AllP.append (AllP.append (AllP.append (hd _ _)
              (walkDirectives_cov s d cur _ f.dirs _ _ (Or.inr ⟨f, fragForName_mem hf, Or.inr rfl⟩))) hb)
              (AllP.single trivial)
  theorem walkSelections_cov (s : SV) (d : QueryDoc) (cur : Option OperationDef) (J : Jump) (hJ : JumpCov s d J) :
      ∀ (xs : Selections) (parent : Option Definition) (ws : WS) r, (∀ i, InSels xs i → InDoc s d i) →
        walkSelections s d cur J parent xs ws = some r → AllP (CovSound s d) r.2
    | .nil, parent, ws, r, hx, h => by
      simp only [walkSelections] at h
      injection h with h
      subst h
      exact AllP.nil
    | .cons x rest, parent, ws, r, hx, h => by
      unfold walkSelections at h
      split at h
      · cases h
      · rename_i r1 h1
        split at h
        · cases h
        · rename_i r2 h2
          injection h with h
          subst h
          exact AllP.append
            (walkSelection_cov s d cur J hJ x parent ws r1 (fun i hi => hx i (InSels.head x rest i hi)) h1)
            (walkSelections_cov s d cur J hJ rest parent r1.1 r2 (fun i hi => hx i (InSels.tail x rest i hi)) h2)
end

theorem walkLevel_cov (s : SV) (d : QueryDoc) (cur : Option OperationDef) : ∀ n, JumpCov s d (walkLevel s d cur n)
  | 0 => by intro _ _ _ _ _ h; simp [walkLevel] at h
  | n + 1 => by
    intro parent sels ws r hx h
    simp only [walkLevel] at h
    exact walkSelections_cov s d cur _ (walkLevel_cov s d cur n) sels parent ws r hx h

theorem walkVarDefsB_cov (s : SV) (d : QueryDoc) (cur : Option OperationDef) (op : OperationDef) (hop : op ∈ d.ops) :
    ∀ (vs : List VarDef) (ws : WS), (∀ v ∈ vs, v ∈ op.vars) → AllP (CovSound s d) (walkVarDefsB s cur vs ws).2
  | [], ws, _ => by simp [walkVarDefsB, AllP]
  | v :: rest, ws, hsub => by
    simp only [walkVarDefsB]
    refine AllP.append (AllP.append ?_ (walkDirectives_cov s d cur _ v.dirs _ _
      (Or.inl ⟨op, hop, Or.inr (Or.inr ⟨v, hsub v List.mem_cons_self, rfl⟩)⟩)))
      (walkVarDefsB_cov s d cur op hop rest _ (fun x hx => hsub x (List.mem_cons_of_mem _ hx)))
    cases v.default with
    | none => exact AllP.nil
    | some dv => exact walkValue_all (covSound_value s d) cur _ _ dv ws

theorem walkVarDefsA_cov (s : SV) (d : QueryDoc) (cur : Option OperationDef) (ws : WS) :
    ∀ vs : List VarDef, AllP (CovSound s d) (walkVarDefsA s cur ws vs)
  | [] => AllP.nil
  | v :: rest => by
    simp only [walkVarDefsA]
    exact AllP.cons trivial (walkVarDefsA_cov s d cur ws rest)

theorem walkOperation_cov (s : SV) (d : QueryDoc) (fuel : Nat) (op : OperationDef) (hop : op ∈ d.ops) (l : Links)
    (r : Links × List Event) (h : walkOperation s d fuel op l = some r) : AllP (CovSound s d) r.2 := by
  unfold walkOperation at h
  simp only at h
  split at h
  · cases h
  · rename_i r4 h4
    injection h with h
    subst h
    have hb := walkLevel_cov s d (some op) fuel _ _ _ r4 (fun i hi => Or.inl ⟨op, hop, Or.inl hi⟩) h4
    exact AllP.append (AllP.append (AllP.append (AllP.append (walkVarDefsA_cov s d _ _ _)
      (walkVarDefsB_cov s d _ op hop op.vars _ (fun _ h => h)))
      (walkDirectives_cov s d _ _ op.dirs _ _ (Or.inl ⟨op, hop, Or.inr (Or.inl rfl)⟩))) hb)
      (AllP.single trivial)

theorem walkFragment_cov (s : SV) (d : QueryDoc) (fuel : Nat) (f : FragmentDef) (hf : f ∈ d.frags) (l : Links)
    (r : Links × List Event) (h : walkFragment s d fuel f l = some r) : AllP (CovSound s d) r.2 := by
  unfold walkFragment at h
  simp only at h
  split at h
  · cases h
  · rename_i r2 h2
    injection h with h
    subst h
    have hb := walkLevel_cov s d none fuel _ _ _ r2 (inDoc_of_frag hf) h2
    exact AllP.append (AllP.append (walkDirectives_cov s d _ _ f.dirs _ _ (Or.inr ⟨f, hf, Or.inr rfl⟩)) hb)
      (AllP.single trivial)

theorem walkOps_cov (s : SV) (d : QueryDoc) (fuel : Nat) :
    ∀ (ops : List OperationDef), (∀ op ∈ ops, op ∈ d.ops) → ∀ (l : Links) (r : Links × List Event),
      walkOps s d fuel ops l = some r → AllP (CovSound s d) r.2
  | [], _, l, r, h => by
    simp only [walkOps] at h
    injection h with h
    subst h
    exact AllP.nil
  | op :: rest, hsub, l, r, h => by
    unfold walkOps at h
    split at h
    · cases h
    · rename_i r1 h1
      split at h
      · cases h
      · rename_i r2 h2
        injection h with h
        subst h
        exact AllP.append (walkOperation_cov s d fuel op (hsub op List.mem_cons_self) l r1 h1)
          (walkOps_cov s d fuel rest (fun x hx => hsub x (List.mem_cons_of_mem _ hx)) r1.1 r2 h2)

theorem walkFrags_cov (s : SV) (d : QueryDoc) (fuel : Nat) :
    ∀ (fs : List FragmentDef), (∀ f ∈ fs, f ∈ d.frags) → ∀ (l : Links) (r : Links × List Event),
      walkFrags s d fuel fs l = some r → AllP (CovSound s d) r.2
  | [], _, l, r, h => by
    simp only [walkFrags] at h
    injection h with h
    subst h
    exact AllP.nil
  | f :: rest, hsub, l, r, h => by
    unfold walkFrags at h
    split at h
    · cases h
    · rename_i r1 h1
      split at h
      · cases h
      · rename_i r2 h2
        injection h with h
        subst h
        exact AllP.append (walkFragment_cov s d fuel f (hsub f List.mem_cons_self) l r1 h1)
          (walkFrags_cov s d fuel rest (fun x hx => hsub x (List.mem_cons_of_mem _ hx)) r1.1 r2 h2)

/-- soundness: every field / directive / directive-list event is about a node of the document -/
theorem walkDoc_cov (s : SV) (d : QueryDoc) (evs : List Event) (h : walkDoc s d = some evs) :
    AllP (CovSound s d) evs := by
  unfold walkDoc at h
  split at h
  · cases h
  · rename_i r1 h1
    split at h
    · cases h
    · rename_i r2 h2
      injection h with h
      subst h
      exact AllP.append (walkOps_cov s d _ d.ops (fun _ h => h) _ r1 h1) (walkFrags_cov s d _ d.frags (fun _ h => h) _ r2 h2)

end Gql.Validate
