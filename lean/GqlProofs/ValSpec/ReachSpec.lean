import GqlProofs.ValSpec.Capstone
/-
  The specification's "fragments an operation references transitively" (`Spec.opFragments`, a
  closure computed in rounds) is SOUND for the walker's reachability (`OpReaches`): a fragment
  definition that `Spec.fragLinks` counts into the scope of an operation is entered by the walk of
  that operation.  (Definitions are identified by position in the specification, hence the
  hypothesis that the fragment definitions of the document have distinct positions — true of
  every parse.)
-/
namespace Gql.Validate
open Gql

/-- reachable from the start names through spreads of defined fragments -/
inductive NameReach (d : QueryDoc) (start : List Name) : Name → Prop
  | base (n : Name) : n ∈ start → NameReach d start n
  | step (m n : Name) : NameReach d start m → n ∈ Spec.fragSpreads d m → NameReach d start n

theorem addNew_good (P : Name → Prop) : ∀ (xs acc : List Name), (∀ n ∈ acc, P n) → (∀ n ∈ xs, P n) →
    ∀ n ∈ Spec.addNew acc xs, P n
  | [], acc, ha, _ => by simpa [Spec.addNew] using ha
  | x :: xs, acc, ha, hx => by
    simp only [Spec.addNew]
    split
    · exact addNew_good P xs acc ha (fun n hn => hx n (List.mem_cons_of_mem _ hn))
    · refine addNew_good P xs (acc ++ [x]) (fun n hn => ?_) (fun n hn => hx n (List.mem_cons_of_mem _ hn))
      rcases List.mem_append.1 hn with h | h
      · exact ha n h
      · rw [List.mem_singleton.1 h]
        exact hx x List.mem_cons_self

theorem foldl_addNew_good (d : QueryDoc) (P : Name → Prop) (hstep : ∀ m, P m → ∀ n ∈ Spec.fragSpreads d m, P n) :
    ∀ (l acc : List Name), (∀ n ∈ acc, P n) → (∀ n ∈ l, P n) →
      ∀ n ∈ l.foldl (fun acc n => Spec.addNew acc (Spec.fragSpreads d n)) acc, P n
  | [], acc, ha, _ => by simpa using ha
  | x :: l, acc, ha, hl => by
    simp only [List.foldl_cons]
    exact foldl_addNew_good d P hstep l _
      (addNew_good P _ acc ha (hstep x (hl x List.mem_cons_self)))
      (fun n hn => hl n (List.mem_cons_of_mem _ hn))

theorem closeRounds_good (d : QueryDoc) (P : Name → Prop) (hstep : ∀ m, P m → ∀ n ∈ Spec.fragSpreads d m, P n) :
    ∀ (k : Nat) (seen : List Name), (∀ n ∈ seen, P n) → ∀ n ∈ Spec.closeRounds d k seen, P n
  | 0, seen, h => by simpa [Spec.closeRounds] using h
  | k + 1, seen, h => by
    simp only [Spec.closeRounds]
    exact closeRounds_good d P hstep k _ (foldl_addNew_good d P hstep seen seen h h)

theorem reachFrom_sound (d : QueryDoc) (start : List Name) : ∀ n ∈ Spec.reachFrom d start, NameReach d start n := by
  unfold Spec.reachFrom
  apply closeRounds_good d (NameReach d start) (fun m hm n hn => NameReach.step m n hm hn)
  exact addNew_good _ start [] (fun n hn => by cases hn) (fun n hn => NameReach.base n hn)

mutual
  theorem spreadsOfSel_mem : ∀ (x : Selection) (n : Name), n ∈ Spec.spreadsOfSel x → SpreadIn x n
    | .field al nm args dirs sub p, n, h => by
      simp only [Spec.spreadsOfSel] at h
      obtain ⟨ds, q, hi⟩ := spreadsOfSels_mem sub n h
      exact ⟨ds, q, InSel.fieldSub _ _ _ _ _ _ _ hi⟩
    | .spread nm dirs p, n, h => by
      simp only [Spec.spreadsOfSel, List.mem_singleton] at h
      subst h
      exact ⟨dirs, p, InSel.self _⟩
    | .inline tc dirs sub p, n, h => by
      simp only [Spec.spreadsOfSel] at h
      obtain ⟨ds, q, hi⟩ := spreadsOfSels_mem sub n h
      exact ⟨ds, q, InSel.inlineSub _ _ _ _ _ hi⟩
  theorem spreadsOfSels_mem : ∀ (xs : Selections) (n : Name), n ∈ Spec.spreadsOfSels xs → SpreadInSels xs n
    | .nil, n, h => by simp [Spec.spreadsOfSels] at h
    | .cons x rest, n, h => by
      simp only [Spec.spreadsOfSels, List.mem_append] at h
      rcases h with h | h
      · obtain ⟨ds, q, hi⟩ := spreadsOfSel_mem x n h
        exact ⟨ds, q, InSels.head _ _ _ hi⟩
      · obtain ⟨ds, q, hi⟩ := spreadsOfSels_mem rest n h
        exact ⟨ds, q, InSels.tail _ _ _ hi⟩
end

mutual
  theorem inSel_spread_memL : ∀ (x : Selection) (n : Name) (dirs : List Directive) (p : Pos),
      InSel x (.sel (.spread n dirs p)) → n ∈ Spec.spreadsOfSel x
    | .field al nm args ds sub q, n, dirs, p, h => by
      cases h with
      | fieldSub _ _ _ _ _ _ _ hs => simp only [Spec.spreadsOfSel]; exact inSels_spread_memL sub n dirs p hs
    | .spread nm ds q, n, dirs, p, h => by
      cases h with
      | self => simp [Spec.spreadsOfSel]
    | .inline tc ds sub q, n, dirs, p, h => by
      cases h with
      | inlineSub _ _ _ _ _ hs => simp only [Spec.spreadsOfSel]; exact inSels_spread_memL sub n dirs p hs
  theorem inSels_spread_memL : ∀ (xs : Selections) (n : Name) (dirs : List Directive) (p : Pos),
      InSels xs (.sel (.spread n dirs p)) → n ∈ Spec.spreadsOfSels xs
    | .nil, _, _, _, h => by cases h
    | .cons x rest, n, dirs, p, h => by
      simp only [Spec.spreadsOfSels, List.mem_append]
      cases h with
      | head _ _ _ hx => exact Or.inl (inSel_spread_memL x n dirs p hx)
      | tail _ _ _ hx => exact Or.inr (inSels_spread_memL rest n dirs p hx)
end

theorem nameReach_opReaches (d : QueryDoc) (op : OperationDef) (n : Name)
    (h : NameReach d (Spec.spreadsOfSels op.sel) n) : ∀ f, fragForName d n = some f → OpReaches d op f := by
  induction h with
  | base n hn => exact fun f hf => OpReaches.direct n f (spreadsOfSels_mem _ _ hn) hf
  | step m n _ hn ih =>
    intro f hf
    unfold Spec.fragSpreads at hn
    cases hg : Spec.fragByName d m with
    | none => rw [hg] at hn; cases hn
    | some g =>
      rw [hg] at hn
      exact OpReaches.step g n f (ih g hg) (spreadsOfSels_mem _ _ hn) hf

/-- fragment definitions of the document have distinct positions -/
def FragPosDistinct (d : QueryDoc) : Prop := ∀ f ∈ d.frags, ∀ g ∈ d.frags, f.pos = g.pos → f = g

/-- an operation in whose specified scope the fragment definition lies reaches it -/
theorem fragOps_reaches (d : QueryDoc) (hpos : FragPosDistinct d) (f : FragmentDef) (hf : f ∈ d.frags)
    (op : OperationDef) (hop : op ∈ fragOps d f) : op ∈ d.ops ∧ OpReaches d op f := by
  simp only [fragOps, List.mem_filter, List.any_eq_true, beq_iff_eq] at hop
  obtain ⟨hmem, f', hf', hpos'⟩ := hop
  refine ⟨hmem, ?_⟩
  simp only [Spec.opFragments, List.mem_filter, Bool.and_eq_true, List.contains_iff_mem, Option.any_eq_true,
    beq_iff_eq] at hf'
  obtain ⟨hf'mem, hname, g, hg, hgpos⟩ := hf'
  have hgm : g ∈ d.frags := fragForName_mem hg
  have h1 : g = f' := hpos g hgm f' hf'mem hgpos
  have h2 : f' = f := hpos f' hf'mem f hf hpos'
  subst h1 h2
  exact nameReach_opReaches d op g.name (reachFrom_sound d _ _ hname) g hg

end Gql.Validate
