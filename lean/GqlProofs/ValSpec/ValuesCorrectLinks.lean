import GqlProofs.ValSpec.ValBlocks
/-
  An invariant of the link side table of a run: every `VariableDefinition` link the walker ever
  writes is a variable definition of an operation of the document (`walkDoc_linksQ`, for any
  predicate `Q` that holds of all those definitions).  Needed for `Value.Value(nil)` in
  ValuesOfCorrectType, which evaluates the DEFAULT VALUE of the linked definition of a variable —
  of any node below the value the event is about, whenever it was linked.
-/
namespace Gql.Validate
open Gql

/-- every non-nil `VariableDefinition` link satisfies `Q` -/
def LinksQ (Q : VarDef → Prop) (l : Links) : Prop := ∀ k vd, (k, some vd) ∈ l.vlinks → Q vd

/-- the variable definitions of the current operation satisfy `Q` -/
def CurQ (Q : VarDef → Prop) (cur : Option OperationDef) : Prop := ∀ op, cur = some op → ∀ vd ∈ op.vars, Q vd

/-- a piece of the walk keeps the invariant, and every event it fires has it in its snapshot -/
def StepQ (Q : VarDef → Prop) (ws : WS) (r : WS × List Event) : Prop :=
  LinksQ Q ws.links → LinksQ Q r.1.links ∧ ∀ e ∈ r.2, LinksQ Q e.links

theorem LinksQ.varDef {Q : VarDef → Prop} {l : Links} (h : LinksQ Q l) {k : Nat} {vd : VarDef}
    (hv : l.varDef k = some vd) : Q vd := by
  unfold Links.varDef at hv
  cases hl : l.vlinks.lookup k with
  | none => rw [hl] at hv; cases hv
  | some o =>
    rw [hl] at hv
    simp only [Option.join] at hv
    subst hv
    have : ∀ (xs : List (Nat × Option VarDef)), xs.lookup k = some (some vd) → (k, some vd) ∈ xs := by
      intro xs
      induction xs with
      | nil => intro h; simp [List.lookup] at h
      | cons x rest ih =>
        obtain ⟨a, b⟩ := x
        intro h
        simp only [List.lookup] at h
        split at h
        · rename_i heq
          have : k = a := by simpa using heq
          injection h with h
          subst h this
          exact List.mem_cons_self
        · exact List.mem_cons_of_mem _ (ih h)
    exact h k vd (this _ hl)

theorem LinksQ.empty (Q : VarDef → Prop) : LinksQ Q Links.empty := by
  intro k vd h
  cases h

theorem StepQ.id {Q : VarDef → Prop} (ws : WS) : StepQ Q ws (ws, []) :=
  fun h => ⟨h, fun _ he => nomatch he⟩

theorem StepQ.seq {Q : VarDef → Prop} {ws : WS} {r1 : WS × List Event} {r2 : WS × List Event}
    (h1 : StepQ Q ws r1) (h2 : StepQ Q r1.1 r2) : StepQ Q ws (r2.1, r1.2 ++ r2.2) := by
  intro h
  obtain ⟨a1, b1⟩ := h1 h
  obtain ⟨a2, b2⟩ := h2 a1
  exact ⟨a2, fun e he => (List.mem_append.1 he).elim (b1 e) (b2 e)⟩

/-- appending the event fired with the final snapshot -/
theorem StepQ.snoc {Q : VarDef → Prop} {ws : WS} {r : WS × List Event} (h : StepQ Q ws r) (cur : Option OperationDef)
    (p : Payload) : StepQ Q ws (r.1, r.2 ++ [⟨cur, r.1.links, p⟩]) := by
  intro h0
  obtain ⟨a, b⟩ := h h0
  refine ⟨a, fun e he => ?_⟩
  rcases List.mem_append.1 he with he | he
  · exact b e he
  · rw [List.mem_singleton.1 he]; exact a

theorem varMark_linksQ {Q : VarDef → Prop} (cur : Option OperationDef) (hc : CurQ Q cur) (k : ValueKind) (raw : Bytes)
    (p : Pos) (ws : WS) (h : LinksQ Q ws.links) : LinksQ Q (varMark cur k raw p ws).links := by
  unfold varMark
  split
  · rename_i op
    intro k' vd hm
    simp only at hm
    rcases List.mem_cons.1 hm with hm | hm
    · injection hm with _ hm
      exact hc op rfl vd (List.mem_of_find?_eq_some hm.symm)
    · exact h k' vd hm
  · exact h

mutual
  theorem walkValue_linksQ {Q : VarDef → Prop} (s : SV) (cur : Option OperationDef) (hc : CurQ Q cur) :
      ∀ (v : Value) (exp : Option GType) (dfn : Option Definition) (ws : WS), StepQ Q ws (walkValue s cur exp dfn v ws)
    | .mk k raw ch p, exp, dfn, ws => by
      rw [walkValue_mk]
      refine StepQ.snoc (r := walkChildren s cur exp dfn k ch (varMark cur k raw p ws)) ?_ cur _
      intro h0
      have h1 := varMark_linksQ cur hc k raw p ws h0
      cases k <;> simp only [walkChildren]
      case list => exact walkListChildren_linksQ s cur hc ch exp dfn _ h1
      case object => exact walkObjChildren_linksQ s cur hc ch dfn _ h1
      all_goals exact ⟨h1, fun _ he => nomatch he⟩
  theorem walkObjChildren_linksQ {Q : VarDef → Prop} (s : SV) (cur : Option OperationDef) (hc : CurQ Q cur) :
      ∀ (ch : Children) (dfn : Option Definition) (ws : WS), StepQ Q ws (walkObjChildren s cur dfn ch ws)
    | .nil, dfn, ws => by
      have : walkObjChildren s cur dfn .nil ws = (ws, []) := by unfold walkObjChildren; rfl
      rw [this]; exact StepQ.id ws
    | .cons n v p rest, dfn, ws => by
      rw [walkObjChildren_cons]
      exact StepQ.seq (walkValue_linksQ s cur hc v _ _ ws) (walkObjChildren_linksQ s cur hc rest dfn _)
  theorem walkListChildren_linksQ {Q : VarDef → Prop} (s : SV) (cur : Option OperationDef) (hc : CurQ Q cur) :
      ∀ (ch : Children) (exp : Option GType) (dfn : Option Definition) (ws : WS),
        StepQ Q ws (walkListChildren s cur exp dfn ch ws)
    | .nil, exp, dfn, ws => by
      have : walkListChildren s cur exp dfn .nil ws = (ws, []) := by unfold walkListChildren; rfl
      rw [this]; exact StepQ.id ws
    | .cons n v p rest, exp, dfn, ws => by
      rw [walkListChildren_cons]
      exact StepQ.seq (walkValue_linksQ s cur hc v _ _ ws) (walkListChildren_linksQ s cur hc rest exp dfn _)
end

theorem walkArgs_linksQ {Q : VarDef → Prop} (s : SV) (cur : Option OperationDef) (hc : CurQ Q cur)
    (defs : Option (List ArgDef)) : ∀ (args : List Argument) (ws : WS), StepQ Q ws (walkArgs s cur defs args ws)
  | [], ws => by simpa [walkArgs] using StepQ.id (Q := Q) ws
  | a :: rest, ws => by
    rw [walkArgs_cons]
    exact StepQ.seq (walkValue_linksQ s cur hc a.value _ _ ws) (walkArgs_linksQ s cur hc defs rest _)

theorem walkDirectiveItems_linksQ {Q : VarDef → Prop} (s : SV) (cur : Option OperationDef) (hc : CurQ Q cur)
    (parent : Option Definition) (loc : Bytes) :
    ∀ (ds : List Directive) (ws : WS), StepQ Q ws (walkDirectiveItems s cur parent loc ds ws)
  | [], ws => by simpa [walkDirectiveItems] using StepQ.id (Q := Q) ws
  | dir :: rest, ws => by
    simp only [walkDirectiveItems]
    have h1 := StepQ.snoc (walkArgs_linksQ (Q := Q) s cur hc ((s.directive? dir.name).map (·.args)) dir.args ws) cur
      (.directive dir (s.directive? dir.name) parent loc)
    have h2 := walkDirectiveItems_linksQ (Q := Q) s cur hc parent loc rest
      (walkArgs s cur ((s.directive? dir.name).map (·.args)) dir.args ws).1
    have := StepQ.seq h1 h2
    simpa [List.append_assoc] using this

theorem walkDirectives_linksQ {Q : VarDef → Prop} (s : SV) (cur : Option OperationDef) (hc : CurQ Q cur)
    (parent : Option Definition) (ds : List Directive) (loc : Bytes) (ws : WS) :
    StepQ Q ws (walkDirectives s cur parent ds loc ws) := by
  simp only [walkDirectives]
  exact StepQ.snoc (walkDirectiveItems_linksQ s cur hc parent loc ds ws) cur _

theorem markSel_stepQ {Q : VarDef → Prop} (ws : WS) (k : Nat) (r : WS × List Event) (h : StepQ Q (ws.markSel k) r) :
    StepQ Q ws r := fun h0 => h h0

def JumpQ (Q : VarDef → Prop) (J : Jump) : Prop :=
  ∀ parent sels (ws : WS) r, J parent sels ws = some r → StepQ Q ws r

mutual
  theorem walkSelection_linksQ {Q : VarDef → Prop} (s : SV) (d : QueryDoc) (cur : Option OperationDef) (hc : CurQ Q cur)
      (J : Jump) (hJ : JumpQ Q J) :
      ∀ (x : Selection) (parent : Option Definition) (ws : WS) r,
        walkSelection s d cur J parent x ws = some r → StepQ Q ws r
    | .field al nm args dirs sub p, parent, ws, r, h => by
      unfold walkSelection at h
      simp only at h
      split at h
      · cases h
      · rename_i r3 h3
        injection h with h
        subst h
        have hb := walkSelections_linksQ s d cur hc J hJ sub _ _ r3 h3
        have ha := walkArgs_linksQ (Q := Q) s cur hc
        have hd := walkDirectives_linksQ (Q := Q) s cur hc
        intro h0
        obtain ⟨a1, b1⟩ := ha _ args (ws.markSel p.start) h0
        obtain ⟨a2, b2⟩ := hd _ dirs locField _ a1
        obtain ⟨a3, b3⟩ := hb a2
        refine ⟨a3, fun e he => ?_⟩
        simp only [List.mem_append, List.mem_singleton] at he
        rcases he with ((he | he) | he) | he
        · exact b1 e he
        · exact b2 e he
        · exact b3 e he
        · rw [he]; exact a3
    | .inline tc dirs sub p, parent, ws, r, h => by
      unfold walkSelection at h
      simp only at h
      split at h
      · cases h
      · rename_i r3 h3
        injection h with h
        subst h
        have hb := walkSelections_linksQ s d cur hc J hJ sub _ _ r3 h3
        have hd := walkDirectives_linksQ (Q := Q) s cur hc
        intro h0
        obtain ⟨a2, b2⟩ := hd _ dirs locInlineFragment (ws.markSel p.start) h0
        obtain ⟨a3, b3⟩ := hb a2
        refine ⟨a3, fun e he => ?_⟩
        simp only [List.mem_append, List.mem_singleton] at he
        rcases he with (he | he) | he
        · exact b2 e he
        · exact b3 e he
        · rw [he]; exact a3
    | .spread nm dirs p, parent, ws, r, h => by
      unfold walkSelection at h
      simp only at h
      have hd := walkDirectives_linksQ (Q := Q) s cur hc
      cases hf : fragForName d nm with
      | none =>
        rw [hf] at h
        simp only at h
        injection h with h
        subst h
        exact markSel_stepQ ws p.start _ (StepQ.snoc (hd _ dirs locFragmentSpread (ws.markSel p.start)) cur _)
      | some f =>
        rw [hf] at h
        simp only at h
        split at h
        · injection h with h
          subst h
          exact markSel_stepQ ws p.start _ (StepQ.snoc (hd _ dirs locFragmentSpread (ws.markSel p.start)) cur _)
        · split at h
          · cases h
          · rename_i r3 h3
            injection h with h
            subst h
            intro h0
            obtain ⟨a1, b1⟩ := hd _ dirs locFragmentSpread (ws.markSel p.start) h0
            obtain ⟨a2, b2⟩ := hd _ f.dirs locFragmentDefinition _ (show LinksQ Q (WS.links { (walkDirectives s cur
              ((some f).bind fun f => s.type? f.typeCond) dirs locFragmentSpread (ws.markSel p.start)).1 with
                visited := f.name :: (walkDirectives s cur ((some f).bind fun f => s.type? f.typeCond) dirs
                  locFragmentSpread (ws.markSel p.start)).1.visited }) from a1)
            obtain ⟨a3, b3⟩ := hJ _ _ _ r3 h3 a2
            refine ⟨a3, fun e he => ?_⟩
            simp only [List.mem_append, List.mem_singleton] at he
            rcases he with ((he | he) | he) | he
            · exact b1 e he
            · exact b2 e he
            · exact b3 e he
            · rw [he]; exact a3
  theorem walkSelections_linksQ {Q : VarDef → Prop} (s : SV) (d : QueryDoc) (cur : Option OperationDef) (hc : CurQ Q cur)
      (J : Jump) (hJ : JumpQ Q J) :
      ∀ (xs : Selections) (parent : Option Definition) (ws : WS) r,
        walkSelections s d cur J parent xs ws = some r → StepQ Q ws r
    | .nil, parent, ws, r, h => by
      simp only [walkSelections] at h
      injection h with h
      subst h
      exact StepQ.id ws
    | .cons x rest, parent, ws, r, h => by
      unfold walkSelections at h
      split at h
      · cases h
      · rename_i r1 h1
        split at h
        · cases h
        · rename_i r2 h2
          injection h with h
          subst h
          exact StepQ.seq (walkSelection_linksQ s d cur hc J hJ x parent ws r1 h1)
            (walkSelections_linksQ s d cur hc J hJ rest parent r1.1 r2 h2)
end

theorem walkLevel_linksQ {Q : VarDef → Prop} (s : SV) (d : QueryDoc) (cur : Option OperationDef) (hc : CurQ Q cur) :
    ∀ n, JumpQ Q (walkLevel s d cur n)
  | 0 => by intro _ _ _ _ h; simp [walkLevel] at h
  | n + 1 => by
    intro parent sels ws r h
    simp only [walkLevel] at h
    exact walkSelections_linksQ s d cur hc _ (walkLevel_linksQ s d cur hc n) sels parent ws r h

theorem walkVarDefsB_linksQ {Q : VarDef → Prop} (s : SV) (cur : Option OperationDef) (hc : CurQ Q cur) :
    ∀ (vs : List VarDef) (ws : WS), StepQ Q ws (walkVarDefsB s cur vs ws)
  | [], ws => by simpa [walkVarDefsB] using StepQ.id (Q := Q) ws
  | v :: rest, ws => by
    simp only [walkVarDefsB]
    cases v.default with
    | none =>
      simp only
      have := StepQ.seq (StepQ.seq (StepQ.id (Q := Q) ws)
        (walkDirectives_linksQ s cur hc (s.type? v.type.name) v.dirs locVariableDefinition _))
        (walkVarDefsB_linksQ s cur hc rest _)
      simpa [List.append_assoc] using this
    | some dv =>
      simp only
      have := StepQ.seq (StepQ.seq (walkValue_linksQ (Q := Q) s cur hc dv (some v.type) (s.type? v.type.name) ws)
        (walkDirectives_linksQ s cur hc (s.type? v.type.name) v.dirs locVariableDefinition _))
        (walkVarDefsB_linksQ s cur hc rest _)
      simpa [List.append_assoc] using this

theorem walkVarDefsA_linksQ {Q : VarDef → Prop} (s : SV) (cur : Option OperationDef) (ws : WS) (h : LinksQ Q ws.links) :
    ∀ (vs : List VarDef), ∀ e ∈ walkVarDefsA s cur ws vs, LinksQ Q e.links
  | [], e, he => nomatch he
  | v :: rest, e, he => by
    simp only [walkVarDefsA] at he
    rcases List.mem_cons.1 he with he | he
    · rw [he]; exact h
    · exact walkVarDefsA_linksQ s cur ws h rest e he

theorem walkOperation_linksQ {Q : VarDef → Prop} (s : SV) (d : QueryDoc) (fuel : Nat) (op : OperationDef)
    (hc : ∀ vd ∈ op.vars, Q vd) (l : Links) (r : Links × List Event) (h : walkOperation s d fuel op l = some r)
    (h0 : LinksQ Q l) : LinksQ Q r.1 ∧ ∀ e ∈ r.2, LinksQ Q e.links := by
  have hcq : CurQ Q (some op) := by
    intro op' h'
    cases h'
    exact hc
  unfold walkOperation at h
  simp only at h
  split at h
  · cases h
  · rename_i r4 h4
    injection h with h
    subst h
    have hA := walkVarDefsA_linksQ (Q := Q) s (some op) { visited := [], links := l, used := [] } h0 op.vars
    obtain ⟨a2, b2⟩ := walkVarDefsB_linksQ (Q := Q) s (some op) hcq op.vars { visited := [], links := l, used := [] } h0
    obtain ⟨a3, b3⟩ := walkDirectives_linksQ (Q := Q) s (some op) hcq (opRoot s op.op).1 op.dirs (opRoot s op.op).2 _ a2
    obtain ⟨a4, b4⟩ := walkLevel_linksQ (Q := Q) s d (some op) hcq fuel _ _ _ r4 h4 a3
    refine ⟨a4, fun e he => ?_⟩
    simp only [List.mem_append, List.mem_singleton] at he
    rcases he with (((he | he) | he) | he) | he
    · exact hA e he
    · exact b2 e he
    · exact b3 e he
    · exact b4 e he
    · rw [he]; exact a4

theorem walkFragment_linksQ {Q : VarDef → Prop} (s : SV) (d : QueryDoc) (fuel : Nat) (f : FragmentDef)
    (l : Links) (r : Links × List Event) (h : walkFragment s d fuel f l = some r)
    (h0 : LinksQ Q l) : LinksQ Q r.1 ∧ ∀ e ∈ r.2, LinksQ Q e.links := by
  have hcq : CurQ Q none := by
    intro op' h'
    cases h'
  unfold walkFragment at h
  simp only at h
  split at h
  · cases h
  · rename_i r2 h2
    injection h with h
    subst h
    obtain ⟨a1, b1⟩ := walkDirectives_linksQ (Q := Q) s none hcq (s.type? f.typeCond) f.dirs locFragmentDefinition
      { visited := [], links := l, used := [] } h0
    obtain ⟨a2, b2⟩ := walkLevel_linksQ (Q := Q) s d none hcq fuel _ _ _ r2 h2 a1
    refine ⟨a2, fun e he => ?_⟩
    simp only [List.mem_append, List.mem_singleton] at he
    rcases he with (he | he) | he
    · exact b1 e he
    · exact b2 e he
    · rw [he]; exact a2

theorem walkOps_linksQ {Q : VarDef → Prop} (s : SV) (d : QueryDoc) (fuel : Nat) :
    ∀ (ops : List OperationDef), (∀ op ∈ ops, ∀ vd ∈ op.vars, Q vd) → ∀ (l : Links) (r : Links × List Event),
      walkOps s d fuel ops l = some r → LinksQ Q l → LinksQ Q r.1 ∧ ∀ e ∈ r.2, LinksQ Q e.links
  | [], _, l, r, h, h0 => by
    simp only [walkOps] at h
    injection h with h
    subst h
    exact ⟨h0, fun _ he => nomatch he⟩
  | op :: rest, hq, l, r, h, h0 => by
    unfold walkOps at h
    split at h
    · cases h
    · rename_i r1 h1
      split at h
      · cases h
      · rename_i r2 h2
        injection h with h
        subst h
        obtain ⟨a1, b1⟩ := walkOperation_linksQ s d fuel op (hq op List.mem_cons_self) l r1 h1 h0
        obtain ⟨a2, b2⟩ := walkOps_linksQ s d fuel rest (fun x hx => hq x (List.mem_cons_of_mem _ hx)) r1.1 r2 h2 a1
        exact ⟨a2, fun e he => (List.mem_append.1 he).elim (b1 e) (b2 e)⟩

theorem walkFrags_linksQ {Q : VarDef → Prop} (s : SV) (d : QueryDoc) (fuel : Nat) :
    ∀ (fs : List FragmentDef) (l : Links) (r : Links × List Event),
      walkFrags s d fuel fs l = some r → LinksQ Q l → LinksQ Q r.1 ∧ ∀ e ∈ r.2, LinksQ Q e.links
  | [], l, r, h, h0 => by
    simp only [walkFrags] at h
    injection h with h
    subst h
    exact ⟨h0, fun _ he => nomatch he⟩
  | f :: rest, l, r, h, h0 => by
    unfold walkFrags at h
    split at h
    · cases h
    · rename_i r1 h1
      split at h
      · cases h
      · rename_i r2 h2
        injection h with h
        subst h
        obtain ⟨a1, b1⟩ := walkFragment_linksQ (Q := Q) s d fuel f l r1 h1 h0
        obtain ⟨a2, b2⟩ := walkFrags_linksQ s d fuel rest r1.1 r2 h2 a1
        exact ⟨a2, fun e he => (List.mem_append.1 he).elim (b1 e) (b2 e)⟩

/-- in the snapshot of every event of a run, every `VariableDefinition` link is a variable
    definition of an operation of the document -/
theorem walkDoc_linksQ {Q : VarDef → Prop} (s : SV) (d : QueryDoc) (hQ : ∀ op ∈ d.ops, ∀ vd ∈ op.vars, Q vd)
    (evs : List Event) (h : walkDoc s d = some evs) : ∀ e ∈ evs, LinksQ Q e.links := by
  unfold walkDoc at h
  split at h
  · cases h
  · rename_i r1 h1
    split at h
    · cases h
    · rename_i r2 h2
      injection h with h
      subst h
      obtain ⟨a1, b1⟩ := walkOps_linksQ (Q := Q) s d _ d.ops hQ _ r1 h1 (LinksQ.empty Q)
      obtain ⟨_, b2⟩ := walkFrags_linksQ (Q := Q) s d _ d.frags _ r2 h2 a1
      exact fun e he => (List.mem_append.1 he).elim (b1 e) (b2 e)

end Gql.Validate
