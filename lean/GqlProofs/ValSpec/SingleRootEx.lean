import GqlProofs.ValSpec.SingleRoot3
/-
  SingleFieldSubscriptions (§5.2.3.1): kernel-checked examples for every hypothesis of
  `C08_SingleFieldSubscriptions` — satisfiable together, and the equivalence fails without each.
-/
namespace Gql.Validate
open Gql Gql.Validate.Rules

/- ---------- examples ---------- -/
namespace SingleRootEx

def at' (n : Nat) : Pos := { start := n, stop := n + 1, line := 1, col := n + 1 }

def mkDef (k : DefKind) (n : String) (ifaces : List Name := []) (members : List Name := []) : Definition :=
  { kind := k, desc := [], name := str n, dirs := [], interfaces := ifaces, fields := [], types := members,
    enumValues := [], pos := Pos.zero, builtIn := false }

/-- `schema { subscription: S }  interface I  type S implements I  type T  union U = S | T` -/
def schema : Schema :=
  { Schema.empty with
    subscription := some (str "S"),
    types := [(str "I", mkDef .interface "I"), (str "S", mkDef .object "S" [str "I"]), (str "T", mkDef .object "T"),
              (str "U", mkDef .union "U" [] [str "S", str "T"])],
    possibleTypes := [(str "I", [str "S"]), (str "S", [str "S"]), (str "T", [str "T"]), (str "U", [str "S", str "T"])] }

def fld (n : String) (o : Nat) (al : String := "") : Selection :=
  .field (str al) (str n) [] [] .nil (at' o)

def sub (sel : Selections) : OperationDef :=
  { op := str "subscription", name := [], vars := [], dirs := [], sel := sel, pos := at' 0 }

def frag (n : String) (tc : String) (o : Nat) (sel : Selections) : FragmentDef :=
  { name := str n, vars := [], typeCond := str tc, dirs := [], sel := sel, pos := at' o }

/-- `subscription { ...F ... on U { a } }  fragment F on I { a: a ...F }`: all hypotheses hold, both
    sides accept -/
def docGood : QueryDoc :=
  { ops := [sub (.cons (.spread (str "F") [] (at' 2)) (.cons (.inline (str "U") [] (.cons (fld "a" 4) .nil) (at' 3)) .nil))],
    frags := [frag "F" "I" 10 (.cons (fld "a" 12 "a") (.cons (.spread (str "F") [] (at' 14)) .nil))] }

/-- all hypotheses of `C08_SingleFieldSubscriptions` are satisfiable together (non-vacuity) -/
example : subscriptionRootExact schema = true ∧ Spec.fragmentSpreadTargetDefined docGood = true ∧
    (∀ f ∈ docGood.frags, f.typeCond ≠ []) ∧ subscriptionsSelectRoot schema docGood = true ∧
    rootKeysConsistent schema docGood = true ∧
    validate [singleFieldSubscriptions] schema docGood = .ok [] ∧ Spec.singleRootField schema docGood = true := by
  decide +kernel

/-- `subscription { a b }`: both sides reject -/
def docTwo : QueryDoc := { ops := [sub (.cons (fld "a" 2) (.cons (fld "b" 4) .nil))], frags := [] }

example : validate [singleFieldSubscriptions] schema docTwo ≠ .ok [] ∧ Spec.singleRootField schema docTwo = false := by
  decide +kernel

/-- hazard 1 (links): the step on an `operation` event whose side table has NOT linked the spread
    is silent although the specification rejects `subscription { ...F }  fragment F on S { a b }`.
    (No run produces such an event: `opLinked_walkDoc`.) -/
def docSpread2 : QueryDoc :=
  { ops := [sub (.cons (.spread (str "F") [] (at' 2)) .nil)],
    frags := [frag "F" "S" 10 (.cons (fld "a" 12) (.cons (fld "b" 14) .nil))] }

example : (singleFieldSubscriptionsStep schema.view docSpread2
      { cur := none, links := Links.empty, p := .operation (sub (.cons (.spread (str "F") [] (at' 2)) .nil)) [] }
        matches .ok []) ∧
    Spec.singleRootField schema docSpread2 = false ∧
    validate [singleFieldSubscriptions] schema docSpread2 ≠ .ok [] := by
  decide +kernel

/-- hazard 2 (`Spec.fragmentSpreadTargetDefined`): `subscription { ...Nope a b }` — the rule's walk
    returns at the undefined spread and sees no field; all other hypotheses hold -/
def docUndefined : QueryDoc :=
  { ops := [sub (.cons (.spread (str "Nope") [] (at' 2)) (.cons (fld "a" 4) (.cons (fld "b" 6) .nil)))], frags := [] }

example : validate [singleFieldSubscriptions] schema docUndefined = .ok [] ∧
    Spec.singleRootField schema docUndefined = false ∧
    Spec.fragmentSpreadTargetDefined docUndefined = false ∧
    subscriptionRootExact schema = true ∧ (∀ f ∈ docUndefined.frags, f.typeCond ≠ []) ∧
    subscriptionsSelectRoot schema docUndefined = true ∧ rootKeysConsistent schema docUndefined = true := by
  decide +kernel

/-- hazard 3 (`subscriptionsSelectRoot`): `subscription { ...F }  fragment F on S { ...F }` collects no
    root field: the rule is silent, the specification demands exactly one -/
def docZero : QueryDoc :=
  { ops := [sub (.cons (.spread (str "F") [] (at' 2)) .nil)],
    frags := [frag "F" "S" 10 (.cons (.spread (str "F") [] (at' 12)) .nil)] }

example : validate [singleFieldSubscriptions] schema docZero = .ok [] ∧
    Spec.singleRootField schema docZero = false ∧
    subscriptionsSelectRoot schema docZero = false ∧
    subscriptionRootExact schema = true ∧ Spec.fragmentSpreadTargetDefined docZero = true ∧
    (∀ f ∈ docZero.frags, f.typeCond ≠ []) ∧ rootKeysConsistent schema docZero = true := by
  decide +kernel

/-- … and `subscription { ... on T { a } }` (a fragment that does not apply) -/
def docZero' : QueryDoc :=
  { ops := [sub (.cons (.inline (str "T") [] (.cons (fld "a" 4) .nil) (at' 2)) .nil)], frags := [] }

example : validate [singleFieldSubscriptions] schema docZero' = .ok [] ∧
    Spec.singleRootField schema docZero' = false ∧ subscriptionsSelectRoot schema docZero' = false := by
  decide +kernel

/-- hazard 4 (`rootKeysConsistent`): `subscription { a: foo  a: __typename }` — the rule removes
    duplicates by response name first and never looks at the shadowed `__typename` -/
def docShadow : QueryDoc :=
  { ops := [sub (.cons (fld "foo" 2 "a") (.cons (fld "__typename" 6 "a") .nil))], frags := [] }

example : validate [singleFieldSubscriptions] schema docShadow = .ok [] ∧
    Spec.singleRootField schema docShadow = false ∧
    rootKeysConsistent schema docShadow = false ∧
    subscriptionRootExact schema = true ∧ Spec.fragmentSpreadTargetDefined docShadow = true ∧
    (∀ f ∈ docShadow.frags, f.typeCond ≠ []) ∧ subscriptionsSelectRoot schema docShadow = true := by
  decide +kernel

/-- hazard 5a (`subscriptionRootExact`, relations): the same schema with an empty `PossibleTypes`
    table; `subscription { ... on I { a b } }` — the rule does not enter the inline fragment -/
def schemaNoPossible : Schema := { schema with possibleTypes := [] }

def docOnI : QueryDoc :=
  { ops := [sub (.cons (.inline (str "I") [] (.cons (fld "a" 4) (.cons (fld "b" 6) .nil)) (at' 2)) .nil)], frags := [] }

example : validate [singleFieldSubscriptions] schemaNoPossible docOnI = .ok [] ∧
    Spec.singleRootField schemaNoPossible docOnI = false ∧
    subscriptionRootExact schemaNoPossible = false ∧
    Spec.fragmentSpreadTargetDefined docOnI = true ∧ (∀ f ∈ docOnI.frags, f.typeCond ≠ []) ∧
    subscriptionsSelectRoot schemaNoPossible docOnI = true ∧ rootKeysConsistent schemaNoPossible docOnI = true := by
  decide +kernel

/-- hazards 5b / 6 (`subscriptionRootExact`, root defined): the subscription root type is named but
    not defined; `subscription { a b }` — the rule reports, the specification does not judge -/
def schemaNoRoot : Schema := { schema with types := [(str "T", mkDef .object "T")] }

example : validate [singleFieldSubscriptions] schemaNoRoot docTwo ≠ .ok [] ∧
    Spec.singleRootField schemaNoRoot docTwo = true ∧
    subscriptionRootExact schemaNoRoot = false ∧
    Spec.fragmentSpreadTargetDefined docTwo = true ∧ (∀ f ∈ docTwo.frags, f.typeCond ≠ []) ∧
    subscriptionsSelectRoot schemaNoRoot docTwo = true ∧ rootKeysConsistent schemaNoRoot docTwo = true := by
  decide +kernel

/-- hazard 5c (`subscriptionRootExact`, root is an object): the subscription root is the interface
    `I`; `subscription { ... on I { a b } }` — the rule takes "the root type itself" to apply, the
    specification asks whether `I` implements `I` -/
def schemaIfaceRoot : Schema := { schema with subscription := some (str "I") }

example : validate [singleFieldSubscriptions] schemaIfaceRoot docOnI ≠ .ok [] ∧
    Spec.singleRootField schemaIfaceRoot docOnI = false := by
  decide +kernel

def docOnIOne : QueryDoc :=
  { ops := [sub (.cons (fld "c" 1) (.cons (.inline (str "I") [] (.cons (fld "a" 4) .nil) (at' 2)) .nil))], frags := [] }

example : validate [singleFieldSubscriptions] schemaIfaceRoot docOnIOne ≠ .ok [] ∧
    Spec.singleRootField schemaIfaceRoot docOnIOne = true ∧
    subscriptionRootExact schemaIfaceRoot = false ∧
    Spec.fragmentSpreadTargetDefined docOnIOne = true ∧ (∀ f ∈ docOnIOne.frags, f.typeCond ≠ []) ∧
    subscriptionsSelectRoot schemaIfaceRoot docOnIOne = true ∧ rootKeysConsistent schemaIfaceRoot docOnIOne = true := by
  decide +kernel

/-- hazard 5d (fragment definitions have a type condition): `subscription { c ...F }  fragment F on
    <empty> { b }` — the rule treats the empty type condition as "no condition", the specification
    looks the empty name up.  (The parser never produces an empty type condition.) -/
def docEmptyTc : QueryDoc :=
  { ops := [sub (.cons (fld "c" 1) (.cons (.spread (str "F") [] (at' 2)) .nil))],
    frags := [frag "F" "" 10 (.cons (fld "b" 12) .nil)] }

example : validate [singleFieldSubscriptions] schema docEmptyTc ≠ .ok [] ∧
    Spec.singleRootField schema docEmptyTc = true ∧
    ¬ (∀ f ∈ docEmptyTc.frags, f.typeCond ≠ []) ∧
    subscriptionRootExact schema = true ∧ Spec.fragmentSpreadTargetDefined docEmptyTc = true ∧
    subscriptionsSelectRoot schema docEmptyTc = true ∧ rootKeysConsistent schema docEmptyTc = true := by
  decide +kernel

end SingleRootEx

end Gql.Validate
