import GqlProofs.ValSpec.EventSets
/-
  `walk_parent_type`, first half: the parent definition the walker hands to a selection node is
  the one obtained by following the WALKER's own typing (`wFieldDef` / `wNext` / `wInline`) from
  the root type of the operation or the type condition of the fragment definition that contains
  the node — soundness and completeness, for every document.  (Second half, `TypedBridge.lean`:
  under `Spec.wellParented` the walker's typing is the declarative typing `Spec.typedSels`.)
-/
namespace Gql.Validate
open Gql

/-- `Field.Definition` as the walker computes it -/
def wFieldDef (parent : Option Definition) (nm : Name) : Option FieldDef :=
  if nm == nameTypename then some typenameDef
  else match parent with
    | some pd => fieldForName pd.fields nm
    | none => none

/-- parent definition inside the selection set of a field -/
def wNext (sv : SV) (parent : Option Definition) (nm : Name) : Option Definition :=
  (wFieldDef parent nm).bind fun fd => sv.type? fd.type.name

/-- parent definition inside an inline fragment -/
def wInline (sv : SV) (parent : Option Definition) (tc : Name) : Option Definition :=
  if tc != [] then sv.type? tc else parent

mutual
  /-- `InSelW sv p x p' y`: walking `x` with parent `p` reaches the node `y` with parent `p'` -/
  inductive InSelW (sv : SV) : Option Definition → Selection → Option Definition → Selection → Prop
    | self (p : Option Definition) (x : Selection) : InSelW sv p x p x
    | fieldSub (p : Option Definition) (al nm : Name) (args : List Argument) (dirs : List Directive)
        (sub : Selections) (pos : Pos) (p' : Option Definition) (y : Selection) :
        InSelsW sv (wNext sv p nm) sub p' y → InSelW sv p (.field al nm args dirs sub pos) p' y
    | inlineSub (p : Option Definition) (tc : Name) (dirs : List Directive) (sub : Selections) (pos : Pos)
        (p' : Option Definition) (y : Selection) :
        InSelsW sv (wInline sv p tc) sub p' y → InSelW sv p (.inline tc dirs sub pos) p' y
  inductive InSelsW (sv : SV) : Option Definition → Selections → Option Definition → Selection → Prop
    | head (p : Option Definition) (x : Selection) (rest : Selections) (p' : Option Definition) (y : Selection) :
        InSelW sv p x p' y → InSelsW sv p (.cons x rest) p' y
    | tail (p : Option Definition) (x : Selection) (rest : Selections) (p' : Option Definition) (y : Selection) :
        InSelsW sv p rest p' y → InSelsW sv p (.cons x rest) p' y
end

/-- the node `y` with parent `p'` occurs in the document under the walker's typing -/
def InDocW (sv : SV) (d : QueryDoc) (p' : Option Definition) (y : Selection) : Prop :=
  (∃ op ∈ d.ops, InSelsW sv (opRoot sv op.op).1 op.sel p' y) ∨
  (∃ f ∈ d.frags, InSelsW sv (sv.type? f.typeCond) f.sel p' y)

def TSound (sv : SV) (d : QueryDoc) : Payload → Prop
  | .field f parent dfn =>
    InDocW sv d parent (.field f.alias f.name f.args f.dirs f.sel f.pos) ∧ dfn = wFieldDef parent f.name
  | .inlineFragment f parent => InDocW sv d parent (.inline f.typeCond f.dirs f.sel f.pos)
  | .fragmentSpread f _ parent => InDocW sv d parent (.spread f.name f.dirs f.pos)
  | _ => True

theorem tSound_valSites (sv : SV) (d : QueryDoc) : ValSites sv (TSound sv d) :=
  { value := fun _ _ _ => trivial, directive := fun _ _ _ => trivial, directiveList := fun _ => trivial }

def JumpW (sv : SV) (d : QueryDoc) (J : Jump) : Prop :=
  ∀ parent sels (ws : WS) r, (∀ p' y, InSelsW sv parent sels p' y → InDocW sv d p' y) → J parent sels ws = some r →
    AllP (TSound sv d) r.2

mutual
  theorem walkSelection_w (s : SV) (d : QueryDoc) (cur : Option OperationDef) (J : Jump) (hJ : JumpW s d J) :
      ∀ (x : Selection) (parent : Option Definition) (ws : WS) r,
        (∀ p' y, InSelW s parent x p' y → InDocW s d p' y) →
        walkSelection s d cur J parent x ws = some r → AllP (TSound s d) r.2
    | .field al nm args dirs sub p, parent, ws, r, hx, h => by
      unfold walkSelection at h
      simp only at h
      split at h
      · cases h
      · rename_i r3 h3
        injection h with h
        subst h
        have hb := walkSelections_w s d cur J hJ sub _ _ r3
          (fun p' y hi => hx p' y (InSelW.fieldSub parent al nm args dirs sub p p' y hi)) h3
        refine AllP.append (AllP.append (AllP.append (walkArgs_all (tSound_valSites s d).value cur _ args _)
          (walkDirectives_all (tSound_valSites s d) cur _ dirs _ _)) hb) (AllP.single ?_)
        exact ⟨hx _ _ (InSelW.self _ _), rfl⟩
    | .inline tc dirs sub p, parent, ws, r, hx, h => by
      unfold walkSelection at h
      simp only at h
      split at h
      · cases h
      · rename_i r3 h3
        injection h with h
        subst h
        have hb := walkSelections_w s d cur J hJ sub _ _ r3
          (fun p' y hi => hx p' y (InSelW.inlineSub parent tc dirs sub p p' y hi)) h3
        exact AllP.append (AllP.append (walkDirectives_all (tSound_valSites s d) cur _ dirs _ _) hb)
          (AllP.single (hx _ _ (InSelW.self _ _)))
    | .spread nm dirs p, parent, ws, r, hx, h => by
      unfold walkSelection at h
      simp only at h
      have hd := fun par w => walkDirectives_all (tSound_valSites s d) cur par dirs locFragmentSpread w
      have hself : TSound s d (.fragmentSpread ⟨nm, dirs, p⟩ (fragForName d nm) parent) := hx _ _ (InSelW.self _ _)
      cases hf : fragForName d nm with
      | none =>
        rw [hf] at h hself
        simp only at h
        injection h with h
        subst h
        exact AllP.append (hd _ _) (AllP.single hself)
      | some f =>
        rw [hf] at h hself
        simp only at h
        split at h
        · injection h with h
          subst h
          exact AllP.append (hd _ _) (AllP.single hself)
        · split at h
          · cases h
          · rename_i r3 h3
            injection h with h
            subst h
            have hb := hJ _ _ _ r3 (fun p' y hi => Or.inr ⟨f, fragForName_mem hf, hi⟩) h3
            exact AllP.append (AllP.append (AllP.append (hd _ _)
              (walkDirectives_all (tSound_valSites s d) cur _ f.dirs _ _)) hb) (AllP.single hself)
  theorem walkSelections_w (s : SV) (d : QueryDoc) (cur : Option OperationDef) (J : Jump) (hJ : JumpW s d J) :
      ∀ (xs : Selections) (parent : Option Definition) (ws : WS) r,
        (∀ p' y, InSelsW s parent xs p' y → InDocW s d p' y) →
        walkSelections s d cur J parent xs ws = some r → AllP (TSound s d) r.2
    | .nil, parent, ws, r, hx, h => by
      simp only [walkSelections] at h
      injection h with h
      subst h
      exact AllP.nil
    | .cons x rest, parent, ws, r, hx, h => by
      unfold walkSelections at h
      split at h
      · cases h
      · rename_i r1 h1
        split at h
        · cases h
        · rename_i r2 h2
          injection h with h
          subst h
          exact AllP.append
            (walkSelection_w s d cur J hJ x parent ws r1 (fun p' y hi => hx p' y (InSelsW.head parent x rest p' y hi)) h1)
            (walkSelections_w s d cur J hJ rest parent r1.1 r2 (fun p' y hi => hx p' y (InSelsW.tail parent x rest p' y hi)) h2)
end

theorem walkLevel_w (s : SV) (d : QueryDoc) (cur : Option OperationDef) : ∀ n, JumpW s d (walkLevel s d cur n)
  | 0 => by intro _ _ _ _ _ h; simp [walkLevel] at h
  | n + 1 => by
    intro parent sels ws r hx h
    simp only [walkLevel] at h
    exact walkSelections_w s d cur _ (walkLevel_w s d cur n) sels parent ws r hx h

theorem walkVarDefsA_w (s : SV) (d : QueryDoc) (cur : Option OperationDef) (ws : WS) :
    ∀ vs : List VarDef, AllP (TSound s d) (walkVarDefsA s cur ws vs)
  | [] => AllP.nil
  | v :: rest => by
    simp only [walkVarDefsA]
    exact AllP.cons trivial (walkVarDefsA_w s d cur ws rest)

theorem walkOperation_w (s : SV) (d : QueryDoc) (fuel : Nat) (op : OperationDef) (hop : op ∈ d.ops) (l : Links)
    (r : Links × List Event) (h : walkOperation s d fuel op l = some r) : AllP (TSound s d) r.2 := by
  unfold walkOperation at h
  simp only at h
  split at h
  · cases h
  · rename_i r4 h4
    injection h with h
    subst h
    have hb := walkLevel_w s d (some op) fuel _ _ _ r4 (fun p' y hi => Or.inl ⟨op, hop, hi⟩) h4
    exact AllP.append (AllP.append (AllP.append (AllP.append (walkVarDefsA_w s d _ _ _)
      (walkVarDefsB_all (tSound_valSites s d) _ _ _)) (walkDirectives_all (tSound_valSites s d) _ _ _ _ _)) hb)
      (AllP.single trivial)

theorem walkFragment_w (s : SV) (d : QueryDoc) (fuel : Nat) (f : FragmentDef) (hf : f ∈ d.frags) (l : Links)
    (r : Links × List Event) (h : walkFragment s d fuel f l = some r) : AllP (TSound s d) r.2 := by
  unfold walkFragment at h
  simp only at h
  split at h
  · cases h
  · rename_i r2 h2
    injection h with h
    subst h
    have hb := walkLevel_w s d none fuel _ _ _ r2 (fun p' y hi => Or.inr ⟨f, hf, hi⟩) h2
    exact AllP.append (AllP.append (walkDirectives_all (tSound_valSites s d) _ _ _ _ _) hb) (AllP.single trivial)

theorem walkOps_w (s : SV) (d : QueryDoc) (fuel : Nat) :
    ∀ (ops : List OperationDef), (∀ op ∈ ops, op ∈ d.ops) → ∀ (l : Links) (r : Links × List Event),
      walkOps s d fuel ops l = some r → AllP (TSound s d) r.2
  | [], _, l, r, h => by
    simp only [walkOps] at h
    injection h with h
    subst h
    exact AllP.nil
  | op :: rest, hsub, l, r, h => by
    unfold walkOps at h
    split at h
    · cases h
    · rename_i r1 h1
      split at h
      · cases h
      · rename_i r2 h2
        injection h with h
        subst h
        exact AllP.append (walkOperation_w s d fuel op (hsub op List.mem_cons_self) l r1 h1)
          (walkOps_w s d fuel rest (fun x hx => hsub x (List.mem_cons_of_mem _ hx)) r1.1 r2 h2)

theorem walkFrags_w (s : SV) (d : QueryDoc) (fuel : Nat) :
    ∀ (fs : List FragmentDef), (∀ f ∈ fs, f ∈ d.frags) → ∀ (l : Links) (r : Links × List Event),
      walkFrags s d fuel fs l = some r → AllP (TSound s d) r.2
  | [], _, l, r, h => by
    simp only [walkFrags] at h
    injection h with h
    subst h
    exact AllP.nil
  | f :: rest, hsub, l, r, h => by
    unfold walkFrags at h
    split at h
    · cases h
    · rename_i r1 h1
      split at h
      · cases h
      · rename_i r2 h2
        injection h with h
        subst h
        exact AllP.append (walkFragment_w s d fuel f (hsub f List.mem_cons_self) l r1 h1)
          (walkFrags_w s d fuel rest (fun x hx => hsub x (List.mem_cons_of_mem _ hx)) r1.1 r2 h2)

/-- soundness of the walker's parents: every selection event carries the parent (and, for a
    field, the definition) that the walker's typing assigns to that node of the document -/
theorem walkDoc_w (s : SV) (d : QueryDoc) (evs : List Event) (h : walkDoc s d = some evs) :
    AllP (TSound s d) evs := by
  unfold walkDoc at h
  split at h
  · cases h
  · rename_i r1 h1
    split at h
    · cases h
    · rename_i r2 h2
      injection h with h
      subst h
      exact AllP.append (walkOps_w s d _ d.ops (fun _ h => h) _ r1 h1) (walkFrags_w s d _ d.frags (fun _ h => h) _ r2 h2)

/- ---------- completeness ---------- -/

/-- the node `y` has an event with parent `p'` -/
def HasNode (d : QueryDoc) (evs : List Event) (p' : Option Definition) : Selection → Prop
  | .field al nm args dirs sub p =>
    ∃ e ∈ evs, e.p = .field ⟨al, nm, args, dirs, sub, p⟩ p' (wFieldDef p' nm)
  | .inline tc dirs sub p => ∃ e ∈ evs, e.p = .inlineFragment ⟨tc, dirs, sub, p⟩ p'
  | .spread nm dirs p => ∃ e ∈ evs, e.p = .fragmentSpread ⟨nm, dirs, p⟩ (fragForName d nm) p'

theorem HasNode.inl {d : QueryDoc} {a : List Event} (b : List Event) {p' : Option Definition} :
    ∀ {y : Selection}, HasNode d a p' y → HasNode d (a ++ b) p' y
  | .field .., ⟨e, he, x⟩ => ⟨e, List.mem_append_left _ he, x⟩
  | .inline .., ⟨e, he, x⟩ => ⟨e, List.mem_append_left _ he, x⟩
  | .spread .., ⟨e, he, x⟩ => ⟨e, List.mem_append_left _ he, x⟩

theorem HasNode.inr {d : QueryDoc} {b : List Event} (a : List Event) {p' : Option Definition} :
    ∀ {y : Selection}, HasNode d b p' y → HasNode d (a ++ b) p' y
  | .field .., ⟨e, he, x⟩ => ⟨e, List.mem_append_right _ he, x⟩
  | .inline .., ⟨e, he, x⟩ => ⟨e, List.mem_append_right _ he, x⟩
  | .spread .., ⟨e, he, x⟩ => ⟨e, List.mem_append_right _ he, x⟩

mutual
  theorem walkSelection_hasW (s : SV) (d : QueryDoc) (cur : Option OperationDef) (J : Jump) :
      ∀ (x : Selection) (parent : Option Definition) (ws : WS) r, walkSelection s d cur J parent x ws = some r →
        ∀ p' y, InSelW s parent x p' y → HasNode d r.2 p' y
    | .field al nm args dirs sub p, parent, ws, r, h, p', y, hi => by
      unfold walkSelection at h
      simp only at h
      split at h
      · cases h
      · rename_i r3 h3
        injection h with h
        subst h
        cases hi with
        | self => exact HasNode.inr _ ⟨_, List.mem_singleton.2 rfl, rfl⟩
        | fieldSub _ _ _ _ _ _ _ _ _ hs =>
          exact HasNode.inl _ (HasNode.inr _ (walkSelections_hasW s d cur J sub _ _ r3 h3 p' y hs))
    | .inline tc dirs sub p, parent, ws, r, h, p', y, hi => by
      unfold walkSelection at h
      simp only at h
      split at h
      · cases h
      · rename_i r3 h3
        injection h with h
        subst h
        cases hi with
        | self => exact HasNode.inr _ ⟨_, List.mem_singleton.2 rfl, rfl⟩
        | inlineSub _ _ _ _ _ _ _ hs =>
          exact HasNode.inl _ (HasNode.inr _ (walkSelections_hasW s d cur J sub _ _ r3 h3 p' y hs))
    | .spread nm dirs p, parent, ws, r, h, p', y, hi => by
      unfold walkSelection at h
      simp only at h
      cases hi with
      | self =>
        cases hf : fragForName d nm with
        | none =>
          rw [hf] at h
          simp only at h
          injection h with h
          subst h
          exact HasNode.inr _ ⟨_, List.mem_singleton.2 rfl, by rw [hf]⟩
        | some f =>
          rw [hf] at h
          simp only at h
          split at h
          · injection h with h
            subst h
            exact HasNode.inr _ ⟨_, List.mem_singleton.2 rfl, by rw [hf]⟩
          · split at h
            · cases h
            · rename_i r3 h3
              injection h with h
              subst h
              exact HasNode.inr _ ⟨_, List.mem_singleton.2 rfl, by rw [hf]⟩
  theorem walkSelections_hasW (s : SV) (d : QueryDoc) (cur : Option OperationDef) (J : Jump) :
      ∀ (xs : Selections) (parent : Option Definition) (ws : WS) r, walkSelections s d cur J parent xs ws = some r →
        ∀ p' y, InSelsW s parent xs p' y → HasNode d r.2 p' y
    | .nil, parent, ws, r, h, p', y, hi => by cases hi
    | .cons x rest, parent, ws, r, h, p', y, hi => by
      unfold walkSelections at h
      split at h
      · cases h
      · rename_i r1 h1
        split at h
        · cases h
        · rename_i r2 h2
          injection h with h
          subst h
          cases hi with
          | head _ _ _ _ _ hx => exact HasNode.inl _ (walkSelection_hasW s d cur J x parent ws r1 h1 p' y hx)
          | tail _ _ _ _ _ hx => exact HasNode.inr _ (walkSelections_hasW s d cur J rest parent r1.1 r2 h2 p' y hx)
end

theorem walkOperation_hasW (s : SV) (d : QueryDoc) (k : Nat) (op : OperationDef) (l : Links)
    (r : Links × List Event) (h : walkOperation s d (k + 1) op l = some r) :
    ∀ p' y, InSelsW s (opRoot s op.op).1 op.sel p' y → HasNode d r.2 p' y := by
  intro p' y hi
  unfold walkOperation at h
  simp only at h
  split at h
  · cases h
  · rename_i r4 h4
    injection h with h
    subst h
    simp only [walkLevel] at h4
    exact HasNode.inl _ (HasNode.inr _ (walkSelections_hasW s d _ _ op.sel _ _ r4 h4 p' y hi))

theorem walkFragment_hasW (s : SV) (d : QueryDoc) (k : Nat) (f : FragmentDef) (l : Links)
    (r : Links × List Event) (h : walkFragment s d (k + 1) f l = some r) :
    ∀ p' y, InSelsW s (s.type? f.typeCond) f.sel p' y → HasNode d r.2 p' y := by
  intro p' y hi
  unfold walkFragment at h
  simp only at h
  split at h
  · cases h
  · rename_i r2 h2
    injection h with h
    subst h
    simp only [walkLevel] at h2
    exact HasNode.inl _ (HasNode.inr _ (walkSelections_hasW s d _ _ f.sel _ _ r2 h2 p' y hi))

theorem walkOps_hasW (s : SV) (d : QueryDoc) (k : Nat) :
    ∀ (ops : List OperationDef) (l : Links) (r : Links × List Event), walkOps s d (k + 1) ops l = some r →
      ∀ op ∈ ops, ∀ p' y, InSelsW s (opRoot s op.op).1 op.sel p' y → HasNode d r.2 p' y
  | [], _, _, _, op, hop, _, _, _ => by cases hop
  | o :: rest, l, r, h, op, hop, p', y, hi => by
    unfold walkOps at h
    split at h
    · cases h
    · rename_i r1 h1
      split at h
      · cases h
      · rename_i r2 h2
        injection h with h
        subst h
        rcases List.mem_cons.1 hop with rfl | hop
        · exact HasNode.inl _ (walkOperation_hasW s d k op l r1 h1 p' y hi)
        · exact HasNode.inr _ (walkOps_hasW s d k rest r1.1 r2 h2 op hop p' y hi)

theorem walkFrags_hasW (s : SV) (d : QueryDoc) (k : Nat) :
    ∀ (fs : List FragmentDef) (l : Links) (r : Links × List Event), walkFrags s d (k + 1) fs l = some r →
      ∀ f ∈ fs, ∀ p' y, InSelsW s (s.type? f.typeCond) f.sel p' y → HasNode d r.2 p' y
  | [], _, _, _, f, hf, _, _, _ => by cases hf
  | o :: rest, l, r, h, f, hf, p', y, hi => by
    unfold walkFrags at h
    split at h
    · cases h
    · rename_i r1 h1
      split at h
      · cases h
      · rename_i r2 h2
        injection h with h
        subst h
        rcases List.mem_cons.1 hf with rfl | hf
        · exact HasNode.inl _ (walkFragment_hasW s d k f l r1 h1 p' y hi)
        · exact HasNode.inr _ (walkFrags_hasW s d k rest r1.1 r2 h2 f hf p' y hi)

/-- completeness: every node of the document has an event carrying the parent of the walker's typing -/
theorem walkDoc_hasW (s : SV) (d : QueryDoc) (evs : List Event) (h : walkDoc s d = some evs) :
    ∀ p' y, InDocW s d p' y → HasNode d evs p' y := by
  intro p' y hi
  unfold walkDoc at h
  split at h
  · cases h
  · rename_i r1 h1
    split at h
    · cases h
    · rename_i r2 h2
      injection h with h
      subst h
      rcases hi with ⟨op, hop, hi⟩ | ⟨f, hf, hi⟩
      · exact HasNode.inl _ (walkOps_hasW s d _ d.ops _ r1 h1 op hop p' y hi)
      · exact HasNode.inr _ (walkFrags_hasW s d _ d.frags _ r2 h2 f hf p' y hi)

end Gql.Validate
