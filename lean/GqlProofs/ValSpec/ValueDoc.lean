import GqlProofs.ValSpec.VarLinks
/-
  C09, value links of a whole run.

  `SpecValOcc s d o`: `o` is a value node of the document in the context the SPECIFICATION gives it —
  it occurs in (the value of) an argument of a site of `Spec.argSites` (arguments of fields, typed
  by the field definition on the declarative parent type; arguments of directives, typed by the
  directive definition), or in the default value of a variable definition.

  `walkDoc_values_sound` / `walkDoc_values_complete`: for a well-parented document the value events
  of a run are exactly these occurrences, and wherever the specification demands the expected type
  and definition (`o.typed`), the event carries exactly them.
-/
namespace Gql.Validate
open Gql

/-- a value occurrence under the WALKER's typing of the selection nodes -/
def WValOcc (s : Schema) (d : QueryDoc) (o : ValOcc) : Prop :=
  (∃ defs args, ArgCall s.view d defs args ∧ o ∈ argOccs s defs args) ∨
  (∃ op ∈ d.ops, ∃ vd ∈ op.vars, ∃ dv, vd.default = some dv ∧
    o ∈ valOccs s true (some vd.type) (s.type? vd.type.name) dv)

/-- a value occurrence under the specification's typing -/
def SpecValOcc (s : Schema) (d : QueryDoc) (o : ValOcc) : Prop :=
  (∃ site ∈ Spec.argSites s d, o ∈ argOccs s site.defs site.args) ∨
  (∃ op ∈ d.ops, ∃ vd ∈ op.vars, ∃ dv, vd.default = some dv ∧
    o ∈ valOccs s true (some vd.type) (s.type? vd.type.name) dv)

theorem Built.value_sound {s : Schema} {d : QueryDoc} {a b : VLinks} {es : List Event} (h : Built s.view d a es b) :
    ∀ e ∈ es, e.p.isValue → CurOK d e.cur ∧ ∃ o, WValOcc s d o ∧ EvOcc e.cur e o := by
  induction h with
  | nil l => intro e he; cases he
  | append _ _ ih1 ih2 =>
    intro e he hv
    rcases List.mem_append.1 he with he | he
    · exact ih1 e he hv
    · exact ih2 e he hv
  | args cur defs args ws hc hcall =>
    intro e he _
    obtain ⟨o, ho, heo⟩ := walkArgs_occ_sound s cur defs args ws e he
    have hcur : e.cur = cur := heo.1
    rw [hcur]
    exact ⟨hc, o, Or.inl ⟨defs, args, hcall, ho⟩, heo⟩
  | default op vd dv ws hop hvd hdv =>
    intro e he _
    obtain ⟨o, ho, heo⟩ := walkValue_occ_sound s (some op) dv true _ _ _ _ ws (Agree.rfl' _ _ _) e he
    have hcur : e.cur = some op := heo.1
    rw [hcur]
    refine ⟨fun o' ho' => ?_, o, Or.inr ⟨op, hop, vd, hvd, dv, hdv, ho⟩, heo⟩
    injection ho' with ho'
    subst ho'
    exact hop
  | vdef op vd l _ _ =>
    intro e' he' hv'
    rw [List.mem_singleton.1 he'] at hv'
    exact absurd hv' (fun h => h)
  | ev e hv =>
    intro e' he' hv'
    rw [List.mem_singleton.1 he'] at hv'
    exact absurd hv' hv.notValue

/-- soundness under the walker's typing: every value event is about a value occurrence of the
    document and carries what the specification demands of it -/
theorem walkDoc_values_soundW (s : Schema) (d : QueryDoc) (evs : List Event) (hw : walkDoc s.view d = some evs) :
    ∀ e ∈ evs, e.p.isValue → CurOK d e.cur ∧ ∃ o, WValOcc s d o ∧ EvOcc e.cur e o := by
  obtain ⟨l, hb⟩ := walkDoc_built s.view d evs hw
  exact hb.value_sound

theorem nodeDone_dirs {sv : SV} {cur : Option OperationDef} {es : List Event} {p' : Option Definition} :
    ∀ {y : Selection}, NodeDone sv cur es p' y → HasDirArgs sv cur es (Spec.selDirs y)
  | .field .., h => h.2
  | .inline .., h => h
  | .spread .., h => h

/-- every argument list the walker's typing knows of has been walked (on behalf of some `cur`) -/
theorem walkDoc_argCall_done (sv : SV) (d : QueryDoc) (evs : List Event) (hw : walkDoc sv d = some evs)
    (defs : Option (List ArgDef)) (args : List Argument) (h : ArgCall sv d defs args) :
    ∃ cur, HasArgs sv cur evs defs args := by
  obtain ⟨hops, hfrags⟩ := walkDoc_reach sv d evs hw
  cases h with
  | field p' al nm args dirs sub pos hin =>
    rcases hin with ⟨op, hop, hi⟩ | ⟨f, hf, hi⟩
    · exact ⟨some op, ((hops op hop).nodes _ _ hi).1⟩
    · exact ⟨none, ((hfrags f hf).2 _ _ hi).1⟩
  | directive loc ds dir hin hd =>
    rcases hin with ⟨op, hop, hi | hi | ⟨v, hv, hi⟩⟩ | ⟨f, hf, hi | hi⟩
    · obtain ⟨y, hy, _, rfl⟩ := inSels_dirs_inv _ _ _ hi
      obtain ⟨p', hp'⟩ := inSels_lift sv op.sel (opRoot sv op.op).1 y hy
      exact ⟨some op, nodeDone_dirs ((hops op hop).nodes _ _ hp') dir hd⟩
    · injection hi with _ h2
      subst h2
      exact ⟨some op, (hops op hop).dirs dir hd⟩
    · injection hi with _ h2
      subst h2
      exact ⟨some op, (hops op hop).varDirs v hv dir hd⟩
    · obtain ⟨y, hy, _, rfl⟩ := inSels_dirs_inv _ _ _ hi
      obtain ⟨p', hp'⟩ := inSels_lift sv f.sel (sv.type? f.typeCond) y hy
      exact ⟨none, nodeDone_dirs ((hfrags f hf).2 _ _ hp') dir hd⟩
    · injection hi with _ h2
      subst h2
      exact ⟨none, (hfrags f hf).1 dir hd⟩

/-- completeness under the walker's typing -/
theorem walkDoc_values_completeW (s : Schema) (d : QueryDoc) (evs : List Event) (hw : walkDoc s.view d = some evs) :
    ∀ o, WValOcc s d o → ∃ e ∈ evs, EvOcc e.cur e o := by
  intro o ho
  rcases ho with ⟨defs, args, hcall, ho⟩ | ⟨op, hop, vd, hvd, dv, hdv, ho⟩
  · obtain ⟨cur, ws, hsub⟩ := walkDoc_argCall_done s.view d evs hw defs args hcall
    obtain ⟨e, he, heo⟩ := walkArgs_occ_complete s cur defs args ws o ho
    have hcur : e.cur = cur := heo.1
    exact ⟨e, hsub e he, by rw [hcur]; exact heo⟩
  · obtain ⟨ws, hsub⟩ := ((walkDoc_reach s.view d evs hw).1 op hop).defaults vd hvd dv hdv
    obtain ⟨e, he, heo⟩ := walkValue_occ_complete s (some op) dv true _ _ _ _ ws (Agree.rfl' _ _ _) o ho
    have hcur : e.cur = some op := heo.1
    exact ⟨e, hsub e he, by rw [hcur]; exact heo⟩

/- ---------- walker's typing = specification's typing, for well-parented documents ---------- -/

theorem argCall_iff (s : Schema) (d : QueryDoc) (hwp : Spec.wellParented s d = true)
    (hk : ∀ op ∈ d.ops, op.op ∈ parserOpKinds) (defs : Option (List ArgDef)) (args : List Argument) :
    ArgCall s.view d defs args ↔ ∃ site ∈ Spec.argSites s d, site.defs = defs ∧ site.args = args := by
  have hwp' := hwp
  unfold Spec.wellParented at hwp'
  simp only [List.all_eq_true] at hwp'
  constructor
  · intro h
    cases h with
    | field p' al nm args dirs sub pos hin =>
      have hmem := (inDocW_iff s d hwp _ _).1 hin
      refine ⟨⟨(p'.bind (Spec.fieldDefOn · nm)).map (·.args), args⟩, ?_, ?_, rfl⟩
      · simp only [Spec.argSites, List.mem_append, Spec.fieldArgSites, List.mem_filterMap]
        exact Or.inl ⟨_, hmem, rfl⟩
      · rw [wFieldDef_eq p' al nm args dirs sub pos (hwp' _ hmem)]
    | directive loc ds dir hin hd =>
      have hmem := (directiveSites_iff s d hk loc ds).2 hin
      refine ⟨⟨(s.directive? dir.name).map (·.args), dir.args⟩, ?_, rfl, rfl⟩
      simp only [Spec.argSites, List.mem_append, Spec.directiveArgSites, Spec.allDirectives, List.mem_map,
        List.mem_flatMap]
      exact Or.inr ⟨dir, ⟨(loc, ds), hmem, hd⟩, rfl⟩
  · rintro ⟨site, hsite, rfl, rfl⟩
    simp only [Spec.argSites, List.mem_append] at hsite
    rcases hsite with hsite | hsite
    · simp only [Spec.fieldArgSites, List.mem_filterMap] at hsite
      obtain ⟨⟨par, sel⟩, ht, hm⟩ := hsite
      cases sel with
      | spread nm dirs p => cases hm
      | inline tc dirs sub p => cases hm
      | field al nm args dirs sub p =>
        simp only [Option.some.injEq] at hm
        subst hm
        have hin := (inDocW_iff s d hwp _ _).2 ht
        have := ArgCall.field (sv := s.view) (d := d) par al nm args dirs sub p hin
        rw [wFieldDef_eq par al nm args dirs sub p (hwp' _ ht)] at this
        exact this
    · simp only [Spec.directiveArgSites, Spec.allDirectives, List.mem_map, List.mem_flatMap] at hsite
      obtain ⟨dir, ⟨⟨loc, ds⟩, hls, hd⟩, rfl⟩ := hsite
      exact ArgCall.directive loc ds dir ((directiveSites_iff s d hk loc ds).1 hls) hd

theorem wValOcc_iff (s : Schema) (d : QueryDoc) (hwp : Spec.wellParented s d = true)
    (hk : ∀ op ∈ d.ops, op.op ∈ parserOpKinds) (o : ValOcc) : WValOcc s d o ↔ SpecValOcc s d o := by
  unfold WValOcc SpecValOcc
  constructor
  · rintro (⟨defs, args, hc, ho⟩ | h)
    · obtain ⟨site, hs, rfl, rfl⟩ := (argCall_iff s d hwp hk defs args).1 hc
      exact Or.inl ⟨site, hs, ho⟩
    · exact Or.inr h
  · rintro (⟨site, hs, ho⟩ | h)
    · exact Or.inl ⟨site.defs, site.args, (argCall_iff s d hwp hk _ _).2 ⟨site, hs, rfl, rfl⟩, ho⟩
    · exact Or.inr h

end Gql.Validate
