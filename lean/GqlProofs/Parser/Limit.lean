import GqlProofs.Parser.Run
/-
  The token limit lives only in `next`/`nextNC`.  Running the same program under a stricter limit
  `L` and a laxer limit `L'` from the same state stays in lock step until the `L`-run trips the
  limit; from then on the `L`-run is frozen (sticky error) and the `L'`-run has counted more than
  `L` tokens.
-/
namespace Gql.Parser
open Gql Gql.Lexer

/-- `L` is at least as strict as `L'` (0 = unlimited) -/
def Stricter (L L' : Nat) : Prop := L' = 0 ∨ (L ≠ 0 ∧ L ≤ L')

/-! ### token count is monotone -/

theorem lexRead_tc (s : PState) : s.lexRead.2.2.tokenCount = s.tokenCount := by
  unfold PState.lexRead; split <;> rfl

@[simp] theorem readPeek_tc (s : PState) : s.readPeek.tokenCount = s.tokenCount := by
  simp [PState.readPeek, lexRead_tc]

@[simp] theorem readPrev_tc (s : PState) : s.readPrev.tokenCount = s.tokenCount + 1 := by
  simp [PState.readPrev]

@[simp] theorem trip_tc (L : Nat) (s : PState) : (s.trip L).tokenCount = s.tokenCount + 1 := rfl
@[simp] theorem trip_err (L : Nat) (s : PState) : (s.trip L).err = some (.limit L) := rfl
@[simp] theorem takePeeked_tc (s : PState) : s.takePeeked.tokenCount = s.tokenCount + 1 := rfl

theorem peekNC_tc (s : PState) : s.peekNC.2.tokenCount = s.tokenCount := by
  unfold PState.peekNC
  split
  · rfl
  · split
    · rfl
    · simp

theorem nextNC_tc (L : Nat) (s : PState) : s.tokenCount ≤ (s.nextNC L).2.tokenCount := by
  unfold PState.nextNC
  split
  · exact Nat.le_refl _
  · split
    · simp
    · split <;> simp

theorem commentLoop_tc (L : Nat) (n : Nat) (s : PState) : s.tokenCount ≤ (commentLoop L n s).tokenCount := by
  induction n generalizing s with
  | zero => simp [commentLoop]
  | succ n ih =>
    unfold commentLoop
    split
    · exact Nat.le_refl _
    · simp only
      split
      · rw [peekNC_tc]; exact Nat.le_refl _
      · have h1 := ih (s.peekNC.2.nextNC L).2
        have h2 := nextNC_tc L s.peekNC.2
        rw [peekNC_tc] at h2
        omega

theorem consumeCommentGroup_tc (L : Nat) (s : PState) : s.tokenCount ≤ (s.consumeCommentGroup L).tokenCount := by
  unfold PState.consumeCommentGroup
  split
  · exact Nat.le_refl _
  · exact commentLoop_tc L _ s

theorem groupIf_tc (L : Nat) (t : Token) (s : PState) : s.tokenCount ≤ (s.groupIf L t).tokenCount := by
  unfold PState.groupIf
  split
  · exact consumeCommentGroup_tc L s
  · exact Nat.le_refl _

theorem peek_tc (L : Nat) (s : PState) : s.tokenCount ≤ (s.peek L).2.tokenCount := by
  unfold PState.peek
  split
  · exact Nat.le_refl _
  · split
    · exact Nat.le_refl _
    · have := groupIf_tc L s.readPeek.peekTok s.readPeek
      simpa using this

theorem next_tc (L : Nat) (s : PState) : s.tokenCount ≤ (s.next L).2.tokenCount := by
  unfold PState.next
  split
  · exact Nat.le_refl _
  · split
    · simp
    · split
      · simp
      · have := groupIf_tc L s.readPrev.prev s.readPrev
        simp at this ⊢; omega

theorem error_tc (s : PState) (tok : Token) (msg : Bytes) : (s.error tok msg).tokenCount = s.tokenCount := by
  unfold PState.error; split
  · rfl
  · split <;> rfl

theorem run_tc {α : Type} (L : Nat) (p : Prog α) (s : PState) : s.tokenCount ≤ (run L p s).2.tokenCount := by
  induction p generalizing s with
  | pure a => simp [run]
  | peek k ih => simp only [run]; exact Nat.le_trans (peek_tc L s) (ih _ _)
  | next k ih => simp only [run]; exact Nat.le_trans (next_tc L s) (ih _ _)
  | hasErr k ih => simp only [run]; exact ih _ _
  | getPrev k ih => simp only [run]; exact ih _ _
  | getSrc k ih => simp only [run]; exact ih _ _
  | fail tok msg k ih => simp only [run]; have := ih (s.error tok msg); rw [error_tc] at this; exact this
  | oof k ih => simp only [run]; exact ih { s with oof := true }

/-! ### the error is preserved by the comment loop once set -/

theorem commentLoop_err (L n : Nat) (s : PState) (h : s.err.isSome) : (commentLoop L n s).err = s.err := by
  cases n with
  | zero => simp [commentLoop]
  | succ n => simp [commentLoop, h]

/-! ### one step in lock step -/

theorem overLimit_stricter {L L' n : Nat} (h : Stricter L L') (h' : overLimit L' n = true) :
    overLimit L n = true := by
  unfold overLimit at *; unfold Stricter at h; simp at *; omega

theorem overLimit_lt {L n : Nat} (h : overLimit L n = true) : L < n := by
  unfold overLimit at h; simp at h; omega

theorem overLimit_false_of_stricter {L L' n : Nat} (h : Stricter L L') (h' : overLimit L n = false) :
    overLimit L' n = false := by
  cases h2 : overLimit L' n
  · rfl
  · rw [overLimit_stricter h h2] at h'; cases h'

/-- the `L`-state has tripped and the `L'`-state has counted past `L`, or they are equal -/
def SRel (L : Nat) (s s' : PState) : Prop :=
  (s.err = some (.limit L) ∧ L < s'.tokenCount) ∨ s = s'

theorem nextNC_sim {L L' : Nat} (h : Stricter L L') (s : PState) :
    SRel L (s.nextNC L).2 (s.nextNC L').2 := by
  unfold SRel
  cases he : s.err.isSome
  case true => simp [PState.nextNC, he]
  case false =>
    cases hL : overLimit L (s.tokenCount + 1)
    case false => simp [PState.nextNC, he, hL, overLimit_false_of_stricter h hL]
    case true =>
      have hlt := overLimit_lt hL
      left
      cases hL' : overLimit L' (s.tokenCount + 1)
      case true => simp [PState.nextNC, he, hL, hL']; omega
      case false =>
        cases hp : s.peeked
        case true => simp [PState.nextNC, he, hL, hL', hp]; omega
        case false => simp [PState.nextNC, he, hL, hL', hp]; omega

theorem commentLoop_sim {L L' : Nat} (h : Stricter L L') (n : Nat) (s : PState) :
    SRel L (commentLoop L n s) (commentLoop L' n s) := by
  induction n generalizing s with
  | zero => right; simp [commentLoop]
  | succ n ih =>
    cases he : s.err.isSome
    case true => right; simp [commentLoop, he]
    case false =>
      cases hc : decide (s.peekNC.1.kind = .comment)
      case false => right; simp at hc; simp [commentLoop, he, hc]
      case true =>
        simp at hc
        simp only [commentLoop, he, hc]
        rcases nextNC_sim h s.peekNC.2 with ⟨h1, h2⟩ | h1
        · left
          simp only [Bool.false_eq_true, ↓reduceIte, ne_eq, not_true_eq_false]
          constructor
          · rw [commentLoop_err L n _ (by simp [h1])]; exact h1
          · exact Nat.lt_of_lt_of_le h2 (commentLoop_tc L' n _)
        · simp only [Bool.false_eq_true, ↓reduceIte, ne_eq, not_true_eq_false, h1]; exact ih _

theorem consumeCommentGroup_sim {L L' : Nat} (h : Stricter L L') (s : PState) :
    SRel L (s.consumeCommentGroup L) (s.consumeCommentGroup L') := by
  unfold PState.consumeCommentGroup
  cases he : s.err.isSome
  case true => right; simp
  case false => simp only [Bool.false_eq_true, ↓reduceIte]; exact commentLoop_sim h _ s

theorem groupIf_sim {L L' : Nat} (h : Stricter L L') (t : Token) (s : PState) :
    SRel L (s.groupIf L t) (s.groupIf L' t) := by
  unfold PState.groupIf
  split
  · exact consumeCommentGroup_sim h s
  · right; rfl

/-- outcome of one primitive run under `L` and `L'` from the same state -/
def StepRel (L : Nat) (r r' : Token × PState) : Prop :=
  (r.2.err = some (.limit L) ∧ L < r'.2.tokenCount) ∨ r = r'

theorem peek_sim {L L' : Nat} (h : Stricter L L') (s : PState) : StepRel L (s.peek L) (s.peek L') := by
  unfold StepRel
  cases he : s.err.isSome
  case true => right; simp [PState.peek, he]
  case false =>
    cases hp : s.peeked
    case true => right; simp [PState.peek, he, hp]
    case false =>
      simp only [PState.peek, he, hp, Bool.false_eq_true, ↓reduceIte]
      rcases groupIf_sim h s.readPeek.peekTok s.readPeek with h1 | h1
      · left; exact h1
      · right; rw [h1]

theorem next_sim {L L' : Nat} (h : Stricter L L') (s : PState) : StepRel L (s.next L) (s.next L') := by
  unfold StepRel
  cases he : s.err.isSome
  case true => right; simp [PState.next, he]
  case false =>
    cases hL : overLimit L (s.tokenCount + 1)
    case false =>
      have hL' := overLimit_false_of_stricter h hL
      cases hp : s.peeked
      case true => right; simp [PState.next, he, hL, hL', hp]
      case false =>
        simp only [PState.next, he, hL, hL', hp, Bool.false_eq_true, ↓reduceIte]
        rcases groupIf_sim h s.readPrev.prev s.readPrev with h1 | h1
        · left; exact h1
        · right; rw [h1]
    case true =>
      left
      have hlt := overLimit_lt hL
      cases hL' : overLimit L' (s.tokenCount + 1)
      case true => simp [PState.next, he, hL, hL']; omega
      case false =>
        cases hp : s.peeked
        case true => simp [PState.next, he, hL, hL', hp]; omega
        case false =>
          simp only [PState.next, he, hL, hL', hp, Bool.false_eq_true, ↓reduceIte]
          refine ⟨by simp, ?_⟩
          have := groupIf_tc L' s.readPrev.prev s.readPrev
          simp at this; omega

/-! ### whole programs -/

/-- once the `L`-run has tripped it is frozen, whatever the two runs execute afterwards -/
theorem run_tripped {α β : Type} {L : Nat} (L' : Nat) (p : Prog α) (q : Prog β) (s s' : PState)
    (h1 : s.err = some (.limit L)) (h2 : L < s'.tokenCount) :
    (run L p s).2.err = some (.limit L) ∧ L < (run L' q s').2.tokenCount := by
  constructor
  · rw [run_err_err L p s (by simp [h1])]; exact h1
  · exact Nat.lt_of_lt_of_le h2 (run_tc L' q s')

/-- **limit simulation**: the same program from the same state under a stricter and a laxer
    limit: either the stricter run ends tripped (and the laxer one has counted more than `L`
    tokens), or both runs end in the same state with the same result. -/
theorem run_sim {α : Type} {L L' : Nat} (h : Stricter L L') (p : Prog α) (s : PState) :
    ((run L p s).2.err = some (.limit L) ∧ L < (run L' p s).2.tokenCount) ∨ run L p s = run L' p s := by
  induction p generalizing s with
  | pure a => right; simp [run]
  | peek k ih =>
    simp only [run]
    rcases peek_sim h s with ⟨h1, h2⟩ | h1
    · left; exact run_tripped L' _ _ _ _ h1 h2
    · rw [h1]; exact ih _ _
  | next k ih =>
    simp only [run]
    rcases next_sim h s with ⟨h1, h2⟩ | h1
    · left; exact run_tripped L' _ _ _ _ h1 h2
    · rw [h1]; exact ih _ _
  | hasErr k ih => simp only [run]; exact ih _ _
  | getPrev k ih => simp only [run]; exact ih _ _
  | getSrc k ih => simp only [run]; exact ih _ _
  | fail tok msg k ih => simp only [run]; exact ih _
  | oof k ih => simp only [run]; exact ih _

end Gql.Parser
