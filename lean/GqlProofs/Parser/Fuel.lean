import GqlProofs.Parser.Measure
/-
  Fuel never runs out.  Framework: three predicates on programs, all relative to the measure `mu`:

  * `Progress p`   : from a live state, `p` strictly decreases `mu` (it consumes a real token, or
                     sets the sticky error);
  * `ProgRdy t p`  : the same, from a live state whose look-ahead already holds the token `t`;
  * `Good n p`     : from a state with `mu s < n` and the flag clear, `p` does not set `oof`.

  `Good` composes through `bind` because no program increases `mu` (`run_mu_le`); loops and
  recursion need `Progress` of their bodies.
-/
namespace Gql.Parser
open Gql Gql.Lexer

def Progress {α : Type} (L : Nat) (p : Prog α) : Prop :=
  ∀ s, dead s = false → mu (run L p s).2 < mu s

def ProgRdy {α : Type} (L : Nat) (t : Token) (p : Prog α) : Prop :=
  ∀ s, Ready t s → dead s = false → mu (run L p s).2 < mu s

/-- `p` leaves a live state whose look-ahead is filled untouched (peek-like programs) -/
def Keeps {α : Type} (L : Nat) (p : Prog α) : Prop :=
  ∀ t s, Ready t s → dead s = false → (run L p s).2 = s

def Good {α : Type} (L : Nat) (n : Nat) (p : Prog α) : Prop :=
  ∀ s, mu s < n → s.oof = false → (run L p s).2.oof = false

theorem run_bind' {α β : Type} (L : Nat) (p : Prog α) (f : α → Prog β) (s : PState) :
    run L (p >>= f) s = run L (f (run L p s).1) (run L p s).2 := run_bind L p f s

theorem dead_false_iff {s : PState} : dead s = false ↔ s.err.isSome = false ∧ s.oof = false := by
  simp [dead]

theorem mu_pos_of_live {s : PState} (h : dead s = false) : 0 < mu s := by rw [mu_pos h]; omega

/-! ### Progress -/

theorem Progress.bind_left {α β : Type} {L : Nat} {p : Prog α} (f : α → Prog β) (h : Progress L p) :
    Progress L (p >>= f) := by
  intro s hd; rw [run_bind']
  exact Nat.lt_of_le_of_lt (run_mu_le L _ _) (h s hd)

theorem Progress.bind_right {α β : Type} {L : Nat} (p : Prog α) {f : α → Prog β} (h : ∀ a, Progress L (f a)) :
    Progress L (p >>= f) := by
  intro s hd; rw [run_bind']
  have h1 := run_mu_le L p s
  cases hd1 : dead (run L p s).2
  · exact Nat.lt_of_lt_of_le (h _ _ hd1) h1
  · have := run_mu_le L (f (run L p s).1) (run L p s).2
    rw [mu_dead hd1] at this
    have := mu_pos_of_live hd; omega

theorem ProgRdy.of_progress {α : Type} {L : Nat} {t : Token} {p : Prog α} (h : Progress L p) : ProgRdy L t p :=
  fun s _ hd => h s hd

theorem ProgRdy.bind_left {α β : Type} {L : Nat} {t : Token} {p : Prog α} (f : α → Prog β) (h : ProgRdy L t p) :
    ProgRdy L t (p >>= f) := by
  intro s hr hd; rw [run_bind']
  exact Nat.lt_of_le_of_lt (run_mu_le L _ _) (h s hr hd)

theorem ProgRdy.keep_bind {α β : Type} {L : Nat} {t : Token} {p : Prog α} {f : α → Prog β}
    (hk : Keeps L p) (h : ∀ a, ProgRdy L t (f a)) : ProgRdy L t (p >>= f) := by
  intro s hr hd; rw [run_bind', hk t s hr hd]
  exact h _ s hr hd

theorem Progress.peek_bind {α : Type} {L : Nat} {f : Token → Prog α} (h : ∀ t, ProgRdy L t (f t)) :
    Progress L (peek >>= f) := by
  intro s hd
  rw [run_bind']
  have hrun : run L peek s = s.peek L := by simp [peek, run]
  rw [hrun]
  obtain ⟨p1, _, p3⟩ := peek_spec L s
  rcases p3 with h3 | h3
  · have := run_mu_le L (f (s.peek L).1) (s.peek L).2
    rw [mu_dead h3] at this
    have := mu_pos_of_live hd; omega
  · cases hd1 : dead (s.peek L).2
    · exact Nat.lt_of_lt_of_le (h _ _ h3 hd1) p1
    · have := run_mu_le L (f (s.peek L).1) (s.peek L).2
      rw [mu_dead hd1] at this
      have := mu_pos_of_live hd; omega

theorem Progress.failAt {L : Nat} (tok : Token) (msg : Bytes) : Progress L (failAt tok msg) := by
  intro s hd
  have : (run L (Gql.Parser.failAt tok msg) s).2 = s.error tok msg := by simp [Gql.Parser.failAt, run]
  rw [this]
  have h := (error_spec s tok msg).2.2
  rw [mu_dead (by simp [dead, h])]
  exact mu_pos_of_live hd

theorem Progress.outOfFuel {α : Type} {L : Nat} (a : α) : Progress L (outOfFuel a) := by
  intro s hd
  have : (run L (Gql.Parser.outOfFuel a) s).2 = { s with oof := true } := by simp [Gql.Parser.outOfFuel, run]
  rw [this, mu_dead (by simp [dead])]
  exact mu_pos_of_live hd

theorem Progress.unexpectedToken {L : Nat} (tok : Token) : Progress L (unexpectedToken tok) :=
  Progress.failAt _ _

theorem Progress.unexpectedError {L : Nat} : Progress L unexpectedError := by
  unfold Gql.Parser.unexpectedError
  exact Progress.bind_right _ fun _ => Progress.unexpectedToken _

theorem ProgRdy.next {L : Nat} {t : Token} (h : real t = true) : ProgRdy L t next := by
  intro s hr hd
  have : (run L Gql.Parser.next s).2 = (s.next L).2 := by simp [Gql.Parser.next, run]
  rw [this]
  exact (next_spec L s).2.2.2 t hr hd h

/-! ### Keeps -/

theorem Keeps.peek {L : Nat} : Keeps L peek := by
  intro t s hr _; simp [Gql.Parser.peek, run, peek_ready L hr]

theorem Keeps.hasErr {L : Nat} : Keeps L hasErr := by intro t s _ _; simp [Gql.Parser.hasErr, run]
theorem Keeps.getSrc {L : Nat} : Keeps L getSrc := by intro t s _ _; simp [Gql.Parser.getSrc, run]
theorem Keeps.getPrev {L : Nat} : Keeps L getPrev := by intro t s _ _; simp [Gql.Parser.getPrev, run]
theorem Keeps.pure {α : Type} {L : Nat} (a : α) : Keeps L (pure a : Prog α) := by intro t s _ _; simp [run]

theorem Keeps.bind {α β : Type} {L : Nat} {p : Prog α} {f : α → Prog β} (h1 : Keeps L p) (h2 : ∀ a, Keeps L (f a)) :
    Keeps L (p >>= f) := by
  intro t s hr hd; rw [run_bind', h1 t s hr hd]; exact h2 _ t s hr hd

theorem Keeps.peekPos {L : Nat} : Keeps L peekPos := by
  unfold Gql.Parser.peekPos
  refine Keeps.bind Keeps.hasErr fun e => ?_
  split
  · exact Keeps.pure _
  · exact Keeps.bind Keeps.peek fun _ => Keeps.bind Keeps.getSrc fun _ => Keeps.pure _

/-! ### the consuming primitives -/

theorem kind_real {t : Token} {k : Kind} (h : t.kind = k) (hk : k ≠ .eof) : real t = true := by
  simp [real, h, hk]

theorem Progress.expect {L : Nat} (k : Kind) (hk : k ≠ .eof) : Progress L (expect k) := by
  unfold Gql.Parser.expect
  refine Progress.peek_bind fun t => ?_
  split
  · rename_i h; exact ProgRdy.next (kind_real h hk)
  · exact ProgRdy.of_progress (Progress.bind_left _ (Progress.failAt _ _))

theorem Progress.expectKeyword {L : Nat} (v : Bytes) : Progress L (expectKeyword v) := by
  unfold Gql.Parser.expectKeyword
  refine Progress.peek_bind fun t => ?_
  split
  · rename_i h; exact ProgRdy.next (kind_real h.1 (by decide))
  · exact ProgRdy.of_progress (Progress.bind_left _ (Progress.failAt _ _))

theorem ProgRdy.skip {L : Nat} {t : Token} (k : Kind) (hk : k ≠ .eof) (ht : t.kind = k) : ProgRdy L t (skip k) := by
  unfold Gql.Parser.skip
  intro s hr hd
  have he : s.err.isSome = false := hr.2.2
  simp [Gql.Parser.hasErr, Gql.Parser.peek, Gql.Parser.next, Prog.bind, run, he, peek_ready L hr, ht]
  exact (next_spec L s).2.2.2 t hr hd (kind_real ht hk)

/-- a successful `skip` has consumed a real token -/
theorem skip_true {L : Nat} (k : Kind) (hk : k ≠ .eof) (s : PState) (hd : dead s = false)
    (h : (run L (skip k) s).1 = true) : mu (run L (skip k) s).2 < mu s := by
  have he : s.err.isSome = false := (dead_false_iff.1 hd).1
  unfold Gql.Parser.skip at h ⊢
  simp only [Gql.Parser.hasErr, Gql.Parser.peek, Gql.Parser.next, Prog.bind, run, he, bind_eq, pure_eq,
    Bool.false_eq_true, ↓reduceIte] at h ⊢
  obtain ⟨p1, _, p3⟩ := peek_spec L s
  by_cases hk' : (s.peek L).1.kind ≠ k
  · simp [hk', run] at h
  · simp only [hk', ↓reduceIte, run] at h ⊢
    simp at hk'
    rcases p3 with h3 | h3
    · have := (next_spec L (s.peek L).2).1
      rw [mu_dead h3] at this
      have := mu_pos_of_live hd; omega
    · cases hd1 : dead (s.peek L).2
      · exact Nat.lt_of_lt_of_le ((next_spec L _).2.2.2 _ h3 hd1 (kind_real hk' hk)) p1
      · have := (next_spec L (s.peek L).2).1
        rw [mu_dead hd1] at this
        have := mu_pos_of_live hd; omega

/-! ### Good -/

theorem Good.mono {α : Type} {L n m : Nat} {p : Prog α} (h : Good L n p) (hmn : m ≤ n) : Good L m p :=
  fun s hs ho => h s (by omega) ho

theorem Good.bind {α β : Type} {L n : Nat} {p : Prog α} {f : α → Prog β} (h1 : Good L n p) (h2 : ∀ a, Good L n (f a)) :
    Good L n (p >>= f) := by
  intro s hs ho; rw [run_bind']
  exact h2 _ _ (Nat.lt_of_le_of_lt (run_mu_le L p s) hs) (h1 s hs ho)

theorem Good.pure {α : Type} {L n : Nat} (a : α) : Good L n (pure a : Prog α) := by
  intro s _ ho; simpa [run] using ho

theorem Good.peek {L n : Nat} : Good L n peek := by
  intro s _ ho; simpa [Gql.Parser.peek, run] using (peek_spec L s).2.1 ho

theorem Good.next {L n : Nat} : Good L n next := by
  intro s _ ho; simpa [Gql.Parser.next, run] using (next_spec L s).2.1 ho

theorem Good.hasErr {L n : Nat} : Good L n hasErr := by intro s _ ho; simpa [Gql.Parser.hasErr, run] using ho
theorem Good.getSrc {L n : Nat} : Good L n getSrc := by intro s _ ho; simpa [Gql.Parser.getSrc, run] using ho
theorem Good.getPrev {L n : Nat} : Good L n getPrev := by intro s _ ho; simpa [Gql.Parser.getPrev, run] using ho

theorem Good.failAt {L n : Nat} (tok : Token) (msg : Bytes) : Good L n (failAt tok msg) := by
  intro s _ ho
  have : (run L (Gql.Parser.failAt tok msg) s).2 = s.error tok msg := by simp [Gql.Parser.failAt, run]
  rw [this, (error_spec s tok msg).2.1]; exact ho

theorem Good.zero {α : Type} {L : Nat} (p : Prog α) : Good L 0 p := fun s hs => by omega

theorem Good.ite {α : Type} {L n : Nat} {c : Prop} [Decidable c] {p q : Prog α} (h1 : Good L n p) (h2 : Good L n q) :
    Good L n (if c then p else q) := by split <;> assumption

theorem Good.unexpectedToken {L n : Nat} (tok : Token) : Good L n (unexpectedToken tok) := Good.failAt _ _

theorem Good.unexpectedError {L n : Nat} : Good L n unexpectedError :=
  Good.bind Good.peek fun _ => Good.unexpectedToken _

theorem Good.peekPos {L n : Nat} : Good L n peekPos := by
  unfold Gql.Parser.peekPos
  refine Good.bind Good.hasErr fun e => ?_
  split
  · exact Good.pure _
  · exact Good.bind Good.peek fun _ => Good.bind Good.getSrc fun _ => Good.pure _

theorem Good.expect {L n : Nat} (k : Kind) : Good L n (expect k) := by
  unfold Gql.Parser.expect
  refine Good.bind Good.peek fun t => ?_
  split
  · exact Good.next
  · exact Good.bind (Good.failAt _ _) fun _ => Good.pure _

theorem Good.expectKeyword {L n : Nat} (v : Bytes) : Good L n (expectKeyword v) := by
  unfold Gql.Parser.expectKeyword
  refine Good.bind Good.peek fun t => ?_
  split
  · exact Good.next
  · exact Good.bind (Good.failAt _ _) fun _ => Good.pure _

theorem Good.skip {L n : Nat} (k : Kind) : Good L n (skip k) := by
  unfold Gql.Parser.skip
  refine Good.bind Good.hasErr fun e => ?_
  split
  · exact Good.pure _
  · refine Good.bind Good.peek fun t => ?_
    split
    · exact Good.pure _
    · exact Good.bind Good.next fun _ => Good.pure _

/-! ### loops -/

/-- `skip` returns `false` when the error is set -/
theorem skip_dead {L : Nat} (k : Kind) (s : PState) (he : s.err.isSome = true) : (run L (skip k) s).1 = false := by
  simp [Gql.Parser.skip, Gql.Parser.hasErr, Prog.bind, run, he]

theorem live_of_skip_true {L : Nat} {k : Kind} {s : PState} (ho : s.oof = false)
    (h : (run L (skip k) s).1 = true) : dead s = false := by
  cases he : s.err.isSome
  · simp [dead, he, ho]
  · rw [skip_dead k s he] at h; cases h

theorem itemsLoop_good {α : Type} {L n : Nat} (stop : Kind) {cb : Prog α} (hg : Good L n cb) (hp : Progress L cb) :
    ∀ (k : Nat) (acc : List α) (s : PState), mu s < k → mu s < n → s.oof = false →
      (run L (itemsLoop stop cb k acc) s).2.oof = false := by
  intro k
  induction k with
  | zero => intro acc s h; omega
  | succ k ih =>
    intro acc s hk hn ho
    unfold itemsLoop
    simp only [bind_eq, pure_eq, Gql.Parser.peek, Gql.Parser.hasErr, Prog.bind, run]
    obtain ⟨p1, p2, _⟩ := peek_spec L s
    have ho1 := p2 ho
    by_cases hc : (s.peek L).1.kind ≠ stop ∧ (!(s.peek L).2.err.isSome) = true
    · rw [if_pos hc, run_bind]
      have hd1 : dead (s.peek L).2 = false := by
        have := hc.2; simp at this; simp [dead, this, ho1]
      have hlt := hp _ hd1
      exact ih _ _ (by omega) (by omega) (hg _ (by omega) ho1)
    · rw [if_neg hc]; simpa [run] using ho1

theorem sepLoop_good {α : Type} {L n : Nat} (sep : Kind) (hsep : sep ≠ .eof) {item : Prog α} (hg : Good L n item) :
    ∀ (k : Nat) (acc : List α) (s : PState), mu s < k → mu s < n → s.oof = false →
      (run L (sepLoop sep item k acc) s).2.oof = false := by
  intro k
  induction k with
  | zero => intro acc s h; omega
  | succ k ih =>
    intro acc s hk hn ho
    unfold sepLoop
    simp only [bind_eq, pure_eq]
    rw [run_bind]
    have ho1 := Good.skip (L := L) (n := n) sep s hn ho
    have hle := run_mu_le L (skip sep) s
    cases hb : (run L (skip sep) s).1
    · simpa [run] using ho1
    · simp only [↓reduceIte, Gql.Parser.hasErr, Prog.bind, run]
      have hlt := skip_true sep hsep s (live_of_skip_true ho hb) hb
      split
      · simpa [run] using ho1
      · rw [run_bind]
        have ho2 := hg _ (by omega) ho1
        have hle2 := run_mu_le L item (run L (skip sep) s).2
        exact ih _ _ (by omega) (by omega) ho2

theorem directivesLoop_good {L n : Nat} {pd : Prog Directive} (hg : Good L n pd) (hp : Progress L pd) :
    ∀ (k : Nat) (acc : List Directive) (s : PState), mu s < k → mu s < n → s.oof = false →
      (run L (directivesLoop pd k acc) s).2.oof = false := by
  intro k
  induction k with
  | zero => intro acc s h; omega
  | succ k ih =>
    intro acc s hk hn ho
    unfold directivesLoop
    simp only [bind_eq, pure_eq, Gql.Parser.peek, Gql.Parser.hasErr, Prog.bind, run]
    obtain ⟨p1, p2, _⟩ := peek_spec L s
    have ho1 := p2 ho
    split
    · simp only [run]
      split
      · simpa [run] using ho1
      · rename_i he
        rw [run_bind]
        have hd1 : dead (s.peek L).2 = false := by simp at he; simp [dead, he, ho1]
        have hlt := hp _ hd1
        exact ih _ _ (by omega) (by omega) (hg _ (by omega) ho1)
    · simpa [run] using ho1

/-- `pMany`: the loop and its body only see states after the opening token has been consumed, so
    a body that is good for `m` makes the whole thing good for `m + 1` -/
theorem pMany_good {α : Type} {L n m k : Nat} (start stop : Kind) (hstart : start ≠ .eof) {cb : Prog α}
    (hg : Good L m cb) (hp : Progress L cb) (hk : n ≤ k) (hm : n ≤ m + 1) : Good L n (pMany start stop k cb) := by
  intro s hs ho
  unfold pMany
  simp only [bind_eq, pure_eq]
  rw [run_bind]
  have ho1 := Good.skip (L := L) (n := n) start s hs ho
  cases hb : (run L (skip start) s).1
  · simpa [run] using ho1
  · simp only [Bool.not_true, Bool.false_eq_true, ↓reduceIte]
    have hlt := skip_true start hstart s (live_of_skip_true ho hb) hb
    rw [run_bind]
    have ho2 := itemsLoop_good stop hg hp k [] _ (by omega) (by omega) ho1
    simp only [Gql.Parser.next, Prog.bind, run]
    exact (next_spec L _).2.1 ho2

theorem pSome_good {α : Type} {L n m k : Nat} (start stop : Kind) (hstart : start ≠ .eof) {cb : Prog α}
    (hg : Good L m cb) (hp : Progress L cb) (hk : n ≤ k) (hm : n ≤ m + 1) : Good L n (pSome start stop k cb) := by
  intro s hs ho
  unfold pSome
  simp only [bind_eq, pure_eq]
  rw [run_bind]
  have ho1 := Good.skip (L := L) (n := n) start s hs ho
  cases hb : (run L (skip start) s).1
  · simpa [run] using ho1
  · simp only [Bool.not_true, Bool.false_eq_true, ↓reduceIte]
    have hlt := skip_true start hstart s (live_of_skip_true ho hb) hb
    rw [run_bind]
    have ho2 := itemsLoop_good stop hg hp k [] _ (by omega) (by omega) ho1
    split
    · simp only [Gql.Parser.peek, Gql.Parser.failAt, Prog.bind, run]
      rw [(error_spec _ _ _).2.1]
      exact (peek_spec L _).2.1 ((peek_spec L _).2.1 ho2)
    · simp only [Gql.Parser.next, Prog.bind, run]
      exact (next_spec L _).2.1 ho2

end Gql.Parser
