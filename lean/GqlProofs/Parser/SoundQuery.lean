import GqlProofs.Parser.Spec
import GqlProofs.Grammar.PrintQuery
/-
  Soundness of the query parser programs of `GqlModel/Parser/Query.lean` against the grammar
  `gql` and the unparser `Print`: every program that ends live consumed a token sequence that its
  nonterminal derives, and the tree it built unparses to (the canonical form of) that sequence.
-/
namespace Gql.Parser
open Gql Gql.Lexer Gql.Grammar Gql.Print

/-- the grammar's view of consumed tokens -/
def tk (used : List Token) : List Tok := used.map Tok.ofToken

@[simp] theorem tk_nil : tk [] = [] := rfl
@[simp] theorem tk_cons (t : Token) (ts : List Token) : tk (t :: ts) = Tok.ofToken t :: tk ts := rfl
@[simp] theorem tk_append (a b : List Token) : tk (a ++ b) = tk a ++ tk b := by simp [tk]

theorem ofToken_punct {t : Token} {k : Kind} (hk : t.kind = k) (ok : TokOK t) (hv : k.valued = false) :
    Tok.ofToken t = tP k := by
  have := ok.2.1 (by rw [hk]; exact hv)
  simp [Tok.ofToken, tP, hk, this]

theorem ofToken_name {t : Token} (hk : t.kind = .name) : Tok.ofToken t = tName t.value := by
  simp [Tok.ofToken, tName, hk]

/-! ### terminals -/

theorem spec_punct (k : Kind) (hk : k ≠ .eof) (hk' : k ≠ .invalid) (hv : k.valued = false) :
    Spec (expect k) (Eats fun _ used => tk used = [tP k]) :=
  (spec_expect k hk hk').mono fun _ _ _ _ e => e.mono fun t u ⟨h1, h2, h3⟩ => by
    subst h1; simp [ofToken_punct h2 h3 hv]

/-- `skip` of a punctuator -/
def SkipsP (k : Kind) : Bool → AS → AS → Prop := fun b a a' =>
  (b = true ∧ a.σ.head.kind = k ∧ ∃ used, Ate a a' used ∧ tk used = [tP k]) ∨
  (b = false ∧ a.σ.head.kind ≠ k ∧ a' = { a with pk := true })

theorem spec_skipP (k : Kind) (hk : k ≠ .eof) (hk' : k ≠ .invalid) (hv : k.valued = false) :
    Spec (skip k) (SkipsP k) :=
  (spec_skip k hk hk').mono fun b a a' _ h => by
    rcases h with ⟨hb, t, h1, h2, h3⟩ | h
    · exact .inl ⟨hb, by rw [h1.σ]; exact h2, [t], h1, by simp [ofToken_punct h2 h3 hv]⟩
    · exact .inr h

/-- `parseName`, exposing the token -/
theorem spec_parseName' : Spec parseName (Eats fun n used => ∃ t, used = [t] ∧ t.kind = .name ∧ t.value = n ∧ TokOK t) := by
  unfold parseName
  refine (Spec.bind (spec_expect .name (by decide) (by decide)) fun t => Spec.pure t.value).mono ?_
  rintro n a a'' _ ⟨t, a', ⟨u, h1, rfl, h4, h5⟩, rfl, rfl⟩
  exact ⟨_, h1, t, rfl, h4, rfl, h5⟩

theorem spec_parseName : Spec parseName (Eats fun n used => tk used = [tName n]) :=
  spec_parseName'.mono fun _ _ _ _ e => e.mono fun n u ⟨t, h1, h2, h3, _⟩ => by
    subst h1 h3; simp [ofToken_name h2]

theorem spec_parseVariable : Spec parseVariable (Eats fun n used => tk used = [tP .dollar, tName n]) := by
  unfold parseVariable
  refine (Spec.bind (spec_punct .dollar (by decide) (by decide) rfl) fun _ => spec_parseName).mono ?_
  rintro n a a'' _ ⟨_, a', ⟨u1, h1, p1⟩, u2, h2, p2⟩
  exact ⟨_, h1.trans h2, by simp [p1, p2]⟩

/-! ### values -/

/-- what a value parser establishes -/
def PValue (c : Bool) (v : Value) (used : List Token) : Prop :=
  tk used = printValue v ∧ (c = true → ConstValue v)

theorem many_items {c : Bool} {xs : List (Name × Value × Pos)} {mid : List Token}
    (h : Many (fun (x : Name × Value × Pos) u => PValue c x.2.1 u) xs mid) :
    tk mid = printItems (Children.ofList xs) ∧ (c = true → ConstChildren (Children.ofList xs)) := by
  induction h with
  | nil => exact ⟨rfl, fun _ => trivial⟩
  | @cons x xs u us hx _ ih =>
    obtain ⟨n, v, p⟩ := x
    refine ⟨by simp [Children.ofList, printItems, ih.1, hx.1], fun hc => ?_⟩
    simp only [Children.ofList, ConstChildren]
    exact ⟨hx.2 hc, ih.2 hc⟩

theorem many_fields {c : Bool} {xs : List (Name × Value × Pos)} {mid : List Token}
    (h : Many (fun (x : Name × Value × Pos) u => ∃ u', tk u = tName x.1 :: tP .colon :: tk u' ∧ PValue c x.2.1 u') xs mid) :
    tk mid = printObjFields (Children.ofList xs) ∧ (c = true → ConstChildren (Children.ofList xs)) := by
  induction h with
  | nil => exact ⟨rfl, fun _ => trivial⟩
  | @cons x xs u us hx _ ih =>
    obtain ⟨n, v, p⟩ := x
    obtain ⟨u', e1, e2⟩ := hx
    refine ⟨by simp [Children.ofList, printObjFields, ih.1, e1, e2.1], fun hc => ?_⟩
    simp only [Children.ofList, ConstChildren]
    exact ⟨e2.2 hc, ih.2 hc⟩

theorem spec_parseListWith {c : Bool} {pv : Prog Value} (hpv : Spec pv (Eats (PValue c))) (n : Nat) :
    Spec (parseListWith pv n) (fun v a a' => a.σ.head.kind = .bracketL → Eats (PValue c) v a a') := by
  unfold parseListWith
  refine (Spec.bind spec_peekPos fun pos => Spec.bind
    (spec_pMany (P := fun (x : Name × Value × Pos) u => PValue c x.2.1 u) .bracketL .bracketR (by decide) (by decide)
      (by decide) (by decide) n
      ((Spec.bind hpv fun v => Spec.pure (([] : Name), v, Pos.zero)).mono
        (by rintro x a a' _ ⟨v, a1, h, rfl, rfl⟩; exact h)))
    fun vs => Spec.pure (Value.mk .list [] (Children.ofList vs) pos)).mono ?_
  rintro v a a'' _ ⟨pos, a1, ⟨rfl, _⟩, vs, a2, hb, rfl, rfl⟩ hk
  rcases hb with ⟨_, hk', _⟩ | ⟨_, u, hu, t1, mid, t2, rfl, k1, k2, o1, o2, hm⟩
  · exact absurd hk hk'
  · obtain ⟨m1, m2⟩ := many_items hm
    refine ⟨_, (Ate.peeked a).trans hu, ?_, fun hc => ⟨by decide, m2 hc⟩⟩
    simp [printValue, ofToken_punct k1 o1 rfl, ofToken_punct k2 o2 rfl, m1]

theorem spec_parseObjectFieldWith {c : Bool} {pv : Prog Value} (hpv : Spec pv (Eats (PValue c))) :
    Spec (parseObjectFieldWith pv)
      (Eats fun (x : Name × Value × Pos) u => ∃ u', tk u = tName x.1 :: tP .colon :: tk u' ∧ PValue c x.2.1 u') := by
  unfold parseObjectFieldWith
  refine (Spec.bind spec_peekPos fun pos => Spec.bind spec_parseName fun name =>
    Spec.bind (spec_punct .colon (by decide) (by decide) rfl) fun _ => Spec.bind hpv fun v =>
      Spec.pure (name, v, pos)).mono ?_
  rintro x a a'' _ ⟨pos, a1, ⟨rfl, _⟩, name, a2, ⟨u1, h1, p1⟩, _, a3, ⟨u2, h2, p2⟩, v, a4, ⟨u3, h3, p3⟩, rfl, rfl⟩
  exact ⟨_, (Ate.peeked a).trans (h1.trans (h2.trans h3)), u3, by simp [p1, p2], p3⟩

theorem spec_parseObjectWith {c : Bool} {pv : Prog Value} (hpv : Spec pv (Eats (PValue c))) (n : Nat) :
    Spec (parseObjectWith pv n) (fun v a a' => a.σ.head.kind = .braceL → Eats (PValue c) v a a') := by
  unfold parseObjectWith
  refine (Spec.bind spec_peekPos fun pos => Spec.bind
    (spec_pMany .braceL .braceR (by decide) (by decide) (by decide) (by decide) n (spec_parseObjectFieldWith hpv))
    fun fs => Spec.pure (Value.mk .object [] (Children.ofList fs) pos)).mono ?_
  rintro v a a'' _ ⟨pos, a1, ⟨rfl, _⟩, vs, a2, hb, rfl, rfl⟩ hk
  rcases hb with ⟨_, hk', _⟩ | ⟨_, u, hu, t1, mid, t2, rfl, k1, k2, o1, o2, hm⟩
  · exact absurd hk hk'
  · obtain ⟨m1, m2⟩ := many_fields hm
    refine ⟨_, (Ate.peeked a).trans hu, ?_, fun hc => ⟨by decide, m2 hc⟩⟩
    simp [printValue, ofToken_punct k1 o1 rfl, ofToken_punct k2 o2 rfl, m1]

/-- scalar literals: the filled look-ahead `token` is consumed -/
theorem spec_litValue (src : Nat) (token : Token) (k : ValueKind) :
    Spec (litValue src token k) (fun v a a' => a.pk = true → a.σ.head = token → token.kind ≠ .eof →
      token.kind ≠ .invalid → Ate a a' [token] ∧ v = .mk k token.value .nil (posOf src token)) := by
  unfold litValue
  refine (Spec.bind spec_next fun _ => Spec.pure (Value.mk k token.value .nil (posOf src token))).mono ?_
  rintro v a a'' hne ⟨t, a', hn, rfl, rfl⟩ hpk hh h1 h2
  obtain ⟨q1, q2, _⟩ := next_eats hne hpk (by rw [hh]) h1 h2 hn
  rw [q1, hh] at q2
  exact ⟨q2, rfl⟩

theorem nameValueKind_ne (v : Bytes) : nameValueKind v ≠ .variable := by
  unfold nameValueKind; split
  · decide
  · split <;> decide

theorem printValue_name (v : Bytes) (p : Pos) : printValue (.mk (nameValueKind v) v .nil p) = [tName v] := by
  unfold nameValueKind
  split
  · rfl
  · split <;> rfl

/-- `Value[Const]`: the consumed tokens are the print of the value; no variable under `isConst` -/
theorem spec_parseValueLiteral (c : Bool) : ∀ n, Spec (parseValueLiteral n c) (Eats (PValue c))
  | 0 => Spec.of_dead (outOfFuel_dead _)
  | n + 1 => by
    have ih := spec_parseValueLiteral c n
    unfold parseValueLiteral
    refine (Spec.bind spec_peek fun token => Spec.bind spec_getSrc fun src =>
      (?_ : Spec _ (fun v a a' => a.pk = true → a.σ.head = token → Eats (PValue c) v a a'))).mono ?_
    · have lit : ∀ (k : ValueKind) (tkk : Kind), token.kind = tkk → tkk ≠ .eof → tkk ≠ .invalid →
          (∀ p, printValue (.mk k token.value .nil p) = [⟨tkk, token.value⟩]) → k ≠ .variable →
          Spec (litValue src token k) (fun v a a' => a.pk = true → a.σ.head = token → Eats (PValue c) v a a') := by
        intro k tkk hk h1 h2 hp hv
        refine (spec_litValue src token k).mono fun v a a' _ h hpk hh => ?_
        obtain ⟨q, rfl⟩ := h hpk hh (by rw [hk]; exact h1) (by rw [hk]; exact h2)
        refine ⟨[token], q, ?_, fun _ => ⟨hv, trivial⟩⟩
        simp [hp, Tok.ofToken, hk]
      split
      · rename_i hk
        exact (spec_parseListWith ih (n + 1)).mono fun v a a' _ h _ hh => h (by rw [hh]; exact hk)
      · rename_i hk
        exact (spec_parseObjectWith ih (n + 1)).mono fun v a a' _ h _ hh => h (by rw [hh]; exact hk)
      · split
        · exact Spec.of_dead_bind unexpectedError_dead
        · rename_i hc
          refine (Spec.bind spec_parseVariable fun raw => Spec.pure _).mono ?_
          rintro v a a' _ ⟨raw, a1, ⟨u, h1, p1⟩, rfl, rfl⟩ _ _
          exact ⟨u, h1, by simp [printValue, p1], fun hc' => absurd hc' hc⟩
      · exact lit .int .int ‹_› (by decide) (by decide) (fun _ => rfl) (by decide)
      · exact lit .float .float ‹_› (by decide) (by decide) (fun _ => rfl) (by decide)
      · exact lit .string .string ‹_› (by decide) (by decide) (fun _ => rfl) (by decide)
      · exact lit .block .blockString ‹_› (by decide) (by decide) (fun _ => rfl) (by decide)
      · exact lit _ .name ‹_› (by decide) (by decide) (fun p => printValue_name _ p) (nameValueKind_ne _)
      · exact Spec.of_dead_bind unexpectedError_dead
    · rintro v a a'' _ ⟨token, a1, ⟨rfl, rfl⟩, src, a2, rfl, h⟩
      obtain ⟨u, hu, p⟩ := h rfl rfl
      exact ⟨u, (Ate.peeked a).trans hu, p⟩

/-! ### bracketed lists whose print is `start item+ stop` or nothing -/

theorem many_flatMap {α : Type} {f : α → List Tok} {Q : α → Prop} {xs : List α} {mid : List Token}
    (h : Many (fun x u => tk u = f x ∧ Q x) xs mid) : tk mid = xs.flatMap f ∧ ∀ x ∈ xs, Q x := by
  induction h with
  | nil => exact ⟨rfl, fun _ h => by cases h⟩
  | @cons x xs u us hx _ ih =>
    refine ⟨by simp [hx.1, ih.1], fun y hy => ?_⟩
    rcases List.mem_cons.1 hy with rfl | hy
    · exact hx.2
    · exact ih.2 y hy

/-- the result of `some`: the consumed tokens are `start item+ stop`, or nothing for the empty list -/
theorem bracketed_some {α : Type} {f : α → List Tok} {Q : α → Prop} {start stop : Kind} {xs : List α} {a a' : AS}
    (hv1 : start.valued = false) (hv2 : stop.valued = false)
    (hb : Bracketed (fun x u => tk u = f x ∧ Q x) start stop xs a a') (hne : a.σ.head.kind = start → xs ≠ []) :
    ∃ u, Ate a a' u ∧ tk u = (if xs.isEmpty then [] else tP start :: xs.flatMap f ++ [tP stop]) ∧ (∀ x ∈ xs, Q x) ∧
      (a.σ.head.kind ≠ start → xs = [] ∧ a' = { a with pk := true }) := by
  rcases hb with ⟨rfl, hk, rfl⟩ | ⟨hk, u, hu, t1, mid, t2, rfl, k1, k2, o1, o2, hm⟩
  · exact ⟨[], Ate.peeked a, rfl, fun _ h => (by cases h), fun _ => ⟨rfl, rfl⟩⟩
  · obtain ⟨m1, m2⟩ := many_flatMap hm
    have hx := hne hk
    refine ⟨_, hu, ?_, m2, fun h => absurd hk h⟩
    cases xs with
    | nil => exact absurd rfl hx
    | cons x xs => simp [ofToken_punct k1 o1 hv1, ofToken_punct k2 o2 hv2, m1]

/-! ### arguments and directives -/

theorem spec_parseArgument (n : Nat) (c : Bool) :
    Spec (parseArgument n c) (Eats fun a u => tk u = printArgument a ∧ (c = true → ConstValue a.value)) := by
  unfold parseArgument
  refine (Spec.bind spec_peekPos fun pos => Spec.bind spec_parseName fun name =>
    Spec.bind (spec_punct .colon (by decide) (by decide) rfl) fun _ =>
    Spec.bind (spec_parseValueLiteral c n) fun v => Spec.pure _).mono ?_
  rintro x a a'' _ ⟨pos, a1, ⟨rfl, _⟩, name, a2, ⟨u1, h1, p1⟩, _, a3, ⟨u2, h2, p2⟩, v, a4, ⟨u3, h3, p3⟩, rfl, rfl⟩
  exact ⟨_, (Ate.peeked a).trans (h1.trans (h2.trans h3)), by simp [printArgument, p1, p2, p3.1], p3.2⟩

/-- `Arguments[Const]?` -/
def PArgs (c : Bool) (as : List Argument) (u : List Token) : Prop :=
  tk u = printArguments as ∧ (c = true → ∀ a ∈ as, ConstValue a.value)

theorem spec_parseArguments (n : Nat) (c : Bool) : Spec (parseArguments n c) (Eats (PArgs c)) := by
  unfold parseArguments
  refine (spec_pSome .parenL .parenR (by decide) (by decide) (by decide) (by decide) n (spec_parseArgument n c)).mono ?_
  rintro as a a' _ ⟨hb, hne⟩
  obtain ⟨u, h1, h2, h3, _⟩ := bracketed_some rfl rfl hb hne
  exact ⟨u, h1, h2, fun hc x hx => h3 x hx hc⟩

/-- `Directive[Const]` -/
def PDirective (c : Bool) (d : Directive) (u : List Token) : Prop :=
  tk u = printDirective d ∧ (c = true → ∀ a ∈ d.args, ConstValue a.value)

theorem spec_parseDirective (n : Nat) (c : Bool) : Spec (parseDirective n c) (Eats (PDirective c)) := by
  unfold parseDirective
  refine (Spec.bind (spec_punct .at (by decide) (by decide) rfl) fun _ => Spec.bind spec_peekPos fun pos =>
    Spec.bind spec_parseName fun name => Spec.bind (spec_parseArguments n c) fun args => Spec.pure _).mono ?_
  rintro x a a'' _ ⟨_, a1, ⟨u1, h1, p1⟩, pos, a2, ⟨rfl, _⟩, name, a3, ⟨u2, h2, p2⟩, args, a4, ⟨u3, h3, p3⟩, rfl, rfl⟩
  exact ⟨_, h1.trans ((Ate.peeked a1).trans (h2.trans h3)), by simp [printDirective, p1, p2, p3.1], p3.2⟩

theorem spec_directivesLoop {c : Bool} {pd : Prog Directive} (hpd : Spec pd (Eats (PDirective c))) (n : Nat)
    (acc : List Directive) :
    Spec (directivesLoop pd n acc) (fun ds a a' => ∃ items used, ds = items.reverse ++ acc ∧
      Ate a a' used ∧ Many (PDirective c) items used) := by
  induction n generalizing acc with
  | zero => exact Spec.of_dead (outOfFuel_dead _)
  | succ n ih =>
    unfold directivesLoop
    refine (Spec.bind spec_peek fun t => Spec.ite
      (fun _ => Spec.bind spec_hasErr fun e => Spec.ite (fun _ => Spec.pure acc)
        (fun _ => Spec.bind hpd fun d => ih (d :: acc))) (fun _ => Spec.pure acc)).mono ?_
    rintro ds a a'' _ ⟨t, a1, ⟨rfl, rfl⟩, ⟨_, e, a2, ⟨rfl, rfl⟩, ⟨he, _⟩ |
      ⟨_, d, a3, ⟨u, h1, h3⟩, items, used, rfl, h4, h6⟩⟩ | ⟨_, rfl, rfl⟩⟩
    · cases he
    · exact ⟨d :: items, u ++ used, by simp, (Ate.peeked a).trans (h1.trans h4), .cons h3 h6⟩
    · exact ⟨[], [], rfl, Ate.peeked a, .nil⟩

/-- `Directives[Const]?` -/
def PDirectives (c : Bool) (ds : List Directive) (u : List Token) : Prop :=
  tk u = printDirectives ds ∧ (c = true → ConstDirectives ds)

theorem spec_parseDirectives (n : Nat) (c : Bool) : Spec (parseDirectives n c) (Eats (PDirectives c)) := by
  unfold parseDirectives
  refine (Spec.bind (spec_directivesLoop (spec_parseDirective n c) n []) fun ds => Spec.pure ds.reverse).mono ?_
  rintro ds a a'' _ ⟨_, a1, ⟨items, used, rfl, h1, hm⟩, rfl, rfl⟩
  obtain ⟨m1, m2⟩ := many_flatMap (f := printDirective) (Q := fun d => c = true → ∀ a ∈ d.args, ConstValue a.value) hm
  refine ⟨used, h1, by simpa [printDirectives] using m1, fun hc d hd => ?_⟩
  exact m2 d (by simpa using hd) hc

/-! ### types and variable definitions -/

theorem spec_parseTypeReference : ∀ n, Spec (parseTypeReference n) (Eats fun ty u => tk u = printType ty)
  | 0 => Spec.of_dead (outOfFuel_dead _)
  | n + 1 => by
    have ih := spec_parseTypeReference n
    unfold parseTypeReference
    refine (Spec.bind (spec_skipP .bracketL (by decide) (by decide) rfl) fun b => Spec.ite
      (fun _ => Spec.bind spec_peekPos fun pos => Spec.bind ih fun elem =>
        Spec.bind (spec_punct .bracketR (by decide) (by decide) rfl) fun _ =>
        Spec.bind (spec_skipP .bang (by decide) (by decide) rfl) fun nn => Spec.pure (GType.list elem nn pos))
      (fun _ => Spec.bind spec_peekPos fun pos => Spec.bind spec_parseName fun name =>
        Spec.bind (spec_skipP .bang (by decide) (by decide) rfl) fun nn => Spec.pure (GType.named name nn pos))).mono ?_
    rintro ty a a'' _ ⟨b, a1, hs, ⟨hb, pos, a2, ⟨rfl, _⟩, elem, a3, ⟨u2, h2, p2⟩, _, a4, ⟨u3, h3, p3⟩, nn, a5, hs2, rfl, rfl⟩ |
      ⟨hb, pos, a2, ⟨rfl, _⟩, name, a3, ⟨u2, h2, p2⟩, nn, a4, hs2, rfl, rfl⟩⟩
    · rcases hs with ⟨_, _, u1, h1, p1⟩ | ⟨rfl, _⟩
      · rcases hs2 with ⟨rfl, _, u4, h4, p4⟩ | ⟨rfl, _, rfl⟩
        · exact ⟨_, h1.trans ((Ate.peeked a1).trans (h2.trans (h3.trans h4))), by simp [printType, bangIf, p1, p2, p3, p4]⟩
        · exact ⟨_, h1.trans ((Ate.peeked a1).trans (h2.trans (h3.trans (Ate.peeked a4)))),
            by simp [printType, bangIf, p1, p2, p3]⟩
      · simp at hb
    · rcases hs with ⟨rfl, _⟩ | ⟨_, _, rfl⟩
      · simp at hb
      · rcases hs2 with ⟨rfl, _, u4, h4, p4⟩ | ⟨rfl, _, rfl⟩
        · exact ⟨_, (Ate.peeked a).trans ((Ate.peeked _).trans (h2.trans h4)), by simp [printType, bangIf, p2, p4]⟩
        · exact ⟨_, (Ate.peeked a).trans ((Ate.peeked _).trans (h2.trans (Ate.peeked a3))), by simp [printType, bangIf, p2]⟩

theorem spec_parseVariableDefinition (n : Nat) :
    Spec (parseVariableDefinition n) (Eats fun v u => tk u = printVarDef v ∧ WFVarDef v) := by
  unfold parseVariableDefinition
  refine (Spec.bind spec_peekPos fun pos => Spec.bind spec_parseVariable fun var =>
    Spec.bind (spec_punct .colon (by decide) (by decide) rfl) fun _ =>
    Spec.bind (spec_parseTypeReference n) fun ty =>
    Spec.bind (spec_skipP .equals (by decide) (by decide) rfl) fun b => Spec.ite
      (fun _ => Spec.bind (spec_parseValueLiteral true n) fun v => Spec.bind (Spec.pure (Option.some v)) fun dv =>
        Spec.bind (spec_parseDirectives n true) fun dirs => Spec.pure _)
      (fun _ => Spec.bind (Spec.pure none) fun dv =>
        Spec.bind (spec_parseDirectives n true) fun dirs => Spec.pure _)).mono ?_
  rintro x a a'' _ ⟨pos, a1, ⟨rfl, _⟩, var, a2, ⟨u1, h1, p1⟩, _, a3, ⟨u2, h2, p2⟩, ty, a4, ⟨u3, h3, p3⟩, b, a5, hs,
    ⟨hb, v, a6, ⟨u4, h4, p4⟩, dv, a7, ⟨rfl, rfl⟩, dirs, a8, ⟨u5, h5, p5⟩, rfl, rfl⟩ |
    ⟨hb, dv, a7, ⟨rfl, rfl⟩, dirs, a8, ⟨u5, h5, p5⟩, rfl, rfl⟩⟩
  · rcases hs with ⟨_, _, u0, h0, p0⟩ | ⟨rfl, _⟩
    · refine ⟨_, (Ate.peeked a).trans (h1.trans (h2.trans (h3.trans (h0.trans (h4.trans h5))))),
        by simp [printVarDef, printDefault, p1, p2, p3, p0, p4.1, p5.1], ⟨fun d hd => ?_, p5.2 rfl⟩⟩
      cases hd; exact p4.2 rfl
    · simp at hb
  · rcases hs with ⟨rfl, _⟩ | ⟨_, _, rfl⟩
    · simp at hb
    · exact ⟨_, (Ate.peeked a).trans (h1.trans (h2.trans (h3.trans ((Ate.peeked a4).trans h5)))),
        by simp [printVarDef, printDefault, p1, p2, p3, p5.1], ⟨fun d hd => (by cases hd), p5.2 rfl⟩⟩

/-- `VariableDefinitions?` -/
def PVarDefs (vs : List VarDef) (u : List Token) : Prop := tk u = printVarDefs vs ∧ ∀ v ∈ vs, WFVarDef v

theorem spec_parseVariableDefinitions (n : Nat) : Spec (parseVariableDefinitions n) (Eats PVarDefs) := by
  unfold parseVariableDefinitions
  refine (spec_pSome .parenL .parenR (by decide) (by decide) (by decide) (by decide) n
    (spec_parseVariableDefinition n)).mono ?_
  rintro vs a a' _ ⟨hb, hne⟩
  obtain ⟨u, h1, h2, h3, _⟩ := bracketed_some rfl rfl hb hne
  exact ⟨u, h1, h2, h3⟩

/-! ### selections -/

theorem _root_.Gql.Grammar.Derives.cast {g : Grammar NT} {s : Sym NT} {t t' o o' : List Tok} (h : Derives g s t o) (ht : t = t') (ho : o = o') :
    Derives g s t' o' := ht ▸ ho ▸ h

/-- a selection: the consumed tokens derive `Selection` with the print of the tree as canonical form -/
def PSel (s : Selection) (u : List Token) : Prop :=
  Derives gql (.nt .selection) (tk u) (printSelection s) ∧ WFSelection s

/-- a (non-empty) selection set -/
def PSelSet (ss : Selections) (u : List Token) : Prop :=
  ss ≠ .nil ∧ WFSelections ss ∧ Derives gql (.nt .selectionSet) (tk u) (printSelectionSet ss) ∧ u ≠ []

theorem many_sel {xs : List Selection} {mid : List Token} (h : Many PSel xs mid) :
    Derives gql (.star (.nt .selection)) (tk mid) (printSelections (Selections.ofList xs)) ∧
      WFSelections (Selections.ofList xs) := by
  induction h with
  | nil => exact ⟨Derives.starNil, trivial⟩
  | @cons x xs u us hx _ ih =>
    refine ⟨?_, ?_⟩
    · simp only [tk_append, Selections.ofList, printSelections]
      exact Derives.starCons hx.1 ih.1
    · simp only [Selections.ofList, WFSelections]
      exact ⟨hx.2, ih.2⟩

theorem selSet_of_bracket {xs : List Selection} {a a' : AS} (hb : Bracketed PSel .braceL .braceR xs a a')
    (hne : a.σ.head.kind = .braceL → xs ≠ []) (hk : a.σ.head.kind = .braceL) :
    Eats PSelSet (Selections.ofList xs) a a' := by
  rcases hb with ⟨_, hk', _⟩ | ⟨_, u, hu, t1, mid, t2, rfl, k1, k2, o1, o2, hm⟩
  · exact absurd hk hk'
  · have hxs := hne hk
    cases hm with
    | nil => exact absurd rfl hxs
    | @cons x xs u us hx hrest =>
      obtain ⟨m1, m2⟩ := many_sel hrest
      refine ⟨_, hu, by simp [Selections.ofList], by simp only [Selections.ofList, WFSelections]; exact ⟨hx.2, m2⟩, ?_,
        by simp⟩
      have hp := Derives.plus hx.1 m1
      have := Derives.nt (g := gql) (n := NT.selectionSet)
        (Derives.seq (L.kind .braceL) (Derives.seq hp (L.kind .braceR)))
      refine this.cast ?_ ?_
      · simp [ofToken_punct k1 o1 rfl, ofToken_punct k2 o2 rfl]
      · simp [printSelectionSet, Selections.ofList, printSelections]

theorem spec_parseOptionalSelectionSetWith {sel : Prog Selection} (hsel : Spec sel (Eats PSel)) (n : Nat) :
    Spec (parseOptionalSelectionSetWith sel n) (fun ss a a' => a.σ.head.kind = .braceL → Eats PSelSet ss a a') := by
  unfold parseOptionalSelectionSetWith
  refine (Spec.bind (spec_pSome .braceL .braceR (by decide) (by decide) (by decide) (by decide) n hsel)
    fun xs => Spec.pure (Selections.ofList xs)).mono ?_
  rintro ss a a'' _ ⟨xs, a1, ⟨hb, hne⟩, rfl, rfl⟩ hk
  exact selSet_of_bracket hb hne hk

theorem spec_parseRequiredSelectionSetWith {sel : Prog Selection} (hsel : Spec sel (Eats PSel)) (n : Nat) :
    Spec (parseRequiredSelectionSetWith sel n) (Eats PSelSet) := by
  unfold parseRequiredSelectionSetWith
  refine (Spec.bind spec_peek fun t => Spec.ite
    (fun _ => Spec.bind spec_peek fun _ => Spec.bind spec_peek fun _ =>
        Spec.of_dead_bind (R := fun _ _ _ => False) (failAt_dead _ _))
    (fun _ => Spec.bind (spec_pSome .braceL .braceR (by decide) (by decide) (by decide) (by decide) n hsel)
      fun xs => Spec.pure (Selections.ofList xs))).mono ?_
  rintro ss a a'' _ ⟨t, a1, ⟨rfl, rfl⟩, ⟨_, _, _, _, _, _, _, hf⟩ | ⟨hk, xs, a2, ⟨hb, hne⟩, rfl, rfl⟩⟩
  · exact hf.elim
  · simp only [ne_eq, Decidable.not_not] at hk
    obtain ⟨u, hu, p⟩ := selSet_of_bracket hb hne hk
    exact ⟨u, (Ate.peeked a).trans hu, p⟩

/-- the canonical form of `SelectionSet?` in a field -/
def selOut : Selections → List Tok
  | .nil => []
  | .cons s rest => tP .braceL :: printSelections (.cons s rest) ++ [tP .braceR]

theorem selOut_of_ne {ss : Selections} (h : ss ≠ .nil) : selOut ss = printSelectionSet ss := by
  cases ss with
  | nil => exact absurd rfl h
  | cons s rest => rfl

theorem head_selOut (ss : Selections) : ∀ t, (selOut ss).head? = some t → t.kind ≠ .colon := by
  intro t h
  cases ss with
  | nil => simp [selOut] at h
  | cons s rest => simp [selOut] at h; subst h; simp [tP]

theorem dropSelfAlias_self (a : Name) (rest : List Tok) :
    dropSelfAlias (tName a :: tP .colon :: tName a :: rest) = tName a :: rest := by
  simp [dropSelfAlias, tName, tP]

theorem derives_field (al nm : Name) (args : List Argument) (ds : List Directive) (ss : Selections) (pos : Pos)
    (colon : Bool) (hcol : colon = false → al = nm) {tsSel : List Tok}
    (hsel : Derives gql (.opt (.nt .selectionSet)) tsSel (selOut ss)) :
    Derives gql (.nt .selection)
      ((if colon then [tName al, tP .colon] else []) ++ tName nm :: (printArguments args ++ (printDirectives ds ++ tsSel)))
      (printSelection (.field al nm args ds ss pos)) := by
  have halias : Derives gql (.opt (.nt .alias)) (if colon then [tName al, tP .colon] else [])
      (if colon then [tName al, tP .colon] else []) := by
    cases colon
    · exact Derives.optNone
    · exact Derives.optSome (L.nt (L.cons (L.name al) (L.kind .colon)))
  have body := Derives.seq halias (Derives.seq (L.name nm) (Derives.seq (L_optArguments false args (by simp))
    (Derives.seq (L_optDirectives false ds (by simp)) hsel)))
  have hf : Derives gql (.nt .field) _ _ := Derives.nt (n := NT.field) (Derives.canon (f := dropSelfAlias) body)
  refine (Derives.nt (n := NT.selection) (Derives.altL hf)).cast (by simp) ?_
  have hsame : printSelection (.field al nm args ds ss pos) =
      (if al = nm then [] else [tName al, tP .colon]) ++ tName nm :: (printArguments args ++ (printDirectives ds ++ selOut ss)) := by
    cases ss <;> simp [printSelection, selOut]
  rw [hsame]
  cases colon with
  | false =>
    have := hcol rfl
    subst this
    simp only [Bool.false_eq_true, if_false, List.nil_append, if_true, List.singleton_append]
    refine dropSelfAlias_plain _ _ (head_append (fun t h => ?_) (head_append (fun t h => ?_) (head_selOut ss)))
    · rw [head_printArguments _ t h]; simp [tP]
    · rw [head_printDirectives _ t h]; simp [tP]
  | true =>
    by_cases he : al = nm
    · subst he
      simpa using dropSelfAlias_self al _
    · simpa [he] using dropSelfAlias_alias al nm he _

/-- the part of `parseField` after the name -/
def fieldTail (sel : Prog Selection) (n : Nat) (pos : Pos) (alias name : Name) : Prog Selection := do
  let args ← parseArguments n false
  let dirs ← parseDirectives n false
  let t ← peek
  let ss ← do
    if t.kind = .braceL then parseOptionalSelectionSetWith sel n else pure Selections.nil
  pure (Selection.field alias name args dirs ss pos)

theorem parseFieldWith_eq (sel : Prog Selection) (n : Nat) :
    parseFieldWith sel n = (do
      let pos ← peekPos
      let alias ← parseName
      let b ← skip .colon
      if b then do
        let name ← parseName
        fieldTail sel n pos alias name
      else fieldTail sel n pos alias alias) := rfl

theorem spec_fieldTail {sel : Prog Selection} (hsel : Spec sel (Eats PSel)) (n : Nat) (pos : Pos) (al nm : Name) :
    Spec (fieldTail sel n pos al nm) (Eats fun s u => ∃ args ds ss tsSel, s = .field al nm args ds ss pos ∧
      tk u = printArguments args ++ (printDirectives ds ++ tsSel) ∧
      Derives gql (.opt (.nt .selectionSet)) tsSel (selOut ss) ∧ WFSelections ss) := by
  unfold fieldTail
  refine (Spec.bind (spec_parseArguments n false) fun args => Spec.bind (spec_parseDirectives n false) fun dirs =>
    Spec.bind spec_peek fun t => Spec.ite
      (fun _ => Spec.bind (spec_parseOptionalSelectionSetWith hsel n) fun ss => Spec.pure _)
      (fun _ => Spec.bind (Spec.pure Selections.nil) fun ss => Spec.pure _)).mono ?_
  rintro s a a'' _ ⟨args, a1, ⟨u1, h1, p1⟩, dirs, a2, ⟨u2, h2, p2⟩, t, a3, ⟨rfl, rfl⟩,
    ⟨hk, ss, a4, hss, rfl, rfl⟩ | ⟨hk, ss, a4, ⟨rfl, rfl⟩, rfl, rfl⟩⟩
  · obtain ⟨u3, h3, q1, q2, q3, _⟩ := hss hk
    refine ⟨_, h1.trans (h2.trans ((Ate.peeked a2).trans h3)), args, dirs, ss, tk u3, rfl, by simp [p1.1, p2.1], ?_, q2⟩
    rw [selOut_of_ne q1]
    exact Derives.optSome q3
  · exact ⟨_, h1.trans (h2.trans (Ate.peeked a2)), args, dirs, .nil, [], rfl, by simp [p1.1, p2.1],
      Derives.optNone, trivial⟩

theorem spec_parseFieldWith {sel : Prog Selection} (hsel : Spec sel (Eats PSel)) (n : Nat) :
    Spec (parseFieldWith sel n) (Eats PSel) := by
  rw [parseFieldWith_eq]
  refine (Spec.bind spec_peekPos fun pos => Spec.bind spec_parseName fun al =>
    Spec.bind (spec_skipP .colon (by decide) (by decide) rfl) fun b => Spec.ite
      (fun _ => Spec.bind spec_parseName fun nm => spec_fieldTail hsel n pos al nm)
      (fun _ => spec_fieldTail hsel n pos al al)).mono ?_
  rintro s a a'' _ ⟨pos, a1, ⟨rfl, _⟩, al, a2, ⟨u1, h1, p1⟩, b, a3, hs,
    ⟨hb, nm, a4, ⟨u2, h2, p2⟩, u3, h3, args, ds, ss, tsSel, rfl, q1, q2, q3⟩ |
    ⟨hb, u3, h3, args, ds, ss, tsSel, rfl, q1, q2, q3⟩⟩
  · rcases hs with ⟨_, _, u0, h0, p0⟩ | ⟨rfl, _⟩
    · refine ⟨_, (Ate.peeked a).trans (h1.trans (h0.trans (h2.trans h3))), ?_, by simpa [WFSelection] using q3⟩
      exact (derives_field al nm args ds ss pos true (by simp) q2).cast (by simp [p1, p0, p2, q1]) rfl
    · simp at hb
  · rcases hs with ⟨rfl, _⟩ | ⟨_, _, rfl⟩
    · simp at hb
    · refine ⟨_, (Ate.peeked a).trans (h1.trans ((Ate.peeked a2).trans h3)), ?_, by simpa [WFSelection] using q3⟩
      exact (derives_field al al args ds ss pos false (fun _ => rfl) q2).cast (by simp [p1, q1]) rfl

theorem Ate.head {a a' : AS} {t : Token} {rest : List Token} (h : Ate a a' (t :: rest)) : a.σ.head = t := by
  rw [h.σ]; rfl

/-- `parseFragmentName`: a name other than `on` -/
theorem spec_parseFragmentName : Spec parseFragmentName (Eats fun n u => tk u = [tName n] ∧ n ≠ str "on") := by
  unfold parseFragmentName
  refine (Spec.bind spec_peek fun t => Spec.ite (fun _ => Spec.of_dead_bind (R := fun _ _ _ => False) unexpectedError_dead)
    (fun _ => spec_parseName')).mono ?_
  rintro n a a'' _ ⟨t, a1, ⟨rfl, rfl⟩, ⟨_, hf⟩ | ⟨hv, u, h1, t', rfl, k1, rfl, _⟩⟩
  · exact hf.elim
  · have hh : a.σ.head = t' := h1.head
    refine ⟨_, (Ate.peeked a).trans h1, by simp [ofToken_name k1], ?_⟩
    rw [hh] at hv; exact hv

/-- the part of an inline fragment after the type condition -/
def inlineTail (sel : Prog Selection) (n : Nat) (pos : Pos) (tc : Name) : Prog Selection := do
  let dirs ← parseDirectives n false
  let ss ← parseRequiredSelectionSetWith sel n
  pure (Selection.inline tc dirs ss pos)

theorem parseFragmentWith_eq (sel : Prog Selection) (n : Nat) :
    parseFragmentWith sel n = (do
      let _ ← expect .spread
      let pk ← peek
      if pk.kind = .name ∧ pk.value ≠ kwOn then do
        let pos ← peekPos
        let name ← parseFragmentName
        let dirs ← parseDirectives n false
        pure (Selection.spread name dirs pos)
      else do
        let pos ← peekPos
        let t ← peek
        if t.kind = .name ∧ t.value = kwOn then do
          let _ ← next
          let tc ← parseName
          inlineTail sel n pos tc
        else inlineTail sel n pos []) := rfl

theorem derives_inline (tc : Name) (ds : List Directive) (ss : Selections) (pos : Pos) {tsSS : List Tok}
    (hss : Derives gql (.nt .selectionSet) tsSS (printSelectionSet ss)) :
    Derives gql (.nt .selection)
      (tP .spread :: ((if tc = [] then [] else [tKw "on", tName tc]) ++ (printDirectives ds ++ tsSS)))
      (printSelection (.inline tc ds ss pos)) := by
  have htc : L (.opt (.nt .typeCondition)) (if tc = [] then [] else [tKw "on", tName tc]) := by
    split
    · exact L.optNone
    · exact L.optSome (L.nt (L.cons (L.kw "on") (L.namedType tc)))
  have hi := Derives.nt (n := NT.inlineFragment)
    (Derives.seq (L.kind .spread) (Derives.seq htc (Derives.seq (L_optDirectives false ds (by simp)) hss)))
  exact (Derives.nt (n := NT.selection) (Derives.altR (Derives.altR hi))).cast (by simp)
    (by simp [printSelection, printSelectionSet])

theorem spec_inlineTail {sel : Prog Selection} (hsel : Spec sel (Eats PSel)) (n : Nat) (pos : Pos) (tc : Name) :
    Spec (inlineTail sel n pos tc) (Eats fun s u => ∃ ds ss uss, s = .inline tc ds ss pos ∧
      tk u = printDirectives ds ++ tk uss ∧ PSelSet ss uss) := by
  unfold inlineTail
  refine (Spec.bind (spec_parseDirectives n false) fun dirs =>
    Spec.bind (spec_parseRequiredSelectionSetWith hsel n) fun ss => Spec.pure _).mono ?_
  rintro s a a'' _ ⟨dirs, a1, ⟨u1, h1, p1⟩, ss, a2, ⟨u2, h2, p2⟩, rfl, rfl⟩
  exact ⟨_, h1.trans h2, dirs, ss, u2, rfl, by simp [p1.1], p2⟩

theorem spec_parseFragmentWith {sel : Prog Selection} (hsel : Spec sel (Eats PSel)) (n : Nat) :
    Spec (parseFragmentWith sel n) (Eats PSel) := by
  rw [parseFragmentWith_eq]
  refine (Spec.bind (spec_punct .spread (by decide) (by decide) rfl) fun _ => Spec.bind spec_peek fun pk => Spec.ite
    (fun _ => Spec.bind spec_peekPos fun pos => Spec.bind spec_parseFragmentName fun name =>
      Spec.bind (spec_parseDirectives n false) fun dirs => Spec.pure _)
    (fun _ => Spec.bind spec_peekPos fun pos => Spec.bind spec_peek fun t => Spec.ite
      (fun _ => Spec.bind spec_next fun _ => Spec.bind spec_parseName' fun tc => spec_inlineTail hsel n pos tc)
      (fun _ => spec_inlineTail hsel n pos []))).mono ?_
  rintro s a a'' hne ⟨_, a1, ⟨u1, h1, p1⟩, pk, a2, ⟨rfl, rfl⟩,
    ⟨_, pos, a3, ⟨rfl, _⟩, name, a4, ⟨u2, h2, p2⟩, dirs, a5, ⟨u3, h3, p3⟩, rfl, rfl⟩ |
    ⟨_, pos, a3, ⟨rfl, _⟩, t, a4, ⟨rfl, rfl⟩,
      ⟨hk, tn, a5, hn, tc, a6, ⟨u2, h2, p2⟩, u3, h3, ds, ss, uss, rfl, q1, q2⟩ |
      ⟨hk, u3, h3, ds, ss, uss, rfl, q1, q2⟩⟩⟩
  · refine ⟨_, h1.trans ((Ate.peeked a1).trans ((Ate.peeked _).trans (h2.trans h3))), ?_, p2.2⟩
    have := L_selection (.spread name dirs pos) p2.2
    exact Derives.cast this (by simp [printSelection, p1, p2.1, p3.1]) rfl
  · have hne1 : a1.σ.NoEof := h1.noEof hne
    obtain ⟨e1, e2, e3⟩ := next_eats (a := { a1 with pk := true }) (k := .name) hne1 rfl hk.1 (by decide) (by decide) hn
    have htn : Tok.ofToken tn = tKw "on" := by
      rw [e1]; simp [Tok.ofToken, tKw, hk.1, hk.2, kwOn]
    obtain ⟨t', rfl, k1, rfl, ok⟩ := p2
    have htc : t'.value ≠ [] := ok.2.2 k1
    refine ⟨_, h1.trans ((Ate.peeked a1).trans (e2.trans (h2.trans h3))), ?_, by
      simp only [WFSelection]; exact ⟨q2.1, q2.2.1⟩⟩
    refine (derives_inline t'.value ds ss pos q2.2.2.1).cast ?_ rfl
    simp [p1, htn, q1, htc, ofToken_name k1]
  · refine ⟨_, h1.trans ((Ate.peeked a1).trans h3), ?_, by simp only [WFSelection]; exact ⟨q2.1, q2.2.1⟩⟩
    refine (derives_inline [] ds ss pos q2.2.2.1).cast ?_ rfl
    simp [p1, q1]

/-- `Selection` -/
theorem spec_parseSelection : ∀ n, Spec (parseSelection n) (Eats PSel)
  | 0 => Spec.of_dead (outOfFuel_dead _)
  | n + 1 => by
    have ih := spec_parseSelection n
    unfold parseSelection
    refine (Spec.bind spec_peek fun t => Spec.ite (fun _ => spec_parseFragmentWith ih (n + 1))
      (fun _ => spec_parseFieldWith ih (n + 1))).mono ?_
    rintro s a a'' _ ⟨t, a1, ⟨rfl, rfl⟩, ⟨_, u, h, p⟩ | ⟨_, u, h, p⟩⟩
    · exact ⟨u, (Ate.peeked a).trans h, p⟩
    · exact ⟨u, (Ate.peeked a).trans h, p⟩

/-- `SelectionSet` -/
theorem spec_parseRequiredSelectionSet (n : Nat) : Spec (parseRequiredSelectionSet n) (Eats PSelSet) :=
  spec_parseRequiredSelectionSetWith (spec_parseSelection n) n

/-! ### definitions -/

theorem dropBareQuery_nonbare (o : OperationDef) (hbare : ¬ OperationDef.isBare o = true) :
    dropBareQuery (tName o.op :: ((if o.name = [] then [] else [tName o.name]) ++
        (printVarDefs o.vars ++ (printDirectives o.dirs ++ printSelectionSet o.sel))))
      = tName o.op :: ((if o.name = [] then [] else [tName o.name]) ++
        (printVarDefs o.vars ++ (printDirectives o.dirs ++ printSelectionSet o.sel))) := by
  by_cases hq : o.op = str "query"
  · refine dropBareQuery_second _ _ ?_
    by_cases h1 : o.name = []
    · by_cases h2 : o.vars = []
      · by_cases h3 : o.dirs = []
        · exact absurd (by simp [OperationDef.isBare, hq, h1, h2, h3]) hbare
        · simp only [h1, if_true, List.nil_append, h2, printVarDefs, List.isEmpty_nil]
          cases hd : o.dirs with
          | nil => exact absurd hd h3
          | cons d r =>
            intro t h
            simp [printDirectives, printDirective] at h
            subst h; simp [tP]
      · simp only [h1, if_true, List.nil_append]
        cases hv : o.vars with
        | nil => exact absurd hv h2
        | cons v r =>
          intro t h
          simp [printVarDefs] at h
          subst h; simp [tP]
    · simp only [h1, if_false]
      intro t h
      simp at h
      subst h; simp [tName]
  · exact dropBareQuery_first _ _ (by simpa [tName] using hq)

theorem derives_operation (o : OperationDef)
    (hop : o.op = str "query" ∨ o.op = str "mutation" ∨ o.op = str "subscription")
    (hvars : ∀ v ∈ o.vars, WFVarDef v) {tsSS : List Tok}
    (hss : Derives gql (.nt .selectionSet) tsSS (printSelectionSet o.sel)) :
    Derives gql (.nt .operationDefinition)
      (tName o.op :: ((if o.name = [] then [] else [tName o.name]) ++ (printVarDefs o.vars ++ (printDirectives o.dirs ++ tsSS))))
      (printOperation o) := by
  have hn : L (.opt (.nt .name)) (if o.name = [] then [] else [tName o.name]) := by
    split
    · exact L.optNone
    · exact L.optSome (L.name o.name)
  have hbody := Derives.altL (b := .nt .selectionSet) (Derives.seq (L_operationType o.op hop) (Derives.seq hn
    (Derives.seq (L_optVarDefs o.vars hvars) (Derives.seq (L_optDirectives false o.dirs (by simp)) hss))))
  refine (Derives.nt (n := NT.operationDefinition) (Derives.canon (f := dropBareQuery) hbody)).cast (by simp) ?_
  by_cases hb : OperationDef.isBare o = true
  · have hp : printOperation o = printSelectionSet o.sel := by simp [printOperation, hb]
    rw [hp]
    simp only [OperationDef.isBare, Bool.and_eq_true, beq_iff_eq, List.isEmpty_iff] at hb
    obtain ⟨⟨⟨h1, h2⟩, h3⟩, h4⟩ := hb
    simp [h1, h2, h3, h4, printVarDefs, printDirectives, printSelectionSet, dropBareQuery, tName, tP]
  · have hp : printOperation o = tName o.op :: ((if o.name = [] then [] else [tName o.name]) ++
        (printVarDefs o.vars ++ (printDirectives o.dirs ++ printSelectionSet o.sel))) := by
      simp [printOperation, hb]
    rw [hp]
    simpa using dropBareQuery_nonbare o hb

theorem derives_shorthand (ss : Selections) (pos : Pos) {tsSS : List Tok}
    (hss : Derives gql (.nt .selectionSet) tsSS (printSelectionSet ss)) :
    Derives gql (.nt .operationDefinition) tsSS
      (printOperation { op := kwQuery, name := [], vars := [], dirs := [], sel := ss, pos := pos }) := by
  have hbody := Derives.altR (g := gql)
    (a := (.nt .operationType : Sym NT).seq ((Sym.opt (.nt .name)).seq ((Sym.opt (.nt .variableDefinitions)).seq
      ((Sym.opt (.nt (.directives false))).seq (.nt .selectionSet))))) hss
  refine (Derives.nt (n := NT.operationDefinition) (Derives.canon (f := dropBareQuery) hbody)).cast rfl ?_
  simp [printOperation, OperationDef.isBare, kwQuery, printSelectionSet, dropBareQuery_brace]

/-- `parseOperationType`: the filled look-ahead is consumed, and it is a Name `query` / `mutation` /
    `subscription` -/
theorem spec_parseOperationType : Spec parseOperationType (fun op a a' => a.pk = true →
    ∃ t, Ate a a' [t] ∧ Tok.ofToken t = tName op ∧ (op = str "query" ∨ op = str "mutation" ∨ op = str "subscription")) := by
  unfold parseOperationType
  refine (Spec.bind (spec_next.and spec_next_head) fun tok => Spec.ite (fun _ => Spec.pure kwQuery) fun _ =>
    Spec.ite (fun _ => Spec.pure kwMutation) fun _ => Spec.ite (fun _ => Spec.pure kwSubscription) fun _ =>
      Spec.of_dead_bind (R := fun _ _ _ => False) (failAt_dead _ _)).mono ?_
  rintro op a a'' hne ⟨tok, a1, ⟨hn, hh⟩, h⟩ hpk
  have hk : tok.kind = .name → a.σ.head.kind = .name := fun h => by rw [← hh hpk]; exact h
  rcases h with ⟨hc, rfl, rfl⟩ | ⟨_, ⟨hc, rfl, rfl⟩ | ⟨_, ⟨hc, rfl, rfl⟩ | ⟨_, hf⟩⟩⟩
  · obtain ⟨e1, e2, e3⟩ := next_eats hne hpk (hk hc.1) (by decide) (by decide) hn
    exact ⟨tok, e2, by simp [Tok.ofToken, tName, hc.1, hc.2], .inl rfl⟩
  · obtain ⟨e1, e2, e3⟩ := next_eats hne hpk (hk hc.1) (by decide) (by decide) hn
    exact ⟨tok, e2, by simp [Tok.ofToken, tName, hc.1, hc.2], .inr (.inl rfl)⟩
  · obtain ⟨e1, e2, e3⟩ := next_eats hne hpk (hk hc.1) (by decide) (by decide) hn
    exact ⟨tok, e2, by simp [Tok.ofToken, tName, hc.1, hc.2], .inr (.inr rfl)⟩
  · exact hf.elim

/-- an operation definition: position of its first token, derivation, well-formedness -/
def POp (o : OperationDef) (u : List Token) : Prop :=
  (∃ t rest, u = t :: rest ∧ o.pos.start = t.start) ∧
    Derives gql (.nt .operationDefinition) (tk u) (printOperation o) ∧ WFOperation o

/-- the part of an operation definition after the name -/
def opTail (n : Nat) (pos : Pos) (op : Operation) (name : Name) : Prog OperationDef := do
  let vars ← parseVariableDefinitions n
  let dirs ← parseDirectives n false
  let ss ← parseRequiredSelectionSet n
  pure { op := op, name := name, vars := vars, dirs := dirs, sel := ss, pos := pos }

theorem parseOperationDefinition_eq (n : Nat) :
    parseOperationDefinition n = (do
      let t ← peek
      if t.kind = .braceL then do
        let pos ← peekPos
        let ss ← parseRequiredSelectionSet n
        pure { op := kwQuery, name := [], vars := [], dirs := [], sel := ss, pos := pos }
      else do
        let pos ← peekPos
        let op ← parseOperationType
        let t ← peek
        if t.kind = .name then do
          let tk ← next
          opTail n pos op tk.value
        else opTail n pos op []) := rfl

theorem spec_opTail (n : Nat) (pos : Pos) (op : Operation) (name : Name) :
    Spec (opTail n pos op name) (Eats fun o u => ∃ vars dirs ss uss,
      o = { op := op, name := name, vars := vars, dirs := dirs, sel := ss, pos := pos } ∧
      tk u = printVarDefs vars ++ (printDirectives dirs ++ tk uss) ∧ (∀ v ∈ vars, WFVarDef v) ∧ PSelSet ss uss) := by
  unfold opTail
  refine (Spec.bind (spec_parseVariableDefinitions n) fun vars => Spec.bind (spec_parseDirectives n false) fun dirs =>
    Spec.bind (spec_parseRequiredSelectionSet n) fun ss => Spec.pure _).mono ?_
  rintro o a a'' _ ⟨vars, a1, ⟨u1, h1, p1⟩, dirs, a2, ⟨u2, h2, p2⟩, ss, a3, ⟨u3, h3, p3⟩, rfl, rfl⟩
  exact ⟨_, h1.trans (h2.trans h3), vars, dirs, ss, u3, rfl, by simp [p1.1, p2.1], p1.2, p3⟩

theorem spec_parseOperationDefinition (n : Nat) :
    Spec (parseOperationDefinition n) (Eats POp) := by
  rw [parseOperationDefinition_eq]
  refine (Spec.bind spec_peek fun t => Spec.ite
    (fun _ => Spec.bind spec_peekPos fun pos => Spec.bind (spec_parseRequiredSelectionSet n) fun ss => Spec.pure _)
    (fun _ => Spec.bind spec_peekPos fun pos => Spec.bind spec_parseOperationType fun op => Spec.bind spec_peek fun t2 =>
      Spec.ite (fun _ => Spec.bind spec_next fun tn => spec_opTail n pos op tn.value)
        (fun _ => spec_opTail n pos op []))).mono ?_
  rintro o a a'' hne ⟨t, a1, ⟨rfl, rfl⟩,
    ⟨hk, pos, a2, ⟨rfl, hpos⟩, ss, a3, ⟨u1, h1, p1⟩, rfl, rfl⟩ |
    ⟨hk, pos, a2, ⟨rfl, hpos⟩, op, a3, hop, t2, a4, ⟨rfl, rfl⟩,
      ⟨hk2, tn, a5, hn, u3, h3, vars, dirs, ss, uss, rfl, q1, q2, q3⟩ |
      ⟨hk2, u3, h3, vars, dirs, ss, uss, rfl, q1, q2, q3⟩⟩⟩
  · obtain ⟨p11, p12, p13, p14⟩ := p1
    cases u1 with
    | nil => exact absurd rfl p14
    | cons t1 rest =>
      refine ⟨_, (Ate.peeked a).trans ((Ate.peeked _).trans h1), ⟨t1, rest, rfl, ?_⟩, derives_shorthand ss pos p13,
        .inl rfl, by simp, p11, p12⟩
      rw [hpos]; exact congrArg Token.start h1.head
  · obtain ⟨t1, e1, e2, e3⟩ := hop rfl
    have hne3 : a3.σ.NoEof := e1.noEof hne
    obtain ⟨f1, f2, f3⟩ := next_eats (a := { a3 with pk := true }) (k := .name) hne3 rfl hk2 (by decide) (by decide) hn
    have hnm : tn.value ≠ [] := f3.2.2 (f1 ▸ hk2)
    refine ⟨_, (Ate.peeked a).trans ((Ate.peeked _).trans (e1.trans ((Ate.peeked a3).trans (f2.trans h3)))),
      ⟨t1, _, rfl, ?_⟩, ?_, e3, q2, q3.1, q3.2.1⟩
    · rw [hpos]; exact congrArg Token.start e1.head
    · refine (derives_operation { op := op, name := tn.value, vars := vars, dirs := dirs, sel := ss, pos := pos } e3 q2
        q3.2.2.1).cast ?_ rfl
      simp [e2, hnm, q1, ofToken_name (f1 ▸ hk2)]
  · obtain ⟨t1, e1, e2, e3⟩ := hop rfl
    refine ⟨_, (Ate.peeked a).trans ((Ate.peeked _).trans (e1.trans ((Ate.peeked a3).trans h3))),
      ⟨t1, _, rfl, ?_⟩, ?_, e3, q2, q3.1, q3.2.1⟩
    · rw [hpos]; exact congrArg Token.start e1.head
    · refine (derives_operation { op := op, name := [], vars := vars, dirs := dirs, sel := ss, pos := pos } e3 q2
        q3.2.2.1).cast ?_ rfl
      simp [e2, q1]

/-- a fragment definition: position of its first token, derivation, well-formedness -/
def PFrag (f : FragmentDef) (u : List Token) : Prop :=
  (∃ t rest, u = t :: rest ∧ f.pos.start = t.start) ∧
    Derives gql (.nt .fragmentDefinition) (tk u) (printFragment f) ∧ WFFragment f

theorem derives_fragment (f : FragmentDef) (hname : f.name ≠ str "on") (hvars : ∀ v ∈ f.vars, WFVarDef v)
    {tsSS : List Tok} (hss : Derives gql (.nt .selectionSet) tsSS (printSelectionSet f.sel)) :
    Derives gql (.nt .fragmentDefinition)
      (tKw "fragment" :: tName f.name :: (printVarDefs f.vars ++ (tKw "on" :: tName f.typeCond ::
        (printDirectives f.dirs ++ tsSS))))
      (printFragment f) := by
  have hfn : L (.nt .fragmentName) [tName f.name] := L.nt (L.tok (by simp [tName, hname]))
  have htc : L (.nt .typeCondition) [tKw "on", tName f.typeCond] := L.nt (L.cons (L.kw "on") (L.namedType f.typeCond))
  have := Derives.nt (n := NT.fragmentDefinition) (Derives.seq (L.kw "fragment") (Derives.seq hfn
    (Derives.seq (L_optVarDefs f.vars hvars) (Derives.seq htc (Derives.seq (L_optDirectives false f.dirs (by simp)) hss)))))
  exact this.cast (by simp) (by simp [printFragment])

theorem spec_parseFragmentDefinition (n : Nat) : Spec (parseFragmentDefinition n) (Eats PFrag) := by
  unfold parseFragmentDefinition
  refine (Spec.bind spec_peekPos fun pos => Spec.bind (spec_expectKeyword kwFragment) fun _ =>
    Spec.bind spec_parseFragmentName fun name => Spec.bind (spec_parseVariableDefinitions n) fun vars =>
    Spec.bind (spec_expectKeyword kwOn) fun _ => Spec.bind spec_parseName fun tc =>
    Spec.bind (spec_parseDirectives n false) fun dirs => Spec.bind (spec_parseRequiredSelectionSet n) fun ss =>
    Spec.pure _).mono ?_
  rintro f a a'' _ ⟨pos, a1, ⟨rfl, hpos⟩, tf, a2, ⟨u1, h1, rfl, k1, v1⟩, name, a3, ⟨u2, h2, p2⟩, vars, a4, ⟨u3, h3, p3⟩,
    ton, a5, ⟨u4, h4, rfl, k4, v4⟩, tc, a6, ⟨u5, h5, p5⟩, dirs, a7, ⟨u6, h6, p6⟩, ss, a8, ⟨u7, h7, p7⟩, rfl, rfl⟩
  refine ⟨_, (Ate.peeked a).trans (h1.trans (h2.trans (h3.trans (h4.trans (h5.trans (h6.trans h7)))))),
    ⟨tf, _, rfl, ?_⟩, ?_, p2.2, p3.2, p7.1, p7.2.1⟩
  · rw [hpos]; exact congrArg Token.start h1.head
  · refine (derives_fragment { name := name, vars := vars, typeCond := tc, dirs := dirs, sel := ss, pos := pos }
      p2.2 p3.2 p7.2.2.1).cast ?_ rfl
    have e1 : Tok.ofToken tf = tKw "fragment" := by simp [Tok.ofToken, tKw, k1, v1, kwFragment]
    have e4 : Tok.ofToken ton = tKw "on" := by simp [Tok.ofToken, tKw, k4, v4, kwOn]
    simp [e1, e4, p2.1, p3.1, p5, p6.1]

/-! ### the document -/

abbrev Def := OperationDef ⊕ FragmentDef

def PDef : Def → List Token → Prop
  | .inl o, u => POp o u
  | .inr f, u => PFrag f u

def opsOf : List Def → List OperationDef
  | [] => []
  | .inl o :: r => o :: opsOf r
  | .inr _ :: r => opsOf r

def fragsOf : List Def → List FragmentDef
  | [] => []
  | .inl _ :: r => fragsOf r
  | .inr f :: r => f :: fragsOf r

/-- what the document loop establishes: the definitions `defs` (in source order) were parsed one
    after the other, the operations were appended to `doc.ops` and the fragments to `doc.frags`,
    and the loop stopped with the look-ahead on the EOF token -/
def DocRel (doc : QueryDoc) : QueryDoc → AS → AS → Prop := fun d a a' =>
  ∃ defs used, Ate a a' used ∧ a'.pk = true ∧ a'.σ.head.kind = .eof ∧
    d.ops = doc.ops ++ opsOf defs ∧ d.frags = doc.frags ++ fragsOf defs ∧ Many PDef defs used

theorem DocRel.cons_op {doc d : QueryDoc} {od : OperationDef} {a a1 a' : AS}
    (h1 : Eats POp od a a1) (h2 : DocRel { doc with ops := doc.ops ++ [od] } d a1 a') : DocRel doc d a a' := by
  obtain ⟨u, hu, p⟩ := h1
  obtain ⟨defs, used, g1, g2, g3, g4, g5, g6⟩ := h2
  exact ⟨.inl od :: defs, u ++ used, hu.trans g1, g2, g3, by simpa [opsOf] using g4, by simpa [fragsOf] using g5,
    .cons (x := (.inl od : Def)) p g6⟩

theorem DocRel.cons_frag {doc d : QueryDoc} {fd : FragmentDef} {a a1 a' : AS}
    (h1 : Eats PFrag fd a a1) (h2 : DocRel { doc with frags := doc.frags ++ [fd] } d a1 a') : DocRel doc d a a' := by
  obtain ⟨u, hu, p⟩ := h1
  obtain ⟨defs, used, g1, g2, g3, g4, g5, g6⟩ := h2
  exact ⟨.inr fd :: defs, u ++ used, hu.trans g1, g2, g3, by simpa [opsOf] using g4, by simpa [fragsOf] using g5,
    .cons (x := (.inr fd : Def)) p g6⟩

theorem DocRel.peeked {doc d : QueryDoc} {a a' : AS} (h : DocRel doc d { a with pk := true } a') : DocRel doc d a a' := by
  obtain ⟨defs, used, g1, g⟩ := h
  exact ⟨defs, used, by simpa using (Ate.peeked a).trans g1, g⟩

theorem spec_queryDocLoop (m : Nat) : ∀ (n : Nat) (doc : QueryDoc), Spec (queryDocLoop m n doc) (DocRel doc)
  | 0, doc => Spec.of_dead (outOfFuel_dead _)
  | n + 1, doc => by
    have ih := spec_queryDocLoop m n
    unfold queryDocLoop
    refine (Spec.bind spec_peek fun t => Spec.ite
      (fun _ => Spec.bind spec_hasErr fun e => Spec.ite (fun _ => Spec.pure doc)
        (fun _ => Spec.bind spec_peekPos fun _ => Spec.bind spec_peek fun t1 =>
          (?_ : Spec _ (fun d a a' => a.σ.head = t1 → DocRel doc d a a'))))
      (fun _ => Spec.pure doc)).mono ?_
    · split
      · rename_i hk
        refine (Spec.bind spec_peek fun t2 => Spec.ite
          (fun _ => Spec.bind (spec_parseOperationDefinition m) fun od => ih _)
          (fun _ => Spec.ite (fun _ => Spec.bind (spec_parseFragmentDefinition m) fun fd => ih _)
            (fun _ => Spec.of_dead_bind (R := fun _ _ _ => False) unexpectedError_dead))).mono ?_
        rintro d a a'' _ ⟨t2, a1, ⟨rfl, rfl⟩, ⟨_, od, a2, hod, hrest⟩ | ⟨_, ⟨_, fd, a2, hfd, hrest⟩ | ⟨_, hf⟩⟩⟩ hh
        · exact DocRel.peeked (DocRel.cons_op hod hrest)
        · exact DocRel.peeked (DocRel.cons_frag hfd hrest)
        · exact hf.elim
      · rename_i hk
        refine (Spec.bind (spec_parseOperationDefinition m) fun od => ih _).mono ?_
        rintro d a a'' _ ⟨od, a2, hod, hrest⟩ hh
        exact DocRel.cons_op hod hrest
      · exact Spec.of_dead_bind unexpectedError_dead
    · rintro d a a'' _ ⟨t, a1, ⟨rfl, rfl⟩, ⟨_, e, a2, ⟨rfl, rfl⟩, ⟨he, _⟩ | ⟨_, _, a3, ⟨rfl, _⟩, t1, a4, ⟨rfl, rfl⟩, h⟩⟩ |
        ⟨hk, rfl, rfl⟩⟩
      · cases he
      · exact DocRel.peeked (DocRel.peeked (DocRel.peeked (h rfl)))
      · simp only [ne_eq, Decidable.not_not] at hk
        exact ⟨[], [], Ate.peeked a, rfl, hk, by simp [opsOf], by simp [fragsOf], .nil⟩

theorem spec_parseQueryDocument (n : Nat) : Spec (parseQueryDocument n) (DocRel { ops := [], frags := [] }) :=
  spec_queryDocLoop n n _

end Gql.Parser
