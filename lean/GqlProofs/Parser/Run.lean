import GqlModel.Parser.Schema
/-
  Basic facts about the interpreter `run` and the state primitives of `Parser/Core.lean`.
-/
namespace Gql.Parser
open Gql Gql.Lexer

@[simp] theorem bind_eq {α β : Type} (p : Prog α) (f : α → Prog β) : (p >>= f) = p.bind f := rfl
@[simp] theorem pure_eq {α : Type} (a : α) : (pure a : Prog α) = Prog.pure a := rfl

theorem run_bind {α β : Type} (L : Nat) (p : Prog α) (f : α → Prog β) (s : PState) :
    run L (p.bind f) s = run L (f (run L p s).1) (run L p s).2 := by
  induction p generalizing s with
  | pure a => simp [Prog.bind, run]
  | peek k ih => simp [Prog.bind, run, ih]
  | next k ih => simp [Prog.bind, run, ih]
  | hasErr k ih => simp [Prog.bind, run, ih]
  | getPrev k ih => simp [Prog.bind, run, ih]
  | getSrc k ih => simp [Prog.bind, run, ih]
  | fail tok msg k ih => simp [Prog.bind, run, ih]
  | oof k ih => simp [Prog.bind, run, ih]

/-! ### the sticky error: with `err` set every primitive returns `prev` and leaves the state alone -/

theorem peekNC_err {s : PState} (h : s.err.isSome) : s.peekNC = (s.prev, s) := by
  simp [PState.peekNC, h]

theorem nextNC_err (L : Nat) {s : PState} (h : s.err.isSome) : s.nextNC L = (s.prev, s) := by
  simp [PState.nextNC, h]

theorem peek_err (L : Nat) {s : PState} (h : s.err.isSome) : s.peek L = (s.prev, s) := by
  simp [PState.peek, h]

theorem next_err (L : Nat) {s : PState} (h : s.err.isSome) : s.next L = (s.prev, s) := by
  simp [PState.next, h]

theorem error_err {s : PState} (tok : Token) (msg : Bytes) (h : s.err.isSome) : s.error tok msg = s := by
  simp [PState.error, h]

theorem consumeCommentGroup_err (L : Nat) {s : PState} (h : s.err.isSome) : s.consumeCommentGroup L = s := by
  simp [PState.consumeCommentGroup, h]

/-- **sticky error, generic form**: once `err` is set, running any program changes nothing but
    (possibly) the ghost flag `oof`. -/
theorem run_err_state {α : Type} (L : Nat) (p : Prog α) (s : PState) (h : s.err.isSome) :
    (run L p s).2 = { s with oof := (run L p s).2.oof } := by
  induction p generalizing s with
  | pure a => simp [run]
  | peek k ih => simp only [run, peek_err L h]; exact ih _ s h
  | next k ih => simp only [run, next_err L h]; exact ih _ s h
  | hasErr k ih => simp only [run]; exact ih _ s h
  | getPrev k ih => simp only [run]; exact ih _ s h
  | getSrc k ih => simp only [run]; exact ih _ s h
  | fail tok msg k ih => simp only [run, error_err tok msg h]; exact ih s h
  | oof k ih =>
    simp only [run]
    have := ih { s with oof := true } h
    rw [this]

theorem run_err_err {α : Type} (L : Nat) (p : Prog α) (s : PState) (h : s.err.isSome) :
    (run L p s).2.err = s.err := by
  rw [run_err_state L p s h]

end Gql.Parser
