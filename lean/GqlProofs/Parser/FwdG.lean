import GqlProofs.Parser.Fwd
import GqlProofs.Grammar.Inv
/-
  The loop lemmas of `Fwd.lean` with the items given as token lists of any origin (`f : ι → List Tok`)
  and an arbitrary relation `Rel` between a parsed item and the item it was parsed from.  Used by
  the derivation-driven completeness proof, where the items are the iterations of a `star`.
-/
namespace Gql.Parser
open Gql Gql.Lexer Gql.Grammar Gql.Print

/-- the two lists are related item by item -/
inductive All₂ {α ι : Type} (R : α → ι → Prop) : List α → List ι → Prop
  | nil : All₂ R [] []
  | cons {y : α} {x : ι} {ys : List α} {xs : List ι} : R y x → All₂ R ys xs → All₂ R (y :: ys) (x :: xs)

theorem All₂.reverse_append {α ι : Type} {R : α → ι → Prop} {ys : List α} {xs : List ι} (h : All₂ R ys xs) :
    ∀ {ys' : List α} {xs' : List ι}, All₂ R ys' xs' → All₂ R (ys.reverse ++ ys') (xs.reverse ++ xs') := by
  induction h with
  | nil => intro ys' xs' h'; simpa using h'
  | cons h1 _ ih => intro ys' xs' h'; simpa using ih (.cons h1 h')

theorem fwd_itemsLoopG {α ι : Type} (f : ι → List Tok) (Rel : α → ι → Prop) (Fol : Stream → Prop) (stop : Kind) {cb : Prog α}
    (xs : List ι)
    (hcb : ∀ x ∈ xs, ∀ a σ1, Starts a.σ (f x) σ1 → Fol σ1 → Fwd cb a (fun y a' => Rel y x ∧ a'.σ = σ1))
    (hstart : ∀ x ∈ xs, ∃ t rest, f x = t :: rest ∧ t.kind ≠ stop)
    (hfol : ∀ σ1, (σ1.head.kind = stop ∨ ∃ x ∈ xs, ∃ t rest, f x = t :: rest ∧ Tok.ofToken σ1.head = t) → Fol σ1) :
    ∀ (n : Nat) (acc : List α) (a : AS) (σ' : Stream), Starts a.σ (xs.flatMap f) σ' → σ'.head.kind = stop →
      Fwd (itemsLoop stop cb n acc) a
        (fun ys a' => (∃ zs, ys = zs.reverse ++ acc ∧ All₂ Rel zs xs) ∧ a'.σ = σ' ∧ a'.pk = true) := by
  induction xs with
  | nil =>
    intro n acc a σ' hs hstop
    rw [List.flatMap_nil, Starts.nil_iff] at hs
    cases n with
    | zero => exact Fwd.outOfFuel _ _ _
    | succ n =>
      unfold itemsLoop
      refine Fwd.bind (fwd_peek a) ?_
      rintro t a1 ⟨rfl, rfl⟩
      refine Fwd.bind (fwd_hasErr _) ?_
      rintro e a2 ⟨rfl, rfl⟩
      refine Fwd.ite_neg (by rw [hs]; simp [hstop]) ((Fwd.pure acc _).mono ?_)
      rintro ys a' ⟨rfl, rfl⟩
      exact ⟨⟨[], by simp, .nil⟩, hs, rfl⟩
  | cons x xs ih =>
    intro n acc a σ' hs hstop
    rw [List.flatMap_cons, Starts.append_iff] at hs
    obtain ⟨σm, hx, hrest⟩ := hs
    obtain ⟨t, rest, hfx, htk⟩ := hstart x (by simp)
    cases n with
    | zero => exact Fwd.outOfFuel _ _ _
    | succ n =>
      unfold itemsLoop
      refine Fwd.bind (fwd_peek a) ?_
      rintro t0 a1 ⟨rfl, rfl⟩
      refine Fwd.bind (fwd_hasErr _) ?_
      rintro e a2 ⟨rfl, rfl⟩
      have hk : a.σ.head.kind = t.kind := by rw [hfx] at hx; exact hx.head_kind
      refine Fwd.ite_pos ⟨by rw [hk]; exact htk, by simp⟩ ?_
      have hFol : Fol σm := by
        apply hfol
        cases xs with
        | nil =>
          rw [List.flatMap_nil, Starts.nil_iff] at hrest
          exact .inl (by rw [hrest]; exact hstop)
        | cons y ys =>
          obtain ⟨t', rest', hfy, _⟩ := hstart y (by simp)
          rw [List.flatMap_cons, hfy, List.cons_append] at hrest
          exact .inr ⟨y, by simp, t', rest', hfy, hrest.head⟩
      refine Fwd.bind (hcb x (by simp) _ σm hx hFol) ?_
      rintro y a3 ⟨hy, hσ3⟩
      refine (ih (fun z hz => hcb z (by simp [hz])) (fun z hz => hstart z (by simp [hz]))
        (fun σ1 h => hfol σ1 (by
          rcases h with h | ⟨z, hz, h⟩
          · exact .inl h
          · exact .inr ⟨z, by simp [hz], h⟩)) n (y :: acc) a3 σ' (by rw [hσ3]; exact hrest) hstop).mono ?_
      rintro ys a' ⟨⟨zs, h1, h2⟩, h3, h4⟩
      exact ⟨⟨y :: zs, by rw [h1]; simp, .cons hy h2⟩, h3, h4⟩

/-- `many` / `some` when the opening token is there; `t1`, `t2` are the bracket tokens -/
theorem fwd_bracketG {α ι : Type} (f : ι → List Tok) (Rel : α → ι → Prop) (Fol : Stream → Prop) (start stop : Kind) {cb : Prog α}
    (xs : List ι)
    (hcb : ∀ x ∈ xs, ∀ a σ1, Starts a.σ (f x) σ1 → Fol σ1 → Fwd cb a (fun y a' => Rel y x ∧ a'.σ = σ1))
    (hstart : ∀ x ∈ xs, ∃ t rest, f x = t :: rest ∧ t.kind ≠ stop)
    (hfol : ∀ σ1, (σ1.head.kind = stop ∨ ∃ x ∈ xs, ∃ t rest, f x = t :: rest ∧ Tok.ofToken σ1.head = t) → Fol σ1)
    (n : Nat) (a : AS) (σ' : Stream) (t1 t2 : Tok) (hk1 : t1.kind = start) (hk2 : t2.kind = stop)
    (hs : Starts a.σ (t1 :: xs.flatMap f ++ [t2]) σ') :
    Fwd (pMany start stop n cb) a (fun ys a' => All₂ Rel ys xs ∧ a'.σ = σ') ∧
    (xs ≠ [] → Fwd (pSome start stop n cb) a (fun ys a' => All₂ Rel ys xs ∧ a'.σ = σ')) := by
  rw [List.cons_append, ← List.singleton_append, Starts.append_iff] at hs
  obtain ⟨σ1, h1, hs⟩ := hs
  rw [Starts.append_iff] at hs
  obtain ⟨σ2, h2, h3⟩ := hs
  obtain ⟨u, σ3, hσ2, hu, hrest⟩ := Starts.cons_iff.1 h3
  rw [Starts.nil_iff] at hrest
  subst hrest
  obtain ⟨u1, σ1', hσ1u, hu1, hrest1⟩ := Starts.cons_iff.1 h1
  rw [Starts.nil_iff] at hrest1
  subst hrest1
  have hku1 : u1.kind = start := by rw [← show (Tok.ofToken u1).kind = u1.kind from rfl, hu1]; exact hk1
  have hku : u.kind = stop := by rw [← show (Tok.ofToken u).kind = u.kind from rfl, hu]; exact hk2
  have hstop : σ2.head.kind = stop := by rw [hσ2]; exact hku
  constructor
  · unfold pMany
    refine Fwd.bind (fwd_skip_yes start hσ1u hku1) ?_
    rintro b a1 ⟨rfl, rfl⟩
    refine Fwd.ite_neg (by simp) (Fwd.bind (fwd_itemsLoopG f Rel Fol stop xs hcb hstart hfol n [] _ σ2 h2 hstop) ?_)
    rintro ys a2 ⟨⟨zs, hy, hz⟩, hσ, hpk⟩
    refine Fwd.bind (fwd_next hpk (by rw [hσ]; exact hσ2)) ?_
    rintro _ a3 ⟨_, rfl⟩
    refine (Fwd.pure _ _).mono ?_
    rintro ws a' ⟨rfl, rfl⟩
    exact ⟨by rw [hy]; simpa using hz, rfl⟩
  · intro hne
    unfold pSome
    refine Fwd.bind (fwd_skip_yes start hσ1u hku1) ?_
    rintro b a1 ⟨rfl, rfl⟩
    refine Fwd.ite_neg (by simp) (Fwd.bind (fwd_itemsLoopG f Rel Fol stop xs hcb hstart hfol n [] _ σ2 h2 hstop) ?_)
    rintro ys a2 ⟨⟨zs, hy, hz⟩, hσ, hpk⟩
    have hys : ys.isEmpty = false := by
      rw [hy]
      cases zs with
      | nil => cases hz; exact absurd rfl hne
      | cons z zs => simp
    refine Fwd.ite_neg (by simp [hys]) (Fwd.bind (fwd_next hpk (by rw [hσ]; exact hσ2)) ?_)
    rintro _ a3 ⟨_, rfl⟩
    refine (Fwd.pure _ _).mono ?_
    rintro ws a' ⟨rfl, rfl⟩
    exact ⟨by rw [hy]; simpa using hz, rfl⟩

theorem flatMap_forall₂ {α ι : Type} {P : α → List Tok} {g : ι → List Tok} {ys : List α} {xs : List ι}
    (h : All₂ (fun y x => P y = g x) ys xs) : ys.flatMap P = xs.flatMap g := by
  induction h with
  | nil => rfl
  | cons h1 _ ih => simp [h1, ih]

theorem forall₂_length {α ι : Type} {R : α → ι → Prop} {ys : List α} {xs : List ι} (h : All₂ R ys xs) :
    ys.length = xs.length := by
  induction h with
  | nil => rfl
  | cons _ _ ih => simp [ih]

end Gql.Parser
