import GqlProofs.Parser.Stream
/-
  A small program logic for `Prog` over the abstraction `abs` of Stream.lean.

  `Spec p R`: in every run of `p` (limit 0) that ends live (no error, no fuel exhaustion) from a
  state with a consistent look-ahead slot, the look-ahead slot stays consistent and the result,
  the abstract state before and the abstract state after are related by `R`.

  `Eats P` is the usual shape of `R`: the program consumed a list `used` of significant tokens
  (`before = used ++ after`), consumed no EOF token (`cnt` unchanged) and `P result used`.
-/
namespace Gql.Parser
open Gql Gql.Lexer

def Spec {α : Type} (p : Prog α) (R : α → AS → AS → Prop) : Prop :=
  ∀ s, WF s → dead (run 0 p s).2 = false → WF (run 0 p s).2 ∧ R (run 0 p s).1 (abs s) (abs (run 0 p s).2)

theorem Spec.mono {α : Type} {p : Prog α} {R R' : α → AS → AS → Prop} (h : Spec p R)
    (hr : ∀ x a a', a.σ.NoEof → R x a a' → R' x a a') : Spec p R' := by
  intro s hw hl
  obtain ⟨w, r⟩ := h s hw hl
  exact ⟨w, hr _ _ _ (abs_noEof hw) r⟩

theorem Spec.pure {α : Type} (x : α) : Spec (Pure.pure x : Prog α) (fun y a a' => y = x ∧ a' = a) := by
  intro s hw _
  exact ⟨hw, rfl, rfl⟩

theorem Spec.bind {α β : Type} {p : Prog α} {f : α → Prog β} {R1 : α → AS → AS → Prop}
    {R2 : α → β → AS → AS → Prop} (hp : Spec p R1) (hf : ∀ x, Spec (f x) (R2 x)) :
    Spec (p >>= f) (fun y a a'' => ∃ x a', R1 x a a' ∧ R2 x y a' a'') := by
  intro s hw hl
  rw [bind_eq, run_bind] at hl ⊢
  obtain ⟨w1, r1⟩ := hp s hw (live_of_run hl)
  obtain ⟨w2, r2⟩ := hf _ _ w1 hl
  exact ⟨w2, _, _, r1, r2⟩

/-- a branch that sets the error (or runs out of fuel) never ends live -/
theorem Spec.of_dead {α : Type} {p : Prog α} {R : α → AS → AS → Prop} (h : ∀ s, dead (run 0 p s).2 = true) : Spec p R := by
  intro s _ hl
  rw [h s] at hl; cases hl

theorem Spec.ite {α : Type} {c : Prop} [Decidable c] {p q : Prog α} {R1 R2 : α → AS → AS → Prop}
    (h1 : c → Spec p R1) (h2 : ¬ c → Spec q R2) :
    Spec (if c then p else q) (fun x a a' => (c ∧ R1 x a a') ∨ (¬ c ∧ R2 x a a')) := by
  split
  · rename_i hc; exact (h1 hc).mono fun _ _ _ _ r => .inl ⟨hc, r⟩
  · rename_i hc; exact (h2 hc).mono fun _ _ _ _ r => .inr ⟨hc, r⟩

theorem Spec.ite_same {α : Type} {c : Prop} [Decidable c] {p q : Prog α} {R : α → AS → AS → Prop}
    (h1 : c → Spec p R) (h2 : ¬ c → Spec q R) : Spec (if c then p else q) R := by
  split
  · exact h1 ‹_›
  · exact h2 ‹_›

/-! ### primitives -/

theorem spec_peek : Spec peek (fun t a a' => t = a.σ.head ∧ a' = { a with pk := true }) := by
  intro s hw hl
  simp only [peek, run] at hl ⊢
  obtain ⟨h1, h2, h3⟩ := peek_abs s hw hl
  exact ⟨h1, h2, h3⟩

theorem spec_next : Spec next
    (fun t a a' => a.pk = true → ∀ u σ', a.σ = .cons u σ' → t = u ∧ a' = { pk := false, σ := σ', cnt := a.cnt }) := by
  intro s hw hl
  simp only [next, run] at hl ⊢
  refine ⟨next_wf s hl, fun hpk u σ' hσ => ?_⟩
  have hl0 : dead s = false := by
    cases hd : dead s
    · rfl
    · have := (next_spec 0 s).1
      rw [mu_dead hd] at this
      rw [dead_of_mu (by omega)] at hl; cases hl
  obtain ⟨h1, _, h3⟩ := next_abs s hw hl0 hpk u σ' hσ
  exact ⟨h1, h3⟩

/-- `next` on a filled look-ahead returns the look-ahead token, whatever it is -/
theorem spec_next_head : Spec next (fun t a _ => a.pk = true → t = a.σ.head) := by
  intro s hw hl
  simp only [next, run] at hl ⊢
  refine ⟨next_wf s hl, fun hpk => ?_⟩
  have hl0 : dead s = false := by
    cases hd : dead s
    · rfl
    · have := (next_spec 0 s).1
      rw [mu_dead hd] at this
      rw [dead_of_mu (by omega)] at hl; cases hl
  have hp : s.peeked = true := hpk
  have : s.next 0 = (s.peekTok, s.takePeeked) := by
    simp [PState.next, live_isSome hl0, overLimit, hp]
  rw [this]
  exact (head_sig_raw hw hp).symm

theorem Spec.and {α : Type} {p : Prog α} {R1 R2 : α → AS → AS → Prop} (h1 : Spec p R1) (h2 : Spec p R2) :
    Spec p (fun x a a' => R1 x a a' ∧ R2 x a a') := by
  intro s hw hl
  exact ⟨(h1 s hw hl).1, (h1 s hw hl).2, (h2 s hw hl).2⟩

theorem spec_hasErr : Spec hasErr (fun b a a' => b = false ∧ a' = a) := by
  intro s hw hl
  have : run 0 hasErr s = (s.err.isSome, s) := rfl
  rw [this] at hl ⊢
  exact ⟨hw, live_isSome hl, rfl⟩

theorem spec_getSrc : Spec getSrc (fun _ a a' => a' = a) := by
  intro s hw hl
  have : run 0 getSrc s = (s.src, s) := rfl
  rw [this] at hl ⊢
  exact ⟨hw, rfl⟩

theorem Spec.of_dead_bind {α β : Type} {p : Prog α} {f : α → Prog β} {R : β → AS → AS → Prop}
    (h : ∀ s, dead (run 0 p s).2 = true) : Spec (p >>= f) R := by
  intro s _ hl
  rw [bind_eq, run_bind] at hl
  have := live_of_run hl
  rw [h s] at this; cases this

theorem failAt_dead (tok : Token) (msg : Bytes) (s : PState) : dead (run 0 (failAt tok msg) s).2 = true := by
  simp only [failAt, run, dead, (error_spec s tok msg).2.2, Bool.true_or]

theorem unexpectedError_dead (s : PState) : dead (run 0 unexpectedError s).2 = true := by
  unfold unexpectedError unexpectedToken
  rw [bind_eq, run_bind]
  exact failAt_dead _ _ _

theorem outOfFuel_dead {α : Type} (x : α) (s : PState) : dead (run 0 (outOfFuel x) s).2 = true := by
  simp [outOfFuel, run, dead]

/-! ### consuming tokens -/

/-- between `a` and `a'` exactly the significant tokens `used` were consumed, and no EOF token -/
structure Ate (a a' : AS) (used : List Token) : Prop where
  σ : a.σ = Stream.app used a'.σ
  cnt : a'.cnt = a.cnt

theorem Ate.nil (a : AS) : Ate a a [] := ⟨rfl, rfl⟩
theorem Ate.peeked (a : AS) : Ate a { a with pk := true } [] := ⟨rfl, rfl⟩

theorem Ate.trans {a b c : AS} {u v : List Token} (h1 : Ate a b u) (h2 : Ate b c v) : Ate a c (u ++ v) :=
  ⟨by rw [Stream.app_append, ← h2.σ]; exact h1.σ, by rw [h2.cnt, h1.cnt]⟩

theorem Stream.NoEof.app_toks {ts : List Token} {σ : Stream} (h : Stream.NoEof (Stream.app ts σ)) : ∀ t ∈ ts, TokOK t := by
  induction ts with
  | nil => intro t ht; cases ht
  | cons u ts ih =>
    intro t ht
    rcases List.mem_cons.1 ht with rfl | ht
    · exact h.1.2
    · exact ih h.2 t ht

theorem Ate.noEof {a a' : AS} {used : List Token} (h : Ate a a' used) (hn : a.σ.NoEof) : a'.σ.NoEof := by
  have := h.σ ▸ hn; exact this.of_app

theorem Ate.tokOK {a a' : AS} {used : List Token} (h : Ate a a' used) (hn : a.σ.NoEof) : ∀ t ∈ used, TokOK t := by
  have := h.σ ▸ hn; exact this.app_toks

/-- `used` was consumed, no EOF was consumed, and `P result used` -/
def Eats {α : Type} (P : α → List Token → Prop) : α → AS → AS → Prop :=
  fun x a a' => ∃ used, Ate a a' used ∧ P x used

theorem Eats.mono {α : Type} {P Q : α → List Token → Prop} (h : ∀ x u, P x u → Q x u) {x : α} {a a' : AS}
    (e : Eats P x a a') : Eats Q x a a' := by
  obtain ⟨u, h1, h3⟩ := e
  exact ⟨u, h1, h _ _ h3⟩

theorem Stream.cons_of_head {σ : Stream} (h : σ.NoEof) (h1 : σ.head.kind ≠ .eof) (h2 : σ.head.kind ≠ .invalid) :
    ∃ σ', σ = .cons σ.head σ' := by
  cases σ with
  | eof t => exact absurd h h1
  | err e => simp [Stream.head, invalidTok] at h2
  | cons t σ => exact ⟨σ, rfl⟩

theorem Stream.cons_of_kind {σ : Stream} {k : Kind} (h : σ.NoEof) (hk : σ.head.kind = k) (h1 : k ≠ .eof)
    (h2 : k ≠ .invalid) : ∃ t σ', σ = .cons t σ' ∧ t.kind = k ∧ t = σ.head := by
  obtain ⟨σ', hσ⟩ := Stream.cons_of_head h (by rw [hk]; exact h1) (by rw [hk]; exact h2)
  exact ⟨_, _, hσ, hk, rfl⟩

/-- `next` on a filled look-ahead whose token has kind `k`: exactly that token is consumed -/
theorem next_eats {a a' : AS} {t : Token} {k : Kind} (hne : a.σ.NoEof) (hpk : a.pk = true) (hk : a.σ.head.kind = k)
    (h1 : k ≠ .eof) (h2 : k ≠ .invalid)
    (hn : a.pk = true → ∀ u σ', a.σ = .cons u σ' → t = u ∧ a' = { pk := false, σ := σ', cnt := a.cnt }) :
    t = a.σ.head ∧ Ate a a' [t] ∧ TokOK t := by
  obtain ⟨u, σ', hσ, _, hu⟩ := Stream.cons_of_kind hne hk h1 h2
  obtain ⟨rfl, rfl⟩ := hn hpk _ _ hσ
  exact ⟨hu, ⟨hσ, rfl⟩, by rw [hσ] at hne; exact hne.1.2⟩

/-- `expect k` -/
theorem spec_expect (k : Kind) (hk : k ≠ .eof) (hk' : k ≠ .invalid) :
    Spec (expect k) (Eats fun t used => used = [t] ∧ t.kind = k ∧ TokOK t) := by
  unfold expect
  refine (Spec.bind spec_peek fun tok => Spec.ite (fun _ => spec_next)
    (fun _ => Spec.of_dead_bind (R := fun _ _ _ => False) (failAt_dead _ _))).mono ?_
  rintro t a a'' hne ⟨tok, a', ⟨rfl, rfl⟩, ⟨hkk, hn⟩ | ⟨_, hf⟩⟩
  · obtain ⟨e1, e2, e3⟩ := next_eats (a := { a with pk := true }) hne rfl hkk hk hk' hn
    exact ⟨[_], ⟨e2.σ, e2.cnt⟩, rfl, e1 ▸ hkk, e3⟩
  · exact hf.elim

/-- `expectKeyword v` -/
theorem spec_expectKeyword (v : Bytes) :
    Spec (expectKeyword v) (Eats fun t used => used = [t] ∧ t.kind = .name ∧ t.value = v) := by
  unfold expectKeyword
  refine (Spec.bind spec_peek fun tok => Spec.ite (fun _ => spec_next)
    (fun _ => Spec.of_dead_bind (R := fun _ _ _ => False) (failAt_dead _ _))).mono ?_
  rintro t a a'' hne ⟨tok, a', ⟨rfl, rfl⟩, ⟨hkk, hn⟩ | ⟨_, hf⟩⟩
  · obtain ⟨e1, e2, e3⟩ := next_eats (a := { a with pk := true }) (k := .name) hne rfl hkk.1 (by decide) (by decide) hn
    exact ⟨[_], ⟨e2.σ, e2.cnt⟩, rfl, e1 ▸ hkk⟩
  · exact hf.elim

/-- `skip k`: either the next token is of kind `k` and is consumed, or nothing happens -/
def Skips (k : Kind) : Bool → AS → AS → Prop := fun b a a' =>
  (b = true ∧ ∃ t, Ate a a' [t] ∧ t.kind = k ∧ TokOK t) ∨
  (b = false ∧ a.σ.head.kind ≠ k ∧ a' = { a with pk := true })

theorem spec_skip (k : Kind) (hk : k ≠ .eof) (hk' : k ≠ .invalid) : Spec (skip k) (Skips k) := by
  unfold skip
  refine (Spec.bind spec_hasErr fun e => Spec.ite (fun _ => Spec.pure false)
    (fun _ => Spec.bind spec_peek fun tok => Spec.ite (fun _ => Spec.pure false)
      (fun _ => Spec.bind spec_next fun _ => Spec.pure true))).mono ?_
  rintro b a a'' hne ⟨e, a', ⟨rfl, rfl⟩, ⟨he, _⟩ | ⟨_, tok, a1, ⟨rfl, rfl⟩, ⟨hkk, rfl, rfl⟩ | ⟨hkk, t, a2, hn, rfl, rfl⟩⟩⟩
  · cases he
  · exact .inr ⟨rfl, hkk, rfl⟩
  · simp only [ne_eq, Decidable.not_not] at hkk
    obtain ⟨e1, e2, e3⟩ := next_eats (a := { a' with pk := true }) hne rfl hkk hk hk' hn
    exact .inl ⟨rfl, _, ⟨e2.σ, e2.cnt⟩, e1 ▸ hkk, e3⟩

/-- `peekPos`: fills the look-ahead; the position is that of the first significant token ahead -/
theorem spec_peekPos : Spec peekPos (fun pos a a' => a' = { a with pk := true } ∧ pos.start = a.σ.head.start) := by
  unfold peekPos
  refine (Spec.bind spec_hasErr fun e => Spec.ite (fun _ => Spec.pure Pos.zero)
    (fun _ => Spec.bind spec_peek fun tok => Spec.bind spec_getSrc fun i => Spec.pure (posOf i tok))).mono ?_
  rintro pos a a'' _ ⟨e, a', ⟨rfl, rfl⟩, ⟨he, _⟩ | ⟨_, tok, a1, ⟨rfl, rfl⟩, i, a2, rfl, rfl, rfl⟩⟩
  · cases he
  · exact ⟨rfl, rfl⟩

/-! ### loops -/

/-- the items `xs` were parsed one after the other from `used` -/
inductive Many {α : Type} (P : α → List Token → Prop) : List α → List Token → Prop
  | nil : Many P [] []
  | cons {x : α} {xs : List α} {u us : List Token} : P x u → Many P xs us → Many P (x :: xs) (u ++ us)

theorem Many.append {α : Type} {P : α → List Token → Prop} {xs ys : List α} {u v : List Token}
    (h1 : Many P xs u) (h2 : Many P ys v) : Many P (xs ++ ys) (u ++ v) := by
  induction h1 with
  | nil => exact h2
  | cons hx _ ih => rw [List.cons_append, List.append_assoc]; exact .cons hx ih

theorem Many.mono {α : Type} {P Q : α → List Token → Prop} (h : ∀ x u, P x u → Q x u) {xs : List α} {u : List Token}
    (m : Many P xs u) : Many Q xs u := by
  induction m with
  | nil => exact .nil
  | cons hx _ ih => exact .cons (h _ _ hx) ih

theorem spec_itemsLoop {α : Type} {P : α → List Token → Prop} (stop : Kind) {cb : Prog α} (hcb : Spec cb (Eats P))
    (n : Nat) (acc : List α) :
    Spec (itemsLoop stop cb n acc) (fun xs a a' => ∃ items used, xs = items.reverse ++ acc ∧
      Ate a a' used ∧ Many P items used ∧ a'.pk = true ∧ a'.σ.head.kind = stop) := by
  induction n generalizing acc with
  | zero => exact Spec.of_dead (outOfFuel_dead _)
  | succ n ih =>
    unfold itemsLoop
    refine (Spec.bind spec_peek fun t => Spec.bind spec_hasErr fun e => Spec.ite
      (fun _ => Spec.bind hcb fun x => ih (x :: acc)) (fun _ => Spec.pure acc)).mono ?_
    rintro xs a a'' _ ⟨t, a1, ⟨rfl, rfl⟩, e, a2, ⟨rfl, rfl⟩,
      ⟨_, x, a3, ⟨u, h1, h3⟩, items, used, rfl, h4, h6, h7, h8⟩ | ⟨hc, rfl, rfl⟩⟩
    · exact ⟨x :: items, u ++ used, by simp, (Ate.peeked a).trans (h1.trans h4), .cons h3 h6, h7, h8⟩
    · refine ⟨[], [], rfl, Ate.peeked a, .nil, rfl, ?_⟩
      simpa using hc

/-- the shape of `many` / `some`: nothing (the opening token is not there), or
    `start item* stop` -/
def Bracketed {α : Type} (P : α → List Token → Prop) (start stop : Kind) : List α → AS → AS → Prop :=
  fun xs a a' =>
    (xs = [] ∧ a.σ.head.kind ≠ start ∧ a' = { a with pk := true }) ∨
    (a.σ.head.kind = start ∧
      Eats (fun xs used => ∃ t1 mid t2, used = t1 :: mid ++ [t2] ∧ t1.kind = start ∧ t2.kind = stop ∧
        TokOK t1 ∧ TokOK t2 ∧ Many P xs mid) xs a a')

theorem bracketed_tail {α : Type} {P : α → List Token → Prop} {start stop : Kind} (h2 : stop ≠ .eof) (h2' : stop ≠ .invalid)
    {a a1 a2 a3 : AS} {t1 t2 : Token} {items : List α} {used : List Token} (hne : a.σ.NoEof)
    (e1 : Ate a a1 [t1]) (e4 : t1.kind = start) (e5 : TokOK t1) (g1 : Ate a1 a2 used) (g3 : Many P items used)
    (g4 : a2.pk = true) (g5 : a2.σ.head.kind = stop)
    (hn : a2.pk = true → ∀ u σ', a2.σ = .cons u σ' → t2 = u ∧ a3 = { pk := false, σ := σ', cnt := a2.cnt }) :
    a.σ.head.kind = start ∧
    Eats (fun xs used => ∃ t1 mid t2, used = t1 :: mid ++ [t2] ∧ t1.kind = start ∧ t2.kind = stop ∧
      TokOK t1 ∧ TokOK t2 ∧ Many P xs mid) items a a3 := by
  have hne2 : a2.σ.NoEof := g1.noEof (e1.noEof hne)
  obtain ⟨q1, q2, q3⟩ := next_eats hne2 g4 g5 h2 h2' hn
  refine ⟨by rw [e1.σ]; exact e4, t1 :: used ++ [t2], ?_, t1, used, t2, rfl, e4, q1 ▸ g5, e5, q3, g3⟩
  have := e1.trans (g1.trans q2)
  simpa using this

theorem spec_pMany {α : Type} {P : α → List Token → Prop} (start stop : Kind) (h1 : start ≠ .eof) (h1' : start ≠ .invalid)
    (h2 : stop ≠ .eof) (h2' : stop ≠ .invalid) (n : Nat) {cb : Prog α} (hcb : Spec cb (Eats P)) :
    Spec (pMany start stop n cb) (Bracketed P start stop) := by
  unfold pMany
  refine (Spec.bind (spec_skip start h1 h1') fun b => Spec.ite (fun _ => Spec.pure [])
    (fun _ => Spec.bind (spec_itemsLoop stop hcb n []) fun xs => Spec.bind spec_next fun _ => Spec.pure xs.reverse)).mono ?_
  rintro xs a a'' hne ⟨b, a1, hs, ⟨hb, rfl, rfl⟩ | ⟨hb, ys, a2, ⟨items, used, rfl, g1, g3, g4, g5⟩, t2, a3, hn, rfl, rfl⟩⟩
  · rcases hs with ⟨rfl, _⟩ | ⟨_, hk, rfl⟩
    · simp at hb
    · exact .inl ⟨rfl, hk, rfl⟩
  · rcases hs with ⟨_, t1, e1, e4, e5⟩ | ⟨rfl, _⟩
    · exact Or.inr (by simpa using bracketed_tail h2 h2' hne e1 e4 e5 g1 g3 g4 g5 hn)
    · simp at hb

theorem spec_pSome {α : Type} {P : α → List Token → Prop} (start stop : Kind) (h1 : start ≠ .eof) (h1' : start ≠ .invalid)
    (h2 : stop ≠ .eof) (h2' : stop ≠ .invalid) (n : Nat) {cb : Prog α} (hcb : Spec cb (Eats P)) :
    Spec (pSome start stop n cb) (fun xs a a' => Bracketed P start stop xs a a' ∧ (a.σ.head.kind = start → xs ≠ [])) := by
  unfold pSome
  refine (Spec.bind (spec_skip start h1 h1') fun b => Spec.ite (fun _ => Spec.pure [])
    (fun _ => Spec.bind (spec_itemsLoop stop hcb n []) fun xs => Spec.ite
      (fun _ => Spec.bind spec_peek fun _ => Spec.bind spec_peek fun _ =>
        Spec.of_dead_bind (R := fun _ _ _ => False) (failAt_dead _ _))
      (fun _ => Spec.bind spec_next fun _ => Spec.pure xs.reverse))).mono ?_
  rintro xs a a'' hne ⟨b, a1, hs, ⟨hb, rfl, rfl⟩ | ⟨hb, ys, a2, ⟨items, used, rfl, g1, g3, g4, g5⟩,
    ⟨_, _, _, _, _, _, _, hf⟩ | ⟨hne', t2, a3, hn, rfl, rfl⟩⟩⟩
  · rcases hs with ⟨rfl, _⟩ | ⟨_, hk, rfl⟩
    · simp at hb
    · exact ⟨.inl ⟨rfl, hk, rfl⟩, fun h => absurd h hk⟩
  · exact hf.elim
  · rcases hs with ⟨_, t1, e1, e4, e5⟩ | ⟨rfl, _⟩
    · refine ⟨Or.inr (by simpa using bracketed_tail h2 h2' hne e1 e4 e5 g1 g3 g4 g5 hn), ?_⟩
      intro _; simpa using hne'
    · simp at hb

end Gql.Parser
