import GqlProofs.Parser.SoundQuery
import GqlProofs.Parser.FuelQuery
/-
  The forward direction of the program logic: `Fwd p a R` says that from every live state with
  abstraction `a`, the run of `p` — provided it does not run out of fuel — ends live and its result
  and final abstraction satisfy `R`.  (Fuel exhaustion is excluded once and for all at the entry
  points by the C01 theorems `runQuery_oof` / `runSchema_oof`; the flag `oof` is sticky, so a run
  whose final state has `oof = false` never took an out-of-fuel branch.)

  `Starts σ ts σ'`: the stream `σ` begins with tokens whose grammar view is `ts`, followed by `σ'`.
-/
namespace Gql.Parser
open Gql Gql.Lexer Gql.Grammar Gql.Print

/-! ### the out-of-fuel flag is sticky -/

theorem commentLoop_oof (n : Nat) (s : PState) (h : s.oof = true) : (commentLoop 0 n s).oof = true := by
  induction n generalizing s with
  | zero => simp [commentLoop]
  | succ n ih =>
    unfold commentLoop
    split
    · exact h
    · simp only
      split
      · rw [(peekNC_spec s).2.1]; exact h
      · apply ih
        rw [(nextNC_spec 0 _).2.1, (peekNC_spec s).2.1]; exact h

theorem groupIf_oof (t : Token) (s : PState) (h : s.oof = true) : (s.groupIf 0 t).oof = true := by
  unfold PState.groupIf PState.consumeCommentGroup
  split
  · split
    · exact h
    · exact commentLoop_oof _ s h
  · exact h

theorem peek_oof (s : PState) (h : s.oof = true) : (s.peek 0).2.oof = true := by
  unfold PState.peek
  split
  · exact h
  · split
    · exact h
    · exact groupIf_oof _ _ (by rw [readPeek_oof]; exact h)

theorem next_oof (s : PState) (h : s.oof = true) : (s.next 0).2.oof = true := by
  unfold PState.next
  split
  · exact h
  · split
    · exact h
    · split
      · exact h
      · exact groupIf_oof _ _ (by rw [readPrev_oof]; exact h)

theorem run_oof {α : Type} (p : Prog α) (s : PState) (h : s.oof = true) : (run 0 p s).2.oof = true := by
  induction p generalizing s with
  | pure a => exact h
  | peek k ih => simp only [run]; exact ih _ _ (peek_oof s h)
  | next k ih => simp only [run]; exact ih _ _ (next_oof s h)
  | hasErr k ih => simp only [run]; exact ih _ _ h
  | getPrev k ih => simp only [run]; exact ih _ _ h
  | getSrc k ih => simp only [run]; exact ih _ _ h
  | fail tok msg k ih => simp only [run]; exact ih _ (by rw [(error_spec s tok msg).2.1]; exact h)
  | oof k ih => simp only [run]; exact ih _ rfl

theorem oof_of_run {α : Type} {p : Prog α} {s : PState} (h : (run 0 p s).2.oof = false) : s.oof = false := by
  cases ho : s.oof
  · rfl
  · rw [run_oof p s ho] at h; cases h

/-! ### `peek` never sets the error -/

theorem commentLoop_err_none (n : Nat) (s : PState) (he : s.err = none) (hw : WF' s) : (commentLoop 0 n s).err = none := by
  induction n generalizing s with
  | zero => simpa [commentLoop] using he
  | succ n ih =>
    have he' : s.err.isSome = false := by simp [he]
    have hdef : commentLoop 0 (n + 1) s = if s.peekNC.1.kind ≠ .comment then s.peekNC.2
        else commentLoop 0 n (s.peekNC.2.nextNC 0).2 := by simp [commentLoop, he']
    rw [hdef]
    have hpk : s.peekNC.2.peeked = true ∧ s.peekNC.1 = s.peekNC.2.peekTok ∧ s.peekNC.2.err = none ∧ WF' s.peekNC.2 := by
      cases hp : s.peeked
      · rw [peekNC_unpeeked he' hp]
        exact ⟨rfl, rfl, by rw [readPeek_err']; exact he, WF'_readPeek s⟩
      · rw [peekNC_peeked he' hp]
        exact ⟨hp, rfl, he, hw⟩
    obtain ⟨k1, k2, k3, k4⟩ := hpk
    by_cases hc : s.peekNC.1.kind ≠ .comment
    · rw [if_pos hc]; exact k3
    · rw [if_neg hc]
      simp only [ne_eq, Decidable.not_not] at hc
      rw [k2] at hc
      obtain ⟨t1, t2, _, _, _⟩ := takePeeked_comment k1 k4 hc
      have hnx : (s.peekNC.2.nextNC 0).2 = s.peekNC.2.takePeeked := by
        simp [PState.nextNC, k3, overLimit, k1]
      rw [hnx]
      exact ih _ t1 (by intro h; rw [t2] at h; cases h)

theorem peek_err_none (s : PState) (he : s.err = none) : (s.peek 0).2.err = none := by
  have he' : s.err.isSome = false := by simp [he]
  unfold PState.peek
  rw [he']
  simp only [Bool.false_eq_true, ↓reduceIte]
  split
  · exact he
  · unfold PState.groupIf PState.consumeCommentGroup
    have h1 : s.readPeek.err = none := by rw [readPeek_err']; exact he
    split
    · split
      · exact h1
      · exact commentLoop_err_none _ _ h1 (WF'_readPeek s)
    · exact h1

/-! ### the forward triple -/

def Fwd {α : Type} (p : Prog α) (a : AS) (R : α → AS → Prop) : Prop :=
  ∀ s, WF s → dead s = false → abs s = a → (run 0 p s).2.oof = false →
    dead (run 0 p s).2 = false ∧ WF (run 0 p s).2 ∧ R (run 0 p s).1 (abs (run 0 p s).2)

theorem Fwd.pure {α : Type} (x : α) (a : AS) : Fwd (Pure.pure x : Prog α) a (fun y a' => y = x ∧ a' = a) := by
  intro s hw hl ha _
  exact ⟨hl, hw, rfl, ha⟩

theorem Fwd.mono {α : Type} {p : Prog α} {a : AS} {R R' : α → AS → Prop} (h : Fwd p a R)
    (hr : ∀ x a', R x a' → R' x a') : Fwd p a R' := by
  intro s hw hl ha ho
  obtain ⟨h1, h2, h3⟩ := h s hw hl ha ho
  exact ⟨h1, h2, hr _ _ h3⟩

theorem Fwd.bind {α β : Type} {p : Prog α} {f : α → Prog β} {a : AS} {R1 : α → AS → Prop} {R2 : β → AS → Prop}
    (h1 : Fwd p a R1) (h2 : ∀ x a1, R1 x a1 → Fwd (f x) a1 R2) : Fwd (p >>= f) a R2 := by
  intro s hw hl ha ho
  rw [bind_eq, run_bind] at ho ⊢
  obtain ⟨l1, w1, r1⟩ := h1 s hw hl ha (oof_of_run ho)
  exact h2 _ _ r1 _ w1 l1 rfl ho

/-- an out-of-fuel branch contradicts the hypothesis of `Fwd` -/
theorem Fwd.outOfFuel {α : Type} (x : α) (a : AS) (R : α → AS → Prop) : Fwd (outOfFuel x) a R := by
  intro s _ _ _ ho
  simp [Gql.Parser.outOfFuel, run] at ho

theorem Fwd.ite_pos {α : Type} {c : Prop} [Decidable c] {p q : Prog α} {a : AS} {R : α → AS → Prop} (hc : c)
    (h : Fwd p a R) : Fwd (if c then p else q) a R := by rw [if_pos hc]; exact h

theorem Fwd.ite_neg {α : Type} {c : Prop} [Decidable c] {p q : Prog α} {a : AS} {R : α → AS → Prop} (hc : ¬ c)
    (h : Fwd q a R) : Fwd (if c then p else q) a R := by rw [if_neg hc]; exact h

theorem fwd_peek (a : AS) : Fwd peek a (fun t a' => t = a.σ.head ∧ a' = { a with pk := true }) := by
  intro s hw hl ha ho
  simp only [peek, run] at ho ⊢
  have hlive : dead (s.peek 0).2 = false := by
    simp only [dead, Bool.or_eq_false_iff]
    exact ⟨by rw [peek_err_none s (live_err hl)]; rfl, ho⟩
  obtain ⟨h1, h2, h3⟩ := peek_abs s hw hlive
  exact ⟨hlive, h1, ha ▸ h2, ha ▸ h3⟩

theorem fwd_next {a : AS} {t : Token} {σ' : Stream} (hpk : a.pk = true) (hσ : a.σ = .cons t σ') :
    Fwd next a (fun x a' => x = t ∧ a' = { pk := false, σ := σ', cnt := a.cnt }) := by
  intro s hw hl ha _
  simp only [next, run]
  subst ha
  obtain ⟨h1, h2, h3⟩ := next_abs s hw hl hpk t σ' hσ
  exact ⟨h2, next_wf s h2, h1, h3⟩

theorem fwd_hasErr (a : AS) : Fwd hasErr a (fun b a' => b = false ∧ a' = a) := by
  intro s hw hl ha _
  have : run 0 hasErr s = (s.err.isSome, s) := rfl
  rw [this]
  exact ⟨hl, hw, live_isSome hl, ha⟩

theorem fwd_getSrc (a : AS) : Fwd getSrc a (fun _ a' => a' = a) := by
  intro s hw hl ha _
  have : run 0 getSrc s = (s.src, s) := rfl
  rw [this]
  exact ⟨hl, hw, ha⟩

/-! ### streams that start with given tokens -/

def Starts (σ : Stream) (ts : List Tok) (σ' : Stream) : Prop := ∃ us, σ = Stream.app us σ' ∧ tk us = ts

theorem Starts.nil_iff {σ σ' : Stream} : Starts σ [] σ' ↔ σ = σ' := by
  constructor
  · rintro ⟨us, h1, h2⟩
    cases us with
    | nil => exact h1
    | cons u us => simp at h2
  · rintro rfl; exact ⟨[], rfl, rfl⟩

theorem Starts.cons_iff {σ σ' : Stream} {t : Tok} {ts : List Tok} :
    Starts σ (t :: ts) σ' ↔ ∃ u σ1, σ = .cons u σ1 ∧ Tok.ofToken u = t ∧ Starts σ1 ts σ' := by
  constructor
  · rintro ⟨us, h1, h2⟩
    cases us with
    | nil => simp at h2
    | cons u us =>
      simp only [tk_cons, List.cons.injEq] at h2
      exact ⟨u, _, h1, h2.1, us, rfl, h2.2⟩
  · rintro ⟨u, σ1, rfl, rfl, us, rfl, rfl⟩
    exact ⟨u :: us, rfl, rfl⟩

theorem Starts.append_iff {σ σ' : Stream} {A B : List Tok} :
    Starts σ (A ++ B) σ' ↔ ∃ σm, Starts σ A σm ∧ Starts σm B σ' := by
  constructor
  · rintro ⟨us, h1, h2⟩
    obtain ⟨uA, uB, rfl, hA, hB⟩ := List.map_eq_append_iff.1 h2
    exact ⟨Stream.app uB σ', ⟨uA, by rw [h1, Stream.app_append], hA⟩, ⟨uB, rfl, hB⟩⟩
  · rintro ⟨σm, ⟨uA, rfl, rfl⟩, ⟨uB, rfl, rfl⟩⟩
    exact ⟨uA ++ uB, by rw [Stream.app_append], by simp⟩

theorem Starts.head {σ σ' : Stream} {t : Tok} {ts : List Tok} (h : Starts σ (t :: ts) σ') : Tok.ofToken σ.head = t := by
  obtain ⟨u, σ1, rfl, rfl, _⟩ := Starts.cons_iff.1 h
  rfl

theorem Starts.head_kind {σ σ' : Stream} {t : Tok} {ts : List Tok} (h : Starts σ (t :: ts) σ') : σ.head.kind = t.kind := by
  rw [← h.head]; rfl

/-! ### derived primitives -/

theorem fwd_expect {a : AS} {t : Token} {σ' : Stream} (k : Kind) (hσ : a.σ = .cons t σ') (hk : t.kind = k) :
    Fwd (expect k) a (fun x a' => x = t ∧ a' = { pk := false, σ := σ', cnt := a.cnt }) := by
  unfold expect
  refine Fwd.bind (fwd_peek a) ?_
  rintro tok a1 ⟨rfl, rfl⟩
  have : a.σ.head = t := by rw [hσ]; rfl
  rw [this]
  exact Fwd.ite_pos hk (fwd_next rfl hσ)

theorem fwd_expectKeyword {a : AS} {t : Token} {σ' : Stream} (v : Bytes) (hσ : a.σ = .cons t σ') (hk : t.kind = .name)
    (hv : t.value = v) :
    Fwd (expectKeyword v) a (fun x a' => x = t ∧ a' = { pk := false, σ := σ', cnt := a.cnt }) := by
  unfold expectKeyword
  refine Fwd.bind (fwd_peek a) ?_
  rintro tok a1 ⟨rfl, rfl⟩
  have : a.σ.head = t := by rw [hσ]; rfl
  rw [this]
  exact Fwd.ite_pos ⟨hk, hv⟩ (fwd_next rfl hσ)

theorem fwd_skip_yes {a : AS} {t : Token} {σ' : Stream} (k : Kind) (hσ : a.σ = .cons t σ') (hk : t.kind = k) :
    Fwd (skip k) a (fun b a' => b = true ∧ a' = { pk := false, σ := σ', cnt := a.cnt }) := by
  unfold skip
  refine Fwd.bind (fwd_hasErr a) ?_
  rintro e a0 ⟨rfl, rfl⟩
  refine Fwd.ite_neg (by simp) (Fwd.bind (fwd_peek a0) ?_)
  rintro tok a1 ⟨rfl, rfl⟩
  have : a0.σ.head = t := by rw [hσ]; rfl
  rw [this]
  refine Fwd.ite_neg (by simp [hk]) (Fwd.bind (fwd_next rfl hσ) ?_)
  rintro _ a2 ⟨_, rfl⟩
  exact Fwd.pure true _

theorem fwd_skip_no {a : AS} (k : Kind) (hk : a.σ.head.kind ≠ k) :
    Fwd (skip k) a (fun b a' => b = false ∧ a' = { a with pk := true }) := by
  unfold skip
  refine Fwd.bind (fwd_hasErr a) ?_
  rintro e a0 ⟨rfl, rfl⟩
  refine Fwd.ite_neg (by simp) (Fwd.bind (fwd_peek a0) ?_)
  rintro tok a1 ⟨rfl, rfl⟩
  exact Fwd.ite_pos hk (Fwd.pure false _)

theorem fwd_peekPos (a : AS) : Fwd peekPos a (fun _ a' => a' = { a with pk := true }) := by
  unfold peekPos
  refine Fwd.bind (fwd_hasErr a) ?_
  rintro e a0 ⟨rfl, rfl⟩
  refine Fwd.ite_neg (by simp) (Fwd.bind (fwd_peek a0) ?_)
  rintro tok a1 ⟨rfl, rfl⟩
  refine Fwd.bind (fwd_getSrc _) ?_
  rintro i a2 rfl
  exact (Fwd.pure _ _).mono fun _ _ h => h.2

/-! ### token-level versions: the stream starts with a given `Tok` -/

theorem fwd_punct {a : AS} {σ' : Stream} (k : Kind) (h : Starts a.σ [tP k] σ') :
    Fwd (expect k) a (fun _ a' => a'.σ = σ') := by
  obtain ⟨u, σ1, hσ, hu, hrest⟩ := Starts.cons_iff.1 h
  rw [Starts.nil_iff] at hrest
  subst hrest
  have hk : u.kind = k := by rw [← show (Tok.ofToken u).kind = u.kind from rfl, hu]; rfl
  exact (fwd_expect k hσ hk).mono fun _ _ h => by rw [h.2]

theorem fwd_parseName {a : AS} {σ' : Stream} (n : Name) (h : Starts a.σ [tName n] σ') :
    Fwd parseName a (fun x a' => x = n ∧ a'.σ = σ') := by
  obtain ⟨u, σ1, hσ, hu, hrest⟩ := Starts.cons_iff.1 h
  rw [Starts.nil_iff] at hrest
  subst hrest
  have hk : u.kind = .name := by rw [← show (Tok.ofToken u).kind = u.kind from rfl, hu]; rfl
  have hv : u.value = n := by rw [← show (Tok.ofToken u).value = u.value from rfl, hu]; rfl
  unfold parseName
  refine Fwd.bind (fwd_expect .name hσ hk) ?_
  rintro t a1 ⟨rfl, rfl⟩
  exact (Fwd.pure _ _).mono fun _ _ h => ⟨by rw [h.1, hv], by rw [h.2]⟩

theorem fwd_keyword {a : AS} {σ' : Stream} (s : String) (h : Starts a.σ [tKw s] σ') :
    Fwd (expectKeyword (str s)) a (fun _ a' => a'.σ = σ') := by
  obtain ⟨u, σ1, hσ, hu, hrest⟩ := Starts.cons_iff.1 h
  rw [Starts.nil_iff] at hrest
  subst hrest
  have hk : u.kind = .name := by rw [← show (Tok.ofToken u).kind = u.kind from rfl, hu]; rfl
  have hv : u.value = str s := by rw [← show (Tok.ofToken u).value = u.value from rfl, hu]; rfl
  exact (fwd_expectKeyword (str s) hσ hk hv).mono fun _ _ h => by rw [h.2]

theorem fwd_skipP_yes {a : AS} {σ' : Stream} (k : Kind) (h : Starts a.σ [tP k] σ') :
    Fwd (skip k) a (fun b a' => b = true ∧ a'.σ = σ') := by
  obtain ⟨u, σ1, hσ, hu, hrest⟩ := Starts.cons_iff.1 h
  rw [Starts.nil_iff] at hrest
  subst hrest
  have hk : u.kind = k := by rw [← show (Tok.ofToken u).kind = u.kind from rfl, hu]; rfl
  exact (fwd_skip_yes k hσ hk).mono fun _ _ h => ⟨h.1, by rw [h.2]⟩

theorem fwd_skipP_no {a : AS} (k : Kind) (hk : a.σ.head.kind ≠ k) :
    Fwd (skip k) a (fun b a' => b = false ∧ a'.σ = a.σ) :=
  (fwd_skip_no k hk).mono fun _ _ h => ⟨h.1, by rw [h.2]⟩

/-! ### loops -/

/-- `itemsLoop` over the printed items `xs`: every item parses back (up to the erasure `E`),
    provided each item starts with a token that is not `stop` and the follow condition `Fol` holds
    in front of every item and in front of `stop`. -/
theorem fwd_itemsLoop {α : Type} (E : α → α) (f : α → List Tok) (Fol : Stream → Prop) (stop : Kind) {cb : Prog α}
    (xs : List α)
    (hcb : ∀ x ∈ xs, ∀ a σ1, Starts a.σ (f x) σ1 → Fol σ1 → Fwd cb a (fun y a' => E y = E x ∧ a'.σ = σ1))
    (hstart : ∀ x ∈ xs, ∃ t rest, f x = t :: rest ∧ t.kind ≠ stop)
    (hfol : ∀ σ1, (σ1.head.kind = stop ∨ ∃ x ∈ xs, ∃ t rest, f x = t :: rest ∧ Tok.ofToken σ1.head = t) → Fol σ1) :
    ∀ (n : Nat) (acc : List α) (a : AS) (σ' : Stream), Starts a.σ (xs.flatMap f) σ' → σ'.head.kind = stop →
      Fwd (itemsLoop stop cb n acc) a (fun ys a' => ys.map E = (xs.reverse ++ acc).map E ∧ a'.σ = σ' ∧ a'.pk = true) := by
  induction xs with
  | nil =>
    intro n acc a σ' hs hstop
    rw [List.flatMap_nil, Starts.nil_iff] at hs
    cases n with
    | zero => exact Fwd.outOfFuel _ _ _
    | succ n =>
      unfold itemsLoop
      refine Fwd.bind (fwd_peek a) ?_
      rintro t a1 ⟨rfl, rfl⟩
      refine Fwd.bind (fwd_hasErr _) ?_
      rintro e a2 ⟨rfl, rfl⟩
      refine Fwd.ite_neg (by rw [hs]; simp [hstop]) ((Fwd.pure acc _).mono ?_)
      rintro ys a' ⟨rfl, rfl⟩
      exact ⟨by simp, hs, rfl⟩
  | cons x xs ih =>
    intro n acc a σ' hs hstop
    rw [List.flatMap_cons, Starts.append_iff] at hs
    obtain ⟨σm, hx, hrest⟩ := hs
    obtain ⟨t, rest, hfx, htk⟩ := hstart x (by simp)
    cases n with
    | zero => exact Fwd.outOfFuel _ _ _
    | succ n =>
      unfold itemsLoop
      refine Fwd.bind (fwd_peek a) ?_
      rintro t0 a1 ⟨rfl, rfl⟩
      refine Fwd.bind (fwd_hasErr _) ?_
      rintro e a2 ⟨rfl, rfl⟩
      have hk : a.σ.head.kind = t.kind := by rw [hfx] at hx; exact hx.head_kind
      refine Fwd.ite_pos ⟨by rw [hk]; exact htk, by simp⟩ ?_
      have hFol : Fol σm := by
        apply hfol
        cases xs with
        | nil =>
          rw [List.flatMap_nil, Starts.nil_iff] at hrest
          exact .inl (by rw [hrest]; exact hstop)
        | cons y ys =>
          obtain ⟨t', rest', hfy, _⟩ := hstart y (by simp)
          rw [List.flatMap_cons, hfy, List.cons_append] at hrest
          exact .inr ⟨y, by simp, t', rest', hfy, hrest.head⟩
      refine Fwd.bind (hcb x (by simp) _ σm hx hFol) ?_
      rintro y a3 ⟨hy, hσ3⟩
      refine (ih (fun z hz => hcb z (by simp [hz])) (fun z hz => hstart z (by simp [hz]))
        (fun σ1 h => hfol σ1 (by
          rcases h with h | ⟨z, hz, h⟩
          · exact .inl h
          · exact .inr ⟨z, by simp [hz], h⟩)) n (y :: acc) a3 σ' (by rw [hσ3]; exact hrest) hstop).mono ?_
      rintro ys a' ⟨h1, h2, h3⟩
      exact ⟨by rw [h1]; simp [hy], h2, h3⟩

/-- `many` / `some` when the opening token is there -/
theorem fwd_bracket {α : Type} (E : α → α) (f : α → List Tok) (Fol : Stream → Prop) (start stop : Kind) {cb : Prog α}
    (xs : List α)
    (hcb : ∀ x ∈ xs, ∀ a σ1, Starts a.σ (f x) σ1 → Fol σ1 → Fwd cb a (fun y a' => E y = E x ∧ a'.σ = σ1))
    (hstart : ∀ x ∈ xs, ∃ t rest, f x = t :: rest ∧ t.kind ≠ stop)
    (hfol : ∀ σ1, (σ1.head.kind = stop ∨ ∃ x ∈ xs, ∃ t rest, f x = t :: rest ∧ Tok.ofToken σ1.head = t) → Fol σ1)
    (n : Nat) (a : AS) (σ' : Stream) (hs : Starts a.σ (tP start :: xs.flatMap f ++ [tP stop]) σ') :
    Fwd (pMany start stop n cb) a (fun ys a' => ys.map E = xs.map E ∧ a'.σ = σ') ∧
    (xs ≠ [] → Fwd (pSome start stop n cb) a (fun ys a' => ys.map E = xs.map E ∧ a'.σ = σ')) := by
  rw [List.cons_append, ← List.singleton_append, Starts.append_iff] at hs
  obtain ⟨σ1, h1, hs⟩ := hs
  rw [Starts.append_iff] at hs
  obtain ⟨σ2, h2, h3⟩ := hs
  obtain ⟨u, σ3, hσ2, hu, hrest⟩ := Starts.cons_iff.1 h3
  rw [Starts.nil_iff] at hrest
  subst hrest
  have hku : u.kind = stop := by rw [← show (Tok.ofToken u).kind = u.kind from rfl, hu]; rfl
  have hstop : σ2.head.kind = stop := by rw [hσ2]; exact hku
  constructor
  · unfold pMany
    refine Fwd.bind (fwd_skipP_yes start h1) ?_
    rintro b a1 ⟨rfl, hσ1⟩
    refine Fwd.ite_neg (by simp) (Fwd.bind (fwd_itemsLoop E f Fol stop xs hcb hstart hfol n [] a1 σ2 (by rw [hσ1]; exact h2) hstop) ?_)
    rintro ys a2 ⟨hy, hσ, hpk⟩
    refine Fwd.bind (fwd_next hpk (by rw [hσ]; exact hσ2)) ?_
    rintro _ a3 ⟨_, rfl⟩
    refine (Fwd.pure _ _).mono ?_
    rintro zs a' ⟨rfl, rfl⟩
    exact ⟨by rw [List.map_reverse, hy]; simp, rfl⟩
  · intro hne
    unfold pSome
    refine Fwd.bind (fwd_skipP_yes start h1) ?_
    rintro b a1 ⟨rfl, hσ1⟩
    refine Fwd.ite_neg (by simp) (Fwd.bind (fwd_itemsLoop E f Fol stop xs hcb hstart hfol n [] a1 σ2 (by rw [hσ1]; exact h2) hstop) ?_)
    rintro ys a2 ⟨hy, hσ, hpk⟩
    have hys : ys.isEmpty = false := by
      cases ys with
      | nil =>
        have := congrArg List.length hy
        simp at this
        exact absurd (List.eq_nil_of_length_eq_zero this.symm) hne
      | cons y ys => rfl
    refine Fwd.ite_neg (by simp [hys]) (Fwd.bind (fwd_next hpk (by rw [hσ]; exact hσ2)) ?_)
    rintro _ a3 ⟨_, rfl⟩
    refine (Fwd.pure _ _).mono ?_
    rintro zs a' ⟨rfl, rfl⟩
    exact ⟨by rw [List.map_reverse, hy]; simp, rfl⟩

/-- `many` / `some` when the opening token is not there -/
theorem fwd_bracket_absent {α : Type} (start stop : Kind) {cb : Prog α} (n : Nat) (a : AS) (hk : a.σ.head.kind ≠ start) :
    Fwd (pMany start stop n cb) a (fun ys a' => ys = [] ∧ a'.σ = a.σ) ∧
    Fwd (pSome start stop n cb) a (fun ys a' => ys = [] ∧ a'.σ = a.σ) := by
  constructor
  · unfold pMany
    refine Fwd.bind (fwd_skipP_no start hk) ?_
    rintro b a1 ⟨rfl, hσ⟩
    exact Fwd.ite_pos (by simp) ((Fwd.pure _ _).mono fun _ _ h => ⟨h.1, by rw [h.2, hσ]⟩)
  · unfold pSome
    refine Fwd.bind (fwd_skipP_no start hk) ?_
    rintro b a1 ⟨rfl, hσ⟩
    exact Fwd.ite_pos (by simp) ((Fwd.pure _ _).mono fun _ _ h => ⟨h.1, by rw [h.2, hσ]⟩)

end Gql.Parser
