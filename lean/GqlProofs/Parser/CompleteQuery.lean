import GqlProofs.Parser.FwdG
import GqlProofs.Parser.FwdQuery
/-
  Completeness of the query parser, driven by derivations: if a stream starts with a token list
  that the grammar derives from a nonterminal (with canonical output `o`), the run of the
  corresponding parser program ends live, consumes exactly those tokens, and the unparse of its
  result is `o`.  (Consequences: every derivable lexable input is accepted, and every canonical
  output of the input's token sequence is the unparse of the tree.)

  The tokens are of lexer shape (`TsOK`: punctuators have the empty value).
-/
namespace Gql.Parser
open Gql Gql.Lexer Gql.Grammar Gql.Print

local notation "D" => Derives gql

/-! ### single tokens -/

theorem fwd_expectTok {a : AS} {σ' : Stream} (k : Kind) (t : Tok) (hk : t.kind = k) (h : Starts a.σ [t] σ') :
    Fwd (expect k) a (fun x a' => Tok.ofToken x = t ∧ a'.σ = σ') := by
  obtain ⟨u, hσ, hu⟩ := h.single
  exact (fwd_expect k hσ (by rw [ofToken_kind hu]; exact hk)).mono fun _ _ h => ⟨by rw [h.1]; exact hu, by rw [h.2]⟩

/-! ### values -/

/-- the shapes of a `Value[Const]` sentence -/
def ValShape (c : Bool) (ts o : List Tok) : Prop :=
    (c = false ∧ ∃ n, ts = [tP .dollar, tName n] ∧ o = [tP .dollar, tName n]) ∨
    (∃ t, ts = [t] ∧ o = [t] ∧ (t.kind = .int ∨ t.kind = .float ∨ t.kind = .string ∨ t.kind = .blockString ∨ t.kind = .name)) ∨
    (∃ parts : List (List Tok × List Tok), ts = tP .bracketL :: parts.flatMap (·.1) ++ [tP .bracketR] ∧
      o = tP .bracketL :: parts.flatMap (·.2) ++ [tP .bracketR] ∧ ∀ p ∈ parts, D (.nt (.value c)) p.1 p.2) ∨
    (∃ parts : List (List Tok × List Tok), ts = tP .braceL :: parts.flatMap (·.1) ++ [tP .braceR] ∧
      o = tP .braceL :: parts.flatMap (·.2) ++ [tP .braceR] ∧ ∀ p ∈ parts, D (.nt (.objectField c)) p.1 p.2)

theorem inv_value {c : Bool} {ts o : List Tok} (h : D (.nt (.value c)) ts o) (hok : TsOK ts) : ValShape c ts o := by
  have lit : D (literal c) ts o → ValShape c ts o := fun h => by
    rcases h.alt_inv with h | h
    · obtain ⟨t, e1, e2, hk⟩ := kind_inv h
      exact Or.inr (Or.inl ⟨t, e1, e2, .inl hk⟩)
    rcases h.alt_inv with h | h
    · obtain ⟨t, e1, e2, hk⟩ := kind_inv h
      exact Or.inr (Or.inl ⟨t, e1, e2, .inr (.inl hk)⟩)
    rcases h.alt_inv with h | h
    · obtain ⟨t, e1, e2, hp⟩ := h.tok_inv
      simp only [Bool.or_eq_true, beq_iff_eq] at hp
      exact Or.inr (Or.inl ⟨t, e1, e2, by rcases hp with hp | hp <;> simp [hp]⟩)
    rcases h.alt_inv with h | h
    · rcases h.nt_inv.alt_inv with h | h <;>
      · obtain ⟨t, e1, e2, hp⟩ := h.tok_inv
        simp only [Bool.and_eq_true, beq_iff_eq] at hp
        exact Or.inr (Or.inl ⟨t, e1, e2, by simp [hp.1]⟩)
    rcases h.alt_inv with h | h
    · obtain ⟨t, e1, e2, hp⟩ := h.nt_inv.tok_inv
      simp only [Bool.and_eq_true, beq_iff_eq] at hp
      exact Or.inr (Or.inl ⟨t, e1, e2, by simp [hp.1]⟩)
    rcases h.alt_inv with h | h
    · obtain ⟨t, e1, e2, hp⟩ := h.nt_inv.tok_inv
      simp only [Bool.and_eq_true, beq_iff_eq] at hp
      exact Or.inr (Or.inl ⟨t, e1, e2, by simp [hp.1]⟩)
    rcases h.alt_inv with h | h
    · -- list
      refine Or.inr (Or.inr (Or.inl ?_))
      rcases h.nt_inv.alt_inv with h | h
      · obtain ⟨t1, t2, o1, o2, rfl, rfl, d1, d2⟩ := h.seq_inv'
        obtain ⟨rfl, rfl⟩ := punct_inv d1 hok.left rfl
        obtain ⟨rfl, rfl⟩ := punct_inv d2 hok.right rfl
        exact ⟨[], rfl, rfl, fun _ h => by cases h⟩
      · obtain ⟨t1, t2, o1, o2, rfl, rfl, d1, d2⟩ := h.seq_inv'
        obtain ⟨t3, t4, o3, o4, rfl, rfl, d3, d4⟩ := d2.seq_inv'
        obtain ⟨rfl, rfl⟩ := punct_inv d1 hok.left rfl
        obtain ⟨rfl, rfl⟩ := punct_inv d4 hok.right.right rfl
        obtain ⟨parts, _, rfl, rfl, hp⟩ := d3.plus_parts
        exact ⟨parts, by simp, by simp, hp⟩
    · -- object
      refine Or.inr (Or.inr (Or.inr ?_))
      rcases h.nt_inv.alt_inv with h | h
      · obtain ⟨t1, t2, o1, o2, rfl, rfl, d1, d2⟩ := h.seq_inv'
        obtain ⟨rfl, rfl⟩ := punct_inv d1 hok.left rfl
        obtain ⟨rfl, rfl⟩ := punct_inv d2 hok.right rfl
        exact ⟨[], rfl, rfl, fun _ h => by cases h⟩
      · obtain ⟨t1, t2, o1, o2, rfl, rfl, d1, d2⟩ := h.seq_inv'
        obtain ⟨t3, t4, o3, o4, rfl, rfl, d3, d4⟩ := d2.seq_inv'
        obtain ⟨rfl, rfl⟩ := punct_inv d1 hok.left rfl
        obtain ⟨rfl, rfl⟩ := punct_inv d4 hok.right.right rfl
        obtain ⟨parts, _, rfl, rfl, hp⟩ := d3.plus_parts
        exact ⟨parts, by simp, by simp, hp⟩
  cases c with
  | true => exact lit h.nt_inv
  | false =>
    rcases h.nt_inv.alt_inv with h | h
    · obtain ⟨t1, t2, o1, o2, rfl, rfl, d1, d2⟩ := h.nt_inv.seq_inv'
      obtain ⟨rfl, rfl⟩ := punct_inv d1 hok.left rfl
      obtain ⟨n, rfl, rfl⟩ := name_inv d2
      exact .inl ⟨rfl, n, rfl, rfl⟩
    · exact lit h

/-- the first token of a value -/
theorem first_value {c : Bool} {ts o : List Tok} (h : D (.nt (.value c)) ts o) (hok : TsOK ts) :
    ∃ t rest, ts = t :: rest ∧ t.kind ∈ valueStart := by
  rcases inv_value h hok with ⟨_, n, rfl, _⟩ | ⟨t, rfl, _, hk⟩ | ⟨parts, rfl, _, _⟩ | ⟨parts, rfl, _, _⟩
  · exact ⟨_, _, rfl, by simp [valueStart, tP]⟩
  · exact ⟨t, [], rfl, by rcases hk with h | h | h | h | h <;> simp [valueStart, h]⟩
  · exact ⟨_, _, rfl, by simp [valueStart, tP]⟩
  · exact ⟨_, _, rfl, by simp [valueStart, tP]⟩

theorem inv_objectField {c : Bool} {ts o : List Tok} (h : D (.nt (.objectField c)) ts o) (hok : TsOK ts) :
    ∃ n tv ov, ts = tName n :: tP .colon :: tv ∧ o = tName n :: tP .colon :: ov ∧ D (.nt (.value c)) tv ov := by
  obtain ⟨t1, t2, o1, o2, rfl, rfl, d1, d2⟩ := h.nt_inv.seq_inv'
  obtain ⟨t3, t4, o3, o4, rfl, rfl, d3, d4⟩ := d2.seq_inv'
  obtain ⟨n, rfl, rfl⟩ := name_inv d1
  obtain ⟨rfl, rfl⟩ := punct_inv d3 hok.right.left rfl
  exact ⟨n, t4, o4, rfl, rfl, d4⟩

theorem toList_ofList (vs : List (Name × Value × Pos)) : (Children.ofList vs).toList = vs := by
  induction vs with
  | nil => rfl
  | cons x vs ih => obtain ⟨n, v, p⟩ := x; simp [Children.ofList, Children.toList, ih]

/-- what the value parser does on a derivable token list -/
def CplValue (c : Bool) (n : Nat) : Prop :=
  ∀ (ts o : List Tok), TsOK ts → D (.nt (.value c)) ts o → ∀ (a : AS) (σ' : Stream), Starts a.σ ts σ' →
    Fwd (parseValueLiteral n c) a (fun v a' => printValue v = o ∧ a'.σ = σ')

theorem cpl_value (c : Bool) : ∀ n, CplValue c n
  | 0 => fun _ _ _ _ _ _ _ => Fwd.outOfFuel _ _ _
  | n + 1 => by
    have ih := cpl_value c n
    intro ts o hok hd a σ' hs
    rcases inv_value hd hok with ⟨hc, nm, rfl, rfl⟩ | ⟨t, rfl, rfl, hk⟩ | ⟨parts, rfl, rfl, hp⟩ | ⟨parts, rfl, rfl, hp⟩
    · subst hc
      unfold parseValueLiteral
      refine Fwd.bind (fwd_peek a) ?_
      rintro token a1 ⟨rfl, rfl⟩
      refine Fwd.bind (fwd_getSrc _) ?_
      rintro src a2 rfl
      have hk : a.σ.head.kind = .dollar := hs.head_kind
      simp only [hk]
      refine Fwd.ite_neg (by simp) (Fwd.bind (fwd_parseVariable nm hs) ?_)
      rintro r a3 ⟨rfl, hσ⟩
      exact (Fwd.pure _ _).mono fun _ _ h => ⟨by rw [h.1]; rfl, by rw [h.2, hσ]⟩
    · obtain ⟨u, hσ, hu⟩ := hs.single
      have hku : u.kind = t.kind := ofToken_kind hu
      refine (fwd_scalarToken c n hσ (by rw [hku]; exact hk)).mono ?_
      rintro v a' ⟨hv, hσ'⟩
      refine ⟨?_, hσ'⟩
      obtain ⟨k, raw, ch, p⟩ := v
      simp only [Value.erasePos, Value.mk.injEq] at hv
      obtain ⟨rfl, rfl, hch, _⟩ := hv
      have hnil : ch = .nil := by cases ch <;> simp_all [Children.erasePos]
      subst hnil
      have hval : u.value = t.value := ofToken_value hu
      cases t with
      | mk tkk tv =>
        simp only at hk hku hval
        rcases hk with h | h | h | h | h <;> subst h
        · simp [litKind, hku, printValue, hval]
        · simp [litKind, hku, printValue, hval]
        · simp [litKind, hku, printValue, hval]
        · simp [litKind, hku, printValue, hval]
        · simp only [litKind, hku]
          rw [printValue_name, hval]; rfl
    · -- list
      unfold parseValueLiteral
      refine Fwd.bind (fwd_peek a) ?_
      rintro token a1 ⟨rfl, rfl⟩
      refine Fwd.bind (fwd_getSrc _) ?_
      rintro src a2 rfl
      have hk : a.σ.head.kind = .bracketL := hs.head_kind
      simp only [hk]
      unfold parseListWith
      refine Fwd.bind (fwd_peekPos _) ?_
      rintro pos a3 rfl
      have hokp : ∀ p ∈ parts, TsOK p.1 := (hok.tail.left).of_flatMap
      have hb := (fwd_bracketG (·.1) (fun (y : Name × Value × Pos) (p : List Tok × List Tok) => printValue y.2.1 = p.2)
        (fun _ => True) .bracketL .bracketR
        (cb := parseValueLiteral n c >>= fun v => Pure.pure (([] : Name), v, Pos.zero)) parts
        (fun p hpm a0 σ1 hst _ => by
          refine Fwd.bind (ih p.1 p.2 (hokp p hpm) (hp p hpm) a0 σ1 hst) ?_
          rintro v' a4 ⟨hv, hσ⟩
          refine (Fwd.pure _ _).mono ?_
          rintro y a5 ⟨rfl, rfl⟩
          exact ⟨hv, hσ⟩)
        (fun p hpm => by
          obtain ⟨t, rest, h1, h2⟩ := first_value (hp p hpm) (hokp p hpm)
          exact ⟨t, rest, h1, by intro e; rw [e] at h2; simp [valueStart] at h2⟩)
        (fun _ _ => trivial) (n + 1) { pk := true, σ := a.σ, cnt := a.cnt } σ' (tP .bracketL) (tP .bracketR) rfl rfl
        (by simpa using hs)).1
      refine Fwd.bind hb ?_
      rintro ys a4 ⟨hy, hσ⟩
      refine (Fwd.pure _ _).mono ?_
      rintro v' a5 ⟨rfl, rfl⟩
      refine ⟨?_, hσ⟩
      simp only [printValue, printItems_eq, toList_ofList]
      rw [flatMap_forall₂ (P := fun (y : Name × Value × Pos) => printValue y.2.1) (g := fun (p : List Tok × List Tok) => p.2) hy]
    · -- object
      unfold parseValueLiteral
      refine Fwd.bind (fwd_peek a) ?_
      rintro token a1 ⟨rfl, rfl⟩
      refine Fwd.bind (fwd_getSrc _) ?_
      rintro src a2 rfl
      have hk : a.σ.head.kind = .braceL := hs.head_kind
      simp only [hk]
      unfold parseObjectWith
      refine Fwd.bind (fwd_peekPos _) ?_
      rintro pos a3 rfl
      have hokp : ∀ p ∈ parts, TsOK p.1 := (hok.tail.left).of_flatMap
      have hb := (fwd_bracketG (·.1)
        (fun (y : Name × Value × Pos) (p : List Tok × List Tok) => tName y.1 :: tP .colon :: printValue y.2.1 = p.2)
        (fun _ => True) .braceL .braceR
        (cb := parseObjectFieldWith (parseValueLiteral n c)) parts
        (fun p hpm a0 σ1 hst _ => by
          obtain ⟨nm, tv, ov, e1, e2, dv⟩ := inv_objectField (hp p hpm) (hokp p hpm)
          rw [e1] at hst
          obtain ⟨σa, h1, hst⟩ := hst.cons_single
          obtain ⟨σb, h2, h3⟩ := hst.cons_single
          unfold parseObjectFieldWith
          refine Fwd.bind (fwd_peekPos _) ?_
          rintro pos' b1 rfl
          refine Fwd.bind (fwd_parseName nm h1) ?_
          rintro nm' b2 ⟨rfl, hσ2⟩
          refine Fwd.bind (fwd_punct .colon (by rw [hσ2]; exact h2)) ?_
          rintro _ b3 hσ3
          have hokv : TsOK tv := by have := hokp p hpm; rw [e1] at this; exact this.tail.tail
          refine Fwd.bind (ih tv ov hokv dv b3 σ1 (by rw [hσ3]; exact h3)) ?_
          rintro v' b4 ⟨hv, hσ⟩
          refine (Fwd.pure _ _).mono ?_
          rintro y b5 ⟨rfl, rfl⟩
          exact ⟨by simp [hv, e2], hσ⟩)
        (fun p hpm => by
          obtain ⟨nm, tv, ov, e1, _, _⟩ := inv_objectField (hp p hpm) (hokp p hpm)
          exact ⟨_, _, e1, by simp [tName]⟩)
        (fun _ _ => trivial) (n + 1) { pk := true, σ := a.σ, cnt := a.cnt } σ' (tP .braceL) (tP .braceR) rfl rfl
        (by simpa using hs)).1
      refine Fwd.bind hb ?_
      rintro ys a4 ⟨hy, hσ⟩
      refine (Fwd.pure _ _).mono ?_
      rintro v' a5 ⟨rfl, rfl⟩
      refine ⟨?_, hσ⟩
      simp only [printValue, printObjFields_eq, toList_ofList]
      rw [flatMap_forall₂ (P := fun (y : Name × Value × Pos) => tName y.1 :: tP .colon :: printValue y.2.1) (g := fun (p : List Tok × List Tok) => p.2) hy]

/-! ### arguments and directives -/

theorem inv_argument {c : Bool} {ts o : List Tok} (h : D (.nt (.argument c)) ts o) (hok : TsOK ts) :
    ∃ n tv ov, ts = tName n :: tP .colon :: tv ∧ o = tName n :: tP .colon :: ov ∧ D (.nt (.value c)) tv ov := by
  obtain ⟨t1, t2, o1, o2, rfl, rfl, d1, d2⟩ := h.nt_inv.seq_inv'
  obtain ⟨t3, t4, o3, o4, rfl, rfl, d3, d4⟩ := d2.seq_inv'
  obtain ⟨n, rfl, rfl⟩ := name_inv d1
  obtain ⟨rfl, rfl⟩ := punct_inv d3 hok.right.left rfl
  exact ⟨n, t4, o4, rfl, rfl, d4⟩

/-- a bracketed non-empty list `start item+ stop`, or nothing -/
def OptBlockShape (start stop : Kind) (item : Sym NT) (ts o : List Tok) : Prop :=
  (ts = [] ∧ o = []) ∨ ∃ parts : List (List Tok × List Tok), parts ≠ [] ∧
    ts = tP start :: parts.flatMap (·.1) ++ [tP stop] ∧ o = tP start :: parts.flatMap (·.2) ++ [tP stop] ∧
    ∀ p ∈ parts, D item p.1 p.2

theorem inv_block {start stop : Kind} {item : Sym NT} {ts o : List Tok}
    (h : D (.seq (Grammar.kind start) (.seq (.plus item) (Grammar.kind stop))) ts o) (hok : TsOK ts)
    (h1 : start.valued = false) (h2 : stop.valued = false) :
    ∃ parts : List (List Tok × List Tok), parts ≠ [] ∧
      ts = tP start :: parts.flatMap (·.1) ++ [tP stop] ∧ o = tP start :: parts.flatMap (·.2) ++ [tP stop] ∧
      ∀ p ∈ parts, D item p.1 p.2 := by
  obtain ⟨t1, t2, o1, o2, rfl, rfl, d1, d2⟩ := h.seq_inv'
  obtain ⟨t3, t4, o3, o4, rfl, rfl, d3, d4⟩ := d2.seq_inv'
  obtain ⟨rfl, rfl⟩ := punct_inv d1 hok.left h1
  obtain ⟨rfl, rfl⟩ := punct_inv d4 hok.right.right h2
  obtain ⟨parts, hne, rfl, rfl, hp⟩ := d3.plus_parts
  exact ⟨parts, hne, by simp, by simp, hp⟩

theorem inv_optArguments {c : Bool} {ts o : List Tok} (h : D (.opt (.nt (.arguments c))) ts o) (hok : TsOK ts) :
    OptBlockShape .parenL .parenR (.nt (.argument c)) ts o := by
  rcases h.opt_inv with h | h
  · exact .inl h
  · exact .inr (inv_block h.nt_inv hok rfl rfl)

theorem printArguments_cons {as : List Argument} (h : as ≠ []) :
    printArguments as = tP .parenL :: as.flatMap printArgument ++ [tP .parenR] := by
  cases as with
  | nil => exact absurd rfl h
  | cons x r => simp [printArguments]

theorem all₂_ne {α ι : Type} {R : α → ι → Prop} {ys : List α} {xs : List ι} (h : All₂ R ys xs) (hne : xs ≠ []) : ys ≠ [] := by
  cases h with
  | nil => exact absurd rfl hne
  | cons _ _ => simp

theorem cpl_argument (c : Bool) (n : Nat) (ts o : List Tok) (hok : TsOK ts) (hd : D (.nt (.argument c)) ts o) (a : AS) (σ1 : Stream)
    (hs : Starts a.σ ts σ1) : Fwd (parseArgument n c) a (fun y a' => printArgument y = o ∧ a'.σ = σ1) := by
  obtain ⟨nm, tv, ov, rfl, rfl, dv⟩ := inv_argument hd hok
  obtain ⟨σa, h1, hs⟩ := hs.cons_single
  obtain ⟨σb, h2, h3⟩ := hs.cons_single
  unfold parseArgument
  refine Fwd.bind (fwd_peekPos _) ?_
  rintro pos b1 rfl
  refine Fwd.bind (fwd_parseName nm h1) ?_
  rintro nm' b2 ⟨rfl, hσ2⟩
  refine Fwd.bind (fwd_punct .colon (by rw [hσ2]; exact h2)) ?_
  rintro _ b3 hσ3
  refine Fwd.bind (cpl_value c n tv ov hok.tail.tail dv b3 σ1 (by rw [hσ3]; exact h3)) ?_
  rintro v' b4 ⟨hv, hσ⟩
  refine (Fwd.pure _ _).mono ?_
  rintro y b5 ⟨rfl, rfl⟩
  exact ⟨by simp [printArgument, hv], hσ⟩

/-- `Arguments[Const]?` -/
theorem cpl_arguments (c : Bool) (n : Nat) (ts o : List Tok) (hok : TsOK ts) (hd : D (.opt (.nt (.arguments c))) ts o)
    (a : AS) (σ' : Stream) (hs : Starts a.σ ts σ') (hfol : σ'.head.kind ≠ .parenL) :
    Fwd (parseArguments n c) a (fun as a' => printArguments as = o ∧ a'.σ = σ') := by
  unfold parseArguments
  rcases inv_optArguments hd hok with ⟨rfl, rfl⟩ | ⟨parts, hne, rfl, rfl, hp⟩
  · rw [Starts.nil_iff] at hs
    refine (fwd_bracket_absent .parenL .parenR n a (by rw [hs]; exact hfol)).2.mono ?_
    rintro ys a' ⟨rfl, hσ⟩
    exact ⟨rfl, by rw [hσ, hs]⟩
  · have hokp : ∀ p ∈ parts, TsOK p.1 := (hok.tail.left).of_flatMap
    refine ((fwd_bracketG (·.1) (fun (y : Argument) (p : List Tok × List Tok) => printArgument y = p.2) (fun _ => True)
      .parenL .parenR parts
      (fun p hpm a0 σ1 hst _ => cpl_argument c n p.1 p.2 (hokp p hpm) (hp p hpm) a0 σ1 hst)
      (fun p hpm => by
        obtain ⟨nm, tv, ov, e1, _, _⟩ := inv_argument (hp p hpm) (hokp p hpm)
        exact ⟨_, _, e1, by simp [tName]⟩)
      (fun _ _ => trivial) n a σ' (tP .parenL) (tP .parenR) rfl rfl (by simpa using hs)).2 hne).mono ?_
    rintro ys a' ⟨hy, hσ⟩
    refine ⟨?_, hσ⟩
    rw [printArguments_cons (all₂_ne hy hne), flatMap_forall₂ (P := printArgument) (g := fun (p : List Tok × List Tok) => p.2) hy]

theorem inv_directive {c : Bool} {ts o : List Tok} (h : D (.nt (.directive c)) ts o) (hok : TsOK ts) :
    ∃ nm ta oa, ts = tP .at :: tName nm :: ta ∧ o = tP .at :: tName nm :: oa ∧ D (.opt (.nt (.arguments c))) ta oa := by
  obtain ⟨t1, t2, o1, o2, rfl, rfl, d1, d2⟩ := h.nt_inv.seq_inv'
  obtain ⟨t3, t4, o3, o4, rfl, rfl, d3, d4⟩ := d2.seq_inv'
  obtain ⟨rfl, rfl⟩ := punct_inv d1 hok.left rfl
  obtain ⟨nm, rfl, rfl⟩ := name_inv d3
  exact ⟨nm, t4, o4, rfl, rfl, d4⟩

theorem cpl_directive (c : Bool) (n : Nat) (ts o : List Tok) (hok : TsOK ts) (hd : D (.nt (.directive c)) ts o) (a : AS)
    (σ' : Stream) (hs : Starts a.σ ts σ') (hfol : σ'.head.kind ≠ .parenL) :
    Fwd (parseDirective n c) a (fun y a' => printDirective y = o ∧ a'.σ = σ') := by
  obtain ⟨nm, ta, oa, rfl, rfl, da⟩ := inv_directive hd hok
  obtain ⟨σa, h1, hs⟩ := hs.cons_single
  obtain ⟨σb, h2, h3⟩ := hs.cons_single
  unfold parseDirective
  refine Fwd.bind (fwd_punct .at h1) ?_
  rintro _ b1 hσ1
  refine Fwd.bind (fwd_peekPos _) ?_
  rintro pos b2 rfl
  refine Fwd.bind (fwd_parseName nm (by simpa [hσ1] using h2)) ?_
  rintro nm' b3 ⟨rfl, hσ3⟩
  refine Fwd.bind (cpl_arguments c n ta oa hok.tail.tail da b3 σ' (by rw [hσ3]; exact h3) hfol) ?_
  rintro as' b4 ⟨has, hσ⟩
  refine (Fwd.pure _ _).mono ?_
  rintro y b5 ⟨rfl, rfl⟩
  exact ⟨by simp [printDirective, has], hσ⟩

/-- the iterations of `Directives[Const]?` -/
theorem inv_optDirectives {c : Bool} {ts o : List Tok} (h : D (.opt (.nt (.directives c))) ts o) :
    ∃ parts : List (List Tok × List Tok), ts = parts.flatMap (·.1) ∧ o = parts.flatMap (·.2) ∧
      ∀ p ∈ parts, D (.nt (.directive c)) p.1 p.2 := by
  rcases h.opt_inv with ⟨rfl, rfl⟩ | h
  · exact ⟨[], rfl, rfl, fun _ h => by cases h⟩
  · obtain ⟨parts, _, e1, e2, hp⟩ := h.nt_inv.plus_parts
    exact ⟨parts, e1, e2, hp⟩

theorem first_directive {c : Bool} {ts o : List Tok} (h : D (.nt (.directive c)) ts o) (hok : TsOK ts) :
    ∃ rest, ts = tP .at :: rest := by
  obtain ⟨nm, ta, oa, e, _, _⟩ := inv_directive h hok
  exact ⟨_, e⟩

/-- the first token of `Directives?`: none, or `@` -/
theorem firstKind_optDirectives {c : Bool} {ts o : List Tok} (h : D (.opt (.nt (.directives c))) ts o) (hok : TsOK ts) (k : Kind) :
    firstKind ts k = k ∨ firstKind ts k = .at := by
  obtain ⟨parts, rfl, _, hp⟩ := inv_optDirectives h
  cases parts with
  | nil => exact .inl rfl
  | cons p r =>
    obtain ⟨rest, e⟩ := first_directive (hp p (by simp)) (hok.of_flatMap p (by simp))
    right
    simp [List.flatMap_cons, e, tP]

theorem cpl_directivesLoop (c : Bool) (m : Nat) : ∀ (parts : List (List Tok × List Tok)),
    (∀ p ∈ parts, TsOK p.1 ∧ D (.nt (.directive c)) p.1 p.2) →
    ∀ (n : Nat) (acc : List Directive) (a : AS) (σ' : Stream), Starts a.σ (parts.flatMap (·.1)) σ' →
      σ'.head.kind ≠ .at → σ'.head.kind ≠ .parenL →
      Fwd (directivesLoop (parseDirective m c) n acc) a
        (fun ys a' => (∃ zs, ys = zs.reverse ++ acc ∧ printDirectives zs = parts.flatMap (·.2)) ∧ a'.σ = σ')
  | [], _ => by
    intro n acc a σ' hs h1 _
    rw [List.flatMap_nil, Starts.nil_iff] at hs
    cases n with
    | zero => exact Fwd.outOfFuel _ _ _
    | succ n =>
      unfold directivesLoop
      refine Fwd.bind (fwd_peek a) ?_
      rintro t a1 ⟨rfl, rfl⟩
      refine Fwd.ite_neg (by rw [hs]; exact h1) ((Fwd.pure _ _).mono ?_)
      rintro ys a' ⟨rfl, rfl⟩
      exact ⟨⟨[], by simp, rfl⟩, hs⟩
  | p :: parts, hp => by
    intro n acc a σ' hs h1 h2
    rw [List.flatMap_cons, Starts.append_iff] at hs
    obtain ⟨σm, hd, hrest⟩ := hs
    obtain ⟨hokp, hdp⟩ := hp p (by simp)
    obtain ⟨rest, e⟩ := first_directive hdp hokp
    cases n with
    | zero => exact Fwd.outOfFuel _ _ _
    | succ n =>
      unfold directivesLoop
      refine Fwd.bind (fwd_peek a) ?_
      rintro t a1 ⟨rfl, rfl⟩
      have hk : a.σ.head.kind = .at := by rw [e] at hd; exact hd.head_kind
      refine Fwd.ite_pos hk (Fwd.bind (fwd_hasErr _) ?_)
      rintro e' a2 ⟨rfl, rfl⟩
      have hm : σm.head.kind ≠ .parenL := by
        cases parts with
        | nil =>
          rw [List.flatMap_nil, Starts.nil_iff] at hrest
          rw [hrest]; exact h2
        | cons p2 r =>
          obtain ⟨rest2, e2⟩ := first_directive (hp p2 (by simp)).2 (hp p2 (by simp)).1
          rw [List.flatMap_cons, e2, List.cons_append] at hrest
          rw [hrest.head_kind]; simp [tP]
      refine Fwd.ite_neg (by simp) (Fwd.bind (cpl_directive c m p.1 p.2 hokp hdp _ σm hd hm) ?_)
      rintro y a3 ⟨hy, hσ3⟩
      refine (cpl_directivesLoop c m parts (fun q hq => hp q (by simp [hq])) n (y :: acc) a3 σ'
        (by rw [hσ3]; exact hrest) h1 h2).mono ?_
      rintro ys a' ⟨⟨zs, e1, e2⟩, e3⟩
      exact ⟨⟨y :: zs, by rw [e1]; simp, by simp [printDirectives, hy, ← e2]⟩, e3⟩

/-- `Directives[Const]?` -/
theorem cpl_directives (c : Bool) (n : Nat) (ts o : List Tok) (hok : TsOK ts) (hd : D (.opt (.nt (.directives c))) ts o)
    (a : AS) (σ' : Stream) (hs : Starts a.σ ts σ') (h1 : σ'.head.kind ≠ .at) (h2 : σ'.head.kind ≠ .parenL) :
    Fwd (parseDirectives n c) a (fun ds a' => printDirectives ds = o ∧ a'.σ = σ') := by
  obtain ⟨parts, rfl, rfl, hp⟩ := inv_optDirectives hd
  unfold parseDirectives
  refine Fwd.bind (cpl_directivesLoop c n parts (fun p hpm => ⟨hok.of_flatMap p hpm, hp p hpm⟩) n [] a σ' hs h1 h2) ?_
  rintro ys a1 ⟨⟨zs, rfl, hz⟩, hσ⟩
  refine (Fwd.pure _ _).mono ?_
  rintro ws a' ⟨rfl, rfl⟩
  exact ⟨by simpa using hz, hσ⟩

/-! ### types -/

theorem inv_namedType {ts o : List Tok} (h : D (.nt .namedType) ts o) : ∃ n, ts = [tName n] ∧ o = [tName n] :=
  name_inv h.nt_inv

theorem inv_listType {ts o : List Tok} (h : D (.nt .listType) ts o) (hok : TsOK ts) :
    ∃ te oe, ts = tP .bracketL :: te ++ [tP .bracketR] ∧ o = tP .bracketL :: oe ++ [tP .bracketR] ∧ D (.nt .typ) te oe := by
  obtain ⟨t1, t2, o1, o2, rfl, rfl, d1, d2⟩ := h.nt_inv.seq_inv'
  obtain ⟨t3, t4, o3, o4, rfl, rfl, d3, d4⟩ := d2.seq_inv'
  obtain ⟨rfl, rfl⟩ := punct_inv d1 hok.left rfl
  obtain ⟨rfl, rfl⟩ := punct_inv d4 hok.right.right rfl
  exact ⟨t3, o3, by simp, by simp, d3⟩

/-- the shapes of a `Type` sentence -/
theorem inv_type {ts o : List Tok} (h : D (.nt .typ) ts o) (hok : TsOK ts) :
    (∃ nm nn, ts = tName nm :: bangIf nn ∧ o = tName nm :: bangIf nn) ∨
    (∃ te oe nn, ts = tP .bracketL :: te ++ tP .bracketR :: bangIf nn ∧ o = tP .bracketL :: oe ++ tP .bracketR :: bangIf nn ∧
      D (.nt .typ) te oe) := by
  rcases h.nt_inv.alt_inv with h | h
  · obtain ⟨n, rfl, rfl⟩ := inv_namedType h
    exact .inl ⟨n, false, rfl, rfl⟩
  rcases h.alt_inv with h | h
  · obtain ⟨te, oe, rfl, rfl, d⟩ := inv_listType h hok
    exact .inr ⟨te, oe, false, by simp [bangIf], by simp [bangIf], d⟩
  · rcases h.nt_inv.alt_inv with h | h
    · obtain ⟨t1, t2, o1, o2, rfl, rfl, d1, d2⟩ := h.seq_inv'
      obtain ⟨n, rfl, rfl⟩ := inv_namedType d1
      obtain ⟨rfl, rfl⟩ := punct_inv d2 hok.right rfl
      exact .inl ⟨n, true, rfl, rfl⟩
    · obtain ⟨t1, t2, o1, o2, rfl, rfl, d1, d2⟩ := h.seq_inv'
      obtain ⟨te, oe, rfl, rfl, d⟩ := inv_listType d1 hok.left
      obtain ⟨rfl, rfl⟩ := punct_inv d2 hok.right rfl
      exact .inr ⟨te, oe, true, by simp [bangIf], by simp [bangIf], d⟩

/-- `Type`; what follows is never `!` -/
theorem cpl_type : ∀ (n : Nat) (ts o : List Tok), TsOK ts → D (.nt .typ) ts o → ∀ (a : AS) (σ' : Stream), Starts a.σ ts σ' →
    σ'.head.kind ≠ .bang → Fwd (parseTypeReference n) a (fun ty a' => printType ty = o ∧ a'.σ = σ')
  | 0, _, _, _, _, _, _, _, _ => Fwd.outOfFuel _ _ _
  | n + 1, ts, o, hok, hd, a, σ', hs, hfol => by
    rcases inv_type hd hok with ⟨nm, nn, rfl, rfl⟩ | ⟨te, oe, nn, rfl, rfl, de⟩
    · obtain ⟨σ1, h1, h2⟩ := hs.cons_single
      unfold parseTypeReference
      refine Fwd.bind (fwd_skipP_no .bracketL (by rw [hs.head_kind]; simp [tName])) ?_
      rintro b a1 ⟨rfl, hσ1⟩
      refine Fwd.ite_neg (by simp) (Fwd.bind (fwd_peekPos _) ?_)
      rintro pos a2 rfl
      refine Fwd.bind (fwd_parseName nm (by rw [hσ1]; exact h1)) ?_
      rintro x a3 ⟨rfl, hσ3⟩
      cases nn with
      | true =>
        simp only [bangIf, if_true] at h2
        refine Fwd.bind (fwd_skipP_yes .bang (by rw [hσ3]; exact h2)) ?_
        rintro b a4 ⟨rfl, hσ4⟩
        exact (Fwd.pure _ _).mono fun _ _ h => ⟨by rw [h.1]; rfl, by rw [h.2, hσ4]⟩
      | false =>
        simp only [bangIf, Bool.false_eq_true, if_false] at h2
        rw [Starts.nil_iff] at h2
        refine Fwd.bind (fwd_skipP_no .bang (by rw [hσ3, h2]; exact hfol)) ?_
        rintro b a4 ⟨rfl, hσ4⟩
        exact (Fwd.pure _ _).mono fun _ _ h => ⟨by rw [h.1]; rfl, by rw [h.2, hσ4, hσ3, h2]⟩
    · obtain ⟨σ1, h1, hs2⟩ := hs.cons_single
      replace hs2 : Starts σ1 (te ++ (tP .bracketR :: bangIf nn)) σ' := hs2
      rw [Starts.append_iff] at hs2
      obtain ⟨σ2, he, hs3⟩ := hs2
      obtain ⟨σ3, h3, h4⟩ := hs3.cons_single
      have hoke : TsOK te := hok.tail.left
      unfold parseTypeReference
      refine Fwd.bind (fwd_skipP_yes .bracketL h1) ?_
      rintro b a1 ⟨rfl, hσ1⟩
      refine Fwd.ite_pos rfl (Fwd.bind (fwd_peekPos _) ?_)
      rintro pos a2 rfl
      refine Fwd.bind (cpl_type n te oe hoke de _ σ2 (by rw [hσ1]; exact he) (by rw [h3.head_kind]; simp [tP])) ?_
      rintro e' a3 ⟨he', hσ3⟩
      refine Fwd.bind (fwd_punct .bracketR (by rw [hσ3]; exact h3)) ?_
      rintro _ a4 hσ4
      cases nn with
      | true =>
        simp only [bangIf, if_true] at h4
        refine Fwd.bind (fwd_skipP_yes .bang (by rw [hσ4]; exact h4)) ?_
        rintro b a5 ⟨rfl, hσ5⟩
        exact (Fwd.pure _ _).mono fun _ _ h => ⟨by rw [h.1]; simp [printType, bangIf, he'], by rw [h.2, hσ5]⟩
      | false =>
        simp only [bangIf, Bool.false_eq_true, if_false] at h4
        rw [Starts.nil_iff] at h4
        refine Fwd.bind (fwd_skipP_no .bang (by rw [hσ4, h4]; exact hfol)) ?_
        rintro b a5 ⟨rfl, hσ5⟩
        exact (Fwd.pure _ _).mono fun _ _ h => ⟨by rw [h.1]; simp [printType, bangIf, he'], by rw [h.2, hσ5, hσ4, h4]⟩

/-! ### variable definitions -/

theorem inv_varDef {ts o : List Tok} (h : D (.nt .variableDefinition) ts o) (hok : TsOK ts) :
    ∃ v tt ot tdv odv tds ods, ts = tP .dollar :: tName v :: tP .colon :: (tt ++ (tdv ++ tds)) ∧
      o = tP .dollar :: tName v :: tP .colon :: (ot ++ (odv ++ ods)) ∧ D (.nt .typ) tt ot ∧
      D (.opt (.nt .defaultValue)) tdv odv ∧ D (.opt (.nt (.directives true))) tds ods := by
  obtain ⟨t1, t2, o1, o2, rfl, rfl, d1, d2⟩ := h.nt_inv.seq_inv'
  obtain ⟨t3, t4, o3, o4, rfl, rfl, d3, d4⟩ := d2.seq_inv'
  obtain ⟨t5, t6, o5, o6, rfl, rfl, d5, d6⟩ := d4.seq_inv'
  obtain ⟨t7, t8, o7, o8, rfl, rfl, d7, d8⟩ := d6.seq_inv'
  obtain ⟨s1, s2, p1, p2, rfl, rfl, e1, e2⟩ := d1.nt_inv.seq_inv'
  obtain ⟨rfl, rfl⟩ := punct_inv e1 hok.left.left rfl
  obtain ⟨v, rfl, rfl⟩ := name_inv e2
  obtain ⟨rfl, rfl⟩ := punct_inv d3 hok.right.left rfl
  exact ⟨v, t5, o5, t7, o7, t8, o8, by simp, by simp, d5, d7, d8⟩

/-- `DefaultValue?`: nothing, or `= Value[Const]` -/
theorem inv_optDefault {ts o : List Tok} (h : D (.opt (.nt .defaultValue)) ts o) (hok : TsOK ts) :
    (ts = [] ∧ o = []) ∨ ∃ tv ov, ts = tP .equals :: tv ∧ o = tP .equals :: ov ∧ D (.nt (.value true)) tv ov := by
  rcases h.opt_inv with h | h
  · exact .inl h
  · obtain ⟨t1, t2, o1, o2, rfl, rfl, d1, d2⟩ := h.nt_inv.seq_inv'
    obtain ⟨rfl, rfl⟩ := punct_inv d1 hok.left rfl
    exact .inr ⟨t2, o2, rfl, rfl, d2⟩

theorem cpl_varDef (n : Nat) (ts o : List Tok) (hok : TsOK ts) (hd : D (.nt .variableDefinition) ts o) (a : AS) (σ' : Stream)
    (hs : Starts a.σ ts σ') (hfol : FolVar σ') :
    Fwd (parseVariableDefinition n) a (fun y a' => printVarDef y = o ∧ a'.σ = σ') := by
  obtain ⟨f1, f2, f3, f4⟩ := hfol
  obtain ⟨v, tt, ot, tdv, odv, tds, ods, rfl, rfl, dt, ddv, dds⟩ := inv_varDef hd hok
  have hs : Starts a.σ ([tP .dollar, tName v] ++ ([tP .colon] ++ (tt ++ (tdv ++ tds)))) σ' := by simpa using hs
  have hokt : TsOK tt := hok.tail.tail.tail.left
  have hokdv : TsOK tdv := hok.tail.tail.tail.right.left
  have hokds : TsOK tds := hok.tail.tail.tail.right.right
  rw [Starts.append_iff] at hs
  obtain ⟨σ1, h1, hs⟩ := hs
  rw [Starts.append_iff] at hs
  obtain ⟨σ2, h2, hs⟩ := hs
  rw [Starts.append_iff] at hs
  obtain ⟨σ3, h3, hs⟩ := hs
  rw [Starts.append_iff] at hs
  obtain ⟨σ4, h4, h5⟩ := hs
  have k5 := h5.firstKind
  have k5' := firstKind_optDirectives dds hokds σ'.head.kind
  have hσ4k : σ4.head.kind ≠ .bang ∧ σ4.head.kind ≠ .equals := by
    rw [k5]; rcases k5' with h | h <;> rw [h]
    · exact ⟨f1, f2⟩
    · exact ⟨by decide, by decide⟩
  unfold parseVariableDefinition
  refine Fwd.bind (fwd_peekPos _) ?_
  rintro pos b1 rfl
  refine Fwd.bind (fwd_parseVariable v h1) ?_
  rintro x b2 ⟨rfl, hσ2⟩
  refine Fwd.bind (fwd_punct .colon (by rw [hσ2]; exact h2)) ?_
  rintro _ b3 hσ3
  have hdirs : ∀ (b : AS), b.σ = σ4 → Fwd (parseDirectives n true) b (fun ds a' => printDirectives ds = ods ∧ a'.σ = σ') :=
    fun b hb => cpl_directives true n tds ods hokds dds b σ' (by rw [hb]; exact h5) f3 f4
  rcases inv_optDefault ddv hokdv with ⟨rfl, rfl⟩ | ⟨tv, ov, rfl, rfl, dv⟩
  · rw [Starts.nil_iff] at h4
    subst h4
    refine Fwd.bind (cpl_type n tt ot hokt dt b3 σ3 (by rw [hσ3]; exact h3) hσ4k.1) ?_
    rintro ty' b4 ⟨hty, hσ4⟩
    refine Fwd.bind (fwd_skipP_no .equals (by rw [hσ4]; exact hσ4k.2)) ?_
    rintro b b5 ⟨rfl, hσ5⟩
    refine Fwd.ite_neg (by simp) (Fwd.bind (Fwd.pure none _) ?_)
    rintro dv b6 ⟨rfl, rfl⟩
    refine Fwd.bind (hdirs _ (by rw [hσ5, hσ4])) ?_
    rintro ds' b7 ⟨hds, hσ⟩
    refine (Fwd.pure _ _).mono ?_
    rintro y b8 ⟨rfl, rfl⟩
    exact ⟨by simp [printVarDef, printDefault, hty, hds], hσ⟩
  · obtain ⟨σe, he, hv⟩ := h4.cons_single
    refine Fwd.bind (cpl_type n tt ot hokt dt b3 σ3 (by rw [hσ3]; exact h3) (by rw [h4.head_kind]; simp [tP])) ?_
    rintro ty' b4 ⟨hty, hσ4⟩
    refine Fwd.bind (fwd_skipP_yes .equals (by rw [hσ4]; exact he)) ?_
    rintro b b5 ⟨rfl, hσ5⟩
    refine Fwd.ite_pos rfl (Fwd.bind (cpl_value true n tv ov hokdv.tail dv b5 σ4 (by rw [hσ5]; exact hv)) ?_)
    rintro v' b6 ⟨hv', hσ6⟩
    refine Fwd.bind (Fwd.pure (Option.some v') _) ?_
    rintro dv' b7 ⟨rfl, rfl⟩
    refine Fwd.bind (hdirs _ hσ6) ?_
    rintro ds' b8 ⟨hds, hσ⟩
    refine (Fwd.pure _ _).mono ?_
    rintro y b9 ⟨rfl, rfl⟩
    exact ⟨by simp [printVarDef, printDefault, hty, hds, hv'], hσ⟩

theorem first_varDef {ts o : List Tok} (h : D (.nt .variableDefinition) ts o) (hok : TsOK ts) : ∃ rest, ts = tP .dollar :: rest := by
  obtain ⟨v, tt, ot, tdv, odv, tds, ods, e, _⟩ := inv_varDef h hok
  exact ⟨_, e⟩

theorem printVarDefs_cons {vs : List VarDef} (h : vs ≠ []) :
    printVarDefs vs = tP .parenL :: vs.flatMap printVarDef ++ [tP .parenR] := by
  cases vs with
  | nil => exact absurd rfl h
  | cons x r => simp [printVarDefs]

/-- `VariableDefinitions?` -/
theorem cpl_varDefs (n : Nat) (ts o : List Tok) (hok : TsOK ts) (hd : D (.opt (.nt .variableDefinitions)) ts o) (a : AS)
    (σ' : Stream) (hs : Starts a.σ ts σ') (hfol : σ'.head.kind ≠ .parenL) :
    Fwd (parseVariableDefinitions n) a (fun vs a' => printVarDefs vs = o ∧ a'.σ = σ') := by
  unfold parseVariableDefinitions
  rcases hd.opt_inv with ⟨rfl, rfl⟩ | hd
  · rw [Starts.nil_iff] at hs
    refine (fwd_bracket_absent .parenL .parenR n a (by rw [hs]; exact hfol)).2.mono ?_
    rintro ys a' ⟨rfl, hσ⟩
    exact ⟨rfl, by rw [hσ, hs]⟩
  · obtain ⟨parts, hne, rfl, rfl, hp⟩ := inv_block hd.nt_inv hok rfl rfl
    have hokp : ∀ p ∈ parts, TsOK p.1 := (hok.tail.left).of_flatMap
    refine ((fwd_bracketG (·.1) (fun (y : VarDef) (p : List Tok × List Tok) => printVarDef y = p.2) FolVar
      .parenL .parenR parts
      (fun p hpm a0 σ1 hst hf => cpl_varDef n p.1 p.2 (hokp p hpm) (hp p hpm) a0 σ1 hst hf)
      (fun p hpm => by
        obtain ⟨rest, e⟩ := first_varDef (hp p hpm) (hokp p hpm)
        exact ⟨_, _, e, by simp [tP]⟩)
      (fun σ1 h => by
        rcases h with h | ⟨p, hpm, t, rest, hfx, ht⟩
        · simp [FolVar, h]
        · obtain ⟨rest', e⟩ := first_varDef (hp p hpm) (hokp p hpm)
          rw [e] at hfx
          have : t = tP .dollar := (List.cons.inj hfx).1.symm
          have hk : σ1.head.kind = .dollar := by rw [← show (Tok.ofToken σ1.head).kind = σ1.head.kind from rfl, ht, this]; rfl
          simp [FolVar, hk]) n a σ' (tP .parenL) (tP .parenR) rfl rfl (by simpa using hs)).2 hne).mono ?_
    rintro ys a' ⟨hy, hσ⟩
    refine ⟨?_, hσ⟩
    rw [printVarDefs_cons (all₂_ne hy hne), flatMap_forall₂ (P := printVarDef) (g := fun (p : List Tok × List Tok) => p.2) hy]

/-! ### selections -/

theorem dropSelfAlias_field (al nm : Name) (args : List Argument) (ds : List Directive) (ss : Selections) (pos : Pos)
    (colon : Bool) (hcol : colon = false → al = nm) :
    dropSelfAlias ((if colon then [tName al, tP .colon] else []) ++ ([tName nm] ++ (printArguments args ++
      (printDirectives ds ++ selOut ss)))) = printSelection (.field al nm args ds ss pos) := by
  rw [printSelection_field]
  cases colon with
  | false =>
    have := hcol rfl
    subst this
    simp only [Bool.false_eq_true, if_false, List.nil_append, if_true, List.singleton_append]
    refine dropSelfAlias_plain _ _ (head_append (fun t h => ?_) (head_append (fun t h => ?_) (head_selOut ss)))
    · rw [head_printArguments _ t h]; simp [tP]
    · rw [head_printDirectives _ t h]; simp [tP]
  | true =>
    by_cases he : al = nm
    · subst he
      simpa using dropSelfAlias_self al _
    · simpa [he] using dropSelfAlias_alias al nm he _

theorem inv_selectionSet {ts o : List Tok} (h : D (.nt .selectionSet) ts o) (hok : TsOK ts) :
    ∃ parts : List (List Tok × List Tok), parts ≠ [] ∧
      ts = tP .braceL :: parts.flatMap (·.1) ++ [tP .braceR] ∧ o = tP .braceL :: parts.flatMap (·.2) ++ [tP .braceR] ∧
      ∀ p ∈ parts, D (.nt .selection) p.1 p.2 :=
  inv_block h.nt_inv hok rfl rfl

/-- `SelectionSet?`: nothing, or starts with `{` -/
theorem first_optSelectionSet {ts o : List Tok} (h : D (.opt (.nt .selectionSet)) ts o) (hok : TsOK ts) :
    (ts = [] ∧ o = []) ∨ (∃ rest, ts = tP .braceL :: rest) ∧ D (.nt .selectionSet) ts o := by
  rcases h.opt_inv with h | h
  · exact .inl h
  · obtain ⟨parts, _, e, _, _⟩ := inv_selectionSet h hok
    exact .inr ⟨⟨_, e⟩, h⟩

theorem inv_field {ts o : List Tok} (h : D (.nt .field) ts o) (hok : TsOK ts) :
    ∃ (colon : Bool) (al nm : Name) (ta oa td od tss oss : List Tok),
      ts = (if colon then [tName al, tP .colon] else []) ++ ([tName nm] ++ (ta ++ (td ++ tss))) ∧
      o = dropSelfAlias ((if colon then [tName al, tP .colon] else []) ++ ([tName nm] ++ (oa ++ (od ++ oss)))) ∧
      (colon = false → al = nm) ∧ D (.opt (.nt (.arguments false))) ta oa ∧ D (.opt (.nt (.directives false))) td od ∧
      D (.opt (.nt .selectionSet)) tss oss := by
  obtain ⟨o', rfl, hb⟩ := h.nt_inv.canon_inv
  obtain ⟨t1, t2, o1, o2, rfl, rfl, d1, d2⟩ := hb.seq_inv'
  obtain ⟨t3, t4, o3, o4, rfl, rfl, d3, d4⟩ := d2.seq_inv'
  obtain ⟨t5, t6, o5, o6, rfl, rfl, d5, d6⟩ := d4.seq_inv'
  obtain ⟨t7, t8, o7, o8, rfl, rfl, d7, d8⟩ := d6.seq_inv'
  obtain ⟨nm, rfl, rfl⟩ := name_inv d3
  rcases d1.opt_inv with ⟨rfl, rfl⟩ | d1
  · exact ⟨false, nm, nm, t5, o5, t7, o7, t8, o8, by simp, by simp, fun _ => rfl, d5, d7, d8⟩
  · obtain ⟨s1, s2, p1, p2, rfl, rfl, e1, e2⟩ := d1.nt_inv.seq_inv'
    obtain ⟨al, rfl, rfl⟩ := name_inv e1
    obtain ⟨rfl, rfl⟩ := punct_inv e2 hok.left.right rfl
    exact ⟨true, al, nm, t5, o5, t7, o7, t8, o8, by simp, by simp, fun h => (by cases h), d5, d7, d8⟩

theorem inv_spread {ts o : List Tok} (h : D (.nt .fragmentSpread) ts o) (hok : TsOK ts) :
    ∃ nm td od, nm ≠ str "on" ∧ ts = tP .spread :: tName nm :: td ∧ o = tP .spread :: tName nm :: od ∧
      D (.opt (.nt (.directives false))) td od := by
  obtain ⟨t1, t2, o1, o2, rfl, rfl, d1, d2⟩ := h.nt_inv.seq_inv'
  obtain ⟨t3, t4, o3, o4, rfl, rfl, d3, d4⟩ := d2.seq_inv'
  obtain ⟨rfl, rfl⟩ := punct_inv d1 hok.left rfl
  obtain ⟨t, rfl, rfl, hp⟩ := d3.nt_inv.tok_inv
  simp only [Bool.and_eq_true, beq_iff_eq, Bool.not_eq_true', List.contains_cons, List.contains_nil, Bool.or_false,
    beq_eq_false_iff_ne] at hp
  refine ⟨t.value, t4, o4, hp.2, ?_, ?_, d4⟩ <;> (cases t; simp_all [tName])

theorem inv_inline {ts o : List Tok} (h : D (.nt .inlineFragment) ts o) (hok : TsOK ts) :
    ∃ (tc : Name) (td od tss oss : List Tok), ts = tP .spread :: ((if tc = [] then [] else [tKw "on", tName tc]) ++ (td ++ tss)) ∧
      o = tP .spread :: ((if tc = [] then [] else [tKw "on", tName tc]) ++ (od ++ oss)) ∧
      D (.opt (.nt (.directives false))) td od ∧ D (.nt .selectionSet) tss oss := by
  obtain ⟨t1, t2, o1, o2, rfl, rfl, d1, d2⟩ := h.nt_inv.seq_inv'
  obtain ⟨t3, t4, o3, o4, rfl, rfl, d3, d4⟩ := d2.seq_inv'
  obtain ⟨t5, t6, o5, o6, rfl, rfl, d5, d6⟩ := d4.seq_inv'
  obtain ⟨rfl, rfl⟩ := punct_inv d1 hok.left rfl
  rcases d3.opt_inv with ⟨rfl, rfl⟩ | d3
  · exact ⟨[], t5, o5, t6, o6, by simp, by simp, d5, d6⟩
  · obtain ⟨s1, s2, p1, p2, rfl, rfl, e1, e2⟩ := d3.nt_inv.seq_inv'
    obtain ⟨rfl, rfl⟩ := kw_inv e1
    obtain ⟨tc, rfl, rfl⟩ := inv_namedType e2
    have htc : tc ≠ [] := (hok (tName tc) (by simp)).2 rfl
    exact ⟨tc, t5, o5, t6, o6, by simp [htc], by simp [htc], d5, d6⟩

/-- the first token of a selection -/
theorem first_selection {ts o : List Tok} (h : D (.nt .selection) ts o) (hok : TsOK ts) :
    ∃ t rest, ts = t :: rest ∧ (t.kind = .name ∨ t.kind = .spread) := by
  rcases h.nt_inv.alt_inv with h | h
  · obtain ⟨colon, al, nm, ta, oa, td, od, tss, oss, e, _⟩ := inv_field h hok
    cases colon
    · exact ⟨tName nm, _, by simpa using e, .inl rfl⟩
    · exact ⟨tName al, _, by simpa using e, .inl rfl⟩
  rcases h.alt_inv with h | h
  · obtain ⟨nm, td, od, _, e, _⟩ := inv_spread h hok
    exact ⟨_, _, e, .inr rfl⟩
  · obtain ⟨tc, td, od, tss, oss, e, _⟩ := inv_inline h hok
    exact ⟨_, _, e, .inr rfl⟩

theorem toList_ofListS (xs : List Selection) : (Selections.ofList xs).toList = xs := by
  induction xs with
  | nil => rfl
  | cons x xs ih => simp [Selections.ofList, Selections.toList, ih]

theorem ofList_ne_nil {xs : List Selection} (h : xs ≠ []) : ∃ s rest, Selections.ofList xs = .cons s rest := by
  cases xs with
  | nil => exact absurd rfl h
  | cons x xs => exact ⟨_, _, rfl⟩

/-- what the selection parser does on a derivable token list -/
def CplSel (n : Nat) : Prop :=
  ∀ (ts o : List Tok), TsOK ts → D (.nt .selection) ts o → ∀ (a : AS) (σ' : Stream), Starts a.σ ts σ' → FolSel σ' →
    Fwd (parseSelection n) a (fun s a' => printSelection s = o ∧ a'.σ = σ')

/-- `{ Selection+ }` through `some` -/
theorem cpl_selBlock {m : Nat} (hsel : CplSel m) (n : Nat) (ts o : List Tok) (hok : TsOK ts) (hd : D (.nt .selectionSet) ts o)
    (a : AS) (σ' : Stream) (hs : Starts a.σ ts σ') :
    Fwd (pSome .braceL .braceR n (parseSelection m)) a
      (fun ys a' => ys ≠ [] ∧ printSelectionSet (Selections.ofList ys) = o ∧ a'.σ = σ') := by
  obtain ⟨parts, hne, rfl, rfl, hp⟩ := inv_selectionSet hd hok
  have hokp : ∀ p ∈ parts, TsOK p.1 := (hok.tail.left).of_flatMap
  refine ((fwd_bracketG (·.1) (fun (y : Selection) (p : List Tok × List Tok) => printSelection y = p.2) FolSel
    .braceL .braceR parts
    (fun p hpm a0 σ1 hst hf => hsel p.1 p.2 (hokp p hpm) (hp p hpm) a0 σ1 hst hf)
    (fun p hpm => by
      obtain ⟨t, rest, h1, h2⟩ := first_selection (hp p hpm) (hokp p hpm)
      exact ⟨t, rest, h1, by rcases h2 with h | h <;> simp [h]⟩)
    (fun σ1 h => by
      rcases h with h | ⟨p, hpm, t, rest, hfx, ht⟩
      · simp [FolSel, h]
      · obtain ⟨t', rest', h1, h2⟩ := first_selection (hp p hpm) (hokp p hpm)
        rw [hfx] at h1
        have : t = t' := (List.cons.inj h1).1
        subst this
        have hk : σ1.head.kind = t.kind := by rw [← ht]; rfl
        rcases h2 with h | h <;> simp [FolSel, hk, h]) n a σ' (tP .braceL) (tP .braceR) rfl rfl (by simpa using hs)).2 hne).mono ?_
  rintro ys a' ⟨hy, hσ⟩
  refine ⟨all₂_ne hy hne, ?_, hσ⟩
  simp only [printSelectionSet, printSelections_eq, toList_ofListS]
  rw [flatMap_forall₂ (P := printSelection) (g := fun (p : List Tok × List Tok) => p.2) hy]

theorem cpl_fieldTail {m : Nat} (hsel : CplSel m) (n : Nat) (pos : Pos) (al nm : Name) (ta oa td od tss oss : List Tok)
    (hoka : TsOK ta) (hokd : TsOK td) (hoks : TsOK tss) (da : D (.opt (.nt (.arguments false))) ta oa)
    (dd : D (.opt (.nt (.directives false))) td od) (dss : D (.opt (.nt .selectionSet)) tss oss) (a : AS) (σ' : Stream)
    (hs : Starts a.σ (ta ++ (td ++ tss)) σ') (hfol : FolSel σ') :
    Fwd (fieldTail (parseSelection m) n pos al nm) a (fun s a' => ∃ args ds ss, s = Selection.field al nm args ds ss pos ∧
      printArguments args = oa ∧ printDirectives ds = od ∧ selOut ss = oss ∧ a'.σ = σ') := by
  obtain ⟨f1, f2, f3, f4⟩ := hfol
  rw [Starts.append_iff] at hs
  obtain ⟨σ1, h1, hs⟩ := hs
  rw [Starts.append_iff] at hs
  obtain ⟨σ2, h2, h3⟩ := hs
  have hss := first_optSelectionSet dss hoks
  have k3 : σ2.head.kind ≠ .parenL ∧ σ2.head.kind ≠ .at ∧ (tss = [] → σ2.head.kind ≠ .braceL) := by
    rcases hss with ⟨rfl, _⟩ | ⟨⟨rest, rfl⟩, _⟩
    · rw [Starts.nil_iff] at h3; rw [h3]; exact ⟨f2, f3, fun _ => f4⟩
    · rw [h3.head_kind]; exact ⟨by simp [tP], by simp [tP], fun h => by cases h⟩
  have k2 : σ1.head.kind ≠ .parenL := by
    rw [h2.firstKind]
    rcases firstKind_optDirectives dd hokd σ2.head.kind with h | h <;> rw [h]
    · exact k3.1
    · decide
  unfold fieldTail
  refine Fwd.bind (cpl_arguments false n ta oa hoka da a σ1 h1 k2) ?_
  rintro as' b1 ⟨has, hσ1⟩
  refine Fwd.bind (cpl_directives false n td od hokd dd b1 σ2 (by rw [hσ1]; exact h2) k3.2.1 k3.1) ?_
  rintro ds' b2 ⟨hds, hσ2⟩
  refine Fwd.bind (fwd_peek b2) ?_
  rintro t b3 ⟨rfl, rfl⟩
  rcases hss with ⟨rfl, rfl⟩ | ⟨⟨rest, hrest⟩, dss'⟩
  · rw [Starts.nil_iff] at h3
    refine Fwd.ite_neg (by rw [hσ2]; exact k3.2.2 rfl) (Fwd.bind (Fwd.pure Selections.nil _) ?_)
    rintro ss' b4 ⟨rfl, rfl⟩
    refine (Fwd.pure _ _).mono ?_
    rintro y b5 ⟨rfl, rfl⟩
    exact ⟨as', ds', .nil, rfl, has, hds, rfl, by simp [hσ2, h3]⟩
  · refine Fwd.ite_pos (by rw [hσ2]; rw [hrest] at h3; rw [h3.head_kind]; rfl) ?_
    unfold parseOptionalSelectionSetWith
    refine Fwd.bind (R1 := fun ss a' => ∃ s rest, ss = Selections.cons s rest ∧ printSelectionSet ss = oss ∧ a'.σ = σ')
      (Fwd.bind (cpl_selBlock hsel n tss oss hoks dss' _ σ' (by simpa [hσ2] using h3)) ?_) ?_
    · rintro ys b4 ⟨hne, hp, hσ⟩
      refine (Fwd.pure _ _).mono ?_
      rintro ss b5 ⟨rfl, rfl⟩
      obtain ⟨s0, r0, e0⟩ := ofList_ne_nil hne
      exact ⟨s0, r0, e0, hp, hσ⟩
    · rintro ss' b4 ⟨s0, r0, rfl, hp, hσ⟩
      refine (Fwd.pure _ _).mono ?_
      rintro y b5 ⟨rfl, rfl⟩
      exact ⟨as', ds', _, rfl, has, hds, by rw [selOut_cons]; exact hp, hσ⟩

theorem cpl_requiredSelSet {m : Nat} (hsel : CplSel m) (n : Nat) (ts o : List Tok) (hok : TsOK ts) (hd : D (.nt .selectionSet) ts o)
    (a : AS) (σ' : Stream) (hs : Starts a.σ ts σ') :
    Fwd (parseRequiredSelectionSetWith (parseSelection m) n) a (fun ss a' => printSelectionSet ss = o ∧ a'.σ = σ') := by
  obtain ⟨parts, _, e, _, _⟩ := inv_selectionSet hd hok
  have hk : a.σ.head.kind = .braceL := by rw [e] at hs; exact hs.head_kind
  unfold parseRequiredSelectionSetWith
  refine Fwd.bind (fwd_peek a) ?_
  rintro t a1 ⟨rfl, rfl⟩
  refine Fwd.ite_neg (by simp [hk]) (Fwd.bind (cpl_selBlock hsel n ts o hok hd _ σ' (by simpa using hs)) ?_)
  rintro ys a2 ⟨_, hp, hσ⟩
  exact (Fwd.pure _ _).mono fun _ _ h => ⟨by rw [h.1]; exact hp, by rw [h.2, hσ]⟩

theorem cpl_inlineTail {m : Nat} (hsel : CplSel m) (n : Nat) (pos : Pos) (tc : Name) (td od tss oss : List Tok)
    (hokd : TsOK td) (hoks : TsOK tss) (dd : D (.opt (.nt (.directives false))) td od) (dss : D (.nt .selectionSet) tss oss)
    (a : AS) (σ' : Stream) (hs : Starts a.σ (td ++ tss) σ') :
    Fwd (inlineTail (parseSelection m) n pos tc) a (fun s a' => ∃ ds ss, s = Selection.inline tc ds ss pos ∧
      printDirectives ds = od ∧ printSelectionSet ss = oss ∧ a'.σ = σ') := by
  rw [Starts.append_iff] at hs
  obtain ⟨σ1, h1, h2⟩ := hs
  obtain ⟨parts, _, e, _, _⟩ := inv_selectionSet dss hoks
  have k2 : σ1.head.kind = .braceL := by rw [e] at h2; exact h2.head_kind
  unfold inlineTail
  refine Fwd.bind (cpl_directives false n td od hokd dd a σ1 h1 (by rw [k2]; decide) (by rw [k2]; decide)) ?_
  rintro ds' a1 ⟨hds, hσ1⟩
  refine Fwd.bind (cpl_requiredSelSet hsel n tss oss hoks dss a1 σ' (by rw [hσ1]; exact h2)) ?_
  rintro ss' a2 ⟨hss, hσ⟩
  refine (Fwd.pure _ _).mono ?_
  rintro y a3 ⟨rfl, rfl⟩
  exact ⟨ds', ss', rfl, hds, hss, hσ⟩

/-- **selections** -/
theorem cpl_selection : ∀ n, CplSel n
  | 0 => fun _ _ _ _ _ _ _ _ => Fwd.outOfFuel _ _ _
  | n + 1 => by
    have ih := cpl_selection n
    intro ts o hok hd a σ' hs hfol
    rcases hd.nt_inv.alt_inv with hd | hd
    · -- field
      obtain ⟨colon, al, nm, ta, oa, td, od, tss, oss, rfl, rfl, hcol, da, dd, dss⟩ := inv_field hd hok
      have hkn : a.σ.head.kind = .name := by
        rw [hs.firstKind]; cases colon <;> simp [tName]
      unfold parseSelection
      refine Fwd.bind (fwd_peek a) ?_
      rintro t a1 ⟨rfl, rfl⟩
      refine Fwd.ite_neg (by rw [hkn]; decide) ?_
      rw [parseFieldWith_eq]
      refine Fwd.bind (fwd_peekPos _) ?_
      rintro pos a2 rfl
      have hfin : ∀ (b : AS) (al' : Name), al' = al → Starts b.σ (ta ++ (td ++ tss)) σ' →
          Fwd (fieldTail (parseSelection n) (n + 1) pos al' nm) b (fun s a' =>
            printSelection s = dropSelfAlias ((if colon then [tName al, tP .colon] else []) ++ ([tName nm] ++ (oa ++ (od ++ oss)))) ∧
            a'.σ = σ') := by
        intro b al' hal hst
        subst hal
        have hokr : TsOK (ta ++ (td ++ tss)) := by
          cases colon
          · exact hok.right.right
          · exact hok.right.right
        refine (cpl_fieldTail ih (n + 1) pos al' nm ta oa td od tss oss hokr.left hokr.right.left hokr.right.right da dd dss b σ' hst hfol).mono ?_
        rintro s a' ⟨args, ds, ss, rfl, e1, e2, e3, hσ⟩
        exact ⟨by rw [← e1, ← e2, ← e3]; exact (dropSelfAlias_field al' nm args ds ss pos colon hcol).symm, hσ⟩
      cases colon with
      | false =>
        have := hcol rfl
        subst this
        simp only [Bool.false_eq_true, if_false, List.nil_append, List.singleton_append] at hs
        obtain ⟨σ1, h1, h2⟩ := hs.cons_single
        refine Fwd.bind (fwd_parseName al h1) ?_
        rintro x a3 ⟨rfl, hσ3⟩
        have k2 : σ1.head.kind ≠ .colon := by
          have hokr : TsOK (ta ++ (td ++ tss)) := hok.right.right
          rw [h2.firstKind]
          simp only [firstKind_append]
          have ha : firstKind ta (firstKind td (firstKind tss σ'.head.kind)) = firstKind td (firstKind tss σ'.head.kind) ∨
              firstKind ta (firstKind td (firstKind tss σ'.head.kind)) = .parenL := by
            rcases inv_optArguments da hokr.left with ⟨rfl, _⟩ | ⟨parts, _, rfl, _⟩
            · exact .inl rfl
            · exact .inr rfl
          have hd' := firstKind_optDirectives dd hokr.right.left (firstKind tss σ'.head.kind)
          have hs' : firstKind tss σ'.head.kind = σ'.head.kind ∨ firstKind tss σ'.head.kind = .braceL := by
            rcases first_optSelectionSet dss hokr.right.right with ⟨rfl, _⟩ | ⟨⟨rest, rfl⟩, _⟩
            · exact .inl rfl
            · exact .inr rfl
          rcases ha with h | h <;> rw [h]
          · rcases hd' with h | h <;> rw [h]
            · rcases hs' with h | h <;> rw [h]
              · exact hfol.1
              · decide
            · decide
          · decide
        refine Fwd.bind (fwd_skipP_no .colon (by rw [hσ3]; exact k2)) ?_
        rintro b a4 ⟨rfl, hσ4⟩
        refine Fwd.ite_neg (by simp) ?_
        exact hfin a4 x rfl (by rw [hσ4, hσ3]; exact h2)
      | true =>
        simp only [if_true, List.cons_append, List.nil_append, List.singleton_append] at hs
        obtain ⟨σ1, h1, hs⟩ := hs.cons_single
        obtain ⟨σ2, h2, hs⟩ := hs.cons_single
        obtain ⟨σ3, h3, h4⟩ := hs.cons_single
        refine Fwd.bind (fwd_parseName al h1) ?_
        rintro x a3 ⟨rfl, hσ3⟩
        refine Fwd.bind (fwd_skipP_yes .colon (by rw [hσ3]; exact h2)) ?_
        rintro b a4 ⟨rfl, hσ4⟩
        refine Fwd.ite_pos rfl (Fwd.bind (fwd_parseName nm (by rw [hσ4]; exact h3)) ?_)
        rintro y a5 ⟨rfl, hσ5⟩
        exact hfin a5 x rfl (by rw [hσ5]; exact h4)
    rcases hd.alt_inv with hd | hd
    · -- fragment spread
      obtain ⟨nm, td, od, hnm, rfl, rfl, dd⟩ := inv_spread hd hok
      obtain ⟨f1, f2, f3, f4⟩ := hfol
      obtain ⟨σ1, h1, hs2⟩ := hs.cons_single
      obtain ⟨σ2, h2, h3⟩ := hs2.cons_single
      obtain ⟨u, hσu, hu⟩ := h2.single
      unfold parseSelection
      refine Fwd.bind (fwd_peek a) ?_
      rintro t a1 ⟨rfl, rfl⟩
      refine Fwd.ite_pos hs.head_kind ?_
      rw [parseFragmentWith_eq]
      refine Fwd.bind (fwd_punct .spread (by simpa using h1)) ?_
      rintro _ a2 hσ2
      refine Fwd.bind (fwd_peek a2) ?_
      rintro pk a3 ⟨rfl, rfl⟩
      have hk : a2.σ.head.kind = .name := by rw [hσ2, hσu]; exact ofToken_kind hu
      have hv : a2.σ.head.value = nm := by rw [hσ2, hσu]; exact ofToken_value hu
      refine Fwd.ite_pos ⟨hk, by rw [hv]; exact hnm⟩ (Fwd.bind (fwd_peekPos _) ?_)
      rintro pos a4 rfl
      refine Fwd.bind (fwd_parseFragmentName nm (by simpa [hσ2] using h2) hnm) ?_
      rintro x a5 ⟨rfl, hσ5⟩
      refine Fwd.bind (cpl_directives false (n + 1) td od hok.tail.tail dd a5 σ' (by rw [hσ5]; exact h3) f3 f2) ?_
      rintro ds' a6 ⟨hds, hσ⟩
      refine (Fwd.pure _ _).mono ?_
      rintro y a7 ⟨rfl, rfl⟩
      exact ⟨by simp [printSelection, hds], hσ⟩
    · -- inline fragment
      obtain ⟨tc, td, od, tss, oss, rfl, rfl, dd, dss⟩ := inv_inline hd hok
      obtain ⟨σ1, h1, hs2⟩ := hs.cons_single
      have hokr : TsOK ((if tc = [] then [] else [tKw "on", tName tc]) ++ (td ++ tss)) := hok.tail
      have hfin : ∀ (b : AS) (pos : Pos) (tc' : Name), tc' = tc → Starts b.σ (td ++ tss) σ' →
          Fwd (inlineTail (parseSelection n) (n + 1) pos tc') b (fun s a' =>
            printSelection s = tP .spread :: ((if tc = [] then [] else [tKw "on", tName tc]) ++ (od ++ oss)) ∧ a'.σ = σ') := by
        intro b pos tc' htc hst
        subst htc
        refine (cpl_inlineTail ih (n + 1) pos tc' td od tss oss hokr.right.left hokr.right.right dd dss b σ' hst).mono ?_
        rintro s a' ⟨ds, ss, rfl, e1, e2, hσ⟩
        exact ⟨by simp [printSelection, ← e1, ← e2, printSelectionSet], hσ⟩
      unfold parseSelection
      refine Fwd.bind (fwd_peek a) ?_
      rintro t a1 ⟨rfl, rfl⟩
      refine Fwd.ite_pos hs.head_kind ?_
      rw [parseFragmentWith_eq]
      refine Fwd.bind (fwd_punct .spread (by simpa using h1)) ?_
      rintro _ a2 hσ2
      refine Fwd.bind (fwd_peek a2) ?_
      rintro pk a3 ⟨rfl, rfl⟩
      by_cases htc : tc = []
      · subst htc
        simp only [if_true, List.nil_append] at hs2 hokr
        have hk : a2.σ.head.kind ≠ .name := by
          rw [hσ2, hs2.firstKind]
          simp only [firstKind_append]
          obtain ⟨parts, _, e, _, _⟩ := inv_selectionSet dss hokr.right
          have hb : firstKind tss σ'.head.kind = .braceL := by rw [e]; rfl
          rcases firstKind_optDirectives dd hokr.left (firstKind tss σ'.head.kind) with h | h <;> rw [h]
          · rw [hb]; decide
          · decide
        refine Fwd.ite_neg (fun h => hk h.1) (Fwd.bind (fwd_peekPos _) ?_)
        rintro pos a4 rfl
        refine Fwd.bind (fwd_peek _) ?_
        rintro t2 a5 ⟨rfl, rfl⟩
        refine Fwd.ite_neg (fun h => hk h.1) ?_
        exact hfin _ pos [] rfl (by simpa [hσ2] using hs2)
      · simp only [if_neg htc, List.cons_append, List.nil_append] at hs2
        obtain ⟨σ2, h2, hs3⟩ := hs2.cons_single
        obtain ⟨σ3, h3, h4⟩ := hs3.cons_single
        obtain ⟨u, hσu, hu⟩ := h2.single
        have hk : a2.σ.head.kind = .name := by rw [hσ2, hσu]; exact ofToken_kind hu
        have hv : a2.σ.head.value = kwOn := by rw [hσ2, hσu]; exact ofToken_value hu
        refine Fwd.ite_neg (fun h => h.2 hv) (Fwd.bind (fwd_peekPos _) ?_)
        rintro pos a4 rfl
        refine Fwd.bind (fwd_peek _) ?_
        rintro t2 a5 ⟨rfl, rfl⟩
        refine Fwd.ite_pos ⟨hk, hv⟩ (Fwd.bind (fwd_next (a := { pk := true, σ := a2.σ, cnt := a2.cnt }) (t := u) (σ' := σ2) rfl
          (by simp [hσ2, hσu])) ?_)
        rintro _ a6 ⟨_, rfl⟩
        refine Fwd.bind (fwd_parseName tc (by simpa using h3)) ?_
        rintro x a7 ⟨rfl, hσ7⟩
        exact hfin a7 pos x rfl (by rw [hσ7]; exact h4)

theorem cpl_requiredSelectionSet (n : Nat) (ts o : List Tok) (hok : TsOK ts) (hd : D (.nt .selectionSet) ts o)
    (a : AS) (σ' : Stream) (hs : Starts a.σ ts σ') :
    Fwd (parseRequiredSelectionSet n) a (fun ss a' => printSelectionSet ss = o ∧ a'.σ = σ') :=
  cpl_requiredSelSet (cpl_selection n) n ts o hok hd a σ' hs

end Gql.Parser
