import GqlProofs.Parser.FwdG
import GqlProofs.Parser.FwdQuery
/-
  Completeness of the query parser, driven by derivations: if a stream starts with a token list
  that the grammar derives from a nonterminal (with canonical output `o`), the run of the
  corresponding parser program ends live, consumes exactly those tokens, and the unparse of its
  result is `o`.  (Consequences: every derivable lexable input is accepted, and every canonical
  output of the input's token sequence is the unparse of the tree.)

  The tokens are of lexer shape (`TsOK`: punctuators have the empty value).
-/
namespace Gql.Parser
open Gql Gql.Lexer Gql.Grammar Gql.Print

local notation "D" => Derives gql

/-! ### single tokens -/

theorem fwd_expectTok {a : AS} {σ' : Stream} (k : Kind) (t : Tok) (hk : t.kind = k) (h : Starts a.σ [t] σ') :
    Fwd (expect k) a (fun x a' => Tok.ofToken x = t ∧ a'.σ = σ') := by
  obtain ⟨u, hσ, hu⟩ := h.single
  exact (fwd_expect k hσ (by rw [ofToken_kind hu]; exact hk)).mono fun _ _ h => ⟨by rw [h.1]; exact hu, by rw [h.2]⟩

/-! ### values -/

/-- the shapes of a `Value[Const]` sentence -/
def ValShape (c : Bool) (ts o : List Tok) : Prop :=
    (c = false ∧ ∃ n, ts = [tP .dollar, tName n] ∧ o = [tP .dollar, tName n]) ∨
    (∃ t, ts = [t] ∧ o = [t] ∧ (t.kind = .int ∨ t.kind = .float ∨ t.kind = .string ∨ t.kind = .blockString ∨ t.kind = .name)) ∨
    (∃ parts : List (List Tok × List Tok), ts = tP .bracketL :: parts.flatMap (·.1) ++ [tP .bracketR] ∧
      o = tP .bracketL :: parts.flatMap (·.2) ++ [tP .bracketR] ∧ ∀ p ∈ parts, D (.nt (.value c)) p.1 p.2) ∨
    (∃ parts : List (List Tok × List Tok), ts = tP .braceL :: parts.flatMap (·.1) ++ [tP .braceR] ∧
      o = tP .braceL :: parts.flatMap (·.2) ++ [tP .braceR] ∧ ∀ p ∈ parts, D (.nt (.objectField c)) p.1 p.2)

theorem inv_value {c : Bool} {ts o : List Tok} (h : D (.nt (.value c)) ts o) (hok : TsOK ts) : ValShape c ts o := by
  have lit : D (literal c) ts o → ValShape c ts o := fun h => by
    rcases h.alt_inv with h | h
    · obtain ⟨t, e1, e2, hk⟩ := kind_inv h
      exact Or.inr (Or.inl ⟨t, e1, e2, .inl hk⟩)
    rcases h.alt_inv with h | h
    · obtain ⟨t, e1, e2, hk⟩ := kind_inv h
      exact Or.inr (Or.inl ⟨t, e1, e2, .inr (.inl hk)⟩)
    rcases h.alt_inv with h | h
    · obtain ⟨t, e1, e2, hp⟩ := h.tok_inv
      simp only [Bool.or_eq_true, beq_iff_eq] at hp
      exact Or.inr (Or.inl ⟨t, e1, e2, by rcases hp with hp | hp <;> simp [hp]⟩)
    rcases h.alt_inv with h | h
    · rcases h.nt_inv.alt_inv with h | h <;>
      · obtain ⟨t, e1, e2, hp⟩ := h.tok_inv
        simp only [Bool.and_eq_true, beq_iff_eq] at hp
        exact Or.inr (Or.inl ⟨t, e1, e2, by simp [hp.1]⟩)
    rcases h.alt_inv with h | h
    · obtain ⟨t, e1, e2, hp⟩ := h.nt_inv.tok_inv
      simp only [Bool.and_eq_true, beq_iff_eq] at hp
      exact Or.inr (Or.inl ⟨t, e1, e2, by simp [hp.1]⟩)
    rcases h.alt_inv with h | h
    · obtain ⟨t, e1, e2, hp⟩ := h.nt_inv.tok_inv
      simp only [Bool.and_eq_true, beq_iff_eq] at hp
      exact Or.inr (Or.inl ⟨t, e1, e2, by simp [hp.1]⟩)
    rcases h.alt_inv with h | h
    · -- list
      refine Or.inr (Or.inr (Or.inl ?_))
      rcases h.nt_inv.alt_inv with h | h
      · obtain ⟨t1, t2, o1, o2, rfl, rfl, d1, d2⟩ := h.seq_inv'
        obtain ⟨rfl, rfl⟩ := punct_inv d1 hok.left rfl
        obtain ⟨rfl, rfl⟩ := punct_inv d2 hok.right rfl
        exact ⟨[], rfl, rfl, fun _ h => by cases h⟩
      · obtain ⟨t1, t2, o1, o2, rfl, rfl, d1, d2⟩ := h.seq_inv'
        obtain ⟨t3, t4, o3, o4, rfl, rfl, d3, d4⟩ := d2.seq_inv'
        obtain ⟨rfl, rfl⟩ := punct_inv d1 hok.left rfl
        obtain ⟨rfl, rfl⟩ := punct_inv d4 hok.right.right rfl
        obtain ⟨parts, _, rfl, rfl, hp⟩ := d3.plus_parts
        exact ⟨parts, by simp, by simp, hp⟩
    · -- object
      refine Or.inr (Or.inr (Or.inr ?_))
      rcases h.nt_inv.alt_inv with h | h
      · obtain ⟨t1, t2, o1, o2, rfl, rfl, d1, d2⟩ := h.seq_inv'
        obtain ⟨rfl, rfl⟩ := punct_inv d1 hok.left rfl
        obtain ⟨rfl, rfl⟩ := punct_inv d2 hok.right rfl
        exact ⟨[], rfl, rfl, fun _ h => by cases h⟩
      · obtain ⟨t1, t2, o1, o2, rfl, rfl, d1, d2⟩ := h.seq_inv'
        obtain ⟨t3, t4, o3, o4, rfl, rfl, d3, d4⟩ := d2.seq_inv'
        obtain ⟨rfl, rfl⟩ := punct_inv d1 hok.left rfl
        obtain ⟨rfl, rfl⟩ := punct_inv d4 hok.right.right rfl
        obtain ⟨parts, _, rfl, rfl, hp⟩ := d3.plus_parts
        exact ⟨parts, by simp, by simp, hp⟩
  cases c with
  | true => exact lit h.nt_inv
  | false =>
    rcases h.nt_inv.alt_inv with h | h
    · obtain ⟨t1, t2, o1, o2, rfl, rfl, d1, d2⟩ := h.nt_inv.seq_inv'
      obtain ⟨rfl, rfl⟩ := punct_inv d1 hok.left rfl
      obtain ⟨n, rfl, rfl⟩ := name_inv d2
      exact .inl ⟨rfl, n, rfl, rfl⟩
    · exact lit h

/-- the first token of a value -/
theorem first_value {c : Bool} {ts o : List Tok} (h : D (.nt (.value c)) ts o) (hok : TsOK ts) :
    ∃ t rest, ts = t :: rest ∧ t.kind ∈ valueStart := by
  rcases inv_value h hok with ⟨_, n, rfl, _⟩ | ⟨t, rfl, _, hk⟩ | ⟨parts, rfl, _, _⟩ | ⟨parts, rfl, _, _⟩
  · exact ⟨_, _, rfl, by simp [valueStart, tP]⟩
  · exact ⟨t, [], rfl, by rcases hk with h | h | h | h | h <;> simp [valueStart, h]⟩
  · exact ⟨_, _, rfl, by simp [valueStart, tP]⟩
  · exact ⟨_, _, rfl, by simp [valueStart, tP]⟩

theorem inv_objectField {c : Bool} {ts o : List Tok} (h : D (.nt (.objectField c)) ts o) (hok : TsOK ts) :
    ∃ n tv ov, ts = tName n :: tP .colon :: tv ∧ o = tName n :: tP .colon :: ov ∧ D (.nt (.value c)) tv ov := by
  obtain ⟨t1, t2, o1, o2, rfl, rfl, d1, d2⟩ := h.nt_inv.seq_inv'
  obtain ⟨t3, t4, o3, o4, rfl, rfl, d3, d4⟩ := d2.seq_inv'
  obtain ⟨n, rfl, rfl⟩ := name_inv d1
  obtain ⟨rfl, rfl⟩ := punct_inv d3 hok.right.left rfl
  exact ⟨n, t4, o4, rfl, rfl, d4⟩

theorem toList_ofList (vs : List (Name × Value × Pos)) : (Children.ofList vs).toList = vs := by
  induction vs with
  | nil => rfl
  | cons x vs ih => obtain ⟨n, v, p⟩ := x; simp [Children.ofList, Children.toList, ih]

/-- what the value parser does on a derivable token list -/
def CplValue (c : Bool) (n : Nat) : Prop :=
  ∀ (ts o : List Tok), TsOK ts → D (.nt (.value c)) ts o → ∀ (a : AS) (σ' : Stream), Starts a.σ ts σ' →
    Fwd (parseValueLiteral n c) a (fun v a' => printValue v = o ∧ a'.σ = σ')

theorem cpl_value (c : Bool) : ∀ n, CplValue c n
  | 0 => fun _ _ _ _ _ _ _ => Fwd.outOfFuel _ _ _
  | n + 1 => by
    have ih := cpl_value c n
    intro ts o hok hd a σ' hs
    rcases inv_value hd hok with ⟨hc, nm, rfl, rfl⟩ | ⟨t, rfl, rfl, hk⟩ | ⟨parts, rfl, rfl, hp⟩ | ⟨parts, rfl, rfl, hp⟩
    · subst hc
      unfold parseValueLiteral
      refine Fwd.bind (fwd_peek a) ?_
      rintro token a1 ⟨rfl, rfl⟩
      refine Fwd.bind (fwd_getSrc _) ?_
      rintro src a2 rfl
      have hk : a.σ.head.kind = .dollar := hs.head_kind
      simp only [hk]
      refine Fwd.ite_neg (by simp) (Fwd.bind (fwd_parseVariable nm hs) ?_)
      rintro r a3 ⟨rfl, hσ⟩
      exact (Fwd.pure _ _).mono fun _ _ h => ⟨by rw [h.1]; rfl, by rw [h.2, hσ]⟩
    · obtain ⟨u, hσ, hu⟩ := hs.single
      have hku : u.kind = t.kind := ofToken_kind hu
      refine (fwd_scalarToken c n hσ (by rw [hku]; exact hk)).mono ?_
      rintro v a' ⟨hv, hσ'⟩
      refine ⟨?_, hσ'⟩
      obtain ⟨k, raw, ch, p⟩ := v
      simp only [Value.erasePos, Value.mk.injEq] at hv
      obtain ⟨rfl, rfl, hch, _⟩ := hv
      have hnil : ch = .nil := by cases ch <;> simp_all [Children.erasePos]
      subst hnil
      have hval : u.value = t.value := ofToken_value hu
      cases t with
      | mk tkk tv =>
        simp only at hk hku hval
        rcases hk with h | h | h | h | h <;> subst h
        · simp [litKind, hku, printValue, hval]
        · simp [litKind, hku, printValue, hval]
        · simp [litKind, hku, printValue, hval]
        · simp [litKind, hku, printValue, hval]
        · simp only [litKind, hku]
          rw [printValue_name, hval]; rfl
    · -- list
      unfold parseValueLiteral
      refine Fwd.bind (fwd_peek a) ?_
      rintro token a1 ⟨rfl, rfl⟩
      refine Fwd.bind (fwd_getSrc _) ?_
      rintro src a2 rfl
      have hk : a.σ.head.kind = .bracketL := hs.head_kind
      simp only [hk]
      unfold parseListWith
      refine Fwd.bind (fwd_peekPos _) ?_
      rintro pos a3 rfl
      have hokp : ∀ p ∈ parts, TsOK p.1 := (hok.tail.left).of_flatMap
      have hb := (fwd_bracketG (·.1) (fun (y : Name × Value × Pos) (p : List Tok × List Tok) => printValue y.2.1 = p.2)
        (fun _ => True) .bracketL .bracketR
        (cb := parseValueLiteral n c >>= fun v => Pure.pure (([] : Name), v, Pos.zero)) parts
        (fun p hpm a0 σ1 hst _ => by
          refine Fwd.bind (ih p.1 p.2 (hokp p hpm) (hp p hpm) a0 σ1 hst) ?_
          rintro v' a4 ⟨hv, hσ⟩
          refine (Fwd.pure _ _).mono ?_
          rintro y a5 ⟨rfl, rfl⟩
          exact ⟨hv, hσ⟩)
        (fun p hpm => by
          obtain ⟨t, rest, h1, h2⟩ := first_value (hp p hpm) (hokp p hpm)
          exact ⟨t, rest, h1, by intro e; rw [e] at h2; simp [valueStart] at h2⟩)
        (fun _ _ => trivial) (n + 1) { pk := true, σ := a.σ, cnt := a.cnt } σ' (tP .bracketL) (tP .bracketR) rfl rfl
        (by simpa using hs)).1
      refine Fwd.bind hb ?_
      rintro ys a4 ⟨hy, hσ⟩
      refine (Fwd.pure _ _).mono ?_
      rintro v' a5 ⟨rfl, rfl⟩
      refine ⟨?_, hσ⟩
      simp only [printValue, printItems_eq, toList_ofList]
      rw [flatMap_forall₂ (P := fun (y : Name × Value × Pos) => printValue y.2.1) (g := fun (p : List Tok × List Tok) => p.2) hy]
    · -- object
      unfold parseValueLiteral
      refine Fwd.bind (fwd_peek a) ?_
      rintro token a1 ⟨rfl, rfl⟩
      refine Fwd.bind (fwd_getSrc _) ?_
      rintro src a2 rfl
      have hk : a.σ.head.kind = .braceL := hs.head_kind
      simp only [hk]
      unfold parseObjectWith
      refine Fwd.bind (fwd_peekPos _) ?_
      rintro pos a3 rfl
      have hokp : ∀ p ∈ parts, TsOK p.1 := (hok.tail.left).of_flatMap
      have hb := (fwd_bracketG (·.1)
        (fun (y : Name × Value × Pos) (p : List Tok × List Tok) => tName y.1 :: tP .colon :: printValue y.2.1 = p.2)
        (fun _ => True) .braceL .braceR
        (cb := parseObjectFieldWith (parseValueLiteral n c)) parts
        (fun p hpm a0 σ1 hst _ => by
          obtain ⟨nm, tv, ov, e1, e2, dv⟩ := inv_objectField (hp p hpm) (hokp p hpm)
          rw [e1] at hst
          obtain ⟨σa, h1, hst⟩ := hst.cons_single
          obtain ⟨σb, h2, h3⟩ := hst.cons_single
          unfold parseObjectFieldWith
          refine Fwd.bind (fwd_peekPos _) ?_
          rintro pos' b1 rfl
          refine Fwd.bind (fwd_parseName nm h1) ?_
          rintro nm' b2 ⟨rfl, hσ2⟩
          refine Fwd.bind (fwd_punct .colon (by rw [hσ2]; exact h2)) ?_
          rintro _ b3 hσ3
          have hokv : TsOK tv := by have := hokp p hpm; rw [e1] at this; exact this.tail.tail
          refine Fwd.bind (ih tv ov hokv dv b3 σ1 (by rw [hσ3]; exact h3)) ?_
          rintro v' b4 ⟨hv, hσ⟩
          refine (Fwd.pure _ _).mono ?_
          rintro y b5 ⟨rfl, rfl⟩
          exact ⟨by simp [hv, e2], hσ⟩)
        (fun p hpm => by
          obtain ⟨nm, tv, ov, e1, _, _⟩ := inv_objectField (hp p hpm) (hokp p hpm)
          exact ⟨_, _, e1, by simp [tName]⟩)
        (fun _ _ => trivial) (n + 1) { pk := true, σ := a.σ, cnt := a.cnt } σ' (tP .braceL) (tP .braceR) rfl rfl
        (by simpa using hs)).1
      refine Fwd.bind hb ?_
      rintro ys a4 ⟨hy, hσ⟩
      refine (Fwd.pure _ _).mono ?_
      rintro v' a5 ⟨rfl, rfl⟩
      refine ⟨?_, hσ⟩
      simp only [printValue, printObjFields_eq, toList_ofList]
      rw [flatMap_forall₂ (P := fun (y : Name × Value × Pos) => tName y.1 :: tP .colon :: printValue y.2.1) (g := fun (p : List Tok × List Tok) => p.2) hy]

/-! ### arguments and directives -/

theorem inv_argument {c : Bool} {ts o : List Tok} (h : D (.nt (.argument c)) ts o) (hok : TsOK ts) :
    ∃ n tv ov, ts = tName n :: tP .colon :: tv ∧ o = tName n :: tP .colon :: ov ∧ D (.nt (.value c)) tv ov := by
  obtain ⟨t1, t2, o1, o2, rfl, rfl, d1, d2⟩ := h.nt_inv.seq_inv'
  obtain ⟨t3, t4, o3, o4, rfl, rfl, d3, d4⟩ := d2.seq_inv'
  obtain ⟨n, rfl, rfl⟩ := name_inv d1
  obtain ⟨rfl, rfl⟩ := punct_inv d3 hok.right.left rfl
  exact ⟨n, t4, o4, rfl, rfl, d4⟩

/-- a bracketed non-empty list `start item+ stop`, or nothing -/
def OptBlockShape (start stop : Kind) (item : Sym NT) (ts o : List Tok) : Prop :=
  (ts = [] ∧ o = []) ∨ ∃ parts : List (List Tok × List Tok), parts ≠ [] ∧
    ts = tP start :: parts.flatMap (·.1) ++ [tP stop] ∧ o = tP start :: parts.flatMap (·.2) ++ [tP stop] ∧
    ∀ p ∈ parts, D item p.1 p.2

theorem inv_block {start stop : Kind} {item : Sym NT} {ts o : List Tok}
    (h : D (.seq (Grammar.kind start) (.seq (.plus item) (Grammar.kind stop))) ts o) (hok : TsOK ts)
    (h1 : start.valued = false) (h2 : stop.valued = false) :
    ∃ parts : List (List Tok × List Tok), parts ≠ [] ∧
      ts = tP start :: parts.flatMap (·.1) ++ [tP stop] ∧ o = tP start :: parts.flatMap (·.2) ++ [tP stop] ∧
      ∀ p ∈ parts, D item p.1 p.2 := by
  obtain ⟨t1, t2, o1, o2, rfl, rfl, d1, d2⟩ := h.seq_inv'
  obtain ⟨t3, t4, o3, o4, rfl, rfl, d3, d4⟩ := d2.seq_inv'
  obtain ⟨rfl, rfl⟩ := punct_inv d1 hok.left h1
  obtain ⟨rfl, rfl⟩ := punct_inv d4 hok.right.right h2
  obtain ⟨parts, hne, rfl, rfl, hp⟩ := d3.plus_parts
  exact ⟨parts, hne, by simp, by simp, hp⟩

theorem inv_optArguments {c : Bool} {ts o : List Tok} (h : D (.opt (.nt (.arguments c))) ts o) (hok : TsOK ts) :
    OptBlockShape .parenL .parenR (.nt (.argument c)) ts o := by
  rcases h.opt_inv with h | h
  · exact .inl h
  · exact .inr (inv_block h.nt_inv hok rfl rfl)

theorem printArguments_cons {as : List Argument} (h : as ≠ []) :
    printArguments as = tP .parenL :: as.flatMap printArgument ++ [tP .parenR] := by
  cases as with
  | nil => exact absurd rfl h
  | cons x r => simp [printArguments]

theorem all₂_ne {α ι : Type} {R : α → ι → Prop} {ys : List α} {xs : List ι} (h : All₂ R ys xs) (hne : xs ≠ []) : ys ≠ [] := by
  cases h with
  | nil => exact absurd rfl hne
  | cons _ _ => simp

theorem cpl_argument (c : Bool) (n : Nat) (ts o : List Tok) (hok : TsOK ts) (hd : D (.nt (.argument c)) ts o) (a : AS) (σ1 : Stream)
    (hs : Starts a.σ ts σ1) : Fwd (parseArgument n c) a (fun y a' => printArgument y = o ∧ a'.σ = σ1) := by
  obtain ⟨nm, tv, ov, rfl, rfl, dv⟩ := inv_argument hd hok
  obtain ⟨σa, h1, hs⟩ := hs.cons_single
  obtain ⟨σb, h2, h3⟩ := hs.cons_single
  unfold parseArgument
  refine Fwd.bind (fwd_peekPos _) ?_
  rintro pos b1 rfl
  refine Fwd.bind (fwd_parseName nm h1) ?_
  rintro nm' b2 ⟨rfl, hσ2⟩
  refine Fwd.bind (fwd_punct .colon (by rw [hσ2]; exact h2)) ?_
  rintro _ b3 hσ3
  refine Fwd.bind (cpl_value c n tv ov hok.tail.tail dv b3 σ1 (by rw [hσ3]; exact h3)) ?_
  rintro v' b4 ⟨hv, hσ⟩
  refine (Fwd.pure _ _).mono ?_
  rintro y b5 ⟨rfl, rfl⟩
  exact ⟨by simp [printArgument, hv], hσ⟩

/-- `Arguments[Const]?` -/
theorem cpl_arguments (c : Bool) (n : Nat) (ts o : List Tok) (hok : TsOK ts) (hd : D (.opt (.nt (.arguments c))) ts o)
    (a : AS) (σ' : Stream) (hs : Starts a.σ ts σ') (hfol : σ'.head.kind ≠ .parenL) :
    Fwd (parseArguments n c) a (fun as a' => printArguments as = o ∧ a'.σ = σ') := by
  unfold parseArguments
  rcases inv_optArguments hd hok with ⟨rfl, rfl⟩ | ⟨parts, hne, rfl, rfl, hp⟩
  · rw [Starts.nil_iff] at hs
    refine (fwd_bracket_absent .parenL .parenR n a (by rw [hs]; exact hfol)).2.mono ?_
    rintro ys a' ⟨rfl, hσ⟩
    exact ⟨rfl, by rw [hσ, hs]⟩
  · have hokp : ∀ p ∈ parts, TsOK p.1 := (hok.tail.left).of_flatMap
    refine ((fwd_bracketG (·.1) (fun (y : Argument) (p : List Tok × List Tok) => printArgument y = p.2) (fun _ => True)
      .parenL .parenR parts
      (fun p hpm a0 σ1 hst _ => cpl_argument c n p.1 p.2 (hokp p hpm) (hp p hpm) a0 σ1 hst)
      (fun p hpm => by
        obtain ⟨nm, tv, ov, e1, _, _⟩ := inv_argument (hp p hpm) (hokp p hpm)
        exact ⟨_, _, e1, by simp [tName]⟩)
      (fun _ _ => trivial) n a σ' (tP .parenL) (tP .parenR) rfl rfl (by simpa using hs)).2 hne).mono ?_
    rintro ys a' ⟨hy, hσ⟩
    refine ⟨?_, hσ⟩
    rw [printArguments_cons (all₂_ne hy hne), flatMap_forall₂ (P := printArgument) (g := fun (p : List Tok × List Tok) => p.2) hy]

theorem inv_directive {c : Bool} {ts o : List Tok} (h : D (.nt (.directive c)) ts o) (hok : TsOK ts) :
    ∃ nm ta oa, ts = tP .at :: tName nm :: ta ∧ o = tP .at :: tName nm :: oa ∧ D (.opt (.nt (.arguments c))) ta oa := by
  obtain ⟨t1, t2, o1, o2, rfl, rfl, d1, d2⟩ := h.nt_inv.seq_inv'
  obtain ⟨t3, t4, o3, o4, rfl, rfl, d3, d4⟩ := d2.seq_inv'
  obtain ⟨rfl, rfl⟩ := punct_inv d1 hok.left rfl
  obtain ⟨nm, rfl, rfl⟩ := name_inv d3
  exact ⟨nm, t4, o4, rfl, rfl, d4⟩

theorem cpl_directive (c : Bool) (n : Nat) (ts o : List Tok) (hok : TsOK ts) (hd : D (.nt (.directive c)) ts o) (a : AS)
    (σ' : Stream) (hs : Starts a.σ ts σ') (hfol : σ'.head.kind ≠ .parenL) :
    Fwd (parseDirective n c) a (fun y a' => printDirective y = o ∧ a'.σ = σ') := by
  obtain ⟨nm, ta, oa, rfl, rfl, da⟩ := inv_directive hd hok
  obtain ⟨σa, h1, hs⟩ := hs.cons_single
  obtain ⟨σb, h2, h3⟩ := hs.cons_single
  unfold parseDirective
  refine Fwd.bind (fwd_punct .at h1) ?_
  rintro _ b1 hσ1
  refine Fwd.bind (fwd_peekPos _) ?_
  rintro pos b2 rfl
  refine Fwd.bind (fwd_parseName nm (by simpa [hσ1] using h2)) ?_
  rintro nm' b3 ⟨rfl, hσ3⟩
  refine Fwd.bind (cpl_arguments c n ta oa hok.tail.tail da b3 σ' (by rw [hσ3]; exact h3) hfol) ?_
  rintro as' b4 ⟨has, hσ⟩
  refine (Fwd.pure _ _).mono ?_
  rintro y b5 ⟨rfl, rfl⟩
  exact ⟨by simp [printDirective, has], hσ⟩

/-- the iterations of `Directives[Const]?` -/
theorem inv_optDirectives {c : Bool} {ts o : List Tok} (h : D (.opt (.nt (.directives c))) ts o) :
    ∃ parts : List (List Tok × List Tok), ts = parts.flatMap (·.1) ∧ o = parts.flatMap (·.2) ∧
      ∀ p ∈ parts, D (.nt (.directive c)) p.1 p.2 := by
  rcases h.opt_inv with ⟨rfl, rfl⟩ | h
  · exact ⟨[], rfl, rfl, fun _ h => by cases h⟩
  · obtain ⟨parts, _, e1, e2, hp⟩ := h.nt_inv.plus_parts
    exact ⟨parts, e1, e2, hp⟩

theorem first_directive {c : Bool} {ts o : List Tok} (h : D (.nt (.directive c)) ts o) (hok : TsOK ts) :
    ∃ rest, ts = tP .at :: rest := by
  obtain ⟨nm, ta, oa, e, _, _⟩ := inv_directive h hok
  exact ⟨_, e⟩

/-- the first token of `Directives?`: none, or `@` -/
theorem firstKind_optDirectives {c : Bool} {ts o : List Tok} (h : D (.opt (.nt (.directives c))) ts o) (hok : TsOK ts) (k : Kind) :
    firstKind ts k = k ∨ firstKind ts k = .at := by
  obtain ⟨parts, rfl, _, hp⟩ := inv_optDirectives h
  cases parts with
  | nil => exact .inl rfl
  | cons p r =>
    obtain ⟨rest, e⟩ := first_directive (hp p (by simp)) (hok.of_flatMap p (by simp))
    right
    simp [List.flatMap_cons, e, tP]

theorem cpl_directivesLoop (c : Bool) (m : Nat) : ∀ (parts : List (List Tok × List Tok)),
    (∀ p ∈ parts, TsOK p.1 ∧ D (.nt (.directive c)) p.1 p.2) →
    ∀ (n : Nat) (acc : List Directive) (a : AS) (σ' : Stream), Starts a.σ (parts.flatMap (·.1)) σ' →
      σ'.head.kind ≠ .at → σ'.head.kind ≠ .parenL →
      Fwd (directivesLoop (parseDirective m c) n acc) a
        (fun ys a' => (∃ zs, ys = zs.reverse ++ acc ∧ printDirectives zs = parts.flatMap (·.2)) ∧ a'.σ = σ')
  | [], _ => by
    intro n acc a σ' hs h1 _
    rw [List.flatMap_nil, Starts.nil_iff] at hs
    cases n with
    | zero => exact Fwd.outOfFuel _ _ _
    | succ n =>
      unfold directivesLoop
      refine Fwd.bind (fwd_peek a) ?_
      rintro t a1 ⟨rfl, rfl⟩
      refine Fwd.ite_neg (by rw [hs]; exact h1) ((Fwd.pure _ _).mono ?_)
      rintro ys a' ⟨rfl, rfl⟩
      exact ⟨⟨[], by simp, rfl⟩, hs⟩
  | p :: parts, hp => by
    intro n acc a σ' hs h1 h2
    rw [List.flatMap_cons, Starts.append_iff] at hs
    obtain ⟨σm, hd, hrest⟩ := hs
    obtain ⟨hokp, hdp⟩ := hp p (by simp)
    obtain ⟨rest, e⟩ := first_directive hdp hokp
    cases n with
    | zero => exact Fwd.outOfFuel _ _ _
    | succ n =>
      unfold directivesLoop
      refine Fwd.bind (fwd_peek a) ?_
      rintro t a1 ⟨rfl, rfl⟩
      have hk : a.σ.head.kind = .at := by rw [e] at hd; exact hd.head_kind
      refine Fwd.ite_pos hk (Fwd.bind (fwd_hasErr _) ?_)
      rintro e' a2 ⟨rfl, rfl⟩
      have hm : σm.head.kind ≠ .parenL := by
        cases parts with
        | nil =>
          rw [List.flatMap_nil, Starts.nil_iff] at hrest
          rw [hrest]; exact h2
        | cons p2 r =>
          obtain ⟨rest2, e2⟩ := first_directive (hp p2 (by simp)).2 (hp p2 (by simp)).1
          rw [List.flatMap_cons, e2, List.cons_append] at hrest
          rw [hrest.head_kind]; simp [tP]
      refine Fwd.ite_neg (by simp) (Fwd.bind (cpl_directive c m p.1 p.2 hokp hdp _ σm hd hm) ?_)
      rintro y a3 ⟨hy, hσ3⟩
      refine (cpl_directivesLoop c m parts (fun q hq => hp q (by simp [hq])) n (y :: acc) a3 σ'
        (by rw [hσ3]; exact hrest) h1 h2).mono ?_
      rintro ys a' ⟨⟨zs, e1, e2⟩, e3⟩
      exact ⟨⟨y :: zs, by rw [e1]; simp, by simp [printDirectives, hy, ← e2]⟩, e3⟩

/-- `Directives[Const]?` -/
theorem cpl_directives (c : Bool) (n : Nat) (ts o : List Tok) (hok : TsOK ts) (hd : D (.opt (.nt (.directives c))) ts o)
    (a : AS) (σ' : Stream) (hs : Starts a.σ ts σ') (h1 : σ'.head.kind ≠ .at) (h2 : σ'.head.kind ≠ .parenL) :
    Fwd (parseDirectives n c) a (fun ds a' => printDirectives ds = o ∧ a'.σ = σ') := by
  obtain ⟨parts, rfl, rfl, hp⟩ := inv_optDirectives hd
  unfold parseDirectives
  refine Fwd.bind (cpl_directivesLoop c n parts (fun p hpm => ⟨hok.of_flatMap p hpm, hp p hpm⟩) n [] a σ' hs h1 h2) ?_
  rintro ys a1 ⟨⟨zs, rfl, hz⟩, hσ⟩
  refine (Fwd.pure _ _).mono ?_
  rintro ws a' ⟨rfl, rfl⟩
  exact ⟨by simpa using hz, hσ⟩

end Gql.Parser
