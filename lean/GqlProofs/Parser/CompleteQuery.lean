import GqlProofs.Parser.FwdG
import GqlProofs.Parser.FwdQuery
/-
  Completeness of the query parser, driven by derivations: if a stream starts with a token list
  that the grammar derives from a nonterminal (with canonical output `o`), the run of the
  corresponding parser program ends live, consumes exactly those tokens, and the unparse of its
  result is `o`.  (Consequences: every derivable lexable input is accepted, and every canonical
  output of the input's token sequence is the unparse of the tree.)

  The tokens are of lexer shape (`TsOK`: punctuators have the empty value).
-/
namespace Gql.Parser
open Gql Gql.Lexer Gql.Grammar Gql.Print

local notation "D" => Derives gql

/-! ### single tokens -/

theorem fwd_expectTok {a : AS} {σ' : Stream} (k : Kind) (t : Tok) (hk : t.kind = k) (h : Starts a.σ [t] σ') :
    Fwd (expect k) a (fun x a' => Tok.ofToken x = t ∧ a'.σ = σ') := by
  obtain ⟨u, hσ, hu⟩ := h.single
  exact (fwd_expect k hσ (by rw [ofToken_kind hu]; exact hk)).mono fun _ _ h => ⟨by rw [h.1]; exact hu, by rw [h.2]⟩

/-! ### values -/

/-- the shapes of a `Value[Const]` sentence -/
def ValShape (c : Bool) (ts o : List Tok) : Prop :=
    (c = false ∧ ∃ n, ts = [tP .dollar, tName n] ∧ o = [tP .dollar, tName n]) ∨
    (∃ t, ts = [t] ∧ o = [t] ∧ (t.kind = .int ∨ t.kind = .float ∨ t.kind = .string ∨ t.kind = .blockString ∨ t.kind = .name)) ∨
    (∃ parts : List (List Tok × List Tok), ts = tP .bracketL :: parts.flatMap (·.1) ++ [tP .bracketR] ∧
      o = tP .bracketL :: parts.flatMap (·.2) ++ [tP .bracketR] ∧ ∀ p ∈ parts, D (.nt (.value c)) p.1 p.2) ∨
    (∃ parts : List (List Tok × List Tok), ts = tP .braceL :: parts.flatMap (·.1) ++ [tP .braceR] ∧
      o = tP .braceL :: parts.flatMap (·.2) ++ [tP .braceR] ∧ ∀ p ∈ parts, D (.nt (.objectField c)) p.1 p.2)

theorem inv_value {c : Bool} {ts o : List Tok} (h : D (.nt (.value c)) ts o) (hok : TsOK ts) : ValShape c ts o := by
  have lit : D (literal c) ts o → ValShape c ts o := fun h => by
    rcases h.alt_inv with h | h
    · obtain ⟨t, e1, e2, hk⟩ := kind_inv h
      exact Or.inr (Or.inl ⟨t, e1, e2, .inl hk⟩)
    rcases h.alt_inv with h | h
    · obtain ⟨t, e1, e2, hk⟩ := kind_inv h
      exact Or.inr (Or.inl ⟨t, e1, e2, .inr (.inl hk)⟩)
    rcases h.alt_inv with h | h
    · obtain ⟨t, e1, e2, hp⟩ := h.tok_inv
      simp only [Bool.or_eq_true, beq_iff_eq] at hp
      exact Or.inr (Or.inl ⟨t, e1, e2, by rcases hp with hp | hp <;> simp [hp]⟩)
    rcases h.alt_inv with h | h
    · rcases h.nt_inv.alt_inv with h | h <;>
      · obtain ⟨t, e1, e2, hp⟩ := h.tok_inv
        simp only [Bool.and_eq_true, beq_iff_eq] at hp
        exact Or.inr (Or.inl ⟨t, e1, e2, by simp [hp.1]⟩)
    rcases h.alt_inv with h | h
    · obtain ⟨t, e1, e2, hp⟩ := h.nt_inv.tok_inv
      simp only [Bool.and_eq_true, beq_iff_eq] at hp
      exact Or.inr (Or.inl ⟨t, e1, e2, by simp [hp.1]⟩)
    rcases h.alt_inv with h | h
    · obtain ⟨t, e1, e2, hp⟩ := h.nt_inv.tok_inv
      simp only [Bool.and_eq_true, beq_iff_eq] at hp
      exact Or.inr (Or.inl ⟨t, e1, e2, by simp [hp.1]⟩)
    rcases h.alt_inv with h | h
    · -- list
      refine Or.inr (Or.inr (Or.inl ?_))
      rcases h.nt_inv.alt_inv with h | h
      · obtain ⟨t1, t2, o1, o2, rfl, rfl, d1, d2⟩ := h.seq_inv'
        obtain ⟨rfl, rfl⟩ := punct_inv d1 hok.left rfl
        obtain ⟨rfl, rfl⟩ := punct_inv d2 hok.right rfl
        exact ⟨[], rfl, rfl, fun _ h => by cases h⟩
      · obtain ⟨t1, t2, o1, o2, rfl, rfl, d1, d2⟩ := h.seq_inv'
        obtain ⟨t3, t4, o3, o4, rfl, rfl, d3, d4⟩ := d2.seq_inv'
        obtain ⟨rfl, rfl⟩ := punct_inv d1 hok.left rfl
        obtain ⟨rfl, rfl⟩ := punct_inv d4 hok.right.right rfl
        obtain ⟨parts, _, rfl, rfl, hp⟩ := d3.plus_parts
        exact ⟨parts, by simp, by simp, hp⟩
    · -- object
      refine Or.inr (Or.inr (Or.inr ?_))
      rcases h.nt_inv.alt_inv with h | h
      · obtain ⟨t1, t2, o1, o2, rfl, rfl, d1, d2⟩ := h.seq_inv'
        obtain ⟨rfl, rfl⟩ := punct_inv d1 hok.left rfl
        obtain ⟨rfl, rfl⟩ := punct_inv d2 hok.right rfl
        exact ⟨[], rfl, rfl, fun _ h => by cases h⟩
      · obtain ⟨t1, t2, o1, o2, rfl, rfl, d1, d2⟩ := h.seq_inv'
        obtain ⟨t3, t4, o3, o4, rfl, rfl, d3, d4⟩ := d2.seq_inv'
        obtain ⟨rfl, rfl⟩ := punct_inv d1 hok.left rfl
        obtain ⟨rfl, rfl⟩ := punct_inv d4 hok.right.right rfl
        obtain ⟨parts, _, rfl, rfl, hp⟩ := d3.plus_parts
        exact ⟨parts, by simp, by simp, hp⟩
  cases c with
  | true => exact lit h.nt_inv
  | false =>
    rcases h.nt_inv.alt_inv with h | h
    · obtain ⟨t1, t2, o1, o2, rfl, rfl, d1, d2⟩ := h.nt_inv.seq_inv'
      obtain ⟨rfl, rfl⟩ := punct_inv d1 hok.left rfl
      obtain ⟨n, rfl, rfl⟩ := name_inv d2
      exact .inl ⟨rfl, n, rfl, rfl⟩
    · exact lit h

/-- the first token of a value -/
theorem first_value {c : Bool} {ts o : List Tok} (h : D (.nt (.value c)) ts o) (hok : TsOK ts) :
    ∃ t rest, ts = t :: rest ∧ t.kind ∈ valueStart := by
  rcases inv_value h hok with ⟨_, n, rfl, _⟩ | ⟨t, rfl, _, hk⟩ | ⟨parts, rfl, _, _⟩ | ⟨parts, rfl, _, _⟩
  · exact ⟨_, _, rfl, by simp [valueStart, tP]⟩
  · exact ⟨t, [], rfl, by rcases hk with h | h | h | h | h <;> simp [valueStart, h]⟩
  · exact ⟨_, _, rfl, by simp [valueStart, tP]⟩
  · exact ⟨_, _, rfl, by simp [valueStart, tP]⟩

theorem inv_objectField {c : Bool} {ts o : List Tok} (h : D (.nt (.objectField c)) ts o) (hok : TsOK ts) :
    ∃ n tv ov, ts = tName n :: tP .colon :: tv ∧ o = tName n :: tP .colon :: ov ∧ D (.nt (.value c)) tv ov := by
  obtain ⟨t1, t2, o1, o2, rfl, rfl, d1, d2⟩ := h.nt_inv.seq_inv'
  obtain ⟨t3, t4, o3, o4, rfl, rfl, d3, d4⟩ := d2.seq_inv'
  obtain ⟨n, rfl, rfl⟩ := name_inv d1
  obtain ⟨rfl, rfl⟩ := punct_inv d3 hok.right.left rfl
  exact ⟨n, t4, o4, rfl, rfl, d4⟩

theorem toList_ofList (vs : List (Name × Value × Pos)) : (Children.ofList vs).toList = vs := by
  induction vs with
  | nil => rfl
  | cons x vs ih => obtain ⟨n, v, p⟩ := x; simp [Children.ofList, Children.toList, ih]

/-- what the value parser does on a derivable token list -/
def CplValue (c : Bool) (n : Nat) : Prop :=
  ∀ (ts o : List Tok), TsOK ts → D (.nt (.value c)) ts o → ∀ (a : AS) (σ' : Stream), Starts a.σ ts σ' →
    Fwd (parseValueLiteral n c) a (fun v a' => printValue v = o ∧ a'.σ = σ')

theorem cpl_value (c : Bool) : ∀ n, CplValue c n
  | 0 => fun _ _ _ _ _ _ _ => Fwd.outOfFuel _ _ _
  | n + 1 => by
    have ih := cpl_value c n
    intro ts o hok hd a σ' hs
    rcases inv_value hd hok with ⟨hc, nm, rfl, rfl⟩ | ⟨t, rfl, rfl, hk⟩ | ⟨parts, rfl, rfl, hp⟩ | ⟨parts, rfl, rfl, hp⟩
    · subst hc
      unfold parseValueLiteral
      refine Fwd.bind (fwd_peek a) ?_
      rintro token a1 ⟨rfl, rfl⟩
      refine Fwd.bind (fwd_getSrc _) ?_
      rintro src a2 rfl
      have hk : a.σ.head.kind = .dollar := hs.head_kind
      simp only [hk]
      refine Fwd.ite_neg (by simp) (Fwd.bind (fwd_parseVariable nm hs) ?_)
      rintro r a3 ⟨rfl, hσ⟩
      exact (Fwd.pure _ _).mono fun _ _ h => ⟨by rw [h.1]; rfl, by rw [h.2, hσ]⟩
    · obtain ⟨u, hσ, hu⟩ := hs.single
      have hku : u.kind = t.kind := ofToken_kind hu
      refine (fwd_scalarToken c n hσ (by rw [hku]; exact hk)).mono ?_
      rintro v a' ⟨hv, hσ'⟩
      refine ⟨?_, hσ'⟩
      obtain ⟨k, raw, ch, p⟩ := v
      simp only [Value.erasePos, Value.mk.injEq] at hv
      obtain ⟨rfl, rfl, hch, _⟩ := hv
      have hnil : ch = .nil := by cases ch <;> simp_all [Children.erasePos]
      subst hnil
      have hval : u.value = t.value := ofToken_value hu
      cases t with
      | mk tkk tv =>
        simp only at hk hku hval
        rcases hk with h | h | h | h | h <;> subst h
        · simp [litKind, hku, printValue, hval]
        · simp [litKind, hku, printValue, hval]
        · simp [litKind, hku, printValue, hval]
        · simp [litKind, hku, printValue, hval]
        · simp only [litKind, hku]
          rw [printValue_name, hval]; rfl
    · -- list
      unfold parseValueLiteral
      refine Fwd.bind (fwd_peek a) ?_
      rintro token a1 ⟨rfl, rfl⟩
      refine Fwd.bind (fwd_getSrc _) ?_
      rintro src a2 rfl
      have hk : a.σ.head.kind = .bracketL := hs.head_kind
      simp only [hk]
      unfold parseListWith
      refine Fwd.bind (fwd_peekPos _) ?_
      rintro pos a3 rfl
      have hokp : ∀ p ∈ parts, TsOK p.1 := (hok.tail.left).of_flatMap
      have hb := (fwd_bracketG (·.1) (fun (y : Name × Value × Pos) (p : List Tok × List Tok) => printValue y.2.1 = p.2)
        (fun _ => True) .bracketL .bracketR
        (cb := parseValueLiteral n c >>= fun v => Pure.pure (([] : Name), v, Pos.zero)) parts
        (fun p hpm a0 σ1 hst _ => by
          refine Fwd.bind (ih p.1 p.2 (hokp p hpm) (hp p hpm) a0 σ1 hst) ?_
          rintro v' a4 ⟨hv, hσ⟩
          refine (Fwd.pure _ _).mono ?_
          rintro y a5 ⟨rfl, rfl⟩
          exact ⟨hv, hσ⟩)
        (fun p hpm => by
          obtain ⟨t, rest, h1, h2⟩ := first_value (hp p hpm) (hokp p hpm)
          exact ⟨t, rest, h1, by intro e; rw [e] at h2; simp [valueStart] at h2⟩)
        (fun _ _ => trivial) (n + 1) { pk := true, σ := a.σ, cnt := a.cnt } σ' (tP .bracketL) (tP .bracketR) rfl rfl
        (by simpa using hs)).1
      refine Fwd.bind hb ?_
      rintro ys a4 ⟨hy, hσ⟩
      refine (Fwd.pure _ _).mono ?_
      rintro v' a5 ⟨rfl, rfl⟩
      refine ⟨?_, hσ⟩
      simp only [printValue, printItems_eq, toList_ofList]
      rw [flatMap_forall₂ (P := fun (y : Name × Value × Pos) => printValue y.2.1) (g := fun (p : List Tok × List Tok) => p.2) hy]
    · -- object
      unfold parseValueLiteral
      refine Fwd.bind (fwd_peek a) ?_
      rintro token a1 ⟨rfl, rfl⟩
      refine Fwd.bind (fwd_getSrc _) ?_
      rintro src a2 rfl
      have hk : a.σ.head.kind = .braceL := hs.head_kind
      simp only [hk]
      unfold parseObjectWith
      refine Fwd.bind (fwd_peekPos _) ?_
      rintro pos a3 rfl
      have hokp : ∀ p ∈ parts, TsOK p.1 := (hok.tail.left).of_flatMap
      have hb := (fwd_bracketG (·.1)
        (fun (y : Name × Value × Pos) (p : List Tok × List Tok) => tName y.1 :: tP .colon :: printValue y.2.1 = p.2)
        (fun _ => True) .braceL .braceR
        (cb := parseObjectFieldWith (parseValueLiteral n c)) parts
        (fun p hpm a0 σ1 hst _ => by
          obtain ⟨nm, tv, ov, e1, e2, dv⟩ := inv_objectField (hp p hpm) (hokp p hpm)
          rw [e1] at hst
          obtain ⟨σa, h1, hst⟩ := hst.cons_single
          obtain ⟨σb, h2, h3⟩ := hst.cons_single
          unfold parseObjectFieldWith
          refine Fwd.bind (fwd_peekPos _) ?_
          rintro pos' b1 rfl
          refine Fwd.bind (fwd_parseName nm h1) ?_
          rintro nm' b2 ⟨rfl, hσ2⟩
          refine Fwd.bind (fwd_punct .colon (by rw [hσ2]; exact h2)) ?_
          rintro _ b3 hσ3
          have hokv : TsOK tv := by have := hokp p hpm; rw [e1] at this; exact this.tail.tail
          refine Fwd.bind (ih tv ov hokv dv b3 σ1 (by rw [hσ3]; exact h3)) ?_
          rintro v' b4 ⟨hv, hσ⟩
          refine (Fwd.pure _ _).mono ?_
          rintro y b5 ⟨rfl, rfl⟩
          exact ⟨by simp [hv, e2], hσ⟩)
        (fun p hpm => by
          obtain ⟨nm, tv, ov, e1, _, _⟩ := inv_objectField (hp p hpm) (hokp p hpm)
          exact ⟨_, _, e1, by simp [tName]⟩)
        (fun _ _ => trivial) (n + 1) { pk := true, σ := a.σ, cnt := a.cnt } σ' (tP .braceL) (tP .braceR) rfl rfl
        (by simpa using hs)).1
      refine Fwd.bind hb ?_
      rintro ys a4 ⟨hy, hσ⟩
      refine (Fwd.pure _ _).mono ?_
      rintro v' a5 ⟨rfl, rfl⟩
      refine ⟨?_, hσ⟩
      simp only [printValue, printObjFields_eq, toList_ofList]
      rw [flatMap_forall₂ (P := fun (y : Name × Value × Pos) => tName y.1 :: tP .colon :: printValue y.2.1) (g := fun (p : List Tok × List Tok) => p.2) hy]

end Gql.Parser
