import GqlProofs.Parser.Measure
import GqlProofs.Parser.Pulls
import GqlProofs.Lexer.TokFacts
/-
  The token stream ahead of a parser state.

  `rawS rest c` is the sequence of tokens (comments included) that repeated `readToken` calls
  produce from the lexer state `(rest, c)`, ending at the EOF token or at the first lexer error.
  `PState.raw` puts the look-ahead token in front of it; `Stream.sig` drops the comments.
  `abs s` is what the soundness proofs see of a state: whether the look-ahead is filled, the
  significant tokens ahead, and `tokenCount + number of raw tokens ahead` (a constant of every
  run that never consumes the EOF token).

  The lemmas `peek_abs` / `next_abs` are the parser-state ↔ remaining-token-list invariant;
  `lexAll_of_rawS` ties `rawS` to `Lexer.lexAll`.
-/
namespace Gql.Parser
open Gql Gql.Lexer

/-- what every lexer token satisfies: it is not `Invalid`, and a kind without text has no value -/
def TokOK (t : Token) : Prop :=
  t.kind ≠ .invalid ∧ (t.kind.valued = false → t.value = []) ∧ (t.kind = .name → t.value ≠ [])

inductive Stream
  | eof (t : Token)
  | err (e : LexErr)
  | cons (t : Token) (σ : Stream)
  deriving Inhabited

namespace Stream

def head : Stream → Token
  | .eof t => t
  | .err e => invalidTok e
  | .cons t _ => t

/-- number of tokens before the terminator -/
def len : Stream → Nat
  | .cons _ σ => σ.len + 1
  | _ => 0

/-- drop the comments -/
def sig : Stream → Stream
  | .cons t σ => if t.kind = .comment then σ.sig else .cons t σ.sig
  | x => x

/-- drop the leading comments -/
def skipC : Stream → Stream
  | .cons t σ => if t.kind = .comment then σ.skipC else .cons t σ
  | x => x

def app : List Token → Stream → Stream
  | [], σ => σ
  | t :: ts, σ => .cons t (app ts σ)

/-- the tokens before the terminator -/
def toks : Stream → List Token
  | .cons t σ => t :: σ.toks
  | _ => []

/-- the terminator -/
def term : Stream → Stream
  | .cons _ σ => σ.term
  | x => x

/-- the tokens are lexer tokens (`TokOK`), and none before the terminator is an EOF token -/
def NoEof : Stream → Prop
  | .cons t σ => (t.kind ≠ .eof ∧ TokOK t) ∧ NoEof σ
  | .eof t => t.kind = .eof
  | .err _ => True

theorem app_nil (σ : Stream) : app [] σ = σ := rfl
theorem app_cons (t : Token) (ts : List Token) (σ : Stream) : app (t :: ts) σ = .cons t (app ts σ) := rfl

theorem app_append (a b : List Token) (σ : Stream) : app (a ++ b) σ = app a (app b σ) := by
  induction a with
  | nil => rfl
  | cons t a ih => simp [app, ih]

theorem sig_skipC (σ : Stream) : σ.skipC.sig = σ.sig := by
  induction σ with
  | eof t => rfl
  | err e => rfl
  | cons t σ ih => simp only [skipC, sig]; split <;> simp [sig, *]

theorem skipC_of_head {σ : Stream} (h : σ.head.kind ≠ .comment) : σ.skipC = σ := by
  cases σ <;> simp_all [skipC, head]

theorem eq_app_toks (σ : Stream) : σ = app σ.toks σ.term := by
  induction σ with
  | eof t => rfl
  | err e => rfl
  | cons t σ ih => simp only [toks, term, app]; rw [← ih]

theorem len_eq_toks (σ : Stream) : σ.len = σ.toks.length := by
  induction σ <;> simp_all [len, toks]

theorem sig_toks (σ : Stream) : σ.sig.toks = σ.toks.filter (fun t => t.kind != .comment) := by
  induction σ with
  | eof t => rfl
  | err e => rfl
  | cons t σ ih =>
    simp only [sig, toks]
    by_cases h : t.kind = .comment <;> simp [h, toks, ih]

theorem sig_term (σ : Stream) : σ.sig.term = σ.term := by
  induction σ with
  | eof t => rfl
  | err e => rfl
  | cons t σ ih => simp only [sig, term]; split <;> simp [term, ih]

theorem toks_app (ts : List Token) (σ : Stream) : (app ts σ).toks = ts ++ σ.toks := by
  induction ts <;> simp_all [app, toks]

theorem term_app (ts : List Token) (σ : Stream) : (app ts σ).term = σ.term := by
  induction ts <;> simp_all [app, term]

theorem NoEof.sig {σ : Stream} (h : NoEof σ) : NoEof σ.sig := by
  induction σ with
  | eof t => exact h
  | err e => exact h
  | cons t σ ih =>
    simp only [Stream.sig]
    split
    · exact ih h.2
    · exact ⟨h.1, ih h.2⟩

theorem NoEof.of_app {ts : List Token} {σ : Stream} (h : NoEof (app ts σ)) : NoEof σ := by
  induction ts with
  | nil => exact h
  | cons t ts ih => exact ih h.2

/-- in a stream of lexer tokens, a head of kind EOF means the stream is at its end -/
theorem NoEof.eof_of_head {σ : Stream} (h : NoEof σ) (hk : σ.head.kind = .eof) : ∃ t, σ = .eof t := by
  cases σ with
  | eof t => exact ⟨t, rfl⟩
  | err e => simp [head, invalidTok] at hk
  | cons t σ => exact absurd hk h.1.1

end Stream

/-! ### the tokens ahead of a lexer state -/

def rawS (rest : Bytes) (c : Cur) : Stream :=
  match h : readToken rest c with
  | .err e => .err e
  | .tok t rest' c' => if hk : t.kind = .eof then .eof t else .cons t (rawS rest' c')
termination_by rest.length
decreasing_by
  have := readToken_progress rest c
  rw [h] at this
  exact this.2 hk

theorem rawS_err {rest : Bytes} {c : Cur} {e : LexErr} (h : readToken rest c = .err e) : rawS rest c = .err e := by
  rw [rawS]; split
  · rename_i e' h'; rw [h] at h'; cases h'; rfl
  · rename_i h'; rw [h] at h'; cases h'

theorem rawS_tok {rest : Bytes} {c : Cur} {t : Token} {rest' : Bytes} {c' : Cur}
    (h : readToken rest c = .tok t rest' c') :
    rawS rest c = if t.kind = .eof then .eof t else .cons t (rawS rest' c') := by
  rw [rawS]; split
  · rename_i h'; rw [h] at h'; cases h'
  · rename_i t1 r1 c1 h'; rw [h] at h'; cases h'; rfl

theorem rawS_noEof (rest : Bytes) (c : Cur) : (rawS rest c).NoEof := by
  induction hn : rest.length using Nat.strongRecOn generalizing rest c with
  | _ n ih =>
    cases h : readToken rest c with
    | err e => rw [rawS_err h]; trivial
    | tok t rest' c' =>
      rw [rawS_tok h]
      by_cases hk : t.kind = .eof
      · rw [if_pos hk]; exact hk
      · rw [if_neg hk]
        have hp := readToken_progress rest c
        have ho := readToken_okAt rest c
        rw [h] at hp ho
        exact ⟨⟨hk, ho.2.2.2.1, ho.2.2.1, ho.2.2.2.2⟩, ih _ (by have := hp.2 hk; omega) _ _ rfl⟩

/-- rune offsets move forward: every token ahead starts at or after the cursor, and the starts
    are strictly increasing -/
theorem rawS_sorted (rest : Bytes) (c : Cur) :
    (∀ t ∈ (rawS rest c).toks, c.endR ≤ t.start) ∧ (rawS rest c).toks.Pairwise (fun a b => a.start < b.start) := by
  induction hn : rest.length using Nat.strongRecOn generalizing rest c with
  | _ n ih =>
    cases h : readToken rest c with
    | err e => rw [rawS_err h]; simp [Stream.toks]
    | tok t rest' c' =>
      rw [rawS_tok h]
      by_cases hk : t.kind = .eof
      · rw [if_pos hk]; simp [Stream.toks]
      · rw [if_neg hk]
        have hp := readToken_progress rest c
        have ho := readToken_okAt rest c
        rw [h] at hp ho
        obtain ⟨i1, i2⟩ := ih _ (by have := hp.2 hk; omega) rest' c' rfl
        have hlt : t.start < c'.endR := by
          rcases ho.2.1 with h' | h'
          · exact absurd h' hk
          · exact h'
        simp only [Stream.toks, List.mem_cons, forall_eq_or_imp, List.pairwise_cons]
        have hlo := ho.1
        refine ⟨⟨ho.1, fun u hu => ?_⟩, fun u hu => ?_, i2⟩
        · have := i1 u hu; omega
        · have := i1 u hu; omega

/-! ### `rawS` and `lexAll` -/

/-- what `lexFuel` returns when it walks the stream with accumulator `acc` -/
def Stream.out : Stream → List Token → LexOut
  | .eof t, acc => .done (t :: acc).reverse
  | .err e, acc => .fail acc.reverse e
  | .cons t σ, acc => σ.out (t :: acc)

theorem lexFuel_rawS (fuel : Nat) (rest : Bytes) (c : Cur) (acc : List Token) (hf : rest.length < fuel) :
    lexFuel fuel rest c acc = (rawS rest c).out acc := by
  induction fuel generalizing rest c acc with
  | zero => omega
  | succ fuel ih =>
    unfold lexFuel
    cases h : readToken rest c with
    | err e => rw [rawS_err h]; rfl
    | tok t rest' c' =>
      rw [rawS_tok h]
      by_cases hk : t.kind = .eof
      · simp [hk, Stream.out]
      · have hp := readToken_progress rest c
        rw [h] at hp
        simp only [hk, ↓reduceIte, Stream.out]
        exact ih _ _ _ (by have := hp.2 hk; omega)

theorem Stream.out_app (ts : List Token) (σ : Stream) (acc : List Token) :
    (Stream.app ts σ).out acc = σ.out (ts.reverse ++ acc) := by
  induction ts generalizing acc with
  | nil => rfl
  | cons t ts ih => simp [Stream.app, Stream.out, ih]

/-- a stream that ends in EOF is a complete `lexAll` -/
theorem lexAll_of_rawS {inp : Bytes} {ts : List Token} {t : Token} (h : rawS inp Cur.init = Stream.app ts (.eof t)) :
    lexAll inp = .done (ts ++ [t]) := by
  unfold lexAll
  rw [lexFuel_rawS _ _ _ _ (Nat.lt_succ_self _), h, Stream.out_app]
  simp [Stream.out]

/-! ### the tokens ahead of a parser state -/

/-- the raw tokens (comments included) that `next` has not yet consumed -/
def PState.raw (s : PState) : Stream :=
  if s.peeked then
    match s.peekErr with
    | some e => .err e
    | none => if s.peekTok.kind = .eof then .eof s.peekTok else .cons s.peekTok (rawS s.rest s.cur)
  else rawS s.rest s.cur

/-- what the soundness proofs see of a parser state -/
structure AS where
  pk : Bool
  σ : Stream
  cnt : Nat

def abs (s : PState) : AS := { pk := s.peeked, σ := s.raw.sig, cnt := s.tokenCount + s.raw.len }

/-- the look-ahead slot is consistent: an error comes with the `Invalid` token; a filled
    look-ahead (outside `consumeCommentGroup`) never holds a comment -/
def WF' (s : PState) : Prop :=
  s.peeked = true → (∀ e, s.peekErr = some e → s.peekTok = invalidTok e) ∧ (s.peekErr = none → TokOK s.peekTok)
def WF (s : PState) : Prop :=
  s.peeked = true → (∀ e, s.peekErr = some e → s.peekTok = invalidTok e) ∧
    (s.peekErr = none → s.peekTok.kind ≠ .comment ∧ TokOK s.peekTok)

theorem WF.wf' {s : PState} (h : WF s) : WF' s := fun hp => ⟨(h hp).1, fun he => ((h hp).2 he).2⟩

theorem raw_noEof {s : PState} (hw : WF' s) : s.raw.NoEof := by
  unfold PState.raw
  split
  · rename_i hp
    split
    · trivial
    · rename_i he
      split
      · assumption
      · exact ⟨⟨‹_›, (hw hp).2 he⟩, rawS_noEof _ _⟩
  · exact rawS_noEof _ _

theorem abs_noEof {s : PState} (hw : WF s) : (abs s).σ.NoEof := (raw_noEof hw.wf').sig

theorem WF.init (src : Nat) (inp : Bytes) : WF (PState.init src inp) := by
  intro h; simp [PState.init] at h

theorem abs_init (src : Nat) (inp : Bytes) :
    abs (PState.init src inp) = { pk := false, σ := (rawS inp Cur.init).sig, cnt := (rawS inp Cur.init).len } := by
  simp [abs, PState.raw, PState.init]

/-- liveness is inherited backwards along a run -/
theorem live_of_run {α : Type} {L : Nat} {p : Prog α} {s : PState} (h : dead (run L p s).2 = false) : dead s = false := by
  cases hd : dead s
  · rfl
  · have := run_mu_le L p s
    rw [mu_dead hd] at this
    rw [dead_of_mu (by omega)] at h; cases h

theorem live_err {s : PState} (h : dead s = false) : s.err = none := by
  simp only [dead, Bool.or_eq_false_iff] at h
  cases he : s.err <;> simp_all

theorem live_oof {s : PState} (h : dead s = false) : s.oof = false := by
  simp [dead] at h; exact h.2

theorem live_isSome {s : PState} (h : dead s = false) : s.err.isSome = false := by
  simp only [dead, Bool.or_eq_false_iff] at h; exact h.1

/-! ### reading the lexer -/

theorem readPeek_cases (s : PState) :
    (∃ e, readToken s.rest s.cur = .err e ∧
      s.readPeek = { s with pulls := s.pulls + 1, peeked := true, peekTok := invalidTok e, peekErr := some e }) ∨
    (∃ t r c, readToken s.rest s.cur = .tok t r c ∧
      s.readPeek = { s with rest := r, cur := c, pulls := s.pulls + 1, peeked := true, peekTok := t, peekErr := none }) := by
  unfold PState.readPeek PState.lexRead
  cases h : readToken s.rest s.cur with
  | err e => exact .inl ⟨e, rfl, rfl⟩
  | tok t r c => exact .inr ⟨t, r, c, rfl, rfl⟩

theorem raw_readPeek {s : PState} (hp : s.peeked = false) : s.readPeek.raw = s.raw := by
  rcases readPeek_cases s with ⟨e, h1, h2⟩ | ⟨t, r, c, h1, h2⟩
  · rw [h2]; simp [PState.raw, hp, rawS_err h1]
  · rw [h2]; simp [PState.raw, hp, rawS_tok h1]

theorem WF'_readPeek (s : PState) : WF' s.readPeek := by
  intro _
  rcases readPeek_cases s with ⟨e', h1, h2⟩ | ⟨t, r, c, h1, h2⟩
  · rw [h2]
    refine ⟨fun e he => ?_, fun he => ?_⟩
    · simp at he ⊢; rw [he]
    · simp at he
  · rw [h2]
    refine ⟨fun e he => ?_, fun _ => ?_⟩
    · simp at he
    · have ho := readToken_okAt s.rest s.cur
      rw [h1] at ho
      exact ⟨ho.2.2.2.1, ho.2.2.1, ho.2.2.2.2⟩

/-- one iteration of the comment loop in a filled look-ahead state holding a comment -/
theorem takePeeked_comment {s : PState} (hp : s.peeked = true) (hw : WF' s) (hc : s.peekTok.kind = .comment) :
    s.takePeeked.err = none ∧ s.takePeeked.peeked = false ∧ s.raw = .cons s.peekTok s.takePeeked.raw ∧
    s.takePeeked.tokenCount = s.tokenCount + 1 ∧ s.takePeeked.oof = s.oof := by
  have hne : s.peekErr = none := by
    cases he : s.peekErr with
    | none => rfl
    | some e => have := (hw hp).1 e he; rw [this] at hc; simp [invalidTok] at hc
  refine ⟨by simp [PState.takePeeked, hne], rfl, ?_, rfl, rfl⟩
  simp [PState.raw, hp, hne, hc, PState.takePeeked]

theorem peekNC_unpeeked {s : PState} (he : s.err.isSome = false) (hp : s.peeked = false) :
    s.peekNC = (s.readPeek.peekTok, s.readPeek) := by simp [PState.peekNC, he, hp]

theorem peekNC_peeked {s : PState} (he : s.err.isSome = false) (hp : s.peeked = true) :
    s.peekNC = (s.peekTok, s) := by simp [PState.peekNC, he, hp]

theorem commentLoop_abs (n : Nat) (s : PState) (hl : dead s = false) (hw : WF' s)
    (hlive : dead (commentLoop 0 n s) = false) :
    (commentLoop 0 n s).peeked = true ∧ WF (commentLoop 0 n s) ∧
    (commentLoop 0 n s).raw = s.raw.skipC ∧
    (commentLoop 0 n s).tokenCount + (commentLoop 0 n s).raw.len = s.tokenCount + s.raw.len := by
  induction n generalizing s with
  | zero => simp [commentLoop, dead] at hlive
  | succ n ih =>
    have he := live_isSome hl
    have hdef : commentLoop 0 (n + 1) s = if s.peekNC.1.kind ≠ .comment then s.peekNC.2
        else commentLoop 0 n (s.peekNC.2.nextNC 0).2 := by simp [commentLoop, he]
    rw [hdef] at hlive ⊢
    -- the state after `peekNC`
    have hpk : s.peekNC.2.peeked = true ∧ s.peekNC.1 = s.peekNC.2.peekTok ∧ s.peekNC.2.raw = s.raw ∧
        s.peekNC.2.tokenCount = s.tokenCount ∧ WF' s.peekNC.2 ∧ dead s.peekNC.2 = false := by
      cases hp : s.peeked
      · rw [peekNC_unpeeked he hp]
        refine ⟨rfl, rfl, raw_readPeek hp, readPeek_tc s, WF'_readPeek s, ?_⟩
        simp only [dead, readPeek_err', readPeek_oof]; exact hl
      · rw [peekNC_peeked he hp]
        exact ⟨hp, rfl, rfl, rfl, hw, hl⟩
    obtain ⟨k1, k2, k3, k4, k5, k6⟩ := hpk
    by_cases hc : s.peekNC.1.kind ≠ .comment
    · rw [if_pos hc] at hlive ⊢
      refine ⟨k1, ?_, ?_, by rw [k3, k4]⟩
      · intro _
        exact ⟨fun e he' => (k5 k1).1 e he', fun he' => ⟨by rw [← k2]; exact hc, (k5 k1).2 he'⟩⟩
      · rw [k3]
        symm; apply Stream.skipC_of_head
        rw [← k3]
        unfold PState.raw
        rw [k1]; simp only [↓reduceIte]
        cases hpe : s.peekNC.2.peekErr with
        | some e => simp [Stream.head, invalidTok]
        | none =>
          simp only
          split <;> (simp only [Stream.head]; rw [← k2]; exact hc)
    · rw [if_neg hc] at hlive ⊢
      simp only [ne_eq, Decidable.not_not] at hc
      rw [k2] at hc
      obtain ⟨t1, t2, t3, t4, t5⟩ := takePeeked_comment k1 k5 hc
      have hnx : (s.peekNC.2.nextNC 0).2 = s.peekNC.2.takePeeked := by
        simp [PState.nextNC, live_isSome k6, overLimit, k1]
      rw [hnx] at hlive ⊢
      have hl2 : dead s.peekNC.2.takePeeked = false := by
        simp only [dead, t1, t5, live_oof k6]; rfl
      have hw2 : WF' s.peekNC.2.takePeeked := by intro h; rw [t2] at h; cases h
      obtain ⟨i1, i2, i3, i4⟩ := ih _ hl2 hw2 hlive
      refine ⟨i1, i2, ?_, ?_⟩
      · rw [i3, ← k3, t3]; simp [Stream.skipC, hc]
      · rw [i4, ← k3, ← k4, t3, t4]; simp [Stream.len]; omega

/-- `groupIf` on a filled look-ahead: leading comments are consumed, nothing else changes -/
theorem groupIf_abs (s : PState) (hl : dead s = false) (hw : WF' s) (hp : s.peeked = true)
    (hlive : dead (s.groupIf 0 s.peekTok) = false) :
    (s.groupIf 0 s.peekTok).peeked = true ∧ WF (s.groupIf 0 s.peekTok) ∧
    (s.groupIf 0 s.peekTok).raw = s.raw.skipC ∧
    (s.groupIf 0 s.peekTok).tokenCount + (s.groupIf 0 s.peekTok).raw.len = s.tokenCount + s.raw.len := by
  unfold PState.groupIf at hlive ⊢
  by_cases hc : s.peekTok.kind = .comment
  · rw [if_pos hc] at hlive ⊢
    unfold PState.consumeCommentGroup at hlive ⊢
    rw [live_isSome hl] at hlive ⊢
    simp only [Bool.false_eq_true, ↓reduceIte] at hlive ⊢
    exact commentLoop_abs _ s hl hw hlive
  · rw [if_neg hc]
    refine ⟨hp, ?_, ?_, rfl⟩
    · intro _; exact ⟨fun e he => (hw hp).1 e he, fun he => ⟨hc, (hw hp).2 he⟩⟩
    · symm; apply Stream.skipC_of_head
      unfold PState.raw
      rw [hp]; simp only [↓reduceIte]
      cases hpe : s.peekErr with
      | some e => simp [Stream.head, invalidTok]
      | none => simp only; split <;> (simp only [Stream.head]; exact hc)

/-- the head of the significant stream of a well-formed filled look-ahead is the look-ahead token -/
theorem head_sig_raw {s : PState} (hw : WF s) (hp : s.peeked = true) : s.raw.sig.head = s.peekTok := by
  obtain ⟨w1, w2⟩ := hw hp
  unfold PState.raw
  rw [hp]; simp only [↓reduceIte]
  cases hpe : s.peekErr with
  | some e => simp [Stream.sig, Stream.head, w1 e hpe]
  | none =>
    simp only
    split
    · simp [Stream.sig, Stream.head]
    · simp [Stream.sig, (w2 hpe).1, Stream.head]

/-- **`peek`**: returns the first significant token ahead, fills the look-ahead, changes nothing else. -/
theorem peek_abs (s : PState) (hw : WF s) (hlive : dead (s.peek 0).2 = false) :
    WF (s.peek 0).2 ∧ (s.peek 0).1 = (abs s).σ.head ∧ abs (s.peek 0).2 = { abs s with pk := true } := by
  have hl : dead s = false := by
    cases hd : dead s
    · rfl
    · have := (peek_spec 0 s).1
      rw [mu_dead hd] at this
      rw [dead_of_mu (by omega)] at hlive; cases hlive
  have he := live_isSome hl
  unfold PState.peek at hlive ⊢
  rw [he] at hlive ⊢
  cases hp : s.peeked
  · rw [hp] at hlive
    simp only [Bool.false_eq_true, ↓reduceIte] at hlive ⊢
    have hl1 : dead s.readPeek = false := by simp only [dead, readPeek_err', readPeek_oof]; exact hl
    obtain ⟨g1, g2, g3, g4⟩ := groupIf_abs s.readPeek hl1 (WF'_readPeek s) rfl hlive
    refine ⟨g2, ?_, ?_⟩
    · rw [← head_sig_raw g2 g1, g3, Stream.sig_skipC, raw_readPeek hp]; rfl
    · simp only [abs, g1, g3, Stream.sig_skipC, raw_readPeek hp, hp]
      rw [← raw_readPeek hp, ← g3, g4, raw_readPeek hp, readPeek_tc]
  · simp only [↓reduceIte, Bool.false_eq_true]
    refine ⟨hw, (head_sig_raw hw hp).symm, ?_⟩
    simp [abs, hp]

/-- **`next`** with a filled look-ahead on a token: consumes exactly that token. -/
theorem next_abs (s : PState) (hw : WF s) (hl : dead s = false) (hp : s.peeked = true)
    (t : Token) (σ' : Stream) (hσ : (abs s).σ = .cons t σ') :
    (s.next 0).1 = t ∧ dead (s.next 0).2 = false ∧ abs (s.next 0).2 = { pk := false, σ := σ', cnt := (abs s).cnt } := by
  obtain ⟨w1, w2⟩ := hw hp
  have he := live_isSome hl
  have hraw : s.peekErr = none ∧ s.peekTok.kind ≠ .eof ∧ s.peekTok = t ∧ (rawS s.rest s.cur).sig = σ' := by
    simp only [abs, PState.raw, hp, ↓reduceIte] at hσ
    cases hpe : s.peekErr with
    | some e => rw [hpe] at hσ; simp [Stream.sig] at hσ
    | none =>
      rw [hpe] at hσ
      simp only at hσ
      by_cases hk : s.peekTok.kind = .eof
      · rw [if_pos hk] at hσ; simp [Stream.sig] at hσ
      · rw [if_neg hk] at hσ
        simp only [Stream.sig, (w2 hpe).1, ↓reduceIte, Stream.cons.injEq] at hσ
        exact ⟨rfl, hk, hσ.1, hσ.2⟩
  obtain ⟨r1, r2, r3, r4⟩ := hraw
  have hnx : s.next 0 = (s.peekTok, s.takePeeked) := by
    simp [PState.next, he, overLimit, hp]
  rw [hnx]
  refine ⟨r3, ?_, ?_⟩
  · simp [dead, PState.takePeeked, r1, live_oof hl]
  · simp only [abs, PState.raw, PState.takePeeked, Bool.false_eq_true, ↓reduceIte, hp, r1, r2, r4, Stream.len]
    congr 1; omega

/-- `next` keeps the look-ahead slot well-formed in every live run -/
theorem next_wf (s : PState) (hlive : dead (s.next 0).2 = false) : WF (s.next 0).2 := by
  have hl : dead s = false := by
    cases hd : dead s
    · rfl
    · have := (next_spec 0 s).1
      rw [mu_dead hd] at this
      rw [dead_of_mu (by omega)] at hlive; cases hlive
  have he := live_isSome hl
  unfold PState.next at hlive ⊢
  rw [he] at hlive ⊢
  simp only [overLimit, bne_self_eq_false, Bool.false_and, Bool.false_eq_true, ↓reduceIte] at hlive ⊢
  cases hp : s.peeked
  · rw [hp] at hlive
    simp only [Bool.false_eq_true, ↓reduceIte] at hlive ⊢
    unfold PState.groupIf at hlive ⊢
    have hpk : s.readPrev.peeked = false := by rw [readPrev_peeked]; exact hp
    by_cases hc : s.readPrev.prev.kind = .comment
    · rw [if_pos hc] at hlive ⊢
      unfold PState.consumeCommentGroup at hlive ⊢
      cases he2 : s.readPrev.err.isSome
      · rw [he2] at hlive
        simp only [Bool.false_eq_true, ↓reduceIte] at hlive ⊢
        have hl2 : dead s.readPrev = false := by
          simp only [dead, he2, readPrev_oof, live_oof hl]; rfl
        exact (commentLoop_abs _ _ hl2 (by intro h; rw [hpk] at h; cases h) hlive).2.1
      · simp only [↓reduceIte]
        intro h; rw [hpk] at h; cases h
    · rw [if_neg hc]
      intro h; rw [hpk] at h; cases h
  · simp only [↓reduceIte]
    intro h; simp [PState.takePeeked] at h

end Gql.Parser
