import GqlProofs.Parser.CompleteQuery
import GqlProofs.Parser.RetQuery
/-
  Completeness of the query parser: definitions, the document loop, and the entry point.
-/
namespace Gql.Parser
open Gql Gql.Lexer Gql.Grammar Gql.Print

local notation "D" => Derives gql

/-- `peekPos`, remembering the position -/
theorem fwd_peekPos' (a : AS) : Fwd peekPos a (fun pos a' => pos.start = a.σ.head.start ∧ a' = { a with pk := true }) := by
  unfold peekPos
  refine Fwd.bind (fwd_hasErr a) ?_
  rintro e a0 ⟨rfl, rfl⟩
  refine Fwd.ite_neg (by simp) (Fwd.bind (fwd_peek a0) ?_)
  rintro tok a1 ⟨rfl, rfl⟩
  refine Fwd.bind (fwd_getSrc _) ?_
  rintro i a2 rfl
  exact (Fwd.pure _ _).mono fun _ _ h => ⟨by rw [h.1]; rfl, h.2⟩

/-! ### operation definitions -/

theorem printOperation_short (ss : Selections) (pos : Pos) :
    printOperation { op := kwQuery, name := [], vars := [], dirs := [], sel := ss, pos := pos } =
      dropBareQuery (printSelectionSet ss) := by
  simp [printOperation, OperationDef.isBare, kwQuery, printSelectionSet, dropBareQuery_brace]

theorem dropBareQuery_opLong (o : OperationDef) : dropBareQuery (opLong o) = printOperation o := by
  unfold opLong
  by_cases hb : OperationDef.isBare o = true
  · have hp : printOperation o = printSelectionSet o.sel := by simp [printOperation, hb]
    rw [hp]
    simp only [OperationDef.isBare, Bool.and_eq_true, beq_iff_eq, List.isEmpty_iff] at hb
    obtain ⟨⟨⟨h1, h2⟩, h3⟩, h4⟩ := hb
    simp [h1, h2, h3, h4, printVarDefs, printDirectives, printSelectionSet, dropBareQuery, tName, tP]
  · have hp : printOperation o = tName o.op :: ((if o.name = [] then [] else [tName o.name]) ++
        (printVarDefs o.vars ++ (printDirectives o.dirs ++ printSelectionSet o.sel))) := by
      simp [printOperation, hb]
    rw [hp]
    exact dropBareQuery_nonbare o hb

theorem inv_operationType {ts o : List Tok} (h : D (.nt .operationType) ts o) :
    ∃ op, (op = str "query" ∨ op = str "mutation" ∨ op = str "subscription") ∧ ts = [tName op] ∧ o = [tName op] := by
  rcases h.nt_inv.alt_inv with h | h
  · obtain ⟨e1, e2⟩ := kw_inv h
    exact ⟨_, .inl rfl, e1, e2⟩
  rcases h.alt_inv with h | h
  · obtain ⟨e1, e2⟩ := kw_inv h
    exact ⟨_, .inr (.inl rfl), e1, e2⟩
  · obtain ⟨e1, e2⟩ := kw_inv h
    exact ⟨_, .inr (.inr rfl), e1, e2⟩

/-- the two shapes of an operation definition -/
theorem inv_operation {ts o : List Tok} (h : D (.nt .operationDefinition) ts o) (hok : TsOK ts) :
    (∃ o', o = dropBareQuery o' ∧ D (.nt .selectionSet) ts o') ∨
    (∃ (op nm : Name) (tv ov td od tss oss : List Tok), (op = str "query" ∨ op = str "mutation" ∨ op = str "subscription") ∧
      ts = tName op :: ((if nm = [] then [] else [tName nm]) ++ (tv ++ (td ++ tss))) ∧
      o = dropBareQuery (tName op :: ((if nm = [] then [] else [tName nm]) ++ (ov ++ (od ++ oss)))) ∧
      D (.opt (.nt .variableDefinitions)) tv ov ∧ D (.opt (.nt (.directives false))) td od ∧ D (.nt .selectionSet) tss oss) := by
  obtain ⟨o', rfl, hb⟩ := h.nt_inv.canon_inv
  rcases hb.alt_inv with hb | hb
  · obtain ⟨t1, t2, o1, o2, rfl, rfl, d1, d2⟩ := hb.seq_inv'
    obtain ⟨t3, t4, o3, o4, rfl, rfl, d3, d4⟩ := d2.seq_inv'
    obtain ⟨t5, t6, o5, o6, rfl, rfl, d5, d6⟩ := d4.seq_inv'
    obtain ⟨t7, t8, o7, o8, rfl, rfl, d7, d8⟩ := d6.seq_inv'
    obtain ⟨op, hop, rfl, rfl⟩ := inv_operationType d1
    right
    rcases d3.opt_inv with ⟨rfl, rfl⟩ | d3
    · exact ⟨op, [], t5, o5, t7, o7, t8, o8, hop, by simp, by simp, d5, d7, d8⟩
    · obtain ⟨nm, rfl, rfl⟩ := name_inv d3
      have hnm : nm ≠ [] := (hok (tName nm) (by simp)).2 rfl
      exact ⟨op, nm, t5, o5, t7, o7, t8, o8, hop, by simp [hnm], by simp [hnm], d5, d7, d8⟩
  · exact .inl ⟨o', rfl, hb⟩

theorem cpl_opTail (n : Nat) (pos : Pos) (op nm : Name) (tv ov td od tss oss : List Tok) (hokv : TsOK tv) (hokd : TsOK td)
    (hoks : TsOK tss) (dv : D (.opt (.nt .variableDefinitions)) tv ov) (dd : D (.opt (.nt (.directives false))) td od)
    (dss : D (.nt .selectionSet) tss oss) (a : AS) (σ' : Stream) (hs : Starts a.σ (tv ++ (td ++ tss)) σ') :
    Fwd (opTail n pos op nm) a (fun y a' => opLong y = tName op :: ((if nm = [] then [] else [tName nm]) ++ (ov ++ (od ++ oss))) ∧
      y.pos = pos ∧ a'.σ = σ') := by
  rw [Starts.append_iff] at hs
  obtain ⟨σ1, h1, hs⟩ := hs
  rw [Starts.append_iff] at hs
  obtain ⟨σ2, h2, h3⟩ := hs
  obtain ⟨parts, _, e, _, _⟩ := inv_selectionSet dss hoks
  have k3 : σ2.head.kind = .braceL := by rw [e] at h3; exact h3.head_kind
  have k2 : σ1.head.kind ≠ .parenL := by
    rw [h2.firstKind]
    rcases firstKind_optDirectives dd hokd σ2.head.kind with h | h <;> rw [h]
    · rw [k3]; decide
    · decide
  unfold opTail
  refine Fwd.bind (cpl_varDefs n tv ov hokv dv a σ1 h1 k2) ?_
  rintro vs' a1 ⟨hvs, hσ1⟩
  refine Fwd.bind (cpl_directives false n td od hokd dd a1 σ2 (by rw [hσ1]; exact h2) (by rw [k3]; decide) (by rw [k3]; decide)) ?_
  rintro ds' a2 ⟨hds, hσ2⟩
  refine Fwd.bind (cpl_requiredSelectionSet n tss oss hoks dss a2 σ' (by rw [hσ2]; exact h3)) ?_
  rintro ss' a3 ⟨hss, hσ⟩
  refine (Fwd.pure _ _).mono ?_
  rintro y a4 ⟨rfl, rfl⟩
  exact ⟨by simp [opLong, hvs, hds, hss], rfl, hσ⟩

/-- `OperationDefinition`; the recorded position is that of the first token -/
theorem cpl_operation (n : Nat) (ts o : List Tok) (hok : TsOK ts) (hd : D (.nt .operationDefinition) ts o) (a : AS) (σ' : Stream)
    (hs : Starts a.σ ts σ') :
    Fwd (parseOperationDefinition n) a (fun y a' => printOperation y = o ∧ y.pos.start = a.σ.head.start ∧ a'.σ = σ') := by
  rw [parseOperationDefinition_eq]
  rcases inv_operation hd hok with ⟨o', rfl, dss⟩ | ⟨op, nm, tv, ov, td, od, tss, oss, hop, rfl, rfl, dv, dd, dss⟩
  · obtain ⟨parts, _, e, _, _⟩ := inv_selectionSet dss hok
    have hk : a.σ.head.kind = .braceL := by rw [e] at hs; exact hs.head_kind
    refine Fwd.bind (fwd_peek a) ?_
    rintro t a1 ⟨rfl, rfl⟩
    refine Fwd.ite_pos hk (Fwd.bind (fwd_peekPos' _) ?_)
    rintro pos a2 ⟨hpos, rfl⟩
    refine Fwd.bind (cpl_requiredSelectionSet n ts o' hok dss _ σ' (by simpa using hs)) ?_
    rintro ss' a3 ⟨hss, hσ⟩
    refine (Fwd.pure _ _).mono ?_
    rintro y a4 ⟨rfl, rfl⟩
    exact ⟨by rw [printOperation_short, hss], hpos, hσ⟩
  · obtain ⟨σ1, h1, hs2⟩ := hs.cons_single
    obtain ⟨u, hσu, hu⟩ := h1.single
    have hk : a.σ.head.kind = .name := by rw [hσu]; exact ofToken_kind hu
    have hokr : TsOK ((if nm = [] then [] else [tName nm]) ++ (tv ++ (td ++ tss))) := hok.tail
    refine Fwd.bind (fwd_peek a) ?_
    rintro t a1 ⟨rfl, rfl⟩
    refine Fwd.ite_neg (by rw [hk]; decide) (Fwd.bind (fwd_peekPos' _) ?_)
    rintro pos a2 ⟨hpos, rfl⟩
    refine Fwd.bind (fwd_parseOperationType (a := { pk := true, σ := a.σ, cnt := a.cnt }) rfl hσu hu hop) ?_
    rintro op' a3 ⟨rfl, hσ3⟩
    refine Fwd.bind (fwd_peek a3) ?_
    rintro t2 a4 ⟨rfl, rfl⟩
    have hfin : ∀ (b : AS) (nm' : Name), nm' = nm → Starts b.σ (tv ++ (td ++ tss)) σ' →
        Fwd (opTail n pos op' nm') b (fun y a' =>
          printOperation y = dropBareQuery (tName op' :: ((if nm = [] then [] else [tName nm]) ++ (ov ++ (od ++ oss)))) ∧
          y.pos.start = a.σ.head.start ∧ a'.σ = σ') := by
      intro b nm' hnm hst
      subst hnm
      refine (cpl_opTail n pos op' nm' tv ov td od tss oss hokr.right.left hokr.right.right.left hokr.right.right.right
        dv dd dss b σ' hst).mono ?_
      rintro y a' ⟨e1, e2, hσ⟩
      exact ⟨by rw [← e1, dropBareQuery_opLong], by rw [e2]; exact hpos, hσ⟩
    by_cases hn : nm = []
    · subst hn
      simp only [if_true, List.nil_append] at hs2 hokr
      have hk2 : a3.σ.head.kind ≠ .name := by
        rw [hσ3, hs2.firstKind]
        simp only [firstKind_append]
        obtain ⟨parts, _, e, _, _⟩ := inv_selectionSet dss hokr.right.right
        have hb : firstKind tss σ'.head.kind = .braceL := by rw [e]; rfl
        have hv : firstKind tv (firstKind td (firstKind tss σ'.head.kind)) = firstKind td (firstKind tss σ'.head.kind) ∨
            firstKind tv (firstKind td (firstKind tss σ'.head.kind)) = .parenL := by
          rcases dv.opt_inv with ⟨rfl, _⟩ | dv'
          · exact .inl rfl
          · obtain ⟨ps, _, e', _, _⟩ := inv_block dv'.nt_inv hokr.left rfl rfl
            exact .inr (by rw [e']; rfl)
        rcases hv with h | h <;> rw [h]
        · rcases firstKind_optDirectives dd hokr.right.left (firstKind tss σ'.head.kind) with h | h <;> rw [h]
          · rw [hb]; decide
          · decide
        · decide
      refine Fwd.ite_neg hk2 ?_
      exact hfin _ [] rfl (by simpa [hσ3] using hs2)
    · simp only [if_neg hn, List.cons_append, List.nil_append] at hs2
      obtain ⟨σ2, h2, h3⟩ := hs2.cons_single
      obtain ⟨u2, hσu2, hu2⟩ := h2.single
      have hk2 : a3.σ.head.kind = .name := by rw [hσ3, hσu2]; exact ofToken_kind hu2
      refine Fwd.ite_pos hk2 (Fwd.bind (fwd_next (a := { pk := true, σ := a3.σ, cnt := a3.cnt }) (t := u2) (σ' := σ2) rfl
        (by simp [hσ3, hσu2])) ?_)
      rintro tk a5 ⟨rfl, rfl⟩
      exact hfin _ tk.value (ofToken_value hu2) (by simpa using h3)

/-! ### fragment definitions -/

theorem inv_fragment {ts o : List Tok} (h : D (.nt .fragmentDefinition) ts o) (hok : TsOK ts) :
    ∃ (nm tc : Name) (tv ov td od tss oss : List Tok), nm ≠ str "on" ∧
      ts = tKw "fragment" :: tName nm :: (tv ++ (tKw "on" :: tName tc :: (td ++ tss))) ∧
      o = tKw "fragment" :: tName nm :: (ov ++ (tKw "on" :: tName tc :: (od ++ oss))) ∧
      D (.opt (.nt .variableDefinitions)) tv ov ∧ D (.opt (.nt (.directives false))) td od ∧ D (.nt .selectionSet) tss oss := by
  obtain ⟨t1, t2, o1, o2, rfl, rfl, d1, d2⟩ := h.nt_inv.seq_inv'
  obtain ⟨t3, t4, o3, o4, rfl, rfl, d3, d4⟩ := d2.seq_inv'
  obtain ⟨t5, t6, o5, o6, rfl, rfl, d5, d6⟩ := d4.seq_inv'
  obtain ⟨t7, t8, o7, o8, rfl, rfl, d7, d8⟩ := d6.seq_inv'
  obtain ⟨t9, t10, o9, o10, rfl, rfl, d9, d10⟩ := d8.seq_inv'
  obtain ⟨rfl, rfl⟩ := kw_inv d1
  obtain ⟨t, rfl, rfl, hp⟩ := d3.nt_inv.tok_inv
  simp only [Bool.and_eq_true, beq_iff_eq, Bool.not_eq_true', List.contains_cons, List.contains_nil, Bool.or_false,
    beq_eq_false_iff_ne] at hp
  obtain ⟨s1, s2, p1, p2, rfl, rfl, e1, e2⟩ := d7.nt_inv.seq_inv'
  obtain ⟨rfl, rfl⟩ := kw_inv e1
  obtain ⟨tc, rfl, rfl⟩ := inv_namedType e2
  obtain ⟨tkk, tv⟩ := t
  simp only at hp
  obtain ⟨rfl, hv⟩ := hp
  exact ⟨tv, tc, t5, o5, t9, o9, t10, o10, hv, by simp [tName], by simp [tName], d5, d9, d10⟩

theorem cpl_fragment (n : Nat) (ts o : List Tok) (hok : TsOK ts) (hd : D (.nt .fragmentDefinition) ts o) (a : AS) (σ' : Stream)
    (hs : Starts a.σ ts σ') :
    Fwd (parseFragmentDefinition n) a (fun y a' => printFragment y = o ∧ y.pos.start = a.σ.head.start ∧ a'.σ = σ') := by
  obtain ⟨nm, tc, tv, ov, td, od, tss, oss, hnm, rfl, rfl, dv, dd, dss⟩ := inv_fragment hd hok
  have hs : Starts a.σ ([tKw "fragment"] ++ ([tName nm] ++ (tv ++ ([tKw "on"] ++ ([tName tc] ++ (td ++ tss)))))) σ' := by
    simpa using hs
  have hokv : TsOK tv := hok.tail.tail.left
  have hokd : TsOK td := hok.tail.tail.right.tail.tail.left
  have hoks : TsOK tss := hok.tail.tail.right.tail.tail.right
  rw [Starts.append_iff] at hs
  obtain ⟨σ1, h1, hs⟩ := hs
  rw [Starts.append_iff] at hs
  obtain ⟨σ2, h2, hs⟩ := hs
  rw [Starts.append_iff] at hs
  obtain ⟨σ3, h3, hs⟩ := hs
  rw [Starts.append_iff] at hs
  obtain ⟨σ4, h4, hs⟩ := hs
  rw [Starts.append_iff] at hs
  obtain ⟨σ5, h5, hs⟩ := hs
  rw [Starts.append_iff] at hs
  obtain ⟨σ6, h6, h7⟩ := hs
  obtain ⟨parts, _, e, _, _⟩ := inv_selectionSet dss hoks
  have k7 : σ6.head.kind = .braceL := by rw [e] at h7; exact h7.head_kind
  have k4 : σ3.head.kind = .name := h4.head_kind
  unfold parseFragmentDefinition
  refine Fwd.bind (fwd_peekPos' _) ?_
  rintro pos a1 ⟨hpos, rfl⟩
  refine Fwd.bind (fwd_keyword "fragment" (by simpa using h1)) ?_
  rintro _ a2 hσ2
  refine Fwd.bind (fwd_parseFragmentName nm (by rw [hσ2]; exact h2) hnm) ?_
  rintro x a3 ⟨rfl, hσ3⟩
  refine Fwd.bind (cpl_varDefs n tv ov hokv dv a3 σ3 (by rw [hσ3]; exact h3) (by rw [k4]; decide)) ?_
  rintro vs' a4 ⟨hvs, hσ4⟩
  refine Fwd.bind (fwd_keyword "on" (by rw [hσ4]; exact h4)) ?_
  rintro _ a5 hσ5
  refine Fwd.bind (fwd_parseName tc (by rw [hσ5]; exact h5)) ?_
  rintro tc' a6 ⟨rfl, hσ6⟩
  refine Fwd.bind (cpl_directives false n td od hokd dd a6 σ6 (by rw [hσ6]; exact h6) (by rw [k7]; decide) (by rw [k7]; decide)) ?_
  rintro ds' a7 ⟨hds, hσ7⟩
  refine Fwd.bind (cpl_requiredSelectionSet n tss oss hoks dss a7 σ' (by rw [hσ7]; exact h7)) ?_
  rintro ss' a8 ⟨hss, hσ⟩
  refine (Fwd.pure _ _).mono ?_
  rintro y a9 ⟨rfl, rfl⟩
  exact ⟨by simp [printFragment, hvs, hds, hss], hpos, hσ⟩

/-! ### the document -/

/-- the keys are the start offsets of tokens of the stream, in stream order -/
def HeadsOf (σ : Stream) (keys : List Nat) : Prop := ∃ hs : List Token, hs.Sublist σ.toks ∧ keys = hs.map (·.start)

theorem HeadsOf.nil (σ : Stream) : HeadsOf σ [] := ⟨[], List.nil_sublist _, rfl⟩

theorem HeadsOf.cons {σ σm : Stream} {us : List Token} {u : Token} {rest : List Token} {keys : List Nat}
    (hσ : σ = Stream.app us σm) (hus : us = u :: rest) (h : HeadsOf σm keys) : HeadsOf σ (u.start :: keys) := by
  obtain ⟨hs, h1, h2⟩ := h
  refine ⟨u :: hs, ?_, by simp [h2]⟩
  rw [hσ, Stream.toks_app, hus]
  exact (h1.trans (List.sublist_append_right _ _)).cons_cons u

theorem first_definition {ts o : List Tok} (h : D (.nt .executableDefinition) ts o) (hok : TsOK ts) :
    ∃ t rest, ts = t :: rest ∧ (t.kind = .braceL ∨ (t.kind = .name ∧
      (t.value = kwQuery ∨ t.value = kwMutation ∨ t.value = kwSubscription)) ∨ (t.kind = .name ∧ t.value = kwFragment)) := by
  rcases h.nt_inv.alt_inv with h | h
  · rcases inv_operation h hok with ⟨o', _, dss⟩ | ⟨op, nm, tv, ov, td, od, tss, oss, hop, e, _⟩
    · obtain ⟨parts, _, e, _, _⟩ := inv_selectionSet dss hok
      exact ⟨_, _, e, .inl rfl⟩
    · exact ⟨_, _, e, .inr (.inl ⟨rfl, hop⟩)⟩
  · obtain ⟨nm, tc, tv, ov, td, od, tss, oss, _, e, _⟩ := inv_fragment h hok
    exact ⟨_, _, e, .inr (.inr ⟨rfl, rfl⟩)⟩

theorem cpl_queryDocLoop (m : Nat) : ∀ (parts : List (List Tok × List Tok)),
    (∀ p ∈ parts, TsOK p.1 ∧ D (.nt .executableDefinition) p.1 p.2) →
    ∀ (n : Nat) (doc : QueryDoc) (a : AS) (σ' : Stream), Starts a.σ (parts.flatMap (·.1)) σ' → σ'.head.kind = .eof →
      Fwd (queryDocLoop m n doc) a (fun d a' => (∃ defs : List Def, d.ops = doc.ops ++ opsOf defs ∧
        d.frags = doc.frags ++ fragsOf defs ∧ defs.flatMap (fun x => (defItem x).2) = parts.flatMap (·.2) ∧
        HeadsOf a.σ (defs.map fun x => (defItem x).1) ∧ (parts ≠ [] → defs ≠ [])) ∧ a'.σ = σ')
  | [], _ => by
    intro n doc a σ' hs heof
    rw [List.flatMap_nil, Starts.nil_iff] at hs
    cases n with
    | zero => exact Fwd.outOfFuel _ _ _
    | succ n =>
      unfold queryDocLoop
      refine Fwd.bind (fwd_peek a) ?_
      rintro t a1 ⟨rfl, rfl⟩
      refine Fwd.ite_neg (by rw [hs]; simp [heof]) ((Fwd.pure _ _).mono ?_)
      rintro d a' ⟨rfl, rfl⟩
      exact ⟨⟨[], by simp [opsOf], by simp [fragsOf], rfl, HeadsOf.nil _, fun h => absurd rfl h⟩, hs⟩
  | p :: parts, hp => by
    intro n doc a σ' hs heof
    obtain ⟨hokp, hdp⟩ := hp p (by simp)
    rw [List.flatMap_cons, Starts.append_iff] at hs
    obtain ⟨σm, hb, hrest⟩ := hs
    obtain ⟨t, rest, ep, hfirst⟩ := first_definition hdp hokp
    obtain ⟨us, hσus, htk⟩ := hb
    have husne : ∃ u r, us = u :: r := by
      cases us with
      | nil => rw [ep] at htk; simp at htk
      | cons u r => exact ⟨u, r, rfl⟩
    obtain ⟨u0, r0, hus⟩ := husne
    have hb : Starts a.σ p.1 σm := ⟨us, hσus, htk⟩
    have hhead : a.σ.head = u0 := by rw [hσus, hus]; rfl
    have hu0 : Tok.ofToken u0 = t := by
      have := htk; rw [hus, ep] at this; simpa using (List.cons.inj this).1
    cases n with
    | zero => exact Fwd.outOfFuel _ _ _
    | succ n =>
      have ih := cpl_queryDocLoop m parts (fun q hq => hp q (by simp [hq])) n
      have hk : a.σ.head.kind = t.kind := by rw [hhead]; exact ofToken_kind hu0
      have hv : a.σ.head.value = t.value := by rw [hhead]; exact ofToken_value hu0
      have hcont : ∀ (x : Def) (doc' : QueryDoc) (a3 : AS), (defItem x).2 = p.2 → (defItem x).1 = u0.start →
          doc'.ops = doc.ops ++ opsOf [x] → doc'.frags = doc.frags ++ fragsOf [x] → a3.σ = σm →
          Fwd (queryDocLoop m n doc') a3 (fun d a' => (∃ defs : List Def, d.ops = doc.ops ++ opsOf defs ∧
            d.frags = doc.frags ++ fragsOf defs ∧ defs.flatMap (fun x => (defItem x).2) = (p :: parts).flatMap (·.2) ∧
            HeadsOf a.σ (defs.map fun x => (defItem x).1) ∧ (p :: parts ≠ [] → defs ≠ [])) ∧ a'.σ = σ') := by
        intro x doc' a3 hx hkey hops hfrags hσ3
        refine (ih doc' a3 σ' (by rw [hσ3]; exact hrest) heof).mono ?_
        rintro d a' ⟨⟨defs, e1, e2, e3, e4, _⟩, e5⟩
        refine ⟨⟨x :: defs, ?_, ?_, by simp [hx, e3], ?_, by simp⟩, e5⟩
        · rw [e1, hops]; cases x <;> simp [opsOf]
        · rw [e2, hfrags]; cases x <;> simp [fragsOf]
        · rw [List.map_cons, hkey]
          rw [hσ3] at e4
          exact HeadsOf.cons hσus hus e4
      unfold queryDocLoop
      refine Fwd.bind (fwd_peek a) ?_
      rintro t0 a1 ⟨rfl, rfl⟩
      refine Fwd.ite_pos (by rw [hk]; rcases hfirst with h | ⟨h, _⟩ | ⟨h, _⟩ <;> simp [h]) (Fwd.bind (fwd_hasErr _) ?_)
      rintro e a2 ⟨rfl, rfl⟩
      refine Fwd.ite_neg (by simp) (Fwd.bind (fwd_peekPos _) ?_)
      rintro _ a3 rfl
      refine Fwd.bind (fwd_peek _) ?_
      rintro t1 a4 ⟨rfl, rfl⟩
      rcases hdp.nt_inv.alt_inv with hop | hfr
      · -- an operation
        have hrun := cpl_operation m p.1 p.2 hokp hop { pk := true, σ := a.σ, cnt := a.cnt } σm (by simpa using hb)
        have hfin : Fwd (parseOperationDefinition m >>= fun od => queryDocLoop m n { doc with ops := doc.ops ++ [od] })
            { pk := true, σ := a.σ, cnt := a.cnt } (fun d a' => (∃ defs : List Def, d.ops = doc.ops ++ opsOf defs ∧
            d.frags = doc.frags ++ fragsOf defs ∧ defs.flatMap (fun x => (defItem x).2) = (p :: parts).flatMap (·.2) ∧
            HeadsOf a.σ (defs.map fun x => (defItem x).1) ∧ (p :: parts ≠ [] → defs ≠ [])) ∧ a'.σ = σ') := by
          refine Fwd.bind hrun ?_
          rintro od a5 ⟨hod, hpos, hσ5⟩
          exact hcont (.inl od) _ a5 hod (by simp only [defItem]; rw [hpos]; simp [hhead]) (by simp [opsOf]) (by simp [fragsOf]) hσ5
        rcases hfirst with hkb | ⟨hkn, hvq⟩ | ⟨hkn, hvf⟩
        · simp only [hk, hkb]
          exact hfin
        · simp only [hk, hkn]
          refine Fwd.bind (fwd_peek _) ?_
          rintro t2 a5 ⟨rfl, rfl⟩
          exact Fwd.ite_pos (by simp only [hv]; exact hvq) hfin
        · -- the first token says `fragment`, but an operation starts with `{` or an operation type
          exfalso
          rcases inv_operation hop hokp with ⟨o', _, dss⟩ | ⟨op, nm, tv, ov, td, od, tss, oss, hopv, e, _⟩
          · obtain ⟨ps, _, e, _, _⟩ := inv_selectionSet dss hokp
            rw [ep] at e
            have := (List.cons.inj e).1
            rw [this] at hkn; simp [tP] at hkn
          · rw [ep] at e
            have := (List.cons.inj e).1
            rw [this] at hvf
            simp only [tName] at hvf
            rcases hopv with h | h | h <;> rw [h] at hvf <;> exact absurd hvf (by decide)
      · -- a fragment definition
        obtain ⟨nm, tc, tv, ov, td, od, tss, oss, _, e, _⟩ := inv_fragment hfr hokp
        rw [ep] at e
        have htt : t = tKw "fragment" := (List.cons.inj e).1
        have hkn : a.σ.head.kind = .name := by rw [hk, htt]; rfl
        have hvf : a.σ.head.value = kwFragment := by rw [hv, htt]; rfl
        simp only [hkn]
        refine Fwd.bind (fwd_peek _) ?_
        rintro t2 a5 ⟨rfl, rfl⟩
        refine Fwd.ite_neg (by simp only [hvf]; decide) (Fwd.ite_pos hvf ?_)
        refine Fwd.bind (cpl_fragment m p.1 p.2 hokp hfr _ σm (by simpa using hb)) ?_
        rintro fd a6 ⟨hfd, hpos, hσ6⟩
        exact hcont (.inr fd) _ a6 hfd (by simp only [defItem]; rw [hpos]; simp [hhead]) (by simp [opsOf]) (by simp [fragsOf]) hσ6

/-! ### the entry point -/

theorem tsOK_of_tokensOf {inp : Bytes} {ts : List Tok} (h : tokensOf inp = some ts) : TsOK ts := by
  obtain ⟨t, _, us, hσ, htk⟩ := starts_of_tokensOf h
  have hne : (rawS inp Cur.init).sig.NoEof := (rawS_noEof inp Cur.init).sig
  rw [hσ] at hne
  have hok := hne.app_toks
  intro x hx
  rw [← htk] at hx
  simp only [tk, List.mem_map] at hx
  obtain ⟨u, hu, rfl⟩ := hx
  exact ⟨(hok u hu).2.1, (hok u hu).2.2⟩

/-- **completeness and uniqueness of the canonical form**: if the token sequence of `inp` is
    derivable from `ExecutableDocument` with canonical output `o`, the parser accepts `inp` with a
    non-empty document whose unparse is `o` -/
theorem parseQuery_complete (inp : Bytes) (ts o : List Tok) (htok : tokensOf inp = some ts)
    (hd : D (.nt .executableDocument) ts o) :
    ∃ d, parseQuery 0 inp = .ok d ∧ printQuery d = o ∧ (d.ops ≠ [] ∨ d.frags ≠ []) := by
  have hok := tsOK_of_tokensOf htok
  obtain ⟨parts, hne, rfl, rfl, hp⟩ := hd.nt_inv.plus_parts
  obtain ⟨t, hteof, hst⟩ := starts_of_tokensOf htok
  have hrun := cpl_queryDocLoop (fuelFor inp) parts (fun p hpm => ⟨hok.of_flatMap p hpm, hp p hpm⟩) (fuelFor inp)
    { ops := [], frags := [] } (abs (PState.init 0 inp)) (.eof t) (by rw [abs_init]; exact hst) hteof
    (PState.init 0 inp) (WF.init 0 inp) (by simp [dead, PState.init]) rfl (runQuery_oof 0 inp)
  obtain ⟨hl, _, ⟨defs, e1, e2, e3, ⟨hs, hsub, hkeys⟩, hdne⟩, _⟩ := hrun
  have hok' : parseQuery 0 inp = .ok (runQuery 0 inp).1 := ofRun_ok.2 ⟨live_oof hl, live_err hl, rfl⟩
  have hops : (runQuery 0 inp).1.ops = opsOf defs := by simpa [runQuery, parseQueryDocument] using e1
  have hfrags : (runQuery 0 inp).1.frags = fragsOf defs := by simpa [runQuery, parseQueryDocument] using e2
  -- the keys increase along `defs`
  have hsorted : (defs.map fun x => (defItem x).1).Pairwise (· < ·) := by
    rw [hkeys, List.pairwise_map]
    rw [abs_init] at hsub
    simp only at hsub
    have h1 : (rawS inp Cur.init).sig.toks.Pairwise (fun a b => a.start < b.start) := by
      rw [Stream.sig_toks]; exact (rawS_sorted inp Cur.init).2.sublist List.filter_sublist
    exact h1.sublist hsub
  refine ⟨_, hok', ?_, ?_⟩
  · unfold printQuery
    rw [hops, hfrags, inSourceOrder_sorted (items_perm defs) (by simpa [List.pairwise_map] using hsorted)]
    rw [← e3]
    simp [List.flatMap_def, List.map_map, Function.comp_def]
  · have hdefs := hdne hne
    rw [hops, hfrags]
    cases defs with
    | nil => exact absurd rfl hdefs
    | cons x r => cases x <;> simp [opsOf, fragsOf]

end Gql.Parser
