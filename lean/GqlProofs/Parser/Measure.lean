import GqlProofs.Parser.LexProgress
import GqlProofs.Parser.Run
/-
  The progress measure of the parser: `mu s` = unconsumed input (bytes the lexer has not read, plus
  one for a real look-ahead token, plus one), and 0 once the sticky error (or the out-of-fuel flag)
  is set.  No primitive increases it; consuming a non-EOF token decreases it.
-/
namespace Gql.Parser
open Gql Gql.Lexer

def real (t : Token) : Bool := t.kind != .eof
def bonus (s : PState) : Nat := if s.peeked && s.peekErr.isNone && real s.peekTok then 1 else 0
def dead (s : PState) : Bool := s.err.isSome || s.oof
def mu (s : PState) : Nat := if dead s then 0 else s.rest.length + bonus s + 1

theorem mu_dead {s : PState} (h : dead s = true) : mu s = 0 := by simp [mu, h]
theorem mu_pos {s : PState} (h : dead s = false) : mu s = s.rest.length + bonus s + 1 := by simp [mu, h]
theorem dead_of_mu {s : PState} (h : mu s = 0) : dead s = true := by
  cases hd : dead s
  · rw [mu_pos hd] at h; omega
  · rfl
theorem bonus_le (s : PState) : bonus s ≤ 1 := by unfold bonus; split <;> omega

theorem lexRead_spec (s : PState) :
    s.lexRead.2.2.err = s.err ∧ s.lexRead.2.2.oof = s.oof ∧ s.lexRead.2.2.peeked = s.peeked ∧
    s.lexRead.2.2.peekTok = s.peekTok ∧ s.lexRead.2.2.peekErr = s.peekErr ∧
    s.lexRead.2.2.rest.length ≤ s.rest.length ∧
    (s.lexRead.2.1 = none → real s.lexRead.1 = true → s.lexRead.2.2.rest.length < s.rest.length) := by
  have hp := readToken_progress s.rest s.cur
  unfold PState.lexRead
  split
  · rename_i t rest c heq
    rw [heq] at hp
    simp [Step.progress] at hp
    refine ⟨rfl, rfl, rfl, rfl, rfl, hp.1, ?_⟩
    intro _ hr; simp [real] at hr; exact hp.2 hr
  · refine ⟨rfl, rfl, rfl, rfl, rfl, Nat.le_refl _, ?_⟩
    intro h; cases h

/-! ### the named updates -/

theorem dead_of_oof {s : PState} (h : s.oof = true) : dead s = true := by simp [dead, h]

theorem mu_readPeek {s : PState} (hp : s.peeked = false) : mu s.readPeek ≤ mu s := by
  obtain ⟨h1, h2, h3, h4, h5, h6, h7⟩ := lexRead_spec s
  cases hd : dead s
  · have hd' : dead s.readPeek = false := by simpa [dead, PState.readPeek, h1, h2] using hd
    rw [mu_pos hd, mu_pos hd']
    have hb : bonus s = 0 := by simp [bonus, hp]
    rw [hb]
    by_cases hc : (s.lexRead.2.1.isNone && real s.lexRead.1) = true
    · have hb' : bonus s.readPeek = 1 := by simp [bonus, PState.readPeek]; simpa using hc
      simp at hc
      have := h7 (by simpa [Option.isNone_iff_eq_none] using hc.1) hc.2
      rw [hb']; show s.readPeek.rest.length + 1 + 1 ≤ _; simp [PState.readPeek]; omega
    · have hb' : bonus s.readPeek = 0 := by simp [bonus, PState.readPeek]; simpa using hc
      rw [hb']; show s.readPeek.rest.length + 0 + 1 ≤ _; simp [PState.readPeek]; omega
  · have hd' : dead s.readPeek = true := by simpa [dead, PState.readPeek, h1, h2] using hd
    rw [mu_dead hd, mu_dead hd']; exact Nat.le_refl _

theorem mu_trip (L : Nat) (s : PState) : mu (s.trip L) = 0 := by simp [mu, dead, PState.trip]

theorem mu_takePeeked {s : PState} (he : s.err.isSome = false) : mu s.takePeeked ≤ mu s ∧
    (dead s = false → s.peeked = true → real s.peekTok = true → mu s.takePeeked < mu s) := by
  cases ho : s.oof
  · have hd : dead s = false := by simp [dead, he, ho]
    cases hpe : s.peekErr with
    | some e =>
      have : mu s.takePeeked = 0 := by simp [mu, dead, PState.takePeeked, hpe]
      rw [this, mu_pos hd]; constructor <;> intros <;> omega
    | none =>
      have hd' : dead s.takePeeked = false := by simp [dead, PState.takePeeked, hpe, ho]
      rw [mu_pos hd, mu_pos hd']
      have hb' : bonus s.takePeeked = 0 := by simp [bonus, PState.takePeeked]
      rw [hb']
      constructor
      · show s.takePeeked.rest.length + 0 + 1 ≤ _; simp [PState.takePeeked]
      · intro _ hp hr
        have hb : bonus s = 1 := by simp [bonus, hp, hpe, hr]
        rw [hb]; show s.takePeeked.rest.length + 0 + 1 < _; simp [PState.takePeeked]
  · have hd' : dead s.takePeeked = true := dead_of_oof (by simp [PState.takePeeked, ho])
    rw [mu_dead hd']; constructor
    · omega
    · intro h; rw [dead_of_oof ho] at h; cases h

theorem mu_readPrev {s : PState} (he : s.err.isSome = false) (hp : s.peeked = false) : mu s.readPrev ≤ mu s ∧
    (dead s = false → real s.readPrev.prev = true → mu s.readPrev < mu s) := by
  obtain ⟨h1, h2, h3, h4, h5, h6, h7⟩ := lexRead_spec s
  cases ho : s.oof
  · have hd : dead s = false := by simp [dead, he, ho]
    have hb : bonus s = 0 := by simp [bonus, hp]
    cases hle : s.lexRead.2.1 with
    | some e =>
      have : mu s.readPrev = 0 := by simp [mu, dead, PState.readPrev, hle]
      rw [this, mu_pos hd]; constructor <;> intros <;> omega
    | none =>
      have hd' : dead s.readPrev = false := by simp [dead, PState.readPrev, hle, h2, ho]
      have hb' : bonus s.readPrev = 0 := by simp [bonus, PState.readPrev, h3, hp]
      rw [mu_pos hd, mu_pos hd', hb, hb']
      constructor
      · show s.readPrev.rest.length + 0 + 1 ≤ _; simp [PState.readPrev]; omega
      · intro _ hr
        have := h7 hle (by simpa [PState.readPrev] using hr)
        show s.readPrev.rest.length + 0 + 1 < _; simp [PState.readPrev]; omega
  · have hd' : dead s.readPrev = true := dead_of_oof (by simp [PState.readPrev, h2, ho])
    rw [mu_dead hd']; constructor
    · omega
    · intro h; rw [dead_of_oof ho] at h; cases h

/-! ### `peekNC`, `nextNC`, the comment loop -/

theorem readPeek_oof (s : PState) : s.readPeek.oof = s.oof := by simp [PState.readPeek, (lexRead_spec s).2.1]
theorem readPrev_oof (s : PState) : s.readPrev.oof = s.oof := by simp [PState.readPrev, (lexRead_spec s).2.1]
theorem readPeek_err' (s : PState) : s.readPeek.err = s.err := by simp [PState.readPeek, (lexRead_spec s).1]

/-- the look-ahead holds token `t` and no error is set -/
def Ready (t : Token) (s : PState) : Prop := s.peeked = true ∧ s.peekTok = t ∧ s.err.isSome = false

theorem peekNC_spec (s : PState) :
    mu s.peekNC.2 ≤ mu s ∧ s.peekNC.2.oof = s.oof ∧ s.peekNC.2.err = s.err ∧
      (s.err.isSome = false → Ready s.peekNC.1 s.peekNC.2) := by
  unfold PState.peekNC
  cases he : s.err.isSome
  case true => simp
  case false =>
    cases hp : s.peeked
    case true => simp [Ready, hp, he]
    case false =>
      simp only [Bool.false_eq_true, ↓reduceIte]
      refine ⟨mu_readPeek hp, readPeek_oof s, readPeek_err' s, fun _ => ⟨rfl, rfl, ?_⟩⟩
      rw [readPeek_err' s]; exact he

theorem nextNC_spec (L : Nat) (s : PState) :
    mu (s.nextNC L).2 ≤ mu s ∧ (s.nextNC L).2.oof = s.oof ∧
      (∀ t, Ready t s → dead s = false → real t = true → mu (s.nextNC L).2 < mu s) := by
  unfold PState.nextNC
  cases he : s.err.isSome
  case true => simp [Ready, he]
  case false =>
    cases hL : overLimit L (s.tokenCount + 1)
    case true =>
      simp only [↓reduceIte, Bool.false_eq_true, mu_trip]
      refine ⟨Nat.zero_le _, rfl, fun t _ hd _ => ?_⟩
      rw [mu_pos hd]; omega
    case false =>
      cases hp : s.peeked
      case true =>
        simp only [↓reduceIte, Bool.false_eq_true]
        refine ⟨(mu_takePeeked he).1, rfl, fun t hr hd hreal => ?_⟩
        exact (mu_takePeeked he).2 hd hp (by rw [hr.2.1]; exact hreal)
      case false =>
        simp only [↓reduceIte, Bool.false_eq_true]
        refine ⟨(mu_readPrev he hp).1, readPrev_oof s, fun t hr => ?_⟩
        rw [hr.1] at hp; cases hp

theorem commentLoop_spec (L : Nat) (n : Nat) (s : PState) :
    mu (commentLoop L n s) ≤ mu s ∧
    (mu s < n → s.oof = false → (commentLoop L n s).oof = false) ∧
    (dead (commentLoop L n s) = true ∨ ((commentLoop L n s).peeked = true ∧ (commentLoop L n s).err.isSome = false)) := by
  induction n generalizing s with
  | zero =>
    refine ⟨?_, fun h => by omega, .inl ?_⟩
    · rw [mu_dead (s := commentLoop L 0 s) (by simp [commentLoop, dead])]; omega
    · simp [commentLoop, dead]
  | succ n ih =>
    cases he : s.err.isSome
    case true => simp [commentLoop, dead, he]
    case false =>
      obtain ⟨p1, p2, p3, p4⟩ := peekNC_spec s
      have hrdy := p4 he
      have hdef : commentLoop L (n + 1) s = if s.peekNC.1.kind ≠ .comment then s.peekNC.2
          else commentLoop L n (s.peekNC.2.nextNC L).2 := by simp [commentLoop, he]
      rw [hdef]
      by_cases hc : s.peekNC.1.kind ≠ .comment
      · rw [if_pos hc]
        refine ⟨p1, fun _ ho => by rw [p2]; exact ho, .inr ⟨hrdy.1, hrdy.2.2⟩⟩
      · rw [if_neg hc]
        obtain ⟨q1, q2, q3⟩ := nextNC_spec L s.peekNC.2
        obtain ⟨i1, i2, i3⟩ := ih (s.peekNC.2.nextNC L).2
        refine ⟨by omega, fun hlt ho => ?_, i3⟩
        apply i2
        · have hd : dead s.peekNC.2 = false := by simp [dead, hrdy.2.2, p2, ho]
          have hreal : real s.peekNC.1 = true := by
            simp at hc; simp [real, hc]
          have := q3 _ hrdy hd hreal
          omega
        · rw [q2, p2]; exact ho

theorem mu_le_rest (s : PState) : mu s ≤ s.rest.length + 2 := by
  unfold mu; split
  · omega
  · have := bonus_le s; omega

theorem groupIf_spec (L : Nat) (t : Token) (s : PState) :
    mu (s.groupIf L t) ≤ mu s ∧ (s.oof = false → (s.groupIf L t).oof = false) ∧
    (s.peeked = true → dead (s.groupIf L t) = true ∨ ((s.groupIf L t).peeked = true ∧ (s.groupIf L t).err.isSome = false)) := by
  unfold PState.groupIf PState.consumeCommentGroup
  split
  · split
    · rename_i he
      exact ⟨Nat.le_refl _, id, fun _ => .inl (by simp [dead, he])⟩
    · obtain ⟨c1, c2, c3⟩ := commentLoop_spec L (s.rest.length + 3) s
      exact ⟨c1, c2 (by have := mu_le_rest s; omega), fun _ => c3⟩
  · refine ⟨Nat.le_refl _, id, fun hp => ?_⟩
    cases hd : dead s
    · right; simp [dead] at hd; exact ⟨hp, by simp [hd.1]⟩
    · left; rfl

/-! ### `peek`, `next`, `error` -/

theorem peek_spec (L : Nat) (s : PState) :
    mu (s.peek L).2 ≤ mu s ∧ (s.oof = false → (s.peek L).2.oof = false) ∧
      (dead (s.peek L).2 = true ∨ Ready (s.peek L).1 (s.peek L).2) := by
  unfold PState.peek
  cases he : s.err.isSome
  case true => simp [dead, he]
  case false =>
    cases hp : s.peeked
    case true => simp [Ready, hp, he]
    case false =>
      simp only [Bool.false_eq_true, ↓reduceIte]
      obtain ⟨g1, g2, g3⟩ := groupIf_spec L s.readPeek.peekTok s.readPeek
      refine ⟨Nat.le_trans g1 (mu_readPeek hp), fun ho => g2 (by rw [readPeek_oof]; exact ho), ?_⟩
      rcases g3 rfl with h | h
      · exact .inl h
      · exact .inr ⟨h.1, rfl, h.2⟩

theorem peek_ready (L : Nat) {t : Token} {s : PState} (h : Ready t s) : s.peek L = (t, s) := by
  simp [PState.peek, h.1, h.2.1, h.2.2]

theorem next_spec (L : Nat) (s : PState) :
    mu (s.next L).2 ≤ mu s ∧ (s.oof = false → (s.next L).2.oof = false) ∧
      (dead s = false → real (s.next L).1 = true → mu (s.next L).2 < mu s) ∧
      (∀ t, Ready t s → dead s = false → real t = true → mu (s.next L).2 < mu s) := by
  unfold PState.next
  cases he : s.err.isSome
  case true => simp [Ready, dead, he]
  case false =>
    cases hL : overLimit L (s.tokenCount + 1)
    case true =>
      simp only [↓reduceIte, Bool.false_eq_true, mu_trip]
      refine ⟨Nat.zero_le _, fun h => h, fun hd _ => ?_, fun t _ hd _ => ?_⟩ <;> (rw [mu_pos hd]; omega)
    case false =>
      cases hp : s.peeked
      case true =>
        simp only [↓reduceIte, Bool.false_eq_true]
        refine ⟨(mu_takePeeked he).1, fun h => h, fun hd hreal => ?_, fun t hr hd hreal => ?_⟩
        · exact (mu_takePeeked he).2 hd hp hreal
        · exact (mu_takePeeked he).2 hd hp (by rw [hr.2.1]; exact hreal)
      case false =>
        simp only [↓reduceIte, Bool.false_eq_true]
        obtain ⟨g1, g2, g3⟩ := groupIf_spec L s.readPrev.prev s.readPrev
        obtain ⟨r1, r2⟩ := mu_readPrev he hp
        refine ⟨Nat.le_trans g1 r1, fun ho => g2 (by rw [readPrev_oof]; exact ho), fun hd hreal => ?_, fun t hr => ?_⟩
        · by_cases hc : s.readPrev.prev.kind = .comment
          · have := r2 hd (by simp [real, hc]); omega
          · have heq : s.readPrev.groupIf L s.readPrev.prev = s.readPrev := by simp [PState.groupIf, hc]
            rw [heq] at hreal
            have := r2 hd hreal; omega
        · rw [hr.1] at hp; cases hp

theorem error_spec (s : PState) (tok : Token) (msg : Bytes) :
    mu (s.error tok msg) ≤ mu s ∧ (s.error tok msg).oof = s.oof ∧ (s.error tok msg).err.isSome = true := by
  unfold PState.error
  cases he : s.err.isSome
  case true => simp [he]
  case false =>
    simp only [Bool.false_eq_true, ↓reduceIte]
    split <;> simp [mu, dead]

/-! ### whole programs -/

theorem run_mu_le {α : Type} (L : Nat) (p : Prog α) (s : PState) : mu (run L p s).2 ≤ mu s := by
  induction p generalizing s with
  | pure a => simp [run]
  | peek k ih => simp only [run]; exact Nat.le_trans (ih _ _) (peek_spec L s).1
  | next k ih => simp only [run]; exact Nat.le_trans (ih _ _) (next_spec L s).1
  | hasErr k ih => simp only [run]; exact ih _ _
  | getPrev k ih => simp only [run]; exact ih _ _
  | getSrc k ih => simp only [run]; exact ih _ _
  | fail tok msg k ih => simp only [run]; exact Nat.le_trans (ih _) (error_spec s tok msg).1
  | oof k ih =>
    simp only [run]
    refine Nat.le_trans (ih _) ?_
    rw [mu_dead (s := { s with oof := true }) (by simp [dead])]; omega

end Gql.Parser
