import GqlProofs.Parser.SoundQuery
import GqlProofs.Grammar.PrintSchema
/-
  Soundness of the schema parser programs of `GqlModel/Parser/Schema.lean` against the grammar
  `gql` (type-system document) and the unparser `Print.printSchema`.

  Unlike the executable grammar, almost every production here can contain a Description, whose
  spelling the tree does not record (block string or quoted string; an empty description is
  dropped), and three productions have an optional leading separator (`&`, `|`).  So the
  predicates carry a derivation whose canonical output is the unparse, not a token equation.
-/
namespace Gql.Parser
open Gql Gql.Lexer Gql.Grammar Gql.Print

/-! ### derivation combinators with distinct token / output lists -/

namespace D
theorem kwCons {b : Sym NT} (s : String) {ts out : List Tok} (h : Derives gql b ts out) :
    Derives gql (.seq (Grammar.kw (str s)) b) (tKw s :: ts) (tKw s :: out) := Derives.seq (L.kw s) h
theorem kindCons {b : Sym NT} (k : Kind) {ts out : List Tok} (h : Derives gql b ts out) :
    Derives gql (.seq (Grammar.kind k) b) (tP k :: ts) (tP k :: out) := Derives.seq (L.kind k) h
theorem nameCons {b : Sym NT} (n : Name) {ts out : List Tok} (h : Derives gql b ts out) :
    Derives gql (.seq (.nt .name) b) (tName n :: ts) (tName n :: out) := Derives.seq (L.name n) h
end D

/-- an optional part `X?`: absent (exactly when `empty`), or a derivation of `X` -/
def OptD (n : NT) (ts out : List Tok) (empty : Prop) : Prop :=
  (empty ∧ ts = [] ∧ out = []) ∨ (¬ empty ∧ Derives gql (.nt n) ts out)

theorem OptD.opt {n : NT} {ts out : List Tok} {e : Prop} (h : OptD n ts out e) : Derives gql (.opt (.nt n)) ts out := by
  rcases h with ⟨_, rfl, rfl⟩ | ⟨_, h⟩
  · exact Derives.optNone
  · exact Derives.optSome h

theorem OptD.req {n : NT} {ts out : List Tok} {e : Prop} (h : OptD n ts out e) (he : ¬ e) : Derives gql (.nt n) ts out := by
  rcases h with ⟨h, _⟩ | ⟨_, h⟩
  · exact absurd h he
  · exact h

theorem OptD.nil {n : NT} {ts out : List Tok} {e : Prop} (h : OptD n ts out e) (he : e) : ts = [] ∧ out = [] := by
  rcases h with ⟨_, h⟩ | ⟨h, _⟩
  · exact h
  · exact absurd he h

/-! ### descriptions -/

/-- `Description?` -/
def PDesc (d : Bytes) (u : List Token) : Prop := Derives gql (.opt (.nt .description)) (tk u) (printDesc d)

theorem derives_desc (t : Token) (hk : t.kind = .string ∨ t.kind = .blockString) :
    Derives gql (.opt (.nt .description)) [Tok.ofToken t] (printDesc t.value) := by
  have h1 : Derives gql (stringValue : Sym NT) [Tok.ofToken t] [Tok.ofToken t] :=
    Derives.tok (by rcases hk with h | h <;> simp [Tok.ofToken, h])
  have := Derives.optSome (Derives.nt (n := NT.description) (Derives.canon (f := canonDescription) h1))
  exact this.cast rfl (by by_cases h : t.value = [] <;> simp [canonDescription, printDesc, Tok.ofToken, h])

theorem spec_parseDescription :
    Spec parseDescription (fun d a a' => ∃ u, Ate a a' u ∧ PDesc d u ∧
      (a.σ.head.kind ≠ .string → a.σ.head.kind ≠ .blockString → u = [] ∧ d = [])) := by
  unfold parseDescription
  refine (Spec.bind spec_peek fun token => Spec.ite (fun _ => Spec.pure [])
    (fun _ => Spec.bind spec_next fun t => Spec.pure t.value)).mono ?_
  rintro d a a'' hne ⟨token, a1, ⟨rfl, rfl⟩, ⟨hk, rfl, rfl⟩ | ⟨hk, t, a2, hn, rfl, rfl⟩⟩
  · exact ⟨[], Ate.peeked a, Derives.optNone, fun _ _ => ⟨rfl, rfl⟩⟩
  · have hk' : a.σ.head.kind = .blockString ∨ a.σ.head.kind = .string := by
      by_cases h1 : a.σ.head.kind = .blockString
      · exact .inl h1
      · by_cases h2 : a.σ.head.kind = .string
        · exact .inr h2
        · exact absurd ⟨h1, h2⟩ hk
    have hks : ∃ k, a.σ.head.kind = k ∧ k ≠ .eof ∧ k ≠ .invalid := by
      rcases hk' with h | h <;> exact ⟨_, h, by decide, by decide⟩
    obtain ⟨k, hk1, hk2, hk3⟩ := hks
    obtain ⟨e1, e2, _⟩ := next_eats (a := { a with pk := true }) hne rfl hk1 hk2 hk3 hn
    refine ⟨[t], (Ate.peeked a).trans e2, ?_, fun h1 h2 => ?_⟩
    · exact derives_desc t (by rw [e1]; rcases hk' with h | h; exact .inr h; exact .inl h)
    · rcases hk' with h | h
      · exact absurd h h2
      · exact absurd h h1

/-! ### separated lists: `sep? x (sep x)*` -/

theorem spec_sepLoop {α : Type} {P : α → List Token → Prop} (sep : Kind) (h1 : sep ≠ .eof) (h2 : sep ≠ .invalid)
    (hv : sep.valued = false) {item : Prog α} (hitem : Spec item (Eats P)) (n : Nat) (acc : List α) :
    Spec (sepLoop sep item n acc) (fun xs a a' => ∃ items used, xs = items.reverse ++ acc ∧ Ate a a' used ∧
      Many (fun x u => ∃ u', tk u = tP sep :: tk u' ∧ P x u') items used) := by
  induction n generalizing acc with
  | zero => exact Spec.of_dead (outOfFuel_dead _)
  | succ n ih =>
    unfold sepLoop
    refine (Spec.bind (spec_skipP sep h1 h2 hv) fun b => Spec.ite
      (fun _ => Spec.bind spec_hasErr fun e => Spec.ite (fun _ => Spec.pure acc)
        (fun _ => Spec.bind hitem fun x => ih (x :: acc))) (fun _ => Spec.pure acc)).mono ?_
    rintro xs a a'' _ ⟨b, a1, hs, ⟨hb, e, a2, ⟨rfl, rfl⟩, ⟨he, _⟩ |
      ⟨_, x, a3, ⟨u, g1, g2⟩, items, used, rfl, g3, g4⟩⟩ | ⟨hb, rfl, rfl⟩⟩
    · cases he
    · rcases hs with ⟨_, _, u0, g0, p0⟩ | ⟨rfl, _⟩
      · refine ⟨x :: items, (u0 ++ u) ++ used, by simp, (g0.trans g1).trans g3, .cons ⟨u, by simp [p0], g2⟩ g4⟩
      · simp at hb
    · rcases hs with ⟨rfl, _⟩ | ⟨_, _, rfl⟩
      · simp at hb
      · exact ⟨[], [], rfl, Ate.peeked a, .nil⟩

theorem many_sepNames {Q : Name → Prop} {sep : Kind} {items : List Name} {used : List Token}
    (h : Many (fun x u => ∃ u', tk u = tP sep :: tk u' ∧ (tk u' = [tName x] ∧ Q x)) items used) :
    tk used = items.flatMap (fun m => [tP sep, tName m]) ∧ ∀ x ∈ items, Q x := by
  induction h with
  | nil => exact ⟨rfl, fun _ h => by cases h⟩
  | @cons x xs u us hx _ ih =>
    obtain ⟨u', e1, e2, e3⟩ := hx
    refine ⟨by simp [e1, e2, ih.1], fun y hy => ?_⟩
    rcases List.mem_cons.1 hy with rfl | hy
    · exact e3
    · exact ih.2 y hy

/-- `noise(sep?) x (sep x)*` over names -/
theorem derives_sepList (a : Sym NT) (sep : Kind) (lead : Bool) (first : Name) (rest : List Name)
    (h : ∀ m ∈ first :: rest, L a [tName m]) :
    Derives gql (.seq (noise (.opt (Grammar.kind sep))) (.seq a (.star (.seq (Grammar.kind sep) a))))
      ((if lead then [tP sep] else []) ++ printSep sep (first :: rest)) (printSep sep (first :: rest)) := by
  have hn : Derives gql (noise (.opt (Grammar.kind sep)) : Sym NT) (if lead then [tP sep] else []) [] := by
    cases lead
    · exact Derives.canon (f := fun _ => []) Derives.optNone
    · exact Derives.canon (f := fun _ => []) (Derives.optSome (L.kind sep))
  exact (Derives.seq hn (L_sep a sep first rest h)).cast rfl rfl

/-- what the three `sep? x (sep x)*` parsers establish, from their parts -/
theorem sepList_assemble {Q : Name → Prop} {sep : Kind} {b : Bool} {a0 a1 a2 a3 : AS} {first : Name} {xs : List Name}
    (hs : SkipsP sep b a0 a1) (hf : Eats (fun n u => tk u = [tName n] ∧ Q n) first a1 a2)
    (hl : ∃ items used, xs = items.reverse ++ [first] ∧ Ate a2 a3 used ∧
      Many (fun x u => ∃ u', tk u = tP sep :: tk u' ∧ (tk u' = [tName x] ∧ Q x)) items used) :
    ∃ u rest, xs.reverse = first :: rest ∧ Ate a0 a3 u ∧
      tk u = (if b then [tP sep] else []) ++ printSep sep (first :: rest) ∧ ∀ m ∈ first :: rest, Q m := by
  obtain ⟨u1, g1, p1, q1⟩ := hf
  obtain ⟨items, used, rfl, g2, hm⟩ := hl
  obtain ⟨m1, m2⟩ := many_sepNames hm
  have hq : ∀ m ∈ first :: items, Q m := by
    intro m hm'
    rcases List.mem_cons.1 hm' with rfl | hm'
    · exact q1
    · exact m2 m hm'
  rcases hs with ⟨rfl, _, u0, g0, p0⟩ | ⟨rfl, _, rfl⟩
  · exact ⟨_, items, by simp, g0.trans (g1.trans g2), by simp [p0, p1, m1, printSep_cons], hq⟩
  · exact ⟨_, items, by simp, (Ate.peeked a0).trans (g1.trans g2), by simp [p1, m1, printSep_cons], hq⟩

/-- `ImplementsInterfaces?` -/
theorem spec_parseImplementsInterfaces (n : Nat) :
    Spec (parseImplementsInterfaces n) (fun ifs a a' => ∃ u, Ate a a' u ∧
      OptD .implementsInterfaces (tk u) (printImplements ifs) (ifs = [])) := by
  unfold parseImplementsInterfaces
  refine (Spec.bind spec_peek fun t => Spec.ite
    (fun _ => Spec.bind spec_next fun _ => Spec.bind (spec_skipP .amp (by decide) (by decide) rfl) fun _ =>
      Spec.bind (spec_parseName.mono fun _ _ _ _ e => e.mono (Q := fun n u => tk u = [tName n] ∧ True) fun _ _ h => ⟨h, trivial⟩)
        fun first =>
      Spec.bind (spec_sepLoop .amp (by decide) (by decide) rfl
        (spec_parseName.mono fun _ _ _ _ e => e.mono (Q := fun n u => tk u = [tName n] ∧ True) fun _ _ h => ⟨h, trivial⟩)
        n [first]) fun more => Spec.pure more.reverse)
    (fun _ => Spec.pure [])).mono ?_
  rintro ifs a a'' hne ⟨t, a1, ⟨rfl, rfl⟩, ⟨hk, tn, a2, hn, b, a3, hs, first, a4, hf, more, a5, hl, rfl, rfl⟩ | ⟨_, rfl, rfl⟩⟩
  · obtain ⟨e1, e2, _⟩ := next_eats (a := { a with pk := true }) (k := .name) hne rfl hk.1 (by decide) (by decide) hn
    obtain ⟨u, rest, hr, g, p, _⟩ := sepList_assemble hs hf hl
    have htn : Tok.ofToken tn = tKw "implements" := by
      rw [e1]; simp [Tok.ofToken, tKw, hk.1, hk.2, kwImplements]
    refine ⟨_, (Ate.peeked a).trans (e2.trans g), .inr ⟨by rw [hr]; simp, ?_⟩⟩
    rw [hr]
    have := Derives.nt (n := NT.implementsInterfaces) (D.kwCons "implements"
      (derives_sepList (.nt .namedType) .amp b first rest fun m _ => L.namedType m))
    exact this.cast (by simp [htn, p]) (by simp [printImplements])
  · exact ⟨[], Ate.peeked a, .inl ⟨rfl, rfl, by simp [printImplements]⟩⟩

/-- `UnionMemberTypes?` -/
theorem spec_parseUnionMemberTypes (n : Nat) :
    Spec (parseUnionMemberTypes n) (fun ts a a' => ∃ u, Ate a a' u ∧
      OptD .unionMemberTypes (tk u) (printMembers ts) (ts = [])) := by
  unfold parseUnionMemberTypes
  refine (Spec.bind (spec_skipP .equals (by decide) (by decide) rfl) fun b0 => Spec.ite
    (fun _ => Spec.bind (spec_skipP .pipe (by decide) (by decide) rfl) fun _ =>
      Spec.bind (spec_parseName.mono fun _ _ _ _ e => e.mono (Q := fun n u => tk u = [tName n] ∧ True) fun _ _ h => ⟨h, trivial⟩)
        fun first =>
      Spec.bind (spec_sepLoop .pipe (by decide) (by decide) rfl
        (spec_parseName.mono fun _ _ _ _ e => e.mono (Q := fun n u => tk u = [tName n] ∧ True) fun _ _ h => ⟨h, trivial⟩)
        n [first]) fun more => Spec.pure more.reverse)
    (fun _ => Spec.pure [])).mono ?_
  rintro ts a a'' hne ⟨b0, a1, hs0, ⟨hb, b, a3, hs, first, a4, hf, more, a5, hl, rfl, rfl⟩ | ⟨hb, rfl, rfl⟩⟩
  · rcases hs0 with ⟨_, _, u0, g0, p0⟩ | ⟨rfl, _⟩
    · obtain ⟨u, rest, hr, g, p, _⟩ := sepList_assemble hs hf hl
      refine ⟨_, g0.trans g, .inr ⟨by rw [hr]; simp, ?_⟩⟩
      rw [hr]
      have := Derives.nt (n := NT.unionMemberTypes) (D.kindCons .equals
        (derives_sepList (.nt .namedType) .pipe b first rest fun m _ => L.namedType m))
      exact this.cast (by simp [p0, p]) (by simp [printMembers])
    · simp at hb
  · rcases hs0 with ⟨rfl, _⟩ | ⟨_, _, rfl⟩
    · simp at hb
    · exact ⟨[], Ate.peeked a, .inl ⟨rfl, rfl, by simp [printMembers]⟩⟩

theorem locationNames_eq : Gql.Parser.directiveLocationNames = Gql.Grammar.directiveLocationNames := rfl

theorem spec_parseDirectiveLocation :
    Spec parseDirectiveLocation (Eats fun l u => tk u = [tName l] ∧ l ∈ Gql.Grammar.directiveLocationNames) := by
  unfold parseDirectiveLocation
  refine (Spec.bind (spec_expect .name (by decide) (by decide)) fun name => Spec.ite (fun _ => Spec.pure name.value)
    (fun _ => Spec.of_dead_bind (R := fun _ _ _ => False) (failAt_dead _ _))).mono ?_
  rintro l a a'' _ ⟨name, a1, ⟨u, g, rfl, k1, _⟩, ⟨hc, rfl, rfl⟩ | ⟨_, hf⟩⟩
  · refine ⟨_, g, by simp [ofToken_name k1], ?_⟩
    rw [← locationNames_eq]
    exact List.contains_iff_mem.1 hc
  · exact hf.elim

/-- `DirectiveLocations` -/
theorem spec_parseDirectiveLocations (n : Nat) :
    Spec (parseDirectiveLocations n) (Eats fun ls u =>
      ls ≠ [] ∧ (∀ l ∈ ls, l ∈ Gql.Grammar.directiveLocationNames) ∧
      Derives gql (.nt .directiveLocations) (tk u) (printSep .pipe ls)) := by
  unfold parseDirectiveLocations
  refine (Spec.bind (spec_skipP .pipe (by decide) (by decide) rfl) fun _ =>
    Spec.bind spec_parseDirectiveLocation fun first =>
    Spec.bind (spec_sepLoop .pipe (by decide) (by decide) rfl spec_parseDirectiveLocation n [first]) fun more =>
      Spec.pure more.reverse).mono ?_
  rintro ls a a'' _ ⟨b, a3, hs, first, a4, hf, more, a5, hl, rfl, rfl⟩
  obtain ⟨u, rest, hr, g, p, hq⟩ := sepList_assemble hs hf hl
  refine ⟨_, g, by rw [hr]; simp, by rw [hr]; exact hq, ?_⟩
  rw [hr]
  have := Derives.nt (n := NT.directiveLocations)
    (derives_sepList (.nt .directiveLocation) .pipe b first rest fun m hm =>
      L.nt (L.tok (by
        have := hq m hm
        simp only [tName, beq_self_eq_true, Bool.true_and]
        exact List.contains_iff_mem.mpr this)))
  exact this.cast (by simp [p]) rfl

end Gql.Parser
