import GqlProofs.Parser.SoundQuery
import GqlProofs.Grammar.PrintSchema
/-
  Soundness of the schema parser programs of `GqlModel/Parser/Schema.lean` against the grammar
  `gql` (type-system document) and the unparser `Print.printSchema`.

  Unlike the executable grammar, almost every production here can contain a Description, whose
  spelling the tree does not record (block string or quoted string; an empty description is
  dropped), and three productions have an optional leading separator (`&`, `|`).  So the
  predicates carry a derivation whose canonical output is the unparse, not a token equation.
-/
namespace Gql.Parser
open Gql Gql.Lexer Gql.Grammar Gql.Print

/-! ### derivation combinators with distinct token / output lists -/

namespace D
theorem kwCons {b : Sym NT} (s : String) {ts out : List Tok} (h : Derives gql b ts out) :
    Derives gql (.seq (Grammar.kw (str s)) b) (tKw s :: ts) (tKw s :: out) := Derives.seq (L.kw s) h
theorem kindCons {b : Sym NT} (k : Kind) {ts out : List Tok} (h : Derives gql b ts out) :
    Derives gql (.seq (Grammar.kind k) b) (tP k :: ts) (tP k :: out) := Derives.seq (L.kind k) h
theorem nameCons {b : Sym NT} (n : Name) {ts out : List Tok} (h : Derives gql b ts out) :
    Derives gql (.seq (.nt .name) b) (tName n :: ts) (tName n :: out) := Derives.seq (L.name n) h
end D

/-- an optional part `X?`: absent (exactly when `empty`), or a derivation of `X` -/
def OptD (n : NT) (ts out : List Tok) (empty : Prop) : Prop :=
  (empty ∧ ts = [] ∧ out = []) ∨ (¬ empty ∧ Derives gql (.nt n) ts out)

theorem OptD.opt {n : NT} {ts out : List Tok} {e : Prop} (h : OptD n ts out e) : Derives gql (.opt (.nt n)) ts out := by
  rcases h with ⟨_, rfl, rfl⟩ | ⟨_, h⟩
  · exact Derives.optNone
  · exact Derives.optSome h

theorem OptD.req {n : NT} {ts out : List Tok} {e : Prop} (h : OptD n ts out e) (he : ¬ e) : Derives gql (.nt n) ts out := by
  rcases h with ⟨h, _⟩ | ⟨_, h⟩
  · exact absurd h he
  · exact h

theorem OptD.nil {n : NT} {ts out : List Tok} {e : Prop} (h : OptD n ts out e) (he : e) : ts = [] ∧ out = [] := by
  rcases h with ⟨_, h⟩ | ⟨h, _⟩
  · exact h
  · exact absurd he h

/-! ### descriptions -/

/-- `Description?` -/
def PDesc (d : Bytes) (u : List Token) : Prop := Derives gql (.opt (.nt .description)) (tk u) (printDesc d)

theorem derives_desc (t : Token) (hk : t.kind = .string ∨ t.kind = .blockString) :
    Derives gql (.opt (.nt .description)) [Tok.ofToken t] (printDesc t.value) := by
  have h1 : Derives gql (stringValue : Sym NT) [Tok.ofToken t] [Tok.ofToken t] :=
    Derives.tok (by rcases hk with h | h <;> simp [Tok.ofToken, h])
  have := Derives.optSome (Derives.nt (n := NT.description) (Derives.canon (f := canonDescription) h1))
  exact this.cast rfl (by by_cases h : t.value = [] <;> simp [canonDescription, printDesc, Tok.ofToken, h])

theorem spec_parseDescription :
    Spec parseDescription (fun d a a' => ∃ u, Ate a a' u ∧ PDesc d u ∧
      (a.σ.head.kind ≠ .string → a.σ.head.kind ≠ .blockString → u = [] ∧ d = [])) := by
  unfold parseDescription
  refine (Spec.bind spec_peek fun token => Spec.ite (fun _ => Spec.pure [])
    (fun _ => Spec.bind spec_next fun t => Spec.pure t.value)).mono ?_
  rintro d a a'' hne ⟨token, a1, ⟨rfl, rfl⟩, ⟨hk, rfl, rfl⟩ | ⟨hk, t, a2, hn, rfl, rfl⟩⟩
  · exact ⟨[], Ate.peeked a, Derives.optNone, fun _ _ => ⟨rfl, rfl⟩⟩
  · have hk' : a.σ.head.kind = .blockString ∨ a.σ.head.kind = .string := by
      by_cases h1 : a.σ.head.kind = .blockString
      · exact .inl h1
      · by_cases h2 : a.σ.head.kind = .string
        · exact .inr h2
        · exact absurd ⟨h1, h2⟩ hk
    have hks : ∃ k, a.σ.head.kind = k ∧ k ≠ .eof ∧ k ≠ .invalid := by
      rcases hk' with h | h <;> exact ⟨_, h, by decide, by decide⟩
    obtain ⟨k, hk1, hk2, hk3⟩ := hks
    obtain ⟨e1, e2, _⟩ := next_eats (a := { a with pk := true }) hne rfl hk1 hk2 hk3 hn
    refine ⟨[t], (Ate.peeked a).trans e2, ?_, fun h1 h2 => ?_⟩
    · exact derives_desc t (by rw [e1]; rcases hk' with h | h; exact .inr h; exact .inl h)
    · rcases hk' with h | h
      · exact absurd h h2
      · exact absurd h h1

/-! ### separated lists: `sep? x (sep x)*` -/

theorem spec_sepLoop {α : Type} {P : α → List Token → Prop} (sep : Kind) (h1 : sep ≠ .eof) (h2 : sep ≠ .invalid)
    (hv : sep.valued = false) {item : Prog α} (hitem : Spec item (Eats P)) (n : Nat) (acc : List α) :
    Spec (sepLoop sep item n acc) (fun xs a a' => ∃ items used, xs = items.reverse ++ acc ∧ Ate a a' used ∧
      Many (fun x u => ∃ u', tk u = tP sep :: tk u' ∧ P x u') items used) := by
  induction n generalizing acc with
  | zero => exact Spec.of_dead (outOfFuel_dead _)
  | succ n ih =>
    unfold sepLoop
    refine (Spec.bind (spec_skipP sep h1 h2 hv) fun b => Spec.ite
      (fun _ => Spec.bind spec_hasErr fun e => Spec.ite (fun _ => Spec.pure acc)
        (fun _ => Spec.bind hitem fun x => ih (x :: acc))) (fun _ => Spec.pure acc)).mono ?_
    rintro xs a a'' _ ⟨b, a1, hs, ⟨hb, e, a2, ⟨rfl, rfl⟩, ⟨he, _⟩ |
      ⟨_, x, a3, ⟨u, g1, g2⟩, items, used, rfl, g3, g4⟩⟩ | ⟨hb, rfl, rfl⟩⟩
    · cases he
    · rcases hs with ⟨_, _, u0, g0, p0⟩ | ⟨rfl, _⟩
      · refine ⟨x :: items, (u0 ++ u) ++ used, by simp, (g0.trans g1).trans g3, .cons ⟨u, by simp [p0], g2⟩ g4⟩
      · simp at hb
    · rcases hs with ⟨rfl, _⟩ | ⟨_, _, rfl⟩
      · simp at hb
      · exact ⟨[], [], rfl, Ate.peeked a, .nil⟩

theorem many_sepNames {Q : Name → Prop} {sep : Kind} {items : List Name} {used : List Token}
    (h : Many (fun x u => ∃ u', tk u = tP sep :: tk u' ∧ (tk u' = [tName x] ∧ Q x)) items used) :
    tk used = items.flatMap (fun m => [tP sep, tName m]) ∧ ∀ x ∈ items, Q x := by
  induction h with
  | nil => exact ⟨rfl, fun _ h => by cases h⟩
  | @cons x xs u us hx _ ih =>
    obtain ⟨u', e1, e2, e3⟩ := hx
    refine ⟨by simp [e1, e2, ih.1], fun y hy => ?_⟩
    rcases List.mem_cons.1 hy with rfl | hy
    · exact e3
    · exact ih.2 y hy

/-- `noise(sep?) x (sep x)*` over names -/
theorem derives_sepList (a : Sym NT) (sep : Kind) (lead : Bool) (first : Name) (rest : List Name)
    (h : ∀ m ∈ first :: rest, L a [tName m]) :
    Derives gql (.seq (noise (.opt (Grammar.kind sep))) (.seq a (.star (.seq (Grammar.kind sep) a))))
      ((if lead then [tP sep] else []) ++ printSep sep (first :: rest)) (printSep sep (first :: rest)) := by
  have hn : Derives gql (noise (.opt (Grammar.kind sep)) : Sym NT) (if lead then [tP sep] else []) [] := by
    cases lead
    · exact Derives.canon (f := fun _ => []) Derives.optNone
    · exact Derives.canon (f := fun _ => []) (Derives.optSome (L.kind sep))
  exact (Derives.seq hn (L_sep a sep first rest h)).cast rfl rfl

/-- what the three `sep? x (sep x)*` parsers establish, from their parts -/
theorem sepList_assemble {Q : Name → Prop} {sep : Kind} {b : Bool} {a0 a1 a2 a3 : AS} {first : Name} {xs : List Name}
    (hs : SkipsP sep b a0 a1) (hf : Eats (fun n u => tk u = [tName n] ∧ Q n) first a1 a2)
    (hl : ∃ items used, xs = items.reverse ++ [first] ∧ Ate a2 a3 used ∧
      Many (fun x u => ∃ u', tk u = tP sep :: tk u' ∧ (tk u' = [tName x] ∧ Q x)) items used) :
    ∃ u rest, xs.reverse = first :: rest ∧ Ate a0 a3 u ∧
      tk u = (if b then [tP sep] else []) ++ printSep sep (first :: rest) ∧ ∀ m ∈ first :: rest, Q m := by
  obtain ⟨u1, g1, p1, q1⟩ := hf
  obtain ⟨items, used, rfl, g2, hm⟩ := hl
  obtain ⟨m1, m2⟩ := many_sepNames hm
  have hq : ∀ m ∈ first :: items, Q m := by
    intro m hm'
    rcases List.mem_cons.1 hm' with rfl | hm'
    · exact q1
    · exact m2 m hm'
  rcases hs with ⟨rfl, _, u0, g0, p0⟩ | ⟨rfl, _, rfl⟩
  · exact ⟨_, items, by simp, g0.trans (g1.trans g2), by simp [p0, p1, m1, printSep_cons], hq⟩
  · exact ⟨_, items, by simp, (Ate.peeked a0).trans (g1.trans g2), by simp [p1, m1, printSep_cons], hq⟩

/-- `ImplementsInterfaces?` -/
theorem spec_parseImplementsInterfaces (n : Nat) :
    Spec (parseImplementsInterfaces n) (fun ifs a a' => ∃ u, Ate a a' u ∧
      OptD .implementsInterfaces (tk u) (printImplements ifs) (ifs = [])) := by
  unfold parseImplementsInterfaces
  refine (Spec.bind spec_peek fun t => Spec.ite
    (fun _ => Spec.bind spec_next fun _ => Spec.bind (spec_skipP .amp (by decide) (by decide) rfl) fun _ =>
      Spec.bind (spec_parseName.mono fun _ _ _ _ e => e.mono (Q := fun n u => tk u = [tName n] ∧ True) fun _ _ h => ⟨h, trivial⟩)
        fun first =>
      Spec.bind (spec_sepLoop .amp (by decide) (by decide) rfl
        (spec_parseName.mono fun _ _ _ _ e => e.mono (Q := fun n u => tk u = [tName n] ∧ True) fun _ _ h => ⟨h, trivial⟩)
        n [first]) fun more => Spec.pure more.reverse)
    (fun _ => Spec.pure [])).mono ?_
  rintro ifs a a'' hne ⟨t, a1, ⟨rfl, rfl⟩, ⟨hk, tn, a2, hn, b, a3, hs, first, a4, hf, more, a5, hl, rfl, rfl⟩ | ⟨_, rfl, rfl⟩⟩
  · obtain ⟨e1, e2, _⟩ := next_eats (a := { a with pk := true }) (k := .name) hne rfl hk.1 (by decide) (by decide) hn
    obtain ⟨u, rest, hr, g, p, _⟩ := sepList_assemble hs hf hl
    have htn : Tok.ofToken tn = tKw "implements" := by
      rw [e1]; simp [Tok.ofToken, tKw, hk.1, hk.2, kwImplements]
    refine ⟨_, (Ate.peeked a).trans (e2.trans g), .inr ⟨by rw [hr]; simp, ?_⟩⟩
    rw [hr]
    have := Derives.nt (n := NT.implementsInterfaces) (D.kwCons "implements"
      (derives_sepList (.nt .namedType) .amp b first rest fun m _ => L.namedType m))
    exact this.cast (by simp [htn, p]) (by simp [printImplements])
  · exact ⟨[], Ate.peeked a, .inl ⟨rfl, rfl, by simp [printImplements]⟩⟩

/-- `UnionMemberTypes?` -/
theorem spec_parseUnionMemberTypes (n : Nat) :
    Spec (parseUnionMemberTypes n) (fun ts a a' => ∃ u, Ate a a' u ∧
      OptD .unionMemberTypes (tk u) (printMembers ts) (ts = [])) := by
  unfold parseUnionMemberTypes
  refine (Spec.bind (spec_skipP .equals (by decide) (by decide) rfl) fun b0 => Spec.ite
    (fun _ => Spec.bind (spec_skipP .pipe (by decide) (by decide) rfl) fun _ =>
      Spec.bind (spec_parseName.mono fun _ _ _ _ e => e.mono (Q := fun n u => tk u = [tName n] ∧ True) fun _ _ h => ⟨h, trivial⟩)
        fun first =>
      Spec.bind (spec_sepLoop .pipe (by decide) (by decide) rfl
        (spec_parseName.mono fun _ _ _ _ e => e.mono (Q := fun n u => tk u = [tName n] ∧ True) fun _ _ h => ⟨h, trivial⟩)
        n [first]) fun more => Spec.pure more.reverse)
    (fun _ => Spec.pure [])).mono ?_
  rintro ts a a'' hne ⟨b0, a1, hs0, ⟨hb, b, a3, hs, first, a4, hf, more, a5, hl, rfl, rfl⟩ | ⟨hb, rfl, rfl⟩⟩
  · rcases hs0 with ⟨_, _, u0, g0, p0⟩ | ⟨rfl, _⟩
    · obtain ⟨u, rest, hr, g, p, _⟩ := sepList_assemble hs hf hl
      refine ⟨_, g0.trans g, .inr ⟨by rw [hr]; simp, ?_⟩⟩
      rw [hr]
      have := Derives.nt (n := NT.unionMemberTypes) (D.kindCons .equals
        (derives_sepList (.nt .namedType) .pipe b first rest fun m _ => L.namedType m))
      exact this.cast (by simp [p0, p]) (by simp [printMembers])
    · simp at hb
  · rcases hs0 with ⟨rfl, _⟩ | ⟨_, _, rfl⟩
    · simp at hb
    · exact ⟨[], Ate.peeked a, .inl ⟨rfl, rfl, by simp [printMembers]⟩⟩

theorem locationNames_eq : Gql.Parser.directiveLocationNames = Gql.Grammar.directiveLocationNames := rfl

theorem spec_parseDirectiveLocation :
    Spec parseDirectiveLocation (Eats fun l u => tk u = [tName l] ∧ l ∈ Gql.Grammar.directiveLocationNames) := by
  unfold parseDirectiveLocation
  refine (Spec.bind (spec_expect .name (by decide) (by decide)) fun name => Spec.ite (fun _ => Spec.pure name.value)
    (fun _ => Spec.of_dead_bind (R := fun _ _ _ => False) (failAt_dead _ _))).mono ?_
  rintro l a a'' _ ⟨name, a1, ⟨u, g, rfl, k1, _⟩, ⟨hc, rfl, rfl⟩ | ⟨_, hf⟩⟩
  · refine ⟨_, g, by simp [ofToken_name k1], ?_⟩
    rw [← locationNames_eq]
    exact List.contains_iff_mem.1 hc
  · exact hf.elim

/-- `DirectiveLocations` -/
theorem spec_parseDirectiveLocations (n : Nat) :
    Spec (parseDirectiveLocations n) (Eats fun ls u =>
      ls ≠ [] ∧ (∀ l ∈ ls, l ∈ Gql.Grammar.directiveLocationNames) ∧
      Derives gql (.nt .directiveLocations) (tk u) (printSep .pipe ls)) := by
  unfold parseDirectiveLocations
  refine (Spec.bind (spec_skipP .pipe (by decide) (by decide) rfl) fun _ =>
    Spec.bind spec_parseDirectiveLocation fun first =>
    Spec.bind (spec_sepLoop .pipe (by decide) (by decide) rfl spec_parseDirectiveLocation n [first]) fun more =>
      Spec.pure more.reverse).mono ?_
  rintro ls a a'' _ ⟨b, a3, hs, first, a4, hf, more, a5, hl, rfl, rfl⟩
  obtain ⟨u, rest, hr, g, p, hq⟩ := sepList_assemble hs hf hl
  refine ⟨_, g, by rw [hr]; simp, by rw [hr]; exact hq, ?_⟩
  rw [hr]
  have := Derives.nt (n := NT.directiveLocations)
    (derives_sepList (.nt .directiveLocation) .pipe b first rest fun m hm =>
      L.nt (L.tok (by
        have := hq m hm
        simp only [tName, beq_self_eq_true, Bool.true_and]
        exact List.contains_iff_mem.mpr this)))
  exact this.cast (by simp [p]) rfl

/-! ### blocks `start item+ stop` whose items carry derivations -/

/-- an item: under the guard `G`, the consumed tokens derive `item` with canonical form `f x` -/
def PItem {α : Type} (item : NT) (f : α → List Tok) (G Q : α → Prop) (x : α) (u : List Token) : Prop :=
  (G x → Derives gql (.nt item) (tk u) (f x)) ∧ Q x

theorem many_derives {α : Type} {item : NT} {f : α → List Tok} {G Q : α → Prop} {xs : List α} {mid : List Token}
    (h : Many (PItem item f G Q) xs mid) :
    ((∀ x ∈ xs, G x) → Derives gql (.star (.nt item)) (tk mid) (xs.flatMap f)) ∧ ∀ x ∈ xs, Q x := by
  induction h with
  | nil => exact ⟨fun _ => Derives.starNil, fun _ h => by cases h⟩
  | @cons x xs u us hx _ ih =>
    refine ⟨fun hg => ?_, fun y hy => ?_⟩
    · simp only [tk_append, List.flatMap_cons]
      exact Derives.starCons (hx.1 (hg x (by simp))) (ih.1 fun y hy => hg y (by simp [hy]))
    · rcases List.mem_cons.1 hy with rfl | hy
      · exact hx.2
      · exact ih.2 y hy

/-- the result of `some` over such items: an optional block -/
theorem bracketed_block {α : Type} {item : NT} {f : α → List Tok} {G Q : α → Prop} {start stop : Kind} {xs : List α}
    {a a' : AS} (hv1 : start.valued = false) (hv2 : stop.valued = false)
    (hb : Bracketed (PItem item f G Q) start stop xs a a') (hne : a.σ.head.kind = start → xs ≠ []) :
    ∃ u, Ate a a' u ∧ (∀ x ∈ xs, Q x) ∧ (xs = [] → u = []) ∧
      ((∀ x ∈ xs, G x) → xs ≠ [] →
        Derives gql (.seq (Grammar.kind start) (.seq (.plus (.nt item)) (Grammar.kind stop))) (tk u)
          (tP start :: xs.flatMap f ++ [tP stop])) := by
  rcases hb with ⟨rfl, hk, rfl⟩ | ⟨hk, u, hu, t1, mid, t2, rfl, k1, k2, o1, o2, hm⟩
  · exact ⟨[], Ate.peeked a, fun _ h => (by cases h), fun _ => rfl, fun _ h => absurd rfl h⟩
  · obtain ⟨m1, m2⟩ := many_derives hm
    refine ⟨_, hu, m2, fun h => absurd h (hne hk), fun hg hx => ?_⟩
    have hs := m1 hg
    have hmid : tk mid ≠ [] ∨ True := .inr trivial
    cases hm with
    | nil => exact absurd rfl hx
    | @cons x xs u us hx' hrest =>
      obtain ⟨r1, _⟩ := many_derives hrest
      have hp := Derives.plus (hx'.1 (hg x (by simp))) (r1 fun y hy => hg y (by simp [hy]))
      exact (Derives.seq (L.kind start) (Derives.seq hp (L.kind stop))).cast
        (by simp [ofToken_punct k1 o1 hv1, ofToken_punct k2 o2 hv2]) (by simp)

/-- … as an optional nonterminal whose rule is `start item+ stop` -/
theorem block_optD {α : Type} {item : NT} {f : α → List Tok} {xs : List α} {start stop : Kind} {u : List Token} (nt : NT)
    (hrule : gql.rules nt = .seq (Grammar.kind start) (.seq (.plus (.nt item)) (Grammar.kind stop)))
    (h0 : xs = [] → u = [])
    (h1 : xs ≠ [] → Derives gql (.seq (Grammar.kind start) (.seq (.plus (.nt item)) (Grammar.kind stop))) (tk u)
      (tP start :: xs.flatMap f ++ [tP stop])) :
    OptD nt (tk u) (if xs.isEmpty then [] else tP start :: xs.flatMap f ++ [tP stop]) (xs = []) := by
  by_cases hx : xs = []
  · subst hx
    exact .inl ⟨rfl, by rw [h0 rfl]; rfl, rfl⟩
  · refine .inr ⟨hx, ?_⟩
    have : xs.isEmpty = false := by cases xs <;> simp_all
    rw [this]
    exact Derives.nt (by rw [hrule]; exact h1 hx)

/-! ### input values, fields, enum values -/

theorem derives_inputValue (desc : Bytes) (name : Name) (ty : GType) (dv : Option Value) (dirs : List Directive)
    {tsD : List Tok} (hD : Derives gql (.opt (.nt .description)) tsD (printDesc desc))
    (hdv : ∀ d, dv = some d → ConstValue d) (hdirs : ConstDirectives dirs) :
    Derives gql (.nt .inputValueDefinition)
      (tsD ++ tName name :: tP .colon :: (printType ty ++ (printDefault dv ++ printDirectives dirs)))
      (printDesc desc ++ tName name :: tP .colon :: (printType ty ++ (printDefault dv ++ printDirectives dirs))) :=
  Derives.nt (n := NT.inputValueDefinition) (Derives.seq hD (D.nameCons name (D.kindCons .colon
    (Derives.seq (L_type ty) (Derives.seq (L_optDefault dv hdv) (L_optDirectives true dirs fun _ => hdirs))))))

/-- an argument definition (InputValueDefinition) -/
def PArgDef : ArgDef → List Token → Prop :=
  PItem .inputValueDefinition printArgDef (fun _ => True) WFArgDef

theorem spec_parseArgumentDef (n : Nat) : Spec (parseArgumentDef n) (Eats PArgDef) := by
  unfold parseArgumentDef
  refine (Spec.bind spec_peekPos fun pos => Spec.bind spec_parseDescription fun desc => Spec.bind spec_peek fun _ =>
    Spec.bind spec_parseName fun name => Spec.bind (spec_punct .colon (by decide) (by decide) rfl) fun _ =>
    Spec.bind (spec_parseTypeReference n) fun ty =>
    Spec.bind (spec_skipP .equals (by decide) (by decide) rfl) fun b => Spec.ite
      (fun _ => Spec.bind (spec_parseValueLiteral true n) fun v => Spec.bind (Spec.pure (Option.some v)) fun dv =>
        Spec.bind (spec_parseDirectives n true) fun dirs => Spec.pure _)
      (fun _ => Spec.bind (Spec.pure none) fun dv =>
        Spec.bind (spec_parseDirectives n true) fun dirs => Spec.pure _)).mono ?_
  rintro x a a'' _ ⟨pos, a1, ⟨rfl, _⟩, desc, a2, ⟨u0, h0, p0, _⟩, _, a2', ⟨_, rfl⟩, name, a3, ⟨u1, h1, p1⟩,
    _, a4, ⟨u2, h2, p2⟩, ty, a5, ⟨u3, h3, p3⟩, b, a6, hs,
    ⟨hb, v, a7, ⟨u4, h4, p4⟩, dv, a8, ⟨rfl, rfl⟩, dirs, a9, ⟨u5, h5, p5⟩, rfl, rfl⟩ |
    ⟨hb, dv, a8, ⟨rfl, rfl⟩, dirs, a9, ⟨u5, h5, p5⟩, rfl, rfl⟩⟩
  · rcases hs with ⟨_, _, ue, he, pe⟩ | ⟨rfl, _⟩
    · have hdv : ∀ d, some v = some d → ConstValue d := fun d hd => by cases hd; exact p4.2 rfl
      refine ⟨_, (Ate.peeked a).trans (h0.trans ((Ate.peeked a2).trans (h1.trans (h2.trans (h3.trans (he.trans (h4.trans h5))))))),
        fun _ => ?_, hdv, p5.2 rfl⟩
      exact (derives_inputValue desc name ty (some v) dirs p0 hdv (p5.2 rfl)).cast
        (by simp [p1, p2, p3, pe, p4.1, p5.1, printDefault]) (by simp [printArgDef])
    · simp at hb
  · rcases hs with ⟨rfl, _⟩ | ⟨_, _, rfl⟩
    · simp at hb
    · have hdv : ∀ d, (none : Option Value) = some d → ConstValue d := fun d hd => by cases hd
      refine ⟨_, (Ate.peeked a).trans (h0.trans ((Ate.peeked a2).trans (h1.trans (h2.trans (h3.trans ((Ate.peeked a5).trans h5)))))),
        fun _ => ?_, hdv, p5.2 rfl⟩
      exact (derives_inputValue desc name ty none dirs p0 hdv (p5.2 rfl)).cast
        (by simp [p1, p2, p3, p5.1, printDefault]) (by simp [printArgDef])

/-- `ArgumentsDefinition?` -/
def PArgDefs (as : List ArgDef) (u : List Token) : Prop :=
  OptD .argumentsDefinition (tk u) (printArgDefs as) (as = []) ∧ ∀ a ∈ as, WFArgDef a

theorem spec_parseArgumentDefs (n : Nat) : Spec (parseArgumentDefs n) (Eats PArgDefs) := by
  unfold parseArgumentDefs
  refine (spec_pSome .parenL .parenR (by decide) (by decide) (by decide) (by decide) n (spec_parseArgumentDef n)).mono ?_
  rintro as a a' _ ⟨hb, hne⟩
  obtain ⟨u, h1, h2, h3, h4⟩ := bracketed_block rfl rfl hb hne
  exact ⟨u, h1, block_optD .argumentsDefinition rfl h3 (h4 fun _ _ => trivial), h2⟩

/-- an input field (InputValueDefinition of an input object) -/
def PInputField : FieldDef → List Token → Prop :=
  PItem .inputValueDefinition printInputField (fun _ => True) WFInputField

theorem spec_parseInputValueDef (n : Nat) : Spec (parseInputValueDef n) (Eats PInputField) := by
  unfold parseInputValueDef
  refine (Spec.bind spec_peekPos fun pos => Spec.bind spec_parseDescription fun desc => Spec.bind spec_peek fun _ =>
    Spec.bind spec_parseName fun name => Spec.bind (spec_punct .colon (by decide) (by decide) rfl) fun _ =>
    Spec.bind (spec_parseTypeReference n) fun ty =>
    Spec.bind (spec_skipP .equals (by decide) (by decide) rfl) fun b => Spec.ite
      (fun _ => Spec.bind (spec_parseValueLiteral true n) fun v => Spec.bind (Spec.pure (Option.some v)) fun dv =>
        Spec.bind (spec_parseDirectives n true) fun dirs => Spec.pure _)
      (fun _ => Spec.bind (Spec.pure none) fun dv =>
        Spec.bind (spec_parseDirectives n true) fun dirs => Spec.pure _)).mono ?_
  rintro x a a'' _ ⟨pos, a1, ⟨rfl, _⟩, desc, a2, ⟨u0, h0, p0, _⟩, _, a2', ⟨_, rfl⟩, name, a3, ⟨u1, h1, p1⟩,
    _, a4, ⟨u2, h2, p2⟩, ty, a5, ⟨u3, h3, p3⟩, b, a6, hs,
    ⟨hb, v, a7, ⟨u4, h4, p4⟩, dv, a8, ⟨rfl, rfl⟩, dirs, a9, ⟨u5, h5, p5⟩, rfl, rfl⟩ |
    ⟨hb, dv, a8, ⟨rfl, rfl⟩, dirs, a9, ⟨u5, h5, p5⟩, rfl, rfl⟩⟩
  · rcases hs with ⟨_, _, ue, he, pe⟩ | ⟨rfl, _⟩
    · have hdv : ∀ d, some v = some d → ConstValue d := fun d hd => by cases hd; exact p4.2 rfl
      refine ⟨_, (Ate.peeked a).trans (h0.trans ((Ate.peeked a2).trans (h1.trans (h2.trans (h3.trans (he.trans (h4.trans h5))))))),
        fun _ => ?_, hdv, p5.2 rfl⟩
      exact (derives_inputValue desc name ty (some v) dirs p0 hdv (p5.2 rfl)).cast
        (by simp [p1, p2, p3, pe, p4.1, p5.1, printDefault]) (by simp [printInputField])
    · simp at hb
  · rcases hs with ⟨rfl, _⟩ | ⟨_, _, rfl⟩
    · simp at hb
    · have hdv : ∀ d, (none : Option Value) = some d → ConstValue d := fun d hd => by cases hd
      refine ⟨_, (Ate.peeked a).trans (h0.trans ((Ate.peeked a2).trans (h1.trans (h2.trans (h3.trans ((Ate.peeked a5).trans h5)))))),
        fun _ => ?_, hdv, p5.2 rfl⟩
      exact (derives_inputValue desc name ty none dirs p0 hdv (p5.2 rfl)).cast
        (by simp [p1, p2, p3, p5.1, printDefault]) (by simp [printInputField])

/-- `InputFieldsDefinition?` -/
def PInputFields (fs : List FieldDef) (u : List Token) : Prop :=
  OptD .inputFieldsDefinition (tk u) (printBlock printInputField fs) (fs = []) ∧ ∀ f ∈ fs, WFInputField f

theorem spec_parseInputFieldsDefinition (n : Nat) : Spec (parseInputFieldsDefinition n) (Eats PInputFields) := by
  unfold parseInputFieldsDefinition
  refine (spec_pSome .braceL .braceR (by decide) (by decide) (by decide) (by decide) n (spec_parseInputValueDef n)).mono ?_
  rintro fs a a' _ ⟨hb, hne⟩
  obtain ⟨u, h1, h2, h3, h4⟩ := bracketed_block rfl rfl hb hne
  exact ⟨u, h1, block_optD .inputFieldsDefinition rfl h3 (h4 fun _ _ => trivial), h2⟩

/-- a field definition -/
def PFieldDef : FieldDef → List Token → Prop :=
  PItem .fieldDefinition printFieldDef (fun _ => True) WFFieldDef

theorem spec_parseFieldDefinition (n : Nat) : Spec (parseFieldDefinition n) (Eats PFieldDef) := by
  unfold parseFieldDefinition
  refine (Spec.bind spec_peekPos fun pos => Spec.bind spec_parseDescription fun desc => Spec.bind spec_peek fun _ =>
    Spec.bind spec_parseName fun name => Spec.bind (spec_parseArgumentDefs n) fun args =>
    Spec.bind (spec_punct .colon (by decide) (by decide) rfl) fun _ =>
    Spec.bind (spec_parseTypeReference n) fun ty =>
    Spec.bind (spec_parseDirectives n true) fun dirs => Spec.pure _).mono ?_
  rintro x a a'' _ ⟨pos, a1, ⟨rfl, _⟩, desc, a2, ⟨u0, h0, p0, _⟩, _, a2', ⟨_, rfl⟩, name, a3, ⟨u1, h1, p1⟩,
    args, a4, ⟨u2, h2, p2⟩, _, a5, ⟨u3, h3, p3⟩, ty, a6, ⟨u4, h4, p4⟩, dirs, a7, ⟨u5, h5, p5⟩, rfl, rfl⟩
  refine ⟨_, (Ate.peeked a).trans (h0.trans ((Ate.peeked a2).trans (h1.trans (h2.trans (h3.trans (h4.trans h5)))))),
    fun _ => ?_, p2.2, p5.2 rfl⟩
  have := Derives.nt (n := NT.fieldDefinition) (Derives.seq p0 (D.nameCons name (Derives.seq p2.1.opt
    (D.kindCons .colon (Derives.seq (L_type ty) (L_optDirectives true dirs fun _ => p5.2 rfl))))))
  exact this.cast (by simp [p1, p3, p4, p5.1]) (by simp [printFieldDef])

/-- `FieldsDefinition?` -/
def PFields (fs : List FieldDef) (u : List Token) : Prop :=
  OptD .fieldsDefinition (tk u) (printBlock printFieldDef fs) (fs = []) ∧ ∀ f ∈ fs, WFFieldDef f

theorem spec_parseFieldsDefinition (n : Nat) : Spec (parseFieldsDefinition n) (Eats PFields) := by
  unfold parseFieldsDefinition
  refine (spec_pSome .braceL .braceR (by decide) (by decide) (by decide) (by decide) n (spec_parseFieldDefinition n)).mono ?_
  rintro fs a a' _ ⟨hb, hne⟩
  obtain ⟨u, h1, h2, h3, h4⟩ := bracketed_block rfl rfl hb hne
  exact ⟨u, h1, block_optD .fieldsDefinition rfl h3 (h4 fun _ _ => trivial), h2⟩

/-- an enum value definition; the parser takes any Name, the grammar excludes `true`, `false`,
    `null`, so the derivation is conditional -/
def PEnumVal : EnumValDef → List Token → Prop :=
  PItem .enumValueDefinition printEnumVal (fun e => notLiteralName e.name) (fun e => ConstDirectives e.dirs)

theorem spec_parseEnumValueDefinition (n : Nat) : Spec (parseEnumValueDefinition n) (Eats PEnumVal) := by
  unfold parseEnumValueDefinition
  refine (Spec.bind spec_peekPos fun pos => Spec.bind spec_parseDescription fun desc => Spec.bind spec_peek fun _ =>
    Spec.bind spec_parseName fun name => Spec.bind (spec_parseDirectives n true) fun dirs => Spec.pure _).mono ?_
  rintro x a a'' _ ⟨pos, a1, ⟨rfl, _⟩, desc, a2, ⟨u0, h0, p0, _⟩, _, a2', ⟨_, rfl⟩, name, a3, ⟨u1, h1, p1⟩,
    dirs, a4, ⟨u2, h2, p2⟩, rfl, rfl⟩
  refine ⟨_, (Ate.peeked a).trans (h0.trans ((Ate.peeked a2).trans (h1.trans h2))), fun hg => ?_, p2.2 rfl⟩
  obtain ⟨g1, g2, g3⟩ := hg
  have hv : L (.nt .enumValue) [tName name] := L.nt (L.tok (by simp [tName, g1, g2, g3]))
  have := Derives.nt (n := NT.enumValueDefinition) (Derives.seq p0 (Derives.seq hv (L_optDirectives true dirs fun _ => p2.2 rfl)))
  exact this.cast (by simp [p1, p2.1]) (by simp [printEnumVal])

/-- `EnumValuesDefinition?` -/
def PEnumVals (es : List EnumValDef) (u : List Token) : Prop :=
  ((∀ e ∈ es, notLiteralName e.name) → OptD .enumValuesDefinition (tk u) (printBlock printEnumVal es) (es = [])) ∧
    (es = [] → u = []) ∧ ∀ e ∈ es, ConstDirectives e.dirs

theorem spec_parseEnumValuesDefinition (n : Nat) : Spec (parseEnumValuesDefinition n) (Eats PEnumVals) := by
  unfold parseEnumValuesDefinition
  refine (spec_pSome .braceL .braceR (by decide) (by decide) (by decide) (by decide) n (spec_parseEnumValueDefinition n)).mono ?_
  rintro es a a' _ ⟨hb, hne⟩
  obtain ⟨u, h1, h2, h3, h4⟩ := bracketed_block rfl rfl hb hne
  exact ⟨u, h1, fun hg => block_optD .enumValuesDefinition rfl h3 (h4 hg), h3, h2⟩

/-! ### type definitions and extensions: the common body `keyword Name …` -/

theorem kwTok {t : Token} {s : String} (k : t.kind = .name) (v : t.value = str s) : Tok.ofToken t = tKw s := by
  simp [Tok.ofToken, tKw, k, v]

/-- what the kind-specific parts of a type definition / extension are, after `keyword Name`:
    `tsI` before the directives (ImplementsInterfaces), `tsB` after them (fields, members, values) -/
def BodyParts (d : Definition) (tsI tsB : List Tok) : Prop :=
  match d.kind with
  | .scalar => tsI = [] ∧ tsB = []
  | .object =>
      OptD .implementsInterfaces tsI (printImplements d.interfaces) (d.interfaces = []) ∧
      OptD .fieldsDefinition tsB (printBlock printFieldDef d.fields) (d.fields = []) ∧ ∀ f ∈ d.fields, WFFieldDef f
  | .interface =>
      OptD .implementsInterfaces tsI (printImplements d.interfaces) (d.interfaces = []) ∧
      OptD .fieldsDefinition tsB (printBlock printFieldDef d.fields) (d.fields = []) ∧ ∀ f ∈ d.fields, WFFieldDef f
  | .union => tsI = [] ∧ OptD .unionMemberTypes tsB (printMembers d.types) (d.types = [])
  | .enum => tsI = [] ∧
      ((∀ e ∈ d.enumValues, notLiteralName e.name) →
        OptD .enumValuesDefinition tsB (printBlock printEnumVal d.enumValues) (d.enumValues = [])) ∧
      (d.enumValues = [] → tsB = []) ∧ ∀ e ∈ d.enumValues, ConstDirectives e.dirs
  | .inputObject => tsI = [] ∧
      OptD .inputFieldsDefinition tsB (printBlock printInputField d.fields) (d.fields = []) ∧
      ∀ f ∈ d.fields, WFInputField f

/-- the body of a type definition or extension was parsed from `u` -/
def BodyOf (d : Definition) (u : List Token) : Prop :=
  ∃ tsI tsB, tk u = DefKind.keyword d.kind :: tName d.name :: (tsI ++ (printDirectives d.dirs ++ tsB)) ∧
    ConstDirectives d.dirs ∧ (∃ t ∈ u, d.pos.start = t.start) ∧ BodyParts d tsI tsB

/-- the one place where the parser is more liberal than the grammar -/
def EnumOK (d : Definition) : Prop := d.kind = .enum → ∀ e ∈ d.enumValues, notLiteralName e.name

theorem spec_parseScalarTypeDefinition (n : Nat) (desc : Bytes) :
    Spec (parseScalarTypeDefinition n desc) (Eats fun d u => BodyOf d u ∧ d.desc = desc) := by
  unfold parseScalarTypeDefinition
  refine (Spec.bind (spec_expectKeyword kwScalar) fun _ => Spec.bind spec_peekPos fun pos =>
    Spec.bind spec_parseName' fun name => Spec.bind (spec_parseDirectives n true) fun dirs => Spec.pure _).mono ?_
  rintro d a a'' _ ⟨tkw, a1, ⟨u0, h0, rfl, k0, v0⟩, pos, a2, ⟨rfl, hpos⟩, name, a3, ⟨u1, h1, tnm, rfl, k1, rfl, _⟩,
    dirs, a5, ⟨u3, h3, p3⟩, rfl, rfl⟩
  refine ⟨_, h0.trans ((Ate.peeked a1).trans (h1.trans h3)), ⟨[], [], ?_, p3.2 rfl, ⟨tnm, by simp, ?_⟩, ?_⟩, rfl⟩
  · simp [kwTok k0 v0, ofToken_name k1, p3.1, DefKind.keyword]
  · rw [hpos]; exact congrArg Token.start h1.head
  · exact ⟨rfl, rfl⟩

theorem spec_parseObjectTypeDefinition (n : Nat) (desc : Bytes) :
    Spec (parseObjectTypeDefinition n desc) (Eats fun d u => BodyOf d u ∧ d.desc = desc) := by
  unfold parseObjectTypeDefinition
  refine (Spec.bind (spec_expectKeyword kwType) fun _ => Spec.bind spec_peekPos fun pos =>
    Spec.bind spec_parseName' fun name => Spec.bind (spec_parseImplementsInterfaces n) fun ifs =>
    Spec.bind (spec_parseDirectives n true) fun dirs => Spec.bind (spec_parseFieldsDefinition n) fun fields =>
    Spec.pure _).mono ?_
  rintro d a a'' _ ⟨tkw, a1, ⟨u0, h0, rfl, k0, v0⟩, pos, a2, ⟨rfl, hpos⟩, name, a3, ⟨u1, h1, tnm, rfl, k1, rfl, _⟩,
    ifs, a4, ⟨u2, h2, p2⟩, dirs, a5, ⟨u3, h3, p3⟩, fields, a6, ⟨u4, h4, p4⟩, rfl, rfl⟩
  refine ⟨_, h0.trans ((Ate.peeked a1).trans (h1.trans (h2.trans (h3.trans h4)))),
    ⟨tk u2, tk u4, ?_, p3.2 rfl, ⟨tnm, by simp, ?_⟩, ?_⟩, rfl⟩
  · simp [kwTok k0 v0, ofToken_name k1, p3.1, DefKind.keyword]
  · rw [hpos]; exact congrArg Token.start h1.head
  · exact ⟨p2, p4.1, p4.2⟩

theorem spec_parseInterfaceTypeDefinition (n : Nat) (desc : Bytes) :
    Spec (parseInterfaceTypeDefinition n desc) (Eats fun d u => BodyOf d u ∧ d.desc = desc) := by
  unfold parseInterfaceTypeDefinition
  refine (Spec.bind (spec_expectKeyword kwInterface) fun _ => Spec.bind spec_peekPos fun pos =>
    Spec.bind spec_parseName' fun name => Spec.bind (spec_parseImplementsInterfaces n) fun ifs =>
    Spec.bind (spec_parseDirectives n true) fun dirs => Spec.bind (spec_parseFieldsDefinition n) fun fields =>
    Spec.pure _).mono ?_
  rintro d a a'' _ ⟨tkw, a1, ⟨u0, h0, rfl, k0, v0⟩, pos, a2, ⟨rfl, hpos⟩, name, a3, ⟨u1, h1, tnm, rfl, k1, rfl, _⟩,
    ifs, a4, ⟨u2, h2, p2⟩, dirs, a5, ⟨u3, h3, p3⟩, fields, a6, ⟨u4, h4, p4⟩, rfl, rfl⟩
  refine ⟨_, h0.trans ((Ate.peeked a1).trans (h1.trans (h2.trans (h3.trans h4)))),
    ⟨tk u2, tk u4, ?_, p3.2 rfl, ⟨tnm, by simp, ?_⟩, ?_⟩, rfl⟩
  · simp [kwTok k0 v0, ofToken_name k1, p3.1, DefKind.keyword]
  · rw [hpos]; exact congrArg Token.start h1.head
  · exact ⟨p2, p4.1, p4.2⟩

theorem spec_parseUnionTypeDefinition (n : Nat) (desc : Bytes) :
    Spec (parseUnionTypeDefinition n desc) (Eats fun d u => BodyOf d u ∧ d.desc = desc) := by
  unfold parseUnionTypeDefinition
  refine (Spec.bind (spec_expectKeyword kwUnion) fun _ => Spec.bind spec_peekPos fun pos =>
    Spec.bind spec_parseName' fun name => Spec.bind (spec_parseDirectives n true) fun dirs =>
    Spec.bind (spec_parseUnionMemberTypes n) fun types => Spec.pure _).mono ?_
  rintro d a a'' _ ⟨tkw, a1, ⟨u0, h0, rfl, k0, v0⟩, pos, a2, ⟨rfl, hpos⟩, name, a3, ⟨u1, h1, tnm, rfl, k1, rfl, _⟩,
    dirs, a5, ⟨u3, h3, p3⟩, types, a6, ⟨u4, h4, p4⟩, rfl, rfl⟩
  refine ⟨_, h0.trans ((Ate.peeked a1).trans (h1.trans (h3.trans h4))),
    ⟨[], tk u4, ?_, p3.2 rfl, ⟨tnm, by simp, ?_⟩, ?_⟩, rfl⟩
  · simp [kwTok k0 v0, ofToken_name k1, p3.1, DefKind.keyword]
  · rw [hpos]; exact congrArg Token.start h1.head
  · exact ⟨rfl, p4⟩

theorem spec_parseEnumTypeDefinition (n : Nat) (desc : Bytes) :
    Spec (parseEnumTypeDefinition n desc) (Eats fun d u => BodyOf d u ∧ d.desc = desc) := by
  unfold parseEnumTypeDefinition
  refine (Spec.bind (spec_expectKeyword kwEnum) fun _ => Spec.bind spec_peekPos fun pos =>
    Spec.bind spec_parseName' fun name => Spec.bind (spec_parseDirectives n true) fun dirs =>
    Spec.bind (spec_parseEnumValuesDefinition n) fun evs => Spec.pure _).mono ?_
  rintro d a a'' _ ⟨tkw, a1, ⟨u0, h0, rfl, k0, v0⟩, pos, a2, ⟨rfl, hpos⟩, name, a3, ⟨u1, h1, tnm, rfl, k1, rfl, _⟩,
    dirs, a5, ⟨u3, h3, p3⟩, evs, a6, ⟨u4, h4, p4⟩, rfl, rfl⟩
  refine ⟨_, h0.trans ((Ate.peeked a1).trans (h1.trans (h3.trans h4))),
    ⟨[], tk u4, ?_, p3.2 rfl, ⟨tnm, by simp, ?_⟩, ?_⟩, rfl⟩
  · simp [kwTok k0 v0, ofToken_name k1, p3.1, DefKind.keyword]
  · rw [hpos]; exact congrArg Token.start h1.head
  · exact ⟨rfl, p4.1, fun h => by rw [p4.2.1 h]; rfl, p4.2.2⟩

theorem spec_parseInputObjectTypeDefinition (n : Nat) (desc : Bytes) :
    Spec (parseInputObjectTypeDefinition n desc) (Eats fun d u => BodyOf d u ∧ d.desc = desc) := by
  unfold parseInputObjectTypeDefinition
  refine (Spec.bind (spec_expectKeyword kwInput) fun _ => Spec.bind spec_peekPos fun pos =>
    Spec.bind spec_parseName' fun name => Spec.bind (spec_parseDirectives n true) fun dirs =>
    Spec.bind (spec_parseInputFieldsDefinition n) fun fields => Spec.pure _).mono ?_
  rintro d a a'' _ ⟨tkw, a1, ⟨u0, h0, rfl, k0, v0⟩, pos, a2, ⟨rfl, hpos⟩, name, a3, ⟨u1, h1, tnm, rfl, k1, rfl, _⟩,
    dirs, a5, ⟨u3, h3, p3⟩, fields, a6, ⟨u4, h4, p4⟩, rfl, rfl⟩
  refine ⟨_, h0.trans ((Ate.peeked a1).trans (h1.trans (h3.trans h4))),
    ⟨[], tk u4, ?_, p3.2 rfl, ⟨tnm, by simp, ?_⟩, ?_⟩, rfl⟩
  · simp [kwTok k0 v0, ofToken_name k1, p3.1, DefKind.keyword]
  · rw [hpos]; exact congrArg Token.start h1.head
  · exact ⟨rfl, p4.1, p4.2⟩

/-- `parseTypeSystemDefinition` -/
theorem spec_parseTypeSystemDefinition (n : Nat) (desc : Bytes) :
    Spec (parseTypeSystemDefinition n desc) (Eats fun d u => BodyOf d u ∧ d.desc = desc) := by
  unfold parseTypeSystemDefinition
  refine (Spec.bind spec_peek fun tok => Spec.ite
    (fun _ => Spec.of_dead_bind (R := fun _ _ _ => False) unexpectedError_dead) fun _ => Spec.ite
    (fun _ => spec_parseScalarTypeDefinition n desc) fun _ => Spec.ite
    (fun _ => spec_parseObjectTypeDefinition n desc) fun _ => Spec.ite
    (fun _ => spec_parseInterfaceTypeDefinition n desc) fun _ => Spec.ite
    (fun _ => spec_parseUnionTypeDefinition n desc) fun _ => Spec.ite
    (fun _ => spec_parseEnumTypeDefinition n desc) fun _ => Spec.ite
    (fun _ => spec_parseInputObjectTypeDefinition n desc)
    (fun _ => Spec.of_dead_bind (R := fun _ _ _ => False) unexpectedError_dead)).mono ?_
  rintro d a a'' _ ⟨tok, a1, ⟨rfl, rfl⟩, ⟨_, hf⟩ | ⟨_, ⟨_, u, h, p⟩ | ⟨_, ⟨_, u, h, p⟩ | ⟨_, ⟨_, u, h, p⟩ | ⟨_, ⟨_, u, h, p⟩ |
    ⟨_, ⟨_, u, h, p⟩ | ⟨_, ⟨_, u, h, p⟩ | ⟨_, hf⟩⟩⟩⟩⟩⟩⟩⟩
  · exact hf.elim
  all_goals first
    | exact ⟨u, (Ate.peeked a).trans h, p⟩
    | exact hf.elim

/-! ### type extensions: the same bodies plus "must extend something" -/

theorem spec_parseScalarTypeExtension (n : Nat) :
    Spec (parseScalarTypeExtension n) (Eats fun d u => BodyOf d u ∧ d.desc = [] ∧ ExtendsSomething d) := by
  unfold parseScalarTypeExtension
  refine (Spec.bind (spec_expectKeyword kwScalar) fun _ => Spec.bind spec_peekPos fun pos =>
    Spec.bind spec_parseName' fun name => Spec.bind (spec_parseDirectives n true) fun dirs =>
    Spec.ite (fun _ => Spec.of_dead_bind (R := fun _ _ _ => False) unexpectedError_dead) (fun _ => Spec.pure _)).mono ?_
  rintro d a a'' _ ⟨tkw, a1, ⟨u0, h0, rfl, k0, v0⟩, pos, a2, ⟨rfl, hpos⟩, name, a3, ⟨u1, h1, tnm, rfl, k1, rfl, _⟩,
    dirs, a5, ⟨u3, h3, p3⟩, ⟨_, hf⟩ | ⟨hc, rfl, rfl⟩⟩
  · exact hf.elim
  · refine ⟨_, h0.trans ((Ate.peeked a1).trans (h1.trans (h3))),
      ⟨[], [], ?_, p3.2 rfl, ⟨tnm, by simp, ?_⟩, ?_⟩, rfl, ?_⟩
    · simp [kwTok k0 v0, ofToken_name k1, p3.1, DefKind.keyword]
    · rw [hpos]; exact congrArg Token.start h1.head
    · exact ⟨rfl, rfl⟩
    · simp only [ExtendsSomething]; intro e; exact hc (by simp [e])

theorem spec_parseObjectTypeExtension (n : Nat) :
    Spec (parseObjectTypeExtension n) (Eats fun d u => BodyOf d u ∧ d.desc = [] ∧ ExtendsSomething d) := by
  unfold parseObjectTypeExtension
  refine (Spec.bind (spec_expectKeyword kwType) fun _ => Spec.bind spec_peekPos fun pos =>
    Spec.bind spec_parseName' fun name => Spec.bind (spec_parseImplementsInterfaces n) fun ifs =>
    Spec.bind (spec_parseDirectives n true) fun dirs => Spec.bind (spec_parseFieldsDefinition n) fun fields =>
    Spec.ite (fun _ => Spec.of_dead_bind (R := fun _ _ _ => False) unexpectedError_dead) (fun _ => Spec.pure _)).mono ?_
  rintro d a a'' _ ⟨tkw, a1, ⟨u0, h0, rfl, k0, v0⟩, pos, a2, ⟨rfl, hpos⟩, name, a3, ⟨u1, h1, tnm, rfl, k1, rfl, _⟩,
    ifs, a4, ⟨u2, h2, p2⟩, dirs, a5, ⟨u3, h3, p3⟩, fields, a6, ⟨u4, h4, p4⟩, ⟨_, hf⟩ | ⟨hc, rfl, rfl⟩⟩
  · exact hf.elim
  · refine ⟨_, h0.trans ((Ate.peeked a1).trans (h1.trans (h2.trans (h3.trans h4)))),
      ⟨tk u2, tk u4, ?_, p3.2 rfl, ⟨tnm, by simp, ?_⟩, ?_⟩, rfl, ?_⟩
    · simp [kwTok k0 v0, ofToken_name k1, p3.1, DefKind.keyword]
    · rw [hpos]; exact congrArg Token.start h1.head
    · exact ⟨p2, p4.1, p4.2⟩
    · simp only [ExtendsSomething]
      cases ifs <;> cases dirs <;> cases fields <;> simp_all

theorem spec_parseInterfaceTypeExtension (n : Nat) :
    Spec (parseInterfaceTypeExtension n) (Eats fun d u => BodyOf d u ∧ d.desc = [] ∧ ExtendsSomething d) := by
  unfold parseInterfaceTypeExtension
  refine (Spec.bind (spec_expectKeyword kwInterface) fun _ => Spec.bind spec_peekPos fun pos =>
    Spec.bind spec_parseName' fun name => Spec.bind (spec_parseImplementsInterfaces n) fun ifs =>
    Spec.bind (spec_parseDirectives n true) fun dirs => Spec.bind (spec_parseFieldsDefinition n) fun fields =>
    Spec.ite (fun _ => Spec.of_dead_bind (R := fun _ _ _ => False) unexpectedError_dead) (fun _ => Spec.pure _)).mono ?_
  rintro d a a'' _ ⟨tkw, a1, ⟨u0, h0, rfl, k0, v0⟩, pos, a2, ⟨rfl, hpos⟩, name, a3, ⟨u1, h1, tnm, rfl, k1, rfl, _⟩,
    ifs, a4, ⟨u2, h2, p2⟩, dirs, a5, ⟨u3, h3, p3⟩, fields, a6, ⟨u4, h4, p4⟩, ⟨_, hf⟩ | ⟨hc, rfl, rfl⟩⟩
  · exact hf.elim
  · refine ⟨_, h0.trans ((Ate.peeked a1).trans (h1.trans (h2.trans (h3.trans h4)))),
      ⟨tk u2, tk u4, ?_, p3.2 rfl, ⟨tnm, by simp, ?_⟩, ?_⟩, rfl, ?_⟩
    · simp [kwTok k0 v0, ofToken_name k1, p3.1, DefKind.keyword]
    · rw [hpos]; exact congrArg Token.start h1.head
    · exact ⟨p2, p4.1, p4.2⟩
    · simp only [ExtendsSomething]
      cases ifs <;> cases dirs <;> cases fields <;> simp_all

theorem spec_parseUnionTypeExtension (n : Nat) :
    Spec (parseUnionTypeExtension n) (Eats fun d u => BodyOf d u ∧ d.desc = [] ∧ ExtendsSomething d) := by
  unfold parseUnionTypeExtension
  refine (Spec.bind (spec_expectKeyword kwUnion) fun _ => Spec.bind spec_peekPos fun pos =>
    Spec.bind spec_parseName' fun name => Spec.bind (spec_parseDirectives n true) fun dirs =>
    Spec.bind (spec_parseUnionMemberTypes n) fun types =>
    Spec.ite (fun _ => Spec.of_dead_bind (R := fun _ _ _ => False) unexpectedError_dead) (fun _ => Spec.pure _)).mono ?_
  rintro d a a'' _ ⟨tkw, a1, ⟨u0, h0, rfl, k0, v0⟩, pos, a2, ⟨rfl, hpos⟩, name, a3, ⟨u1, h1, tnm, rfl, k1, rfl, _⟩,
    dirs, a5, ⟨u3, h3, p3⟩, types, a6, ⟨u4, h4, p4⟩, ⟨_, hf⟩ | ⟨hc, rfl, rfl⟩⟩
  · exact hf.elim
  · refine ⟨_, h0.trans ((Ate.peeked a1).trans (h1.trans (h3.trans h4))),
      ⟨[], tk u4, ?_, p3.2 rfl, ⟨tnm, by simp, ?_⟩, ?_⟩, rfl, ?_⟩
    · simp [kwTok k0 v0, ofToken_name k1, p3.1, DefKind.keyword]
    · rw [hpos]; exact congrArg Token.start h1.head
    · exact ⟨rfl, p4⟩
    · simp only [ExtendsSomething]
      cases dirs <;> cases types <;> simp_all

theorem spec_parseEnumTypeExtension (n : Nat) :
    Spec (parseEnumTypeExtension n) (Eats fun d u => BodyOf d u ∧ d.desc = [] ∧ ExtendsSomething d) := by
  unfold parseEnumTypeExtension
  refine (Spec.bind (spec_expectKeyword kwEnum) fun _ => Spec.bind spec_peekPos fun pos =>
    Spec.bind spec_parseName' fun name => Spec.bind (spec_parseDirectives n true) fun dirs =>
    Spec.bind (spec_parseEnumValuesDefinition n) fun evs =>
    Spec.ite (fun _ => Spec.of_dead_bind (R := fun _ _ _ => False) unexpectedError_dead) (fun _ => Spec.pure _)).mono ?_
  rintro d a a'' _ ⟨tkw, a1, ⟨u0, h0, rfl, k0, v0⟩, pos, a2, ⟨rfl, hpos⟩, name, a3, ⟨u1, h1, tnm, rfl, k1, rfl, _⟩,
    dirs, a5, ⟨u3, h3, p3⟩, evs, a6, ⟨u4, h4, p4⟩, ⟨_, hf⟩ | ⟨hc, rfl, rfl⟩⟩
  · exact hf.elim
  · refine ⟨_, h0.trans ((Ate.peeked a1).trans (h1.trans (h3.trans h4))),
      ⟨[], tk u4, ?_, p3.2 rfl, ⟨tnm, by simp, ?_⟩, ?_⟩, rfl, ?_⟩
    · simp [kwTok k0 v0, ofToken_name k1, p3.1, DefKind.keyword]
    · rw [hpos]; exact congrArg Token.start h1.head
    · exact ⟨rfl, p4.1, fun h => by rw [p4.2.1 h]; rfl, p4.2.2⟩
    · simp only [ExtendsSomething]
      cases dirs <;> cases evs <;> simp_all

theorem spec_parseInputObjectTypeExtension (n : Nat) :
    Spec (parseInputObjectTypeExtension n) (Eats fun d u => BodyOf d u ∧ d.desc = [] ∧ ExtendsSomething d) := by
  unfold parseInputObjectTypeExtension
  refine (Spec.bind (spec_expectKeyword kwInput) fun _ => Spec.bind spec_peekPos fun pos =>
    Spec.bind spec_parseName' fun name => Spec.bind (spec_parseDirectives n true) fun dirs =>
    Spec.bind (spec_parseInputFieldsDefinition n) fun fields =>
    Spec.ite (fun _ => Spec.of_dead_bind (R := fun _ _ _ => False) unexpectedError_dead) (fun _ => Spec.pure _)).mono ?_
  rintro d a a'' _ ⟨tkw, a1, ⟨u0, h0, rfl, k0, v0⟩, pos, a2, ⟨rfl, hpos⟩, name, a3, ⟨u1, h1, tnm, rfl, k1, rfl, _⟩,
    dirs, a5, ⟨u3, h3, p3⟩, fields, a6, ⟨u4, h4, p4⟩, ⟨_, hf⟩ | ⟨hc, rfl, rfl⟩⟩
  · exact hf.elim
  · refine ⟨_, h0.trans ((Ate.peeked a1).trans (h1.trans (h3.trans h4))),
      ⟨[], tk u4, ?_, p3.2 rfl, ⟨tnm, by simp, ?_⟩, ?_⟩, rfl, ?_⟩
    · simp [kwTok k0 v0, ofToken_name k1, p3.1, DefKind.keyword]
    · rw [hpos]; exact congrArg Token.start h1.head
    · exact ⟨rfl, p4.1, p4.2⟩
    · simp only [ExtendsSomething]
      cases dirs <;> cases fields <;> simp_all

/-! ### schema definition and extension -/

theorem spec_parseOperationTypeDefinition :
    Spec parseOperationTypeDefinition (Eats fun o u => tk u = printOpType o ∧ isOperationType o.op) := by
  unfold parseOperationTypeDefinition
  refine (Spec.bind spec_peekPos fun pos => Spec.bind spec_parseOperationType fun op =>
    Spec.bind (spec_punct .colon (by decide) (by decide) rfl) fun _ => Spec.bind spec_parseName fun ty =>
    Spec.pure _).mono ?_
  rintro o a a'' _ ⟨pos, a1, ⟨rfl, _⟩, op, a2, hop, _, a3, ⟨u2, h2, p2⟩, ty, a4, ⟨u3, h3, p3⟩, rfl, rfl⟩
  obtain ⟨t1, e1, e2, e3⟩ := hop rfl
  exact ⟨_, (Ate.peeked a).trans (e1.trans (h2.trans h3)), by simp [printOpType, e2, p2, p3], e3⟩

/-- the `{ RootOperationTypeDefinition+ }` block, absent for the empty list -/
def POpTypes (ots : List OpTypeDef) (u : List Token) : Prop :=
  tk u = printBlock printOpType ots ∧ ∀ o ∈ ots, isOperationType o.op

theorem spec_opTypesBlock (n : Nat) :
    Spec (pSome .braceL .braceR n parseOperationTypeDefinition)
      (fun ots a a' => Eats POpTypes ots a a' ∧ (a.σ.head.kind = .braceL → ots ≠ [])) := by
  refine (spec_pSome .braceL .braceR (by decide) (by decide) (by decide) (by decide) n
    spec_parseOperationTypeDefinition).mono ?_
  rintro ots a a' _ ⟨hb, hne⟩
  obtain ⟨u, h1, h2, h3, _⟩ := bracketed_some rfl rfl hb hne
  exact ⟨⟨u, h1, by simpa [printBlock] using h2, h3⟩, hne⟩

theorem printDirectives_ne {ds : List Directive} (h : ds ≠ []) : printDirectives ds ≠ [] := by
  cases ds with
  | nil => exact absurd rfl h
  | cons d r => simp [printDirectives, printDirective]

theorem printBlock_ne {α : Type} (f : α → List Tok) {xs : List α} (h : xs ≠ []) : printBlock f xs ≠ [] := by
  cases xs with
  | nil => exact absurd rfl h
  | cons d r => simp [printBlock]

/-- the position recorded after a keyword is that of the next consumed token -/
theorem pos_mem {a a' : AS} {u : List Token} {pos : Pos} (h : Ate a a' u) (hu : u ≠ []) (hpos : pos.start = a.σ.head.start) :
    ∃ t ∈ u, pos.start = t.start := by
  cases u with
  | nil => exact absurd rfl hu
  | cons t rest => exact ⟨t, by simp, by rw [hpos, h.head]⟩

/-- `schema Directives? { … }` (what follows the description of a schema definition) -/
def PSchemaDef (desc : Bytes) (sd : SchemaDef) (u : List Token) : Prop :=
  sd.desc = desc ∧ tk u = tKw "schema" :: (printDirectives sd.dirs ++ (tP .braceL :: sd.opTypes.flatMap printOpType ++ [tP .braceR])) ∧
    WFSchemaDef sd ∧ ∃ t ∈ u, sd.pos.start = t.start

theorem spec_parseSchemaDefinition (n : Nat) (desc : Bytes) :
    Spec (parseSchemaDefinition n desc) (Eats (PSchemaDef desc)) := by
  unfold parseSchemaDefinition
  refine (Spec.bind (spec_expectKeyword kwSchema) fun _ => Spec.bind spec_peekPos fun pos =>
    Spec.bind (spec_parseDirectives n true) fun dirs => Spec.bind spec_peek fun t => Spec.ite
      (fun _ => Spec.of_dead_bind (R := fun _ _ _ => False) unexpectedError_dead)
      (fun _ => Spec.bind (spec_opTypesBlock n) fun ots => Spec.pure _)).mono ?_
  rintro sd a a'' _ ⟨tkw, a1, ⟨u0, h0, rfl, k0, v0⟩, pos, a2, ⟨rfl, hpos⟩, dirs, a3, ⟨u1, h1, p1⟩, t, a4, ⟨rfl, rfl⟩,
    ⟨_, hf⟩ | ⟨hk, ots, a5, ⟨⟨u2, h2, p2⟩, hne⟩, rfl, rfl⟩⟩
  · exact hf.elim
  · simp only [ne_eq, Decidable.not_not] at hk
    have hots : ots ≠ [] := hne hk
    have hb : printBlock printOpType ots = tP .braceL :: ots.flatMap printOpType ++ [tP .braceR] := by
      cases ots with
      | nil => exact absurd rfl hots
      | cons o r => simp [printBlock]
    have hrest : Ate { a1 with pk := true } a'' (u1 ++ u2) := h1.trans ((Ate.peeked a3).trans h2)
    refine ⟨_, h0.trans ((Ate.peeked a1).trans hrest), rfl, ?_, ⟨p1.2 rfl, hots, p2.2⟩, ?_⟩
    · simp [kwTok k0 v0, p1.1, p2.1, hb]
    · obtain ⟨t', ht', hs⟩ := pos_mem hrest (by
        intro e
        have : tk (u1 ++ u2) = [] := by rw [e]; rfl
        simp [p2.1, hb] at this) hpos
      exact ⟨t', by simp at ht' ⊢; exact .inr ht', hs⟩

theorem derives_schemaDef (sd : SchemaDef) (h : WFSchemaDef sd) {tsD : List Tok}
    (hD : Derives gql (.opt (.nt .description)) tsD (printDesc sd.desc)) :
    Derives gql (.nt .schemaDefinition)
      (tsD ++ tKw "schema" :: (printDirectives sd.dirs ++ (tP .braceL :: sd.opTypes.flatMap printOpType ++ [tP .braceR])))
      (printSchemaDef sd) := by
  obtain ⟨hd, hne, hops⟩ := h
  have := Derives.nt (n := NT.schemaDefinition) (Derives.seq hD (L.kwCons "schema"
    (L.seq (L_optDirectives true sd.dirs fun _ => hd) (L_schemaOps sd.opTypes hne hops))))
  exact this.cast (by simp) (by simp [printSchemaDef])

/-- `schema Directives? { … }?` of a schema extension (after `extend`) -/
def PSchemaExt (sd : SchemaDef) (u : List Token) : Prop :=
  tKw "extend" :: tk u = printSchemaExt sd ∧ WFSchemaExt sd ∧ ∃ t ∈ u, sd.pos.start = t.start

theorem spec_parseSchemaExtension (n : Nat) : Spec (parseSchemaExtension n) (Eats PSchemaExt) := by
  unfold parseSchemaExtension
  refine (Spec.bind (spec_expectKeyword kwSchema) fun _ => Spec.bind spec_peekPos fun pos =>
    Spec.bind (spec_parseDirectives n true) fun dirs => Spec.bind (spec_opTypesBlock n) fun ots => Spec.ite
      (fun _ => Spec.of_dead_bind (R := fun _ _ _ => False) unexpectedError_dead) (fun _ => Spec.pure _)).mono ?_
  rintro sd a a'' _ ⟨tkw, a1, ⟨u0, h0, rfl, k0, v0⟩, pos, a2, ⟨rfl, hpos⟩, dirs, a3, ⟨u1, h1, p1⟩,
    ots, a5, ⟨⟨u2, h2, p2⟩, _⟩, ⟨_, hf⟩ | ⟨hc, rfl, rfl⟩⟩
  · exact hf.elim
  · have hsome : dirs ≠ [] ∨ ots ≠ [] := by
      cases dirs <;> cases ots <;> simp_all
    have hrest : Ate { a1 with pk := true } a'' (u1 ++ u2) := h1.trans h2
    refine ⟨_, h0.trans ((Ate.peeked a1).trans hrest), ?_, ⟨p1.2 rfl, hsome, p2.2⟩, ?_⟩
    · simp [printSchemaExt, kwTok k0 v0, p1.1, p2.1]
    · obtain ⟨t', ht', hs⟩ := pos_mem hrest (by
        intro e
        have : tk (u1 ++ u2) = [] := by rw [e]; rfl
        rw [tk_append, p1.1, p2.1] at this
        rcases hsome with h | h
        · exact printDirectives_ne h (List.append_eq_nil_iff.1 this).1
        · exact printBlock_ne _ h (List.append_eq_nil_iff.1 this).2) hpos
      exact ⟨t', by simp at ht' ⊢; exact .inr ht', hs⟩

/-! ### directive definitions -/

/-- the part of a directive definition after the description -/
def PDirectiveDef (desc : Bytes) (dd : DirectiveDef) (u : List Token) : Prop :=
  dd.desc = desc ∧ WFDirectiveDef dd ∧ (∃ t ∈ u, dd.pos.start = t.start) ∧
    ∀ {tsD : List Tok}, Derives gql (.opt (.nt .description)) tsD (printDesc desc) →
      Derives gql (.nt .directiveDefinition) (tsD ++ tk u) (printDirectiveDef dd)

/-- the part of `parseDirectiveDefinition` after `repeatable?` -/
def directiveTail (n : Nat) (desc : Bytes) (pos : Pos) (name : Name) (args : List ArgDef) (rep : Bool) : Prog DirectiveDef := do
  let _ ← expectKeyword kwOn
  let locs ← parseDirectiveLocations n
  pure { desc := desc, name := name, args := args, locations := locs, repeatable := rep, pos := pos }

theorem parseDirectiveDefinition_eq (n : Nat) (desc : Bytes) :
    parseDirectiveDefinition n desc = (do
      let _ ← expectKeyword kwDirective
      let _ ← expect .at
      let pos ← peekPos
      let name ← parseName
      let args ← parseArgumentDefs n
      let pk ← peek
      if pk.kind = .name ∧ pk.value = kwRepeatable then do
        let _ ← skip .name
        directiveTail n desc pos name args true
      else directiveTail n desc pos name args false) := rfl

theorem spec_directiveTail (n : Nat) (desc : Bytes) (pos : Pos) (name : Name) (args : List ArgDef) (rep : Bool) :
    Spec (directiveTail n desc pos name args rep) (Eats fun dd u => ∃ locs ul,
      dd = { desc := desc, name := name, args := args, locations := locs, repeatable := rep, pos := pos } ∧
      tk u = tKw "on" :: tk ul ∧ locs ≠ [] ∧ (∀ l ∈ locs, l ∈ Gql.Grammar.directiveLocationNames) ∧
      Derives gql (.nt .directiveLocations) (tk ul) (printSep .pipe locs)) := by
  unfold directiveTail
  refine (Spec.bind (spec_expectKeyword kwOn) fun _ => Spec.bind (spec_parseDirectiveLocations n) fun locs =>
    Spec.pure _).mono ?_
  rintro dd a a'' _ ⟨ton, a1, ⟨u0, h0, rfl, k0, v0⟩, locs, a2, ⟨u1, h1, p1⟩, rfl, rfl⟩
  exact ⟨_, h0.trans h1, locs, u1, rfl, by simp [kwTok k0 v0], p1⟩

theorem derives_directiveDef (dd : DirectiveDef) {tsD tsA tsL : List Tok}
    (hD : Derives gql (.opt (.nt .description)) tsD (printDesc dd.desc))
    (hA : Derives gql (.opt (.nt .argumentsDefinition)) tsA (printArgDefs dd.args))
    (hL : Derives gql (.nt .directiveLocations) tsL (printSep .pipe dd.locations)) :
    Derives gql (.nt .directiveDefinition)
      (tsD ++ tKw "directive" :: tP .at :: tName dd.name :: (tsA ++ ((if dd.repeatable then [tKw "repeatable"] else []) ++
        tKw "on" :: tsL)))
      (printDirectiveDef dd) := by
  have hrep : L (.opt (Grammar.kw (str "repeatable"))) (if dd.repeatable then [tKw "repeatable"] else []) := by
    split
    · exact L.optSome (L.kw "repeatable")
    · exact L.optNone
  have := Derives.nt (n := NT.directiveDefinition) (Derives.seq hD (D.kwCons "directive" (D.kindCons .at
    (D.nameCons dd.name (Derives.seq hA (Derives.seq hrep (D.kwCons "on" hL)))))))
  exact this.cast (by simp) (by simp [printDirectiveDef])

theorem spec_parseDirectiveDefinition (n : Nat) (desc : Bytes) :
    Spec (parseDirectiveDefinition n desc) (Eats (PDirectiveDef desc)) := by
  rw [parseDirectiveDefinition_eq]
  refine (Spec.bind (spec_expectKeyword kwDirective) fun _ => Spec.bind (spec_punct .at (by decide) (by decide) rfl) fun _ =>
    Spec.bind spec_peekPos fun pos => Spec.bind spec_parseName' fun name => Spec.bind (spec_parseArgumentDefs n) fun args =>
    Spec.bind spec_peek fun pk => Spec.ite
      (fun _ => Spec.bind (spec_skip .name (by decide) (by decide)) fun _ => spec_directiveTail n desc pos name args true)
      (fun _ => spec_directiveTail n desc pos name args false)).mono ?_
  rintro dd a a'' _ ⟨tkw, a1, ⟨u0, h0, rfl, k0, v0⟩, _, a2, ⟨u1, h1, p1⟩, pos, a3, ⟨rfl, hpos⟩, name, a4,
    ⟨u2, h2, tnm, rfl, k2, rfl, _⟩, args, a5, ⟨u3, h3, p3⟩, pk, a6, ⟨rfl, rfl⟩,
    ⟨hk, b, a7, hs, u5, h5, locs, ul, rfl, q1, q2, q3, q4⟩ | ⟨hk, u5, h5, locs, ul, rfl, q1, q2, q3, q4⟩⟩
  · rcases hs with ⟨_, trep, g, kr, _⟩ | ⟨_, hkn, _⟩
    · have hrep : Tok.ofToken trep = tKw "repeatable" := by
        have : trep = a5.σ.head := (g.head).symm
        rw [this]; simp [Tok.ofToken, tKw, hk.1, hk.2, kwRepeatable]
      refine ⟨_, h0.trans (h1.trans ((Ate.peeked a2).trans (h2.trans (h3.trans ((Ate.peeked a5).trans (g.trans h5)))))),
        rfl, ⟨p3.2, q2, q3⟩, ⟨tnm, by simp, by rw [hpos]; exact congrArg Token.start h2.head⟩, fun hD => ?_⟩
      exact (derives_directiveDef (dd := ⟨desc, tnm.value, args, locs, true, pos⟩) hD p3.1.opt q4).cast
        (by simp [kwTok k0 v0, p1, ofToken_name k2, hrep, q1]) rfl
    · exact absurd hk.1 hkn
  · refine ⟨_, h0.trans (h1.trans ((Ate.peeked a2).trans (h2.trans (h3.trans ((Ate.peeked a5).trans h5))))),
      rfl, ⟨p3.2, q2, q3⟩, ⟨tnm, by simp, by rw [hpos]; exact congrArg Token.start h2.head⟩, fun hD => ?_⟩
    exact (derives_directiveDef (dd := ⟨desc, tnm.value, args, locs, false, pos⟩) hD p3.1.opt q4).cast
      (by simp [kwTok k0 v0, p1, ofToken_name k2, q1]) rfl

/-! ### from a parsed body to the derivation of a TypeDefinition / TypeExtension -/

theorem wf_of_body {d : Definition} {u : List Token} (hb : BodyOf d u) (hen : EnumOK d) : WFDefBody d := by
  obtain ⟨tsI, tsB, _, hcd, _, parts⟩ := hb
  refine ⟨hcd, ?_⟩
  unfold BodyParts at parts
  unfold EnumOK at hen
  cases hk : d.kind <;> simp only [hk] at parts hen ⊢
  · exact parts.2.2
  · exact parts.2.2
  · intro e he
    exact ⟨hen trivial e he, parts.2.2.2 e he⟩
  · exact parts.2.2

theorem derives_definition {d : Definition} {u : List Token} {tsD : List Tok} (hb : BodyOf d u)
    (hD : Derives gql (.opt (.nt .description)) tsD (printDesc d.desc)) (hen : EnumOK d) :
    Derives gql (.nt .typeDefinition) (tsD ++ tk u) (printDefinition d) := by
  obtain ⟨tsI, tsB, e, hcd, _, parts⟩ := hb
  have hdirs := L_optDirectives true d.dirs fun _ => hcd
  rw [e]
  unfold printDefinition printDefBody
  unfold BodyParts at parts
  unfold EnumOK at hen
  cases hk : d.kind <;> simp only [hk, DefKind.keyword] at parts hen ⊢
  · -- scalar
    obtain ⟨rfl, rfl⟩ := parts
    have := Derives.nt (n := NT.scalarTypeDefinition) (Derives.seq hD (D.kwCons "scalar" (D.nameCons d.name hdirs)))
    exact (Derives.nt (n := NT.typeDefinition) (Derives.altL this)).cast (by simp) (by simp)
  · -- object
    obtain ⟨pI, pB, _⟩ := parts
    by_cases hf : d.fields = []
    · obtain ⟨rfl, hb0⟩ := pB.nil hf
      have := Derives.nt (n := NT.objectTypeDefinition) (Derives.altR (Derives.seq hD (D.kwCons "type" (D.nameCons d.name
        (Derives.seq pI.opt hdirs)))))
      exact (Derives.nt (n := NT.typeDefinition) (Derives.altR (Derives.altL this))).cast (by simp) (by simp [hb0])
    · have := Derives.nt (n := NT.objectTypeDefinition) (Derives.altL (Derives.seq hD (D.kwCons "type" (D.nameCons d.name
        (Derives.seq pI.opt (Derives.seq hdirs (pB.req hf)))))))
      exact (Derives.nt (n := NT.typeDefinition) (Derives.altR (Derives.altL this))).cast (by simp) (by simp)
  · -- interface
    obtain ⟨pI, pB, _⟩ := parts
    by_cases hf : d.fields = []
    · obtain ⟨rfl, hb0⟩ := pB.nil hf
      have := Derives.nt (n := NT.interfaceTypeDefinition) (Derives.altR (Derives.seq hD (D.kwCons "interface" (D.nameCons d.name
        (Derives.seq pI.opt hdirs)))))
      exact (Derives.nt (n := NT.typeDefinition) (Derives.altR (Derives.altR (Derives.altL this)))).cast (by simp) (by simp [hb0])
    · have := Derives.nt (n := NT.interfaceTypeDefinition) (Derives.altL (Derives.seq hD (D.kwCons "interface" (D.nameCons d.name
        (Derives.seq pI.opt (Derives.seq hdirs (pB.req hf)))))))
      exact (Derives.nt (n := NT.typeDefinition) (Derives.altR (Derives.altR (Derives.altL this)))).cast (by simp) (by simp)
  · -- union
    obtain ⟨rfl, pB⟩ := parts
    have := Derives.nt (n := NT.unionTypeDefinition) (Derives.seq hD (D.kwCons "union" (D.nameCons d.name
      (Derives.seq hdirs pB.opt))))
    exact (Derives.nt (n := NT.typeDefinition) (Derives.altR (Derives.altR (Derives.altR (Derives.altL this))))).cast
      (by simp) (by simp)
  · -- enum
    obtain ⟨rfl, pB, hB0, _⟩ := parts
    have pB := pB (hen trivial)
    by_cases hf : d.enumValues = []
    · obtain ⟨rfl, hb0⟩ := pB.nil hf
      have := Derives.nt (n := NT.enumTypeDefinition) (Derives.altR (Derives.seq hD (D.kwCons "enum" (D.nameCons d.name hdirs))))
      exact (Derives.nt (n := NT.typeDefinition) (Derives.altR (Derives.altR (Derives.altR (Derives.altR (Derives.altL this)))))).cast
        (by simp) (by simp [hb0])
    · have := Derives.nt (n := NT.enumTypeDefinition) (Derives.altL (Derives.seq hD (D.kwCons "enum" (D.nameCons d.name
        (Derives.seq hdirs (pB.req hf))))))
      exact (Derives.nt (n := NT.typeDefinition) (Derives.altR (Derives.altR (Derives.altR (Derives.altR (Derives.altL this)))))).cast
        (by simp) (by simp)
  · -- input object
    obtain ⟨rfl, pB, _⟩ := parts
    by_cases hf : d.fields = []
    · obtain ⟨rfl, hb0⟩ := pB.nil hf
      have := Derives.nt (n := NT.inputObjectTypeDefinition) (Derives.altR (Derives.seq hD (D.kwCons "input" (D.nameCons d.name hdirs))))
      exact (Derives.nt (n := NT.typeDefinition) (Derives.altR (Derives.altR (Derives.altR (Derives.altR (Derives.altR this)))))).cast
        (by simp) (by simp [hb0])
    · have := Derives.nt (n := NT.inputObjectTypeDefinition) (Derives.altL (Derives.seq hD (D.kwCons "input" (D.nameCons d.name
        (Derives.seq hdirs (pB.req hf))))))
      exact (Derives.nt (n := NT.typeDefinition) (Derives.altR (Derives.altR (Derives.altR (Derives.altR (Derives.altR this)))))).cast
        (by simp) (by simp)

theorem derives_extension {d : Definition} {u : List Token} (hb : BodyOf d u) (hx : ExtendsSomething d) (hen : EnumOK d) :
    Derives gql (.nt .typeExtension) (tKw "extend" :: tk u) (printExtension d) := by
  obtain ⟨tsI, tsB, e, hcd, _, parts⟩ := hb
  have hdirs := L_optDirectives true d.dirs fun _ => hcd
  have hdirsReq : d.dirs ≠ [] → L (.nt (.directives true)) (printDirectives d.dirs) :=
    fun hne => L_directives true d.dirs hne fun _ => hcd
  rw [e]
  unfold printExtension printDefBody
  unfold BodyParts at parts
  unfold EnumOK at hen
  unfold ExtendsSomething at hx
  cases hk : d.kind <;> simp only [hk, DefKind.keyword] at parts hen hx ⊢
  · -- scalar
    obtain ⟨rfl, rfl⟩ := parts
    have := Derives.nt (n := NT.scalarTypeExtension) (D.kwCons "extend" (D.kwCons "scalar" (D.nameCons d.name (hdirsReq hx))))
    exact (Derives.nt (n := NT.typeExtension) (Derives.altL this)).cast (by simp) (by simp)
  · -- object
    obtain ⟨pI, pB, _⟩ := parts
    by_cases hf : d.fields = []
    · obtain ⟨rfl, hb0⟩ := pB.nil hf
      by_cases hdn : d.dirs = []
      · have hi : d.interfaces ≠ [] := by
          rcases hx with h | h | h
          · exact h
          · exact absurd hdn h
          · exact absurd hf h
        have := Derives.nt (n := NT.objectTypeExtension) (Derives.altR (Derives.altR (D.kwCons "extend" (D.kwCons "type"
          (D.nameCons d.name (pI.req hi))))))
        exact (Derives.nt (n := NT.typeExtension) (Derives.altR (Derives.altL this))).cast
          (by simp [hdn, printDirectives]) (by simp [hb0, hdn, printDirectives])
      · have := Derives.nt (n := NT.objectTypeExtension) (Derives.altR (Derives.altL (D.kwCons "extend" (D.kwCons "type"
          (D.nameCons d.name (Derives.seq pI.opt (hdirsReq hdn)))))))
        exact (Derives.nt (n := NT.typeExtension) (Derives.altR (Derives.altL this))).cast (by simp) (by simp [hb0])
    · have := Derives.nt (n := NT.objectTypeExtension) (Derives.altL (D.kwCons "extend" (D.kwCons "type"
        (D.nameCons d.name (Derives.seq pI.opt (Derives.seq hdirs (pB.req hf)))))))
      exact (Derives.nt (n := NT.typeExtension) (Derives.altR (Derives.altL this))).cast (by simp) (by simp)
  · -- interface
    obtain ⟨pI, pB, _⟩ := parts
    by_cases hf : d.fields = []
    · obtain ⟨rfl, hb0⟩ := pB.nil hf
      by_cases hdn : d.dirs = []
      · have hi : d.interfaces ≠ [] := by
          rcases hx with h | h | h
          · exact h
          · exact absurd hdn h
          · exact absurd hf h
        have := Derives.nt (n := NT.interfaceTypeExtension) (Derives.altR (Derives.altR (D.kwCons "extend" (D.kwCons "interface"
          (D.nameCons d.name (pI.req hi))))))
        exact (Derives.nt (n := NT.typeExtension) (Derives.altR (Derives.altR (Derives.altL this)))).cast
          (by simp [hdn, printDirectives]) (by simp [hb0, hdn, printDirectives])
      · have := Derives.nt (n := NT.interfaceTypeExtension) (Derives.altR (Derives.altL (D.kwCons "extend" (D.kwCons "interface"
          (D.nameCons d.name (Derives.seq pI.opt (hdirsReq hdn)))))))
        exact (Derives.nt (n := NT.typeExtension) (Derives.altR (Derives.altR (Derives.altL this)))).cast (by simp) (by simp [hb0])
    · have := Derives.nt (n := NT.interfaceTypeExtension) (Derives.altL (D.kwCons "extend" (D.kwCons "interface"
        (D.nameCons d.name (Derives.seq pI.opt (Derives.seq hdirs (pB.req hf)))))))
      exact (Derives.nt (n := NT.typeExtension) (Derives.altR (Derives.altR (Derives.altL this)))).cast (by simp) (by simp)
  · -- union
    obtain ⟨rfl, pB⟩ := parts
    by_cases ht : d.types = []
    · obtain ⟨rfl, hb0⟩ := pB.nil ht
      have hdn : d.dirs ≠ [] := by
        rcases hx with h | h
        · exact h
        · exact absurd ht h
      have := Derives.nt (n := NT.unionTypeExtension) (Derives.altR (D.kwCons "extend" (D.kwCons "union"
        (D.nameCons d.name (hdirsReq hdn)))))
      exact (Derives.nt (n := NT.typeExtension) (Derives.altR (Derives.altR (Derives.altR (Derives.altL this))))).cast
        (by simp) (by simp [hb0])
    · have := Derives.nt (n := NT.unionTypeExtension) (Derives.altL (D.kwCons "extend" (D.kwCons "union"
        (D.nameCons d.name (Derives.seq hdirs (pB.req ht))))))
      exact (Derives.nt (n := NT.typeExtension) (Derives.altR (Derives.altR (Derives.altR (Derives.altL this))))).cast
        (by simp) (by simp)
  · -- enum
    obtain ⟨rfl, pB, hB0, _⟩ := parts
    have pB := pB (hen trivial)
    by_cases hf : d.enumValues = []
    · obtain ⟨rfl, hb0⟩ := pB.nil hf
      have hdn : d.dirs ≠ [] := by
        rcases hx with h | h
        · exact h
        · exact absurd hf h
      have := Derives.nt (n := NT.enumTypeExtension) (Derives.altR (D.kwCons "extend" (D.kwCons "enum"
        (D.nameCons d.name (hdirsReq hdn)))))
      exact (Derives.nt (n := NT.typeExtension) (Derives.altR (Derives.altR (Derives.altR (Derives.altR (Derives.altL this)))))).cast
        (by simp) (by simp [hb0])
    · have := Derives.nt (n := NT.enumTypeExtension) (Derives.altL (D.kwCons "extend" (D.kwCons "enum"
        (D.nameCons d.name (Derives.seq hdirs (pB.req hf))))))
      exact (Derives.nt (n := NT.typeExtension) (Derives.altR (Derives.altR (Derives.altR (Derives.altR (Derives.altL this)))))).cast
        (by simp) (by simp)
  · -- input object
    obtain ⟨rfl, pB, _⟩ := parts
    by_cases hf : d.fields = []
    · obtain ⟨rfl, hb0⟩ := pB.nil hf
      have hdn : d.dirs ≠ [] := by
        rcases hx with h | h
        · exact h
        · exact absurd hf h
      have := Derives.nt (n := NT.inputObjectTypeExtension) (Derives.altR (D.kwCons "extend" (D.kwCons "input"
        (D.nameCons d.name (hdirsReq hdn)))))
      exact (Derives.nt (n := NT.typeExtension) (Derives.altR (Derives.altR (Derives.altR (Derives.altR (Derives.altR this)))))).cast
        (by simp) (by simp [hb0])
    · have := Derives.nt (n := NT.inputObjectTypeExtension) (Derives.altL (D.kwCons "extend" (D.kwCons "input"
        (D.nameCons d.name (Derives.seq hdirs (pB.req hf))))))
      exact (Derives.nt (n := NT.typeExtension) (Derives.altR (Derives.altR (Derives.altR (Derives.altR (Derives.altR this)))))).cast
        (by simp) (by simp)

/-! ### the document -/

/-- one top-level item of a type-system document, tagged by the list of the tree it goes to -/
inductive SItem
  | schema (s : SchemaDef)
  | schemaExt (s : SchemaDef)
  | directive (d : DirectiveDef)
  | definition (d : Definition)
  | extension (d : Definition)

def _root_.Gql.SchemaDoc.add (doc : SchemaDoc) : SItem → SchemaDoc
  | .schema s => { doc with schema := doc.schema ++ [s] }
  | .schemaExt s => { doc with schemaExt := doc.schemaExt ++ [s] }
  | .directive d => { doc with directives := doc.directives ++ [d] }
  | .definition d => { doc with definitions := doc.definitions ++ [d] }
  | .extension d => { doc with extensions := doc.extensions ++ [d] }

/-- sort key (recorded start offset) and unparse of an item -/
def sItem : SItem → Nat × List Tok
  | .schema s => (s.pos.start, printSchemaDef s)
  | .schemaExt s => (s.pos.start, printSchemaExt s)
  | .directive d => (d.pos.start, printDirectiveDef d)
  | .definition d => (d.pos.start, printDefinition d)
  | .extension d => (d.pos.start, printExtension d)

/-- the grammar does not know enum values named `true` / `false` / `null`; the parser accepts them -/
def SItem.enumOK : SItem → Prop
  | .definition d => EnumOK d
  | .extension d => EnumOK d
  | _ => True

def SItem.WF : SItem → Prop
  | .schema s => WFSchemaDef s
  | .schemaExt s => WFSchemaExt s
  | .directive d => WFDirectiveDef d
  | .definition d => WFDefBody d
  | .extension d => WFDefBody d ∧ ExtendsSomething d

/-- an item was parsed from `u`: its recorded position is that of a token of `u`, and (for enums:
    if no value is a literal name) `u` derives a definition or extension with the unparse of the
    item as canonical form, and the item is well-formed -/
def PSItem (it : SItem) (u : List Token) : Prop :=
  (∃ t ∈ u, (sItem it).1 = t.start) ∧
    (it.enumOK → Derives gql (.nt .typeSystemDefinitionOrExtension) (tk u) (sItem it).2 ∧ it.WF)

theorem spec_rejectDescription (has : Bool) : Spec (rejectDescription has) (fun _ a a' => has = false ∧ a' = a) := by
  unfold rejectDescription
  refine (Spec.ite (fun _ => Spec.of_dead (R := fun _ _ _ => False) fun s => ?_) (fun _ => Spec.pure ())).mono ?_
  · show dead (run 0 (getPrev >>= fun pv => unexpectedToken pv) s).2 = true
    rw [bind_eq, run_bind]
    exact failAt_dead _ _ _
  · rintro _ a a' _ (⟨_, hf⟩ | ⟨hb, _, rfl⟩)
    · exact hf.elim
    · exact ⟨by simpa using hb, rfl⟩

theorem spec_parseOptionalDescription :
    Spec parseOptionalDescription (fun r a a' => ∃ u, Ate a a' u ∧ PDesc r.1 u ∧ (r.2 = false → u = [])) := by
  unfold parseOptionalDescription
  refine (Spec.bind spec_peek fun x => Spec.ite
    (fun _ => Spec.bind spec_parseDescription fun d => Spec.pure (d, true))
    (fun _ => Spec.bind spec_peek fun y => Spec.ite
      (fun _ => Spec.bind spec_parseDescription fun d => Spec.pure (d, true))
      (fun _ => Spec.pure ([], false)))).mono ?_
  rintro r a a'' _ ⟨x, a1, ⟨rfl, rfl⟩, ⟨_, d, a2, ⟨u, h, p, _⟩, rfl, rfl⟩ |
    ⟨_, y, a2, ⟨rfl, rfl⟩, ⟨_, d, a3, ⟨u, h, p, _⟩, rfl, rfl⟩ | ⟨_, rfl, rfl⟩⟩⟩
  · exact ⟨u, (Ate.peeked a).trans h, p, fun h => by cases h⟩
  · exact ⟨u, (Ate.peeked a).trans ((Ate.peeked _).trans h), p, fun h => by cases h⟩
  · exact ⟨[], (Ate.peeked a).trans (Ate.peeked _), Derives.optNone, fun _ => rfl⟩

theorem mem_cons_of_mem_tail {t : Token} {x : Token} {u : List Token} (h : t ∈ u) : t ∈ x :: u := by simp [h]

/-- `extend …` -/
theorem spec_parseTypeSystemExtension (n : Nat) (doc : SchemaDoc) :
    Spec (parseTypeSystemExtension n doc) (Eats fun doc' u => ∃ it, PSItem it u ∧ doc' = doc.add it) := by
  unfold parseTypeSystemExtension
  refine (Spec.bind (spec_expectKeyword kwExtend) fun _ => Spec.bind spec_peek fun t => Spec.ite
    (fun _ => Spec.bind (spec_parseSchemaExtension n) fun d => Spec.pure _) fun _ => Spec.ite
    (fun _ => Spec.bind (spec_parseScalarTypeExtension n) fun d => Spec.pure _) fun _ => Spec.ite
    (fun _ => Spec.bind (spec_parseObjectTypeExtension n) fun d => Spec.pure _) fun _ => Spec.ite
    (fun _ => Spec.bind (spec_parseInterfaceTypeExtension n) fun d => Spec.pure _) fun _ => Spec.ite
    (fun _ => Spec.bind (spec_parseUnionTypeExtension n) fun d => Spec.pure _) fun _ => Spec.ite
    (fun _ => Spec.bind (spec_parseEnumTypeExtension n) fun d => Spec.pure _) fun _ => Spec.ite
    (fun _ => Spec.bind (spec_parseInputObjectTypeExtension n) fun d => Spec.pure _)
    (fun _ => Spec.of_dead_bind (R := fun _ _ _ => False) unexpectedError_dead)).mono ?_
  have key : ∀ {a1 a'' : AS} {text : Token} {a : AS} {d : Definition} {u : List Token}, Ate a a1 [text] → text.kind = .name →
      text.value = kwExtend → Ate { a1 with pk := true } a'' u → BodyOf d u → d.desc = [] → ExtendsSomething d →
      Eats (fun doc' u => ∃ it, PSItem it u ∧ doc' = doc.add it) (doc.add (.extension d)) a a'' := by
    intro a1 a'' text a d u h0 k0 v0 h hb _ hx
    refine ⟨_, h0.trans ((Ate.peeked a1).trans h), .extension d, ⟨?_, fun hen => ⟨?_, wf_of_body hb hen, hx⟩⟩, rfl⟩
    · obtain ⟨_, _, _, _, ⟨t, ht, hs⟩, _⟩ := hb
      exact ⟨t, by simp [ht], hs⟩
    · have := derives_extension hb hx hen
      exact (Derives.nt (n := NT.typeSystemDefinitionOrExtension) (Derives.altR (Derives.nt (n := NT.typeSystemExtension)
        (Derives.altR this)))).cast (by simp [kwTok k0 v0]) rfl
  rintro doc' a a'' _ ⟨text, a1, ⟨u0, h0, rfl, k0, v0⟩, t, a2, ⟨rfl, rfl⟩,
    ⟨_, d, a3, ⟨u, h, p⟩, rfl, rfl⟩ | ⟨_, ⟨_, d, a3, ⟨u, h, p⟩, rfl, rfl⟩ | ⟨_, ⟨_, d, a3, ⟨u, h, p⟩, rfl, rfl⟩ |
    ⟨_, ⟨_, d, a3, ⟨u, h, p⟩, rfl, rfl⟩ | ⟨_, ⟨_, d, a3, ⟨u, h, p⟩, rfl, rfl⟩ | ⟨_, ⟨_, d, a3, ⟨u, h, p⟩, rfl, rfl⟩ |
    ⟨_, ⟨_, d, a3, ⟨u, h, p⟩, rfl, rfl⟩ | ⟨_, hf⟩⟩⟩⟩⟩⟩⟩⟩
  · refine ⟨_, h0.trans ((Ate.peeked a1).trans h), .schemaExt d, ⟨?_, fun _ => ⟨?_, p.2.1⟩⟩, rfl⟩
    · obtain ⟨t, ht, hs⟩ := p.2.2
      exact ⟨t, by simp [ht], hs⟩
    · have := L_schemaExt d p.2.1
      exact (Derives.nt (n := NT.typeSystemDefinitionOrExtension) (Derives.altR (Derives.nt (n := NT.typeSystemExtension)
        (Derives.altL this)))).cast (by simp [← p.1, kwTok k0 v0]) rfl
  · exact key h0 k0 v0 h p.1 p.2.1 p.2.2
  · exact key h0 k0 v0 h p.1 p.2.1 p.2.2
  · exact key h0 k0 v0 h p.1 p.2.1 p.2.2
  · exact key h0 k0 v0 h p.1 p.2.1 p.2.2
  · exact key h0 k0 v0 h p.1 p.2.1 p.2.2
  · exact key h0 k0 v0 h p.1 p.2.1 p.2.2
  · exact hf.elim

/-- what the schema document loop establishes -/
def SDocRel (doc : SchemaDoc) : SchemaDoc → AS → AS → Prop := fun d a a' =>
  ∃ items used, Ate a a' used ∧ a'.pk = true ∧ a'.σ.head.kind = .eof ∧ d = items.foldl SchemaDoc.add doc ∧
    Many PSItem items used

theorem SDocRel.cons {doc d : SchemaDoc} {it : SItem} {a a1 a' : AS} {u : List Token}
    (h1 : Ate a a1 u) (p : PSItem it u) (h2 : SDocRel (doc.add it) d a1 a') : SDocRel doc d a a' := by
  obtain ⟨items, used, g1, g2, g3, g4, g5⟩ := h2
  exact ⟨it :: items, u ++ used, h1.trans g1, g2, g3, by simpa using g4, .cons p g5⟩

theorem mem_append_right' {t : Token} {u v : List Token} (h : t ∈ v) : t ∈ u ++ v := by simp [h]

theorem spec_schemaDocLoop (m : Nat) : ∀ (n : Nat) (doc : SchemaDoc), Spec (schemaDocLoop m n doc) (SDocRel doc)
  | 0, doc => Spec.of_dead (outOfFuel_dead _)
  | n + 1, doc => by
    have ih := spec_schemaDocLoop m n
    unfold schemaDocLoop
    refine (Spec.bind spec_peek fun t => Spec.ite
      (fun _ => Spec.bind spec_hasErr fun e => Spec.ite (fun _ => Spec.pure default)
        (fun _ => Spec.bind spec_parseOptionalDescription
          (R2 := fun x d a1 a' => ∀ uD a0, Ate a0 a1 uD → PDesc x.1 uD → (x.2 = false → uD = []) → SDocRel doc d a0 a') ?_))
      (fun _ => Spec.pure doc)).mono ?_
    · rintro ⟨desc, has⟩
      refine (Spec.bind spec_peek fun c => Spec.ite
        (fun _ => Spec.of_dead_bind (R := fun _ _ _ => False) unexpectedError_dead)
        (fun _ => Spec.bind spec_peek fun d => Spec.ite
          (fun _ => Spec.bind (spec_parseTypeSystemDefinition m desc) fun df => ih _) fun _ => Spec.ite
          (fun _ => Spec.bind (spec_parseSchemaDefinition m desc) fun sd => ih _) fun _ => Spec.ite
          (fun _ => Spec.bind (spec_parseDirectiveDefinition m desc) fun dd => ih _) fun _ => Spec.ite
          (fun _ => Spec.bind (spec_rejectDescription has) fun _ =>
            Spec.bind (spec_parseTypeSystemExtension m doc) fun doc' => ih doc')
          (fun _ => Spec.of_dead_bind (R := fun _ _ _ => False) unexpectedError_dead))).mono ?_
      rintro dfin a a'' _ ⟨c, a1, ⟨rfl, rfl⟩, ⟨_, hf⟩ | ⟨_, d, a2, ⟨rfl, rfl⟩,
        ⟨_, df, a3, ⟨u, h, hb, hdesc⟩, hrest⟩ | ⟨_, ⟨_, sd, a3, ⟨u, h, p⟩, hrest⟩ | ⟨_, ⟨_, dd, a3, ⟨u, h, p⟩, hrest⟩ |
        ⟨_, ⟨_, _, a3, ⟨hhas, rfl⟩, doc', a4, ⟨u, h, it, pit, rfl⟩, hrest⟩ | ⟨_, hf⟩⟩⟩⟩⟩⟩ uD a0 hD pD hU
      · exact hf.elim
      · -- type definition
        have hu : Ate a0 a3 (uD ++ u) := hD.trans ((Ate.peeked a).trans ((Ate.peeked _).trans h))
        refine SDocRel.cons (it := .definition df) hu ⟨?_, fun hen => ⟨?_, wf_of_body hb hen⟩⟩ hrest
        · obtain ⟨_, _, _, _, ⟨t, ht, hs⟩, _⟩ := hb
          exact ⟨t, mem_append_right' ht, hs⟩
        · subst hdesc
          have := derives_definition hb pD hen
          exact (Derives.nt (n := NT.typeSystemDefinitionOrExtension) (Derives.altL (Derives.nt (n := NT.typeSystemDefinition)
            (Derives.altR (Derives.altL this))))).cast (by simp) rfl
      · -- schema definition
        have hu : Ate a0 a3 (uD ++ u) := hD.trans ((Ate.peeked a).trans ((Ate.peeked _).trans h))
        obtain ⟨hdesc, htk, hwf, ⟨t, ht, hs⟩⟩ := p
        refine SDocRel.cons (it := .schema sd) hu ⟨⟨t, mem_append_right' ht, hs⟩, fun _ => ⟨?_, hwf⟩⟩ hrest
        subst hdesc
        have := derives_schemaDef sd hwf pD
        exact (Derives.nt (n := NT.typeSystemDefinitionOrExtension) (Derives.altL (Derives.nt (n := NT.typeSystemDefinition)
          (Derives.altL this)))).cast (by simp [htk]) rfl
      · -- directive definition
        have hu : Ate a0 a3 (uD ++ u) := hD.trans ((Ate.peeked a).trans ((Ate.peeked _).trans h))
        obtain ⟨hdesc, hwf, ⟨t, ht, hs⟩, hder⟩ := p
        refine SDocRel.cons (it := .directive dd) hu ⟨⟨t, mem_append_right' ht, hs⟩, fun _ => ⟨?_, hwf⟩⟩ hrest
        have := hder pD
        exact (Derives.nt (n := NT.typeSystemDefinitionOrExtension) (Derives.altL (Derives.nt (n := NT.typeSystemDefinition)
          (Derives.altR (Derives.altR this))))).cast (by simp) rfl
      · -- extension: no description
        have hUD := hU hhas
        subst hUD
        have hu : Ate a0 a4 u := by
          have := hD.trans ((Ate.peeked a).trans ((Ate.peeked _).trans h))
          simpa using this
        exact SDocRel.cons hu pit hrest
      · exact hf.elim
    · rintro d a a'' _ ⟨t, a1, ⟨rfl, rfl⟩, ⟨_, e, a2, ⟨rfl, rfl⟩, ⟨he, _⟩ | ⟨_, x, a3, ⟨uD, hD, pD, hU⟩, h⟩⟩ |
        ⟨hk, rfl, rfl⟩⟩
      · cases he
      · exact h uD _ ((Ate.peeked a).trans hD) pD hU
      · simp only [ne_eq, Decidable.not_not] at hk
        exact ⟨[], [], Ate.peeked a, rfl, hk, rfl, .nil⟩

theorem spec_parseSchemaDocument (n : Nat) : Spec (parseSchemaDocument n) (SDocRel SchemaDoc.empty) := by
  unfold parseSchemaDocument
  refine (Spec.bind spec_peekPos fun _ => spec_schemaDocLoop n n SchemaDoc.empty).mono ?_
  rintro d a a'' _ ⟨_, a1, ⟨rfl, _⟩, items, used, g1, g⟩
  exact ⟨items, used, by simpa using (Ate.peeked a).trans g1, g⟩

end Gql.Parser
