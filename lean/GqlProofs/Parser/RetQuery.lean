import GqlProofs.Parser.FwdTop
/-
  Result invariants: what every tree returned by a live run satisfies, independently of the
  tokens.  Used for `parseQuery 0 inp = .ok d → PrintableQuery d`.
-/
namespace Gql.Parser
open Gql Gql.Lexer Gql.Grammar Gql.Print

/-- every result of a run of `p` that ends live satisfies `Q` -/
def Ret {α : Type} (p : Prog α) (Q : α → Prop) : Prop := ∀ s, dead (run 0 p s).2 = false → Q (run 0 p s).1

theorem Ret.pure {α : Type} {Q : α → Prop} {x : α} (h : Q x) : Ret (Pure.pure x : Prog α) Q := fun _ _ => h

theorem Ret.triv {α : Type} (p : Prog α) : Ret p (fun _ => True) := fun _ _ => trivial

theorem Ret.mono {α : Type} {p : Prog α} {Q Q' : α → Prop} (h : Ret p Q) (hq : ∀ x, Q x → Q' x) : Ret p Q' :=
  fun s hl => hq _ (h s hl)

theorem Ret.bind {α β : Type} {p : Prog α} {f : α → Prog β} {Q1 : α → Prop} {Q2 : β → Prop}
    (h1 : Ret p Q1) (h2 : ∀ x, Q1 x → Ret (f x) Q2) : Ret (p >>= f) Q2 := by
  intro s hl
  rw [bind_eq, run_bind] at hl ⊢
  exact h2 _ (h1 s (live_of_run hl)) _ hl

/-- bind after a program whose result does not matter -/
theorem Ret.seq {α β : Type} {p : Prog α} {f : α → Prog β} {Q2 : β → Prop} (h2 : ∀ x, Ret (f x) Q2) : Ret (p >>= f) Q2 :=
  Ret.bind (Ret.triv p) fun x _ => h2 x

theorem Ret.of_dead {α : Type} {p : Prog α} {Q : α → Prop} (h : ∀ s, dead (run 0 p s).2 = true) : Ret p Q := by
  intro s hl; rw [h s] at hl; cases hl

theorem Ret.of_dead_bind {α β : Type} {p : Prog α} {f : α → Prog β} {Q : β → Prop}
    (h : ∀ s, dead (run 0 p s).2 = true) : Ret (p >>= f) Q := by
  intro s hl
  rw [bind_eq, run_bind] at hl
  have := live_of_run hl
  rw [h s] at this; cases this

theorem Ret.ite {α : Type} {c : Prop} [Decidable c] {p q : Prog α} {Q : α → Prop} (h1 : c → Ret p Q) (h2 : ¬ c → Ret q Q) :
    Ret (if c then p else q) Q := by
  split
  · exact h1 ‹_›
  · exact h2 ‹_›

theorem ret_itemsLoop {α : Type} {Q : α → Prop} (stop : Kind) {cb : Prog α} (hcb : Ret cb Q) :
    ∀ (n : Nat) (acc : List α), (∀ x ∈ acc, Q x) → Ret (itemsLoop stop cb n acc) (fun xs => ∀ x ∈ xs, Q x)
  | 0, _, _ => Ret.of_dead (outOfFuel_dead _)
  | n + 1, acc, hacc => by
    unfold itemsLoop
    refine Ret.seq fun t => Ret.seq fun e => Ret.ite
      (fun _ => Ret.bind hcb fun x hx => ret_itemsLoop stop hcb n (x :: acc) (by
        intro y hy; rcases List.mem_cons.1 hy with rfl | hy
        · exact hx
        · exact hacc y hy))
      (fun _ => Ret.pure hacc)

theorem ret_pMany {α : Type} {Q : α → Prop} (start stop : Kind) (n : Nat) {cb : Prog α} (hcb : Ret cb Q) :
    Ret (pMany start stop n cb) (fun xs => ∀ x ∈ xs, Q x) := by
  unfold pMany
  refine Ret.seq fun b => Ret.ite (fun _ => Ret.pure (by simp)) fun _ =>
    Ret.bind (ret_itemsLoop stop hcb n [] (by simp)) fun xs hxs => Ret.seq fun _ => Ret.pure (by simpa using hxs)

theorem ret_pSome {α : Type} {Q : α → Prop} (start stop : Kind) (n : Nat) {cb : Prog α} (hcb : Ret cb Q) :
    Ret (pSome start stop n cb) (fun xs => ∀ x ∈ xs, Q x) := by
  unfold pSome
  refine Ret.seq fun b => Ret.ite (fun _ => Ret.pure (by simp)) fun _ =>
    Ret.bind (ret_itemsLoop stop hcb n [] (by simp)) fun xs hxs => Ret.ite
      (fun _ => Ret.seq fun _ => Ret.seq fun _ => Ret.of_dead_bind (failAt_dead _ _))
      (fun _ => Ret.seq fun _ => Ret.pure (by simpa using hxs))

/-! ### values -/

theorem itemsOK_ofList {vs : List (Name × Value × Pos)} (h : ∀ x ∈ vs, x.1 = [] ∧ ValueOK x.2.1) :
    ItemsOK (Children.ofList vs) := by
  induction vs with
  | nil => trivial
  | cons x vs ih =>
    obtain ⟨n, v, p⟩ := x
    simp only [Children.ofList, ItemsOK]
    exact ⟨(h (n, v, p) (by simp)).1, (h (n, v, p) (by simp)).2, ih fun y hy => h y (by simp [hy])⟩

theorem fieldsOK_ofList {vs : List (Name × Value × Pos)} (h : ∀ x ∈ vs, ValueOK x.2.1) :
    FieldsOK (Children.ofList vs) := by
  induction vs with
  | nil => trivial
  | cons x vs ih =>
    obtain ⟨n, v, p⟩ := x
    simp only [Children.ofList, FieldsOK]
    exact ⟨h (n, v, p) (by simp), ih fun y hy => h y (by simp [hy])⟩

theorem ret_litValue (src : Nat) (token : Token) (k : ValueKind)
    (hk : ValueOK (.mk k token.value .nil (posOf src token))) : Ret (litValue src token k) ValueOK := by
  unfold litValue
  exact Ret.seq fun _ => Ret.pure hk

theorem valueOK_name (v : Bytes) (p : Pos) : ValueOK (.mk (nameValueKind v) v .nil p) := by
  have : nameValueKind v = .boolean ∨ nameValueKind v = .null ∨ nameValueKind v = .enum := by
    unfold nameValueKind; split
    · exact .inl rfl
    · split
      · exact .inr (.inl rfl)
      · exact .inr (.inr rfl)
  generalize hk : nameValueKind v = k at this
  rcases this with rfl | rfl | rfl <;> simp [ValueOK, hk]

theorem ret_value (c : Bool) : ∀ n, Ret (parseValueLiteral n c) ValueOK
  | 0 => Ret.of_dead (outOfFuel_dead _)
  | n + 1 => by
    have ih := ret_value c n
    unfold parseValueLiteral
    refine Ret.seq fun token => Ret.seq fun src => ?_
    split
    · unfold parseListWith
      refine Ret.seq fun pos => Ret.bind (ret_pMany (Q := fun x => x.1 = [] ∧ ValueOK x.2.1) .bracketL .bracketR (n + 1)
        (Ret.bind ih fun v hv => Ret.pure ⟨rfl, hv⟩)) fun vs hvs => Ret.pure ?_
      simp only [ValueOK]
      exact ⟨trivial, itemsOK_ofList hvs⟩
    · unfold parseObjectWith
      refine Ret.seq fun pos => Ret.bind (ret_pMany (Q := fun x => ValueOK x.2.1) .braceL .braceR (n + 1) ?_) fun vs hvs => Ret.pure ?_
      · unfold parseObjectFieldWith
        exact Ret.seq fun _ => Ret.seq fun _ => Ret.seq fun _ => Ret.bind ih fun v hv => Ret.pure hv
      · simp only [ValueOK]
        exact ⟨trivial, fieldsOK_ofList hvs⟩
    · split
      · exact Ret.of_dead_bind unexpectedError_dead
      · exact Ret.seq fun raw => Ret.pure (by simp [ValueOK])
    · exact ret_litValue _ _ _ (by simp [ValueOK])
    · exact ret_litValue _ _ _ (by simp [ValueOK])
    · exact ret_litValue _ _ _ (by simp [ValueOK])
    · exact ret_litValue _ _ _ (by simp [ValueOK])
    · exact ret_litValue _ _ _ (valueOK_name _ _)
    · exact Ret.of_dead_bind unexpectedError_dead

/-! ### arguments, directives, variable definitions -/

theorem ret_arguments (n : Nat) (c : Bool) : Ret (parseArguments n c) ArgsOK := by
  unfold parseArguments
  refine ret_pSome (Q := fun (a : Argument) => ValueOK a.value) .parenL .parenR n ?_
  unfold parseArgument
  exact Ret.seq fun _ => Ret.seq fun _ => Ret.seq fun _ => Ret.bind (ret_value c n) fun v hv => Ret.pure hv

theorem ret_directive (n : Nat) (c : Bool) : Ret (parseDirective n c) (fun d => ArgsOK d.args) := by
  unfold parseDirective
  exact Ret.seq fun _ => Ret.seq fun _ => Ret.seq fun _ => Ret.bind (ret_arguments n c) fun as has => Ret.pure has

theorem ret_directivesLoop {pd : Prog Directive} (hpd : Ret pd fun d => ArgsOK d.args) :
    ∀ (n : Nat) (acc : List Directive), DirsOK acc → Ret (directivesLoop pd n acc) DirsOK
  | 0, _, _ => Ret.of_dead (outOfFuel_dead _)
  | n + 1, acc, hacc => by
    unfold directivesLoop
    refine Ret.seq fun t => Ret.ite (fun _ => Ret.seq fun e => Ret.ite (fun _ => Ret.pure hacc)
      (fun _ => Ret.bind hpd fun d hd => ret_directivesLoop hpd n (d :: acc) (by
        intro y hy; rcases List.mem_cons.1 hy with rfl | hy
        · exact hd
        · exact hacc y hy))) (fun _ => Ret.pure hacc)

theorem ret_directives (n : Nat) (c : Bool) : Ret (parseDirectives n c) DirsOK := by
  unfold parseDirectives
  exact Ret.bind (ret_directivesLoop (ret_directive n c) n [] (by intro _ h; cases h)) fun ds hds =>
    Ret.pure (by intro d hd; exact hds d (by simpa using hd))

theorem ret_varDef (n : Nat) : Ret (parseVariableDefinition n) VarDefOK := by
  unfold parseVariableDefinition
  refine Ret.seq fun pos => Ret.seq fun var => Ret.seq fun _ => Ret.seq fun ty => Ret.seq fun b => Ret.ite
    (fun _ => Ret.bind (ret_value true n) fun v hv =>
      Ret.bind (Q1 := fun dv => ∀ d, dv = some d → ValueOK d) (Ret.pure (by intro d hd; cases hd; exact hv)) fun dv hdv =>
      Ret.bind (ret_directives n true) fun ds hds => Ret.pure ⟨hdv, hds⟩)
    (fun _ => Ret.bind (Q1 := fun dv => ∀ d, dv = some d → ValueOK d) (Ret.pure (by intro d hd; cases hd)) fun dv hdv =>
      Ret.bind (ret_directives n true) fun ds hds => Ret.pure ⟨hdv, hds⟩)

theorem ret_varDefs (n : Nat) : Ret (parseVariableDefinitions n) (fun vs => ∀ v ∈ vs, VarDefOK v) := by
  unfold parseVariableDefinitions
  exact ret_pSome .parenL .parenR n (ret_varDef n)

/-! ### selections -/

theorem selsOK_ofList {xs : List Selection} (h : ∀ x ∈ xs, SelOK x) : SelsOK (Selections.ofList xs) := by
  induction xs with
  | nil => trivial
  | cons x xs ih =>
    simp only [Selections.ofList, SelsOK]
    exact ⟨h x (by simp), ih fun y hy => h y (by simp [hy])⟩

theorem ret_selSet {sel : Prog Selection} (hsel : Ret sel SelOK) (n : Nat) :
    Ret (parseOptionalSelectionSetWith sel n) SelsOK ∧ Ret (parseRequiredSelectionSetWith sel n) SelsOK := by
  constructor
  · unfold parseOptionalSelectionSetWith
    exact Ret.bind (ret_pSome .braceL .braceR n hsel) fun xs hxs => Ret.pure (selsOK_ofList hxs)
  · unfold parseRequiredSelectionSetWith
    exact Ret.seq fun t => Ret.ite (fun _ => Ret.seq fun _ => Ret.seq fun _ => Ret.of_dead_bind (failAt_dead _ _))
      (fun _ => Ret.bind (ret_pSome .braceL .braceR n hsel) fun xs hxs => Ret.pure (selsOK_ofList hxs))

theorem ret_selection : ∀ n, Ret (parseSelection n) SelOK
  | 0 => Ret.of_dead (outOfFuel_dead _)
  | n + 1 => by
    have ih := ret_selection n
    unfold parseSelection
    refine Ret.seq fun t => Ret.ite (fun _ => ?_) (fun _ => ?_)
    · rw [parseFragmentWith_eq]
      refine Ret.seq fun _ => Ret.seq fun pk => Ret.ite
        (fun _ => Ret.seq fun pos => Ret.seq fun name => Ret.bind (ret_directives (n + 1) false) fun ds hds =>
          Ret.pure (by simpa [SelOK] using hds))
        (fun _ => Ret.seq fun pos => Ret.seq fun t => ?_)
      have htail : ∀ tc, Ret (inlineTail (parseSelection n) (n + 1) pos tc) SelOK := by
        intro tc
        unfold inlineTail
        exact Ret.bind (ret_directives (n + 1) false) fun ds hds => Ret.bind (ret_selSet ih (n + 1)).2 fun ss hss =>
          Ret.pure (by simp only [SelOK]; exact ⟨hds, hss⟩)
      exact Ret.ite (fun _ => Ret.seq fun _ => Ret.seq fun tc => htail tc) (fun _ => htail [])
    · rw [parseFieldWith_eq]
      have htail : ∀ pos al nm, Ret (fieldTail (parseSelection n) (n + 1) pos al nm) SelOK := by
        intro pos al nm
        unfold fieldTail
        refine Ret.bind (ret_arguments (n + 1) false) fun as has => Ret.bind (ret_directives (n + 1) false) fun ds hds =>
          Ret.seq fun t => Ret.ite
            (fun _ => Ret.bind (ret_selSet ih (n + 1)).1 fun ss hss => Ret.pure (by simp only [SelOK]; exact ⟨has, hds, hss⟩))
            (fun _ => Ret.bind (Q1 := fun ss => SelsOK ss) (Ret.pure trivial) fun ss hss =>
              Ret.pure (by simp only [SelOK]; exact ⟨has, hds, hss⟩))
      exact Ret.seq fun pos => Ret.seq fun al => Ret.seq fun b => Ret.ite (fun _ => Ret.seq fun nm => htail pos al nm)
        (fun _ => htail pos al al)

/-! ### definitions and the document -/

theorem ret_operationDefinition (n : Nat) : Ret (parseOperationDefinition n) OpOK := by
  rw [parseOperationDefinition_eq]
  have hss : Ret (parseRequiredSelectionSet n) SelsOK := (ret_selSet (ret_selection n) n).2
  have htail : ∀ pos op name, Ret (opTail n pos op name) OpOK := by
    intro pos op name
    unfold opTail
    exact Ret.bind (ret_varDefs n) fun vs hvs => Ret.bind (ret_directives n false) fun ds hds => Ret.bind hss fun ss hs =>
      Ret.pure ⟨hvs, hds, hs⟩
  refine Ret.seq fun t => Ret.ite
    (fun _ => Ret.seq fun pos => Ret.bind hss fun ss hs => Ret.pure ⟨fun _ h => (by cases h), fun _ h => (by cases h), hs⟩)
    (fun _ => Ret.seq fun pos => Ret.seq fun op => Ret.seq fun t2 => Ret.ite
      (fun _ => Ret.seq fun tk => htail pos op tk.value) (fun _ => htail pos op []))

theorem ret_fragmentDefinition (n : Nat) : Ret (parseFragmentDefinition n) FragOK := by
  unfold parseFragmentDefinition
  exact Ret.seq fun pos => Ret.seq fun _ => Ret.seq fun name => Ret.bind (ret_varDefs n) fun vs hvs => Ret.seq fun _ =>
    Ret.seq fun tc => Ret.bind (ret_directives n false) fun ds hds =>
    Ret.bind (ret_selSet (ret_selection n) n).2 fun ss hs => Ret.pure ⟨hvs, hds, hs⟩

def DocOK (d : QueryDoc) : Prop := (∀ o ∈ d.ops, OpOK o) ∧ (∀ f ∈ d.frags, FragOK f)

theorem ret_queryDocLoop (m : Nat) : ∀ (n : Nat) (doc : QueryDoc), DocOK doc → Ret (queryDocLoop m n doc) DocOK
  | 0, _, _ => Ret.of_dead (outOfFuel_dead _)
  | n + 1, doc, hdoc => by
    have ih := ret_queryDocLoop m n
    have hop : Ret (parseOperationDefinition m >>= fun od => queryDocLoop m n { doc with ops := doc.ops ++ [od] }) DocOK :=
      Ret.bind (ret_operationDefinition m) fun od hod => ih _ ⟨by
        intro o ho
        simp only [List.mem_append, List.mem_singleton] at ho
        rcases ho with ho | rfl
        · exact hdoc.1 o ho
        · exact hod, hdoc.2⟩
    unfold queryDocLoop
    refine Ret.seq fun t => Ret.ite (fun _ => Ret.seq fun e => Ret.ite (fun _ => Ret.pure hdoc)
      (fun _ => Ret.seq fun _ => Ret.seq fun t1 => ?_)) (fun _ => Ret.pure hdoc)
    split
    · refine Ret.seq fun t2 => Ret.ite (fun _ => hop) (fun _ => Ret.ite
        (fun _ => Ret.bind (ret_fragmentDefinition m) fun fd hfd => ih _ ⟨hdoc.1, by
          intro f hf
          simp only [List.mem_append, List.mem_singleton] at hf
          rcases hf with hf | rfl
          · exact hdoc.2 f hf
          · exact hfd⟩)
        (fun _ => Ret.of_dead_bind unexpectedError_dead))
    · exact hop
    · exact Ret.of_dead_bind unexpectedError_dead

theorem opsOf_inl_sublist : ∀ defs : List Def, ((opsOf defs).map (Sum.inl : OperationDef → Def)).Sublist defs
  | [] => List.Sublist.slnil
  | .inl o :: r => by simpa [opsOf] using (opsOf_inl_sublist r).cons_cons (Sum.inl o)
  | .inr f :: r => by simpa [opsOf] using (opsOf_inl_sublist r).cons _

theorem fragsOf_inr_sublist : ∀ defs : List Def, ((fragsOf defs).map (Sum.inr : FragmentDef → Def)).Sublist defs
  | [] => List.Sublist.slnil
  | .inl o :: r => by simpa [fragsOf] using (fragsOf_inr_sublist r).cons _
  | .inr f :: r => by simpa [fragsOf] using (fragsOf_inr_sublist r).cons_cons (Sum.inr f)

/-- the recorded positions of the operations (and of the fragments) of an accepted document
    increase strictly in list order -/
theorem parseQuery_sorted (inp : Bytes) (doc : QueryDoc) (h : parseQuery 0 inp = .ok doc) :
    doc.ops.Pairwise (fun a b => a.pos.start < b.pos.start) ∧ doc.frags.Pairwise (fun a b => a.pos.start < b.pos.start) := by
  obtain ⟨hoof, herr, hdoc⟩ := ofRun_ok.1 h
  have hlive : dead (runQuery 0 inp).2 = false := by simp [dead, hoof, herr]
  obtain ⟨raw, eof, hlex, heof, hraw, hsorted, hcount, r, huniq⟩ :=
    run_to_eof (spec_parseQueryDocument (fuelFor inp)) 0 inp hlive
      (fun _ _ _ ⟨_, used, h1, h2, h3, _⟩ => ⟨used, h1, h2, h3⟩)
  obtain ⟨defs, used, hate, hpk, hk, hops, hfrags, hm⟩ := r
  have hfilter := huniq used hate
  have hops' : doc.ops = opsOf defs := by rw [← hdoc]; simpa [runQuery] using hops
  have hfrags' : doc.frags = fragsOf defs := by rw [← hdoc]; simpa [runQuery] using hfrags
  have hused_sorted : used.Pairwise (fun a b => a.start < b.start) := by
    rw [← hfilter]; exact hsorted.sublist List.filter_sublist
  obtain ⟨_, k2⟩ := many_keys hm hused_sorted
  constructor
  · rw [hops']
    have := k2.sublist (opsOf_inl_sublist defs)
    rw [List.pairwise_map] at this
    exact this.imp fun h => by simpa [defItem] using h
  · rw [hfrags']
    have := k2.sublist (fragsOf_inr_sublist defs)
    rw [List.pairwise_map] at this
    exact this.imp fun h => by simpa [defItem] using h

/-- every tree the parser returns is printable -/
theorem parseQuery_printable (inp : Bytes) (doc : QueryDoc) (h : parseQuery 0 inp = .ok doc) : PrintableQuery doc := by
  obtain ⟨hoof, herr, hdoc⟩ := ofRun_ok.1 h
  have hlive : dead (runQuery 0 inp).2 = false := by simp [dead, hoof, herr]
  have hok : DocOK doc := by
    rw [← hdoc]
    exact ret_queryDocLoop (fuelFor inp) (fuelFor inp) { ops := [], frags := [] }
      ⟨fun _ h => (by cases h), fun _ h => (by cases h)⟩ (PState.init 0 inp) hlive
  obtain ⟨s1, s2⟩ := parseQuery_sorted inp doc h
  obtain ⟨_, _, _, _, _, _, hwf, _⟩ := parseQuery_sound inp doc h
  have hwf' : (∀ o ∈ doc.ops, WFOperation o) ∧ (∀ f ∈ doc.frags, WFFragment f) := by
    by_cases hne : doc.ops ≠ [] ∨ doc.frags ≠ []
    · exact (hwf hne).2.2
    · have h1 : doc.ops = [] := by
        cases hd : doc.ops with
        | nil => rfl
        | cons a b => exact absurd (.inl (by rw [hd]; simp)) hne
      have h2 : doc.frags = [] := by
        cases hd : doc.frags with
        | nil => rfl
        | cons a b => exact absurd (.inr (by rw [hd]; simp)) hne
      rw [h1, h2]
      exact ⟨fun _ h => (by cases h), fun _ h => (by cases h)⟩
  exact ⟨fun o ho => ⟨hwf'.1 o ho, hok.1 o ho⟩, fun f hf => ⟨hwf'.2 f hf, hok.2 f hf⟩,
    s1.imp (fun h => Nat.le_of_lt h), s2.imp (fun h => Nat.le_of_lt h)⟩

/-- **parse ∘ print ∘ parse = parse** (up to positions) -/
theorem parseQuery_print_parse (inp inp' : Bytes) (d : QueryDoc) (h : parseQuery 0 inp = .ok d)
    (htok : tokensOf inp' = some (printQuery d)) :
    ∃ d', parseQuery 0 inp' = .ok d' ∧ d'.erasePos = d.erasePos :=
  parseQuery_print d (parseQuery_printable inp d h) inp' htok

end Gql.Parser
