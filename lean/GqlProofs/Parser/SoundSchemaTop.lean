import GqlProofs.Parser.SoundSchema
import GqlProofs.Parser.SoundTop
/-
  From the program logic to the entry points `parseSchema` / `parseSchemaSrc`.
-/
namespace Gql.Parser
open Gql Gql.Lexer Gql.Grammar Gql.Print

/-! ### the five lists of a schema document and the items in source order -/

/-- a property of every entry of the five lists -/
def DocAll (Q : SItem → Prop) (d : SchemaDoc) : Prop :=
  (∀ x ∈ d.schema, Q (.schema x)) ∧ (∀ x ∈ d.schemaExt, Q (.schemaExt x)) ∧ (∀ x ∈ d.directives, Q (.directive x)) ∧
    (∀ x ∈ d.definitions, Q (.definition x)) ∧ (∀ x ∈ d.extensions, Q (.extension x))

theorem DocAll.add {Q : SItem → Prop} (d : SchemaDoc) (it : SItem) : DocAll Q (d.add it) ↔ DocAll Q d ∧ Q it := by
  cases it <;> simp only [DocAll, SchemaDoc.add, List.mem_append, List.mem_singleton, or_imp, forall_and, forall_eq] <;> grind

theorem DocAll.foldl {Q : SItem → Prop} (items : List SItem) (d : SchemaDoc) :
    DocAll Q (items.foldl SchemaDoc.add d) ↔ DocAll Q d ∧ ∀ it ∈ items, Q it := by
  induction items generalizing d with
  | nil => simp
  | cons it items ih =>
    rw [List.foldl_cons, ih, DocAll.add]
    simp only [List.mem_cons, or_imp, forall_and, forall_eq]
    grind

theorem DocAll.empty (Q : SItem → Prop) : DocAll Q SchemaDoc.empty := by
  simp [DocAll, SchemaDoc.empty]

/-- the keyed unparses of the five lists, in the order `printSchema` concatenates them -/
def docItems (d : SchemaDoc) : List (Nat × List Tok) :=
  d.schema.map (fun x => (x.pos.start, printSchemaDef x))
    ++ d.schemaExt.map (fun x => (x.pos.start, printSchemaExt x))
    ++ d.directives.map (fun x => (x.pos.start, printDirectiveDef x))
    ++ d.definitions.map (fun x => (x.pos.start, printDefinition x))
    ++ d.extensions.map (fun x => (x.pos.start, printExtension x))

theorem printSchema_eq (d : SchemaDoc) : printSchema d = (inSourceOrder (docItems d)).flatten := rfl

theorem docItems_add (d : SchemaDoc) (it : SItem) : (docItems (d.add it)).Perm (docItems d ++ [sItem it]) := by
  apply List.perm_iff_count.2
  intro a
  cases it <;> simp [docItems, SchemaDoc.add, sItem, List.count_append, List.count_cons] <;> omega

theorem docItems_foldl (items : List SItem) (d : SchemaDoc) :
    (docItems (items.foldl SchemaDoc.add d)).Perm (docItems d ++ items.map sItem) := by
  induction items generalizing d with
  | nil => simp
  | cons it items ih =>
    rw [List.foldl_cons]
    refine (ih _).trans ?_
    have := (docItems_add d it).append_right (items.map sItem)
    simpa using this

theorem docItems_empty : docItems SchemaDoc.empty = [] := by simp [docItems, SchemaDoc.empty]

/-! ### items: keys and derivation -/

theorem many_keys_gen {α : Type} {P : α → List Token → Prop} {key : α → Nat} {items : List α} {used : List Token}
    (h : Many P items used) (hp : ∀ x u, P x u → ∃ t ∈ u, key x = t.start)
    (hs : used.Pairwise fun a b => a.start < b.start) :
    (∀ x ∈ items, ∃ t ∈ used, key x = t.start) ∧ items.Pairwise (fun a b => key a < key b) := by
  induction h with
  | nil => exact ⟨fun _ h => (by cases h), List.Pairwise.nil⟩
  | @cons x xs u us hx _ ih =>
    rw [List.pairwise_append] at hs
    obtain ⟨s1, s2, s3⟩ := hs
    obtain ⟨i1, i2⟩ := ih s2
    obtain ⟨t, ht, hkey⟩ := hp x u hx
    refine ⟨fun d hd => ?_, List.pairwise_cons.2 ⟨fun d hd => ?_, i2⟩⟩
    · rcases List.mem_cons.1 hd with rfl | hd
      · exact ⟨t, by simp [ht], hkey⟩
      · obtain ⟨t', ht', hk'⟩ := i1 d hd
        exact ⟨t', by simp [ht'], hk'⟩
    · obtain ⟨t', ht', hk'⟩ := i1 d hd
      rw [hkey, hk']
      exact s3 t ht t' ht'

theorem many_sitems {items : List SItem} {used : List Token} (h : Many PSItem items used)
    (hen : ∀ it ∈ items, it.enumOK) :
    Derives gql (.star (.nt .typeSystemDefinitionOrExtension)) (tk used) (items.flatMap fun it => (sItem it).2) ∧
      ∀ it ∈ items, it.WF := by
  induction h with
  | nil => exact ⟨Derives.starNil, fun _ h => by cases h⟩
  | @cons x xs u us hx _ ih =>
    obtain ⟨i1, i2⟩ := ih fun it hit => hen it (by simp [hit])
    obtain ⟨d, wf⟩ := hx.2 (hen x (by simp))
    refine ⟨?_, fun it hit => ?_⟩
    · simp only [tk_append, List.flatMap_cons]
      exact Derives.starCons d i1
    · rcases List.mem_cons.1 hit with rfl | hit
      · exact wf
      · exact i2 it hit

/-! ### `BuiltIn` is not part of the unparse -/

theorem docItems_setBuiltIn (b : Bool) (d : SchemaDoc) : docItems (setBuiltIn b d) = docItems d := by
  simp only [docItems, setBuiltIn, List.map_map]
  rfl

theorem printSchema_setBuiltIn (b : Bool) (d : SchemaDoc) : printSchema (setBuiltIn b d) = printSchema d := by
  rw [printSchema_eq, printSchema_eq, docItems_setBuiltIn]

theorem WFSchema_iff (d : SchemaDoc) :
    WFSchema d ↔ (d.schema ≠ [] ∨ d.schemaExt ≠ [] ∨ d.directives ≠ [] ∨ d.definitions ≠ [] ∨ d.extensions ≠ []) ∧
      DocAll SItem.WF d := Iff.rfl

theorem DocAll_setBuiltIn_WF (b : Bool) (d : SchemaDoc) (h : DocAll SItem.WF d) : DocAll SItem.WF (setBuiltIn b d) := by
  obtain ⟨h1, h2, h3, h4, h5⟩ := h
  refine ⟨h1, h2, h3, ?_, ?_⟩
  · intro x hx
    simp only [setBuiltIn, List.mem_map] at hx
    obtain ⟨y, hy, rfl⟩ := hx
    exact h4 y hy
  · intro x hx
    simp only [setBuiltIn, List.mem_map] at hx
    obtain ⟨y, hy, rfl⟩ := hx
    exact h5 y hy

theorem DocAll_setBuiltIn_enum (b : Bool) (d : SchemaDoc) (h : DocAll SItem.enumOK (setBuiltIn b d)) :
    DocAll SItem.enumOK d := by
  obtain ⟨_, _, _, h4, h5⟩ := h
  refine ⟨fun _ _ => trivial, fun _ _ => trivial, fun _ _ => trivial, ?_, ?_⟩
  · intro x hx
    exact h4 { x with builtIn := b } (by simp only [setBuiltIn, List.mem_map]; exact ⟨x, hx, rfl⟩)
  · intro x hx
    exact h5 { x with builtIn := b } (by simp only [setBuiltIn, List.mem_map]; exact ⟨x, hx, rfl⟩)

/-- the document has at least one definition -/
def SchemaDoc.nonEmpty (d : SchemaDoc) : Prop :=
  d.schema ≠ [] ∨ d.schemaExt ≠ [] ∨ d.directives ≠ [] ∨ d.definitions ≠ [] ∨ d.extensions ≠ []

theorem nonEmpty_iff_docItems (d : SchemaDoc) : SchemaDoc.nonEmpty d ↔ docItems d ≠ [] := by
  simp only [SchemaDoc.nonEmpty, docItems, ne_eq, List.append_eq_nil_iff, List.map_eq_nil_iff]
  grind

/-- **soundness of the schema parser run** (any source index) -/
theorem runSchema_sound (src : Nat) (inp : Bytes) (d0 : SchemaDoc) (h : Result.ofRun (runSchema 0 src inp) = .ok d0) :
    ∃ (raw : List Token) (eof : Token), lexAll inp = .done (raw ++ [eof]) ∧ eof.kind = .eof ∧
      (∀ t ∈ raw, t.kind ≠ .eof) ∧
      (runSchema 0 src inp).2.tokenCount = raw.length ∧
      (SchemaDoc.nonEmpty d0 → DocAll SItem.enumOK d0 →
        Derives gql (.nt .typeSystemDocument) (tk (raw.filter fun t => t.kind != .comment)) (printSchema d0) ∧
        WFSchema d0) ∧
      (¬ SchemaDoc.nonEmpty d0 → raw.filter (fun t => t.kind != .comment) = []) := by
  obtain ⟨hoof, herr, hdoc⟩ := ofRun_ok.1 h
  have hlive : dead (runSchema 0 src inp).2 = false := by simp [dead, hoof, herr]
  obtain ⟨raw, eof, hlex, heof, hraw, hsorted, hcount, r, huniq⟩ :=
    run_to_eof (spec_parseSchemaDocument (fuelFor inp)) src inp hlive
      (fun _ _ _ ⟨_, used, h1, h2, h3, _⟩ => ⟨used, h1, h2, h3⟩)
  obtain ⟨items, used, hate, hpk, hk, hd, hm⟩ := r
  have hfilter := huniq used hate
  have hd0 : d0 = items.foldl SchemaDoc.add SchemaDoc.empty := by rw [← hdoc]; exact hd
  have hperm : (docItems d0).Perm (items.map sItem) := by
    rw [hd0]; simpa [docItems_empty] using docItems_foldl items SchemaDoc.empty
  refine ⟨raw, eof, hlex, heof, hraw, hcount, fun hne hen => ?_, fun hemp => ?_⟩
  · have hitems : items ≠ [] := by
      intro e; subst e
      have := (nonEmpty_iff_docItems d0).1 hne
      exact this (by simpa using hperm.length_eq)
    have hen' : ∀ it ∈ items, it.enumOK := by
      rw [hd0] at hen
      exact ((DocAll.foldl items SchemaDoc.empty).1 hen).2
    obtain ⟨d1, d2⟩ := many_sitems hm hen'
    have hused_sorted : used.Pairwise (fun a b => a.start < b.start) := by
      rw [← hfilter]; exact hsorted.sublist List.filter_sublist
    obtain ⟨_, k2⟩ := many_keys_gen (key := fun it => (sItem it).1) hm (fun x u p => p.1) hused_sorted
    have hprint : printSchema d0 = items.flatMap fun it => (sItem it).2 := by
      rw [printSchema_eq, inSourceOrder_sorted hperm (by simpa [List.pairwise_map] using k2)]
      simp [List.flatMap_def, List.map_map, Function.comp_def]
    have hused_ne : tk used ≠ [] := by
      cases hm with
      | nil => exact absurd rfl hitems
      | @cons x xs u us hx _ =>
        obtain ⟨t, ht, _⟩ := hx.1
        cases u with
        | nil => cases ht
        | cons t' rest => simp
    refine ⟨?_, (WFSchema_iff d0).2 ⟨hne, ?_⟩⟩
    · rw [hfilter, hprint]
      exact Derives.nt (n := NT.typeSystemDocument) (star_to_plus d1 hused_ne)
    · rw [hd0]
      exact (DocAll.foldl items SchemaDoc.empty).2 ⟨DocAll.empty _, d2⟩
  · have : items = [] := by
      cases items with
      | nil => rfl
      | cons it rest =>
        exfalso; apply hemp
        rw [nonEmpty_iff_docItems]
        intro e
        have := hperm.length_eq
        rw [e] at this
        simp at this
    subst this
    rw [hfilter]
    cases hm
    rfl

theorem countTokens_schema (src : Nat) (inp : Bytes) (d0 : SchemaDoc) (h : Result.ofRun (runSchema 0 src inp) = .ok d0) :
    (runSchema 0 src inp).2.tokenCount = countTokens inp := by
  obtain ⟨raw, eof, h1, h2, h3, h4, _⟩ := runSchema_sound src inp d0 h
  rw [h4, countTokens_of_done h1 h2 h3]

end Gql.Parser
