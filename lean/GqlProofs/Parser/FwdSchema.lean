import GqlProofs.Parser.FwdTop
import GqlProofs.Parser.SoundSchema
/-
  The converse of `SoundSchema.lean` on printed trees (type-system documents).

  Descriptions.  `Print.printSchema` writes a description as a String token whose value is the
  description text.  A formatter may write it as a block string; the printers below take the
  token kind `dk` of descriptions as a parameter (`printSchemaK (fun _ => .string) = printSchema`), and the
  forward lemmas hold for `dk = .string` and `dk = .blockString`: what the parser reads of a
  description token is its value.
-/
namespace Gql.Parser
open Gql Gql.Lexer Gql.Grammar Gql.Print

/-! ### the unparser with the kind of description tokens as a parameter -/

section PrintK
variable (dk : Bytes → Kind)

def printDescK (d : Bytes) : List Tok := if d = [] then [] else [{ kind := dk d, value := d }]

def printArgDefK (a : ArgDef) : List Tok :=
  printDescK dk a.desc ++ tName a.name :: tP .colon :: printType a.type ++ printDefault a.default ++ printDirectives a.dirs

def printArgDefsK (as : List ArgDef) : List Tok :=
  if as.isEmpty then [] else tP .parenL :: as.flatMap (printArgDefK dk) ++ [tP .parenR]

def printFieldDefK (f : FieldDef) : List Tok :=
  printDescK dk f.desc ++ tName f.name :: printArgDefsK dk f.args ++ tP .colon :: printType f.type ++ printDirectives f.dirs

def printInputFieldK (f : FieldDef) : List Tok :=
  printDescK dk f.desc ++ tName f.name :: tP .colon :: printType f.type ++ printDefault f.default ++ printDirectives f.dirs

def printEnumValK (e : EnumValDef) : List Tok := printDescK dk e.desc ++ tName e.name :: printDirectives e.dirs

def printDefBodyK (d : Definition) : List Tok :=
  match d.kind with
  | .scalar => tName d.name :: printDirectives d.dirs
  | .object => tName d.name :: printImplements d.interfaces ++ printDirectives d.dirs ++ printBlock (printFieldDefK dk) d.fields
  | .interface => tName d.name :: printImplements d.interfaces ++ printDirectives d.dirs ++ printBlock (printFieldDefK dk) d.fields
  | .union => tName d.name :: printDirectives d.dirs ++ printMembers d.types
  | .enum => tName d.name :: printDirectives d.dirs ++ printBlock (printEnumValK dk) d.enumValues
  | .inputObject => tName d.name :: printDirectives d.dirs ++ printBlock (printInputFieldK dk) d.fields

def printDefinitionK (d : Definition) : List Tok := printDescK dk d.desc ++ DefKind.keyword d.kind :: printDefBodyK dk d

def printExtensionK (d : Definition) : List Tok := tKw "extend" :: DefKind.keyword d.kind :: printDefBodyK dk d

def printSchemaDefK (s : SchemaDef) : List Tok :=
  printDescK dk s.desc ++ tKw "schema" :: printDirectives s.dirs ++ tP .braceL :: s.opTypes.flatMap printOpType ++ [tP .braceR]

def printDirectiveDefK (d : DirectiveDef) : List Tok :=
  printDescK dk d.desc ++ tKw "directive" :: tP .at :: tName d.name :: printArgDefsK dk d.args
    ++ (if d.repeatable then [tKw "repeatable"] else []) ++ tKw "on" :: printSep .pipe d.locations

/-- the printed tokens of a top-level item -/
def printItemK : SItem → List Tok
  | .schema s => printSchemaDefK dk s
  | .schemaExt s => printSchemaExt s
  | .directive d => printDirectiveDefK dk d
  | .definition d => printDefinitionK dk d
  | .extension d => printExtensionK dk d

end PrintK

theorem printDescK_string (d : Bytes) : printDescK (fun _ => .string) d = printDesc d := rfl
theorem printArgDefK_string (a : ArgDef) : printArgDefK (fun _ => .string) a = printArgDef a := rfl
theorem printArgDefsK_string (as : List ArgDef) : printArgDefsK (fun _ => .string) as = printArgDefs as := by
  unfold printArgDefsK printArgDefs
  simp only [show printArgDefK (fun _ => .string) = printArgDef from funext printArgDefK_string]
theorem printFieldDefK_string (f : FieldDef) : printFieldDefK (fun _ => .string) f = printFieldDef f := by
  simp [printFieldDefK, printFieldDef, printArgDefsK_string, printDescK_string]
theorem printInputFieldK_string (f : FieldDef) : printInputFieldK (fun _ => .string) f = printInputField f := rfl
theorem printEnumValK_string (e : EnumValDef) : printEnumValK (fun _ => .string) e = printEnumVal e := rfl
theorem printDefBodyK_string (d : Definition) : printDefBodyK (fun _ => .string) d = printDefBody d := by
  unfold printDefBodyK printDefBody
  simp only [show printFieldDefK (fun _ => .string) = printFieldDef from funext printFieldDefK_string,
    show printEnumValK (fun _ => .string) = printEnumVal from funext printEnumValK_string,
    show printInputFieldK (fun _ => .string) = printInputField from funext printInputFieldK_string]
  cases d.kind <;> rfl
theorem printItemK_string (it : SItem) : printItemK (fun _ => .string) it = (sItem it).2 := by
  cases it <;> simp [printItemK, sItem, printSchemaDefK, printSchemaDef, printDirectiveDefK, printDirectiveDef,
    printDefinitionK, printDefinition, printExtensionK, printExtension, printDefBodyK_string, printArgDefsK_string,
    printDescK_string]

/-- the kinds a description token may have -/
def DescKind (k : Kind) : Prop := k = .string ∨ k = .blockString

/-! ### descriptions -/

/-- no description token ahead -/
def NoDesc (σ : Stream) : Prop := σ.head.kind ≠ .string ∧ σ.head.kind ≠ .blockString

theorem fwd_description {dk : Bytes → Kind} (hdk : ∀ d, DescKind (dk d)) (d : Bytes) (a : AS) (σ' : Stream)
    (hs : Starts a.σ (printDescK dk d) σ') (hfol : d = [] → NoDesc σ') :
    Fwd parseDescription a (fun x a' => x = d ∧ a'.σ = σ') := by
  unfold parseDescription
  refine Fwd.bind (fwd_peek a) ?_
  rintro token a1 ⟨rfl, rfl⟩
  by_cases hd : d = []
  · subst hd
    simp only [printDescK, if_true] at hs
    rw [Starts.nil_iff] at hs
    obtain ⟨f1, f2⟩ := hfol rfl
    refine Fwd.ite_pos ⟨by rw [hs]; exact f2, by rw [hs]; exact f1⟩ ((Fwd.pure _ _).mono ?_)
    rintro x a' ⟨rfl, rfl⟩
    exact ⟨rfl, hs⟩
  · simp only [printDescK, if_neg hd] at hs
    obtain ⟨u, hσ, hu⟩ := hs.single
    have hk : a.σ.head.kind = dk d := by rw [hσ]; exact ofToken_kind hu
    refine Fwd.ite_neg (by
      rw [hk]; rcases hdk d with h | h <;> simp [h]) (Fwd.bind (fwd_next (a := { pk := true, σ := a.σ, cnt := a.cnt }) rfl hσ) ?_)
    rintro t a2 ⟨rfl, rfl⟩
    refine (Fwd.pure _ _).mono ?_
    rintro x a' ⟨rfl, rfl⟩
    exact ⟨ofToken_value hu, rfl⟩

theorem fwd_optionalDescription {dk : Bytes → Kind} (hdk : ∀ d, DescKind (dk d)) (d : Bytes) (a : AS) (σ' : Stream)
    (hs : Starts a.σ (printDescK dk d) σ') (hfol : d = [] → NoDesc σ') :
    Fwd parseOptionalDescription a (fun x a' => x.1 = d ∧ (x.2 = true → d ≠ []) ∧ a'.σ = σ') := by
  unfold parseOptionalDescription
  refine Fwd.bind (fwd_peek a) ?_
  rintro x a1 ⟨rfl, rfl⟩
  have hdesc := fwd_description hdk d { pk := true, σ := a.σ, cnt := a.cnt } σ' (by simpa using hs) hfol
  by_cases hd : d = []
  · have hs0 := hs
    subst hd
    simp only [printDescK, if_true] at hs0
    rw [Starts.nil_iff] at hs0
    obtain ⟨f1, f2⟩ := hfol rfl
    refine Fwd.ite_neg (by rw [hs0]; exact f2) (Fwd.bind (fwd_peek _) ?_)
    rintro y a2 ⟨rfl, rfl⟩
    refine Fwd.ite_neg (by simp only; rw [hs0]; exact f1) ((Fwd.pure _ _).mono ?_)
    rintro r a' ⟨rfl, rfl⟩
    exact ⟨rfl, fun h => (by cases h), by simp [hs0]⟩
  · have hk : a.σ.head.kind = dk d := by
      simp only [printDescK, if_neg hd] at hs
      exact hs.head_kind
    rcases hdk d with h | h
    · refine Fwd.ite_neg (by rw [hk, h]; decide) (Fwd.bind (fwd_peek _) ?_)
      rintro y a2 ⟨rfl, rfl⟩
      refine Fwd.ite_pos (by simp only; rw [hk, h]) (Fwd.bind (by simpa using hdesc) ?_)
      rintro x a3 ⟨rfl, hσ⟩
      exact (Fwd.pure _ _).mono fun _ _ hh => ⟨by rw [hh.1], fun _ => hd, by rw [hh.2, hσ]⟩
    · refine Fwd.ite_pos (by rw [hk, h]) (Fwd.bind hdesc ?_)
      rintro x a3 ⟨rfl, hσ⟩
      exact (Fwd.pure _ _).mono fun _ _ hh => ⟨by rw [hh.1], fun _ => hd, by rw [hh.2, hσ]⟩

/-! ### separated name lists -/

theorem fwd_sepLoop (sep : Kind) {item : Prog Name} :
    ∀ (rest : List Name), (∀ m ∈ rest, ∀ a σ1, Starts a.σ [tName m] σ1 → Fwd item a (fun x a' => x = m ∧ a'.σ = σ1)) →
    ∀ (n : Nat) (acc : List Name) (a : AS) (σ' : Stream),
      Starts a.σ (rest.flatMap fun m => [tP sep, tName m]) σ' → σ'.head.kind ≠ sep →
      Fwd (sepLoop sep item n acc) a (fun xs a' => xs = rest.reverse ++ acc ∧ a'.σ = σ')
  | [], _ => by
    intro n acc a σ' hs hfol
    rw [List.flatMap_nil, Starts.nil_iff] at hs
    cases n with
    | zero => exact Fwd.outOfFuel _ _ _
    | succ n =>
      unfold sepLoop
      refine Fwd.bind (fwd_skipP_no sep (by rw [hs]; exact hfol)) ?_
      rintro b a1 ⟨rfl, hσ⟩
      refine Fwd.ite_neg (by simp) ((Fwd.pure _ _).mono ?_)
      rintro xs a' ⟨rfl, rfl⟩
      exact ⟨by simp, by rw [hσ, hs]⟩
  | m :: rest, hitem => by
    intro n acc a σ' hs hfol
    simp only [List.flatMap_cons, List.cons_append, List.nil_append] at hs
    obtain ⟨σ1, h1, hs2⟩ := hs.cons_single
    obtain ⟨σ2, h2, h3⟩ := hs2.cons_single
    cases n with
    | zero => exact Fwd.outOfFuel _ _ _
    | succ n =>
      unfold sepLoop
      refine Fwd.bind (fwd_skipP_yes sep h1) ?_
      rintro b a1 ⟨rfl, hσ1⟩
      refine Fwd.ite_pos rfl (Fwd.bind (fwd_hasErr _) ?_)
      rintro e a2 ⟨rfl, rfl⟩
      refine Fwd.ite_neg (by simp) (Fwd.bind (hitem m (by simp) _ σ2 (by rw [hσ1]; exact h2)) ?_)
      rintro x a3 ⟨rfl, hσ3⟩
      refine (fwd_sepLoop sep rest (fun z hz => hitem z (by simp [hz])) n (x :: acc) a3 σ' (by rw [hσ3]; exact h3) hfol).mono ?_
      rintro xs a' ⟨rfl, e2⟩
      exact ⟨by simp, e2⟩

/-- `x (sep x)*` without leading separator, as the three list parsers run it after their keyword -/
theorem fwd_sepList (sep : Kind) {item : Prog Name} (first : Name) (rest : List Name)
    (hitem : ∀ m ∈ first :: rest, ∀ a σ1, Starts a.σ [tName m] σ1 → Fwd item a (fun x a' => x = m ∧ a'.σ = σ1))
    (hsepname : sep ≠ .name) (n : Nat) (a : AS) (σ' : Stream) (hs : Starts a.σ (printSep sep (first :: rest)) σ')
    (hfol : σ'.head.kind ≠ sep) :
    Fwd (do let _ ← skip sep; let f ← item; let more ← sepLoop sep item n [f]; pure more.reverse) a
      (fun xs a' => xs = first :: rest ∧ a'.σ = σ') := by
  rw [printSep_cons] at hs
  obtain ⟨σ1, h1, h2⟩ := hs.cons_single
  refine Fwd.bind (fwd_skipP_no sep (by rw [hs.head_kind]; exact fun h => hsepname h.symm)) ?_
  rintro b a1 ⟨rfl, hσ1⟩
  refine Fwd.bind (hitem first (by simp) a1 σ1 (by rw [hσ1]; exact h1)) ?_
  rintro x a2 ⟨rfl, hσ2⟩
  refine Fwd.bind (fwd_sepLoop sep rest (fun z hz => hitem z (by simp [hz])) n [x] a2 σ' (by rw [hσ2]; exact h2) hfol) ?_
  rintro xs a3 ⟨rfl, hσ⟩
  exact (Fwd.pure _ _).mono fun _ _ h => ⟨by rw [h.1]; simp, by rw [h.2, hσ]⟩

/-- no `implements` keyword ahead -/
def NoImplements (σ : Stream) : Prop := ¬ (σ.head.kind = .name ∧ σ.head.value = kwImplements)

theorem fwd_implements (ifs : List Name) (n : Nat) (a : AS) (σ' : Stream) (hs : Starts a.σ (printImplements ifs) σ')
    (hfol : σ'.head.kind ≠ .amp) (hfol0 : ifs = [] → NoImplements σ') :
    Fwd (parseImplementsInterfaces n) a (fun xs a' => xs = ifs ∧ a'.σ = σ') := by
  unfold parseImplementsInterfaces
  refine Fwd.bind (fwd_peek a) ?_
  rintro t a1 ⟨rfl, rfl⟩
  cases ifs with
  | nil =>
    simp only [printImplements, List.isEmpty_nil, if_true] at hs
    rw [Starts.nil_iff] at hs
    refine Fwd.ite_neg (by rw [hs]; exact hfol0 rfl) ((Fwd.pure _ _).mono ?_)
    rintro xs a' ⟨rfl, rfl⟩
    exact ⟨rfl, hs⟩
  | cons first rest =>
    simp only [printImplements, List.isEmpty_cons, Bool.false_eq_true, if_false] at hs
    obtain ⟨σ1, h1, h2⟩ := hs.cons_single
    obtain ⟨u, hσ, hu⟩ := h1.single
    refine Fwd.ite_pos ⟨by rw [hσ]; exact ofToken_kind hu, by rw [hσ]; exact ofToken_value hu⟩
      (Fwd.bind (fwd_next (a := { pk := true, σ := a.σ, cnt := a.cnt }) rfl hσ) ?_)
    rintro _ a2 ⟨_, rfl⟩
    exact fwd_sepList .amp first rest (fun m _ a0 σ0 h => fwd_parseName m h) (by decide) n _ σ' (by simpa using h2) hfol

theorem fwd_unionMembers (ts : List Name) (n : Nat) (a : AS) (σ' : Stream) (hs : Starts a.σ (printMembers ts) σ')
    (hfol : σ'.head.kind ≠ .pipe) (hfol0 : ts = [] → σ'.head.kind ≠ .equals) :
    Fwd (parseUnionMemberTypes n) a (fun xs a' => xs = ts ∧ a'.σ = σ') := by
  unfold parseUnionMemberTypes
  cases ts with
  | nil =>
    simp only [printMembers, List.isEmpty_nil, if_true] at hs
    rw [Starts.nil_iff] at hs
    refine Fwd.bind (fwd_skipP_no .equals (by rw [hs]; exact hfol0 rfl)) ?_
    rintro b a1 ⟨rfl, hσ⟩
    refine Fwd.ite_neg (by simp) ((Fwd.pure _ _).mono ?_)
    rintro xs a' ⟨rfl, rfl⟩
    exact ⟨rfl, by rw [hσ, hs]⟩
  | cons first rest =>
    simp only [printMembers, List.isEmpty_cons, Bool.false_eq_true, if_false] at hs
    obtain ⟨σ1, h1, h2⟩ := hs.cons_single
    refine Fwd.bind (fwd_skipP_yes .equals h1) ?_
    rintro b a1 ⟨rfl, hσ1⟩
    refine Fwd.ite_pos rfl ?_
    exact fwd_sepList .pipe first rest (fun m _ a0 σ0 h => fwd_parseName m h) (by decide) n _ σ' (by rw [hσ1]; exact h2) hfol

theorem fwd_directiveLocation (m : Name) (hm : m ∈ Gql.Grammar.directiveLocationNames) (a : AS) (σ1 : Stream)
    (hs : Starts a.σ [tName m] σ1) : Fwd parseDirectiveLocation a (fun x a' => x = m ∧ a'.σ = σ1) := by
  obtain ⟨u, hσ, hu⟩ := hs.single
  have hk : u.kind = .name := ofToken_kind hu
  have hv : u.value = m := ofToken_value hu
  unfold parseDirectiveLocation
  refine Fwd.bind (fwd_expect .name hσ hk) ?_
  rintro name a1 ⟨rfl, rfl⟩
  refine Fwd.ite_pos (by rw [hv, locationNames_eq]; exact List.contains_iff_mem.2 hm) ((Fwd.pure _ _).mono ?_)
  rintro x a' ⟨rfl, rfl⟩
  exact ⟨hv, rfl⟩

theorem fwd_directiveLocations (ls : List Name) (hne : ls ≠ []) (hl : ∀ l ∈ ls, l ∈ Gql.Grammar.directiveLocationNames)
    (n : Nat) (a : AS) (σ' : Stream) (hs : Starts a.σ (printSep .pipe ls) σ') (hfol : σ'.head.kind ≠ .pipe) :
    Fwd (parseDirectiveLocations n) a (fun xs a' => xs = ls ∧ a'.σ = σ') := by
  cases ls with
  | nil => exact absurd rfl hne
  | cons first rest =>
    unfold parseDirectiveLocations
    exact fwd_sepList .pipe first rest (fun m hm a0 σ0 h => fwd_directiveLocation m (hl m hm) a0 σ0 h) (by decide) n a σ' hs hfol

/-! ### optional blocks -/

theorem fwd_optBlock {α : Type} (E : α → α) (f : α → List Tok) (Fol : Stream → Prop) (start stop : Kind) {cb : Prog α}
    (xs : List α)
    (hcb : ∀ x ∈ xs, ∀ a σ1, Starts a.σ (f x) σ1 → Fol σ1 → Fwd cb a (fun y a' => E y = E x ∧ a'.σ = σ1))
    (hstart : ∀ x ∈ xs, ∃ t rest, f x = t :: rest ∧ t.kind ≠ stop)
    (hfol : ∀ σ1, (σ1.head.kind = stop ∨ ∃ x ∈ xs, ∃ t rest, f x = t :: rest ∧ Tok.ofToken σ1.head = t) → Fol σ1)
    (n : Nat) (a : AS) (σ' : Stream)
    (hs : Starts a.σ (if xs.isEmpty then [] else tP start :: xs.flatMap f ++ [tP stop]) σ')
    (habs : xs = [] → σ'.head.kind ≠ start) :
    Fwd (pSome start stop n cb) a (fun ys a' => ys.map E = xs.map E ∧ a'.σ = σ') := by
  by_cases he : xs = []
  · subst he
    simp only [List.isEmpty_nil, if_true] at hs
    rw [Starts.nil_iff] at hs
    refine (fwd_bracket_absent start stop n a (by rw [hs]; exact habs rfl)).2.mono ?_
    rintro ys a' ⟨rfl, hσ⟩
    exact ⟨rfl, by rw [hσ, hs]⟩
  · have : xs.isEmpty = false := by cases xs <;> simp_all
    rw [this] at hs
    exact (fwd_bracket E f Fol start stop xs hcb hstart hfol n a σ' (by simpa using hs)).2 he

/-- the first token of a described item `desc? Name …` -/
theorem head_described (dk : Bytes → Kind) (desc : Bytes) (nm : Name) (rest : List Tok) :
    ∃ t r, printDescK dk desc ++ tName nm :: rest = t :: r ∧ (t.kind = dk desc ∨ t.kind = .name) := by
  unfold printDescK
  split
  · exact ⟨tName nm, rest, rfl, .inr rfl⟩
  · exact ⟨_, _, rfl, .inl rfl⟩

theorem firstKind_descK (dk : Bytes → Kind) (d : Bytes) (k : Kind) : firstKind (printDescK dk d) k = if d = [] then k else dk d := by
  unfold printDescK; split <;> rfl

/-! ### input values, fields, enum values -/

/-- constant, printable directives / default value -/
def CDirs (ds : List Directive) : Prop := DirsOK ds ∧ ConstDirectives ds
def CDefault (dv : Option Value) : Prop := ∀ d, dv = some d → ValueOK d ∧ ConstValue d

def ArgDefOK (a : ArgDef) : Prop := CDefault a.default ∧ CDirs a.dirs
def FieldDefOK (f : FieldDef) : Prop := (∀ a ∈ f.args, ArgDefOK a) ∧ f.default = none ∧ CDirs f.dirs
def InputFieldOK (f : FieldDef) : Prop := f.args = [] ∧ CDefault f.default ∧ CDirs f.dirs
def EnumValOK (e : EnumValDef) : Prop := CDirs e.dirs

/-- what may not follow an input value definition (what does follow is a Name, a description or the
    closing bracket) -/
def FolArg (σ : Stream) : Prop :=
  σ.head.kind ≠ .bang ∧ σ.head.kind ≠ .equals ∧ σ.head.kind ≠ .at ∧ σ.head.kind ≠ .parenL

/-- the common tail `: Type DefaultValue? Directives?` of the two kinds of input value definitions -/
theorem fwd_inputTail (ty : GType) (dv : Option Value) (ds : List Directive) (hdv : CDefault dv) (hds : CDirs ds)
    (n : Nat) (a : AS) (σ' : Stream)
    (hs : Starts a.σ (tP .colon :: (printType ty ++ (printDefault dv ++ printDirectives ds))) σ') (hfol : FolArg σ')
    {β : Type} (mk : GType → Option Value → List Directive → β) (Eβ : β → β)
    (hE : ∀ ty' dv' ds', ty'.erasePos = ty.erasePos → dv'.map Value.erasePos = dv.map Value.erasePos →
      ds'.map Directive.erasePos = ds.map Directive.erasePos → Eβ (mk ty' dv' ds') = Eβ (mk ty dv ds)) :
    Fwd (do
      let _ ← expect .colon
      let ty ← parseTypeReference n
      let dv ← do
        if ← skip .equals then
          let v ← parseValueLiteral n true
          pure (Option.some v)
        else pure none
      let dirs ← parseDirectives n true
      pure (mk ty dv dirs)) a (fun y a' => Eβ y = Eβ (mk ty dv ds) ∧ a'.σ = σ') := by
  obtain ⟨f1, f2, f3, f4⟩ := hfol
  obtain ⟨σ1, h1, hs⟩ := hs.cons_single
  rw [Starts.append_iff] at hs
  obtain ⟨σ2, h2, hs⟩ := hs
  rw [Starts.append_iff] at hs
  obtain ⟨σ3, h3, h4⟩ := hs
  have k4 := h4.firstKind
  rw [firstKind_directives] at k4
  have k3 := h3.firstKind
  rw [firstKind_default] at k3
  refine Fwd.bind (fwd_punct .colon h1) ?_
  rintro _ b1 hσ1
  refine Fwd.bind (fwd_type ty n b1 σ2 (by rw [hσ1]; exact h2) (fun _ => by
    rw [k3]; split
    · rw [k4]; split
      · exact f1
      · decide
    · decide)) ?_
  rintro ty' b2 ⟨hty, hσ2⟩
  have hdirs : ∀ (b : AS), b.σ = σ3 → Fwd (parseDirectives n true) b
      (fun ys a' => ys.map Directive.erasePos = ds.map Directive.erasePos ∧ a'.σ = σ') :=
    fun b hb => fwd_directives true ds hds.1 (fun _ => hds.2) n b σ' (by rw [hb]; exact h4) f3 f4
  cases dv with
  | none =>
    simp only [printDefault] at h3
    rw [Starts.nil_iff] at h3
    subst h3
    refine Fwd.bind (fwd_skipP_no .equals (by
      rw [hσ2, k4]; split
      · exact f2
      · decide)) ?_
    rintro b b3 ⟨rfl, hσ3⟩
    refine Fwd.ite_neg (by simp) (Fwd.bind (Fwd.pure none _) ?_)
    rintro dv' b4 ⟨rfl, rfl⟩
    refine Fwd.bind (hdirs _ (by rw [hσ3, hσ2])) ?_
    rintro ds' b5 ⟨hds', hσ⟩
    refine (Fwd.pure _ _).mono ?_
    rintro y b6 ⟨rfl, rfl⟩
    exact ⟨hE _ _ _ hty rfl hds', hσ⟩
  | some d =>
    simp only [printDefault] at h3
    obtain ⟨σe, he, hv⟩ := h3.cons_single
    refine Fwd.bind (fwd_skipP_yes .equals (by rw [hσ2]; exact he)) ?_
    rintro b b3 ⟨rfl, hσ3⟩
    refine Fwd.ite_pos rfl (Fwd.bind (fwd_value true d (hdv d rfl).1 (fun _ => (hdv d rfl).2) n b3 σ3 (by rw [hσ3]; exact hv)) ?_)
    rintro v' b4 ⟨hv', hσ4⟩
    refine Fwd.bind (Fwd.pure (Option.some v') _) ?_
    rintro dv' b5 ⟨rfl, rfl⟩
    refine Fwd.bind (hdirs _ hσ4) ?_
    rintro ds' b6 ⟨hds', hσ⟩
    refine (Fwd.pure _ _).mono ?_
    rintro y b7 ⟨rfl, rfl⟩
    exact ⟨hE _ _ _ hty (by simp [hv']) hds', hσ⟩

theorem fwd_argDef {dk : Bytes → Kind} (hdk : ∀ d, DescKind (dk d)) (x : ArgDef) (hok : ArgDefOK x) (n : Nat) (a : AS) (σ' : Stream)
    (hs : Starts a.σ (printArgDefK dk x) σ') (hfol : FolArg σ') :
    Fwd (parseArgumentDef n) a (fun y a' => y.erasePos = x.erasePos ∧ a'.σ = σ') := by
  have hs : Starts a.σ (printDescK dk x.desc ++ ([tName x.name] ++ (tP .colon :: (printType x.type ++
      (printDefault x.default ++ printDirectives x.dirs))))) σ' := by simpa [printArgDefK] using hs
  rw [Starts.append_iff] at hs
  obtain ⟨σ1, h1, hs⟩ := hs
  rw [Starts.append_iff] at hs
  obtain ⟨σ2, h2, h3⟩ := hs
  unfold parseArgumentDef
  refine Fwd.bind (fwd_peekPos _) ?_
  rintro pos b1 rfl
  refine Fwd.bind (fwd_description hdk x.desc _ σ1 (by simpa using h1) (fun _ => by
    have := h2.head_kind; simp only [tName] at this
    exact ⟨by rw [this]; decide, by rw [this]; decide⟩)) ?_
  rintro desc b2 ⟨rfl, hσ2⟩
  refine Fwd.bind (fwd_peek b2) ?_
  rintro _ b3 ⟨_, rfl⟩
  refine Fwd.bind (fwd_parseName x.name (by simpa [hσ2] using h2)) ?_
  rintro nm b4 ⟨rfl, hσ4⟩
  exact fwd_inputTail x.type x.default x.dirs hok.1 hok.2 n b4 σ' (by rw [hσ4]; exact h3) hfol
    (fun ty dv dirs => ({ desc := x.desc, name := x.name, default := dv, type := ty, dirs := dirs, pos := pos } : ArgDef))
    ArgDef.erasePos (fun ty' dv' ds' e1 e2 e3 => by simp [ArgDef.erasePos, e1, e2, e3])

theorem fwd_inputField {dk : Bytes → Kind} (hdk : ∀ d, DescKind (dk d)) (x : FieldDef) (hok : InputFieldOK x) (n : Nat) (a : AS) (σ' : Stream)
    (hs : Starts a.σ (printInputFieldK dk x) σ') (hfol : FolArg σ') :
    Fwd (parseInputValueDef n) a (fun y a' => y.erasePos = x.erasePos ∧ a'.σ = σ') := by
  have hs : Starts a.σ (printDescK dk x.desc ++ ([tName x.name] ++ (tP .colon :: (printType x.type ++
      (printDefault x.default ++ printDirectives x.dirs))))) σ' := by simpa [printInputFieldK] using hs
  rw [Starts.append_iff] at hs
  obtain ⟨σ1, h1, hs⟩ := hs
  rw [Starts.append_iff] at hs
  obtain ⟨σ2, h2, h3⟩ := hs
  unfold parseInputValueDef
  refine Fwd.bind (fwd_peekPos _) ?_
  rintro pos b1 rfl
  refine Fwd.bind (fwd_description hdk x.desc _ σ1 (by simpa using h1) (fun _ => by
    have := h2.head_kind; simp only [tName] at this
    exact ⟨by rw [this]; decide, by rw [this]; decide⟩)) ?_
  rintro desc b2 ⟨rfl, hσ2⟩
  refine Fwd.bind (fwd_peek b2) ?_
  rintro _ b3 ⟨_, rfl⟩
  refine Fwd.bind (fwd_parseName x.name (by simpa [hσ2] using h2)) ?_
  rintro nm b4 ⟨rfl, hσ4⟩
  refine (fwd_inputTail x.type x.default x.dirs hok.2.1 hok.2.2 n b4 σ' (by rw [hσ4]; exact h3) hfol
    (fun ty dv dirs => ({ desc := x.desc, name := x.name, args := [], default := dv, type := ty, dirs := dirs, pos := pos } : FieldDef))
    FieldDef.erasePos (fun ty' dv' ds' e1 e2 e3 => by simp [FieldDef.erasePos, e1, e2, e3])).mono ?_
  rintro y a' ⟨hy, hσ⟩
  exact ⟨by rw [hy]; simp [FieldDef.erasePos, hok.1], hσ⟩

/-- the first token of an input value definition, a field definition or an enum value definition
    is a description or a Name: it satisfies every follow condition and closes no bracket -/
theorem folArg_of_described {dk : Bytes → Kind} (hdk : ∀ d, DescKind (dk d)) {desc : Bytes} {σ1 : Stream} {t : Tok}
    (ht : Tok.ofToken σ1.head = t) (hk : t.kind = dk desc ∨ t.kind = .name) : FolArg σ1 := by
  have hkk : σ1.head.kind = t.kind := by rw [← ht]; rfl
  rcases hk with h | h <;> rcases hdk desc with h' | h' <;> simp_all [FolArg]

theorem fwd_argDefs {dk : Bytes → Kind} (hdk : ∀ d, DescKind (dk d)) (xs : List ArgDef) (hok : ∀ x ∈ xs, ArgDefOK x) (n : Nat) (a : AS)
    (σ' : Stream) (hs : Starts a.σ (printArgDefsK dk xs) σ') (habs : xs = [] → σ'.head.kind ≠ .parenL) :
    Fwd (parseArgumentDefs n) a (fun ys a' => ys.map ArgDef.erasePos = xs.map ArgDef.erasePos ∧ a'.σ = σ') := by
  unfold parseArgumentDefs
  refine fwd_optBlock ArgDef.erasePos (printArgDefK dk) FolArg .parenL .parenR xs
    (fun x hx a0 σ1 hst hf => fwd_argDef hdk x (hok x hx) n a0 σ1 hst hf)
    (fun x _ => ?_) (fun σ1 h => ?_) n a σ' hs habs
  · obtain ⟨t, r, h1, h2⟩ := head_described dk x.desc x.name (tP .colon :: printType x.type ++ printDefault x.default ++ printDirectives x.dirs)
    refine ⟨t, r, by simpa [printArgDefK] using h1, ?_⟩
    rcases h2 with h | h <;> rcases hdk x.desc with h' | h' <;> simp_all
  · rcases h with h | ⟨x, _, t, rest, hfx, ht⟩
    · simp [FolArg, h]
    · obtain ⟨t', r, h1, h2⟩ := head_described dk x.desc x.name (tP .colon :: printType x.type ++ printDefault x.default ++ printDirectives x.dirs)
      have : printArgDefK dk x = t' :: r := by simpa [printArgDefK] using h1
      rw [this] at hfx
      have : t = t' := (List.cons.inj hfx).1.symm
      subst this
      exact folArg_of_described hdk ht h2

theorem fwd_inputFields {dk : Bytes → Kind} (hdk : ∀ d, DescKind (dk d)) (xs : List FieldDef) (hok : ∀ x ∈ xs, InputFieldOK x) (n : Nat) (a : AS)
    (σ' : Stream) (hs : Starts a.σ (printBlock (printInputFieldK dk) xs) σ') (habs : xs = [] → σ'.head.kind ≠ .braceL) :
    Fwd (parseInputFieldsDefinition n) a (fun ys a' => ys.map FieldDef.erasePos = xs.map FieldDef.erasePos ∧ a'.σ = σ') := by
  unfold parseInputFieldsDefinition
  refine fwd_optBlock FieldDef.erasePos (printInputFieldK dk) FolArg .braceL .braceR xs
    (fun x hx a0 σ1 hst hf => fwd_inputField hdk x (hok x hx) n a0 σ1 hst hf)
    (fun x _ => ?_) (fun σ1 h => ?_) n a σ' hs habs
  · obtain ⟨t, r, h1, h2⟩ := head_described dk x.desc x.name (tP .colon :: printType x.type ++ printDefault x.default ++ printDirectives x.dirs)
    refine ⟨t, r, by simpa [printInputFieldK] using h1, ?_⟩
    rcases h2 with h | h <;> rcases hdk x.desc with h' | h' <;> simp_all
  · rcases h with h | ⟨x, _, t, rest, hfx, ht⟩
    · simp [FolArg, h]
    · obtain ⟨t', r, h1, h2⟩ := head_described dk x.desc x.name (tP .colon :: printType x.type ++ printDefault x.default ++ printDirectives x.dirs)
      have : printInputFieldK dk x = t' :: r := by simpa [printInputFieldK] using h1
      rw [this] at hfx
      have : t = t' := (List.cons.inj hfx).1.symm
      subst this
      exact folArg_of_described hdk ht h2

theorem fwd_fieldDef {dk : Bytes → Kind} (hdk : ∀ d, DescKind (dk d)) (x : FieldDef) (hok : FieldDefOK x) (n : Nat) (a : AS) (σ' : Stream)
    (hs : Starts a.σ (printFieldDefK dk x) σ') (hfol : FolArg σ') :
    Fwd (parseFieldDefinition n) a (fun y a' => y.erasePos = x.erasePos ∧ a'.σ = σ') := by
  obtain ⟨f1, f2, f3, f4⟩ := hfol
  have hs : Starts a.σ (printDescK dk x.desc ++ ([tName x.name] ++ (printArgDefsK dk x.args ++ ([tP .colon] ++ (printType x.type ++
      printDirectives x.dirs))))) σ' := by simpa [printFieldDefK] using hs
  rw [Starts.append_iff] at hs
  obtain ⟨σ1, h1, hs⟩ := hs
  rw [Starts.append_iff] at hs
  obtain ⟨σ2, h2, hs⟩ := hs
  rw [Starts.append_iff] at hs
  obtain ⟨σ3, h3, hs⟩ := hs
  rw [Starts.append_iff] at hs
  obtain ⟨σ4, h4, hs⟩ := hs
  rw [Starts.append_iff] at hs
  obtain ⟨σ5, h5, h6⟩ := hs
  have k6 := h6.firstKind
  rw [firstKind_directives] at k6
  unfold parseFieldDefinition
  refine Fwd.bind (fwd_peekPos _) ?_
  rintro pos b1 rfl
  refine Fwd.bind (fwd_description hdk x.desc _ σ1 (by simpa using h1) (fun _ => by
    have := h2.head_kind; simp only [tName] at this
    exact ⟨by rw [this]; decide, by rw [this]; decide⟩)) ?_
  rintro desc b2 ⟨rfl, hσ2⟩
  refine Fwd.bind (fwd_peek b2) ?_
  rintro _ b3 ⟨_, rfl⟩
  refine Fwd.bind (fwd_parseName x.name (by simpa [hσ2] using h2)) ?_
  rintro nm b4 ⟨rfl, hσ4⟩
  refine Fwd.bind (fwd_argDefs hdk x.args hok.1 n b4 σ3 (by rw [hσ4]; exact h3) (fun _ => by
    have := h4.head_kind; simp only [tP] at this; rw [this]; decide)) ?_
  rintro as' b5 ⟨has, hσ5⟩
  refine Fwd.bind (fwd_punct .colon (by rw [hσ5]; exact h4)) ?_
  rintro _ b6 hσ6
  refine Fwd.bind (fwd_type x.type n b6 σ5 (by rw [hσ6]; exact h5) (fun _ => by
    rw [k6]; split
    · exact f1
    · decide)) ?_
  rintro ty' b7 ⟨hty, hσ7⟩
  refine Fwd.bind (fwd_directives true x.dirs hok.2.2.1 (fun _ => hok.2.2.2) n b7 σ' (by rw [hσ7]; exact h6) f3 f4) ?_
  rintro ds' b8 ⟨hds, hσ⟩
  refine (Fwd.pure _ _).mono ?_
  rintro y b9 ⟨rfl, rfl⟩
  exact ⟨by simp [FieldDef.erasePos, has, hty, hds, hok.2.1], hσ⟩

theorem fwd_fieldDefs {dk : Bytes → Kind} (hdk : ∀ d, DescKind (dk d)) (xs : List FieldDef) (hok : ∀ x ∈ xs, FieldDefOK x) (n : Nat) (a : AS)
    (σ' : Stream) (hs : Starts a.σ (printBlock (printFieldDefK dk) xs) σ') (habs : xs = [] → σ'.head.kind ≠ .braceL) :
    Fwd (parseFieldsDefinition n) a (fun ys a' => ys.map FieldDef.erasePos = xs.map FieldDef.erasePos ∧ a'.σ = σ') := by
  unfold parseFieldsDefinition
  refine fwd_optBlock FieldDef.erasePos (printFieldDefK dk) FolArg .braceL .braceR xs
    (fun x hx a0 σ1 hst hf => fwd_fieldDef hdk x (hok x hx) n a0 σ1 hst hf)
    (fun x _ => ?_) (fun σ1 h => ?_) n a σ' hs habs
  · obtain ⟨t, r, h1, h2⟩ := head_described dk x.desc x.name (printArgDefsK dk x.args ++ tP .colon :: printType x.type ++ printDirectives x.dirs)
    refine ⟨t, r, by simpa [printFieldDefK] using h1, ?_⟩
    rcases h2 with h | h <;> rcases hdk x.desc with h' | h' <;> simp_all
  · rcases h with h | ⟨x, _, t, rest, hfx, ht⟩
    · simp [FolArg, h]
    · obtain ⟨t', r, h1, h2⟩ := head_described dk x.desc x.name (printArgDefsK dk x.args ++ tP .colon :: printType x.type ++ printDirectives x.dirs)
      have : printFieldDefK dk x = t' :: r := by simpa [printFieldDefK] using h1
      rw [this] at hfx
      have : t = t' := (List.cons.inj hfx).1.symm
      subst this
      exact folArg_of_described hdk ht h2

theorem fwd_enumVal {dk : Bytes → Kind} (hdk : ∀ d, DescKind (dk d)) (x : EnumValDef) (hok : EnumValOK x) (n : Nat) (a : AS) (σ' : Stream)
    (hs : Starts a.σ (printEnumValK dk x) σ') (hfol : FolArg σ') :
    Fwd (parseEnumValueDefinition n) a (fun y a' => y.erasePos = x.erasePos ∧ a'.σ = σ') := by
  obtain ⟨f1, f2, f3, f4⟩ := hfol
  have hs : Starts a.σ (printDescK dk x.desc ++ ([tName x.name] ++ printDirectives x.dirs)) σ' := by
    simpa [printEnumValK] using hs
  rw [Starts.append_iff] at hs
  obtain ⟨σ1, h1, hs⟩ := hs
  rw [Starts.append_iff] at hs
  obtain ⟨σ2, h2, h3⟩ := hs
  unfold parseEnumValueDefinition
  refine Fwd.bind (fwd_peekPos _) ?_
  rintro pos b1 rfl
  refine Fwd.bind (fwd_description hdk x.desc _ σ1 (by simpa using h1) (fun _ => by
    have := h2.head_kind; simp only [tName] at this
    exact ⟨by rw [this]; decide, by rw [this]; decide⟩)) ?_
  rintro desc b2 ⟨rfl, hσ2⟩
  refine Fwd.bind (fwd_peek b2) ?_
  rintro _ b3 ⟨_, rfl⟩
  refine Fwd.bind (fwd_parseName x.name (by simpa [hσ2] using h2)) ?_
  rintro nm b4 ⟨rfl, hσ4⟩
  refine Fwd.bind (fwd_directives true x.dirs hok.1 (fun _ => hok.2) n b4 σ' (by rw [hσ4]; exact h3) f3 f4) ?_
  rintro ds' b5 ⟨hds, hσ⟩
  refine (Fwd.pure _ _).mono ?_
  rintro y b6 ⟨rfl, rfl⟩
  exact ⟨by simp [EnumValDef.erasePos, hds], hσ⟩

theorem fwd_enumVals {dk : Bytes → Kind} (hdk : ∀ d, DescKind (dk d)) (xs : List EnumValDef) (hok : ∀ x ∈ xs, EnumValOK x) (n : Nat) (a : AS)
    (σ' : Stream) (hs : Starts a.σ (printBlock (printEnumValK dk) xs) σ') (habs : xs = [] → σ'.head.kind ≠ .braceL) :
    Fwd (parseEnumValuesDefinition n) a (fun ys a' => ys.map EnumValDef.erasePos = xs.map EnumValDef.erasePos ∧ a'.σ = σ') := by
  unfold parseEnumValuesDefinition
  refine fwd_optBlock EnumValDef.erasePos (printEnumValK dk) FolArg .braceL .braceR xs
    (fun x hx a0 σ1 hst hf => fwd_enumVal hdk x (hok x hx) n a0 σ1 hst hf)
    (fun x _ => ?_) (fun σ1 h => ?_) n a σ' hs habs
  · obtain ⟨t, r, h1, h2⟩ := head_described dk x.desc x.name (printDirectives x.dirs)
    refine ⟨t, r, by simpa [printEnumValK] using h1, ?_⟩
    rcases h2 with h | h <;> rcases hdk x.desc with h' | h' <;> simp_all
  · rcases h with h | ⟨x, _, t, rest, hfx, ht⟩
    · simp [FolArg, h]
    · obtain ⟨t', r, h1, h2⟩ := head_described dk x.desc x.name (printDirectives x.dirs)
      have : printEnumValK dk x = t' :: r := by simpa [printEnumValK] using h1
      rw [this] at hfx
      have : t = t' := (List.cons.inj hfx).1.symm
      subst this
      exact folArg_of_described hdk ht h2

theorem fwd_opTypeDef (x : OpTypeDef) (hop : isOperationType x.op) (a : AS) (σ' : Stream)
    (hs : Starts a.σ (printOpType x) σ') :
    Fwd parseOperationTypeDefinition a (fun y a' => y.erasePos = x.erasePos ∧ a'.σ = σ') := by
  unfold printOpType at hs
  obtain ⟨σ1, h1, hs⟩ := hs.cons_single
  obtain ⟨σ2, h2, h3⟩ := hs.cons_single
  obtain ⟨u, hσu, hu⟩ := h1.single
  unfold parseOperationTypeDefinition
  refine Fwd.bind (fwd_peekPos _) ?_
  rintro pos b1 rfl
  refine Fwd.bind (fwd_parseOperationType (a := { pk := true, σ := a.σ, cnt := a.cnt }) rfl hσu hu hop) ?_
  rintro op b2 ⟨rfl, hσ2⟩
  refine Fwd.bind (fwd_punct .colon (by rw [hσ2]; exact h2)) ?_
  rintro _ b3 hσ3
  refine Fwd.bind (fwd_parseName x.type (by rw [hσ3]; exact h3)) ?_
  rintro ty b4 ⟨rfl, hσ⟩
  refine (Fwd.pure _ _).mono ?_
  rintro y b5 ⟨rfl, rfl⟩
  exact ⟨rfl, hσ⟩

theorem fwd_opTypes (xs : List OpTypeDef) (hok : ∀ x ∈ xs, isOperationType x.op) (n : Nat) (a : AS) (σ' : Stream)
    (hs : Starts a.σ (printBlock printOpType xs) σ') (habs : xs = [] → σ'.head.kind ≠ .braceL) :
    Fwd (pSome .braceL .braceR n parseOperationTypeDefinition) a
      (fun ys a' => ys.map OpTypeDef.erasePos = xs.map OpTypeDef.erasePos ∧ a'.σ = σ') :=
  fwd_optBlock OpTypeDef.erasePos printOpType (fun _ => True) .braceL .braceR xs
    (fun x hx a0 σ1 hst _ => fwd_opTypeDef x (hok x hx) a0 σ1 hst)
    (fun x _ => ⟨_, _, rfl, by simp [tName]⟩) (fun _ _ => trivial) n a σ' hs habs

/-! ### type definitions and extensions -/

theorem firstKind_block {α : Type} (f : α → List Tok) (xs : List α) (k : Kind) :
    firstKind (printBlock f xs) k = if xs = [] then k else .braceL := by
  cases xs <;> simp [printBlock, tP]

theorem firstKind_members (ts : List Name) (k : Kind) : firstKind (printMembers ts) k = if ts = [] then k else .equals := by
  cases ts <;> simp [printMembers, tP]

/-- what may not follow a top-level item (what does follow is a description, a keyword or EOF) -/
def FolItem (σ : Stream) : Prop :=
  σ.head.kind ≠ .at ∧ σ.head.kind ≠ .parenL ∧ σ.head.kind ≠ .braceL ∧ σ.head.kind ≠ .amp ∧ σ.head.kind ≠ .equals ∧
    σ.head.kind ≠ .pipe ∧ σ.head.kind ≠ .bang ∧ NoImplements σ

theorem noImplements_of_kind {σ : Stream} (h : σ.head.kind ≠ .name) : NoImplements σ := fun hh => h hh.1

/-- the parts of a definition that its kind does not print are empty, the others are printable -/
def DefOK (d : Definition) : Prop :=
  CDirs d.dirs ∧
  match d.kind with
  | .scalar => d.interfaces = [] ∧ d.fields = [] ∧ d.types = [] ∧ d.enumValues = []
  | .object => d.types = [] ∧ d.enumValues = [] ∧ ∀ f ∈ d.fields, FieldDefOK f
  | .interface => d.types = [] ∧ d.enumValues = [] ∧ ∀ f ∈ d.fields, FieldDefOK f
  | .union => d.interfaces = [] ∧ d.fields = [] ∧ d.enumValues = []
  | .enum => d.interfaces = [] ∧ d.fields = [] ∧ d.types = [] ∧ ∀ e ∈ d.enumValues, EnumValOK e
  | .inputObject => d.interfaces = [] ∧ d.types = [] ∧ d.enumValues = [] ∧ ∀ f ∈ d.fields, InputFieldOK f

theorem length_of_map_eq {α β : Type} {f : α → β} {xs ys : List α} (h : xs.map f = ys.map f) : xs.length = ys.length := by
  have := congrArg List.length h; simpa using this

theorem fwd_parseScalarTypeDefinition {dk : Bytes → Kind} (hdk : ∀ d, DescKind (dk d)) (d : Definition) (hk : d.kind = .scalar) (hok : DefOK d)
    (n : Nat) (a : AS) (σ' : Stream) (hs : Starts a.σ (DefKind.keyword d.kind :: printDefBodyK dk d) σ') (hfol : FolItem σ') :
    Fwd (parseScalarTypeDefinition n d.desc) a (fun y a' => y.erasePos = ({ d with builtIn := false } : Definition).erasePos ∧ a'.σ = σ') := by
  obtain ⟨g1, g2, g3, g4, g5, g6, g7, g8⟩ := hfol
  obtain ⟨hcd, hparts⟩ := hok
  simp only [hk] at hparts
  have hs : Starts a.σ ([tKw "scalar"] ++ ([tName d.name] ++ printDirectives d.dirs)) σ' := by
    simpa [printDefBodyK, hk, DefKind.keyword] using hs
  rw [Starts.append_iff] at hs
  obtain ⟨σ1, h1, hs⟩ := hs
  rw [Starts.append_iff] at hs
  obtain ⟨σ2, h2, h4⟩ := hs
  unfold parseScalarTypeDefinition
  refine Fwd.bind (fwd_keyword "scalar" (by simpa using h1)) ?_
  rintro _ b1 hσb1
  refine Fwd.bind (fwd_peekPos _) ?_
  rintro pos b2 rfl
  refine Fwd.bind (fwd_parseName d.name (by simpa [hσb1] using h2)) ?_
  rintro nm b3 ⟨rfl, hσb3⟩
  refine Fwd.bind (fwd_directives true d.dirs hcd.1 (fun _ => hcd.2) n b3 σ' (by rw [hσb3]; exact h4) g1 g2) ?_
  rintro ds' b5 ⟨hds, hσ⟩
  refine (Fwd.pure _ _).mono ?_
  rintro y b7 ⟨rfl, rfl⟩
  exact ⟨by simp [Definition.erasePos, hds, hk, hparts.1, hparts.2.1, hparts.2.2.1, hparts.2.2.2], hσ⟩

theorem fwd_parseObjectTypeDefinition {dk : Bytes → Kind} (hdk : ∀ d, DescKind (dk d)) (d : Definition) (hk : d.kind = .object) (hok : DefOK d)
    (n : Nat) (a : AS) (σ' : Stream) (hs : Starts a.σ (DefKind.keyword d.kind :: printDefBodyK dk d) σ') (hfol : FolItem σ') :
    Fwd (parseObjectTypeDefinition n d.desc) a (fun y a' => y.erasePos = ({ d with builtIn := false } : Definition).erasePos ∧ a'.σ = σ') := by
  obtain ⟨g1, g2, g3, g4, g5, g6, g7, g8⟩ := hfol
  obtain ⟨hcd, hparts⟩ := hok
  simp only [hk] at hparts
  have hs : Starts a.σ ([tKw "type"] ++ ([tName d.name] ++ (printImplements d.interfaces ++ (printDirectives d.dirs ++
      printBlock (printFieldDefK dk) d.fields)))) σ' := by simpa [printDefBodyK, hk, DefKind.keyword] using hs
  rw [Starts.append_iff] at hs
  obtain ⟨σ1, h1, hs⟩ := hs
  rw [Starts.append_iff] at hs
  obtain ⟨σ2, h2, hs⟩ := hs
  rw [Starts.append_iff] at hs
  obtain ⟨σ3, h3, hs⟩ := hs
  rw [Starts.append_iff] at hs
  obtain ⟨σ4, h4, h5⟩ := hs
  have k5 := h5.firstKind
  rw [firstKind_block] at k5
  have k4 := h4.firstKind
  rw [firstKind_directives] at k4
  have hσ4 : σ4.head.kind ≠ .at ∧ σ4.head.kind ≠ .parenL ∧ σ4.head.kind ≠ .amp ∧ NoImplements σ4 := by
    rw [k5]; split
    · exact ⟨g1, g2, g4, by
        have : σ4 = σ' := by
          rename_i hnil; rw [hnil] at h5; simpa [printBlock, Starts.nil_iff] using h5
        rw [this]; exact g8⟩
    · exact ⟨by decide, by decide, by decide, noImplements_of_kind (by rw [k5]; simp [*])⟩
  have hσ3 : σ3.head.kind ≠ .amp ∧ NoImplements σ3 := by
    by_cases hd : d.dirs = []
    · have : σ3 = σ4 := by rw [hd] at h4; simpa [printDirectives, Starts.nil_iff] using h4
      rw [this]; exact ⟨hσ4.2.2.1, hσ4.2.2.2⟩
    · rw [if_neg hd] at k4
      exact ⟨by rw [k4]; decide, noImplements_of_kind (by rw [k4]; decide)⟩
  unfold parseObjectTypeDefinition
  refine Fwd.bind (fwd_keyword "type" (by simpa using h1)) ?_
  rintro _ b1 hσb1
  refine Fwd.bind (fwd_peekPos _) ?_
  rintro pos b2 rfl
  refine Fwd.bind (fwd_parseName d.name (by simpa [hσb1] using h2)) ?_
  rintro nm b3 ⟨rfl, hσb3⟩
  refine Fwd.bind (fwd_implements d.interfaces n b3 σ3 (by rw [hσb3]; exact h3) hσ3.1 (fun _ => hσ3.2)) ?_
  rintro ifs b4 ⟨rfl, hσb4⟩
  refine Fwd.bind (fwd_directives true d.dirs hcd.1 (fun _ => hcd.2) n b4 σ4 (by rw [hσb4]; exact h4) hσ4.1 hσ4.2.1) ?_
  rintro ds' b5 ⟨hds, hσb5⟩
  refine Fwd.bind (fwd_fieldDefs hdk d.fields hparts.2.2 n b5 σ' (by rw [hσb5]; exact h5) (fun _ => g3)) ?_
  rintro fs' b6 ⟨hfs, hσ⟩
  refine (Fwd.pure _ _).mono ?_
  rintro y b7 ⟨rfl, rfl⟩
  exact ⟨by simp [Definition.erasePos, hds, hfs, hk, hparts.1, hparts.2.1], hσ⟩

theorem fwd_parseInterfaceTypeDefinition {dk : Bytes → Kind} (hdk : ∀ d, DescKind (dk d)) (d : Definition) (hk : d.kind = .interface) (hok : DefOK d)
    (n : Nat) (a : AS) (σ' : Stream) (hs : Starts a.σ (DefKind.keyword d.kind :: printDefBodyK dk d) σ') (hfol : FolItem σ') :
    Fwd (parseInterfaceTypeDefinition n d.desc) a (fun y a' => y.erasePos = ({ d with builtIn := false } : Definition).erasePos ∧ a'.σ = σ') := by
  obtain ⟨g1, g2, g3, g4, g5, g6, g7, g8⟩ := hfol
  obtain ⟨hcd, hparts⟩ := hok
  simp only [hk] at hparts
  have hs : Starts a.σ ([tKw "interface"] ++ ([tName d.name] ++ (printImplements d.interfaces ++ (printDirectives d.dirs ++
      printBlock (printFieldDefK dk) d.fields)))) σ' := by simpa [printDefBodyK, hk, DefKind.keyword] using hs
  rw [Starts.append_iff] at hs
  obtain ⟨σ1, h1, hs⟩ := hs
  rw [Starts.append_iff] at hs
  obtain ⟨σ2, h2, hs⟩ := hs
  rw [Starts.append_iff] at hs
  obtain ⟨σ3, h3, hs⟩ := hs
  rw [Starts.append_iff] at hs
  obtain ⟨σ4, h4, h5⟩ := hs
  have k5 := h5.firstKind
  rw [firstKind_block] at k5
  have k4 := h4.firstKind
  rw [firstKind_directives] at k4
  have hσ4 : σ4.head.kind ≠ .at ∧ σ4.head.kind ≠ .parenL ∧ σ4.head.kind ≠ .amp ∧ NoImplements σ4 := by
    rw [k5]; split
    · exact ⟨g1, g2, g4, by
        have : σ4 = σ' := by
          rename_i hnil; rw [hnil] at h5; simpa [printBlock, Starts.nil_iff] using h5
        rw [this]; exact g8⟩
    · exact ⟨by decide, by decide, by decide, noImplements_of_kind (by rw [k5]; simp [*])⟩
  have hσ3 : σ3.head.kind ≠ .amp ∧ NoImplements σ3 := by
    by_cases hd : d.dirs = []
    · have : σ3 = σ4 := by rw [hd] at h4; simpa [printDirectives, Starts.nil_iff] using h4
      rw [this]; exact ⟨hσ4.2.2.1, hσ4.2.2.2⟩
    · rw [if_neg hd] at k4
      exact ⟨by rw [k4]; decide, noImplements_of_kind (by rw [k4]; decide)⟩
  unfold parseInterfaceTypeDefinition
  refine Fwd.bind (fwd_keyword "interface" (by simpa using h1)) ?_
  rintro _ b1 hσb1
  refine Fwd.bind (fwd_peekPos _) ?_
  rintro pos b2 rfl
  refine Fwd.bind (fwd_parseName d.name (by simpa [hσb1] using h2)) ?_
  rintro nm b3 ⟨rfl, hσb3⟩
  refine Fwd.bind (fwd_implements d.interfaces n b3 σ3 (by rw [hσb3]; exact h3) hσ3.1 (fun _ => hσ3.2)) ?_
  rintro ifs b4 ⟨rfl, hσb4⟩
  refine Fwd.bind (fwd_directives true d.dirs hcd.1 (fun _ => hcd.2) n b4 σ4 (by rw [hσb4]; exact h4) hσ4.1 hσ4.2.1) ?_
  rintro ds' b5 ⟨hds, hσb5⟩
  refine Fwd.bind (fwd_fieldDefs hdk d.fields hparts.2.2 n b5 σ' (by rw [hσb5]; exact h5) (fun _ => g3)) ?_
  rintro fs' b6 ⟨hfs, hσ⟩
  refine (Fwd.pure _ _).mono ?_
  rintro y b7 ⟨rfl, rfl⟩
  exact ⟨by simp [Definition.erasePos, hds, hfs, hk, hparts.1, hparts.2.1], hσ⟩

theorem fwd_parseUnionTypeDefinition {dk : Bytes → Kind} (hdk : ∀ d, DescKind (dk d)) (d : Definition) (hk : d.kind = .union) (hok : DefOK d)
    (n : Nat) (a : AS) (σ' : Stream) (hs : Starts a.σ (DefKind.keyword d.kind :: printDefBodyK dk d) σ') (hfol : FolItem σ') :
    Fwd (parseUnionTypeDefinition n d.desc) a (fun y a' => y.erasePos = ({ d with builtIn := false } : Definition).erasePos ∧ a'.σ = σ') := by
  obtain ⟨g1, g2, g3, g4, g5, g6, g7, g8⟩ := hfol
  obtain ⟨hcd, hparts⟩ := hok
  simp only [hk] at hparts
  have hs : Starts a.σ ([tKw "union"] ++ ([tName d.name] ++ (printDirectives d.dirs ++ printMembers d.types))) σ' := by
    simpa [printDefBodyK, hk, DefKind.keyword] using hs
  rw [Starts.append_iff] at hs
  obtain ⟨σ1, h1, hs⟩ := hs
  rw [Starts.append_iff] at hs
  obtain ⟨σ2, h2, hs⟩ := hs
  rw [Starts.append_iff] at hs
  obtain ⟨σ4, h4, h5⟩ := hs
  have k5 := h5.firstKind
  rw [firstKind_members] at k5
  have hσ4 : σ4.head.kind ≠ .at ∧ σ4.head.kind ≠ .parenL := by
    rw [k5]; split
    · exact ⟨g1, g2⟩
    · exact ⟨by decide, by decide⟩
  unfold parseUnionTypeDefinition
  refine Fwd.bind (fwd_keyword "union" (by simpa using h1)) ?_
  rintro _ b1 hσb1
  refine Fwd.bind (fwd_peekPos _) ?_
  rintro pos b2 rfl
  refine Fwd.bind (fwd_parseName d.name (by simpa [hσb1] using h2)) ?_
  rintro nm b3 ⟨rfl, hσb3⟩
  refine Fwd.bind (fwd_directives true d.dirs hcd.1 (fun _ => hcd.2) n b3 σ4 (by rw [hσb3]; exact h4) hσ4.1 hσ4.2) ?_
  rintro ds' b5 ⟨hds, hσb5⟩
  refine Fwd.bind (fwd_unionMembers d.types n b5 σ' (by rw [hσb5]; exact h5) g6 (fun _ => g5)) ?_
  rintro fs' b6 ⟨hfs, hσ⟩
  refine (Fwd.pure _ _).mono ?_
  rintro y b7 ⟨rfl, rfl⟩
  exact ⟨by simp [Definition.erasePos, hds, hfs, hk, hparts.1, hparts.2.1, hparts.2.2], hσ⟩

theorem fwd_parseEnumTypeDefinition {dk : Bytes → Kind} (hdk : ∀ d, DescKind (dk d)) (d : Definition) (hk : d.kind = .enum) (hok : DefOK d)
    (n : Nat) (a : AS) (σ' : Stream) (hs : Starts a.σ (DefKind.keyword d.kind :: printDefBodyK dk d) σ') (hfol : FolItem σ') :
    Fwd (parseEnumTypeDefinition n d.desc) a (fun y a' => y.erasePos = ({ d with builtIn := false } : Definition).erasePos ∧ a'.σ = σ') := by
  obtain ⟨g1, g2, g3, g4, g5, g6, g7, g8⟩ := hfol
  obtain ⟨hcd, hparts⟩ := hok
  simp only [hk] at hparts
  have hs : Starts a.σ ([tKw "enum"] ++ ([tName d.name] ++ (printDirectives d.dirs ++ printBlock (printEnumValK dk) d.enumValues))) σ' := by
    simpa [printDefBodyK, hk, DefKind.keyword] using hs
  rw [Starts.append_iff] at hs
  obtain ⟨σ1, h1, hs⟩ := hs
  rw [Starts.append_iff] at hs
  obtain ⟨σ2, h2, hs⟩ := hs
  rw [Starts.append_iff] at hs
  obtain ⟨σ4, h4, h5⟩ := hs
  have k5 := h5.firstKind
  rw [firstKind_block] at k5
  have hσ4 : σ4.head.kind ≠ .at ∧ σ4.head.kind ≠ .parenL := by
    rw [k5]; split
    · exact ⟨g1, g2⟩
    · exact ⟨by decide, by decide⟩
  unfold parseEnumTypeDefinition
  refine Fwd.bind (fwd_keyword "enum" (by simpa using h1)) ?_
  rintro _ b1 hσb1
  refine Fwd.bind (fwd_peekPos _) ?_
  rintro pos b2 rfl
  refine Fwd.bind (fwd_parseName d.name (by simpa [hσb1] using h2)) ?_
  rintro nm b3 ⟨rfl, hσb3⟩
  refine Fwd.bind (fwd_directives true d.dirs hcd.1 (fun _ => hcd.2) n b3 σ4 (by rw [hσb3]; exact h4) hσ4.1 hσ4.2) ?_
  rintro ds' b5 ⟨hds, hσb5⟩
  refine Fwd.bind (fwd_enumVals hdk d.enumValues hparts.2.2.2 n b5 σ' (by rw [hσb5]; exact h5) (fun _ => g3)) ?_
  rintro fs' b6 ⟨hfs, hσ⟩
  refine (Fwd.pure _ _).mono ?_
  rintro y b7 ⟨rfl, rfl⟩
  exact ⟨by simp [Definition.erasePos, hds, hfs, hk, hparts.1, hparts.2.1, hparts.2.2.1], hσ⟩

theorem fwd_parseInputObjectTypeDefinition {dk : Bytes → Kind} (hdk : ∀ d, DescKind (dk d)) (d : Definition) (hk : d.kind = .inputObject) (hok : DefOK d)
    (n : Nat) (a : AS) (σ' : Stream) (hs : Starts a.σ (DefKind.keyword d.kind :: printDefBodyK dk d) σ') (hfol : FolItem σ') :
    Fwd (parseInputObjectTypeDefinition n d.desc) a (fun y a' => y.erasePos = ({ d with builtIn := false } : Definition).erasePos ∧ a'.σ = σ') := by
  obtain ⟨g1, g2, g3, g4, g5, g6, g7, g8⟩ := hfol
  obtain ⟨hcd, hparts⟩ := hok
  simp only [hk] at hparts
  have hs : Starts a.σ ([tKw "input"] ++ ([tName d.name] ++ (printDirectives d.dirs ++ printBlock (printInputFieldK dk) d.fields))) σ' := by
    simpa [printDefBodyK, hk, DefKind.keyword] using hs
  rw [Starts.append_iff] at hs
  obtain ⟨σ1, h1, hs⟩ := hs
  rw [Starts.append_iff] at hs
  obtain ⟨σ2, h2, hs⟩ := hs
  rw [Starts.append_iff] at hs
  obtain ⟨σ4, h4, h5⟩ := hs
  have k5 := h5.firstKind
  rw [firstKind_block] at k5
  have hσ4 : σ4.head.kind ≠ .at ∧ σ4.head.kind ≠ .parenL := by
    rw [k5]; split
    · exact ⟨g1, g2⟩
    · exact ⟨by decide, by decide⟩
  unfold parseInputObjectTypeDefinition
  refine Fwd.bind (fwd_keyword "input" (by simpa using h1)) ?_
  rintro _ b1 hσb1
  refine Fwd.bind (fwd_peekPos _) ?_
  rintro pos b2 rfl
  refine Fwd.bind (fwd_parseName d.name (by simpa [hσb1] using h2)) ?_
  rintro nm b3 ⟨rfl, hσb3⟩
  refine Fwd.bind (fwd_directives true d.dirs hcd.1 (fun _ => hcd.2) n b3 σ4 (by rw [hσb3]; exact h4) hσ4.1 hσ4.2) ?_
  rintro ds' b5 ⟨hds, hσb5⟩
  refine Fwd.bind (fwd_inputFields hdk d.fields hparts.2.2.2 n b5 σ' (by rw [hσb5]; exact h5) (fun _ => g3)) ?_
  rintro fs' b6 ⟨hfs, hσ⟩
  refine (Fwd.pure _ _).mono ?_
  rintro y b7 ⟨rfl, rfl⟩
  exact ⟨by simp [Definition.erasePos, hds, hfs, hk, hparts.1, hparts.2.1, hparts.2.2.1], hσ⟩

theorem fwd_parseScalarTypeExtension {dk : Bytes → Kind} (hdk : ∀ d, DescKind (dk d)) (d : Definition) (hk : d.kind = .scalar) (hok : DefOK d) (hdesc : d.desc = []) (hx : ExtendsSomething d)
    (n : Nat) (a : AS) (σ' : Stream) (hs : Starts a.σ (DefKind.keyword d.kind :: printDefBodyK dk d) σ') (hfol : FolItem σ') :
    Fwd (parseScalarTypeExtension n) a (fun y a' => y.erasePos = ({ d with builtIn := false } : Definition).erasePos ∧ a'.σ = σ') := by
  obtain ⟨g1, g2, g3, g4, g5, g6, g7, g8⟩ := hfol
  obtain ⟨hcd, hparts⟩ := hok
  simp only [hk] at hparts
  have hs : Starts a.σ ([tKw "scalar"] ++ ([tName d.name] ++ printDirectives d.dirs)) σ' := by
    simpa [printDefBodyK, hk, DefKind.keyword] using hs
  rw [Starts.append_iff] at hs
  obtain ⟨σ1, h1, hs⟩ := hs
  rw [Starts.append_iff] at hs
  obtain ⟨σ2, h2, h4⟩ := hs
  unfold parseScalarTypeExtension
  refine Fwd.bind (fwd_keyword "scalar" (by simpa using h1)) ?_
  rintro _ b1 hσb1
  refine Fwd.bind (fwd_peekPos _) ?_
  rintro pos b2 rfl
  refine Fwd.bind (fwd_parseName d.name (by simpa [hσb1] using h2)) ?_
  rintro nm b3 ⟨rfl, hσb3⟩
  refine Fwd.bind (fwd_directives true d.dirs hcd.1 (fun _ => hcd.2) n b3 σ' (by rw [hσb3]; exact h4) g1 g2) ?_
  rintro ds' b5 ⟨hds, hσ⟩
  refine Fwd.ite_neg (by
    intro hc
    have e1 := length_of_map_eq hds
    simp only [ExtendsSomething, hk] at hx
    exact hx (List.eq_nil_of_length_eq_zero (by omega))) ?_
  refine (Fwd.pure _ _).mono ?_
  rintro y b7 ⟨rfl, rfl⟩
  exact ⟨by simp [Definition.erasePos, hds, hk, hparts.1, hparts.2.1, hparts.2.2.1, hparts.2.2.2, hdesc], hσ⟩

theorem fwd_parseObjectTypeExtension {dk : Bytes → Kind} (hdk : ∀ d, DescKind (dk d)) (d : Definition) (hk : d.kind = .object) (hok : DefOK d) (hdesc : d.desc = []) (hx : ExtendsSomething d)
    (n : Nat) (a : AS) (σ' : Stream) (hs : Starts a.σ (DefKind.keyword d.kind :: printDefBodyK dk d) σ') (hfol : FolItem σ') :
    Fwd (parseObjectTypeExtension n) a (fun y a' => y.erasePos = ({ d with builtIn := false } : Definition).erasePos ∧ a'.σ = σ') := by
  obtain ⟨g1, g2, g3, g4, g5, g6, g7, g8⟩ := hfol
  obtain ⟨hcd, hparts⟩ := hok
  simp only [hk] at hparts
  have hs : Starts a.σ ([tKw "type"] ++ ([tName d.name] ++ (printImplements d.interfaces ++ (printDirectives d.dirs ++
      printBlock (printFieldDefK dk) d.fields)))) σ' := by simpa [printDefBodyK, hk, DefKind.keyword] using hs
  rw [Starts.append_iff] at hs
  obtain ⟨σ1, h1, hs⟩ := hs
  rw [Starts.append_iff] at hs
  obtain ⟨σ2, h2, hs⟩ := hs
  rw [Starts.append_iff] at hs
  obtain ⟨σ3, h3, hs⟩ := hs
  rw [Starts.append_iff] at hs
  obtain ⟨σ4, h4, h5⟩ := hs
  have k5 := h5.firstKind
  rw [firstKind_block] at k5
  have k4 := h4.firstKind
  rw [firstKind_directives] at k4
  have hσ4 : σ4.head.kind ≠ .at ∧ σ4.head.kind ≠ .parenL ∧ σ4.head.kind ≠ .amp ∧ NoImplements σ4 := by
    rw [k5]; split
    · exact ⟨g1, g2, g4, by
        have : σ4 = σ' := by
          rename_i hnil; rw [hnil] at h5; simpa [printBlock, Starts.nil_iff] using h5
        rw [this]; exact g8⟩
    · exact ⟨by decide, by decide, by decide, noImplements_of_kind (by rw [k5]; simp [*])⟩
  have hσ3 : σ3.head.kind ≠ .amp ∧ NoImplements σ3 := by
    by_cases hd : d.dirs = []
    · have : σ3 = σ4 := by rw [hd] at h4; simpa [printDirectives, Starts.nil_iff] using h4
      rw [this]; exact ⟨hσ4.2.2.1, hσ4.2.2.2⟩
    · rw [if_neg hd] at k4
      exact ⟨by rw [k4]; decide, noImplements_of_kind (by rw [k4]; decide)⟩
  unfold parseObjectTypeExtension
  refine Fwd.bind (fwd_keyword "type" (by simpa using h1)) ?_
  rintro _ b1 hσb1
  refine Fwd.bind (fwd_peekPos _) ?_
  rintro pos b2 rfl
  refine Fwd.bind (fwd_parseName d.name (by simpa [hσb1] using h2)) ?_
  rintro nm b3 ⟨rfl, hσb3⟩
  refine Fwd.bind (fwd_implements d.interfaces n b3 σ3 (by rw [hσb3]; exact h3) hσ3.1 (fun _ => hσ3.2)) ?_
  rintro ifs b4 ⟨rfl, hσb4⟩
  refine Fwd.bind (fwd_directives true d.dirs hcd.1 (fun _ => hcd.2) n b4 σ4 (by rw [hσb4]; exact h4) hσ4.1 hσ4.2.1) ?_
  rintro ds' b5 ⟨hds, hσb5⟩
  refine Fwd.bind (fwd_fieldDefs hdk d.fields hparts.2.2 n b5 σ' (by rw [hσb5]; exact h5) (fun _ => g3)) ?_
  rintro fs' b6 ⟨hfs, hσ⟩
  refine Fwd.ite_neg (by
    intro hc
    have e1 := length_of_map_eq hds
    have e2 := length_of_map_eq hfs
    simp only [ExtendsSomething, hk] at hx
    rcases hx with h | h | h
    · exact h (List.eq_nil_of_length_eq_zero hc.1)
    · exact h (List.eq_nil_of_length_eq_zero (by omega))
    · exact h (List.eq_nil_of_length_eq_zero (by omega))) ?_
  refine (Fwd.pure _ _).mono ?_
  rintro y b7 ⟨rfl, rfl⟩
  exact ⟨by simp [Definition.erasePos, hds, hfs, hk, hparts.1, hparts.2.1, hdesc], hσ⟩

theorem fwd_parseInterfaceTypeExtension {dk : Bytes → Kind} (hdk : ∀ d, DescKind (dk d)) (d : Definition) (hk : d.kind = .interface) (hok : DefOK d) (hdesc : d.desc = []) (hx : ExtendsSomething d)
    (n : Nat) (a : AS) (σ' : Stream) (hs : Starts a.σ (DefKind.keyword d.kind :: printDefBodyK dk d) σ') (hfol : FolItem σ') :
    Fwd (parseInterfaceTypeExtension n) a (fun y a' => y.erasePos = ({ d with builtIn := false } : Definition).erasePos ∧ a'.σ = σ') := by
  obtain ⟨g1, g2, g3, g4, g5, g6, g7, g8⟩ := hfol
  obtain ⟨hcd, hparts⟩ := hok
  simp only [hk] at hparts
  have hs : Starts a.σ ([tKw "interface"] ++ ([tName d.name] ++ (printImplements d.interfaces ++ (printDirectives d.dirs ++
      printBlock (printFieldDefK dk) d.fields)))) σ' := by simpa [printDefBodyK, hk, DefKind.keyword] using hs
  rw [Starts.append_iff] at hs
  obtain ⟨σ1, h1, hs⟩ := hs
  rw [Starts.append_iff] at hs
  obtain ⟨σ2, h2, hs⟩ := hs
  rw [Starts.append_iff] at hs
  obtain ⟨σ3, h3, hs⟩ := hs
  rw [Starts.append_iff] at hs
  obtain ⟨σ4, h4, h5⟩ := hs
  have k5 := h5.firstKind
  rw [firstKind_block] at k5
  have k4 := h4.firstKind
  rw [firstKind_directives] at k4
  have hσ4 : σ4.head.kind ≠ .at ∧ σ4.head.kind ≠ .parenL ∧ σ4.head.kind ≠ .amp ∧ NoImplements σ4 := by
    rw [k5]; split
    · exact ⟨g1, g2, g4, by
        have : σ4 = σ' := by
          rename_i hnil; rw [hnil] at h5; simpa [printBlock, Starts.nil_iff] using h5
        rw [this]; exact g8⟩
    · exact ⟨by decide, by decide, by decide, noImplements_of_kind (by rw [k5]; simp [*])⟩
  have hσ3 : σ3.head.kind ≠ .amp ∧ NoImplements σ3 := by
    by_cases hd : d.dirs = []
    · have : σ3 = σ4 := by rw [hd] at h4; simpa [printDirectives, Starts.nil_iff] using h4
      rw [this]; exact ⟨hσ4.2.2.1, hσ4.2.2.2⟩
    · rw [if_neg hd] at k4
      exact ⟨by rw [k4]; decide, noImplements_of_kind (by rw [k4]; decide)⟩
  unfold parseInterfaceTypeExtension
  refine Fwd.bind (fwd_keyword "interface" (by simpa using h1)) ?_
  rintro _ b1 hσb1
  refine Fwd.bind (fwd_peekPos _) ?_
  rintro pos b2 rfl
  refine Fwd.bind (fwd_parseName d.name (by simpa [hσb1] using h2)) ?_
  rintro nm b3 ⟨rfl, hσb3⟩
  refine Fwd.bind (fwd_implements d.interfaces n b3 σ3 (by rw [hσb3]; exact h3) hσ3.1 (fun _ => hσ3.2)) ?_
  rintro ifs b4 ⟨rfl, hσb4⟩
  refine Fwd.bind (fwd_directives true d.dirs hcd.1 (fun _ => hcd.2) n b4 σ4 (by rw [hσb4]; exact h4) hσ4.1 hσ4.2.1) ?_
  rintro ds' b5 ⟨hds, hσb5⟩
  refine Fwd.bind (fwd_fieldDefs hdk d.fields hparts.2.2 n b5 σ' (by rw [hσb5]; exact h5) (fun _ => g3)) ?_
  rintro fs' b6 ⟨hfs, hσ⟩
  refine Fwd.ite_neg (by
    intro hc
    have e1 := length_of_map_eq hds
    have e2 := length_of_map_eq hfs
    simp only [ExtendsSomething, hk] at hx
    rcases hx with h | h | h
    · exact h (List.eq_nil_of_length_eq_zero hc.1)
    · exact h (List.eq_nil_of_length_eq_zero (by omega))
    · exact h (List.eq_nil_of_length_eq_zero (by omega))) ?_
  refine (Fwd.pure _ _).mono ?_
  rintro y b7 ⟨rfl, rfl⟩
  exact ⟨by simp [Definition.erasePos, hds, hfs, hk, hparts.1, hparts.2.1, hdesc], hσ⟩

theorem fwd_parseUnionTypeExtension {dk : Bytes → Kind} (hdk : ∀ d, DescKind (dk d)) (d : Definition) (hk : d.kind = .union) (hok : DefOK d) (hdesc : d.desc = []) (hx : ExtendsSomething d)
    (n : Nat) (a : AS) (σ' : Stream) (hs : Starts a.σ (DefKind.keyword d.kind :: printDefBodyK dk d) σ') (hfol : FolItem σ') :
    Fwd (parseUnionTypeExtension n) a (fun y a' => y.erasePos = ({ d with builtIn := false } : Definition).erasePos ∧ a'.σ = σ') := by
  obtain ⟨g1, g2, g3, g4, g5, g6, g7, g8⟩ := hfol
  obtain ⟨hcd, hparts⟩ := hok
  simp only [hk] at hparts
  have hs : Starts a.σ ([tKw "union"] ++ ([tName d.name] ++ (printDirectives d.dirs ++ printMembers d.types))) σ' := by
    simpa [printDefBodyK, hk, DefKind.keyword] using hs
  rw [Starts.append_iff] at hs
  obtain ⟨σ1, h1, hs⟩ := hs
  rw [Starts.append_iff] at hs
  obtain ⟨σ2, h2, hs⟩ := hs
  rw [Starts.append_iff] at hs
  obtain ⟨σ4, h4, h5⟩ := hs
  have k5 := h5.firstKind
  rw [firstKind_members] at k5
  have hσ4 : σ4.head.kind ≠ .at ∧ σ4.head.kind ≠ .parenL := by
    rw [k5]; split
    · exact ⟨g1, g2⟩
    · exact ⟨by decide, by decide⟩
  unfold parseUnionTypeExtension
  refine Fwd.bind (fwd_keyword "union" (by simpa using h1)) ?_
  rintro _ b1 hσb1
  refine Fwd.bind (fwd_peekPos _) ?_
  rintro pos b2 rfl
  refine Fwd.bind (fwd_parseName d.name (by simpa [hσb1] using h2)) ?_
  rintro nm b3 ⟨rfl, hσb3⟩
  refine Fwd.bind (fwd_directives true d.dirs hcd.1 (fun _ => hcd.2) n b3 σ4 (by rw [hσb3]; exact h4) hσ4.1 hσ4.2) ?_
  rintro ds' b5 ⟨hds, hσb5⟩
  refine Fwd.bind (fwd_unionMembers d.types n b5 σ' (by rw [hσb5]; exact h5) g6 (fun _ => g5)) ?_
  rintro fs' b6 ⟨hfs, hσ⟩
  refine Fwd.ite_neg (by
    intro hc
    have e1 := length_of_map_eq hds
    have e2 := congrArg List.length hfs
    simp only [ExtendsSomething, hk] at hx
    rcases hx with h | h
    · exact h (List.eq_nil_of_length_eq_zero (by omega))
    · exact h (List.eq_nil_of_length_eq_zero (by omega))) ?_
  refine (Fwd.pure _ _).mono ?_
  rintro y b7 ⟨rfl, rfl⟩
  exact ⟨by simp [Definition.erasePos, hds, hfs, hk, hparts.1, hparts.2.1, hparts.2.2, hdesc], hσ⟩

theorem fwd_parseEnumTypeExtension {dk : Bytes → Kind} (hdk : ∀ d, DescKind (dk d)) (d : Definition) (hk : d.kind = .enum) (hok : DefOK d) (hdesc : d.desc = []) (hx : ExtendsSomething d)
    (n : Nat) (a : AS) (σ' : Stream) (hs : Starts a.σ (DefKind.keyword d.kind :: printDefBodyK dk d) σ') (hfol : FolItem σ') :
    Fwd (parseEnumTypeExtension n) a (fun y a' => y.erasePos = ({ d with builtIn := false } : Definition).erasePos ∧ a'.σ = σ') := by
  obtain ⟨g1, g2, g3, g4, g5, g6, g7, g8⟩ := hfol
  obtain ⟨hcd, hparts⟩ := hok
  simp only [hk] at hparts
  have hs : Starts a.σ ([tKw "enum"] ++ ([tName d.name] ++ (printDirectives d.dirs ++ printBlock (printEnumValK dk) d.enumValues))) σ' := by
    simpa [printDefBodyK, hk, DefKind.keyword] using hs
  rw [Starts.append_iff] at hs
  obtain ⟨σ1, h1, hs⟩ := hs
  rw [Starts.append_iff] at hs
  obtain ⟨σ2, h2, hs⟩ := hs
  rw [Starts.append_iff] at hs
  obtain ⟨σ4, h4, h5⟩ := hs
  have k5 := h5.firstKind
  rw [firstKind_block] at k5
  have hσ4 : σ4.head.kind ≠ .at ∧ σ4.head.kind ≠ .parenL := by
    rw [k5]; split
    · exact ⟨g1, g2⟩
    · exact ⟨by decide, by decide⟩
  unfold parseEnumTypeExtension
  refine Fwd.bind (fwd_keyword "enum" (by simpa using h1)) ?_
  rintro _ b1 hσb1
  refine Fwd.bind (fwd_peekPos _) ?_
  rintro pos b2 rfl
  refine Fwd.bind (fwd_parseName d.name (by simpa [hσb1] using h2)) ?_
  rintro nm b3 ⟨rfl, hσb3⟩
  refine Fwd.bind (fwd_directives true d.dirs hcd.1 (fun _ => hcd.2) n b3 σ4 (by rw [hσb3]; exact h4) hσ4.1 hσ4.2) ?_
  rintro ds' b5 ⟨hds, hσb5⟩
  refine Fwd.bind (fwd_enumVals hdk d.enumValues hparts.2.2.2 n b5 σ' (by rw [hσb5]; exact h5) (fun _ => g3)) ?_
  rintro fs' b6 ⟨hfs, hσ⟩
  refine Fwd.ite_neg (by
    intro hc
    have e1 := length_of_map_eq hds
    have e2 := length_of_map_eq hfs
    simp only [ExtendsSomething, hk] at hx
    rcases hx with h | h
    · exact h (List.eq_nil_of_length_eq_zero (by omega))
    · exact h (List.eq_nil_of_length_eq_zero (by omega))) ?_
  refine (Fwd.pure _ _).mono ?_
  rintro y b7 ⟨rfl, rfl⟩
  exact ⟨by simp [Definition.erasePos, hds, hfs, hk, hparts.1, hparts.2.1, hparts.2.2.1, hdesc], hσ⟩

theorem fwd_parseInputObjectTypeExtension {dk : Bytes → Kind} (hdk : ∀ d, DescKind (dk d)) (d : Definition) (hk : d.kind = .inputObject) (hok : DefOK d) (hdesc : d.desc = []) (hx : ExtendsSomething d)
    (n : Nat) (a : AS) (σ' : Stream) (hs : Starts a.σ (DefKind.keyword d.kind :: printDefBodyK dk d) σ') (hfol : FolItem σ') :
    Fwd (parseInputObjectTypeExtension n) a (fun y a' => y.erasePos = ({ d with builtIn := false } : Definition).erasePos ∧ a'.σ = σ') := by
  obtain ⟨g1, g2, g3, g4, g5, g6, g7, g8⟩ := hfol
  obtain ⟨hcd, hparts⟩ := hok
  simp only [hk] at hparts
  have hs : Starts a.σ ([tKw "input"] ++ ([tName d.name] ++ (printDirectives d.dirs ++ printBlock (printInputFieldK dk) d.fields))) σ' := by
    simpa [printDefBodyK, hk, DefKind.keyword] using hs
  rw [Starts.append_iff] at hs
  obtain ⟨σ1, h1, hs⟩ := hs
  rw [Starts.append_iff] at hs
  obtain ⟨σ2, h2, hs⟩ := hs
  rw [Starts.append_iff] at hs
  obtain ⟨σ4, h4, h5⟩ := hs
  have k5 := h5.firstKind
  rw [firstKind_block] at k5
  have hσ4 : σ4.head.kind ≠ .at ∧ σ4.head.kind ≠ .parenL := by
    rw [k5]; split
    · exact ⟨g1, g2⟩
    · exact ⟨by decide, by decide⟩
  unfold parseInputObjectTypeExtension
  refine Fwd.bind (fwd_keyword "input" (by simpa using h1)) ?_
  rintro _ b1 hσb1
  refine Fwd.bind (fwd_peekPos _) ?_
  rintro pos b2 rfl
  refine Fwd.bind (fwd_parseName d.name (by simpa [hσb1] using h2)) ?_
  rintro nm b3 ⟨rfl, hσb3⟩
  refine Fwd.bind (fwd_directives true d.dirs hcd.1 (fun _ => hcd.2) n b3 σ4 (by rw [hσb3]; exact h4) hσ4.1 hσ4.2) ?_
  rintro ds' b5 ⟨hds, hσb5⟩
  refine Fwd.bind (fwd_inputFields hdk d.fields hparts.2.2.2 n b5 σ' (by rw [hσb5]; exact h5) (fun _ => g3)) ?_
  rintro fs' b6 ⟨hfs, hσ⟩
  refine Fwd.ite_neg (by
    intro hc
    have e1 := length_of_map_eq hds
    have e2 := length_of_map_eq hfs
    simp only [ExtendsSomething, hk] at hx
    rcases hx with h | h
    · exact h (List.eq_nil_of_length_eq_zero (by omega))
    · exact h (List.eq_nil_of_length_eq_zero (by omega))) ?_
  refine (Fwd.pure _ _).mono ?_
  rintro y b7 ⟨rfl, rfl⟩
  exact ⟨by simp [Definition.erasePos, hds, hfs, hk, hparts.1, hparts.2.1, hparts.2.2.1, hdesc], hσ⟩

/-! ### dispatch on the keyword -/

theorem keyword_value (k : DefKind) : (DefKind.keyword k).kind = .name ∧
    (DefKind.keyword k).value = (match k with
      | .scalar => kwScalar | .object => kwType | .interface => kwInterface | .union => kwUnion | .enum => kwEnum
      | .inputObject => kwInput) := by
  cases k <;> exact ⟨rfl, rfl⟩

theorem fwd_typeSystemDefinition {dk : Bytes → Kind} (hdk : ∀ d, DescKind (dk d)) (d : Definition) (hok : DefOK d) (n : Nat) (a : AS) (σ' : Stream)
    (hs : Starts a.σ (DefKind.keyword d.kind :: printDefBodyK dk d) σ') (hfol : FolItem σ') :
    Fwd (parseTypeSystemDefinition n d.desc) a
      (fun y a' => y.erasePos = ({ d with builtIn := false } : Definition).erasePos ∧ a'.σ = σ') := by
  have hhead := hs.head
  have hk : a.σ.head.kind = .name := by rw [← show (Tok.ofToken a.σ.head).kind = a.σ.head.kind from rfl, hhead]; exact (keyword_value d.kind).1
  have hv : a.σ.head.value = (DefKind.keyword d.kind).value := by
    rw [← show (Tok.ofToken a.σ.head).value = a.σ.head.value from rfl, hhead]
  unfold parseTypeSystemDefinition
  refine Fwd.bind (fwd_peek a) ?_
  rintro tok a1 ⟨rfl, rfl⟩
  refine Fwd.ite_neg (by simp [hk]) ?_
  rw [hv]
  cases hkind : d.kind with
  | scalar =>
    rw [hkind] at hs
    refine Fwd.ite_pos rfl ?_
    exact (fwd_parseScalarTypeDefinition hdk d hkind hok n { pk := true, σ := a.σ, cnt := a.cnt } σ' (by simpa [hkind] using hs) hfol).mono
      fun y a' h => by rw [hkind] at h; exact h
  | object =>
    rw [hkind] at hs
    refine Fwd.ite_neg (by decide) (Fwd.ite_pos rfl ?_)
    exact (fwd_parseObjectTypeDefinition hdk d hkind hok n { pk := true, σ := a.σ, cnt := a.cnt } σ' (by simpa [hkind] using hs) hfol).mono
      fun y a' h => by rw [hkind] at h; exact h
  | interface =>
    rw [hkind] at hs
    refine Fwd.ite_neg (by decide) (Fwd.ite_neg (by decide) (Fwd.ite_pos rfl ?_))
    exact (fwd_parseInterfaceTypeDefinition hdk d hkind hok n { pk := true, σ := a.σ, cnt := a.cnt } σ' (by simpa [hkind] using hs) hfol).mono
      fun y a' h => by rw [hkind] at h; exact h
  | union =>
    rw [hkind] at hs
    refine Fwd.ite_neg (by decide) (Fwd.ite_neg (by decide) (Fwd.ite_neg (by decide) (Fwd.ite_pos rfl ?_)))
    exact (fwd_parseUnionTypeDefinition hdk d hkind hok n { pk := true, σ := a.σ, cnt := a.cnt } σ' (by simpa [hkind] using hs) hfol).mono
      fun y a' h => by rw [hkind] at h; exact h
  | «enum» =>
    rw [hkind] at hs
    refine Fwd.ite_neg (by decide) (Fwd.ite_neg (by decide) (Fwd.ite_neg (by decide) (Fwd.ite_neg (by decide) (Fwd.ite_pos rfl ?_))))
    exact (fwd_parseEnumTypeDefinition hdk d hkind hok n { pk := true, σ := a.σ, cnt := a.cnt } σ' (by simpa [hkind] using hs) hfol).mono
      fun y a' h => by rw [hkind] at h; exact h
  | inputObject =>
    rw [hkind] at hs
    refine Fwd.ite_neg (by decide) (Fwd.ite_neg (by decide) (Fwd.ite_neg (by decide) (Fwd.ite_neg (by decide)
      (Fwd.ite_neg (by decide) (Fwd.ite_pos rfl ?_)))))
    exact (fwd_parseInputObjectTypeDefinition hdk d hkind hok n { pk := true, σ := a.σ, cnt := a.cnt } σ' (by simpa [hkind] using hs) hfol).mono
      fun y a' h => by rw [hkind] at h; exact h

end Gql.Parser
