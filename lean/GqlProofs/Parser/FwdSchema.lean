import GqlProofs.Parser.FwdTop
import GqlProofs.Parser.SoundSchema
/-
  The converse of `SoundSchema.lean` on printed trees (type-system documents).

  Descriptions.  `Print.printSchema` writes a description as a String token whose value is the
  description text.  A formatter may write it as a block string; the printers below take the
  token kind `dk` of descriptions as a parameter (`printSchemaK .string = printSchema`), and the
  forward lemmas hold for `dk = .string` and `dk = .blockString`: what the parser reads of a
  description token is its value.
-/
namespace Gql.Parser
open Gql Gql.Lexer Gql.Grammar Gql.Print

/-! ### the unparser with the kind of description tokens as a parameter -/

section PrintK
variable (dk : Kind)

def printDescK (d : Bytes) : List Tok := if d = [] then [] else [{ kind := dk, value := d }]

def printArgDefK (a : ArgDef) : List Tok :=
  printDescK dk a.desc ++ tName a.name :: tP .colon :: printType a.type ++ printDefault a.default ++ printDirectives a.dirs

def printArgDefsK (as : List ArgDef) : List Tok :=
  if as.isEmpty then [] else tP .parenL :: as.flatMap (printArgDefK dk) ++ [tP .parenR]

def printFieldDefK (f : FieldDef) : List Tok :=
  printDescK dk f.desc ++ tName f.name :: printArgDefsK dk f.args ++ tP .colon :: printType f.type ++ printDirectives f.dirs

def printInputFieldK (f : FieldDef) : List Tok :=
  printDescK dk f.desc ++ tName f.name :: tP .colon :: printType f.type ++ printDefault f.default ++ printDirectives f.dirs

def printEnumValK (e : EnumValDef) : List Tok := printDescK dk e.desc ++ tName e.name :: printDirectives e.dirs

def printDefBodyK (d : Definition) : List Tok :=
  match d.kind with
  | .scalar => tName d.name :: printDirectives d.dirs
  | .object => tName d.name :: printImplements d.interfaces ++ printDirectives d.dirs ++ printBlock (printFieldDefK dk) d.fields
  | .interface => tName d.name :: printImplements d.interfaces ++ printDirectives d.dirs ++ printBlock (printFieldDefK dk) d.fields
  | .union => tName d.name :: printDirectives d.dirs ++ printMembers d.types
  | .enum => tName d.name :: printDirectives d.dirs ++ printBlock (printEnumValK dk) d.enumValues
  | .inputObject => tName d.name :: printDirectives d.dirs ++ printBlock (printInputFieldK dk) d.fields

def printDefinitionK (d : Definition) : List Tok := printDescK dk d.desc ++ DefKind.keyword d.kind :: printDefBodyK dk d

def printExtensionK (d : Definition) : List Tok := tKw "extend" :: DefKind.keyword d.kind :: printDefBodyK dk d

def printSchemaDefK (s : SchemaDef) : List Tok :=
  printDescK dk s.desc ++ tKw "schema" :: printDirectives s.dirs ++ tP .braceL :: s.opTypes.flatMap printOpType ++ [tP .braceR]

def printDirectiveDefK (d : DirectiveDef) : List Tok :=
  printDescK dk d.desc ++ tKw "directive" :: tP .at :: tName d.name :: printArgDefsK dk d.args
    ++ (if d.repeatable then [tKw "repeatable"] else []) ++ tKw "on" :: printSep .pipe d.locations

/-- the printed tokens of a top-level item -/
def printItemK : SItem → List Tok
  | .schema s => printSchemaDefK dk s
  | .schemaExt s => printSchemaExt s
  | .directive d => printDirectiveDefK dk d
  | .definition d => printDefinitionK dk d
  | .extension d => printExtensionK dk d

end PrintK

theorem printDescK_string (d : Bytes) : printDescK .string d = printDesc d := rfl
theorem printArgDefK_string (a : ArgDef) : printArgDefK .string a = printArgDef a := rfl
theorem printArgDefsK_string (as : List ArgDef) : printArgDefsK .string as = printArgDefs as := by
  unfold printArgDefsK printArgDefs
  simp only [show printArgDefK .string = printArgDef from funext printArgDefK_string]
theorem printFieldDefK_string (f : FieldDef) : printFieldDefK .string f = printFieldDef f := by
  simp [printFieldDefK, printFieldDef, printArgDefsK_string, printDescK_string]
theorem printInputFieldK_string (f : FieldDef) : printInputFieldK .string f = printInputField f := rfl
theorem printEnumValK_string (e : EnumValDef) : printEnumValK .string e = printEnumVal e := rfl
theorem printDefBodyK_string (d : Definition) : printDefBodyK .string d = printDefBody d := by
  unfold printDefBodyK printDefBody
  simp only [show printFieldDefK .string = printFieldDef from funext printFieldDefK_string,
    show printEnumValK .string = printEnumVal from funext printEnumValK_string,
    show printInputFieldK .string = printInputField from funext printInputFieldK_string]
  cases d.kind <;> rfl
theorem printItemK_string (it : SItem) : printItemK .string it = (sItem it).2 := by
  cases it <;> simp [printItemK, sItem, printSchemaDefK, printSchemaDef, printDirectiveDefK, printDirectiveDef,
    printDefinitionK, printDefinition, printExtensionK, printExtension, printDefBodyK_string, printArgDefsK_string,
    printDescK_string]

/-- the kinds a description token may have -/
def DescKind (dk : Kind) : Prop := dk = .string ∨ dk = .blockString

/-! ### descriptions -/

/-- no description token ahead -/
def NoDesc (σ : Stream) : Prop := σ.head.kind ≠ .string ∧ σ.head.kind ≠ .blockString

theorem fwd_description {dk : Kind} (hdk : DescKind dk) (d : Bytes) (a : AS) (σ' : Stream)
    (hs : Starts a.σ (printDescK dk d) σ') (hfol : d = [] → NoDesc σ') :
    Fwd parseDescription a (fun x a' => x = d ∧ a'.σ = σ') := by
  unfold parseDescription
  refine Fwd.bind (fwd_peek a) ?_
  rintro token a1 ⟨rfl, rfl⟩
  by_cases hd : d = []
  · subst hd
    simp only [printDescK, if_true] at hs
    rw [Starts.nil_iff] at hs
    obtain ⟨f1, f2⟩ := hfol rfl
    refine Fwd.ite_pos ⟨by rw [hs]; exact f2, by rw [hs]; exact f1⟩ ((Fwd.pure _ _).mono ?_)
    rintro x a' ⟨rfl, rfl⟩
    exact ⟨rfl, hs⟩
  · simp only [printDescK, if_neg hd] at hs
    obtain ⟨u, hσ, hu⟩ := hs.single
    have hk : a.σ.head.kind = dk := by rw [hσ]; exact ofToken_kind hu
    refine Fwd.ite_neg (by
      rw [hk]; rcases hdk with h | h <;> simp [h]) (Fwd.bind (fwd_next (a := { pk := true, σ := a.σ, cnt := a.cnt }) rfl hσ) ?_)
    rintro t a2 ⟨rfl, rfl⟩
    refine (Fwd.pure _ _).mono ?_
    rintro x a' ⟨rfl, rfl⟩
    exact ⟨ofToken_value hu, rfl⟩

theorem fwd_optionalDescription {dk : Kind} (hdk : DescKind dk) (d : Bytes) (a : AS) (σ' : Stream)
    (hs : Starts a.σ (printDescK dk d) σ') (hfol : d = [] → NoDesc σ') :
    Fwd parseOptionalDescription a (fun x a' => x.1 = d ∧ (x.2 = true → d ≠ []) ∧ a'.σ = σ') := by
  unfold parseOptionalDescription
  refine Fwd.bind (fwd_peek a) ?_
  rintro x a1 ⟨rfl, rfl⟩
  have hdesc := fwd_description hdk d { pk := true, σ := a.σ, cnt := a.cnt } σ' (by simpa using hs) hfol
  by_cases hd : d = []
  · have hs0 := hs
    subst hd
    simp only [printDescK, if_true] at hs0
    rw [Starts.nil_iff] at hs0
    obtain ⟨f1, f2⟩ := hfol rfl
    refine Fwd.ite_neg (by rw [hs0]; exact f2) (Fwd.bind (fwd_peek _) ?_)
    rintro y a2 ⟨rfl, rfl⟩
    refine Fwd.ite_neg (by simp only; rw [hs0]; exact f1) ((Fwd.pure _ _).mono ?_)
    rintro r a' ⟨rfl, rfl⟩
    exact ⟨rfl, fun h => (by cases h), by simp [hs0]⟩
  · have hk : a.σ.head.kind = dk := by
      simp only [printDescK, if_neg hd] at hs
      exact hs.head_kind
    rcases hdk with h | h
    · refine Fwd.ite_neg (by rw [hk, h]; decide) (Fwd.bind (fwd_peek _) ?_)
      rintro y a2 ⟨rfl, rfl⟩
      refine Fwd.ite_pos (by simp only; rw [hk, h]) (Fwd.bind (by simpa using hdesc) ?_)
      rintro x a3 ⟨rfl, hσ⟩
      exact (Fwd.pure _ _).mono fun _ _ hh => ⟨by rw [hh.1], fun _ => hd, by rw [hh.2, hσ]⟩
    · refine Fwd.ite_pos (by rw [hk, h]) (Fwd.bind hdesc ?_)
      rintro x a3 ⟨rfl, hσ⟩
      exact (Fwd.pure _ _).mono fun _ _ hh => ⟨by rw [hh.1], fun _ => hd, by rw [hh.2, hσ]⟩

/-! ### separated name lists -/

theorem fwd_sepLoop (sep : Kind) {item : Prog Name} :
    ∀ (rest : List Name), (∀ m ∈ rest, ∀ a σ1, Starts a.σ [tName m] σ1 → Fwd item a (fun x a' => x = m ∧ a'.σ = σ1)) →
    ∀ (n : Nat) (acc : List Name) (a : AS) (σ' : Stream),
      Starts a.σ (rest.flatMap fun m => [tP sep, tName m]) σ' → σ'.head.kind ≠ sep →
      Fwd (sepLoop sep item n acc) a (fun xs a' => xs = rest.reverse ++ acc ∧ a'.σ = σ')
  | [], _ => by
    intro n acc a σ' hs hfol
    rw [List.flatMap_nil, Starts.nil_iff] at hs
    cases n with
    | zero => exact Fwd.outOfFuel _ _ _
    | succ n =>
      unfold sepLoop
      refine Fwd.bind (fwd_skipP_no sep (by rw [hs]; exact hfol)) ?_
      rintro b a1 ⟨rfl, hσ⟩
      refine Fwd.ite_neg (by simp) ((Fwd.pure _ _).mono ?_)
      rintro xs a' ⟨rfl, rfl⟩
      exact ⟨by simp, by rw [hσ, hs]⟩
  | m :: rest, hitem => by
    intro n acc a σ' hs hfol
    simp only [List.flatMap_cons, List.cons_append, List.nil_append] at hs
    obtain ⟨σ1, h1, hs2⟩ := hs.cons_single
    obtain ⟨σ2, h2, h3⟩ := hs2.cons_single
    cases n with
    | zero => exact Fwd.outOfFuel _ _ _
    | succ n =>
      unfold sepLoop
      refine Fwd.bind (fwd_skipP_yes sep h1) ?_
      rintro b a1 ⟨rfl, hσ1⟩
      refine Fwd.ite_pos rfl (Fwd.bind (fwd_hasErr _) ?_)
      rintro e a2 ⟨rfl, rfl⟩
      refine Fwd.ite_neg (by simp) (Fwd.bind (hitem m (by simp) _ σ2 (by rw [hσ1]; exact h2)) ?_)
      rintro x a3 ⟨rfl, hσ3⟩
      refine (fwd_sepLoop sep rest (fun z hz => hitem z (by simp [hz])) n (x :: acc) a3 σ' (by rw [hσ3]; exact h3) hfol).mono ?_
      rintro xs a' ⟨rfl, e2⟩
      exact ⟨by simp, e2⟩

/-- `x (sep x)*` without leading separator, as the three list parsers run it after their keyword -/
theorem fwd_sepList (sep : Kind) {item : Prog Name} (first : Name) (rest : List Name)
    (hitem : ∀ m ∈ first :: rest, ∀ a σ1, Starts a.σ [tName m] σ1 → Fwd item a (fun x a' => x = m ∧ a'.σ = σ1))
    (hsepname : sep ≠ .name) (n : Nat) (a : AS) (σ' : Stream) (hs : Starts a.σ (printSep sep (first :: rest)) σ')
    (hfol : σ'.head.kind ≠ sep) :
    Fwd (do let _ ← skip sep; let f ← item; let more ← sepLoop sep item n [f]; pure more.reverse) a
      (fun xs a' => xs = first :: rest ∧ a'.σ = σ') := by
  rw [printSep_cons] at hs
  obtain ⟨σ1, h1, h2⟩ := hs.cons_single
  refine Fwd.bind (fwd_skipP_no sep (by rw [hs.head_kind]; exact fun h => hsepname h.symm)) ?_
  rintro b a1 ⟨rfl, hσ1⟩
  refine Fwd.bind (hitem first (by simp) a1 σ1 (by rw [hσ1]; exact h1)) ?_
  rintro x a2 ⟨rfl, hσ2⟩
  refine Fwd.bind (fwd_sepLoop sep rest (fun z hz => hitem z (by simp [hz])) n [x] a2 σ' (by rw [hσ2]; exact h2) hfol) ?_
  rintro xs a3 ⟨rfl, hσ⟩
  exact (Fwd.pure _ _).mono fun _ _ h => ⟨by rw [h.1]; simp, by rw [h.2, hσ]⟩

/-- no `implements` keyword ahead -/
def NoImplements (σ : Stream) : Prop := ¬ (σ.head.kind = .name ∧ σ.head.value = kwImplements)

theorem fwd_implements (ifs : List Name) (n : Nat) (a : AS) (σ' : Stream) (hs : Starts a.σ (printImplements ifs) σ')
    (hfol : σ'.head.kind ≠ .amp) (hfol0 : ifs = [] → NoImplements σ') :
    Fwd (parseImplementsInterfaces n) a (fun xs a' => xs = ifs ∧ a'.σ = σ') := by
  unfold parseImplementsInterfaces
  refine Fwd.bind (fwd_peek a) ?_
  rintro t a1 ⟨rfl, rfl⟩
  cases ifs with
  | nil =>
    simp only [printImplements, List.isEmpty_nil, if_true] at hs
    rw [Starts.nil_iff] at hs
    refine Fwd.ite_neg (by rw [hs]; exact hfol0 rfl) ((Fwd.pure _ _).mono ?_)
    rintro xs a' ⟨rfl, rfl⟩
    exact ⟨rfl, hs⟩
  | cons first rest =>
    simp only [printImplements, List.isEmpty_cons, Bool.false_eq_true, if_false] at hs
    obtain ⟨σ1, h1, h2⟩ := hs.cons_single
    obtain ⟨u, hσ, hu⟩ := h1.single
    refine Fwd.ite_pos ⟨by rw [hσ]; exact ofToken_kind hu, by rw [hσ]; exact ofToken_value hu⟩
      (Fwd.bind (fwd_next (a := { pk := true, σ := a.σ, cnt := a.cnt }) rfl hσ) ?_)
    rintro _ a2 ⟨_, rfl⟩
    exact fwd_sepList .amp first rest (fun m _ a0 σ0 h => fwd_parseName m h) (by decide) n _ σ' (by simpa using h2) hfol

theorem fwd_unionMembers (ts : List Name) (n : Nat) (a : AS) (σ' : Stream) (hs : Starts a.σ (printMembers ts) σ')
    (hfol : σ'.head.kind ≠ .pipe) (hfol0 : ts = [] → σ'.head.kind ≠ .equals) :
    Fwd (parseUnionMemberTypes n) a (fun xs a' => xs = ts ∧ a'.σ = σ') := by
  unfold parseUnionMemberTypes
  cases ts with
  | nil =>
    simp only [printMembers, List.isEmpty_nil, if_true] at hs
    rw [Starts.nil_iff] at hs
    refine Fwd.bind (fwd_skipP_no .equals (by rw [hs]; exact hfol0 rfl)) ?_
    rintro b a1 ⟨rfl, hσ⟩
    refine Fwd.ite_neg (by simp) ((Fwd.pure _ _).mono ?_)
    rintro xs a' ⟨rfl, rfl⟩
    exact ⟨rfl, by rw [hσ, hs]⟩
  | cons first rest =>
    simp only [printMembers, List.isEmpty_cons, Bool.false_eq_true, if_false] at hs
    obtain ⟨σ1, h1, h2⟩ := hs.cons_single
    refine Fwd.bind (fwd_skipP_yes .equals h1) ?_
    rintro b a1 ⟨rfl, hσ1⟩
    refine Fwd.ite_pos rfl ?_
    exact fwd_sepList .pipe first rest (fun m _ a0 σ0 h => fwd_parseName m h) (by decide) n _ σ' (by rw [hσ1]; exact h2) hfol

theorem fwd_directiveLocation (m : Name) (hm : m ∈ Gql.Grammar.directiveLocationNames) (a : AS) (σ1 : Stream)
    (hs : Starts a.σ [tName m] σ1) : Fwd parseDirectiveLocation a (fun x a' => x = m ∧ a'.σ = σ1) := by
  obtain ⟨u, hσ, hu⟩ := hs.single
  have hk : u.kind = .name := ofToken_kind hu
  have hv : u.value = m := ofToken_value hu
  unfold parseDirectiveLocation
  refine Fwd.bind (fwd_expect .name hσ hk) ?_
  rintro name a1 ⟨rfl, rfl⟩
  refine Fwd.ite_pos (by rw [hv, locationNames_eq]; exact List.contains_iff_mem.2 hm) ((Fwd.pure _ _).mono ?_)
  rintro x a' ⟨rfl, rfl⟩
  exact ⟨hv, rfl⟩

theorem fwd_directiveLocations (ls : List Name) (hne : ls ≠ []) (hl : ∀ l ∈ ls, l ∈ Gql.Grammar.directiveLocationNames)
    (n : Nat) (a : AS) (σ' : Stream) (hs : Starts a.σ (printSep .pipe ls) σ') (hfol : σ'.head.kind ≠ .pipe) :
    Fwd (parseDirectiveLocations n) a (fun xs a' => xs = ls ∧ a'.σ = σ') := by
  cases ls with
  | nil => exact absurd rfl hne
  | cons first rest =>
    unfold parseDirectiveLocations
    exact fwd_sepList .pipe first rest (fun m hm a0 σ0 h => fwd_directiveLocation m (hl m hm) a0 σ0 h) (by decide) n a σ' hs hfol

end Gql.Parser
