import GqlProofs.Parser.Pulls
/-
  The only limit error a run under `L` can produce is `.limit L`, and only if `L ≠ 0`.
-/
namespace Gql.Parser
open Gql Gql.Lexer

def LimOk (L : Nat) (s : PState) : Prop := ∀ n, s.err = some (.limit n) → n = L ∧ L ≠ 0

theorem LimOk.of_none {L : Nat} {s : PState} (h : s.err = none) : LimOk L s := by
  intro n hn; rw [h] at hn; cases hn

theorem LimOk.of_map_lex {L : Nat} {s : PState} (x : Option LexErr) (h : s.err = x.map .lex) : LimOk L s := by
  intro n hn; rw [h] at hn; cases x <;> simp at hn

theorem LimOk.peekNC {L : Nat} {s : PState} (h : LimOk L s) : LimOk L s.peekNC.2 := by
  unfold PState.peekNC
  split
  · exact h
  · split
    · exact h
    · intro n hn; simp at hn; exact h n hn

theorem LimOk.nextNC {L : Nat} {s : PState} (h : LimOk L s) : LimOk L (s.nextNC L).2 := by
  unfold PState.nextNC
  split
  · exact h
  · split
    · rename_i hL
      intro n hn; simp at hn
      unfold overLimit at hL; simp at hL
      exact ⟨hn.symm, hL.1⟩
    · split
      · exact LimOk.of_map_lex _ (takePeeked_err s)
      · exact LimOk.of_map_lex _ (readPrev_err s)

theorem LimOk.commentLoop {L : Nat} (n : Nat) {s : PState} (h : LimOk L s) : LimOk L (commentLoop L n s) := by
  induction n generalizing s with
  | zero => exact h
  | succ n ih =>
    unfold Gql.Parser.commentLoop
    split
    · exact h
    · simp only
      split
      · exact h.peekNC
      · exact ih h.peekNC.nextNC

theorem LimOk.groupIf {L : Nat} (t : Token) {s : PState} (h : LimOk L s) : LimOk L (s.groupIf L t) := by
  unfold PState.groupIf PState.consumeCommentGroup
  split
  · split
    · exact h
    · exact h.commentLoop _
  · exact h

theorem LimOk.peek {L : Nat} {s : PState} (h : LimOk L s) : LimOk L (s.peek L).2 := by
  unfold PState.peek
  split
  · exact h
  · split
    · exact h
    · apply LimOk.groupIf
      intro n hn; simp at hn; exact h n hn

theorem LimOk.next {L : Nat} {s : PState} (h : LimOk L s) : LimOk L (s.next L).2 := by
  unfold PState.next
  split
  · exact h
  · split
    · rename_i hL
      intro n hn; simp at hn
      unfold overLimit at hL; simp at hL
      exact ⟨hn.symm, hL.1⟩
    · split
      · exact LimOk.of_map_lex _ (takePeeked_err s)
      · apply LimOk.groupIf
        exact LimOk.of_map_lex _ (readPrev_err s)

theorem LimOk.error {L : Nat} {s : PState} (h : LimOk L s) (tok : Token) (msg : Bytes) : LimOk L (s.error tok msg) := by
  unfold PState.error
  split
  · exact h
  · split <;> (intro n hn; simp at hn)

theorem LimOk.run {α : Type} {L : Nat} (p : Prog α) {s : PState} (h : LimOk L s) : LimOk L (run L p s).2 := by
  induction p generalizing s with
  | pure a => simpa [Gql.Parser.run] using h
  | peek k ih => simp only [Gql.Parser.run]; exact ih _ h.peek
  | next k ih => simp only [Gql.Parser.run]; exact ih _ h.next
  | hasErr k ih => simp only [Gql.Parser.run]; exact ih _ h
  | getPrev k ih => simp only [Gql.Parser.run]; exact ih _ h
  | getSrc k ih => simp only [Gql.Parser.run]; exact ih _ h
  | fail tok msg k ih => simp only [Gql.Parser.run]; exact ih (h.error tok msg)
  | oof k ih => simp only [Gql.Parser.run]; exact ih h

end Gql.Parser
