import GqlProofs.Parser.FwdQuery
import GqlProofs.Parser.SoundTop
/-
  Parsing printed documents: the document loop on a sequence of printed definition blocks, and the
  entry point `parseQuery`.
-/
namespace Gql.Parser
open Gql Gql.Lexer Gql.Grammar Gql.Print

/-- a definition together with the tokens it is written as: an operation in its canonical print
    or with the keyword always written, a fragment in its print -/
def BlockOK : Def × List Tok → Prop
  | (.inl o, ts) => OpOK o ∧ WFOperation o ∧ (ts = printOperation o ∨ ts = opLong o)
  | (.inr f, ts) => FragOK f ∧ WFFragment f ∧ ts = printFragment f

theorem fwd_queryDocLoop (m : Nat) : ∀ (blocks : List (Def × List Tok)), (∀ b ∈ blocks, BlockOK b) →
    ∀ (n : Nat) (doc : QueryDoc) (a : AS) (σ' : Stream), Starts a.σ (blocks.flatMap (·.2)) σ' → σ'.head.kind = .eof →
      Fwd (queryDocLoop m n doc) a (fun d a' =>
        d.ops.map OperationDef.erasePos = (doc.ops ++ opsOf (blocks.map (·.1))).map OperationDef.erasePos ∧
        d.frags.map FragmentDef.erasePos = (doc.frags ++ fragsOf (blocks.map (·.1))).map FragmentDef.erasePos ∧
        a'.σ = σ')
  | [], _ => by
    intro n doc a σ' hs heof
    rw [List.flatMap_nil, Starts.nil_iff] at hs
    cases n with
    | zero => exact Fwd.outOfFuel _ _ _
    | succ n =>
      unfold queryDocLoop
      refine Fwd.bind (fwd_peek a) ?_
      rintro t a1 ⟨rfl, rfl⟩
      refine Fwd.ite_neg (by rw [hs]; simp [heof]) ((Fwd.pure _ _).mono ?_)
      rintro d a' ⟨rfl, rfl⟩
      exact ⟨by simp [opsOf], by simp [fragsOf], hs⟩
  | (.inl o, ts) :: rest, hok => by
    intro n doc a σ' hs heof
    obtain ⟨ho, hwf, hts⟩ := hok _ (List.mem_cons_self)
    rw [List.flatMap_cons, Starts.append_iff] at hs
    obtain ⟨σm, hb, hrest⟩ := hs
    simp only at hb
    cases n with
    | zero => exact Fwd.outOfFuel _ _ _
    | succ n =>
      have ih := fwd_queryDocLoop m rest (fun b hb => hok b (List.mem_cons_of_mem _ hb)) n
      have hop : ∀ (b : AS), b.σ = a.σ → Fwd (parseOperationDefinition m) b (fun y a' => y.erasePos = o.erasePos ∧ a'.σ = σm) := by
        intro b hbσ
        rcases hts with h | h
        · rw [h, printOperation_eq] at hb
          by_cases hbare : OperationDef.isBare o = true
          · rw [if_pos hbare] at hb
            exact fwd_opShort o ho hwf hbare m b σm (by rw [hbσ]; exact hb)
          · rw [if_neg hbare] at hb
            exact fwd_opLong o ho hwf m b σm (by rw [hbσ]; exact hb)
        · rw [h] at hb
          exact fwd_opLong o ho hwf m b σm (by rw [hbσ]; exact hb)
      have hcont : ∀ (od : OperationDef) (a3 : AS), od.erasePos = o.erasePos → a3.σ = σm →
          Fwd (queryDocLoop m n { doc with ops := doc.ops ++ [od] }) a3 (fun d a' =>
            d.ops.map OperationDef.erasePos = (doc.ops ++ opsOf (((Sum.inl o : Def), ts) :: rest |>.map (·.1))).map OperationDef.erasePos ∧
            d.frags.map FragmentDef.erasePos = (doc.frags ++ fragsOf (((Sum.inl o : Def), ts) :: rest |>.map (·.1))).map FragmentDef.erasePos ∧
            a'.σ = σ') := by
        intro od a3 hod hσ3
        refine (ih _ a3 σ' (by rw [hσ3]; exact hrest) heof).mono ?_
        rintro d a' ⟨e1, e2, e3⟩
        exact ⟨by rw [e1]; simp [opsOf, hod], by rw [e2]; simp [fragsOf], e3⟩
      -- the first token of the block: `{` or a Name `query` / `mutation` / `subscription`
      have hfirst : (a.σ.head.kind = .braceL) ∨ (a.σ.head.kind = .name ∧
          (a.σ.head.value = kwQuery ∨ a.σ.head.value = kwMutation ∨ a.σ.head.value = kwSubscription)) := by
        have hl : ∀ {σ : Stream}, Starts σ (opLong o) σm → σ.head.kind = .name ∧
            (σ.head.value = kwQuery ∨ σ.head.value = kwMutation ∨ σ.head.value = kwSubscription) := by
          intro σ h
          unfold opLong at h
          obtain ⟨σ1, h1, _⟩ := h.cons_single
          obtain ⟨u, hσu, hu⟩ := h1.single
          rw [hσu]
          refine ⟨ofToken_kind hu, ?_⟩
          have hv : u.value = o.op := ofToken_value hu
          simp only [Stream.head, hv]
          exact hwf.1
        rcases hts with h | h
        · rw [h, printOperation_eq] at hb
          by_cases hbare : OperationDef.isBare o = true
          · rw [if_pos hbare] at hb
            exact .inl (hb.head_kind (t := tP .braceL))
          · rw [if_neg hbare] at hb
            exact .inr (hl hb)
        · rw [h] at hb
          exact .inr (hl hb)
      unfold queryDocLoop
      refine Fwd.bind (fwd_peek a) ?_
      rintro t a1 ⟨rfl, rfl⟩
      refine Fwd.ite_pos (by rcases hfirst with h | h <;> simp [h]) (Fwd.bind (fwd_hasErr _) ?_)
      rintro e a2 ⟨rfl, rfl⟩
      refine Fwd.ite_neg (by simp) (Fwd.bind (fwd_peekPos _) ?_)
      rintro _ a3 rfl
      refine Fwd.bind (fwd_peek _) ?_
      rintro t1 a4 ⟨rfl, rfl⟩
      rcases hfirst with hk | ⟨hk, hv⟩
      · simp only [hk]
        refine Fwd.bind (hop _ rfl) ?_
        rintro od a5 ⟨hod, hσ5⟩
        exact hcont od a5 hod hσ5
      · simp only [hk]
        refine Fwd.bind (fwd_peek _) ?_
        rintro t2 a5 ⟨rfl, rfl⟩
        refine Fwd.ite_pos hv (Fwd.bind (hop _ rfl) ?_)
        rintro od a6 ⟨hod, hσ6⟩
        exact hcont od a6 hod hσ6
  | (.inr f, ts) :: rest, hok => by
    intro n doc a σ' hs heof
    obtain ⟨ho, hwf, hts⟩ := hok _ (List.mem_cons_self)
    rw [List.flatMap_cons, Starts.append_iff] at hs
    obtain ⟨σm, hb, hrest⟩ := hs
    simp only at hb
    subst hts
    cases n with
    | zero => exact Fwd.outOfFuel _ _ _
    | succ n =>
      have ih := fwd_queryDocLoop m rest (fun b hb => hok b (List.mem_cons_of_mem _ hb)) n
      have hfirst : a.σ.head.kind = .name ∧ a.σ.head.value = kwFragment := by
        have : Starts a.σ (tKw "fragment" :: (printFragment f).tail) σm := by
          simpa [printFragment] using hb
        obtain ⟨σ1, h1, _⟩ := this.cons_single
        obtain ⟨u, hσu, hu⟩ := h1.single
        rw [hσu]
        exact ⟨ofToken_kind hu, ofToken_value hu⟩
      unfold queryDocLoop
      refine Fwd.bind (fwd_peek a) ?_
      rintro t a1 ⟨rfl, rfl⟩
      refine Fwd.ite_pos (by simp [hfirst.1]) (Fwd.bind (fwd_hasErr _) ?_)
      rintro e a2 ⟨rfl, rfl⟩
      refine Fwd.ite_neg (by simp) (Fwd.bind (fwd_peekPos _) ?_)
      rintro _ a3 rfl
      refine Fwd.bind (fwd_peek _) ?_
      rintro t1 a4 ⟨rfl, rfl⟩
      simp only [hfirst.1]
      refine Fwd.bind (fwd_peek _) ?_
      rintro t2 a5 ⟨rfl, rfl⟩
      refine Fwd.ite_neg (by
        simp only [hfirst.2]
        decide) (Fwd.ite_pos hfirst.2 (Fwd.bind (fwd_fragment f ho hwf m _ σm (by simpa using hb)) ?_))
      rintro fd a6 ⟨hfd, hσ6⟩
      refine (ih _ a6 σ' (by rw [hσ6]; exact hrest) heof).mono ?_
      rintro d a' ⟨e1, e2, e3⟩
      exact ⟨by rw [e1]; simp [opsOf], by rw [e2]; simp [fragsOf, hfd], e3⟩

/-! ### from `tokensOf` to the initial stream -/

theorem Stream.sig_app (ts : List Token) (σ : Stream) :
    (Stream.app ts σ).sig = Stream.app (ts.filter fun t => t.kind != .comment) σ.sig := by
  induction ts with
  | nil => rfl
  | cons t ts ih =>
    simp only [Stream.app, Stream.sig, List.filter_cons]
    by_cases h : t.kind = .comment <;> simp [h, ih, Stream.app]

/-- if the lexer succeeds, the stream ahead of the initial state starts with the significant
    tokens and ends at EOF -/
theorem starts_of_tokensOf {inp : Bytes} {ts : List Tok} (h : tokensOf inp = some ts) :
    ∃ t, t.kind = .eof ∧ Starts (rawS inp Cur.init).sig ts (.eof t) := by
  unfold tokensOf at h
  have hl : lexAll inp = (rawS inp Cur.init).out [] := lexFuel_rawS _ _ _ _ (Nat.lt_succ_self _)
  rw [Stream.eq_app_toks (rawS inp Cur.init), Stream.out_app] at hl
  have hne := rawS_noEof inp Cur.init
  cases hterm : (rawS inp Cur.init).term with
  | err e => rw [hterm] at hl; simp [Stream.out] at hl; rw [hl] at h; simp at h
  | cons t σ =>
    exfalso
    have : ∀ σ : Stream, ∀ t σ', σ.term ≠ .cons t σ' := by
      intro σ; induction σ <;> simp_all [Stream.term]
    exact this _ _ _ hterm
  | eof t =>
    rw [hterm] at hl
    simp only [Stream.out, List.append_nil, List.reverse_cons, List.reverse_reverse] at hl
    rw [hl] at h
    simp only [Option.some.injEq] at h
    have hteof : t.kind = .eof := by
      have := hne
      rw [Stream.eq_app_toks (rawS inp Cur.init), hterm] at this
      exact this.of_app
    refine ⟨t, hteof, (rawS inp Cur.init).toks.filter (fun t => t.kind != .comment), ?_, ?_⟩
    · conv => lhs; rw [Stream.eq_app_toks (rawS inp Cur.init), hterm]
      rw [Stream.sig_app]; rfl
    · rw [← h]
      simp only [List.filter_append, List.map_append, tk]
      have h1 : (rawS inp Cur.init).toks.filter significant = (rawS inp Cur.init).toks.filter (fun t => t.kind != .comment) := by
        apply List.filter_congr
        intro u hu
        have := hne.toks_ne u hu
        simp [significant, this]
      simp [h1, significant, hteof]

/-- **parsing printed blocks**: if the significant tokens of `inp` are the concatenation of the
    printed blocks, `parseQuery` accepts `inp` and returns the definitions (operations and
    fragments each in block order) up to positions. -/
theorem parseQuery_blocks (blocks : List (Def × List Tok)) (hok : ∀ b ∈ blocks, BlockOK b) (inp : Bytes)
    (htok : tokensOf inp = some (blocks.flatMap (·.2))) :
    ∃ d', parseQuery 0 inp = .ok d' ∧
      d'.ops.map OperationDef.erasePos = (opsOf (blocks.map (·.1))).map OperationDef.erasePos ∧
      d'.frags.map FragmentDef.erasePos = (fragsOf (blocks.map (·.1))).map FragmentDef.erasePos := by
  obtain ⟨t, hteof, hst⟩ := starts_of_tokensOf htok
  have hrun := fwd_queryDocLoop (fuelFor inp) blocks hok (fuelFor inp) { ops := [], frags := [] }
    (abs (PState.init 0 inp)) (.eof t) (by rw [abs_init]; exact hst) hteof
    (PState.init 0 inp) (WF.init 0 inp) (by simp [dead, PState.init]) rfl (runQuery_oof 0 inp)
  obtain ⟨hl, _, e1, e2, _⟩ := hrun
  refine ⟨(runQuery 0 inp).1, ofRun_ok.2 ⟨live_oof hl, live_err hl, rfl⟩, by simpa [runQuery, parseQueryDocument] using e1,
    by simpa [runQuery, parseQueryDocument] using e2⟩

/-! ### `printQuery`: the definitions interleaved by position -/

/-- the trees the unparser / parser pair is exact on: every definition is well-formed, the
    unprinted parts of values are canonical (`ValueOK` …), and each of the two definition lists
    is in the order of its recorded positions (so that the interleaving by position keeps them) -/
def PrintableQuery (d : QueryDoc) : Prop :=
  (∀ o ∈ d.ops, WFOperation o ∧ OpOK o) ∧ (∀ f ∈ d.frags, WFFragment f ∧ FragOK f) ∧
    d.ops.Pairwise (fun a b => a.pos.start ≤ b.pos.start) ∧ d.frags.Pairwise (fun a b => a.pos.start ≤ b.pos.start)

theorem opsOf_sublist {l1 l2 : List Def} (h : l1.Sublist l2) : (opsOf l1).Sublist (opsOf l2) := by
  induction h with
  | slnil => exact List.Sublist.slnil
  | @cons l1 l2 x _ ih => cases x <;> simp [opsOf] <;> first | exact ih | exact ih.cons _
  | @cons_cons l1 l2 x _ ih => cases x <;> simp [opsOf] <;> exact ih

theorem fragsOf_sublist {l1 l2 : List Def} (h : l1.Sublist l2) : (fragsOf l1).Sublist (fragsOf l2) := by
  induction h with
  | slnil => exact List.Sublist.slnil
  | @cons l1 l2 x _ ih => cases x <;> simp [fragsOf] <;> first | exact ih | exact ih.cons _
  | @cons_cons l1 l2 x _ ih => cases x <;> simp [fragsOf] <;> exact ih

theorem opsOf_perm_length {l1 l2 : List Def} (h : l1.Perm l2) : (opsOf l1).length = (opsOf l2).length := by
  induction h with
  | nil => rfl
  | cons x _ ih => cases x <;> simp [opsOf, ih]
  | swap x y l => cases x <;> cases y <;> simp [opsOf]
  | trans _ _ ih1 ih2 => exact ih1.trans ih2

theorem fragsOf_perm_length {l1 l2 : List Def} (h : l1.Perm l2) : (fragsOf l1).length = (fragsOf l2).length := by
  induction h with
  | nil => rfl
  | cons x _ ih => cases x <;> simp [fragsOf, ih]
  | swap x y l => cases x <;> cases y <;> simp [fragsOf]
  | trans _ _ ih1 ih2 => exact ih1.trans ih2

theorem opsOf_append (l1 l2 : List Def) : opsOf (l1 ++ l2) = opsOf l1 ++ opsOf l2 := by
  induction l1 with
  | nil => rfl
  | cons x l ih => cases x <;> simp [opsOf, ih]

theorem fragsOf_append (l1 l2 : List Def) : fragsOf (l1 ++ l2) = fragsOf l1 ++ fragsOf l2 := by
  induction l1 with
  | nil => rfl
  | cons x l ih => cases x <;> simp [fragsOf, ih]

theorem opsOf_inl (os : List OperationDef) : opsOf (os.map Sum.inl) = os := by
  induction os <;> simp_all [opsOf]
theorem opsOf_inr (fs : List FragmentDef) : opsOf (fs.map Sum.inr) = [] := by
  induction fs <;> simp_all [opsOf]
theorem fragsOf_inl (os : List OperationDef) : fragsOf (os.map Sum.inl) = [] := by
  induction os <;> simp_all [fragsOf]
theorem fragsOf_inr (fs : List FragmentDef) : fragsOf (fs.map Sum.inr) = fs := by
  induction fs <;> simp_all [fragsOf]

/-- the definitions of a document in the order `printQuery` writes them -/
def sourceOrder (d : QueryDoc) : List Def :=
  (d.ops.map Sum.inl ++ d.frags.map Sum.inr).mergeSort fun a b => decide ((defItem a).1 ≤ (defItem b).1)

theorem printQuery_sourceOrder (d : QueryDoc) : printQuery d = (sourceOrder d).flatMap fun x => (defItem x).2 := by
  have hitems : d.ops.map (fun o => (o.pos.start, printOperation o)) ++ d.frags.map (fun f => (f.pos.start, printFragment f))
      = (d.ops.map (Sum.inl : OperationDef → Def) ++ d.frags.map Sum.inr).map defItem := by
    simp [List.map_map, Function.comp_def, defItem]
  unfold printQuery inSourceOrder sourceOrder
  rw [hitems, ← List.map_mergeSort (f := defItem) (r := fun a b => decide ((defItem a).1 ≤ (defItem b).1))
    (s := fun a b => decide (a.1 ≤ b.1)) (fun _ _ _ _ => rfl)]
  simp [List.flatMap_def, List.map_map, Function.comp_def]

/-- the interleaving by position keeps each of the two lists when each is sorted (stability) -/
theorem sourceOrder_lists (d : QueryDoc) (h1 : d.ops.Pairwise fun a b => a.pos.start ≤ b.pos.start)
    (h2 : d.frags.Pairwise fun a b => a.pos.start ≤ b.pos.start) :
    opsOf (sourceOrder d) = d.ops ∧ fragsOf (sourceOrder d) = d.frags := by
  have trans : ∀ a b c : Def, decide ((defItem a).1 ≤ (defItem b).1) = true → decide ((defItem b).1 ≤ (defItem c).1) = true →
      decide ((defItem a).1 ≤ (defItem c).1) = true := by
    intro a b c; simp only [decide_eq_true_eq]; omega
  have total : ∀ a b : Def, (decide ((defItem a).1 ≤ (defItem b).1) || decide ((defItem b).1 ≤ (defItem a).1)) = true := by
    intro a b; simp only [Bool.or_eq_true, decide_eq_true_eq]; omega
  have hperm := List.mergeSort_perm (d.ops.map Sum.inl ++ d.frags.map Sum.inr)
    (fun a b : Def => decide ((defItem a).1 ≤ (defItem b).1))
  constructor
  · have hsub : (d.ops.map (Sum.inl : OperationDef → Def)).Sublist (sourceOrder d) :=
      List.sublist_mergeSort trans total (by
        rw [List.pairwise_map]
        exact h1.imp fun h => decide_eq_true h) (List.sublist_append_left _ _)
    have := opsOf_sublist hsub
    rw [opsOf_inl] at this
    refine (this.eq_of_length ?_).symm
    rw [sourceOrder, opsOf_perm_length hperm, opsOf_append, opsOf_inl, opsOf_inr]; simp
  · have hsub : (d.frags.map (Sum.inr : FragmentDef → Def)).Sublist (sourceOrder d) :=
      List.sublist_mergeSort trans total (by
        rw [List.pairwise_map]
        exact h2.imp fun h => decide_eq_true h) (List.sublist_append_right _ _)
    have := fragsOf_sublist hsub
    rw [fragsOf_inr] at this
    refine (this.eq_of_length ?_).symm
    rw [sourceOrder, fragsOf_perm_length hperm, fragsOf_append, fragsOf_inl, fragsOf_inr]; simp

theorem mem_sourceOrder {d : QueryDoc} {x : Def} (h : x ∈ sourceOrder d) :
    (∃ o ∈ d.ops, x = .inl o) ∨ (∃ f ∈ d.frags, x = .inr f) := by
  have := (List.mergeSort_perm _ _).mem_iff.1 h
  simp only [List.mem_append, List.mem_map] at this
  rcases this with ⟨o, ho, rfl⟩ | ⟨f, hf, rfl⟩
  · exact .inl ⟨o, ho, rfl⟩
  · exact .inr ⟨f, hf, rfl⟩

/-- **parse ∘ print**: if the significant tokens of `inp` are the unparse of a printable tree `d`,
    the parser accepts `inp` and returns `d` up to positions -/
theorem parseQuery_print (d : QueryDoc) (hp : PrintableQuery d) (inp : Bytes) (htok : tokensOf inp = some (printQuery d)) :
    ∃ d', parseQuery 0 inp = .ok d' ∧ d'.erasePos = d.erasePos := by
  obtain ⟨hops, hfrags, s1, s2⟩ := hp
  let blocks : List (Def × List Tok) := (sourceOrder d).map fun x => (x, (defItem x).2)
  have hflat : blocks.flatMap (·.2) = printQuery d := by
    rw [printQuery_sourceOrder]; simp [blocks, List.flatMap_def, List.map_map, Function.comp_def]
  have hfst : blocks.map (·.1) = sourceOrder d := by simp [blocks, List.map_map, Function.comp_def]
  have hok : ∀ b ∈ blocks, BlockOK b := by
    intro b hb
    simp only [blocks, List.mem_map] at hb
    obtain ⟨x, hx, rfl⟩ := hb
    rcases mem_sourceOrder hx with ⟨o, ho, rfl⟩ | ⟨f, hf, rfl⟩
    · exact ⟨(hops o ho).2, (hops o ho).1, .inl rfl⟩
    · exact ⟨(hfrags f hf).2, (hfrags f hf).1, rfl⟩
  obtain ⟨d', h1, h2, h3⟩ := parseQuery_blocks blocks hok inp (by rw [hflat]; exact htok)
  obtain ⟨l1, l2⟩ := sourceOrder_lists d s1 s2
  rw [hfst, l1] at h2
  rw [hfst, l2] at h3
  exact ⟨d', h1, by simp [QueryDoc.erasePos, h2, h3]⟩

end Gql.Parser
