import GqlProofs.Parser.Limit
/-
  Accounting of lexer pulls: every token pulled from the lexer has either been consumed by
  `next` (counted in `tokenCount`) or sits in the look-ahead; the increment of `tokenCount` that
  trips the limit pulls nothing.  Under a limit `L ≠ 0` the counter never exceeds `L + 1`.
-/
namespace Gql.Parser
open Gql Gql.Lexer

def tripped (L : Nat) (s : PState) : Bool := s.err == some (.limit L)

structure PInv (L : Nat) (s : PState) : Prop where
  count : s.pulls + (if tripped L s then 1 else 0) = s.tokenCount + (if s.peeked then 1 else 0)
  bound : L ≠ 0 → if tripped L s then s.tokenCount = L + 1 else s.tokenCount ≤ L

theorem map_lex_ne_limit (L : Nat) (x : Option LexErr) : (x.map PErr.lex == some (PErr.limit L)) = false := by
  cases x <;> simp

theorem not_tripped_of_none {L : Nat} {s : PState} (h : s.err.isSome = false) : tripped L s = false := by
  unfold tripped; cases he : s.err <;> simp_all

theorem PInv.init (L src : Nat) (inp : Bytes) : PInv L (PState.init src inp) := by
  constructor <;> simp [PState.init, tripped]

theorem lexRead_fields (s : PState) :
    s.lexRead.2.2.pulls = s.pulls + 1 ∧ s.lexRead.2.2.tokenCount = s.tokenCount ∧
    s.lexRead.2.2.peeked = s.peeked ∧ s.lexRead.2.2.err = s.err := by
  unfold PState.lexRead; split <;> simp

@[simp] theorem readPeek_pulls (s : PState) : s.readPeek.pulls = s.pulls + 1 := by
  simp [PState.readPeek, (lexRead_fields s).1]
@[simp] theorem readPeek_peeked (s : PState) : s.readPeek.peeked = true := rfl
@[simp] theorem readPeek_err (s : PState) : s.readPeek.err = s.err := by
  simp [PState.readPeek, (lexRead_fields s).2.2.2]
@[simp] theorem trip_pulls (L : Nat) (s : PState) : (s.trip L).pulls = s.pulls := rfl
@[simp] theorem trip_peeked (L : Nat) (s : PState) : (s.trip L).peeked = s.peeked := rfl
@[simp] theorem takePeeked_pulls (s : PState) : s.takePeeked.pulls = s.pulls := rfl
@[simp] theorem takePeeked_peeked (s : PState) : s.takePeeked.peeked = false := rfl
@[simp] theorem takePeeked_err (s : PState) : s.takePeeked.err = s.peekErr.map .lex := rfl
@[simp] theorem readPrev_pulls (s : PState) : s.readPrev.pulls = s.pulls + 1 := by
  simp [PState.readPrev, (lexRead_fields s).1]
@[simp] theorem readPrev_peeked (s : PState) : s.readPrev.peeked = s.peeked := by
  simp [PState.readPrev, (lexRead_fields s).2.2.1]
@[simp] theorem readPrev_err (s : PState) : s.readPrev.err = s.lexRead.2.1.map .lex := rfl

theorem PInv.readPeek {L : Nat} {s : PState} (h : PInv L s) (he : s.err.isSome = false) (hp : s.peeked = false) :
    PInv L s.readPeek := by
  have ht := not_tripped_of_none (L := L) he
  have ht' : tripped L s.readPeek = false := by simpa [tripped] using ht
  have hc := h.count; have hb := h.bound
  simp only [ht, hp] at hc hb
  constructor
  · simp only [ht', readPeek_pulls, readPeek_tc, readPeek_peeked]; simp at hc ⊢; omega
  · simp only [ht', readPeek_tc]; exact hb

theorem PInv.trip {L : Nat} {s : PState} (h : PInv L s) (he : s.err.isSome = false)
    (hL : overLimit L (s.tokenCount + 1) = true) : PInv L (s.trip L) := by
  have ht := not_tripped_of_none (L := L) he
  have hlt := overLimit_lt hL
  have hL0 : L ≠ 0 := by unfold overLimit at hL; simp at hL; exact hL.1
  have ht' : tripped L (s.trip L) = true := by simp [tripped]
  have hc := h.count; have hb := h.bound hL0
  simp only [ht] at hc hb
  constructor
  · simp only [ht', trip_pulls, trip_tc, trip_peeked]; by_cases hp : s.peeked = true <;> simp [hp] at hc ⊢ <;> omega
  · intro _; simp only [ht', trip_tc]; simp at hb ⊢; omega

theorem PInv.takePeeked {L : Nat} {s : PState} (h : PInv L s) (he : s.err.isSome = false) (hp : s.peeked = true)
    (hL : overLimit L (s.tokenCount + 1) = false) : PInv L s.takePeeked := by
  have ht := not_tripped_of_none (L := L) he
  have ht' : tripped L s.takePeeked = false := by simp [tripped, map_lex_ne_limit]
  have hc := h.count
  simp only [ht, hp] at hc
  constructor
  · simp only [ht', takePeeked_pulls, takePeeked_tc, takePeeked_peeked]; simp at hc ⊢; omega
  · intro hL0
    simp only [ht', takePeeked_tc]
    unfold overLimit at hL; simp [hL0] at hL; simp; omega

theorem PInv.readPrev {L : Nat} {s : PState} (h : PInv L s) (he : s.err.isSome = false) (hp : s.peeked = false)
    (hL : overLimit L (s.tokenCount + 1) = false) : PInv L s.readPrev := by
  have ht := not_tripped_of_none (L := L) he
  have ht' : tripped L s.readPrev = false := by simp [tripped, map_lex_ne_limit]
  have hc := h.count
  simp only [ht, hp] at hc
  constructor
  · simp only [ht', readPrev_pulls, readPrev_tc, readPrev_peeked, hp]; simp at hc ⊢; omega
  · intro hL0
    simp only [ht', readPrev_tc]
    unfold overLimit at hL; simp [hL0] at hL; simp; omega

theorem PInv.peekNC {L : Nat} {s : PState} (h : PInv L s) : PInv L s.peekNC.2 := by
  unfold PState.peekNC
  cases he : s.err.isSome
  case true => simpa using h
  case false =>
    cases hp : s.peeked
    case true => simpa using h
    case false => simpa using h.readPeek he hp

theorem PInv.nextNC {L : Nat} {s : PState} (h : PInv L s) : PInv L (s.nextNC L).2 := by
  unfold PState.nextNC
  cases he : s.err.isSome
  case true => simpa using h
  case false =>
    cases hL : overLimit L (s.tokenCount + 1)
    case true => simpa using h.trip he hL
    case false =>
      cases hp : s.peeked
      case true => simpa using h.takePeeked he hp hL
      case false => simpa using h.readPrev he hp hL

theorem PInv.commentLoop {L : Nat} (n : Nat) {s : PState} (h : PInv L s) : PInv L (commentLoop L n s) := by
  induction n generalizing s with
  | zero => exact ⟨h.count, h.bound⟩
  | succ n ih =>
    unfold Gql.Parser.commentLoop
    split
    · exact h
    · simp only
      split
      · exact h.peekNC
      · exact ih h.peekNC.nextNC

theorem PInv.groupIf {L : Nat} (t : Token) {s : PState} (h : PInv L s) : PInv L (s.groupIf L t) := by
  unfold PState.groupIf PState.consumeCommentGroup
  split
  · split
    · exact h
    · exact h.commentLoop _
  · exact h

theorem PInv.peek {L : Nat} {s : PState} (h : PInv L s) : PInv L (s.peek L).2 := by
  unfold PState.peek
  cases he : s.err.isSome
  case true => simpa using h
  case false =>
    cases hp : s.peeked
    case true => simpa using h
    case false => simpa using (h.readPeek he hp).groupIf _

theorem PInv.next {L : Nat} {s : PState} (h : PInv L s) : PInv L (s.next L).2 := by
  unfold PState.next
  cases he : s.err.isSome
  case true => simpa using h
  case false =>
    cases hL : overLimit L (s.tokenCount + 1)
    case true => simpa using h.trip he hL
    case false =>
      cases hp : s.peeked
      case true => simpa using h.takePeeked he hp hL
      case false => simpa using (h.readPrev he hp hL).groupIf _

theorem PInv.error {L : Nat} {s : PState} (h : PInv L s) (tok : Token) (msg : Bytes) : PInv L (s.error tok msg) := by
  unfold PState.error
  cases he : s.err.isSome
  case true => simpa using h
  case false =>
    have ht := not_tripped_of_none (L := L) he
    have hc := h.count; have hb := h.bound
    simp [ht] at hc hb
    simp only [Bool.false_eq_true, ↓reduceIte]
    split
    · constructor <;> simp [tripped] <;> assumption
    · constructor <;> simp [tripped] <;> assumption

theorem PInv.run {α : Type} {L : Nat} (p : Prog α) {s : PState} (h : PInv L s) : PInv L (run L p s).2 := by
  induction p generalizing s with
  | pure a => simpa [Gql.Parser.run] using h
  | peek k ih => simp only [Gql.Parser.run]; exact ih _ h.peek
  | next k ih => simp only [Gql.Parser.run]; exact ih _ h.next
  | hasErr k ih => simp only [Gql.Parser.run]; exact ih _ h
  | getPrev k ih => simp only [Gql.Parser.run]; exact ih _ h
  | getSrc k ih => simp only [Gql.Parser.run]; exact ih _ h
  | fail tok msg k ih => simp only [Gql.Parser.run]; exact ih (h.error tok msg)
  | oof k ih => simp only [Gql.Parser.run]; exact ih ⟨h.count, h.bound⟩

/-- pulls never exceed `L + 1` under a limit `L ≠ 0` -/
theorem PInv.pulls_le {L : Nat} {s : PState} (h : PInv L s) (hL : L ≠ 0) : s.pulls ≤ L + 1 := by
  have hc := h.count; have hb := h.bound hL
  cases ht : tripped L s <;> simp [ht] at hc hb <;> split at hc <;> omega

theorem PInv.tc_le {L : Nat} {s : PState} (h : PInv L s) (hL : L ≠ 0) (ht : tripped L s = false) :
    s.tokenCount ≤ L := by
  have hb := h.bound hL; simpa [ht] using hb

end Gql.Parser
