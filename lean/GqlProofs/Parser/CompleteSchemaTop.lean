import GqlProofs.Parser.CompleteSchema
import GqlProofs.Parser.FwdSchemaTop
import GqlProofs.Parser.SoundSchemaTop
/-
  Completeness of `ParseSchema`: the document loop, and the theorem — if the token sequence of
  the input is derivable from the type-system document grammar with canonical output `o`, the
  parser accepts the input with a non-empty document whose unparse is `o`.
-/
namespace Gql.Parser
open Gql Gql.Lexer Gql.Grammar Gql.Print

local notation "D" => Derives gql

/-! ### the first tokens of a top-level item -/

theorem first_ext {ts o : List Tok} (h : D (.nt .typeSystemExtension) ts o) (hok : TsOK ts) : ∃ body, ts = tKw "extend" :: body := by
  rcases h.nt_inv.alt_inv with h | h
  · obtain ⟨_, _, _, _, e, _⟩ := inv_schemaExt h hok
    exact ⟨_, e⟩
  · obtain ⟨k, tb, ob, e, _⟩ := inv_typeExtension h hok
    exact ⟨_, e⟩

/-- every item is `Description? keyword …` -/
theorem item_head {ts o : List Tok} (h : D (.nt .typeSystemDefinitionOrExtension) ts o) (hok : TsOK ts) :
    ∃ tD oD kwt body, ts = tD ++ kwt :: body ∧ D (.opt (.nt .description)) tD oD ∧ kwt.kind = .name ∧ kwt.value ≠ kwImplements := by
  rcases h.nt_inv.alt_inv with h | h
  · rcases h.nt_inv.alt_inv with h | h
    · obtain ⟨tD, oD, tds, ods, tbk, obk, e, _, dD, _⟩ := inv_schemaDef h
      exact ⟨tD, oD, tKw "schema", _, e, dD, rfl, by decide⟩
    rcases h.alt_inv with h | h
    · obtain ⟨k, tD, oD, tb, ob, e, _, dD, _⟩ := inv_typeDefinition h
      refine ⟨tD, oD, DefKind.keyword k, tb, e, dD, (keyword_value k).1, ?_⟩
      rw [(keyword_value k).2]; cases k <;> decide
    · obtain ⟨tD, oD, nm, ta, oa, trep, tl, ol, e, _, _, dD, _⟩ := inv_directiveDef h hok
      exact ⟨tD, oD, tKw "directive", _, e, dD, rfl, by decide⟩
  · obtain ⟨body, e⟩ := first_ext h hok
    exact ⟨[], [], tKw "extend", body, e, .optNone, rfl, by decide⟩

theorem folItem_of_head {σ σ' : Stream} {tD oD body : List Tok} {kwt : Tok} (hs : Starts σ (tD ++ kwt :: body) σ')
    (dD : D (.opt (.nt .description)) tD oD) (hk : kwt.kind = .name) (hv : kwt.value ≠ kwImplements) : FolItem σ := by
  rcases inv_optDescription dD with ⟨rfl, _⟩ | ⟨t, rfl, hkt, _⟩
  · have hh := hs.head
    have hkk : σ.head.kind = .name := by rw [← show (Tok.ofToken σ.head).kind = σ.head.kind from rfl, hh]; exact hk
    have hvv : σ.head.value = kwt.value := by rw [← show (Tok.ofToken σ.head).value = σ.head.value from rfl, hh]
    exact ⟨by simp [hkk], by simp [hkk], by simp [hkk], by simp [hkk], by simp [hkk], by simp [hkk], by simp [hkk],
      fun hc => hv (hvv ▸ hc.2)⟩
  · have hkk : σ.head.kind = t.kind := hs.head_kind
    rcases hkt with h' | h' <;> rw [h'] at hkk <;>
      exact ⟨by simp [hkk], by simp [hkk], by simp [hkk], by simp [hkk], by simp [hkk], by simp [hkk], by simp [hkk],
        noImplements_of_kind (by simp [hkk])⟩

/-! ### the loop -/

theorem HeadsOf.cons_key {σ σm : Stream} {k : Nat} {keys : List Nat} (hk : KeyIn σ σm k) (h : HeadsOf σm keys) :
    HeadsOf σ (k :: keys) := by
  obtain ⟨us, rfl, u, hu, rfl⟩ := hk
  obtain ⟨hs, h1, h2⟩ := h
  refine ⟨u :: hs, ?_, by simp [h2]⟩
  rw [Stream.toks_app]
  exact (List.singleton_sublist.2 hu).append h1

/-- one iteration of the loop up to the dispatch: the description is read, the keyword is peeked -/
theorem cpl_loopStep (m n : Nat) (doc : SchemaDoc) (a : AS) (tD oD : List Tok) (dD : D (.opt (.nt .description)) tD oD) (kw : Tok)
    (body : List Tok) (σm : Stream) (hkw : kw.kind = .name) (hs : Starts a.σ (tD ++ kw :: body) σm)
    (R : SchemaDoc → AS → Prop)
    (hrest : ∀ (desc : Bytes) (has : Bool) (a5 : AS), printDesc desc = oD → (has = true → tD ≠ []) → Starts a.σ tD a5.σ →
      Starts a5.σ (kw :: body) σm → Fwd (docDispatch m n doc desc has kw.value) a5 R) :
    Fwd (schemaDocLoop m (n + 1) doc) a R := by
  rw [Starts.append_iff] at hs
  obtain ⟨σd, hd1, hd2⟩ := hs
  have hkd : σd.head.kind = .name := by rw [hd2.head_kind]; exact hkw
  have hvd : σd.head.value = kw.value := by
    rw [← show (Tok.ofToken σd.head).value = σd.head.value from rfl, hd2.head]
  have hne : a.σ.head.kind ≠ .eof := by
    rcases inv_optDescription dD with ⟨rfl, _⟩ | ⟨t, rfl, hk, _⟩
    · rw [Starts.nil_iff] at hd1; rw [hd1, hkd]; decide
    · rw [hd1.head_kind]; rcases hk with h | h <;> rw [h] <;> decide
  rw [schemaDocLoop_succ]
  refine Fwd.bind (fwd_peek a) ?_
  rintro t a1 ⟨rfl, rfl⟩
  refine Fwd.ite_pos hne (Fwd.bind (fwd_hasErr _) ?_)
  rintro e a2 ⟨rfl, rfl⟩
  refine Fwd.ite_neg (by simp) ?_
  refine Fwd.bind (cpl_optionalDescription tD oD dD _ σd (by simpa using hd1)
    (fun _ => ⟨by rw [hkd]; decide, by rw [hkd]; decide⟩)) ?_
  rintro ⟨description, has⟩ a3 ⟨hdesc, hhas, hσ3⟩
  simp only at hdesc hhas
  simp only
  refine Fwd.bind (fwd_peek a3) ?_
  rintro c a4 ⟨rfl, rfl⟩
  refine Fwd.ite_neg (by rw [hσ3]; simp [hkd]) (Fwd.bind (fwd_peek _) ?_)
  rintro dtok a5 ⟨rfl, rfl⟩
  simp only [hσ3, hvd]
  exact hrest description has _ hdesc hhas (by simpa [hσ3] using hd1) (by simpa [hσ3] using hd2)

theorem cpl_schemaDocLoop (m : Nat) : ∀ (parts : List (List Tok × List Tok)),
    (∀ p ∈ parts, TsOK p.1 ∧ D (.nt .typeSystemDefinitionOrExtension) p.1 p.2) →
    ∀ (n : Nat) (doc : SchemaDoc) (a : AS) (σ' : Stream), Starts a.σ (parts.flatMap (·.1)) σ' → σ'.head.kind = .eof →
      Fwd (schemaDocLoop m n doc) a (fun d a' => (∃ items : List SItem, d = items.foldl SchemaDoc.add doc ∧
        items.flatMap (fun it => (sItem it).2) = parts.flatMap (·.2) ∧
        HeadsOf a.σ (items.map fun it => (sItem it).1) ∧ items.length = parts.length ∧ ∀ it ∈ items, it.enumOK) ∧ a'.σ = σ')
  | [], _ => by
    intro n doc a σ' hs heof
    rw [List.flatMap_nil, Starts.nil_iff] at hs
    cases n with
    | zero => exact Fwd.outOfFuel _ _ _
    | succ n =>
      unfold schemaDocLoop
      refine Fwd.bind (fwd_peek a) ?_
      rintro t a1 ⟨rfl, rfl⟩
      refine Fwd.ite_neg (by rw [hs]; simp [heof]) ((Fwd.pure _ _).mono ?_)
      rintro d a' ⟨rfl, rfl⟩
      exact ⟨⟨[], rfl, rfl, HeadsOf.nil _, rfl, (fun _ h => by cases h)⟩, hs⟩
  | p :: parts, hp => by
    intro n doc a σ' hs heof
    obtain ⟨hokp, hdp⟩ := hp p (by simp)
    rw [List.flatMap_cons, Starts.append_iff] at hs
    obtain ⟨σm, hb, hrest⟩ := hs
    cases n with
    | zero => exact Fwd.outOfFuel _ _ _
    | succ n =>
      have ih := cpl_schemaDocLoop m parts (fun q hq => hp q (by simp [hq])) n
      have hfolm : FolItem σm := by
        cases parts with
        | nil =>
          rw [List.flatMap_nil, Starts.nil_iff] at hrest
          rw [hrest]; exact folItem_of_eof heof
        | cons p2 r =>
          rw [List.flatMap_cons, Starts.append_iff] at hrest
          obtain ⟨σ2, h2, _⟩ := hrest
          obtain ⟨hok2, hd2⟩ := hp p2 (by simp)
          obtain ⟨tD, oD, kwt, body, e, dD, hk, hv⟩ := item_head hd2 hok2
          rw [e] at h2
          exact folItem_of_head h2 dD hk hv
      have hcont : ∀ (doc' : SchemaDoc) (a3 : AS), ItemRes doc p.2 a.σ σm doc' a3 →
          Fwd (schemaDocLoop m n doc') a3 (fun d a' => (∃ items : List SItem, d = items.foldl SchemaDoc.add doc ∧
            items.flatMap (fun it => (sItem it).2) = (p :: parts).flatMap (·.2) ∧
            HeadsOf a.σ (items.map fun it => (sItem it).1) ∧ items.length = (p :: parts).length ∧ ∀ it ∈ items, it.enumOK) ∧
            a'.σ = σ') := by
        rintro doc' a3 ⟨it, rfl, ho, hen, hkey, hσ3⟩
        refine (ih (doc.add it) a3 σ' (by rw [hσ3]; exact hrest) heof).mono ?_
        rintro d a' ⟨⟨items, e1, e2, e3, e4, e6⟩, e5⟩
        refine ⟨⟨it :: items, by rw [e1]; rfl, by simp [ho, e2], ?_, by simp [e4], ?_⟩, e5⟩
        rotate_left
        · intro x hx
          rcases List.mem_cons.1 hx with rfl | hx
          · exact hen
          · exact e6 x hx
        rw [List.map_cons]
        rw [hσ3] at e3
        exact HeadsOf.cons_key hkey e3
      rcases hdp.nt_inv.alt_inv with hdef | hext
      · rcases hdef.nt_inv.alt_inv with hsd | hdef
        · -- a schema definition
          obtain ⟨tD, oD, tds, ods, tbk, obk, e1, e2, dD, dds, dbk⟩ := inv_schemaDef hsd
          rw [e1] at hb hokp
          refine cpl_loopStep m n doc a tD oD dD (tKw "schema") _ σm rfl hb _ ?_
          intro desc has a5 hdesc _ hpre hst
          unfold docDispatch
          refine Fwd.ite_neg (by decide) (Fwd.ite_pos rfl ?_)
          refine Fwd.bind (cpl_schemaDefinition m desc tds ods tbk obk hokp.right.tail dds dbk a5 σm hst) ?_
          rintro sd a6 ⟨hsd', hkey, hσ6⟩
          exact hcont _ a6 ⟨.schema sd, rfl, by simp only [sItem]; rw [hsd', hdesc, e2], trivial, KeyIn.prefix hpre hkey, hσ6⟩
        rcases hdef.alt_inv with htd | hdd
        · -- a type definition
          obtain ⟨k, tD, oD, tb, ob, e1, e2, dD, hbody⟩ := inv_typeDefinition htd
          rw [e1] at hb hokp
          refine cpl_loopStep m n doc a tD oD dD (DefKind.keyword k) tb σm (keyword_value k).1 hb _ ?_
          intro desc has a5 hdesc _ hpre hst
          unfold docDispatch
          refine Fwd.ite_pos (by rw [(keyword_value k).2]; cases k <;> simp) ?_
          refine Fwd.bind (cpl_typeSystemDefinition m desc k tb ob hokp.right.tail hbody a5 σm hst hfolm) ?_
          rintro df a6 ⟨hd1, hd2, hd3, hen, hkey, hσ6⟩
          exact hcont _ a6 ⟨.definition df, rfl, by simp only [sItem, printDefinition]; rw [hd1, hd2, hd3, hdesc, e2], hen,
            KeyIn.prefix hpre hkey, hσ6⟩
        · -- a directive definition
          obtain ⟨tD, oD, nm, ta, oa, trep, tl, ol, e1, e2, hrep, dD, da, dl⟩ := inv_directiveDef hdd hokp
          rw [e1] at hb hokp
          refine cpl_loopStep m n doc a tD oD dD (tKw "directive") _ σm rfl hb _ ?_
          intro desc has a5 hdesc _ hpre hst
          unfold docDispatch
          refine Fwd.ite_neg (by decide) (Fwd.ite_neg (by decide) (Fwd.ite_pos rfl ?_))
          refine Fwd.bind (cpl_directiveDefinition m desc nm ta oa trep tl ol hokp.right.tail.tail.tail hrep da dl a5 σm hst
            hfolm.2.2.2.2.2.1) ?_
          rintro dd a6 ⟨hdd', hkey, hσ6⟩
          exact hcont _ a6 ⟨.directive dd, rfl, by simp only [sItem]; rw [hdd', hdesc, e2], trivial, KeyIn.prefix hpre hkey, hσ6⟩
      · -- an extension
        obtain ⟨body, e1⟩ := first_ext hext hokp
        have hb' : Starts a.σ ([] ++ tKw "extend" :: body) σm := by rw [e1] at hb; simpa using hb
        refine cpl_loopStep m n doc a [] [] .optNone (tKw "extend") body σm rfl hb' _ ?_
        intro desc has a5 _ hhas hpre hst
        have hfalse : has = false := by
          cases has with
          | false => rfl
          | true => exact absurd rfl (hhas rfl)
        subst hfalse
        unfold docDispatch
        refine Fwd.ite_neg (by decide) (Fwd.ite_neg (by decide) (Fwd.ite_neg (by decide) (Fwd.ite_pos rfl ?_)))
        unfold rejectDescription
        refine Fwd.bind (Fwd.ite_neg (by simp) (Fwd.pure () a5)) ?_
        rintro _ a6 ⟨_, rfl⟩
        refine Fwd.bind (cpl_typeSystemExtension m doc p.1 p.2 hokp hext a6 σm (by rw [e1]; exact hst) hfolm) ?_
        rintro doc' a7 ⟨it, h1, h2, hen, hkey, hσ7⟩
        exact hcont doc' a7 ⟨it, h1, h2, hen, KeyIn.prefix hpre hkey, hσ7⟩

/-! ### the entry point -/

theorem runSchema_complete (src : Nat) (inp : Bytes) (ts o : List Tok) (htok : tokensOf inp = some ts)
    (hd : D (.nt .typeSystemDocument) ts o) :
    ∃ d, Result.ofRun (runSchema 0 src inp) = .ok d ∧ printSchema d = o ∧ SchemaDoc.nonEmpty d ∧ DocAll SItem.enumOK d := by
  have hok := tsOK_of_tokensOf htok
  obtain ⟨parts, hne, rfl, rfl, hp⟩ := hd.nt_inv.plus_parts
  obtain ⟨t, hteof, hst⟩ := starts_of_tokensOf htok
  have hloop := cpl_schemaDocLoop (fuelFor inp) parts (fun p hpm => ⟨hok.of_flatMap p hpm, hp p hpm⟩) (fuelFor inp)
    SchemaDoc.empty
  have hrun : Fwd (parseSchemaDocument (fuelFor inp)) (abs (PState.init src inp)) (fun d a' =>
      (∃ items : List SItem, d = items.foldl SchemaDoc.add SchemaDoc.empty ∧
        items.flatMap (fun it => (sItem it).2) = parts.flatMap (·.2) ∧
        HeadsOf (abs (PState.init src inp)).σ (items.map fun it => (sItem it).1) ∧ items.length = parts.length ∧
        ∀ it ∈ items, it.enumOK) ∧
      a'.σ = .eof t) := by
    unfold parseSchemaDocument
    refine Fwd.bind (fwd_peekPos _) ?_
    rintro _ a1 rfl
    exact hloop _ (.eof t) (by simpa [abs_init] using hst) hteof
  obtain ⟨hl, _, ⟨items, e1, e2, ⟨hs, hsub, hkeys⟩, elen, hen⟩, _⟩ :=
    hrun (PState.init src inp) (WF.init src inp) (by simp [dead, PState.init]) rfl (runSchema_oof 0 src inp)
  have hofrun : Result.ofRun (runSchema 0 src inp) = .ok (runSchema 0 src inp).1 := ofRun_ok.2 ⟨live_oof hl, live_err hl, rfl⟩
  have hd0 : (runSchema 0 src inp).1 = items.foldl SchemaDoc.add SchemaDoc.empty := e1
  have hsorted : (items.map fun it => (sItem it).1).Pairwise (· < ·) := by
    rw [hkeys, List.pairwise_map]
    rw [abs_init] at hsub
    simp only at hsub
    have h1 : (rawS inp Cur.init).sig.toks.Pairwise (fun a b => a.start < b.start) := by
      rw [Stream.sig_toks]; exact (rawS_sorted inp Cur.init).2.sublist List.filter_sublist
    exact h1.sublist hsub
  have hperm : (docItems (runSchema 0 src inp).1).Perm (items.map sItem) := by
    rw [hd0]; simpa [docItems_empty] using docItems_foldl items SchemaDoc.empty
  have hitems : items ≠ [] := by
    intro h; rw [h] at elen
    exact hne (List.eq_nil_of_length_eq_zero elen.symm)
  refine ⟨_, hofrun, ?_, ?_, ?_⟩
  rotate_left 2
  · rw [hd0]; exact (DocAll.foldl items SchemaDoc.empty).2 ⟨DocAll.empty _, hen⟩
  · rw [printSchema_eq, inSourceOrder_sorted hperm (by simpa [List.pairwise_map] using hsorted), ← e2]
    simp [List.flatMap_def, List.map_map, Function.comp_def]
  · rw [nonEmpty_iff_docItems]
    intro h
    have := hperm.length_eq
    rw [h] at this
    cases items with
    | nil => exact hitems rfl
    | cons _ _ => simp at this

/-- **completeness of `ParseSchema`, with the canonical form**: if the token sequence of `inp` is
    derivable from the type-system document grammar with canonical output `o`, the parser accepts
    `inp` with a non-empty document whose unparse is `o` -/
theorem parseSchema_complete (src : Nat) (b : Bool) (inp : Bytes) (ts o : List Tok) (htok : tokensOf inp = some ts)
    (hd : D (.nt .typeSystemDocument) ts o) :
    ∃ d, parseSchemaSrc 0 src b inp = .ok d ∧ printSchema d = o ∧ SchemaDoc.nonEmpty d ∧ DocAll SItem.enumOK d := by
  obtain ⟨d0, h1, h2, h3, h4⟩ := runSchema_complete src inp ts o htok hd
  refine ⟨setBuiltIn b d0, parseSchemaSrc_ok.2 ⟨d0, h1, rfl⟩, ?_, ?_, ?_⟩
  rotate_left 2
  · obtain ⟨g1, g2, g3, g4, g5⟩ := h4
    refine ⟨g1, g2, g3, ?_, ?_⟩
    · intro x hx
      simp only [setBuiltIn, List.mem_map] at hx
      obtain ⟨y, hy, rfl⟩ := hx
      exact g4 y hy
    · intro x hx
      simp only [setBuiltIn, List.mem_map] at hx
      obtain ⟨y, hy, rfl⟩ := hx
      exact g5 y hy
  · rw [printSchema_eq, docItems_setBuiltIn, ← printSchema_eq]; exact h2
  · rw [nonEmpty_iff_docItems, docItems_setBuiltIn, ← nonEmpty_iff_docItems]; exact h3

end Gql.Parser
