import GqlProofs.Parser.CompleteQuery
import GqlProofs.Parser.FwdSchema
/-
  Completeness of the schema parser, driven by derivations (the type-system counterpart of
  `CompleteQuery.lean`): if a stream starts with a token list that the grammar derives from a
  nonterminal of the type-system grammar (with canonical output `o`), the run of the corresponding
  parser program ends live, consumes exactly those tokens, and the unparse of its result is `o`.
-/
namespace Gql.Parser
open Gql Gql.Lexer Gql.Grammar Gql.Print

local notation "D" => Derives gql

/-! ### descriptions -/

theorem inv_optDescription {ts o : List Tok} (h : D (.opt (.nt .description)) ts o) :
    (ts = [] ∧ o = []) ∨ ∃ t, ts = [t] ∧ (t.kind = .string ∨ t.kind = .blockString) ∧ o = printDesc t.value := by
  rcases h.opt_inv with h | h
  · exact .inl h
  · obtain ⟨o', rfl, h'⟩ := h.nt_inv.canon_inv
    obtain ⟨t, rfl, rfl, hp⟩ := h'.tok_inv
    simp only [Bool.or_eq_true, beq_iff_eq] at hp
    exact .inr ⟨t, rfl, hp, by simp [canonDescription, printDesc]⟩

theorem cpl_description (ts o : List Tok) (hd : D (.opt (.nt .description)) ts o) (a : AS) (σ' : Stream)
    (hs : Starts a.σ ts σ') (hfol : ts = [] → NoDesc σ') :
    Fwd parseDescription a (fun d a' => printDesc d = o ∧ a'.σ = σ') := by
  unfold parseDescription
  refine Fwd.bind (fwd_peek a) ?_
  rintro token a1 ⟨rfl, rfl⟩
  rcases inv_optDescription hd with ⟨rfl, rfl⟩ | ⟨t, rfl, hk, rfl⟩
  · rw [Starts.nil_iff] at hs
    obtain ⟨f1, f2⟩ := hfol rfl
    refine Fwd.ite_pos ⟨by rw [hs]; exact f2, by rw [hs]; exact f1⟩ ((Fwd.pure _ _).mono ?_)
    rintro x a' ⟨rfl, rfl⟩
    exact ⟨rfl, hs⟩
  · obtain ⟨u, hσ, hu⟩ := hs.single
    have hku : a.σ.head.kind = t.kind := by rw [hσ]; exact ofToken_kind hu
    refine Fwd.ite_neg (by rw [hku]; rcases hk with h | h <;> simp [h])
      (Fwd.bind (fwd_next (a := { pk := true, σ := a.σ, cnt := a.cnt }) rfl hσ) ?_)
    rintro t' a2 ⟨rfl, rfl⟩
    refine (Fwd.pure _ _).mono ?_
    rintro x a' ⟨rfl, rfl⟩
    exact ⟨by rw [ofToken_value hu], rfl⟩

theorem cpl_optionalDescription (ts o : List Tok) (hd : D (.opt (.nt .description)) ts o) (a : AS) (σ' : Stream)
    (hs : Starts a.σ ts σ') (hfol : ts = [] → NoDesc σ') :
    Fwd parseOptionalDescription a (fun x a' => printDesc x.1 = o ∧ (x.2 = true → ts ≠ []) ∧ a'.σ = σ') := by
  unfold parseOptionalDescription
  refine Fwd.bind (fwd_peek a) ?_
  rintro x a1 ⟨rfl, rfl⟩
  have hdesc := cpl_description ts o hd { pk := true, σ := a.σ, cnt := a.cnt } σ' (by simpa using hs) hfol
  rcases inv_optDescription hd with ⟨rfl, rfl⟩ | ⟨t, rfl, hk, rfl⟩
  · have hs0 := hs
    rw [Starts.nil_iff] at hs0
    obtain ⟨f1, f2⟩ := hfol rfl
    refine Fwd.ite_neg (by rw [hs0]; exact f2) (Fwd.bind (fwd_peek _) ?_)
    rintro y a2 ⟨rfl, rfl⟩
    refine Fwd.ite_neg (by simp only; rw [hs0]; exact f1) ((Fwd.pure _ _).mono ?_)
    rintro r a' ⟨rfl, rfl⟩
    exact ⟨rfl, fun h => (by cases h), by simp [hs0]⟩
  · have hku : a.σ.head.kind = t.kind := hs.head_kind
    rcases hk with h | h
    · refine Fwd.ite_neg (by rw [hku, h]; decide) (Fwd.bind (fwd_peek _) ?_)
      rintro y a2 ⟨rfl, rfl⟩
      refine Fwd.ite_pos (by simp only; rw [hku, h]) (Fwd.bind (by simpa using hdesc) ?_)
      rintro x a3 ⟨hx, hσ⟩
      exact (Fwd.pure _ _).mono fun _ _ hh => ⟨by rw [hh.1]; exact hx, fun _ => by simp, by rw [hh.2, hσ]⟩
    · refine Fwd.ite_pos (by rw [hku, h]) (Fwd.bind hdesc ?_)
      rintro x a3 ⟨hx, hσ⟩
      exact (Fwd.pure _ _).mono fun _ _ hh => ⟨by rw [hh.1]; exact hx, fun _ => by simp, by rw [hh.2, hσ]⟩

/-! ### separated lists of names -/

theorem sep_parts {sep : Kind} {P : Name → Prop} : ∀ (parts : List (List Tok × List Tok)),
    (∀ p ∈ parts, ∃ m, p.1 = [tP sep, tName m] ∧ p.2 = [tP sep, tName m] ∧ P m) →
    ∃ rest : List Name, parts.flatMap (·.1) = rest.flatMap (fun m => [tP sep, tName m]) ∧
      parts.flatMap (·.2) = rest.flatMap (fun m => [tP sep, tName m]) ∧ ∀ m ∈ rest, P m
  | [], _ => ⟨[], rfl, rfl, fun _ h => by cases h⟩
  | p :: ps, h => by
    obtain ⟨m, e1, e2, hm⟩ := h p (by simp)
    obtain ⟨rest, r1, r2, r3⟩ := sep_parts ps (fun q hq => h q (by simp [hq]))
    refine ⟨m :: rest, by simp [e1, r1], by simp [e2, r2], ?_⟩
    intro x hx
    rcases List.mem_cons.1 hx with rfl | hx
    · exact hm
    · exact r3 x hx

theorem inv_noiseOpt {sep : Kind} {ts o : List Tok} (h : D (noise (.opt (Grammar.kind sep))) ts o) (hok : TsOK ts)
    (hv : sep.valued = false) : o = [] ∧ (ts = [] ∨ ts = [tP sep]) := by
  obtain ⟨o', rfl, h'⟩ := (show D (.canon (fun _ => []) (.opt (Grammar.kind sep))) ts o from h).canon_inv
  refine ⟨rfl, ?_⟩
  rcases h'.opt_inv with ⟨h, _⟩ | h
  · exact .inl h
  · exact .inr (punct_inv h hok hv).1

/-- `sep? item (sep item)*` where an item is one Name token -/
theorem inv_sepList {sep : Kind} {item : Sym NT} {P : Name → Prop} (hv : sep.valued = false)
    (hitem : ∀ ts o, D item ts o → ∃ m, ts = [tName m] ∧ o = [tName m] ∧ P m) {ts o : List Tok}
    (h : D (.seq (noise (.opt (Grammar.kind sep))) (.seq item (.star (.seq (Grammar.kind sep) item)))) ts o) (hok : TsOK ts) :
    ∃ lead first rest, (lead = [] ∨ lead = [tP sep]) ∧
      ts = lead ++ tName first :: rest.flatMap (fun m => [tP sep, tName m]) ∧ o = printSep sep (first :: rest) ∧
      P first ∧ ∀ m ∈ rest, P m := by
  obtain ⟨t1, t2, o1, o2, rfl, rfl, d1, d2⟩ := h.seq_inv'
  obtain ⟨t3, t4, o3, o4, rfl, rfl, d3, d4⟩ := d2.seq_inv'
  obtain ⟨rfl, hlead⟩ := inv_noiseOpt d1 hok.left hv
  obtain ⟨first, rfl, rfl, hfirst⟩ := hitem _ _ d3
  obtain ⟨parts, rfl, rfl, hp⟩ := d4.star_parts
  have hokp : ∀ p ∈ parts, TsOK p.1 := hok.right.right.of_flatMap
  obtain ⟨rest, r1, r2, r3⟩ := sep_parts (sep := sep) (P := P) parts (fun p hpm => by
    obtain ⟨s1, s2, p1, p2, h1, h2, e1, e2⟩ := (hp p hpm).seq_inv'
    obtain ⟨m, rfl, rfl, hm⟩ := hitem _ _ e2
    have hk := hokp p hpm
    rw [h1] at hk
    obtain ⟨rfl, rfl⟩ := punct_inv e1 hk.left hv
    exact ⟨m, h1, h2, hm⟩)
  exact ⟨t1, first, rest, hlead, by rw [r1]; simp, by rw [r2, printSep_cons]; simp, hfirst, r3⟩

theorem cpl_sepList (sep : Kind) {item : Prog Name} (lead : List Tok) (hlead : lead = [] ∨ lead = [tP sep]) (first : Name)
    (rest : List Name)
    (hitem : ∀ m ∈ first :: rest, ∀ a σ1, Starts a.σ [tName m] σ1 → Fwd item a (fun x a' => x = m ∧ a'.σ = σ1))
    (hsepname : sep ≠ .name) (n : Nat) (a : AS) (σ' : Stream)
    (hs : Starts a.σ (lead ++ tName first :: rest.flatMap (fun m => [tP sep, tName m])) σ') (hfol : σ'.head.kind ≠ sep) :
    Fwd (do let _ ← skip sep; let f ← item; let more ← sepLoop sep item n [f]; pure more.reverse) a
      (fun xs a' => xs = first :: rest ∧ a'.σ = σ') := by
  have tail : ∀ (b : AS), Starts b.σ (tName first :: rest.flatMap (fun m => [tP sep, tName m])) σ' →
      Fwd (do let f ← item; let more ← sepLoop sep item n [f]; pure more.reverse) b
        (fun xs a' => xs = first :: rest ∧ a'.σ = σ') := by
    intro b hb
    obtain ⟨σ1, h1, h2⟩ := hb.cons_single
    refine Fwd.bind (hitem first (by simp) b σ1 h1) ?_
    rintro x a2 ⟨rfl, hσ2⟩
    refine Fwd.bind (fwd_sepLoop sep rest (fun z hz => hitem z (by simp [hz])) n [x] a2 σ' (by rw [hσ2]; exact h2) hfol) ?_
    rintro xs a3 ⟨rfl, hσ⟩
    exact (Fwd.pure _ _).mono fun _ _ h => ⟨by rw [h.1]; simp, by rw [h.2, hσ]⟩
  rcases hlead with rfl | rfl
  · rw [List.nil_append] at hs
    refine Fwd.bind (fwd_skipP_no sep (by rw [hs.head_kind]; exact fun h => hsepname h.symm)) ?_
    rintro b a1 ⟨rfl, hσ1⟩
    exact tail a1 (by rw [hσ1]; exact hs)
  · obtain ⟨σ0, h0, hs'⟩ := (show Starts a.σ (tP sep :: (tName first :: rest.flatMap (fun m => [tP sep, tName m]))) σ' from hs).cons_single
    refine Fwd.bind (fwd_skipP_yes sep h0) ?_
    rintro b a1 ⟨rfl, hσ1⟩
    exact tail a1 (by rw [hσ1]; exact hs')

/-! ### implements, union members, directive locations -/

theorem inv_optImplements {ts o : List Tok} (h : D (.opt (.nt .implementsInterfaces)) ts o) (hok : TsOK ts) :
    (ts = [] ∧ o = []) ∨ ∃ lead first rest, (lead = [] ∨ lead = [tP .amp]) ∧
      ts = tKw "implements" :: (lead ++ tName first :: rest.flatMap (fun m => [tP .amp, tName m])) ∧
      o = printImplements (first :: rest) := by
  rcases h.opt_inv with h | h
  · exact .inl h
  · obtain ⟨t1, t2, o1, o2, rfl, rfl, d1, d2⟩ := h.nt_inv.seq_inv'
    obtain ⟨rfl, rfl⟩ := kw_inv d1
    obtain ⟨lead, first, rest, hl, rfl, rfl, _, _⟩ := inv_sepList (P := fun _ => True) (sep := .amp) rfl
      (fun ts o h => by obtain ⟨m, e1, e2⟩ := inv_namedType h; exact ⟨m, e1, e2, trivial⟩) d2 hok.right
    exact .inr ⟨lead, first, rest, hl, rfl, by simp [printImplements]⟩

theorem cpl_implements (n : Nat) (ts o : List Tok) (hok : TsOK ts) (hd : D (.opt (.nt .implementsInterfaces)) ts o) (a : AS)
    (σ' : Stream) (hs : Starts a.σ ts σ') (hfol : σ'.head.kind ≠ .amp) (hfol0 : ts = [] → NoImplements σ') :
    Fwd (parseImplementsInterfaces n) a (fun xs a' => printImplements xs = o ∧ a'.σ = σ') := by
  unfold parseImplementsInterfaces
  refine Fwd.bind (fwd_peek a) ?_
  rintro t a1 ⟨rfl, rfl⟩
  rcases inv_optImplements hd hok with ⟨rfl, rfl⟩ | ⟨lead, first, rest, hl, rfl, rfl⟩
  · rw [Starts.nil_iff] at hs
    refine Fwd.ite_neg (by rw [hs]; exact hfol0 rfl) ((Fwd.pure _ _).mono ?_)
    rintro xs a' ⟨rfl, rfl⟩
    exact ⟨rfl, hs⟩
  · obtain ⟨σ1, h1, h2⟩ := hs.cons_single
    obtain ⟨u, hσ, hu⟩ := h1.single
    refine Fwd.ite_pos ⟨by rw [hσ]; exact ofToken_kind hu, by rw [hσ]; exact ofToken_value hu⟩
      (Fwd.bind (fwd_next (a := { pk := true, σ := a.σ, cnt := a.cnt }) rfl hσ) ?_)
    rintro _ a2 ⟨_, rfl⟩
    refine (cpl_sepList .amp lead hl first rest (fun m _ a0 σ0 h => fwd_parseName m h) (by decide) n _ σ' (by simpa using h2) hfol).mono ?_
    rintro xs a' ⟨rfl, hσ'⟩
    exact ⟨rfl, hσ'⟩

theorem inv_optMembers {ts o : List Tok} (h : D (.opt (.nt .unionMemberTypes)) ts o) (hok : TsOK ts) :
    (ts = [] ∧ o = []) ∨ ∃ lead first rest, (lead = [] ∨ lead = [tP .pipe]) ∧
      ts = tP .equals :: (lead ++ tName first :: rest.flatMap (fun m => [tP .pipe, tName m])) ∧
      o = printMembers (first :: rest) := by
  rcases h.opt_inv with h | h
  · exact .inl h
  · obtain ⟨t1, t2, o1, o2, rfl, rfl, d1, d2⟩ := h.nt_inv.seq_inv'
    obtain ⟨rfl, rfl⟩ := punct_inv d1 hok.left rfl
    obtain ⟨lead, first, rest, hl, rfl, rfl, _, _⟩ := inv_sepList (P := fun _ => True) (sep := .pipe) rfl
      (fun ts o h => by obtain ⟨m, e1, e2⟩ := inv_namedType h; exact ⟨m, e1, e2, trivial⟩) d2 hok.right
    exact .inr ⟨lead, first, rest, hl, rfl, by simp [printMembers]⟩

theorem cpl_unionMembers (n : Nat) (ts o : List Tok) (hok : TsOK ts) (hd : D (.opt (.nt .unionMemberTypes)) ts o) (a : AS)
    (σ' : Stream) (hs : Starts a.σ ts σ') (hfol : σ'.head.kind ≠ .pipe) (hfol0 : ts = [] → σ'.head.kind ≠ .equals) :
    Fwd (parseUnionMemberTypes n) a (fun xs a' => printMembers xs = o ∧ a'.σ = σ') := by
  unfold parseUnionMemberTypes
  rcases inv_optMembers hd hok with ⟨rfl, rfl⟩ | ⟨lead, first, rest, hl, rfl, rfl⟩
  · rw [Starts.nil_iff] at hs
    refine Fwd.bind (fwd_skipP_no .equals (by rw [hs]; exact hfol0 rfl)) ?_
    rintro b a1 ⟨rfl, hσ⟩
    refine Fwd.ite_neg (by simp) ((Fwd.pure _ _).mono ?_)
    rintro xs a' ⟨rfl, rfl⟩
    exact ⟨rfl, by rw [hσ, hs]⟩
  · obtain ⟨σ1, h1, h2⟩ := hs.cons_single
    refine Fwd.bind (fwd_skipP_yes .equals h1) ?_
    rintro b a1 ⟨rfl, hσ1⟩
    refine Fwd.ite_pos rfl ?_
    refine (cpl_sepList .pipe lead hl first rest (fun m _ a0 σ0 h => fwd_parseName m h) (by decide) n _ σ' (by rw [hσ1]; exact h2) hfol).mono ?_
    rintro xs a' ⟨rfl, hσ'⟩
    exact ⟨rfl, hσ'⟩

theorem inv_directiveLocation {ts o : List Tok} (h : D (.nt .directiveLocation) ts o) :
    ∃ m, ts = [tName m] ∧ o = [tName m] ∧ m ∈ Gql.Grammar.directiveLocationNames := by
  obtain ⟨t, rfl, rfl, hp⟩ := h.nt_inv.tok_inv
  simp only [Bool.and_eq_true, beq_iff_eq] at hp
  refine ⟨t.value, ?_, ?_, List.contains_iff_mem.1 hp.2⟩ <;> (cases t; simp_all [tName])

theorem cpl_directiveLocations (n : Nat) (ts o : List Tok) (hok : TsOK ts) (hd : D (.nt .directiveLocations) ts o) (a : AS)
    (σ' : Stream) (hs : Starts a.σ ts σ') (hfol : σ'.head.kind ≠ .pipe) :
    Fwd (parseDirectiveLocations n) a (fun xs a' => printSep .pipe xs = o ∧ a'.σ = σ') := by
  obtain ⟨lead, first, rest, hl, rfl, rfl, h1, h2⟩ := inv_sepList (P := fun m => m ∈ Gql.Grammar.directiveLocationNames)
    (sep := .pipe) rfl (fun ts o h => inv_directiveLocation h) hd.nt_inv hok
  unfold parseDirectiveLocations
  refine (cpl_sepList .pipe lead hl first rest (fun m hm a0 σ0 h => fwd_directiveLocation m (by
    rcases List.mem_cons.1 hm with rfl | hm
    · exact h1
    · exact h2 m hm) a0 σ0 h) (by decide) n a σ' hs hfol).mono ?_
  rintro xs a' ⟨rfl, hσ'⟩
  exact ⟨rfl, hσ'⟩

end Gql.Parser
