import GqlProofs.Parser.CompleteTop
import GqlProofs.Parser.FwdSchema
/-
  Completeness of the schema parser, driven by derivations (the type-system counterpart of
  `CompleteQuery.lean`): if a stream starts with a token list that the grammar derives from a
  nonterminal of the type-system grammar (with canonical output `o`), the run of the corresponding
  parser program ends live, consumes exactly those tokens, and the unparse of its result is `o`.
-/
namespace Gql.Parser
open Gql Gql.Lexer Gql.Grammar Gql.Print

local notation "D" => Derives gql

/-! ### descriptions -/

theorem inv_optDescription {ts o : List Tok} (h : D (.opt (.nt .description)) ts o) :
    (ts = [] ∧ o = []) ∨ ∃ t, ts = [t] ∧ (t.kind = .string ∨ t.kind = .blockString) ∧ o = printDesc t.value := by
  rcases h.opt_inv with h | h
  · exact .inl h
  · obtain ⟨o', rfl, h'⟩ := h.nt_inv.canon_inv
    obtain ⟨t, rfl, rfl, hp⟩ := h'.tok_inv
    simp only [Bool.or_eq_true, beq_iff_eq] at hp
    exact .inr ⟨t, rfl, hp, by simp [canonDescription, printDesc]⟩

theorem cpl_description (ts o : List Tok) (hd : D (.opt (.nt .description)) ts o) (a : AS) (σ' : Stream)
    (hs : Starts a.σ ts σ') (hfol : ts = [] → NoDesc σ') :
    Fwd parseDescription a (fun d a' => printDesc d = o ∧ a'.σ = σ') := by
  unfold parseDescription
  refine Fwd.bind (fwd_peek a) ?_
  rintro token a1 ⟨rfl, rfl⟩
  rcases inv_optDescription hd with ⟨rfl, rfl⟩ | ⟨t, rfl, hk, rfl⟩
  · rw [Starts.nil_iff] at hs
    obtain ⟨f1, f2⟩ := hfol rfl
    refine Fwd.ite_pos ⟨by rw [hs]; exact f2, by rw [hs]; exact f1⟩ ((Fwd.pure _ _).mono ?_)
    rintro x a' ⟨rfl, rfl⟩
    exact ⟨rfl, hs⟩
  · obtain ⟨u, hσ, hu⟩ := hs.single
    have hku : a.σ.head.kind = t.kind := by rw [hσ]; exact ofToken_kind hu
    refine Fwd.ite_neg (by rw [hku]; rcases hk with h | h <;> simp [h])
      (Fwd.bind (fwd_next (a := { pk := true, σ := a.σ, cnt := a.cnt }) rfl hσ) ?_)
    rintro t' a2 ⟨rfl, rfl⟩
    refine (Fwd.pure _ _).mono ?_
    rintro x a' ⟨rfl, rfl⟩
    exact ⟨by rw [ofToken_value hu], rfl⟩

theorem cpl_optionalDescription (ts o : List Tok) (hd : D (.opt (.nt .description)) ts o) (a : AS) (σ' : Stream)
    (hs : Starts a.σ ts σ') (hfol : ts = [] → NoDesc σ') :
    Fwd parseOptionalDescription a (fun x a' => printDesc x.1 = o ∧ (x.2 = true → ts ≠ []) ∧ a'.σ = σ') := by
  unfold parseOptionalDescription
  refine Fwd.bind (fwd_peek a) ?_
  rintro x a1 ⟨rfl, rfl⟩
  have hdesc := cpl_description ts o hd { pk := true, σ := a.σ, cnt := a.cnt } σ' (by simpa using hs) hfol
  rcases inv_optDescription hd with ⟨rfl, rfl⟩ | ⟨t, rfl, hk, rfl⟩
  · have hs0 := hs
    rw [Starts.nil_iff] at hs0
    obtain ⟨f1, f2⟩ := hfol rfl
    refine Fwd.ite_neg (by rw [hs0]; exact f2) (Fwd.bind (fwd_peek _) ?_)
    rintro y a2 ⟨rfl, rfl⟩
    refine Fwd.ite_neg (by simp only; rw [hs0]; exact f1) ((Fwd.pure _ _).mono ?_)
    rintro r a' ⟨rfl, rfl⟩
    exact ⟨rfl, fun h => (by cases h), by simp [hs0]⟩
  · have hku : a.σ.head.kind = t.kind := hs.head_kind
    rcases hk with h | h
    · refine Fwd.ite_neg (by rw [hku, h]; decide) (Fwd.bind (fwd_peek _) ?_)
      rintro y a2 ⟨rfl, rfl⟩
      refine Fwd.ite_pos (by simp only; rw [hku, h]) (Fwd.bind (by simpa using hdesc) ?_)
      rintro x a3 ⟨hx, hσ⟩
      exact (Fwd.pure _ _).mono fun _ _ hh => ⟨by rw [hh.1]; exact hx, fun _ => by simp, by rw [hh.2, hσ]⟩
    · refine Fwd.ite_pos (by rw [hku, h]) (Fwd.bind hdesc ?_)
      rintro x a3 ⟨hx, hσ⟩
      exact (Fwd.pure _ _).mono fun _ _ hh => ⟨by rw [hh.1]; exact hx, fun _ => by simp, by rw [hh.2, hσ]⟩

/-! ### separated lists of names -/

theorem sep_parts {sep : Kind} {P : Name → Prop} : ∀ (parts : List (List Tok × List Tok)),
    (∀ p ∈ parts, ∃ m, p.1 = [tP sep, tName m] ∧ p.2 = [tP sep, tName m] ∧ P m) →
    ∃ rest : List Name, parts.flatMap (·.1) = rest.flatMap (fun m => [tP sep, tName m]) ∧
      parts.flatMap (·.2) = rest.flatMap (fun m => [tP sep, tName m]) ∧ ∀ m ∈ rest, P m
  | [], _ => ⟨[], rfl, rfl, fun _ h => by cases h⟩
  | p :: ps, h => by
    obtain ⟨m, e1, e2, hm⟩ := h p (by simp)
    obtain ⟨rest, r1, r2, r3⟩ := sep_parts ps (fun q hq => h q (by simp [hq]))
    refine ⟨m :: rest, by simp [e1, r1], by simp [e2, r2], ?_⟩
    intro x hx
    rcases List.mem_cons.1 hx with rfl | hx
    · exact hm
    · exact r3 x hx

theorem inv_noiseOpt {sep : Kind} {ts o : List Tok} (h : D (noise (.opt (Grammar.kind sep))) ts o) (hok : TsOK ts)
    (hv : sep.valued = false) : o = [] ∧ (ts = [] ∨ ts = [tP sep]) := by
  obtain ⟨o', rfl, h'⟩ := (show D (.canon (fun _ => []) (.opt (Grammar.kind sep))) ts o from h).canon_inv
  refine ⟨rfl, ?_⟩
  rcases h'.opt_inv with ⟨h, _⟩ | h
  · exact .inl h
  · exact .inr (punct_inv h hok hv).1

/-- `sep? item (sep item)*` where an item is one Name token -/
theorem inv_sepList {sep : Kind} {item : Sym NT} {P : Name → Prop} (hv : sep.valued = false)
    (hitem : ∀ ts o, D item ts o → ∃ m, ts = [tName m] ∧ o = [tName m] ∧ P m) {ts o : List Tok}
    (h : D (.seq (noise (.opt (Grammar.kind sep))) (.seq item (.star (.seq (Grammar.kind sep) item)))) ts o) (hok : TsOK ts) :
    ∃ lead first rest, (lead = [] ∨ lead = [tP sep]) ∧
      ts = lead ++ tName first :: rest.flatMap (fun m => [tP sep, tName m]) ∧ o = printSep sep (first :: rest) ∧
      P first ∧ ∀ m ∈ rest, P m := by
  obtain ⟨t1, t2, o1, o2, rfl, rfl, d1, d2⟩ := h.seq_inv'
  obtain ⟨t3, t4, o3, o4, rfl, rfl, d3, d4⟩ := d2.seq_inv'
  obtain ⟨rfl, hlead⟩ := inv_noiseOpt d1 hok.left hv
  obtain ⟨first, rfl, rfl, hfirst⟩ := hitem _ _ d3
  obtain ⟨parts, rfl, rfl, hp⟩ := d4.star_parts
  have hokp : ∀ p ∈ parts, TsOK p.1 := hok.right.right.of_flatMap
  obtain ⟨rest, r1, r2, r3⟩ := sep_parts (sep := sep) (P := P) parts (fun p hpm => by
    obtain ⟨s1, s2, p1, p2, h1, h2, e1, e2⟩ := (hp p hpm).seq_inv'
    obtain ⟨m, rfl, rfl, hm⟩ := hitem _ _ e2
    have hk := hokp p hpm
    rw [h1] at hk
    obtain ⟨rfl, rfl⟩ := punct_inv e1 hk.left hv
    exact ⟨m, h1, h2, hm⟩)
  exact ⟨t1, first, rest, hlead, by rw [r1]; simp, by rw [r2, printSep_cons]; simp, hfirst, r3⟩

theorem cpl_sepList (sep : Kind) {item : Prog Name} (lead : List Tok) (hlead : lead = [] ∨ lead = [tP sep]) (first : Name)
    (rest : List Name)
    (hitem : ∀ m ∈ first :: rest, ∀ a σ1, Starts a.σ [tName m] σ1 → Fwd item a (fun x a' => x = m ∧ a'.σ = σ1))
    (hsepname : sep ≠ .name) (n : Nat) (a : AS) (σ' : Stream)
    (hs : Starts a.σ (lead ++ tName first :: rest.flatMap (fun m => [tP sep, tName m])) σ') (hfol : σ'.head.kind ≠ sep) :
    Fwd (do let _ ← skip sep; let f ← item; let more ← sepLoop sep item n [f]; pure more.reverse) a
      (fun xs a' => xs = first :: rest ∧ a'.σ = σ') := by
  have tail : ∀ (b : AS), Starts b.σ (tName first :: rest.flatMap (fun m => [tP sep, tName m])) σ' →
      Fwd (do let f ← item; let more ← sepLoop sep item n [f]; pure more.reverse) b
        (fun xs a' => xs = first :: rest ∧ a'.σ = σ') := by
    intro b hb
    obtain ⟨σ1, h1, h2⟩ := hb.cons_single
    refine Fwd.bind (hitem first (by simp) b σ1 h1) ?_
    rintro x a2 ⟨rfl, hσ2⟩
    refine Fwd.bind (fwd_sepLoop sep rest (fun z hz => hitem z (by simp [hz])) n [x] a2 σ' (by rw [hσ2]; exact h2) hfol) ?_
    rintro xs a3 ⟨rfl, hσ⟩
    exact (Fwd.pure _ _).mono fun _ _ h => ⟨by rw [h.1]; simp, by rw [h.2, hσ]⟩
  rcases hlead with rfl | rfl
  · rw [List.nil_append] at hs
    refine Fwd.bind (fwd_skipP_no sep (by rw [hs.head_kind]; exact fun h => hsepname h.symm)) ?_
    rintro b a1 ⟨rfl, hσ1⟩
    exact tail a1 (by rw [hσ1]; exact hs)
  · obtain ⟨σ0, h0, hs'⟩ := (show Starts a.σ (tP sep :: (tName first :: rest.flatMap (fun m => [tP sep, tName m]))) σ' from hs).cons_single
    refine Fwd.bind (fwd_skipP_yes sep h0) ?_
    rintro b a1 ⟨rfl, hσ1⟩
    exact tail a1 (by rw [hσ1]; exact hs')

/-! ### implements, union members, directive locations -/

theorem inv_implements {ts o : List Tok} (h : D (.nt .implementsInterfaces) ts o) (hok : TsOK ts) :
    ∃ lead first rest, (lead = [] ∨ lead = [tP .amp]) ∧
      ts = tKw "implements" :: (lead ++ tName first :: rest.flatMap (fun m => [tP .amp, tName m])) ∧
      o = printImplements (first :: rest) := by
  obtain ⟨t1, t2, o1, o2, rfl, rfl, d1, d2⟩ := h.nt_inv.seq_inv'
  obtain ⟨rfl, rfl⟩ := kw_inv d1
  obtain ⟨lead, first, rest, hl, rfl, rfl, _, _⟩ := inv_sepList (P := fun _ => True) (sep := .amp) rfl
    (fun ts o h => by obtain ⟨m, e1, e2⟩ := inv_namedType h; exact ⟨m, e1, e2, trivial⟩) d2 hok.right
  exact ⟨lead, first, rest, hl, rfl, by simp [printImplements]⟩

theorem inv_optImplements {ts o : List Tok} (h : D (.opt (.nt .implementsInterfaces)) ts o) (hok : TsOK ts) :
    (ts = [] ∧ o = []) ∨ ∃ lead first rest, (lead = [] ∨ lead = [tP .amp]) ∧
      ts = tKw "implements" :: (lead ++ tName first :: rest.flatMap (fun m => [tP .amp, tName m])) ∧
      o = printImplements (first :: rest) :=
  h.opt_inv.imp id fun h => inv_implements h hok

theorem cpl_implements (n : Nat) (ts o : List Tok) (hok : TsOK ts) (hd : D (.opt (.nt .implementsInterfaces)) ts o) (a : AS)
    (σ' : Stream) (hs : Starts a.σ ts σ') (hfol : σ'.head.kind ≠ .amp) (hfol0 : ts = [] → NoImplements σ') :
    Fwd (parseImplementsInterfaces n) a (fun xs a' => printImplements xs = o ∧ a'.σ = σ') := by
  unfold parseImplementsInterfaces
  refine Fwd.bind (fwd_peek a) ?_
  rintro t a1 ⟨rfl, rfl⟩
  rcases inv_optImplements hd hok with ⟨rfl, rfl⟩ | ⟨lead, first, rest, hl, rfl, rfl⟩
  · rw [Starts.nil_iff] at hs
    refine Fwd.ite_neg (by rw [hs]; exact hfol0 rfl) ((Fwd.pure _ _).mono ?_)
    rintro xs a' ⟨rfl, rfl⟩
    exact ⟨rfl, hs⟩
  · obtain ⟨σ1, h1, h2⟩ := hs.cons_single
    obtain ⟨u, hσ, hu⟩ := h1.single
    refine Fwd.ite_pos ⟨by rw [hσ]; exact ofToken_kind hu, by rw [hσ]; exact ofToken_value hu⟩
      (Fwd.bind (fwd_next (a := { pk := true, σ := a.σ, cnt := a.cnt }) rfl hσ) ?_)
    rintro _ a2 ⟨_, rfl⟩
    refine (cpl_sepList .amp lead hl first rest (fun m _ a0 σ0 h => fwd_parseName m h) (by decide) n _ σ' (by simpa using h2) hfol).mono ?_
    rintro xs a' ⟨rfl, hσ'⟩
    exact ⟨rfl, hσ'⟩

theorem inv_members {ts o : List Tok} (h : D (.nt .unionMemberTypes) ts o) (hok : TsOK ts) :
    ∃ lead first rest, (lead = [] ∨ lead = [tP .pipe]) ∧
      ts = tP .equals :: (lead ++ tName first :: rest.flatMap (fun m => [tP .pipe, tName m])) ∧
      o = printMembers (first :: rest) := by
  obtain ⟨t1, t2, o1, o2, rfl, rfl, d1, d2⟩ := h.nt_inv.seq_inv'
  obtain ⟨rfl, rfl⟩ := punct_inv d1 hok.left rfl
  obtain ⟨lead, first, rest, hl, rfl, rfl, _, _⟩ := inv_sepList (P := fun _ => True) (sep := .pipe) rfl
    (fun ts o h => by obtain ⟨m, e1, e2⟩ := inv_namedType h; exact ⟨m, e1, e2, trivial⟩) d2 hok.right
  exact ⟨lead, first, rest, hl, rfl, by simp [printMembers]⟩

theorem inv_optMembers {ts o : List Tok} (h : D (.opt (.nt .unionMemberTypes)) ts o) (hok : TsOK ts) :
    (ts = [] ∧ o = []) ∨ ∃ lead first rest, (lead = [] ∨ lead = [tP .pipe]) ∧
      ts = tP .equals :: (lead ++ tName first :: rest.flatMap (fun m => [tP .pipe, tName m])) ∧
      o = printMembers (first :: rest) :=
  h.opt_inv.imp id fun h => inv_members h hok

theorem cpl_unionMembers (n : Nat) (ts o : List Tok) (hok : TsOK ts) (hd : D (.opt (.nt .unionMemberTypes)) ts o) (a : AS)
    (σ' : Stream) (hs : Starts a.σ ts σ') (hfol : σ'.head.kind ≠ .pipe) (hfol0 : ts = [] → σ'.head.kind ≠ .equals) :
    Fwd (parseUnionMemberTypes n) a (fun xs a' => printMembers xs = o ∧ a'.σ = σ') := by
  unfold parseUnionMemberTypes
  rcases inv_optMembers hd hok with ⟨rfl, rfl⟩ | ⟨lead, first, rest, hl, rfl, rfl⟩
  · rw [Starts.nil_iff] at hs
    refine Fwd.bind (fwd_skipP_no .equals (by rw [hs]; exact hfol0 rfl)) ?_
    rintro b a1 ⟨rfl, hσ⟩
    refine Fwd.ite_neg (by simp) ((Fwd.pure _ _).mono ?_)
    rintro xs a' ⟨rfl, rfl⟩
    exact ⟨rfl, by rw [hσ, hs]⟩
  · obtain ⟨σ1, h1, h2⟩ := hs.cons_single
    refine Fwd.bind (fwd_skipP_yes .equals h1) ?_
    rintro b a1 ⟨rfl, hσ1⟩
    refine Fwd.ite_pos rfl ?_
    refine (cpl_sepList .pipe lead hl first rest (fun m _ a0 σ0 h => fwd_parseName m h) (by decide) n _ σ' (by rw [hσ1]; exact h2) hfol).mono ?_
    rintro xs a' ⟨rfl, hσ'⟩
    exact ⟨rfl, hσ'⟩

theorem inv_directiveLocation {ts o : List Tok} (h : D (.nt .directiveLocation) ts o) :
    ∃ m, ts = [tName m] ∧ o = [tName m] ∧ m ∈ Gql.Grammar.directiveLocationNames := by
  obtain ⟨t, rfl, rfl, hp⟩ := h.nt_inv.tok_inv
  simp only [Bool.and_eq_true, beq_iff_eq] at hp
  refine ⟨t.value, ?_, ?_, List.contains_iff_mem.1 hp.2⟩ <;> (cases t; simp_all [tName])

theorem cpl_directiveLocations (n : Nat) (ts o : List Tok) (hok : TsOK ts) (hd : D (.nt .directiveLocations) ts o) (a : AS)
    (σ' : Stream) (hs : Starts a.σ ts σ') (hfol : σ'.head.kind ≠ .pipe) :
    Fwd (parseDirectiveLocations n) a (fun xs a' => printSep .pipe xs = o ∧ a'.σ = σ') := by
  obtain ⟨lead, first, rest, hl, rfl, rfl, h1, h2⟩ := inv_sepList (P := fun m => m ∈ Gql.Grammar.directiveLocationNames)
    (sep := .pipe) rfl (fun ts o h => inv_directiveLocation h) hd.nt_inv hok
  unfold parseDirectiveLocations
  refine (cpl_sepList .pipe lead hl first rest (fun m hm a0 σ0 h => fwd_directiveLocation m (by
    rcases List.mem_cons.1 hm with rfl | hm
    · exact h1
    · exact h2 m hm) a0 σ0 h) (by decide) n a σ' hs hfol).mono ?_
  rintro xs a' ⟨rfl, hσ'⟩
  exact ⟨rfl, hσ'⟩

/-! ### optional bracketed blocks -/

theorem All₂.imp {α ι : Type} {R S : α → ι → Prop} {ys : List α} {xs : List ι} (h : All₂ R ys xs)
    (hi : ∀ y x, R y x → S y x) : All₂ S ys xs := by
  induction h with
  | nil => exact .nil
  | cons h1 _ ih => exact .cons (hi _ _ h1) ih

theorem All₂.forall_left {α ι : Type} {R : α → ι → Prop} {Q : α → Prop} {ys : List α} {xs : List ι} (h : All₂ R ys xs)
    (hi : ∀ y x, R y x → Q y) : ∀ y ∈ ys, Q y := by
  induction h with
  | nil => intro y hy; cases hy
  | cons h1 _ ih =>
    intro y hy
    rcases List.mem_cons.1 hy with rfl | hy
    · exact hi _ _ h1
    · exact ih y hy

/-- `( item+ )?` / `{ item+ }?` through `pSome`; `Q` is a property of the parsed items -/
theorem cpl_optBlockQ {α : Type} (item : Sym NT) (pr : α → List Tok) (Q : α → Prop) (Fol : Stream → Prop) (FolTok : Tok → Prop)
    (start stop : Kind) (h1 : start.valued = false) (h2 : stop.valued = false) {cb : Prog α}
    (hcb : ∀ ts o, TsOK ts → D item ts o → ∀ a σ1, Starts a.σ ts σ1 → Fol σ1 →
      Fwd cb a (fun y a' => (pr y = o ∧ Q y) ∧ a'.σ = σ1))
    (hstart : ∀ ts o, TsOK ts → D item ts o → ∃ t rest, ts = t :: rest ∧ t.kind ≠ stop ∧ FolTok t)
    (hfol : ∀ σ1, (σ1.head.kind = stop ∨ FolTok (Tok.ofToken σ1.head)) → Fol σ1)
    (n : Nat) (ts o : List Tok) (hok : TsOK ts)
    (hd : (ts = [] ∧ o = []) ∨ D (.seq (Grammar.kind start) (.seq (.plus item) (Grammar.kind stop))) ts o)
    (a : AS) (σ' : Stream) (hs : Starts a.σ ts σ') (habs : ts = [] → σ'.head.kind ≠ start) :
    Fwd (pSome start stop n cb) a
      (fun ys a' => (if ys.isEmpty then [] else tP start :: ys.flatMap pr ++ [tP stop]) = o ∧ (∀ y ∈ ys, Q y) ∧ a'.σ = σ') := by
  rcases hd with ⟨rfl, rfl⟩ | hd
  · rw [Starts.nil_iff] at hs
    refine (fwd_bracket_absent start stop n a (by rw [hs]; exact habs rfl)).2.mono ?_
    rintro ys a' ⟨rfl, hσ⟩
    exact ⟨rfl, (fun _ h => by cases h), by rw [hσ, hs]⟩
  · obtain ⟨parts, hne, rfl, rfl, hp⟩ := inv_block hd hok h1 h2
    have hokp : ∀ p ∈ parts, TsOK p.1 := (hok.tail.left).of_flatMap
    refine ((fwd_bracketG (·.1) (fun (y : α) (p : List Tok × List Tok) => pr y = p.2 ∧ Q y) Fol start stop parts
      (fun p hpm a0 σ1 hst hf => hcb p.1 p.2 (hokp p hpm) (hp p hpm) a0 σ1 hst hf)
      (fun p hpm => by
        obtain ⟨t, rest, e, hk, _⟩ := hstart p.1 p.2 (hokp p hpm) (hp p hpm)
        exact ⟨t, rest, e, hk⟩)
      (fun σ1 h => hfol σ1 (by
        rcases h with h | ⟨p, hpm, t, rest, e, ht⟩
        · exact .inl h
        · obtain ⟨t', rest', e', _, hf⟩ := hstart p.1 p.2 (hokp p hpm) (hp p hpm)
          rw [e] at e'
          rw [ht, (List.cons.inj e').1]
          exact .inr hf))
      n a σ' (tP start) (tP stop) rfl rfl (by simpa using hs)).2 hne).mono ?_
    rintro ys a' ⟨hy, hσ⟩
    refine ⟨?_, hy.forall_left fun _ _ h => h.2, hσ⟩
    have hyne := all₂_ne hy hne
    have : ys.isEmpty = false := by cases ys <;> simp_all
    rw [this, flatMap_forall₂ (P := pr) (g := fun (p : List Tok × List Tok) => p.2) (hy.imp fun _ _ h => h.1)]
    simp

theorem cpl_optBlock {α : Type} (item : Sym NT) (pr : α → List Tok) (Fol : Stream → Prop) (FolTok : Tok → Prop)
    (start stop : Kind) (h1 : start.valued = false) (h2 : stop.valued = false) {cb : Prog α}
    (hcb : ∀ ts o, TsOK ts → D item ts o → ∀ a σ1, Starts a.σ ts σ1 → Fol σ1 → Fwd cb a (fun y a' => pr y = o ∧ a'.σ = σ1))
    (hstart : ∀ ts o, TsOK ts → D item ts o → ∃ t rest, ts = t :: rest ∧ t.kind ≠ stop ∧ FolTok t)
    (hfol : ∀ σ1, (σ1.head.kind = stop ∨ FolTok (Tok.ofToken σ1.head)) → Fol σ1)
    (n : Nat) (ts o : List Tok) (hok : TsOK ts)
    (hd : (ts = [] ∧ o = []) ∨ D (.seq (Grammar.kind start) (.seq (.plus item) (Grammar.kind stop))) ts o)
    (a : AS) (σ' : Stream) (hs : Starts a.σ ts σ') (habs : ts = [] → σ'.head.kind ≠ start) :
    Fwd (pSome start stop n cb) a
      (fun ys a' => (if ys.isEmpty then [] else tP start :: ys.flatMap pr ++ [tP stop]) = o ∧ a'.σ = σ') :=
  (cpl_optBlockQ item pr (fun _ => True) Fol FolTok start stop h1 h2
    (fun ts o hok hd a σ1 hs hf => (hcb ts o hok hd a σ1 hs hf).mono fun _ _ h => ⟨⟨h.1, trivial⟩, h.2⟩)
    hstart hfol n ts o hok hd a σ' hs habs).mono fun _ _ h => ⟨h.1, h.2.2⟩

/-- the first token of a described item `Description? Name …` -/
def DescOrName (t : Tok) : Prop := t.kind = .string ∨ t.kind = .blockString ∨ t.kind = .name

theorem first_described {tD oD : List Tok} (hD : D (.opt (.nt .description)) tD oD) (nm : Name) (r : List Tok) :
    ∃ t rest, tD ++ tName nm :: r = t :: rest ∧ DescOrName t := by
  rcases inv_optDescription hD with ⟨rfl, _⟩ | ⟨t, rfl, hk, _⟩
  · exact ⟨_, _, rfl, .inr (.inr rfl)⟩
  · exact ⟨t, _, rfl, by rcases hk with h | h <;> simp [DescOrName, h]⟩

theorem folArg_of_descOrName {σ1 : Stream} (h : σ1.head.kind = .parenR ∨ σ1.head.kind = .braceR ∨ DescOrName (Tok.ofToken σ1.head)) :
    FolArg σ1 := by
  have e : (Tok.ofToken σ1.head).kind = σ1.head.kind := rfl
  rcases h with h | h | h | h | h
  · simp [FolArg, h]
  · simp [FolArg, h]
  · rw [e] at h; simp [FolArg, h]
  · rw [e] at h; simp [FolArg, h]
  · rw [e] at h; simp [FolArg, h]

theorem noDesc_of_name {σ σ' : Stream} {nm : Name} {r : List Tok} (h : Starts σ (tName nm :: r) σ') : NoDesc σ := by
  have := h.head_kind
  simp only [tName] at this
  exact ⟨by rw [this]; decide, by rw [this]; decide⟩

/-! ### input value definitions -/

theorem inv_inputValue {ts o : List Tok} (h : D (.nt .inputValueDefinition) ts o) (hok : TsOK ts) :
    ∃ tD oD nm tt ot tdv odv tds ods, ts = tD ++ tName nm :: tP .colon :: (tt ++ (tdv ++ tds)) ∧
      o = oD ++ tName nm :: tP .colon :: (ot ++ (odv ++ ods)) ∧ D (.opt (.nt .description)) tD oD ∧ D (.nt .typ) tt ot ∧
      D (.opt (.nt .defaultValue)) tdv odv ∧ D (.opt (.nt (.directives true))) tds ods := by
  obtain ⟨t1, t2, o1, o2, rfl, rfl, d1, d2⟩ := h.nt_inv.seq_inv'
  obtain ⟨t3, t4, o3, o4, rfl, rfl, d3, d4⟩ := d2.seq_inv'
  obtain ⟨t5, t6, o5, o6, rfl, rfl, d5, d6⟩ := d4.seq_inv'
  obtain ⟨t7, t8, o7, o8, rfl, rfl, d7, d8⟩ := d6.seq_inv'
  obtain ⟨t9, t10, o9, o10, rfl, rfl, d9, d10⟩ := d8.seq_inv'
  obtain ⟨nm, rfl, rfl⟩ := name_inv d3
  obtain ⟨rfl, rfl⟩ := punct_inv d5 hok.right.right.left rfl
  exact ⟨t1, o1, nm, t7, o7, t9, o9, t10, o10, by simp, by simp, d1, d7, d9, d10⟩

/-- the common tail `: Type DefaultValue? Directives?` -/
theorem cpl_inputTail (n : Nat) (tt ot tdv odv tds ods : List Tok) (hok : TsOK (tt ++ (tdv ++ tds))) (dt : D (.nt .typ) tt ot)
    (ddv : D (.opt (.nt .defaultValue)) tdv odv) (dds : D (.opt (.nt (.directives true))) tds ods) (a : AS) (σ' : Stream)
    (hs : Starts a.σ (tP .colon :: (tt ++ (tdv ++ tds))) σ') (hfol : FolArg σ')
    {β : Type} (mk : GType → Option Value → List Directive → β) (R : β → Prop)
    (hR : ∀ ty dv ds, printType ty = ot → printDefault dv = odv → printDirectives ds = ods → R (mk ty dv ds)) :
    Fwd (do
      let _ ← expect .colon
      let ty ← parseTypeReference n
      let dv ← do
        if ← skip .equals then
          let v ← parseValueLiteral n true
          pure (Option.some v)
        else pure none
      let dirs ← parseDirectives n true
      pure (mk ty dv dirs)) a (fun y a' => R y ∧ a'.σ = σ') := by
  obtain ⟨f1, f2, f3, f4⟩ := hfol
  have hokt : TsOK tt := hok.left
  have hokdv : TsOK tdv := hok.right.left
  have hokds : TsOK tds := hok.right.right
  obtain ⟨σ2, h2, hs⟩ := hs.cons_single
  rw [Starts.append_iff] at hs
  obtain ⟨σ3, h3, hs⟩ := hs
  rw [Starts.append_iff] at hs
  obtain ⟨σ4, h4, h5⟩ := hs
  have k5 := h5.firstKind
  have k5' := firstKind_optDirectives dds hokds σ'.head.kind
  have hσ4k : σ4.head.kind ≠ .bang ∧ σ4.head.kind ≠ .equals := by
    rw [k5]; rcases k5' with h | h <;> rw [h]
    · exact ⟨f1, f2⟩
    · exact ⟨by decide, by decide⟩
  refine Fwd.bind (fwd_punct .colon h2) ?_
  rintro _ b3 hσ3
  have hdirs : ∀ (b : AS), b.σ = σ4 → Fwd (parseDirectives n true) b (fun ds a' => printDirectives ds = ods ∧ a'.σ = σ') :=
    fun b hb => cpl_directives true n tds ods hokds dds b σ' (by rw [hb]; exact h5) f3 f4
  rcases inv_optDefault ddv hokdv with ⟨rfl, rfl⟩ | ⟨tv, ov, rfl, rfl, dv⟩
  · rw [Starts.nil_iff] at h4
    subst h4
    refine Fwd.bind (cpl_type n tt ot hokt dt b3 σ3 (by rw [hσ3]; exact h3) hσ4k.1) ?_
    rintro ty' b4 ⟨hty, hσ4⟩
    refine Fwd.bind (fwd_skipP_no .equals (by rw [hσ4]; exact hσ4k.2)) ?_
    rintro b b5 ⟨rfl, hσ5⟩
    refine Fwd.ite_neg (by simp) (Fwd.bind (Fwd.pure none _) ?_)
    rintro dv b6 ⟨rfl, rfl⟩
    refine Fwd.bind (hdirs _ (by rw [hσ5, hσ4])) ?_
    rintro ds' b7 ⟨hds, hσ⟩
    refine (Fwd.pure _ _).mono ?_
    rintro y b8 ⟨rfl, rfl⟩
    exact ⟨hR _ _ _ hty rfl hds, hσ⟩
  · obtain ⟨σe, he, hv⟩ := h4.cons_single
    refine Fwd.bind (cpl_type n tt ot hokt dt b3 σ3 (by rw [hσ3]; exact h3) (by rw [h4.head_kind]; simp [tP])) ?_
    rintro ty' b4 ⟨hty, hσ4⟩
    refine Fwd.bind (fwd_skipP_yes .equals (by rw [hσ4]; exact he)) ?_
    rintro b b5 ⟨rfl, hσ5⟩
    refine Fwd.ite_pos rfl (Fwd.bind (cpl_value true n tv ov hokdv.tail dv b5 σ4 (by rw [hσ5]; exact hv)) ?_)
    rintro v' b6 ⟨hv', hσ6⟩
    refine Fwd.bind (Fwd.pure (Option.some v') _) ?_
    rintro dv' b7 ⟨rfl, rfl⟩
    refine Fwd.bind (hdirs _ hσ6) ?_
    rintro ds' b8 ⟨hds, hσ⟩
    refine (Fwd.pure _ _).mono ?_
    rintro y b9 ⟨rfl, rfl⟩
    exact ⟨hR _ _ _ hty (by simp [printDefault, hv']) hds, hσ⟩

theorem cpl_argDef (n : Nat) (ts o : List Tok) (hok : TsOK ts) (hd : D (.nt .inputValueDefinition) ts o) (a : AS) (σ' : Stream)
    (hs : Starts a.σ ts σ') (hfol : FolArg σ') :
    Fwd (parseArgumentDef n) a (fun y a' => printArgDef y = o ∧ a'.σ = σ') := by
  obtain ⟨tD, oD, nm, tt, ot, tdv, odv, tds, ods, rfl, rfl, dD, dt, ddv, dds⟩ := inv_inputValue hd hok
  rw [Starts.append_iff] at hs
  obtain ⟨σ1, h1, hs⟩ := hs
  obtain ⟨σ2, h2, h3⟩ := hs.cons_single
  unfold parseArgumentDef
  refine Fwd.bind (fwd_peekPos _) ?_
  rintro pos b1 rfl
  refine Fwd.bind (cpl_description tD oD dD _ σ1 (by simpa using h1) (fun _ => noDesc_of_name hs)) ?_
  rintro desc b2 ⟨hdesc, hσ2⟩
  refine Fwd.bind (fwd_peek b2) ?_
  rintro _ b3 ⟨_, rfl⟩
  refine Fwd.bind (fwd_parseName nm (by simpa [hσ2] using h2)) ?_
  rintro nm' b4 ⟨rfl, hσ4⟩
  exact cpl_inputTail n tt ot tdv odv tds ods hok.right.tail.tail dt ddv dds b4 σ' (by rw [hσ4]; exact h3) hfol
    (fun ty dv dirs => ({ desc := desc, name := nm', default := dv, type := ty, dirs := dirs, pos := pos } : ArgDef))
    (fun y => printArgDef y = oD ++ tName nm' :: tP .colon :: (ot ++ (odv ++ ods)))
    (fun ty dv ds e1 e2 e3 => by simp [printArgDef, hdesc, e1, e2, e3])

theorem cpl_inputField (n : Nat) (ts o : List Tok) (hok : TsOK ts) (hd : D (.nt .inputValueDefinition) ts o) (a : AS) (σ' : Stream)
    (hs : Starts a.σ ts σ') (hfol : FolArg σ') :
    Fwd (parseInputValueDef n) a (fun y a' => printInputField y = o ∧ a'.σ = σ') := by
  obtain ⟨tD, oD, nm, tt, ot, tdv, odv, tds, ods, rfl, rfl, dD, dt, ddv, dds⟩ := inv_inputValue hd hok
  rw [Starts.append_iff] at hs
  obtain ⟨σ1, h1, hs⟩ := hs
  obtain ⟨σ2, h2, h3⟩ := hs.cons_single
  unfold parseInputValueDef
  refine Fwd.bind (fwd_peekPos _) ?_
  rintro pos b1 rfl
  refine Fwd.bind (cpl_description tD oD dD _ σ1 (by simpa using h1) (fun _ => noDesc_of_name hs)) ?_
  rintro desc b2 ⟨hdesc, hσ2⟩
  refine Fwd.bind (fwd_peek b2) ?_
  rintro _ b3 ⟨_, rfl⟩
  refine Fwd.bind (fwd_parseName nm (by simpa [hσ2] using h2)) ?_
  rintro nm' b4 ⟨rfl, hσ4⟩
  exact cpl_inputTail n tt ot tdv odv tds ods hok.right.tail.tail dt ddv dds b4 σ' (by rw [hσ4]; exact h3) hfol
    (fun ty dv dirs => ({ desc := desc, name := nm', args := [], default := dv, type := ty, dirs := dirs, pos := pos } : FieldDef))
    (fun y => printInputField y = oD ++ tName nm' :: tP .colon :: (ot ++ (odv ++ ods)))
    (fun ty dv ds e1 e2 e3 => by simp [printInputField, hdesc, e1, e2, e3])

theorem first_inputValue (ts o : List Tok) (hok : TsOK ts) (hd : D (.nt .inputValueDefinition) ts o) (stop : Kind)
    (hstop : stop = .parenR ∨ stop = .braceR) : ∃ t rest, ts = t :: rest ∧ t.kind ≠ stop ∧ DescOrName t := by
  obtain ⟨tD, oD, nm, tt, ot, tdv, odv, tds, ods, rfl, _, dD, _⟩ := inv_inputValue hd hok
  obtain ⟨t, rest, e, hk⟩ := first_described dD nm (tP .colon :: (tt ++ (tdv ++ tds)))
  refine ⟨t, rest, e, ?_, hk⟩
  rcases hk with h | h | h <;> rcases hstop with rfl | rfl <;> simp [h]

/-- `ArgumentsDefinition?` -/
theorem cpl_argDefs (n : Nat) (ts o : List Tok) (hok : TsOK ts) (hd : D (.opt (.nt .argumentsDefinition)) ts o) (a : AS)
    (σ' : Stream) (hs : Starts a.σ ts σ') (habs : ts = [] → σ'.head.kind ≠ .parenL) :
    Fwd (parseArgumentDefs n) a (fun ys a' => printArgDefs ys = o ∧ a'.σ = σ') := by
  unfold parseArgumentDefs
  exact cpl_optBlock (.nt .inputValueDefinition) printArgDef FolArg DescOrName .parenL .parenR rfl rfl
    (fun ts o hok hd a σ1 hs hf => cpl_argDef n ts o hok hd a σ1 hs hf)
    (fun ts o hok hd => first_inputValue ts o hok hd .parenR (.inl rfl))
    (fun σ1 h => folArg_of_descOrName (by rcases h with h | h; exact .inl h; exact .inr (.inr h)))
    n ts o hok (hd.opt_inv.imp id fun h => h.nt_inv) a σ' hs habs

/-- `InputFieldsDefinition?` -/
theorem cpl_inputFields (n : Nat) (ts o : List Tok) (hok : TsOK ts) (hd : D (.opt (.nt .inputFieldsDefinition)) ts o) (a : AS)
    (σ' : Stream) (hs : Starts a.σ ts σ') (habs : ts = [] → σ'.head.kind ≠ .braceL) :
    Fwd (parseInputFieldsDefinition n) a (fun ys a' => printBlock printInputField ys = o ∧ a'.σ = σ') := by
  unfold parseInputFieldsDefinition
  exact cpl_optBlock (.nt .inputValueDefinition) printInputField FolArg DescOrName .braceL .braceR rfl rfl
    (fun ts o hok hd a σ1 hs hf => cpl_inputField n ts o hok hd a σ1 hs hf)
    (fun ts o hok hd => first_inputValue ts o hok hd .braceR (.inr rfl))
    (fun σ1 h => folArg_of_descOrName (by rcases h with h | h; exact .inr (.inl h); exact .inr (.inr h)))
    n ts o hok (hd.opt_inv.imp id fun h => h.nt_inv) a σ' hs habs

/-! ### field definitions -/

theorem inv_fieldDef {ts o : List Tok} (h : D (.nt .fieldDefinition) ts o) (hok : TsOK ts) :
    ∃ tD oD nm ta oa tt ot tds ods, ts = tD ++ tName nm :: (ta ++ tP .colon :: (tt ++ tds)) ∧
      o = oD ++ tName nm :: (oa ++ tP .colon :: (ot ++ ods)) ∧ D (.opt (.nt .description)) tD oD ∧
      D (.opt (.nt .argumentsDefinition)) ta oa ∧ D (.nt .typ) tt ot ∧ D (.opt (.nt (.directives true))) tds ods := by
  obtain ⟨t1, t2, o1, o2, rfl, rfl, d1, d2⟩ := h.nt_inv.seq_inv'
  obtain ⟨t3, t4, o3, o4, rfl, rfl, d3, d4⟩ := d2.seq_inv'
  obtain ⟨t5, t6, o5, o6, rfl, rfl, d5, d6⟩ := d4.seq_inv'
  obtain ⟨t7, t8, o7, o8, rfl, rfl, d7, d8⟩ := d6.seq_inv'
  obtain ⟨t9, t10, o9, o10, rfl, rfl, d9, d10⟩ := d8.seq_inv'
  obtain ⟨nm, rfl, rfl⟩ := name_inv d3
  obtain ⟨rfl, rfl⟩ := punct_inv d7 hok.right.right.right.left rfl
  exact ⟨t1, o1, nm, t5, o5, t9, o9, t10, o10, by simp, by simp, d1, d5, d9, d10⟩

theorem cpl_fieldDef (n : Nat) (ts o : List Tok) (hok : TsOK ts) (hd : D (.nt .fieldDefinition) ts o) (a : AS) (σ' : Stream)
    (hs : Starts a.σ ts σ') (hfol : FolArg σ') :
    Fwd (parseFieldDefinition n) a (fun y a' => printFieldDef y = o ∧ a'.σ = σ') := by
  obtain ⟨f1, f2, f3, f4⟩ := hfol
  obtain ⟨tD, oD, nm, ta, oa, tt, ot, tds, ods, rfl, rfl, dD, da, dt, dds⟩ := inv_fieldDef hd hok
  have hokr := hok.right.tail
  rw [Starts.append_iff] at hs
  obtain ⟨σ1, h1, hs⟩ := hs
  obtain ⟨σ2, h2, hs3⟩ := hs.cons_single
  rw [Starts.append_iff] at hs3
  obtain ⟨σ3, h3, hs4⟩ := hs3
  obtain ⟨σ4, h4, hs5⟩ := hs4.cons_single
  rw [Starts.append_iff] at hs5
  obtain ⟨σ5, h5, h6⟩ := hs5
  have k6 := h6.firstKind
  have k6' := firstKind_optDirectives dds hokr.right.tail.right σ'.head.kind
  unfold parseFieldDefinition
  refine Fwd.bind (fwd_peekPos _) ?_
  rintro pos b1 rfl
  refine Fwd.bind (cpl_description tD oD dD _ σ1 (by simpa using h1) (fun _ => noDesc_of_name hs)) ?_
  rintro desc b2 ⟨hdesc, hσ2⟩
  refine Fwd.bind (fwd_peek b2) ?_
  rintro _ b3 ⟨_, rfl⟩
  refine Fwd.bind (fwd_parseName nm (by simpa [hσ2] using h2)) ?_
  rintro nm' b4 ⟨rfl, hσ4⟩
  refine Fwd.bind (cpl_argDefs n ta oa hokr.left da b4 σ3 (by rw [hσ4]; exact h3) (fun _ => by
    rw [hs4.head_kind]; simp [tP])) ?_
  rintro as' b5 ⟨has, hσ5⟩
  refine Fwd.bind (fwd_punct .colon (by rw [hσ5]; exact h4)) ?_
  rintro _ b6 hσ6
  refine Fwd.bind (cpl_type n tt ot hokr.right.tail.left dt b6 σ5 (by rw [hσ6]; exact h5) (by
    rw [k6]; rcases k6' with h | h <;> rw [h]
    · exact f1
    · decide)) ?_
  rintro ty' b7 ⟨hty, hσ7⟩
  refine Fwd.bind (cpl_directives true n tds ods hokr.right.tail.right dds b7 σ' (by rw [hσ7]; exact h6) f3 f4) ?_
  rintro ds' b8 ⟨hds, hσ⟩
  refine (Fwd.pure _ _).mono ?_
  rintro y b9 ⟨rfl, rfl⟩
  exact ⟨by simp [printFieldDef, hdesc, has, hty, hds], hσ⟩

/-- `FieldsDefinition?` -/
theorem cpl_fieldDefs (n : Nat) (ts o : List Tok) (hok : TsOK ts) (hd : D (.opt (.nt .fieldsDefinition)) ts o) (a : AS)
    (σ' : Stream) (hs : Starts a.σ ts σ') (habs : ts = [] → σ'.head.kind ≠ .braceL) :
    Fwd (parseFieldsDefinition n) a (fun ys a' => printBlock printFieldDef ys = o ∧ a'.σ = σ') := by
  unfold parseFieldsDefinition
  exact cpl_optBlock (.nt .fieldDefinition) printFieldDef FolArg DescOrName .braceL .braceR rfl rfl
    (fun ts o hok hd a σ1 hs hf => cpl_fieldDef n ts o hok hd a σ1 hs hf)
    (fun ts o hok hd => by
      obtain ⟨tD, oD, nm, ta, oa, tt, ot, tds, ods, rfl, _, dD, _⟩ := inv_fieldDef hd hok
      obtain ⟨t, rest, e, hk⟩ := first_described dD nm (ta ++ tP .colon :: (tt ++ tds))
      exact ⟨t, rest, e, by rcases hk with h | h | h <;> simp [h], hk⟩)
    (fun σ1 h => folArg_of_descOrName (by rcases h with h | h; exact .inr (.inl h); exact .inr (.inr h)))
    n ts o hok (hd.opt_inv.imp id fun h => h.nt_inv) a σ' hs habs

/-! ### enum values -/

theorem inv_enumVal {ts o : List Tok} (h : D (.nt .enumValueDefinition) ts o) :
    ∃ tD oD nm tds ods, ts = tD ++ tName nm :: tds ∧ o = oD ++ tName nm :: ods ∧ D (.opt (.nt .description)) tD oD ∧
      D (.opt (.nt (.directives true))) tds ods ∧ notLiteralName nm := by
  obtain ⟨t1, t2, o1, o2, rfl, rfl, d1, d2⟩ := h.nt_inv.seq_inv'
  obtain ⟨t3, t4, o3, o4, rfl, rfl, d3, d4⟩ := d2.seq_inv'
  obtain ⟨t, rfl, rfl, hp⟩ := d3.nt_inv.tok_inv
  simp only [Bool.and_eq_true, beq_iff_eq] at hp
  have : t = tName t.value := by cases t; simp_all [tName]
  rw [this]
  refine ⟨t1, o1, t.value, t4, o4, by simp, by simp, d1, d4, ?_⟩
  have h2 := hp.2
  simp only [Bool.not_eq_true', List.contains_eq_mem, List.mem_cons, List.not_mem_nil, or_false, decide_eq_false_iff_not,
    not_or] at h2
  exact h2

theorem cpl_enumVal (n : Nat) (ts o : List Tok) (hok : TsOK ts) (hd : D (.nt .enumValueDefinition) ts o) (a : AS) (σ' : Stream)
    (hs : Starts a.σ ts σ') (hfol : FolArg σ') :
    Fwd (parseEnumValueDefinition n) a (fun y a' => (printEnumVal y = o ∧ notLiteralName y.name) ∧ a'.σ = σ') := by
  obtain ⟨f1, f2, f3, f4⟩ := hfol
  obtain ⟨tD, oD, nm, tds, ods, rfl, rfl, dD, dds, hlit⟩ := inv_enumVal hd
  rw [Starts.append_iff] at hs
  obtain ⟨σ1, h1, hs⟩ := hs
  obtain ⟨σ2, h2, h3⟩ := hs.cons_single
  unfold parseEnumValueDefinition
  refine Fwd.bind (fwd_peekPos _) ?_
  rintro pos b1 rfl
  refine Fwd.bind (cpl_description tD oD dD _ σ1 (by simpa using h1) (fun _ => noDesc_of_name hs)) ?_
  rintro desc b2 ⟨hdesc, hσ2⟩
  refine Fwd.bind (fwd_peek b2) ?_
  rintro _ b3 ⟨_, rfl⟩
  refine Fwd.bind (fwd_parseName nm (by simpa [hσ2] using h2)) ?_
  rintro nm' b4 ⟨rfl, hσ4⟩
  refine Fwd.bind (cpl_directives true n tds ods hok.right.tail dds b4 σ' (by rw [hσ4]; exact h3) f3 f4) ?_
  rintro ds' b5 ⟨hds, hσ⟩
  refine (Fwd.pure _ _).mono ?_
  rintro y b6 ⟨rfl, rfl⟩
  exact ⟨⟨by simp [printEnumVal, hdesc, hds], hlit⟩, hσ⟩

/-- `EnumValuesDefinition?` -/
theorem cpl_enumVals (n : Nat) (ts o : List Tok) (hok : TsOK ts) (hd : D (.opt (.nt .enumValuesDefinition)) ts o) (a : AS)
    (σ' : Stream) (hs : Starts a.σ ts σ') (habs : ts = [] → σ'.head.kind ≠ .braceL) :
    Fwd (parseEnumValuesDefinition n) a (fun ys a' => printBlock printEnumVal ys = o ∧
      (∀ e ∈ ys, notLiteralName e.name) ∧ a'.σ = σ') := by
  unfold parseEnumValuesDefinition
  exact cpl_optBlockQ (.nt .enumValueDefinition) printEnumVal (fun e => notLiteralName e.name) FolArg DescOrName .braceL .braceR rfl rfl
    (fun ts o hok hd a σ1 hs hf => cpl_enumVal n ts o hok hd a σ1 hs hf)
    (fun ts o hok hd => by
      obtain ⟨tD, oD, nm, tds, ods, rfl, _, dD, _, _⟩ := inv_enumVal hd
      obtain ⟨t, rest, e, hk⟩ := first_described dD nm tds
      exact ⟨t, rest, e, by rcases hk with h | h | h <;> simp [h], hk⟩)
    (fun σ1 h => folArg_of_descOrName (by rcases h with h | h; exact .inr (.inl h); exact .inr (.inr h)))
    n ts o hok (hd.opt_inv.imp id fun h => h.nt_inv) a σ' hs habs

/-! ### root operation types -/

theorem inv_opTypeDef {ts o : List Tok} (h : D (.nt .rootOperationTypeDefinition) ts o) (hok : TsOK ts) :
    ∃ op ty, (op = str "query" ∨ op = str "mutation" ∨ op = str "subscription") ∧ ts = [tName op, tP .colon, tName ty] ∧
      o = [tName op, tP .colon, tName ty] := by
  obtain ⟨t1, t2, o1, o2, rfl, rfl, d1, d2⟩ := h.nt_inv.seq_inv'
  obtain ⟨t3, t4, o3, o4, rfl, rfl, d3, d4⟩ := d2.seq_inv'
  obtain ⟨op, hop, rfl, rfl⟩ := inv_operationType d1
  obtain ⟨rfl, rfl⟩ := punct_inv d3 hok.right.left rfl
  obtain ⟨ty, rfl, rfl⟩ := inv_namedType d4
  exact ⟨op, ty, hop, rfl, rfl⟩

theorem cpl_opTypeDef (ts o : List Tok) (hok : TsOK ts) (hd : D (.nt .rootOperationTypeDefinition) ts o) (a : AS) (σ' : Stream)
    (hs : Starts a.σ ts σ') : Fwd parseOperationTypeDefinition a (fun y a' => printOpType y = o ∧ a'.σ = σ') := by
  obtain ⟨op, ty, hop, rfl, rfl⟩ := inv_opTypeDef hd hok
  obtain ⟨σ1, h1, hs⟩ := hs.cons_single
  obtain ⟨σ2, h2, h3⟩ := hs.cons_single
  obtain ⟨u, hσu, hu⟩ := h1.single
  unfold parseOperationTypeDefinition
  refine Fwd.bind (fwd_peekPos _) ?_
  rintro pos b1 rfl
  refine Fwd.bind (fwd_parseOperationType (a := { pk := true, σ := a.σ, cnt := a.cnt }) rfl hσu hu hop) ?_
  rintro op' b2 ⟨rfl, hσ2⟩
  refine Fwd.bind (fwd_punct .colon (by rw [hσ2]; exact h2)) ?_
  rintro _ b3 hσ3
  refine Fwd.bind (fwd_parseName ty (by rw [hσ3]; exact h3)) ?_
  rintro ty' b4 ⟨rfl, hσ⟩
  refine (Fwd.pure _ _).mono ?_
  rintro y b5 ⟨rfl, rfl⟩
  exact ⟨rfl, hσ⟩

/-- `{ RootOperationTypeDefinition+ }?` -/
theorem cpl_opTypes (n : Nat) (ts o : List Tok) (hok : TsOK ts)
    (hd : (ts = [] ∧ o = []) ∨ D (.seq (Grammar.kind .braceL) (.seq (.plus (.nt .rootOperationTypeDefinition)) (Grammar.kind .braceR))) ts o)
    (a : AS) (σ' : Stream) (hs : Starts a.σ ts σ') (habs : ts = [] → σ'.head.kind ≠ .braceL) :
    Fwd (pSome .braceL .braceR n parseOperationTypeDefinition) a (fun ys a' => printBlock printOpType ys = o ∧ a'.σ = σ') :=
  cpl_optBlock (.nt .rootOperationTypeDefinition) printOpType (fun _ => True) (fun _ => True) .braceL .braceR rfl rfl
    (fun ts o hok hd a σ1 hs _ => cpl_opTypeDef ts o hok hd a σ1 hs)
    (fun ts o hok hd => by
      obtain ⟨op, ty, _, rfl, _⟩ := inv_opTypeDef hd hok
      exact ⟨_, _, rfl, by simp [tName], trivial⟩)
    (fun _ _ => trivial) n ts o hok hd a σ' hs habs

/-! ### what a token list starts with; conditions on the token ahead -/

def StartsWith (ks : List Kind) (ts : List Tok) : Prop := ts = [] ∨ ∃ t rest, ts = t :: rest ∧ t.kind ∈ ks

theorem StartsWith.append {ks : List Kind} {a b : List Tok} (ha : StartsWith ks a) (hb : StartsWith ks b) :
    StartsWith ks (a ++ b) := by
  rcases ha with rfl | ⟨t, rest, rfl, hk⟩
  · simpa using hb
  · exact .inr ⟨t, rest ++ b, rfl, hk⟩

theorem StartsWith.mono {ks ks' : List Kind} {ts : List Tok} (h : StartsWith ks ts) (hsub : ∀ k ∈ ks, k ∈ ks') :
    StartsWith ks' ts := by
  rcases h with rfl | ⟨t, rest, rfl, hk⟩
  · exact .inl rfl
  · exact .inr ⟨t, rest, rfl, hsub _ hk⟩

/-- a condition on the token ahead holds in front of `ts` when it holds behind `ts` and for every
    token `ts` may start with -/
theorem fol_mid {σ σ' : Stream} {ts : List Tok} (h : Starts σ ts σ') {ks : List Kind} (hts : StartsWith ks ts)
    (Q : Token → Prop) (h0 : Q σ'.head) (h1 : ∀ u : Token, u.kind ∈ ks → Q u) : Q σ.head := by
  rcases hts with rfl | ⟨t, rest, rfl, hk⟩
  · rw [Starts.nil_iff] at h; rw [h]; exact h0
  · exact h1 _ (by rw [h.head_kind]; exact hk)

theorem sw_optDirectives {c : Bool} {ts o : List Tok} (h : D (.opt (.nt (.directives c))) ts o) (hok : TsOK ts) :
    StartsWith [.at] ts := by
  obtain ⟨parts, rfl, _, hp⟩ := inv_optDirectives h
  cases parts with
  | nil => exact .inl rfl
  | cons p r =>
    obtain ⟨rest, e⟩ := first_directive (hp p (by simp)) (hok.of_flatMap p (by simp))
    exact .inr ⟨tP .at, rest ++ r.flatMap (·.1), by simp [List.flatMap_cons, e], by simp [tP]⟩

theorem sw_optBlock {start stop : Kind} {item : Sym NT} {ts o : List Tok}
    (hd : (ts = [] ∧ o = []) ∨ D (.seq (Grammar.kind start) (.seq (.plus item) (Grammar.kind stop))) ts o) (hok : TsOK ts)
    (h1 : start.valued = false) (h2 : stop.valued = false) : StartsWith [start] ts := by
  rcases hd with ⟨rfl, _⟩ | hd
  · exact .inl rfl
  · obtain ⟨parts, _, rfl, _, _⟩ := inv_block hd hok h1 h2
    exact .inr ⟨_, _, rfl, by simp [tP]⟩

theorem sw_optMembers {ts o : List Tok} (h : D (.opt (.nt .unionMemberTypes)) ts o) (hok : TsOK ts) : StartsWith [.equals] ts := by
  rcases inv_optMembers h hok with ⟨rfl, _⟩ | ⟨_, _, _, _, rfl, _⟩
  · exact .inl rfl
  · exact .inr ⟨_, _, rfl, by simp [tP]⟩

theorem out_ne_directives {c : Bool} {ts o : List Tok} (h : D (.nt (.directives c)) ts o) (hok : TsOK ts) : o ≠ [] := by
  obtain ⟨parts, hne, rfl, rfl, hp⟩ := h.nt_inv.plus_parts
  cases parts with
  | nil => exact absurd rfl hne
  | cons p r =>
    obtain ⟨nm, ta, oa, _, e, _⟩ := inv_directive (hp p (by simp)) (hok.of_flatMap p (by simp))
    simp [List.flatMap_cons, e]

theorem out_ne_block {start stop : Kind} {item : Sym NT} {ts o : List Tok}
    (hd : D (.seq (Grammar.kind start) (.seq (.plus item) (Grammar.kind stop))) ts o) (hok : TsOK ts)
    (h1 : start.valued = false) (h2 : stop.valued = false) : o ≠ [] := by
  obtain ⟨parts, _, _, rfl, _⟩ := inv_block hd hok h1 h2
  simp

theorem out_ne_implements {ts o : List Tok} (h : D (.nt .implementsInterfaces) ts o) (hok : TsOK ts) : o ≠ [] := by
  obtain ⟨_, _, _, _, _, rfl⟩ := inv_implements h hok
  simp [printImplements]

theorem out_ne_members {ts o : List Tok} (h : D (.nt .unionMemberTypes) ts o) (hok : TsOK ts) : o ≠ [] := by
  obtain ⟨_, _, _, _, _, rfl⟩ := inv_members h hok
  simp [printMembers]

/-! ### the bodies of type definitions and extensions -/

/-- `Name ImplementsInterfaces? Directives? FieldsDefinition?` -/
def ObjBody (tb ob : List Tok) : Prop :=
  ∃ nm ti oi tds ods tf of, tb = tName nm :: (ti ++ (tds ++ tf)) ∧ ob = tName nm :: (oi ++ (ods ++ of)) ∧
    D (.opt (.nt .implementsInterfaces)) ti oi ∧ D (.opt (.nt (.directives true))) tds ods ∧
    D (.opt (.nt .fieldsDefinition)) tf of

/-- `Name Directives? B?` -/
def DirsBlockBody (B : NT) (tb ob : List Tok) : Prop :=
  ∃ nm tds ods tf of, tb = tName nm :: (tds ++ tf) ∧ ob = tName nm :: (ods ++ of) ∧
    D (.opt (.nt (.directives true))) tds ods ∧ D (.opt (.nt B)) tf of

/-- what follows the keyword of a type definition or extension of kind `k` -/
def BodyD : DefKind → List Tok → List Tok → Prop
  | .scalar, tb, ob => ∃ nm tds ods, tb = tName nm :: tds ∧ ob = tName nm :: ods ∧ D (.opt (.nt (.directives true))) tds ods
  | .object, tb, ob => ObjBody tb ob
  | .interface, tb, ob => ObjBody tb ob
  | .union, tb, ob => DirsBlockBody .unionMemberTypes tb ob
  | .enum, tb, ob => DirsBlockBody .enumValuesDefinition tb ob
  | .inputObject, tb, ob => DirsBlockBody .inputFieldsDefinition tb ob

theorem inv_defHead {w : String} {X : Sym NT} {ts o : List Tok}
    (h : D (.seq (.opt (.nt .description)) (.seq (Grammar.kw (str w)) (.seq (.nt .name) X))) ts o) :
    ∃ tD oD nm tx ox, ts = tD ++ tKw w :: tName nm :: tx ∧ o = oD ++ tKw w :: tName nm :: ox ∧
      D (.opt (.nt .description)) tD oD ∧ D X tx ox := by
  obtain ⟨t1, t2, o1, o2, rfl, rfl, d1, d2⟩ := h.seq_inv'
  obtain ⟨t3, t4, o3, o4, rfl, rfl, d3, d4⟩ := d2.seq_inv'
  obtain ⟨t5, t6, o5, o6, rfl, rfl, d5, d6⟩ := d4.seq_inv'
  obtain ⟨rfl, rfl⟩ := kw_inv d3
  obtain ⟨nm, rfl, rfl⟩ := name_inv d5
  exact ⟨t1, o1, nm, t6, o6, by simp, by simp, d1, d6⟩

theorem inv_extHead {w : String} {X : Sym NT} {ts o : List Tok}
    (h : D (.seq (Grammar.kw (str "extend")) (.seq (Grammar.kw (str w)) (.seq (.nt .name) X))) ts o) :
    ∃ nm tx ox, ts = tKw "extend" :: tKw w :: tName nm :: tx ∧ o = tKw "extend" :: tKw w :: tName nm :: ox ∧ D X tx ox := by
  obtain ⟨t1, t2, o1, o2, rfl, rfl, d1, d2⟩ := h.seq_inv'
  obtain ⟨t3, t4, o3, o4, rfl, rfl, d3, d4⟩ := d2.seq_inv'
  obtain ⟨t5, t6, o5, o6, rfl, rfl, d5, d6⟩ := d4.seq_inv'
  obtain ⟨rfl, rfl⟩ := kw_inv d1
  obtain ⟨rfl, rfl⟩ := kw_inv d3
  obtain ⟨nm, rfl, rfl⟩ := name_inv d5
  exact ⟨nm, t6, o6, rfl, rfl, d6⟩

/-- the shape of a type definition: description, keyword, body -/
def DefShape (k : DefKind) (ts o : List Tok) : Prop :=
  ∃ tD oD tb ob, ts = tD ++ DefKind.keyword k :: tb ∧ o = oD ++ DefKind.keyword k :: ob ∧
    D (.opt (.nt .description)) tD oD ∧ BodyD k tb ob

/-- the shape of a type extension: `extend`, keyword, a body that extends something -/
def ExtShape (k : DefKind) (ts o : List Tok) : Prop :=
  ∃ tb ob, ts = tKw "extend" :: DefKind.keyword k :: tb ∧ o = tKw "extend" :: DefKind.keyword k :: ob ∧
    BodyD k tb ob ∧ ob.tail ≠ []

theorem inv_scalarDef {ts o : List Tok} (h : D (.nt .scalarTypeDefinition) ts o) : DefShape .scalar ts o := by
  obtain ⟨tD, oD, nm, tx, ox, rfl, rfl, dD, dx⟩ := inv_defHead h.nt_inv
  exact ⟨tD, oD, _, _, rfl, rfl, dD, nm, tx, ox, rfl, rfl, dx⟩

theorem inv_objectLikeDef {w : String} {ts o : List Tok}
    (h : D (.alt
      (.seq (.opt (.nt .description)) (.seq (Grammar.kw (str w)) (.seq (.nt .name) (.seq (.opt (.nt .implementsInterfaces))
        (.seq (.opt (.nt (.directives true))) (.nt .fieldsDefinition))))))
      (.seq (.opt (.nt .description)) (.seq (Grammar.kw (str w)) (.seq (.nt .name) (.seq (.opt (.nt .implementsInterfaces))
        (.opt (.nt (.directives true)))))))) ts o) :
    ∃ tD oD tb ob, ts = tD ++ tKw w :: tb ∧ o = oD ++ tKw w :: ob ∧ D (.opt (.nt .description)) tD oD ∧ ObjBody tb ob := by
  rcases h.alt_inv with h | h
  · obtain ⟨tD, oD, nm, tx, ox, rfl, rfl, dD, dx⟩ := inv_defHead h
    obtain ⟨t1, t2, o1, o2, rfl, rfl, d1, d2⟩ := dx.seq_inv'
    obtain ⟨t3, t4, o3, o4, rfl, rfl, d3, d4⟩ := d2.seq_inv'
    exact ⟨tD, oD, _, _, rfl, rfl, dD, nm, t1, o1, t3, o3, t4, o4, rfl, rfl, d1, d3, .optSome d4⟩
  · obtain ⟨tD, oD, nm, tx, ox, rfl, rfl, dD, dx⟩ := inv_defHead h
    obtain ⟨t1, t2, o1, o2, rfl, rfl, d1, d2⟩ := dx.seq_inv'
    exact ⟨tD, oD, _, _, rfl, rfl, dD, nm, t1, o1, t2, o2, [], [], by simp, by simp, d1, d2, .optNone⟩

theorem inv_dirsBlockDef {w : String} {B : NT} {ts o : List Tok}
    (h : D (.alt
      (.seq (.opt (.nt .description)) (.seq (Grammar.kw (str w)) (.seq (.nt .name) (.seq (.opt (.nt (.directives true))) (.nt B)))))
      (.seq (.opt (.nt .description)) (.seq (Grammar.kw (str w)) (.seq (.nt .name) (.opt (.nt (.directives true))))))) ts o) :
    ∃ tD oD tb ob, ts = tD ++ tKw w :: tb ∧ o = oD ++ tKw w :: ob ∧ D (.opt (.nt .description)) tD oD ∧ DirsBlockBody B tb ob := by
  rcases h.alt_inv with h | h
  · obtain ⟨tD, oD, nm, tx, ox, rfl, rfl, dD, dx⟩ := inv_defHead h
    obtain ⟨t1, t2, o1, o2, rfl, rfl, d1, d2⟩ := dx.seq_inv'
    exact ⟨tD, oD, _, _, rfl, rfl, dD, nm, t1, o1, t2, o2, rfl, rfl, d1, .optSome d2⟩
  · obtain ⟨tD, oD, nm, tx, ox, rfl, rfl, dD, dx⟩ := inv_defHead h
    exact ⟨tD, oD, _, _, rfl, rfl, dD, nm, tx, ox, [], [], by simp, by simp, dx, .optNone⟩

theorem inv_unionDef {ts o : List Tok} (h : D (.nt .unionTypeDefinition) ts o) : DefShape .union ts o := by
  obtain ⟨tD, oD, nm, tx, ox, rfl, rfl, dD, dx⟩ := inv_defHead h.nt_inv
  obtain ⟨t1, t2, o1, o2, rfl, rfl, d1, d2⟩ := dx.seq_inv'
  exact ⟨tD, oD, _, _, rfl, rfl, dD, nm, t1, o1, t2, o2, rfl, rfl, d1, d2⟩

theorem inv_typeDefinition {ts o : List Tok} (h : D (.nt .typeDefinition) ts o) : ∃ k, DefShape k ts o := by
  rcases h.nt_inv.alt_inv with h | h
  · exact ⟨.scalar, inv_scalarDef h⟩
  rcases h.alt_inv with h | h
  · obtain ⟨tD, oD, tb, ob, e1, e2, dD, hb⟩ := inv_objectLikeDef (w := "type") h.nt_inv
    exact ⟨.object, tD, oD, tb, ob, e1, e2, dD, hb⟩
  rcases h.alt_inv with h | h
  · obtain ⟨tD, oD, tb, ob, e1, e2, dD, hb⟩ := inv_objectLikeDef (w := "interface") h.nt_inv
    exact ⟨.interface, tD, oD, tb, ob, e1, e2, dD, hb⟩
  rcases h.alt_inv with h | h
  · exact ⟨.union, inv_unionDef h⟩
  rcases h.alt_inv with h | h
  · obtain ⟨tD, oD, tb, ob, e1, e2, dD, hb⟩ := inv_dirsBlockDef (w := "enum") (B := .enumValuesDefinition) h.nt_inv
    exact ⟨.enum, tD, oD, tb, ob, e1, e2, dD, hb⟩
  · obtain ⟨tD, oD, tb, ob, e1, e2, dD, hb⟩ := inv_dirsBlockDef (w := "input") (B := .inputFieldsDefinition) h.nt_inv
    exact ⟨.inputObject, tD, oD, tb, ob, e1, e2, dD, hb⟩

theorem tail_ne_of_right {a b : List Tok} (t : Tok) (h : b ≠ []) : (t :: (a ++ b)).tail ≠ [] := by simp [h]
theorem tail_ne_of_left {a b : List Tok} (t : Tok) (h : a ≠ []) : (t :: (a ++ b)).tail ≠ [] := by simp [h]

theorem inv_objectLikeExt {w : String} {ts o : List Tok} (hok : TsOK ts)
    (h : D (.alt
      (.seq (Grammar.kw (str "extend")) (.seq (Grammar.kw (str w)) (.seq (.nt .name) (.seq (.opt (.nt .implementsInterfaces))
        (.seq (.opt (.nt (.directives true))) (.nt .fieldsDefinition))))))
      (.alt
      (.seq (Grammar.kw (str "extend")) (.seq (Grammar.kw (str w)) (.seq (.nt .name) (.seq (.opt (.nt .implementsInterfaces))
        (.nt (.directives true))))))
      (.seq (Grammar.kw (str "extend")) (.seq (Grammar.kw (str w)) (.seq (.nt .name) (.nt .implementsInterfaces)))))) ts o) :
    ∃ tb ob, ts = tKw "extend" :: tKw w :: tb ∧ o = tKw "extend" :: tKw w :: ob ∧ ObjBody tb ob ∧ ob.tail ≠ [] := by
  rcases h.alt_inv with h | h
  · obtain ⟨nm, tx, ox, rfl, rfl, dx⟩ := inv_extHead h
    obtain ⟨t1, t2, o1, o2, rfl, rfl, d1, d2⟩ := dx.seq_inv'
    obtain ⟨t3, t4, o3, o4, rfl, rfl, d3, d4⟩ := d2.seq_inv'
    refine ⟨_, _, rfl, rfl, ⟨nm, t1, o1, t3, o3, t4, o4, rfl, rfl, d1, d3, .optSome d4⟩, ?_⟩
    have : o4 ≠ [] := out_ne_block d4.nt_inv hok.tail.tail.tail.right.right rfl rfl
    simp [this]
  rcases h.alt_inv with h | h
  · obtain ⟨nm, tx, ox, rfl, rfl, dx⟩ := inv_extHead h
    obtain ⟨t1, t2, o1, o2, rfl, rfl, d1, d2⟩ := dx.seq_inv'
    refine ⟨_, _, rfl, rfl, ⟨nm, t1, o1, t2, o2, [], [], by simp, by simp, d1, .optSome d2, .optNone⟩, ?_⟩
    have : o2 ≠ [] := out_ne_directives d2 hok.tail.tail.tail.right
    simp [this]
  · obtain ⟨nm, tx, ox, rfl, rfl, dx⟩ := inv_extHead h
    refine ⟨_, _, rfl, rfl, ⟨nm, tx, ox, [], [], [], [], by simp, by simp, .optSome dx, .optNone, .optNone⟩, ?_⟩
    have : ox ≠ [] := out_ne_implements dx hok.tail.tail.tail
    simp [this]

theorem inv_dirsBlockExt {w : String} {B : NT} {ts o : List Tok} (hok : TsOK ts)
    (hB : ∀ ts o, TsOK ts → D (.nt B) ts o → o ≠ [])
    (h : D (.alt
      (.seq (Grammar.kw (str "extend")) (.seq (Grammar.kw (str w)) (.seq (.nt .name) (.seq (.opt (.nt (.directives true))) (.nt B)))))
      (.seq (Grammar.kw (str "extend")) (.seq (Grammar.kw (str w)) (.seq (.nt .name) (.nt (.directives true)))))) ts o) :
    ∃ tb ob, ts = tKw "extend" :: tKw w :: tb ∧ o = tKw "extend" :: tKw w :: ob ∧ DirsBlockBody B tb ob ∧ ob.tail ≠ [] := by
  rcases h.alt_inv with h | h
  · obtain ⟨nm, tx, ox, rfl, rfl, dx⟩ := inv_extHead h
    obtain ⟨t1, t2, o1, o2, rfl, rfl, d1, d2⟩ := dx.seq_inv'
    refine ⟨_, _, rfl, rfl, ⟨nm, t1, o1, t2, o2, rfl, rfl, d1, .optSome d2⟩, ?_⟩
    have : o2 ≠ [] := hB _ _ hok.tail.tail.tail.right d2
    simp [this]
  · obtain ⟨nm, tx, ox, rfl, rfl, dx⟩ := inv_extHead h
    refine ⟨_, _, rfl, rfl, ⟨nm, tx, ox, [], [], by simp, by simp, .optSome dx, .optNone⟩, ?_⟩
    have : ox ≠ [] := out_ne_directives dx hok.tail.tail.tail
    simp [this]

theorem inv_typeExtension {ts o : List Tok} (h : D (.nt .typeExtension) ts o) (hok : TsOK ts) : ∃ k, ExtShape k ts o := by
  rcases h.nt_inv.alt_inv with h | h
  · obtain ⟨nm, tx, ox, rfl, rfl, dx⟩ := inv_extHead h.nt_inv
    refine ⟨.scalar, _, _, rfl, rfl, ⟨nm, tx, ox, rfl, rfl, .optSome dx⟩, ?_⟩
    exact out_ne_directives dx hok.tail.tail.tail
  rcases h.alt_inv with h | h
  · obtain ⟨tb, ob, e1, e2, hb, hne⟩ := inv_objectLikeExt (w := "type") hok h.nt_inv
    exact ⟨.object, tb, ob, e1, e2, hb, hne⟩
  rcases h.alt_inv with h | h
  · obtain ⟨tb, ob, e1, e2, hb, hne⟩ := inv_objectLikeExt (w := "interface") hok h.nt_inv
    exact ⟨.interface, tb, ob, e1, e2, hb, hne⟩
  rcases h.alt_inv with h | h
  · obtain ⟨tb, ob, e1, e2, hb, hne⟩ := inv_dirsBlockExt (w := "union") (B := .unionMemberTypes) hok
      (fun ts o hok h => out_ne_members h hok) h.nt_inv
    exact ⟨.union, tb, ob, e1, e2, hb, hne⟩
  rcases h.alt_inv with h | h
  · obtain ⟨tb, ob, e1, e2, hb, hne⟩ := inv_dirsBlockExt (w := "enum") (B := .enumValuesDefinition) hok
      (fun ts o hok h => out_ne_block h.nt_inv hok rfl rfl) h.nt_inv
    exact ⟨.enum, tb, ob, e1, e2, hb, hne⟩
  · obtain ⟨tb, ob, e1, e2, hb, hne⟩ := inv_dirsBlockExt (w := "input") (B := .inputFieldsDefinition) hok
      (fun ts o hok h => out_ne_block h.nt_inv hok rfl rfl) h.nt_inv
    exact ⟨.inputObject, tb, ob, e1, e2, hb, hne⟩

/-! ### where the recorded position of an item lies -/

/-- `k` is the start offset of one of the tokens between `σ` and `σ'` -/
def KeyIn (σ σ' : Stream) (k : Nat) : Prop := ∃ us : List Token, σ = Stream.app us σ' ∧ ∃ u ∈ us, u.start = k

theorem KeyIn.head {σ σ' : Stream} {t : Tok} {r : List Tok} (h : Starts σ (t :: r) σ') : KeyIn σ σ' σ.head.start := by
  obtain ⟨us, h1, h2⟩ := h
  cases us with
  | nil => simp at h2
  | cons u us => exact ⟨u :: us, h1, u, by simp, by rw [h1]; rfl⟩

theorem KeyIn.head' {σ σ' : Stream} {ts : List Tok} (h : Starts σ ts σ') (hne : ts ≠ []) : KeyIn σ σ' σ.head.start := by
  cases ts with
  | nil => exact absurd rfl hne
  | cons t r => exact KeyIn.head h

theorem KeyIn.prefix {σ σ1 σ' : Stream} {ts : List Tok} {k : Nat} (h1 : Starts σ ts σ1) (h2 : KeyIn σ1 σ' k) : KeyIn σ σ' k := by
  obtain ⟨uA, rfl, _⟩ := h1
  obtain ⟨uB, rfl, u, hu, hk⟩ := h2
  exact ⟨uA ++ uB, by rw [Stream.app_append], u, by simp [hu], hk⟩

theorem KeyIn.second {σ σ1 σ' : Stream} {t t' : Tok} {r : List Tok} (h1 : Starts σ [t] σ1) (h2 : Starts σ1 (t' :: r) σ') :
    KeyIn σ σ' σ1.head.start := KeyIn.prefix h1 (KeyIn.head h2)

/-! ### the parsers of the bodies -/

theorem cpl_scalarBody (n : Nat) (w : String) (tb ob : List Tok) (hok : TsOK tb) (hb : BodyD .scalar tb ob) (a : AS) (σ' : Stream)
    (hs : Starts a.σ (tKw w :: tb) σ') (hfol : FolItem σ') {β : Type} (k : Pos → Name → List Directive → Prog β)
    (R : β → AS → Prop)
    (hk : ∀ pos nm dirs (b : AS), KeyIn a.σ σ' pos.start → b.σ = σ' → tName nm :: printDirectives dirs = ob → Fwd (k pos nm dirs) b R) :
    Fwd (do
      let _ ← expectKeyword (str w)
      let pos ← peekPos
      let name ← parseName
      let dirs ← parseDirectives n true
      k pos name dirs) a R := by
  obtain ⟨g1, g2, g3, g4, g5, g6, g7, g8⟩ := hfol
  obtain ⟨nm, tds, ods, rfl, rfl, dds⟩ := hb
  obtain ⟨σ1, h1, hs⟩ := hs.cons_single
  have hs1 := hs
  obtain ⟨σ2, h2, h3⟩ := hs.cons_single
  refine Fwd.bind (fwd_keyword w h1) ?_
  rintro _ b1 hσb1
  refine Fwd.bind (fwd_peekPos' _) ?_
  rintro pos b2 ⟨hpos, rfl⟩
  have hkey : KeyIn a.σ σ' pos.start := by rw [hpos, hσb1]; exact KeyIn.second h1 hs1
  refine Fwd.bind (fwd_parseName nm (by simpa [hσb1] using h2)) ?_
  rintro nm' b3 ⟨rfl, hσb3⟩
  refine Fwd.bind (cpl_directives true n tds ods hok.tail dds b3 σ' (by rw [hσb3]; exact h3) g1 g2) ?_
  rintro ds' b4 ⟨hds, hσ⟩
  exact hk pos nm' ds' b4 hkey hσ (by rw [hds])

theorem cpl_objBody (n : Nat) (w : String) (tb ob : List Tok) (hok : TsOK tb) (hb : ObjBody tb ob) (a : AS) (σ' : Stream)
    (hs : Starts a.σ (tKw w :: tb) σ') (hfol : FolItem σ') {β : Type}
    (k : Pos → Name → List Name → List Directive → List FieldDef → Prog β) (R : β → AS → Prop)
    (hk : ∀ pos nm ifs dirs fields (b : AS), KeyIn a.σ σ' pos.start → b.σ = σ' →
      tName nm :: (printImplements ifs ++ (printDirectives dirs ++ printBlock printFieldDef fields)) = ob →
      Fwd (k pos nm ifs dirs fields) b R) :
    Fwd (do
      let _ ← expectKeyword (str w)
      let pos ← peekPos
      let name ← parseName
      let ifs ← parseImplementsInterfaces n
      let dirs ← parseDirectives n true
      let fields ← parseFieldsDefinition n
      k pos name ifs dirs fields) a R := by
  obtain ⟨g1, g2, g3, g4, g5, g6, g7, g8⟩ := hfol
  obtain ⟨nm, ti, oi, tds, ods, tf, of, rfl, rfl, di, dds, df⟩ := hb
  obtain ⟨σ1, h1, hs⟩ := hs.cons_single
  have hs1 := hs
  obtain ⟨σ2, h2, hs⟩ := hs.cons_single
  rw [Starts.append_iff] at hs
  obtain ⟨σ3, h3, hs⟩ := hs
  rw [Starts.append_iff] at hs
  obtain ⟨σ4, h4, h5⟩ := hs
  have hoki : TsOK ti := hok.tail.left
  have hokd : TsOK tds := hok.tail.right.left
  have hokf : TsOK tf := hok.tail.right.right
  have swf : StartsWith [.braceL] tf := sw_optBlock (df.opt_inv.imp id fun h => h.nt_inv) hokf rfl rfl
  have swd := sw_optDirectives dds hokd
  have q4 : σ4.head.kind ≠ .at ∧ σ4.head.kind ≠ .parenL ∧ σ4.head.kind ≠ .amp ∧ NoImplements σ4 :=
    fol_mid h5 swf (fun u => u.kind ≠ .at ∧ u.kind ≠ .parenL ∧ u.kind ≠ .amp ∧ ¬(u.kind = .name ∧ u.value = kwImplements))
      ⟨g1, g2, g4, g8⟩ (fun u hu => by simp at hu; simp [hu])
  have q3 : σ3.head.kind ≠ .amp ∧ NoImplements σ3 :=
    fol_mid h4 swd (fun u => u.kind ≠ .amp ∧ ¬(u.kind = .name ∧ u.value = kwImplements)) ⟨q4.2.2.1, q4.2.2.2⟩
      (fun u hu => by simp at hu; simp [hu])
  refine Fwd.bind (fwd_keyword w h1) ?_
  rintro _ b1 hσb1
  refine Fwd.bind (fwd_peekPos' _) ?_
  rintro pos b2 ⟨hpos, rfl⟩
  have hkey : KeyIn a.σ σ' pos.start := by rw [hpos, hσb1]; exact KeyIn.second h1 hs1
  refine Fwd.bind (fwd_parseName nm (by simpa [hσb1] using h2)) ?_
  rintro nm' b3 ⟨rfl, hσb3⟩
  refine Fwd.bind (cpl_implements n ti oi hoki di b3 σ3 (by rw [hσb3]; exact h3) q3.1 (fun _ => q3.2)) ?_
  rintro ifs b4 ⟨hifs, hσb4⟩
  refine Fwd.bind (cpl_directives true n tds ods hokd dds b4 σ4 (by rw [hσb4]; exact h4) q4.1 q4.2.1) ?_
  rintro ds' b5 ⟨hds, hσb5⟩
  refine Fwd.bind (cpl_fieldDefs n tf of hokf df b5 σ' (by rw [hσb5]; exact h5) (fun _ => g3)) ?_
  rintro fs' b6 ⟨hfs, hσ⟩
  exact hk pos nm' ifs ds' fs' b6 hkey hσ (by rw [hifs, hds, hfs])

theorem cpl_dirsBlockBody {γ : Type} (B : NT) (kB : Kind) (hkB : kB ≠ .at ∧ kB ≠ .parenL) (P : Prog (List γ)) (prB : List γ → List Tok)
    (QB : List γ → Prop)
    (swB : ∀ ts o, TsOK ts → D (.opt (.nt B)) ts o → StartsWith [kB] ts)
    (hP : ∀ ts o, TsOK ts → D (.opt (.nt B)) ts o → ∀ a σ', Starts a.σ ts σ' → FolItem σ' →
      Fwd P a (fun xs a' => prB xs = o ∧ QB xs ∧ a'.σ = σ'))
    (n : Nat) (w : String) (tb ob : List Tok) (hok : TsOK tb) (hb : DirsBlockBody B tb ob) (a : AS) (σ' : Stream)
    (hs : Starts a.σ (tKw w :: tb) σ') (hfol : FolItem σ') {β : Type}
    (k : Pos → Name → List Directive → List γ → Prog β) (R : β → AS → Prop)
    (hk : ∀ pos nm dirs xs (b : AS), KeyIn a.σ σ' pos.start → b.σ = σ' → QB xs → tName nm :: (printDirectives dirs ++ prB xs) = ob →
      Fwd (k pos nm dirs xs) b R) :
    Fwd (do
      let _ ← expectKeyword (str w)
      let pos ← peekPos
      let name ← parseName
      let dirs ← parseDirectives n true
      let xs ← P
      k pos name dirs xs) a R := by
  obtain ⟨g1, g2, g3, g4, g5, g6, g7, g8⟩ := hfol
  obtain ⟨nm, tds, ods, tf, of, rfl, rfl, dds, df⟩ := hb
  obtain ⟨σ1, h1, hs⟩ := hs.cons_single
  have hs1 := hs
  obtain ⟨σ2, h2, hs⟩ := hs.cons_single
  rw [Starts.append_iff] at hs
  obtain ⟨σ4, h4, h5⟩ := hs
  have hokd : TsOK tds := hok.tail.left
  have hokf : TsOK tf := hok.tail.right
  have q4 : σ4.head.kind ≠ .at ∧ σ4.head.kind ≠ .parenL :=
    fol_mid h5 (swB tf of hokf df) (fun u => u.kind ≠ .at ∧ u.kind ≠ .parenL) ⟨g1, g2⟩
      (fun u hu => by simp at hu; rw [hu]; exact hkB)
  refine Fwd.bind (fwd_keyword w h1) ?_
  rintro _ b1 hσb1
  refine Fwd.bind (fwd_peekPos' _) ?_
  rintro pos b2 ⟨hpos, rfl⟩
  have hkey : KeyIn a.σ σ' pos.start := by rw [hpos, hσb1]; exact KeyIn.second h1 hs1
  refine Fwd.bind (fwd_parseName nm (by simpa [hσb1] using h2)) ?_
  rintro nm' b3 ⟨rfl, hσb3⟩
  refine Fwd.bind (cpl_directives true n tds ods hokd dds b3 σ4 (by rw [hσb3]; exact h4) q4.1 q4.2) ?_
  rintro ds' b5 ⟨hds, hσb5⟩
  refine Fwd.bind (hP tf of hokf df b5 σ' (by rw [hσb5]; exact h5) ⟨g1, g2, g3, g4, g5, g6, g7, g8⟩) ?_
  rintro xs b6 ⟨hxs, hq, hσ⟩
  exact hk pos nm' ds' xs b6 hkey hσ hq (by rw [hds, hxs])

theorem cpl_unionBody (n : Nat)
    (w : String) (tb ob : List Tok) (hok : TsOK tb) (hb : DirsBlockBody .unionMemberTypes tb ob) (a : AS) (σ' : Stream)
    (hs : Starts a.σ (tKw w :: tb) σ') (hfol : FolItem σ') {β : Type}
    (k : Pos → Name → List Directive → List Name → Prog β) (R : β → AS → Prop)
    (hk : ∀ pos nm dirs xs (b : AS), KeyIn a.σ σ' pos.start → b.σ = σ' → True → tName nm :: (printDirectives dirs ++ printMembers xs) = ob →
      Fwd (k pos nm dirs xs) b R) :
    Fwd (do
      let _ ← expectKeyword (str w)
      let pos ← peekPos
      let name ← parseName
      let dirs ← parseDirectives n true
      let xs ← parseUnionMemberTypes n
      k pos name dirs xs) a R :=
  cpl_dirsBlockBody .unionMemberTypes .equals (by decide) (parseUnionMemberTypes n) printMembers (fun _ => True)
    (fun ts o hok h => sw_optMembers h hok)
    (fun ts o hok h a σ' hs hf => (cpl_unionMembers n ts o hok h a σ' hs hf.2.2.2.2.2.1 (fun _ => hf.2.2.2.2.1)).mono
      fun _ _ h => ⟨h.1, trivial, h.2⟩)
    n w tb ob hok hb a σ' hs hfol k R hk

theorem cpl_enumBody (n : Nat)
    (w : String) (tb ob : List Tok) (hok : TsOK tb) (hb : DirsBlockBody .enumValuesDefinition tb ob) (a : AS) (σ' : Stream)
    (hs : Starts a.σ (tKw w :: tb) σ') (hfol : FolItem σ') {β : Type}
    (k : Pos → Name → List Directive → List EnumValDef → Prog β) (R : β → AS → Prop)
    (hk : ∀ pos nm dirs xs (b : AS), KeyIn a.σ σ' pos.start → b.σ = σ' → (∀ e ∈ xs, notLiteralName e.name) →
      tName nm :: (printDirectives dirs ++ printBlock printEnumVal xs) = ob → Fwd (k pos nm dirs xs) b R) :
    Fwd (do
      let _ ← expectKeyword (str w)
      let pos ← peekPos
      let name ← parseName
      let dirs ← parseDirectives n true
      let xs ← parseEnumValuesDefinition n
      k pos name dirs xs) a R :=
  cpl_dirsBlockBody .enumValuesDefinition .braceL (by decide) (parseEnumValuesDefinition n) (printBlock printEnumVal)
    (fun xs => ∀ e ∈ xs, notLiteralName e.name)
    (fun ts o hok h => sw_optBlock (h.opt_inv.imp id fun h => h.nt_inv) hok rfl rfl)
    (fun ts o hok h a σ' hs hf => cpl_enumVals n ts o hok h a σ' hs (fun _ => hf.2.2.1))
    n w tb ob hok hb a σ' hs hfol k R hk

theorem cpl_inputBody (n : Nat)
    (w : String) (tb ob : List Tok) (hok : TsOK tb) (hb : DirsBlockBody .inputFieldsDefinition tb ob) (a : AS) (σ' : Stream)
    (hs : Starts a.σ (tKw w :: tb) σ') (hfol : FolItem σ') {β : Type}
    (k : Pos → Name → List Directive → List FieldDef → Prog β) (R : β → AS → Prop)
    (hk : ∀ pos nm dirs xs (b : AS), KeyIn a.σ σ' pos.start → b.σ = σ' → True →
      tName nm :: (printDirectives dirs ++ printBlock printInputField xs) = ob → Fwd (k pos nm dirs xs) b R) :
    Fwd (do
      let _ ← expectKeyword (str w)
      let pos ← peekPos
      let name ← parseName
      let dirs ← parseDirectives n true
      let xs ← parseInputFieldsDefinition n
      k pos name dirs xs) a R :=
  cpl_dirsBlockBody .inputFieldsDefinition .braceL (by decide) (parseInputFieldsDefinition n) (printBlock printInputField)
    (fun _ => True)
    (fun ts o hok h => sw_optBlock (h.opt_inv.imp id fun h => h.nt_inv) hok rfl rfl)
    (fun ts o hok h a σ' hs hf => (cpl_inputFields n ts o hok h a σ' hs (fun _ => hf.2.2.1)).mono
      fun _ _ h => ⟨h.1, trivial, h.2⟩)
    n w tb ob hok hb a σ' hs hfol k R hk

/-- the result of a type-definition parser: description, kind and unparse of the body -/
def DefRes (desc : Bytes) (k : DefKind) (ob : List Tok) (σ σ' : Stream) (y : Definition) (a' : AS) : Prop :=
  y.desc = desc ∧ y.kind = k ∧ printDefBody y = ob ∧ EnumOK y ∧ KeyIn σ σ' y.pos.start ∧ a'.σ = σ'

theorem printImplements_nil_of_length {ifs : List Name} (h : ifs.length = 0) : printImplements ifs = [] := by
  cases ifs with
  | nil => rfl
  | cons _ _ => simp at h

theorem cpl_scalarDef (n : Nat) (desc : Bytes) (tb ob : List Tok) (hok : TsOK tb) (hb : BodyD .scalar tb ob) (a : AS) (σ' : Stream)
    (hs : Starts a.σ (tKw "scalar" :: tb) σ') (hfol : FolItem σ') :
    Fwd (parseScalarTypeDefinition n desc) a (DefRes desc .scalar ob a.σ σ') := by
  unfold parseScalarTypeDefinition
  refine cpl_scalarBody n "scalar" tb ob hok hb a σ' hs hfol _ _ ?_
  intro pos nm dirs b hkey hσ hob
  refine (Fwd.pure _ _).mono ?_
  rintro y b' ⟨rfl, rfl⟩
  exact ⟨rfl, rfl, by simpa [printDefBody] using hob, (by first | exact fun _ => hq | exact fun h => (by cases h)), hkey, hσ⟩

theorem cpl_scalarExt (n : Nat) (tb ob : List Tok) (hok : TsOK tb) (hb : BodyD .scalar tb ob) (hne : ob.tail ≠ []) (a : AS)
    (σ' : Stream) (hs : Starts a.σ (tKw "scalar" :: tb) σ') (hfol : FolItem σ') :
    Fwd (parseScalarTypeExtension n) a (DefRes [] .scalar ob a.σ σ') := by
  unfold parseScalarTypeExtension
  refine cpl_scalarBody n "scalar" tb ob hok hb a σ' hs hfol _ _ ?_
  intro pos nm dirs b hkey hσ hob
  refine Fwd.ite_neg (by
    intro hc
    apply hne
    rw [← hob, List.eq_nil_of_length_eq_zero hc]; rfl) ((Fwd.pure _ _).mono ?_)
  rintro y b' ⟨rfl, rfl⟩
  exact ⟨rfl, rfl, by simpa [printDefBody] using hob, (by first | exact fun _ => hq | exact fun h => (by cases h)), hkey, hσ⟩

theorem cpl_objectDef (n : Nat) (desc : Bytes) (tb ob : List Tok) (hok : TsOK tb) (hb : BodyD .object tb ob) (a : AS) (σ' : Stream)
    (hs : Starts a.σ (tKw "type" :: tb) σ') (hfol : FolItem σ') :
    Fwd (parseObjectTypeDefinition n desc) a (DefRes desc .object ob a.σ σ') := by
  unfold parseObjectTypeDefinition
  refine cpl_objBody n "type" tb ob hok hb a σ' hs hfol _ _ ?_
  intro pos nm ifs dirs fields b hkey hσ hob
  refine (Fwd.pure _ _).mono ?_
  rintro y b' ⟨rfl, rfl⟩
  exact ⟨rfl, rfl, by simpa [printDefBody] using hob, (by first | exact fun _ => hq | exact fun h => (by cases h)), hkey, hσ⟩

theorem cpl_interfaceDef (n : Nat) (desc : Bytes) (tb ob : List Tok) (hok : TsOK tb) (hb : BodyD .interface tb ob) (a : AS)
    (σ' : Stream) (hs : Starts a.σ (tKw "interface" :: tb) σ') (hfol : FolItem σ') :
    Fwd (parseInterfaceTypeDefinition n desc) a (DefRes desc .interface ob a.σ σ') := by
  unfold parseInterfaceTypeDefinition
  refine cpl_objBody n "interface" tb ob hok hb a σ' hs hfol _ _ ?_
  intro pos nm ifs dirs fields b hkey hσ hob
  refine (Fwd.pure _ _).mono ?_
  rintro y b' ⟨rfl, rfl⟩
  exact ⟨rfl, rfl, by simpa [printDefBody] using hob, (by first | exact fun _ => hq | exact fun h => (by cases h)), hkey, hσ⟩

theorem obj_extends {nm : Name} {ifs : List Name} {dirs : List Directive} {fields : List FieldDef} {ob : List Tok}
    (hob : tName nm :: (printImplements ifs ++ (printDirectives dirs ++ printBlock printFieldDef fields)) = ob)
    (hne : ob.tail ≠ []) : ¬ (ifs.length = 0 ∧ dirs.length = 0 ∧ fields.length = 0) := by
  intro hc
  apply hne
  rw [← hob, List.eq_nil_of_length_eq_zero hc.1, List.eq_nil_of_length_eq_zero hc.2.1, List.eq_nil_of_length_eq_zero hc.2.2]
  rfl

theorem cpl_objectExt (n : Nat) (tb ob : List Tok) (hok : TsOK tb) (hb : BodyD .object tb ob) (hne : ob.tail ≠ []) (a : AS)
    (σ' : Stream) (hs : Starts a.σ (tKw "type" :: tb) σ') (hfol : FolItem σ') :
    Fwd (parseObjectTypeExtension n) a (DefRes [] .object ob a.σ σ') := by
  unfold parseObjectTypeExtension
  refine cpl_objBody n "type" tb ob hok hb a σ' hs hfol _ _ ?_
  intro pos nm ifs dirs fields b hkey hσ hob
  refine Fwd.ite_neg (obj_extends hob hne) ((Fwd.pure _ _).mono ?_)
  rintro y b' ⟨rfl, rfl⟩
  exact ⟨rfl, rfl, by simpa [printDefBody] using hob, (by first | exact fun _ => hq | exact fun h => (by cases h)), hkey, hσ⟩

theorem cpl_interfaceExt (n : Nat) (tb ob : List Tok) (hok : TsOK tb) (hb : BodyD .interface tb ob) (hne : ob.tail ≠ []) (a : AS)
    (σ' : Stream) (hs : Starts a.σ (tKw "interface" :: tb) σ') (hfol : FolItem σ') :
    Fwd (parseInterfaceTypeExtension n) a (DefRes [] .interface ob a.σ σ') := by
  unfold parseInterfaceTypeExtension
  refine cpl_objBody n "interface" tb ob hok hb a σ' hs hfol _ _ ?_
  intro pos nm ifs dirs fields b hkey hσ hob
  refine Fwd.ite_neg (obj_extends hob hne) ((Fwd.pure _ _).mono ?_)
  rintro y b' ⟨rfl, rfl⟩
  exact ⟨rfl, rfl, by simpa [printDefBody] using hob, (by first | exact fun _ => hq | exact fun h => (by cases h)), hkey, hσ⟩

theorem block_extends {γ : Type} {nm : Name} {dirs : List Directive} {xs : List γ} {prB : List γ → List Tok} {ob : List Tok}
    (hnil : prB [] = []) (hob : tName nm :: (printDirectives dirs ++ prB xs) = ob) (hne : ob.tail ≠ []) :
    ¬ (dirs.length = 0 ∧ xs.length = 0) := by
  intro hc
  apply hne
  rw [← hob, List.eq_nil_of_length_eq_zero hc.1, List.eq_nil_of_length_eq_zero hc.2, hnil]
  rfl

theorem cpl_unionDef (n : Nat) (desc : Bytes) (tb ob : List Tok) (hok : TsOK tb) (hb : BodyD .union tb ob) (a : AS) (σ' : Stream)
    (hs : Starts a.σ (tKw "union" :: tb) σ') (hfol : FolItem σ') :
    Fwd (parseUnionTypeDefinition n desc) a (DefRes desc .union ob a.σ σ') := by
  unfold parseUnionTypeDefinition
  refine cpl_unionBody n "union" tb ob hok hb a σ' hs hfol _ _ ?_
  intro pos nm dirs xs b hkey hσ hq hob
  refine (Fwd.pure _ _).mono ?_
  rintro y b' ⟨rfl, rfl⟩
  exact ⟨rfl, rfl, by simpa [printDefBody] using hob, (by first | exact fun _ => hq | exact fun h => (by cases h)), hkey, hσ⟩

theorem cpl_unionExt (n : Nat) (tb ob : List Tok) (hok : TsOK tb) (hb : BodyD .union tb ob) (hne : ob.tail ≠ []) (a : AS)
    (σ' : Stream) (hs : Starts a.σ (tKw "union" :: tb) σ') (hfol : FolItem σ') :
    Fwd (parseUnionTypeExtension n) a (DefRes [] .union ob a.σ σ') := by
  unfold parseUnionTypeExtension
  refine cpl_unionBody n "union" tb ob hok hb a σ' hs hfol _ _ ?_
  intro pos nm dirs xs b hkey hσ hq hob
  refine Fwd.ite_neg (block_extends rfl hob hne) ((Fwd.pure _ _).mono ?_)
  rintro y b' ⟨rfl, rfl⟩
  exact ⟨rfl, rfl, by simpa [printDefBody] using hob, (by first | exact fun _ => hq | exact fun h => (by cases h)), hkey, hσ⟩

theorem cpl_enumDef (n : Nat) (desc : Bytes) (tb ob : List Tok) (hok : TsOK tb) (hb : BodyD .enum tb ob) (a : AS) (σ' : Stream)
    (hs : Starts a.σ (tKw "enum" :: tb) σ') (hfol : FolItem σ') :
    Fwd (parseEnumTypeDefinition n desc) a (DefRes desc .enum ob a.σ σ') := by
  unfold parseEnumTypeDefinition
  refine cpl_enumBody n "enum" tb ob hok hb a σ' hs hfol _ _ ?_
  intro pos nm dirs xs b hkey hσ hq hob
  refine (Fwd.pure _ _).mono ?_
  rintro y b' ⟨rfl, rfl⟩
  exact ⟨rfl, rfl, by simpa [printDefBody] using hob, (by first | exact fun _ => hq | exact fun h => (by cases h)), hkey, hσ⟩

theorem cpl_enumExt (n : Nat) (tb ob : List Tok) (hok : TsOK tb) (hb : BodyD .enum tb ob) (hne : ob.tail ≠ []) (a : AS)
    (σ' : Stream) (hs : Starts a.σ (tKw "enum" :: tb) σ') (hfol : FolItem σ') :
    Fwd (parseEnumTypeExtension n) a (DefRes [] .enum ob a.σ σ') := by
  unfold parseEnumTypeExtension
  refine cpl_enumBody n "enum" tb ob hok hb a σ' hs hfol _ _ ?_
  intro pos nm dirs xs b hkey hσ hq hob
  refine Fwd.ite_neg (block_extends rfl hob hne) ((Fwd.pure _ _).mono ?_)
  rintro y b' ⟨rfl, rfl⟩
  exact ⟨rfl, rfl, by simpa [printDefBody] using hob, (by first | exact fun _ => hq | exact fun h => (by cases h)), hkey, hσ⟩

theorem cpl_inputDef (n : Nat) (desc : Bytes) (tb ob : List Tok) (hok : TsOK tb) (hb : BodyD .inputObject tb ob) (a : AS)
    (σ' : Stream) (hs : Starts a.σ (tKw "input" :: tb) σ') (hfol : FolItem σ') :
    Fwd (parseInputObjectTypeDefinition n desc) a (DefRes desc .inputObject ob a.σ σ') := by
  unfold parseInputObjectTypeDefinition
  refine cpl_inputBody n "input" tb ob hok hb a σ' hs hfol _ _ ?_
  intro pos nm dirs xs b hkey hσ hq hob
  refine (Fwd.pure _ _).mono ?_
  rintro y b' ⟨rfl, rfl⟩
  exact ⟨rfl, rfl, by simpa [printDefBody] using hob, (by first | exact fun _ => hq | exact fun h => (by cases h)), hkey, hσ⟩

theorem cpl_inputExt (n : Nat) (tb ob : List Tok) (hok : TsOK tb) (hb : BodyD .inputObject tb ob) (hne : ob.tail ≠ []) (a : AS)
    (σ' : Stream) (hs : Starts a.σ (tKw "input" :: tb) σ') (hfol : FolItem σ') :
    Fwd (parseInputObjectTypeExtension n) a (DefRes [] .inputObject ob a.σ σ') := by
  unfold parseInputObjectTypeExtension
  refine cpl_inputBody n "input" tb ob hok hb a σ' hs hfol _ _ ?_
  intro pos nm dirs xs b hkey hσ hq hob
  refine Fwd.ite_neg (block_extends rfl hob hne) ((Fwd.pure _ _).mono ?_)
  rintro y b' ⟨rfl, rfl⟩
  exact ⟨rfl, rfl, by simpa [printDefBody] using hob, (by first | exact fun _ => hq | exact fun h => (by cases h)), hkey, hσ⟩

/-! ### dispatch on the keyword: type definitions -/

theorem cpl_typeSystemDefinition (n : Nat) (desc : Bytes) (k : DefKind) (tb ob : List Tok) (hok : TsOK tb) (hb : BodyD k tb ob)
    (a : AS) (σ' : Stream) (hs : Starts a.σ (DefKind.keyword k :: tb) σ') (hfol : FolItem σ') :
    Fwd (parseTypeSystemDefinition n desc) a (DefRes desc k ob a.σ σ') := by
  have hhead := hs.head
  have hk : a.σ.head.kind = .name := by
    rw [← show (Tok.ofToken a.σ.head).kind = a.σ.head.kind from rfl, hhead]; exact (keyword_value k).1
  have hv : a.σ.head.value = (DefKind.keyword k).value := by
    rw [← show (Tok.ofToken a.σ.head).value = a.σ.head.value from rfl, hhead]
  unfold parseTypeSystemDefinition
  refine Fwd.bind (fwd_peek a) ?_
  rintro tok a1 ⟨rfl, rfl⟩
  refine Fwd.ite_neg (by simp [hk]) ?_
  rw [hv]
  cases k with
  | scalar => exact Fwd.ite_pos rfl (cpl_scalarDef n desc tb ob hok hb { pk := true, σ := a.σ, cnt := a.cnt } σ' hs hfol)
  | object =>
    exact Fwd.ite_neg (by decide) (Fwd.ite_pos rfl
      (cpl_objectDef n desc tb ob hok hb { pk := true, σ := a.σ, cnt := a.cnt } σ' hs hfol))
  | interface =>
    exact Fwd.ite_neg (by decide) (Fwd.ite_neg (by decide) (Fwd.ite_pos rfl
      (cpl_interfaceDef n desc tb ob hok hb { pk := true, σ := a.σ, cnt := a.cnt } σ' hs hfol)))
  | union =>
    exact Fwd.ite_neg (by decide) (Fwd.ite_neg (by decide) (Fwd.ite_neg (by decide) (Fwd.ite_pos rfl
      (cpl_unionDef n desc tb ob hok hb { pk := true, σ := a.σ, cnt := a.cnt } σ' hs hfol))))
  | «enum» =>
    exact Fwd.ite_neg (by decide) (Fwd.ite_neg (by decide) (Fwd.ite_neg (by decide) (Fwd.ite_neg (by decide) (Fwd.ite_pos rfl
      (cpl_enumDef n desc tb ob hok hb { pk := true, σ := a.σ, cnt := a.cnt } σ' hs hfol)))))
  | inputObject =>
    exact Fwd.ite_neg (by decide) (Fwd.ite_neg (by decide) (Fwd.ite_neg (by decide) (Fwd.ite_neg (by decide)
      (Fwd.ite_neg (by decide) (Fwd.ite_pos rfl
        (cpl_inputDef n desc tb ob hok hb { pk := true, σ := a.σ, cnt := a.cnt } σ' hs hfol))))))

/-! ### schema definitions and extensions -/

theorem ts_ne_directives {c : Bool} {ts o : List Tok} (h : D (.nt (.directives c)) ts o) (hok : TsOK ts) : ts ≠ [] := by
  obtain ⟨parts, hne, rfl, rfl, hp⟩ := h.nt_inv.plus_parts
  cases parts with
  | nil => exact absurd rfl hne
  | cons p r =>
    obtain ⟨nm, ta, oa, e, _, _⟩ := inv_directive (hp p (by simp)) (hok.of_flatMap p (by simp))
    simp [List.flatMap_cons, e]

theorem inv_schemaDef {ts o : List Tok} (h : D (.nt .schemaDefinition) ts o) :
    ∃ tD oD tds ods tbk obk, ts = tD ++ tKw "schema" :: (tds ++ tbk) ∧ o = oD ++ tKw "schema" :: (ods ++ obk) ∧
      D (.opt (.nt .description)) tD oD ∧ D (.opt (.nt (.directives true))) tds ods ∧
      D (.seq (Grammar.kind .braceL) (.seq (.plus (.nt .rootOperationTypeDefinition)) (Grammar.kind .braceR))) tbk obk := by
  obtain ⟨t1, t2, o1, o2, rfl, rfl, d1, d2⟩ := h.nt_inv.seq_inv'
  obtain ⟨t3, t4, o3, o4, rfl, rfl, d3, d4⟩ := d2.seq_inv'
  obtain ⟨t5, t6, o5, o6, rfl, rfl, d5, d6⟩ := d4.seq_inv'
  obtain ⟨rfl, rfl⟩ := kw_inv d3
  exact ⟨t1, o1, t5, o5, t6, o6, by simp, by simp, d1, d5, d6⟩

theorem printBlock_of_ne {α : Type} {f : α → List Tok} {xs : List α} {o : List Tok} (h : printBlock f xs = o) (hne : o ≠ []) :
    tP .braceL :: xs.flatMap f ++ [tP .braceR] = o := by
  cases xs with
  | nil => exact absurd h.symm hne
  | cons x r => simpa [printBlock] using h

theorem cpl_schemaDefinition (n : Nat) (desc : Bytes) (tds ods tbk obk : List Tok) (hok : TsOK (tds ++ tbk))
    (dds : D (.opt (.nt (.directives true))) tds ods)
    (dbk : D (.seq (Grammar.kind .braceL) (.seq (.plus (.nt .rootOperationTypeDefinition)) (Grammar.kind .braceR))) tbk obk)
    (a : AS) (σ' : Stream) (hs : Starts a.σ (tKw "schema" :: (tds ++ tbk)) σ') :
    Fwd (parseSchemaDefinition n desc) a (fun y a' =>
      printSchemaDef y = printDesc desc ++ tKw "schema" :: (ods ++ obk) ∧ KeyIn a.σ σ' y.pos.start ∧ a'.σ = σ') := by
  obtain ⟨σ1, h1, hs⟩ := hs.cons_single
  have hs1 := hs
  rw [Starts.append_iff] at hs
  obtain ⟨σ2, h2, h3⟩ := hs
  obtain ⟨parts, hpne, etbk, eobk, _⟩ := inv_block dbk hok.right rfl rfl
  have k3 : σ2.head.kind = .braceL := by rw [etbk] at h3; exact h3.head_kind
  have hne1 : tds ++ tbk ≠ [] := by rw [etbk]; simp
  have hobk : obk ≠ [] := by rw [eobk]; simp
  unfold parseSchemaDefinition
  refine Fwd.bind (fwd_keyword "schema" h1) ?_
  rintro _ b1 hσ1
  refine Fwd.bind (fwd_peekPos' _) ?_
  rintro pos b2 ⟨hpos, rfl⟩
  have hkey : KeyIn a.σ σ' pos.start := by rw [hpos, hσ1]; exact KeyIn.prefix h1 (KeyIn.head' hs1 hne1)
  refine Fwd.bind (cpl_directives true n tds ods hok.left dds _ σ2 (by simpa [hσ1] using h2)
    (by rw [k3]; decide) (by rw [k3]; decide)) ?_
  rintro ds' b3 ⟨hds, hσ3⟩
  refine Fwd.bind (fwd_peek b3) ?_
  rintro t b4 ⟨rfl, rfl⟩
  refine Fwd.ite_neg (by rw [hσ3, k3]; simp) (Fwd.bind (cpl_opTypes n tbk obk hok.right (.inr dbk) _ σ' (by simpa [hσ3] using h3)
    (fun h => by rw [etbk] at h; simp at h)) ?_)
  rintro os' b5 ⟨hos, hσ⟩
  refine (Fwd.pure _ _).mono ?_
  rintro y b6 ⟨rfl, rfl⟩
  refine ⟨?_, hkey, hσ⟩
  have := printBlock_of_ne hos hobk
  simp only [printSchemaDef, hds]
  rw [← this]
  simp

theorem inv_schemaExt {ts o : List Tok} (h : D (.nt .schemaExtension) ts o) (hok : TsOK ts) :
    ∃ tds ods tbk obk, ts = tKw "extend" :: tKw "schema" :: (tds ++ tbk) ∧ o = tKw "extend" :: tKw "schema" :: (ods ++ obk) ∧
      D (.opt (.nt (.directives true))) tds ods ∧
      ((tbk = [] ∧ obk = []) ∨
        D (.seq (Grammar.kind .braceL) (.seq (.plus (.nt .rootOperationTypeDefinition)) (Grammar.kind .braceR))) tbk obk) ∧
      ods ++ obk ≠ [] ∧ tds ++ tbk ≠ [] := by
  rcases h.nt_inv.alt_inv with h | h
  · obtain ⟨t1, t2, o1, o2, rfl, rfl, d1, d2⟩ := h.seq_inv'
    obtain ⟨t3, t4, o3, o4, rfl, rfl, d3, d4⟩ := d2.seq_inv'
    obtain ⟨t5, t6, o5, o6, rfl, rfl, d5, d6⟩ := d4.seq_inv'
    obtain ⟨rfl, rfl⟩ := kw_inv d1
    obtain ⟨rfl, rfl⟩ := kw_inv d3
    obtain ⟨parts, _, e1, e2, _⟩ := inv_block d6 hok.tail.tail.right.right rfl rfl
    exact ⟨t5, o5, t6, o6, rfl, rfl, d5, .inr d6, by rw [e2]; simp, by rw [e1]; simp⟩
  · obtain ⟨t1, t2, o1, o2, rfl, rfl, d1, d2⟩ := h.seq_inv'
    obtain ⟨t3, t4, o3, o4, rfl, rfl, d3, d4⟩ := d2.seq_inv'
    obtain ⟨rfl, rfl⟩ := kw_inv d1
    obtain ⟨rfl, rfl⟩ := kw_inv d3
    have h1 := out_ne_directives d4 hok.tail.tail
    have h2 := ts_ne_directives d4 hok.tail.tail
    exact ⟨t4, o4, [], [], by simp, by simp, .optSome d4, .inl ⟨rfl, rfl⟩, by simpa using h1, by simpa using h2⟩

theorem cpl_schemaExtension (n : Nat) (tds ods tbk obk : List Tok) (hok : TsOK (tds ++ tbk))
    (dds : D (.opt (.nt (.directives true))) tds ods)
    (dbk : (tbk = [] ∧ obk = []) ∨
      D (.seq (Grammar.kind .braceL) (.seq (.plus (.nt .rootOperationTypeDefinition)) (Grammar.kind .braceR))) tbk obk)
    (hne : ods ++ obk ≠ []) (hne' : tds ++ tbk ≠ []) (a : AS) (σ' : Stream)
    (hs : Starts a.σ (tKw "schema" :: (tds ++ tbk)) σ') (hfol : FolItem σ') :
    Fwd (parseSchemaExtension n) a (fun y a' =>
      printSchemaExt y = tKw "extend" :: tKw "schema" :: (ods ++ obk) ∧ KeyIn a.σ σ' y.pos.start ∧ a'.σ = σ') := by
  obtain ⟨g1, g2, g3, g4, g5, g6, g7, g8⟩ := hfol
  obtain ⟨σ1, h1, hs⟩ := hs.cons_single
  have hs1 := hs
  rw [Starts.append_iff] at hs
  obtain ⟨σ2, h2, h3⟩ := hs
  have q2 : σ2.head.kind ≠ .at ∧ σ2.head.kind ≠ .parenL :=
    fol_mid h3 (sw_optBlock dbk hok.right rfl rfl) (fun u => u.kind ≠ .at ∧ u.kind ≠ .parenL) ⟨g1, g2⟩
      (fun u hu => by simp at hu; simp [hu])
  unfold parseSchemaExtension
  refine Fwd.bind (fwd_keyword "schema" h1) ?_
  rintro _ b1 hσ1
  refine Fwd.bind (fwd_peekPos' _) ?_
  rintro pos b2 ⟨hpos, rfl⟩
  have hkey : KeyIn a.σ σ' pos.start := by rw [hpos, hσ1]; exact KeyIn.prefix h1 (KeyIn.head' hs1 hne')
  refine Fwd.bind (cpl_directives true n tds ods hok.left dds _ σ2 (by simpa [hσ1] using h2) q2.1 q2.2) ?_
  rintro ds' b3 ⟨hds, hσ3⟩
  refine Fwd.bind (cpl_opTypes n tbk obk hok.right dbk b3 σ' (by rw [hσ3]; exact h3) (fun _ => g3)) ?_
  rintro os' b4 ⟨hos, hσ⟩
  refine Fwd.ite_neg (by
    intro hc
    apply hne
    rw [← hds, ← hos, List.eq_nil_of_length_eq_zero hc.1, List.eq_nil_of_length_eq_zero hc.2]
    rfl) ?_
  refine (Fwd.pure _ _).mono ?_
  rintro y b5 ⟨rfl, rfl⟩
  exact ⟨by simp [printSchemaExt, hds, hos], hkey, hσ⟩

/-! ### directive definitions -/

theorem inv_directiveDef {ts o : List Tok} (h : D (.nt .directiveDefinition) ts o) (hok : TsOK ts) :
    ∃ tD oD nm ta oa trep tl ol, ts = tD ++ tKw "directive" :: tP .at :: tName nm :: (ta ++ (trep ++ tKw "on" :: tl)) ∧
      o = oD ++ tKw "directive" :: tP .at :: tName nm :: (oa ++ (trep ++ tKw "on" :: ol)) ∧
      (trep = [] ∨ trep = [tKw "repeatable"]) ∧ D (.opt (.nt .description)) tD oD ∧
      D (.opt (.nt .argumentsDefinition)) ta oa ∧ D (.nt .directiveLocations) tl ol := by
  obtain ⟨t1, t2, o1, o2, rfl, rfl, d1, d2⟩ := h.nt_inv.seq_inv'
  obtain ⟨t3, t4, o3, o4, rfl, rfl, d3, d4⟩ := d2.seq_inv'
  obtain ⟨t5, t6, o5, o6, rfl, rfl, d5, d6⟩ := d4.seq_inv'
  obtain ⟨t7, t8, o7, o8, rfl, rfl, d7, d8⟩ := d6.seq_inv'
  obtain ⟨t9, t10, o9, o10, rfl, rfl, d9, d10⟩ := d8.seq_inv'
  obtain ⟨t11, t12, o11, o12, rfl, rfl, d11, d12⟩ := d10.seq_inv'
  obtain ⟨t13, t14, o13, o14, rfl, rfl, d13, d14⟩ := d12.seq_inv'
  obtain ⟨rfl, rfl⟩ := kw_inv d3
  obtain ⟨rfl, rfl⟩ := punct_inv d5 hok.right.right.left rfl
  obtain ⟨nm, rfl, rfl⟩ := name_inv d7
  obtain ⟨rfl, rfl⟩ := kw_inv d13
  rcases d11.opt_inv with ⟨rfl, rfl⟩ | d11
  · exact ⟨t1, o1, nm, t9, o9, [], t14, o14, by simp, by simp, .inl rfl, d1, d9, d14⟩
  · obtain ⟨rfl, rfl⟩ := kw_inv d11
    exact ⟨t1, o1, nm, t9, o9, [tKw "repeatable"], t14, o14, by simp, by simp, .inr rfl, d1, d9, d14⟩

theorem cpl_directiveDefinition (n : Nat) (desc : Bytes) (nm : Name) (ta oa trep tl ol : List Tok)
    (hok : TsOK (ta ++ (trep ++ tKw "on" :: tl))) (hrep : trep = [] ∨ trep = [tKw "repeatable"])
    (da : D (.opt (.nt .argumentsDefinition)) ta oa) (dl : D (.nt .directiveLocations) tl ol) (a : AS) (σ' : Stream)
    (hs : Starts a.σ (tKw "directive" :: tP .at :: tName nm :: (ta ++ (trep ++ tKw "on" :: tl))) σ')
    (hfol : σ'.head.kind ≠ .pipe) :
    Fwd (parseDirectiveDefinition n desc) a (fun y a' =>
      printDirectiveDef y = printDesc desc ++ tKw "directive" :: tP .at :: tName nm :: (oa ++ (trep ++ tKw "on" :: ol)) ∧
      KeyIn a.σ σ' y.pos.start ∧ a'.σ = σ') := by
  obtain ⟨σ1, h1, hs⟩ := hs.cons_single
  obtain ⟨σ2, h2, hs⟩ := hs.cons_single
  have hs2 := hs
  obtain ⟨σ3, h3, hs⟩ := hs.cons_single
  rw [Starts.append_iff] at hs
  obtain ⟨σ4, h4, hs⟩ := hs
  rw [Starts.append_iff] at hs
  obtain ⟨σ5, h5, hs⟩ := hs
  obtain ⟨σ6, h6, h7⟩ := hs.cons_single
  have hon : σ5.head.kind = .name ∧ σ5.head.value = kwOn := by
    obtain ⟨u, hσu, hu⟩ := h6.single
    rw [hσu]; exact ⟨ofToken_kind hu, ofToken_value hu⟩
  have hk4 : σ4.head.kind = .name := by
    rcases hrep with rfl | rfl
    · rw [Starts.nil_iff] at h5; rw [h5]; exact hon.1
    · exact h5.head_kind
  rw [parseDirectiveDefinition_eq]
  refine Fwd.bind (fwd_keyword "directive" h1) ?_
  rintro _ b1 hσ1
  refine Fwd.bind (fwd_punct .at (by rw [hσ1]; exact h2)) ?_
  rintro _ b2 hσ2
  refine Fwd.bind (fwd_peekPos' _) ?_
  rintro pos b3 ⟨hpos, rfl⟩
  have hkey : KeyIn a.σ σ' pos.start := by rw [hpos, hσ2]; exact KeyIn.prefix h1 (KeyIn.prefix h2 (KeyIn.head hs2))
  refine Fwd.bind (fwd_parseName nm (by simpa [hσ2] using h3)) ?_
  rintro nm' b4 ⟨rfl, hσ4⟩
  refine Fwd.bind (cpl_argDefs n ta oa hok.left da b4 σ4 (by rw [hσ4]; exact h4) (fun _ => by rw [hk4]; decide)) ?_
  rintro as' b5 ⟨has, hσ5⟩
  refine Fwd.bind (fwd_peek b5) ?_
  rintro pk b6 ⟨rfl, rfl⟩
  have tailFwd : ∀ (rep : Bool) (b : AS), b.σ = σ5 → Fwd (directiveTail n desc pos nm' as' rep) b
      (fun y a' => printDirectiveDef y = printDesc desc ++ tKw "directive" :: tP .at :: tName nm' ::
        (oa ++ ((if rep then [tKw "repeatable"] else []) ++ tKw "on" :: ol)) ∧ y.pos = pos ∧ a'.σ = σ') := by
    intro rep b hb
    unfold directiveTail
    refine Fwd.bind (fwd_keyword "on" (by rw [hb]; exact h6)) ?_
    rintro _ c1 hc1
    refine Fwd.bind (cpl_directiveLocations n tl ol hok.right.right.tail dl c1 σ' (by rw [hc1]; exact h7) hfol) ?_
    rintro ls c2 ⟨hls, hσ⟩
    refine (Fwd.pure _ _).mono ?_
    rintro y c3 ⟨rfl, rfl⟩
    exact ⟨by simp [printDirectiveDef, has, hls], rfl, hσ⟩
  rcases hrep with rfl | rfl
  · rw [Starts.nil_iff] at h5
    subst h5
    refine Fwd.ite_neg (by
      rw [hσ5]; intro hc
      rw [hon.2] at hc
      exact absurd hc.2 (by decide)) ?_
    refine (tailFwd false _ (by simp [hσ5])).mono ?_
    rintro y a' ⟨hy, hp, hσ⟩
    exact ⟨by simpa using hy, by rw [hp]; exact hkey, hσ⟩
  · obtain ⟨u, hσu, hu⟩ := h5.single
    have hku : u.kind = .name := ofToken_kind hu
    have hvu : u.value = kwRepeatable := ofToken_value hu
    refine Fwd.ite_pos (by rw [hσ5, hσu]; exact ⟨hku, hvu⟩) (Fwd.bind
      (fwd_skip_yes (a := { pk := true, σ := b5.σ, cnt := b5.cnt }) (t := u) (σ' := σ5) .name (by simp [hσ5, hσu]) hku) ?_)
    rintro _ b7 ⟨_, rfl⟩
    refine (tailFwd true _ rfl).mono ?_
    rintro y a' ⟨hy, hp, hσ⟩
    exact ⟨by simpa using hy, by rw [hp]; exact hkey, hσ⟩

/-! ### extensions -/

/-- what one top-level item contributes: an item whose unparse is `o`, recorded at one of its tokens -/
def ItemRes (doc : SchemaDoc) (o : List Tok) (σ σ' : Stream) (y : SchemaDoc) (a' : AS) : Prop :=
  ∃ it, y = doc.add it ∧ (sItem it).2 = o ∧ it.enumOK ∧ KeyIn σ σ' (sItem it).1 ∧ a'.σ = σ'

theorem cpl_typeSystemExtension (n : Nat) (doc : SchemaDoc) (ts o : List Tok) (hok : TsOK ts) (hd : D (.nt .typeSystemExtension) ts o)
    (a : AS) (σ' : Stream) (hs : Starts a.σ ts σ') (hfol : FolItem σ') :
    Fwd (parseTypeSystemExtension n doc) a (ItemRes doc o a.σ σ') := by
  unfold parseTypeSystemExtension
  rcases hd.nt_inv.alt_inv with hse | hte
  · obtain ⟨tds, ods, tbk, obk, rfl, rfl, dds, dbk, hne, hne'⟩ := inv_schemaExt hse hok
    obtain ⟨σ1, h1, h2⟩ := hs.cons_single
    refine Fwd.bind (fwd_keyword "extend" h1) ?_
    rintro _ b1 hσ1
    refine Fwd.bind (fwd_peek b1) ?_
    rintro t b2 ⟨rfl, rfl⟩
    have hv : b1.σ.head.value = kwSchema := by
      rw [hσ1]
      obtain ⟨σ2, h3, _⟩ := h2.cons_single
      obtain ⟨u, hσu, hu⟩ := h3.single
      rw [hσu]; exact ofToken_value hu
    refine Fwd.ite_pos hv (Fwd.bind (cpl_schemaExtension n tds ods tbk obk hok.tail.tail dds dbk hne hne' _ σ'
      (by simpa [hσ1] using h2) hfol) ?_)
    rintro sd b3 ⟨hsd, hkey, hσ⟩
    refine (Fwd.pure _ _).mono ?_
    rintro y b4 ⟨rfl, rfl⟩
    refine ⟨.schemaExt sd, rfl, hsd, trivial, ?_, hσ⟩
    simp only [sItem]
    exact KeyIn.prefix h1 (by simpa [hσ1] using hkey)
  · obtain ⟨k, tb, ob, rfl, rfl, hb, hne⟩ := inv_typeExtension hte hok
    obtain ⟨σ1, h1, h2⟩ := hs.cons_single
    refine Fwd.bind (fwd_keyword "extend" h1) ?_
    rintro _ b1 hσ1
    refine Fwd.bind (fwd_peek b1) ?_
    rintro t b2 ⟨rfl, rfl⟩
    have hv : b1.σ.head.value = (DefKind.keyword k).value := by
      rw [hσ1, ← show (Tok.ofToken σ1.head).value = σ1.head.value from rfl, h2.head]
    rw [hv]
    have hs2 : Starts ({ pk := true, σ := b1.σ, cnt := b1.cnt } : AS).σ (DefKind.keyword k :: tb) σ' := by
      simpa [hσ1] using h2
    have fin : ∀ (p : Prog Definition), Fwd p { pk := true, σ := b1.σ, cnt := b1.cnt } (DefRes [] k ob b1.σ σ') →
        Fwd (p >>= fun x => Pure.pure { doc with extensions := doc.extensions ++ [x] }) { pk := true, σ := b1.σ, cnt := b1.cnt }
          (ItemRes doc (tKw "extend" :: DefKind.keyword k :: ob) a.σ σ') := by
      intro p hp
      refine Fwd.bind hp ?_
      rintro x b3 ⟨hdesc, hkind, hbody, henum, hkey, hσ⟩
      refine (Fwd.pure _ _).mono ?_
      rintro y b4 ⟨rfl, rfl⟩
      refine ⟨.extension x, rfl, ?_, henum, ?_, hσ⟩
      · simp [sItem, printExtension, hkind, hbody]
      · simp only [sItem]
        exact KeyIn.prefix h1 (by rw [← hσ1]; exact hkey)
    have hokb : TsOK tb := hok.tail.tail
    cases k with
    | scalar =>
      refine Fwd.ite_neg (by decide) (Fwd.ite_pos rfl (fin _ ?_))
      exact cpl_scalarExt n tb ob hokb hb hne _ σ' hs2 hfol
    | object =>
      refine Fwd.ite_neg (by decide) (Fwd.ite_neg (by decide) (Fwd.ite_pos rfl (fin _ ?_)))
      exact cpl_objectExt n tb ob hokb hb hne _ σ' hs2 hfol
    | interface =>
      refine Fwd.ite_neg (by decide) (Fwd.ite_neg (by decide) (Fwd.ite_neg (by decide) (Fwd.ite_pos rfl (fin _ ?_))))
      exact cpl_interfaceExt n tb ob hokb hb hne _ σ' hs2 hfol
    | union =>
      refine Fwd.ite_neg (by decide) (Fwd.ite_neg (by decide) (Fwd.ite_neg (by decide) (Fwd.ite_neg (by decide)
        (Fwd.ite_pos rfl (fin _ ?_)))))
      exact cpl_unionExt n tb ob hokb hb hne _ σ' hs2 hfol
    | «enum» =>
      refine Fwd.ite_neg (by decide) (Fwd.ite_neg (by decide) (Fwd.ite_neg (by decide) (Fwd.ite_neg (by decide)
        (Fwd.ite_neg (by decide) (Fwd.ite_pos rfl (fin _ ?_))))))
      exact cpl_enumExt n tb ob hokb hb hne _ σ' hs2 hfol
    | inputObject =>
      refine Fwd.ite_neg (by decide) (Fwd.ite_neg (by decide) (Fwd.ite_neg (by decide) (Fwd.ite_neg (by decide)
        (Fwd.ite_neg (by decide) (Fwd.ite_neg (by decide) (Fwd.ite_pos rfl (fin _ ?_)))))))
      exact cpl_inputExt n tb ob hokb hb hne _ σ' hs2 hfol

end Gql.Parser
