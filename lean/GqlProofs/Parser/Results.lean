import GqlProofs.Parser.LimitErr
/-
  Consequences of the limit simulation (`run_sim`) and of the pull accounting (`PInv`) on the
  level of `Result`s and of the schema entry points; used by `Props/C16.lean`.
-/
namespace Gql.Parser
open Gql

theorem ofRun_ok {α : Type} {r : α × PState} {d : α} :
    Result.ofRun r = .ok d ↔ r.2.oof = false ∧ r.2.err = none ∧ r.1 = d := by
  unfold Result.ofRun
  cases ho : r.2.oof <;> cases he : r.2.err <;> simp

theorem ofRun_isOk {α : Type} {r : α × PState} :
    (Result.ofRun r).isOk = true ↔ r.2.oof = false ∧ r.2.err = none := by
  unfold Result.ofRun
  cases ho : r.2.oof <;> cases he : r.2.err <;> simp [Result.isOk]

theorem ofRun_error {α : Type} {r : α × PState} {e : PErr} (h : Result.ofRun r = .error e) : r.2.err = some e := by
  unfold Result.ofRun at h
  split at h
  · cases h
  · split at h
    · rename_i e' he; cases h; exact he
    · cases h

/-- if the run under the stricter limit succeeds, the run under the laxer one is identical -/
theorem run_eq_of_ok {α : Type} {L L' : Nat} (h : Stricter L L') (p : Prog α) (s : PState)
    (hok : (run L p s).2.err = none) : run L p s = run L' p s := by
  rcases run_sim h p s with ⟨h1, _⟩ | h1
  · rw [hok] at h1; cases h1
  · exact h1

theorem ofRun_mono {α : Type} {L L' : Nat} (h : Stricter L L') (p : Prog α) (s : PState) (d : α)
    (hok : Result.ofRun (run L p s) = .ok d) : Result.ofRun (run L' p s) = .ok d := by
  have := run_eq_of_ok h p s (ofRun_ok.1 hok).2.1
  rw [← this]; exact hok

theorem stricter_zero (L : Nat) : Stricter L 0 := .inl rfl

theorem stricter_le {L L' : Nat} (h0 : L ≠ 0) (h : L ≤ L') : Stricter L L' := .inr ⟨h0, h⟩

/-- exactness on the level of runs: under `L ≠ 0` the run succeeds iff the unlimited run succeeds
    having counted at most `L` tokens -/
theorem ofRun_exact {α : Type} {L : Nat} (hL : L ≠ 0) (p : Prog α) (src : Nat) (inp : Bytes) :
    (Result.ofRun (run L p (PState.init src inp))).isOk = true ↔
      (Result.ofRun (run 0 p (PState.init src inp))).isOk = true ∧
        (run 0 p (PState.init src inp)).2.tokenCount ≤ L := by
  constructor
  · intro hok
    have he := (ofRun_isOk.1 hok).2
    have heq := run_eq_of_ok (stricter_zero L) p (PState.init src inp) he
    rw [← heq]
    refine ⟨hok, ?_⟩
    have inv := PInv.run (L := L) p (PInv.init L src inp)
    exact inv.tc_le hL (by simp [tripped, he])
  · intro ⟨hok, htc⟩
    rcases run_sim (stricter_zero L) p (PState.init src inp) with ⟨_, h2⟩ | h1
    · omega
    · rw [h1]; exact hok

theorem parseSchemaSrc_error {L src : Nat} {b : Bool} {inp : Bytes} {e : PErr}
    (h : parseSchemaSrc L src b inp = .error e) : (runSchema L src inp).2.err = some e := by
  unfold parseSchemaSrc at h
  cases h1 : Result.ofRun (runSchema L src inp) with
  | ok d => rw [h1] at h; cases h
  | error e' => rw [h1] at h; cases h; exact ofRun_error h1
  | outOfFuel => rw [h1] at h; cases h

theorem parseSchemaSrc_ok {L src : Nat} {b : Bool} {inp : Bytes} {d : SchemaDoc} :
    parseSchemaSrc L src b inp = .ok d ↔
      ∃ d0, Result.ofRun (runSchema L src inp) = .ok d0 ∧ d = setBuiltIn b d0 := by
  unfold parseSchemaSrc
  cases h : Result.ofRun (runSchema L src inp) <;> simp [eq_comm]

theorem parseSchemaSrc_mono {L L' : Nat} (h : Stricter L L') (src : Nat) (b : Bool) (inp : Bytes) (d : SchemaDoc)
    (hok : parseSchemaSrc L src b inp = .ok d) : parseSchemaSrc L' src b inp = .ok d := by
  obtain ⟨d0, h1, h2⟩ := parseSchemaSrc_ok.1 hok
  exact parseSchemaSrc_ok.2 ⟨d0, ofRun_mono h _ _ d0 h1, h2⟩

theorem parseSchemaSrc_isOk {L src : Nat} {b : Bool} {inp : Bytes} :
    (parseSchemaSrc L src b inp).isOk = (Result.ofRun (runSchema L src inp)).isOk := by
  unfold parseSchemaSrc
  cases h : Result.ofRun (runSchema L src inp) <;> simp [Result.isOk]

/-- several sources (`ParseSchemasWithLimit`: the limit applies to each source separately) -/
theorem parseSchemasFrom_mono {L L' : Nat} (h : Stricter L L') (srcs : List (Bool × Bytes)) (i : Nat)
    (acc d : SchemaDoc) (hok : parseSchemasFrom L i acc srcs = .ok d) : parseSchemasFrom L' i acc srcs = .ok d := by
  induction srcs generalizing i acc with
  | nil => simpa [parseSchemasFrom] using hok
  | cons x rest ih =>
    obtain ⟨bi, inp⟩ := x
    unfold parseSchemasFrom at hok ⊢
    cases h1 : parseSchemaSrc L i bi inp with
    | ok d1 =>
      rw [h1] at hok
      rw [parseSchemaSrc_mono h i bi inp d1 h1]
      exact ih _ _ hok
    | error e => rw [h1] at hok; cases hok
    | outOfFuel => rw [h1] at hok; cases hok

end Gql.Parser
