import GqlModel.Lexer.Model
/-
  Progress of the lexer model: a token leaves a remaining input that is no longer than before, and
  strictly shorter unless the token is EOF (`readToken_progress`).  Needed by the parser's fuel
  theorem; the lexer layer may supersede this file with its own `C01_lex_progress`.
-/
namespace Gql.Lexer
open Gql

def Step.restLE (n : Nat) : Step → Prop
  | .tok _ r _ => r.length ≤ n
  | .err _ => True
def Step.restLT (n : Nat) : Step → Prop
  | .tok _ r _ => r.length < n
  | .err _ => True

theorem digitSpan_length (l : Bytes) : (digitSpan l).1.length + (digitSpan l).2.length = l.length := by
  fun_induction digitSpan l <;> simp_all <;> omega

theorem digitSpan_le (l : Bytes) : (digitSpan l).2.length ≤ l.length := by
  have := digitSpan_length l; omega

theorem numExp_le (start : Cur) (rest0 : Bytes) (n : Nat) (r : Bytes) (isFloat : Bool) :
    (numExp start rest0 n r isFloat).restLE r.length := by
  unfold numExp
  split
  · split
    · split
      rename_i t _ _ n1 t1 heq1
      have h1 : t1.length ≤ t.length := by
        split at heq1
        · split at heq1 <;> cases heq1 <;> simp
        · cases heq1; simp
      split
      rename_i ds r2 heq2
      have h2 := digitSpan_le t1; rw [heq2] at h2
      split <;> simp [Step.restLE, mkErr]
      simp at h2; omega
    · simp [Step.restLE]
  · simp [Step.restLE]

theorem numFrac_le (start : Cur) (rest0 : Bytes) (n : Nat) (r : Bytes) :
    (numFrac start rest0 n r).restLE r.length := by
  unfold numFrac
  split
  · rename_i tl
    split
    rename_i ds t' heq
    have h2 := digitSpan_le tl; rw [heq] at h2
    split
    · simp [Step.restLE, mkErr]
    · have := numExp_le start rest0 (n + 1 + ds.length) t' true
      revert this
      generalize numExp start rest0 (n + 1 + ds.length) t' true = out
      cases out <;> simp [Step.restLE]
      simp at h2; omega
  · exact numExp_le _ _ _ _ _

theorem Step.restLE_mono {n m : Nat} {s : Step} (h : s.restLE n) (hnm : n ≤ m) : s.restLE m := by
  cases s <;> simp [Step.restLE] at * ; omega

theorem Step.restLT_of_LE {n m : Nat} {s : Step} (h : s.restLE n) (hnm : n < m) : s.restLT m := by
  cases s <;> simp [Step.restLE, Step.restLT] at * ; omega

theorem readNumber_lt (start : Cur) (b : Nat) (tl : Bytes) (hb : b = 45 ∨ isDigit b = true) :
    (readNumber start (b :: tl)).restLT (b :: tl).length := by
  unfold readNumber
  split
  rename_i n1 r1 heq1
  have h1 : r1.length ≤ (b :: tl).length ∧ (b = 45 → r1 = tl) ∧ (b ≠ 45 → r1 = b :: tl) := by
    split at heq1
    · rename_i t heq; cases heq1; cases heq; simp
    · rename_i hne; cases heq1
      refine ⟨by simp, ?_, fun _ => rfl⟩
      intro h; subst h; exact (hne tl rfl).elim
  split
  · rename_i t
    split
    rename_i ds x heq2
    split
    · simp [Step.restLT, mkErr]
    · refine Step.restLT_of_LE (numFrac_le _ _ _ _) ?_
      have := h1.1; simp at this ⊢; omega
  · rename_i hne48
    split
    rename_i ds t heq2
    have h2 := digitSpan_length r1; rw [heq2] at h2; simp at h2
    split
    · simp [Step.restLT, mkErr]
    · rename_i hne
      refine Step.restLT_of_LE (numFrac_le _ _ _ _) ?_
      have : ds.length ≠ 0 := by intro h0; apply hne; simp [List.eq_nil_of_length_eq_zero h0]
      have := h1.1; omega

theorem Step.restLT_mono {n m : Nat} {s : Step} (h : s.restLT n) (hnm : n ≤ m) : s.restLT m := by
  cases s <;> simp [Step.restLT] at * ; omega

theorem readStringLoop_lt (q : Cur) (l : Bytes) (c : Cur) (acc : Bytes) (buf : Bool) :
    (readStringLoop q l c acc buf).restLT l.length := by
  fun_induction readStringLoop q l c acc buf
  all_goals first
    | (simp [Step.restLT, mkErr]; done)
    | (rename_i ih; exact Step.restLT_mono ih (by simp [List.length_drop] <;> omega))

theorem readBlockLoop_lt (q : Cur) (l : Bytes) (c : Cur) (acc : Bytes) :
    (readBlockLoop q l c acc).restLT l.length := by
  fun_induction readBlockLoop q l c acc
  all_goals first
    | (simp [Step.restLT, mkErr]; done)
    | (simp [Step.restLT, List.length_drop] <;> omega)
    | (rename_i ih; exact Step.restLT_mono ih (by simp [List.length_drop] <;> omega))

theorem ws_length (r : Bytes) (c : Cur) : (ws r c).1.length ≤ r.length := by
  fun_induction ws r c <;> simp_all <;> omega

theorem commentSpan_length (l : Bytes) : (commentSpan l).2.2.length ≤ l.length := by
  fun_induction commentSpan l
  all_goals first
    | (simp; done)
    | (simp_all [List.length_drop]; omega)

theorem nameSpan_length (l : Bytes) : (nameSpan l).2.length ≤ l.length := by
  fun_induction nameSpan l <;> simp_all <;> omega

theorem unexpectedChar_lt (c : Cur) (b n : Nat) : (unexpectedChar c b).restLT n := by
  unfold unexpectedChar; split
  · simp [Step.restLT, mkErr]
  · split <;> simp [Step.restLT, mkErr]

theorem simpleTok_lt {k : Kind} {v : Bytes} {c : Cur} {nb nr : Nat} {rest : Bytes} {n : Nat} (h : rest.length < n) :
    (simpleTok k v c nb nr rest).restLT n := by
  simpa [simpleTok, Step.restLT] using h

/-- what `readToken` leaves: never longer, strictly shorter unless the token is EOF -/
def Step.progress (n : Nat) : Step → Prop
  | .tok t r _ => r.length ≤ n ∧ (t.kind ≠ .eof → r.length < n)
  | .err _ => True

theorem Step.progress_of_LT {n m : Nat} {s : Step} (h : s.restLT n) (hnm : n ≤ m) : s.progress m := by
  cases s <;> simp [Step.restLT, Step.progress] at * ; omega

theorem readToken_progress (rest : Bytes) (c : Cur) : (readToken rest c).progress rest.length := by
  unfold readToken
  have hw := ws_length rest c
  split
  rename_i rest1 c1 heq
  rw [heq] at hw; simp at hw
  split
  · simp [simpleTok, Step.progress]
  · rename_i b tl
    simp at hw
    refine Step.progress_of_LT (n := (b :: tl).length) ?_ (by simpa using hw)
    split
    · exact simpleTok_lt (by simp)
    · split
      · split
        · exact simpleTok_lt (by simp; omega)
        · exact unexpectedChar_lt _ _ _
      · split
        · split
          rename_i nb nr rest' hs
          have := commentSpan_length tl; rw [hs] at this
          exact simpleTok_lt (by simp at this ⊢; omega)
        · split
          · split
            rename_i nm rest' hs
            have := nameSpan_length tl; rw [hs] at this
            exact simpleTok_lt (by simp at this ⊢; omega)
          · split
            · rename_i hnum; exact readNumber_lt _ _ _ (by simpa using hnum)
            · split
              · split
                · exact Step.restLT_mono (readBlockLoop_lt _ _ _ _) (by simp; omega)
                · exact Step.restLT_mono (readStringLoop_lt _ _ _ _ _) (by simp)
              · exact unexpectedChar_lt _ _ _
end Gql.Lexer
