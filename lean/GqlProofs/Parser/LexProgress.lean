import GqlProofs.Lexer.Progress
/-
  The lexer progress lemma the parser measure needs (`readToken_progress`, `Step.progress`) lives in
  GqlProofs/Lexer/Progress.lean; this file only re-exports it for the parser proofs.
-/
