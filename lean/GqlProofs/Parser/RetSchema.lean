import GqlProofs.Parser.RetQuery
import GqlProofs.Parser.FwdSchemaTop
/-
  Result invariants of the schema parser programs: every tree returned by a live run satisfies
  the side conditions of the forward lemmas (`ItemOK` …).  With the positions facts of the
  soundness proof this gives `parseSchema 0 inp = .ok d → PrintableSchema d`.
-/
namespace Gql.Parser
open Gql Gql.Lexer Gql.Grammar Gql.Print

theorem Ret.and {α : Type} {p : Prog α} {Q1 Q2 : α → Prop} (h1 : Ret p Q1) (h2 : Ret p Q2) : Ret p (fun x => Q1 x ∧ Q2 x) :=
  fun s hl => ⟨h1 s hl, h2 s hl⟩

/-- `if p.err != nil { … }` inside a live run: the error is not set -/
theorem Ret.hasErr_bind {α : Type} {f : Bool → Prog α} {Q : α → Prop} (h : Ret (f false) Q) : Ret (hasErr >>= f) Q := by
  intro s hl
  rw [bind_eq, run_bind] at hl ⊢
  have hrun : run 0 hasErr s = (s.err.isSome, s) := rfl
  rw [hrun] at hl ⊢
  simp only at hl ⊢
  have hs := live_of_run hl
  rw [live_isSome hs] at hl ⊢
  exact h s hl

/-! ### constants -/

theorem constChildren_ofList {vs : List (Name × Value × Pos)} (h : ∀ x ∈ vs, ConstValue x.2.1) :
    ConstChildren (Children.ofList vs) := by
  induction vs with
  | nil => trivial
  | cons x vs ih =>
    obtain ⟨n, v, p⟩ := x
    simp only [Children.ofList, ConstChildren]
    exact ⟨h (n, v, p) (by simp), ih fun y hy => h y (by simp [hy])⟩

theorem ret_valueC : ∀ n, Ret (parseValueLiteral n true) ConstValue
  | 0 => Ret.of_dead (outOfFuel_dead _)
  | n + 1 => by
    have ih := ret_valueC n
    unfold parseValueLiteral
    refine Ret.seq fun token => Ret.seq fun src => ?_
    split
    · unfold parseListWith
      refine Ret.seq fun pos => Ret.bind (ret_pMany (Q := fun x => ConstValue x.2.1) .bracketL .bracketR (n + 1)
        (Ret.bind ih fun v hv => Ret.pure hv)) fun vs hvs => Ret.pure ?_
      simp only [ConstValue]
      exact ⟨by decide, constChildren_ofList hvs⟩
    · unfold parseObjectWith
      refine Ret.seq fun pos => Ret.bind (ret_pMany (Q := fun x => ConstValue x.2.1) .braceL .braceR (n + 1) ?_) fun vs hvs => Ret.pure ?_
      · unfold parseObjectFieldWith
        exact Ret.seq fun _ => Ret.seq fun _ => Ret.seq fun _ => Ret.bind ih fun v hv => Ret.pure hv
      · simp only [ConstValue]
        exact ⟨by decide, constChildren_ofList hvs⟩
    · exact Ret.ite (fun _ => Ret.of_dead_bind unexpectedError_dead) (fun h => absurd rfl h)
    all_goals first
      | exact Ret.of_dead_bind unexpectedError_dead
      | (unfold litValue; exact Ret.seq fun _ => Ret.pure ⟨nameValueKind_ne _, trivial⟩)
      | (unfold litValue; exact Ret.seq fun _ => Ret.pure (by simp [ConstValue, ConstChildren]))

theorem ret_argumentsC (n : Nat) : Ret (parseArguments n true) (fun as => ∀ a ∈ as, ConstValue a.value) := by
  unfold parseArguments
  refine ret_pSome (Q := fun (a : Argument) => ConstValue a.value) .parenL .parenR n ?_
  unfold parseArgument
  exact Ret.seq fun _ => Ret.seq fun _ => Ret.seq fun _ => Ret.bind (ret_valueC n) fun v hv => Ret.pure hv

theorem ret_directivesLoopC {pd : Prog Directive} (hpd : Ret pd fun d => ∀ a ∈ d.args, ConstValue a.value) :
    ∀ (n : Nat) (acc : List Directive), ConstDirectives acc → Ret (directivesLoop pd n acc) ConstDirectives
  | 0, _, _ => Ret.of_dead (outOfFuel_dead _)
  | n + 1, acc, hacc => by
    unfold directivesLoop
    refine Ret.seq fun t => Ret.ite (fun _ => Ret.seq fun e => Ret.ite (fun _ => Ret.pure hacc)
      (fun _ => Ret.bind hpd fun d hd => ret_directivesLoopC hpd n (d :: acc) (by
        intro y hy; rcases List.mem_cons.1 hy with rfl | hy
        · exact hd
        · exact hacc y hy))) (fun _ => Ret.pure hacc)

theorem ret_cdirs (n : Nat) : Ret (parseDirectives n true) CDirs := by
  refine Ret.and (ret_directives n true) ?_
  unfold parseDirectives
  refine Ret.bind (ret_directivesLoopC ?_ n [] (by intro _ h; cases h)) fun ds hds =>
    Ret.pure (by intro d hd; exact hds d (by simpa using hd))
  unfold parseDirective
  exact Ret.seq fun _ => Ret.seq fun _ => Ret.seq fun _ => Ret.bind (ret_argumentsC n) fun as has => Ret.pure has

theorem ret_cvalue (n : Nat) : Ret (parseValueLiteral n true) (fun v => ValueOK v ∧ ConstValue v) :=
  Ret.and (ret_value true n) (ret_valueC n)

/-! ### input values, fields, enum values -/

theorem ret_argDef (n : Nat) : Ret (parseArgumentDef n) ArgDefOK := by
  unfold parseArgumentDef
  refine Ret.seq fun pos => Ret.seq fun desc => Ret.seq fun _ => Ret.seq fun name => Ret.seq fun _ => Ret.seq fun ty =>
    Ret.seq fun b => Ret.ite
    (fun _ => Ret.bind (ret_cvalue n) fun v hv =>
      Ret.bind (Q1 := CDefault) (Ret.pure (by intro d hd; cases hd; exact hv)) fun dv hdv =>
      Ret.bind (ret_cdirs n) fun ds hds => Ret.pure ⟨hdv, hds⟩)
    (fun _ => Ret.bind (Q1 := CDefault) (Ret.pure (by intro d hd; cases hd)) fun dv hdv =>
      Ret.bind (ret_cdirs n) fun ds hds => Ret.pure ⟨hdv, hds⟩)

theorem ret_argDefs (n : Nat) : Ret (parseArgumentDefs n) (fun as => ∀ a ∈ as, ArgDefOK a) := by
  unfold parseArgumentDefs
  exact ret_pSome .parenL .parenR n (ret_argDef n)

theorem ret_inputField (n : Nat) : Ret (parseInputValueDef n) InputFieldOK := by
  unfold parseInputValueDef
  refine Ret.seq fun pos => Ret.seq fun desc => Ret.seq fun _ => Ret.seq fun name => Ret.seq fun _ => Ret.seq fun ty =>
    Ret.seq fun b => Ret.ite
    (fun _ => Ret.bind (ret_cvalue n) fun v hv =>
      Ret.bind (Q1 := CDefault) (Ret.pure (by intro d hd; cases hd; exact hv)) fun dv hdv =>
      Ret.bind (ret_cdirs n) fun ds hds => Ret.pure ⟨rfl, hdv, hds⟩)
    (fun _ => Ret.bind (Q1 := CDefault) (Ret.pure (by intro d hd; cases hd)) fun dv hdv =>
      Ret.bind (ret_cdirs n) fun ds hds => Ret.pure ⟨rfl, hdv, hds⟩)

theorem ret_fieldDef (n : Nat) : Ret (parseFieldDefinition n) FieldDefOK := by
  unfold parseFieldDefinition
  exact Ret.seq fun pos => Ret.seq fun desc => Ret.seq fun _ => Ret.seq fun name => Ret.bind (ret_argDefs n) fun as has =>
    Ret.seq fun _ => Ret.seq fun ty => Ret.bind (ret_cdirs n) fun ds hds => Ret.pure ⟨has, rfl, hds⟩

theorem ret_enumVal (n : Nat) : Ret (parseEnumValueDefinition n) EnumValOK := by
  unfold parseEnumValueDefinition
  exact Ret.seq fun pos => Ret.seq fun desc => Ret.seq fun _ => Ret.seq fun name => Ret.bind (ret_cdirs n) fun ds hds =>
    Ret.pure hds

theorem ret_fields (n : Nat) : Ret (parseFieldsDefinition n) (fun fs => ∀ f ∈ fs, FieldDefOK f) := by
  unfold parseFieldsDefinition; exact ret_pSome .braceL .braceR n (ret_fieldDef n)
theorem ret_inputFields (n : Nat) : Ret (parseInputFieldsDefinition n) (fun fs => ∀ f ∈ fs, InputFieldOK f) := by
  unfold parseInputFieldsDefinition; exact ret_pSome .braceL .braceR n (ret_inputField n)
theorem ret_enumVals (n : Nat) : Ret (parseEnumValuesDefinition n) (fun es => ∀ e ∈ es, EnumValOK e) := by
  unfold parseEnumValuesDefinition; exact ret_pSome .braceL .braceR n (ret_enumVal n)

theorem ret_operationType : Ret parseOperationType isOperationType := by
  unfold parseOperationType
  exact Ret.seq fun tok => Ret.ite (fun _ => Ret.pure (.inl rfl)) fun _ => Ret.ite (fun _ => Ret.pure (.inr (.inl rfl)))
    fun _ => Ret.ite (fun _ => Ret.pure (.inr (.inr rfl))) fun _ => Ret.of_dead_bind (failAt_dead _ _)

theorem ret_opTypes (n : Nat) :
    Ret (pSome .braceL .braceR n parseOperationTypeDefinition) (fun os => ∀ o ∈ os, isOperationType o.op) := by
  refine ret_pSome (Q := fun (o : OpTypeDef) => isOperationType o.op) .braceL .braceR n ?_
  unfold parseOperationTypeDefinition
  exact Ret.seq fun pos => Ret.bind ret_operationType fun op hop => Ret.seq fun _ => Ret.seq fun ty => Ret.pure hop

/-! ### separated lists -/

theorem ret_sepLoop {Q : Name → Prop} (sep : Kind) {item : Prog Name} (hitem : Ret item Q) :
    ∀ (n : Nat) (acc : List Name), (∀ x ∈ acc, Q x) → acc ≠ [] →
      Ret (sepLoop sep item n acc) (fun xs => (∀ x ∈ xs, Q x) ∧ xs ≠ [])
  | 0, _, _, _ => Ret.of_dead (outOfFuel_dead _)
  | n + 1, acc, hacc, hne => by
    unfold sepLoop
    refine Ret.seq fun b => Ret.ite (fun _ => Ret.seq fun e => Ret.ite (fun _ => Ret.pure ⟨hacc, hne⟩)
      (fun _ => Ret.bind hitem fun x hx => ret_sepLoop sep hitem n (x :: acc) (by
        intro y hy; rcases List.mem_cons.1 hy with rfl | hy
        · exact hx
        · exact hacc y hy) (by simp))) (fun _ => Ret.pure ⟨hacc, hne⟩)

theorem ret_directiveLocations (n : Nat) :
    Ret (parseDirectiveLocations n) (fun ls => ls ≠ [] ∧ ∀ l ∈ ls, l ∈ Gql.Grammar.directiveLocationNames) := by
  have hitem : Ret parseDirectiveLocation (fun l => l ∈ Gql.Grammar.directiveLocationNames) := by
    unfold parseDirectiveLocation
    exact Ret.seq fun name => Ret.ite (fun hc => Ret.pure (by rw [← locationNames_eq]; exact List.contains_iff_mem.1 hc))
      (fun _ => Ret.of_dead_bind (failAt_dead _ _))
  unfold parseDirectiveLocations
  exact Ret.seq fun _ => Ret.bind hitem fun first hf =>
    Ret.bind (ret_sepLoop .pipe hitem n [first] (by simpa using hf) (by simp)) fun more hm =>
      Ret.pure ⟨by simpa using hm.2, fun l hl => hm.1 l (by simpa using hl)⟩

/-! ### type definitions and extensions -/

theorem ret_parseScalarTypeDefinition (n : Nat) (desc : Bytes) : Ret (parseScalarTypeDefinition n desc) DefOK := by
  unfold parseScalarTypeDefinition
  exact Ret.seq fun _ => Ret.seq fun pos => Ret.seq fun name => Ret.bind (ret_cdirs n) fun ds hds =>
    Ret.pure ⟨hds, rfl, rfl, rfl, rfl⟩

theorem ret_parseObjectTypeDefinition (n : Nat) (desc : Bytes) : Ret (parseObjectTypeDefinition n desc) DefOK := by
  unfold parseObjectTypeDefinition
  exact Ret.seq fun _ => Ret.seq fun pos => Ret.seq fun name => Ret.seq fun ifs => Ret.bind (ret_cdirs n) fun ds hds => Ret.bind (ret_fields n) fun fs hfs =>
    Ret.pure ⟨hds, rfl, rfl, hfs⟩

theorem ret_parseInterfaceTypeDefinition (n : Nat) (desc : Bytes) : Ret (parseInterfaceTypeDefinition n desc) DefOK := by
  unfold parseInterfaceTypeDefinition
  exact Ret.seq fun _ => Ret.seq fun pos => Ret.seq fun name => Ret.seq fun ifs => Ret.bind (ret_cdirs n) fun ds hds => Ret.bind (ret_fields n) fun fs hfs =>
    Ret.pure ⟨hds, rfl, rfl, hfs⟩

theorem ret_parseUnionTypeDefinition (n : Nat) (desc : Bytes) : Ret (parseUnionTypeDefinition n desc) DefOK := by
  unfold parseUnionTypeDefinition
  exact Ret.seq fun _ => Ret.seq fun pos => Ret.seq fun name => Ret.bind (ret_cdirs n) fun ds hds => Ret.seq fun ts =>
    Ret.pure ⟨hds, rfl, rfl, rfl⟩

theorem ret_parseEnumTypeDefinition (n : Nat) (desc : Bytes) : Ret (parseEnumTypeDefinition n desc) DefOK := by
  unfold parseEnumTypeDefinition
  exact Ret.seq fun _ => Ret.seq fun pos => Ret.seq fun name => Ret.bind (ret_cdirs n) fun ds hds => Ret.bind (ret_enumVals n) fun es hes =>
    Ret.pure ⟨hds, rfl, rfl, rfl, hes⟩

theorem ret_parseInputObjectTypeDefinition (n : Nat) (desc : Bytes) : Ret (parseInputObjectTypeDefinition n desc) DefOK := by
  unfold parseInputObjectTypeDefinition
  exact Ret.seq fun _ => Ret.seq fun pos => Ret.seq fun name => Ret.bind (ret_cdirs n) fun ds hds => Ret.bind (ret_inputFields n) fun fs hfs =>
    Ret.pure ⟨hds, rfl, rfl, rfl, hfs⟩

theorem ret_parseScalarTypeExtension (n : Nat) : Ret (parseScalarTypeExtension n) (fun d => DefOK d ∧ d.desc = [] ∧ ExtendsSomething d) := by
  unfold parseScalarTypeExtension
  exact Ret.seq fun _ => Ret.seq fun pos => Ret.seq fun name => Ret.bind (ret_cdirs n) fun ds hds =>
    Ret.ite (fun _ => Ret.of_dead_bind unexpectedError_dead)
      (fun hc => Ret.pure ⟨⟨hds, rfl, rfl, rfl, rfl⟩, rfl, by
        simp only [ExtendsSomething]
        intro e; exact hc (by simp [e])⟩)

theorem ret_parseObjectTypeExtension (n : Nat) : Ret (parseObjectTypeExtension n) (fun d => DefOK d ∧ d.desc = [] ∧ ExtendsSomething d) := by
  unfold parseObjectTypeExtension
  exact Ret.seq fun _ => Ret.seq fun pos => Ret.seq fun name => Ret.seq fun ifs => Ret.bind (ret_cdirs n) fun ds hds => Ret.bind (ret_fields n) fun fs hfs =>
    Ret.ite (fun _ => Ret.of_dead_bind unexpectedError_dead)
      (fun hc => Ret.pure ⟨⟨hds, rfl, rfl, hfs⟩, rfl, by
        simp only [ExtendsSomething]
        cases ifs <;> cases ds <;> cases fs <;> simp_all⟩)

theorem ret_parseInterfaceTypeExtension (n : Nat) : Ret (parseInterfaceTypeExtension n) (fun d => DefOK d ∧ d.desc = [] ∧ ExtendsSomething d) := by
  unfold parseInterfaceTypeExtension
  exact Ret.seq fun _ => Ret.seq fun pos => Ret.seq fun name => Ret.seq fun ifs => Ret.bind (ret_cdirs n) fun ds hds => Ret.bind (ret_fields n) fun fs hfs =>
    Ret.ite (fun _ => Ret.of_dead_bind unexpectedError_dead)
      (fun hc => Ret.pure ⟨⟨hds, rfl, rfl, hfs⟩, rfl, by
        simp only [ExtendsSomething]
        cases ifs <;> cases ds <;> cases fs <;> simp_all⟩)

theorem ret_parseUnionTypeExtension (n : Nat) : Ret (parseUnionTypeExtension n) (fun d => DefOK d ∧ d.desc = [] ∧ ExtendsSomething d) := by
  unfold parseUnionTypeExtension
  exact Ret.seq fun _ => Ret.seq fun pos => Ret.seq fun name => Ret.bind (ret_cdirs n) fun ds hds => Ret.seq fun ts =>
    Ret.ite (fun _ => Ret.of_dead_bind unexpectedError_dead)
      (fun hc => Ret.pure ⟨⟨hds, rfl, rfl, rfl⟩, rfl, by
        simp only [ExtendsSomething]
        cases ds <;> cases ts <;> simp_all⟩)

theorem ret_parseEnumTypeExtension (n : Nat) : Ret (parseEnumTypeExtension n) (fun d => DefOK d ∧ d.desc = [] ∧ ExtendsSomething d) := by
  unfold parseEnumTypeExtension
  exact Ret.seq fun _ => Ret.seq fun pos => Ret.seq fun name => Ret.bind (ret_cdirs n) fun ds hds => Ret.bind (ret_enumVals n) fun es hes =>
    Ret.ite (fun _ => Ret.of_dead_bind unexpectedError_dead)
      (fun hc => Ret.pure ⟨⟨hds, rfl, rfl, rfl, hes⟩, rfl, by
        simp only [ExtendsSomething]
        cases ds <;> cases es <;> simp_all⟩)

theorem ret_parseInputObjectTypeExtension (n : Nat) : Ret (parseInputObjectTypeExtension n) (fun d => DefOK d ∧ d.desc = [] ∧ ExtendsSomething d) := by
  unfold parseInputObjectTypeExtension
  exact Ret.seq fun _ => Ret.seq fun pos => Ret.seq fun name => Ret.bind (ret_cdirs n) fun ds hds => Ret.bind (ret_inputFields n) fun fs hfs =>
    Ret.ite (fun _ => Ret.of_dead_bind unexpectedError_dead)
      (fun hc => Ret.pure ⟨⟨hds, rfl, rfl, rfl, hfs⟩, rfl, by
        simp only [ExtendsSomething]
        cases ds <;> cases fs <;> simp_all⟩)

theorem ret_typeSystemDefinition (n : Nat) (desc : Bytes) : Ret (parseTypeSystemDefinition n desc) DefOK := by
  unfold parseTypeSystemDefinition
  exact Ret.seq fun tok => Ret.ite (fun _ => Ret.of_dead_bind unexpectedError_dead) fun _ =>
    Ret.ite (fun _ => ret_parseScalarTypeDefinition n desc) fun _ =>
    Ret.ite (fun _ => ret_parseObjectTypeDefinition n desc) fun _ =>
    Ret.ite (fun _ => ret_parseInterfaceTypeDefinition n desc) fun _ =>
    Ret.ite (fun _ => ret_parseUnionTypeDefinition n desc) fun _ =>
    Ret.ite (fun _ => ret_parseEnumTypeDefinition n desc) fun _ =>
    Ret.ite (fun _ => ret_parseInputObjectTypeDefinition n desc) fun _ => Ret.of_dead_bind unexpectedError_dead

/-! ### items and the document -/

/-- `ItemOK` without "a schema definition lists at least one root operation type" (that one fact
    depends on the tokens and comes from the soundness proof) -/
def ItemOKw : SItem → Prop
  | .schema s => CDirs s.dirs ∧ ∀ o ∈ s.opTypes, isOperationType o.op
  | it => ItemOK it

theorem ret_schemaDefinition (n : Nat) (desc : Bytes) :
    Ret (parseSchemaDefinition n desc) (fun s => CDirs s.dirs ∧ ∀ o ∈ s.opTypes, isOperationType o.op) := by
  unfold parseSchemaDefinition
  exact Ret.seq fun _ => Ret.seq fun pos => Ret.bind (ret_cdirs n) fun ds hds => Ret.seq fun t =>
    Ret.ite (fun _ => Ret.of_dead_bind unexpectedError_dead)
      (fun _ => Ret.bind (ret_opTypes n) fun os hos => Ret.pure ⟨hds, hos⟩)

theorem ret_schemaExtension (n : Nat) : Ret (parseSchemaExtension n) SchemaExtOK := by
  unfold parseSchemaExtension
  exact Ret.seq fun _ => Ret.seq fun pos => Ret.bind (ret_cdirs n) fun ds hds => Ret.bind (ret_opTypes n) fun os hos =>
    Ret.ite (fun _ => Ret.of_dead_bind unexpectedError_dead)
      (fun hc => Ret.pure ⟨rfl, hds, by cases ds <;> cases os <;> simp_all, hos⟩)

theorem ret_directiveDefinition (n : Nat) (desc : Bytes) : Ret (parseDirectiveDefinition n desc) DirectiveDefOK := by
  rw [parseDirectiveDefinition_eq]
  have htail : ∀ pos name args rep, (∀ a ∈ args, ArgDefOK a) → Ret (directiveTail n desc pos name args rep) DirectiveDefOK := by
    intro pos name args rep hargs
    unfold directiveTail
    exact Ret.seq fun _ => Ret.bind (ret_directiveLocations n) fun ls hls => Ret.pure ⟨hargs, hls.1, hls.2⟩
  exact Ret.seq fun _ => Ret.seq fun _ => Ret.seq fun pos => Ret.seq fun name => Ret.bind (ret_argDefs n) fun as has =>
    Ret.seq fun pk => Ret.ite (fun _ => Ret.seq fun _ => htail pos name as true has) (fun _ => htail pos name as false has)

theorem ret_typeSystemExtension (n : Nat) (doc : SchemaDoc) (hdoc : DocAll ItemOKw doc) :
    Ret (parseTypeSystemExtension n doc) (DocAll ItemOKw) := by
  have hext : ∀ (p : Prog Definition), Ret p (fun d => DefOK d ∧ d.desc = [] ∧ ExtendsSomething d) →
      Ret (p >>= fun d => Pure.pure { doc with extensions := doc.extensions ++ [d] }) (DocAll ItemOKw) := by
    intro p hp
    exact Ret.bind hp fun d hd => Ret.pure ((DocAll.add doc (.extension d)).2 ⟨hdoc, hd⟩)
  unfold parseTypeSystemExtension
  exact Ret.seq fun _ => Ret.seq fun t =>
    Ret.ite (fun _ => Ret.bind (ret_schemaExtension n) fun s hs => Ret.pure ((DocAll.add doc (.schemaExt s)).2 ⟨hdoc, hs⟩)) fun _ =>
    Ret.ite (fun _ => hext _ (ret_parseScalarTypeExtension n)) fun _ =>
    Ret.ite (fun _ => hext _ (ret_parseObjectTypeExtension n)) fun _ =>
    Ret.ite (fun _ => hext _ (ret_parseInterfaceTypeExtension n)) fun _ =>
    Ret.ite (fun _ => hext _ (ret_parseUnionTypeExtension n)) fun _ =>
    Ret.ite (fun _ => hext _ (ret_parseEnumTypeExtension n)) fun _ =>
    Ret.ite (fun _ => hext _ (ret_parseInputObjectTypeExtension n)) fun _ => Ret.of_dead_bind unexpectedError_dead

theorem ret_schemaDocLoop (m : Nat) : ∀ (n : Nat) (doc : SchemaDoc), DocAll ItemOKw doc → Ret (schemaDocLoop m n doc) (DocAll ItemOKw)
  | 0, _, _ => Ret.of_dead (outOfFuel_dead _)
  | n + 1, doc, hdoc => by
    have ih := ret_schemaDocLoop m n
    rw [schemaDocLoop_succ]
    refine Ret.seq fun t => Ret.ite (fun _ => Ret.hasErr_bind (Ret.ite (fun h => by cases h) (fun _ => Ret.seq fun x => ?_)))
      (fun _ => Ret.pure hdoc)
    · obtain ⟨description, has⟩ := x
      refine Ret.seq fun c => Ret.ite (fun _ => Ret.of_dead_bind unexpectedError_dead) (fun _ => Ret.seq fun d => ?_)
      unfold docDispatch
      exact Ret.ite (fun _ => Ret.bind (ret_typeSystemDefinition m description) fun df hdf =>
          ih _ ((DocAll.add doc (.definition df)).2 ⟨hdoc, hdf⟩)) fun _ =>
        Ret.ite (fun _ => Ret.bind (ret_schemaDefinition m description) fun sd hsd =>
          ih _ ((DocAll.add doc (.schema sd)).2 ⟨hdoc, hsd⟩)) fun _ =>
        Ret.ite (fun _ => Ret.bind (ret_directiveDefinition m description) fun dd hdd =>
          ih _ ((DocAll.add doc (.directive dd)).2 ⟨hdoc, hdd⟩)) fun _ =>
        Ret.ite (fun _ => Ret.seq fun _ => Ret.bind (ret_typeSystemExtension m doc hdoc) fun doc' hdoc' => ih doc' hdoc')
          (fun _ => Ret.of_dead_bind unexpectedError_dead)

/-! ### every tree the schema parser returns is printable -/

theorem many_mem {α : Type} {P : α → List Token → Prop} {xs : List α} {used : List Token} (h : Many P xs used) :
    ∀ x ∈ xs, ∃ u, P x u := by
  induction h with
  | nil => intro _ h; cases h
  | @cons x xs u us hx _ ih =>
    intro y hy
    rcases List.mem_cons.1 hy with rfl | hy
    · exact ⟨u, hx⟩
    · exact ih y hy

theorem itemOK_of_w {it : SItem} (h : ItemOKw it) (hs : ∀ s, it = .schema s → s.opTypes ≠ []) : ItemOK it := by
  cases it with
  | schema s => exact ⟨h.1, hs s rfl, h.2⟩
  | schemaExt s => exact h
  | directive d => exact h
  | definition d => exact h
  | extension d => exact h

theorem itemOK_setBI (b : Bool) {it : SItem} (h : ItemOK it) : ItemOK (it.setBI b) := by
  cases it with
  | schema s => exact h
  | schemaExt s => exact h
  | directive d => exact h
  | definition d => exact h
  | extension d => exact h

theorem runSchema_printable (src : Nat) (inp : Bytes) (d0 : SchemaDoc) (h : Result.ofRun (runSchema 0 src inp) = .ok d0) :
    PrintableSchema d0 := by
  obtain ⟨hoof, herr, hdoc⟩ := ofRun_ok.1 h
  have hlive : dead (runSchema 0 src inp).2 = false := by simp [dead, hoof, herr]
  obtain ⟨raw, eof, hlex, heof, hraw, hsorted, hcount, r, huniq⟩ :=
    run_to_eof (spec_parseSchemaDocument (fuelFor inp)) src inp hlive
      (fun _ _ _ ⟨_, used, h1, h2, h3, _⟩ => ⟨used, h1, h2, h3⟩)
  obtain ⟨items, used, hate, hpk, hk, hd, hm⟩ := r
  have hfilter := huniq used hate
  have hd0 : d0 = items.foldl SchemaDoc.add SchemaDoc.empty := by rw [← hdoc]; exact hd
  have hused_sorted : used.Pairwise (fun a b => a.start < b.start) := by
    rw [← hfilter]; exact hsorted.sublist List.filter_sublist
  obtain ⟨_, k2⟩ := many_keys_gen (key := fun it => (sItem it).1) hm (fun x u p => p.1) hused_sorted
  -- the token-independent invariants
  have hw : DocAll ItemOKw d0 := by
    rw [← hdoc]
    have : Ret (parseSchemaDocument (fuelFor inp)) (DocAll ItemOKw) := by
      unfold parseSchemaDocument
      exact Ret.seq fun _ => ret_schemaDocLoop _ _ _ (DocAll.empty _)
    exact this (PState.init src inp) hlive
  -- schema definitions list their root operation types
  have hitemsw : ∀ it ∈ items, ItemOKw it := by
    rw [hd0] at hw
    exact ((DocAll.foldl items SchemaDoc.empty).1 hw).2
  have hitems : ∀ it ∈ items, ItemOK it := by
    intro it hit
    refine itemOK_of_w (hitemsw it hit) ?_
    rintro s rfl
    obtain ⟨u, _, hwf⟩ := many_mem hm _ hit
    exact (hwf trivial).2.2.1
  have hall : DocAll ItemOK d0 := by
    rw [hd0]; exact (DocAll.foldl items SchemaDoc.empty).2 ⟨DocAll.empty _, hitems⟩
  refine ⟨hall, ?_⟩
  rw [hd0, foldl_add_lists]
  simp only [SchemaDoc.empty, List.nil_append]
  refine ⟨?_, ?_, ?_, ?_, ?_⟩ <;>
    refine List.Pairwise.filterMap _ ?_ k2 <;>
    intro a a' hlt b hb b' hb' <;>
    cases a <;> cases a' <;> simp_all [getSchema, getSchemaExt, getDirective, getDefinition, getExtension, sItem] <;> omega

theorem printable_setBuiltIn (b : Bool) {d : SchemaDoc} (h : PrintableSchema d) : PrintableSchema (setBuiltIn b d) := by
  obtain ⟨⟨h1, h2, h3, h4, h5⟩, s1, s2, s3, s4, s5⟩ := h
  refine ⟨⟨h1, h2, h3, ?_, ?_⟩, s1, s2, s3, ?_, ?_⟩
  · intro x hx
    simp only [setBuiltIn, List.mem_map] at hx
    obtain ⟨y, hy, rfl⟩ := hx
    exact h4 y hy
  · intro x hx
    simp only [setBuiltIn, List.mem_map] at hx
    obtain ⟨y, hy, rfl⟩ := hx
    exact h5 y hy
  · simp only [setBuiltIn, List.pairwise_map]; exact s4
  · simp only [setBuiltIn, List.pairwise_map]; exact s5

/-- every tree the schema parser returns is printable -/
theorem parseSchemaSrc_printable (src : Nat) (b : Bool) (inp : Bytes) (d : SchemaDoc) (h : parseSchemaSrc 0 src b inp = .ok d) :
    PrintableSchema d := by
  obtain ⟨d0, h0, rfl⟩ := parseSchemaSrc_ok.1 h
  exact printable_setBuiltIn b (runSchema_printable src inp d0 h0)

theorem setBuiltIn_idem (b : Bool) (d : SchemaDoc) : setBuiltIn b (setBuiltIn b d) = setBuiltIn b d := by
  simp [setBuiltIn, List.map_map, Function.comp_def]

/-- **parse ∘ print ∘ parse = parse** for type-system documents (up to positions) -/
theorem parseSchemaSrc_print_parse (src src' : Nat) (b : Bool) (inp inp' : Bytes) (d : SchemaDoc)
    (h : parseSchemaSrc 0 src b inp = .ok d) (htok : tokensOf inp' = some (printSchema d)) :
    ∃ d', parseSchemaSrc 0 src' b inp' = .ok d' ∧ d'.erasePos = d.erasePos := by
  obtain ⟨d', h1, h2⟩ := parseSchemaSrc_print d (parseSchemaSrc_printable src b inp d h) src' b inp' htok
  obtain ⟨d0, _, rfl⟩ := parseSchemaSrc_ok.1 h
  rw [setBuiltIn_idem] at h2
  exact ⟨d', h1, h2⟩

end Gql.Parser
