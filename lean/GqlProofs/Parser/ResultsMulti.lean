import GqlProofs.Parser.Results
import GqlProofs.Parser.SoundSchemaTop
/-
  Exactness of the token limit for SEVERAL sources (`ParseSchemasWithLimit`): the limit applies to
  every source on its own, whatever its BuiltIn mark; used by `Props/C16.lean`.
-/
namespace Gql.Parser
open Gql

/-- whether a multi-source parse succeeds does not depend on what was merged so far -/
theorem parseSchemasFrom_isOk_acc (L : Nat) (srcs : List (Bool × Bytes)) (i : Nat) (acc acc' : SchemaDoc) :
    (parseSchemasFrom L i acc srcs).isOk = (parseSchemasFrom L i acc' srcs).isOk := by
  induction srcs generalizing i acc acc' with
  | nil => simp [parseSchemasFrom, Result.isOk]
  | cons x rest ih =>
    obtain ⟨bi, inp⟩ := x
    unfold parseSchemasFrom
    cases h1 : parseSchemaSrc L i bi inp with
    | ok d1 => exact ih _ _ _
    | error e => rfl
    | outOfFuel => rfl

/-- one source, any index and any BuiltIn mark: exact with the lexer's own token count -/
theorem parseSchemaSrc_exact {L : Nat} (hL : L ≠ 0) (src : Nat) (b : Bool) (inp : Bytes) :
    (parseSchemaSrc L src b inp).isOk = true ↔
      (parseSchemaSrc 0 src b inp).isOk = true ∧ countTokens inp ≤ L := by
  rw [parseSchemaSrc_isOk, parseSchemaSrc_isOk]
  have key : (Result.ofRun (runSchema L src inp)).isOk = true ↔
      (Result.ofRun (runSchema 0 src inp)).isOk = true ∧ (runSchema 0 src inp).2.tokenCount ≤ L := ofRun_exact hL _ src inp
  rw [key]
  have cnt : (Result.ofRun (runSchema 0 src inp)).isOk = true → (runSchema 0 src inp).2.tokenCount = countTokens inp := by
    intro hok
    cases hp : Result.ofRun (runSchema 0 src inp) with
    | ok d => exact countTokens_schema src inp d hp
    | error e => rw [hp] at hok; cases hok
    | outOfFuel => rw [hp] at hok; cases hok
  constructor
  · intro ⟨hok, hle⟩; exact ⟨hok, by rw [← cnt hok]; exact hle⟩
  · intro ⟨hok, hle⟩; exact ⟨hok, by rw [cnt hok]; exact hle⟩

/-- the BuiltIn mark of a source has no influence on whether it parses -/
theorem parseSchemaSrc_isOk_flag (L src : Nat) (b b' : Bool) (inp : Bytes) :
    (parseSchemaSrc L src b inp).isOk = (parseSchemaSrc L src b' inp).isOk := by
  rw [parseSchemaSrc_isOk, parseSchemaSrc_isOk]

theorem parseSchemasFrom_exact {L : Nat} (hL : L ≠ 0) (srcs : List (Bool × Bytes)) (i : Nat) (acc : SchemaDoc) :
    (parseSchemasFrom L i acc srcs).isOk = true ↔
      (parseSchemasFrom 0 i acc srcs).isOk = true ∧ ∀ s ∈ srcs, countTokens s.2 ≤ L := by
  induction srcs generalizing i acc with
  | nil => simp [parseSchemasFrom, Result.isOk]
  | cons x rest ih =>
    obtain ⟨bi, inp⟩ := x
    have hx := parseSchemaSrc_exact hL i bi inp
    unfold parseSchemasFrom
    cases h1 : parseSchemaSrc L i bi inp with
    | ok d1 =>
      have h0 : parseSchemaSrc 0 i bi inp = .ok d1 := parseSchemaSrc_mono (stricter_zero L) i bi inp d1 h1
      have hle : countTokens inp ≤ L := (hx.1 (by rw [h1]; rfl)).2
      rw [h0]
      simp only [List.mem_cons, forall_eq_or_imp]
      rw [ih (i + 1) (acc.merge d1)]
      constructor
      · intro ⟨a, b⟩; exact ⟨a, hle, b⟩
      · intro ⟨a, _, b⟩; exact ⟨a, b⟩
    | error e =>
      have hno : ¬ ((parseSchemaSrc 0 i bi inp).isOk = true ∧ countTokens inp ≤ L) := by
        intro h; have := hx.2 h; rw [h1] at this; cases this
      constructor
      · intro h; cases h
      · intro ⟨hok, hall⟩
        exfalso; apply hno
        refine ⟨?_, hall (bi, inp) (List.mem_cons_self ..)⟩
        cases h0 : parseSchemaSrc 0 i bi inp with
        | ok d0 => rfl
        | error e0 => rw [h0] at hok; cases hok
        | outOfFuel => rw [h0] at hok; cases hok
    | outOfFuel =>
      have hno : ¬ ((parseSchemaSrc 0 i bi inp).isOk = true ∧ countTokens inp ≤ L) := by
        intro h; have := hx.2 h; rw [h1] at this; cases this
      constructor
      · intro h; cases h
      · intro ⟨hok, hall⟩
        exfalso; apply hno
        refine ⟨?_, hall (bi, inp) (List.mem_cons_self ..)⟩
        cases h0 : parseSchemaSrc 0 i bi inp with
        | ok d0 => rfl
        | error e0 => rw [h0] at hok; cases hok
        | outOfFuel => rw [h0] at hok; cases hok

/-- the BuiltIn marks of the sources have no influence on whether the sources parse -/
theorem parseSchemasFrom_isOk_flags (L : Nat) (srcs : List (Bool × Bytes)) (i : Nat) (acc acc' : SchemaDoc) :
    (parseSchemasFrom L i acc srcs).isOk = (parseSchemasFrom L i acc' (srcs.map fun s => (false, s.2))).isOk := by
  induction srcs generalizing i acc acc' with
  | nil => simp [parseSchemasFrom, Result.isOk]
  | cons x rest ih =>
    obtain ⟨bi, inp⟩ := x
    simp only [List.map_cons]
    unfold parseSchemasFrom
    have hf := parseSchemaSrc_isOk_flag L i bi false inp
    cases h1 : parseSchemaSrc L i bi inp with
    | ok d1 =>
      cases h2 : parseSchemaSrc L i false inp with
      | ok d2 => exact ih _ _ _
      | error e => rw [h1, h2] at hf; cases hf
      | outOfFuel => rw [h1, h2] at hf; cases hf
    | error e =>
      cases h2 : parseSchemaSrc L i false inp with
      | ok d2 => rw [h1, h2] at hf; cases hf
      | error e => rfl
      | outOfFuel => rfl
    | outOfFuel =>
      cases h2 : parseSchemaSrc L i false inp with
      | ok d2 => rw [h1, h2] at hf; cases hf
      | error e => rfl
      | outOfFuel => rfl

end Gql.Parser
