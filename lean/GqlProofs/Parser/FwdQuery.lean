import GqlProofs.Parser.Fwd
import GqlProofs.Parser.ErasePos
/-
  The converse of `SoundQuery.lean` on printed trees: a run of a query parser program on a stream
  that STARTS with the printed tokens of a tree ends live, consumes exactly those tokens and
  returns the tree up to positions (`erasePos`).

  The side conditions on the tree (`ValueOK`, …) say that the parts the unparser does not print
  have the values the parser gives them (a Name literal has the kind its text determines, scalar
  literals have no children, list items have no names, list and object values have no raw text).
  Optional trailing parts need a follow condition on the rest of the stream (the grammar is LL(1)).
-/
namespace Gql.Parser
open Gql Gql.Lexer Gql.Grammar Gql.Print

/-! ### printable values -/

mutual
  /-- the parts of a value that the unparser does not print are what the parser would build -/
  def ValueOK : Value → Prop
    | .mk k raw ch _ =>
      match k with
      | .variable | .int | .float | .string | .block => ch = .nil
      | .boolean | .null | .enum => ch = .nil ∧ k = nameValueKind raw
      | .list => raw = [] ∧ ItemsOK ch
      | .object => raw = [] ∧ FieldsOK ch
  def ItemsOK : Children → Prop
    | .nil => True
    | .cons n v _ rest => n = [] ∧ ValueOK v ∧ ItemsOK rest
  def FieldsOK : Children → Prop
    | .nil => True
    | .cons _ v _ rest => ValueOK v ∧ FieldsOK rest
end

/-- a single-token start: unpack `Starts σ [t] σ'` -/
theorem Starts.single {σ σ' : Stream} {t : Tok} (h : Starts σ [t] σ') : ∃ u, σ = .cons u σ' ∧ Tok.ofToken u = t := by
  obtain ⟨u, σ1, hσ, hu, hrest⟩ := Starts.cons_iff.1 h
  rw [Starts.nil_iff] at hrest
  subst hrest
  exact ⟨u, hσ, hu⟩

theorem Starts.cons_single {σ σ' : Stream} {t : Tok} {ts : List Tok} (h : Starts σ (t :: ts) σ') :
    ∃ σ1, Starts σ [t] σ1 ∧ Starts σ1 ts σ' := by
  rw [← List.singleton_append] at h
  exact Starts.append_iff.1 h

theorem ofToken_kind {u : Token} {t : Tok} (h : Tok.ofToken u = t) : u.kind = t.kind := by rw [← h]; rfl
theorem ofToken_value {u : Token} {t : Tok} (h : Tok.ofToken u = t) : u.value = t.value := by rw [← h]; rfl

theorem fwd_litValue {a : AS} {token : Token} {σ' : Stream} (src : Nat) (k : ValueKind) (hpk : a.pk = true)
    (hσ : a.σ = .cons token σ') :
    Fwd (litValue src token k) a (fun v a' => v = .mk k token.value .nil (posOf src token) ∧ a'.σ = σ') := by
  unfold litValue
  refine Fwd.bind (fwd_next hpk hσ) ?_
  rintro _ a1 ⟨_, rfl⟩
  exact (Fwd.pure _ _).mono fun _ _ h => ⟨h.1, by rw [h.2]⟩

theorem fwd_parseVariable {a : AS} {σ' : Stream} (n : Name) (h : Starts a.σ [tP .dollar, tName n] σ') :
    Fwd parseVariable a (fun x a' => x = n ∧ a'.σ = σ') := by
  obtain ⟨σ1, h1, h2⟩ := h.cons_single
  unfold parseVariable
  refine Fwd.bind (fwd_punct .dollar h1) ?_
  rintro _ a1 hσ
  exact fwd_parseName n (by rw [hσ]; exact h2)

/-- the first token of a printed value -/
def valueStart : List Kind := [.dollar, .int, .float, .string, .blockString, .name, .bracketL, .braceL]

theorem head_printValue (v : Value) : ∃ t rest, printValue v = t :: rest ∧ t.kind ∈ valueStart := by
  obtain ⟨k, raw, ch, p⟩ := v
  cases k <;> simp [printValue, valueStart, tP, tName]

theorem printItems_eq : ∀ ch : Children, printItems ch = ch.toList.flatMap fun x => printValue x.2.1
  | .nil => rfl
  | .cons n v p rest => by simp [printItems, Children.toList, printItems_eq rest]

theorem printObjFields_eq : ∀ ch : Children,
    printObjFields ch = ch.toList.flatMap fun x => tName x.1 :: tP .colon :: printValue x.2.1
  | .nil => rfl
  | .cons n v p rest => by simp [printObjFields, Children.toList, printObjFields_eq rest]

/-- erasure on the items of a child list -/
def eraseChild (x : Name × Value × Pos) : Name × Value × Pos := (x.1, x.2.1.erasePos, Pos.zero)

theorem erase_of_children {ys : List (Name × Value × Pos)} {ch : Children}
    (h : ys.map eraseChild = ch.toList.map eraseChild) : (Children.ofList ys).erasePos = ch.erasePos := by
  rw [Children.erasePos_ofList, ← Children.ofList_toList ch, Children.erasePos_ofList]
  exact congrArg Children.ofList h

/-- what the value parser does on the printed tokens of `v` -/
def FwdValue (c : Bool) (v : Value) : Prop :=
  ∀ (n : Nat) (a : AS) (σ' : Stream), Starts a.σ (printValue v) σ' →
    Fwd (parseValueLiteral n c) a (fun v' a' => v'.erasePos = v.erasePos ∧ a'.σ = σ')

theorem fwd_list {c : Bool} {raw : Bytes} {ch : Children} {p : Pos} (hraw : raw = [])
    (hitems : ∀ x ∈ ch.toList, x.1 = [] ∧ FwdValue c x.2.1) : FwdValue c (.mk .list raw ch p) := by
  subst hraw
  intro n a σ' hs
  cases n with
  | zero => exact Fwd.outOfFuel _ _ _
  | succ n =>
    unfold parseValueLiteral
    refine Fwd.bind (fwd_peek a) ?_
    rintro token a1 ⟨rfl, rfl⟩
    refine Fwd.bind (fwd_getSrc _) ?_
    rintro src a2 rfl
    have hk : a.σ.head.kind = .bracketL := by
      simp only [printValue] at hs; exact hs.head_kind
    simp only [hk]
    unfold parseListWith
    refine Fwd.bind (fwd_peekPos _) ?_
    rintro pos a3 rfl
    have hs' : Starts a.σ (tP .bracketL :: ch.toList.flatMap (fun x => printValue x.2.1) ++ [tP .bracketR]) σ' := by
      simpa [printValue, printItems_eq] using hs
    have hb := (fwd_bracket eraseChild (fun x => printValue x.2.1) (fun _ => True) .bracketL .bracketR
      (cb := parseValueLiteral n c >>= fun v => Pure.pure (([] : Name), v, Pos.zero)) ch.toList
      (fun x hx a0 σ1 hst _ => by
        refine Fwd.bind ((hitems x hx).2 n a0 σ1 hst) ?_
        rintro v' a4 ⟨hv, hσ⟩
        refine (Fwd.pure _ _).mono ?_
        rintro y a5 ⟨rfl, rfl⟩
        exact ⟨by simp [eraseChild, hv, (hitems x hx).1], hσ⟩)
      (fun x _ => by
        obtain ⟨t, rest, h1, h2⟩ := head_printValue x.2.1
        exact ⟨t, rest, h1, by intro e; rw [e] at h2; simp [valueStart] at h2⟩)
      (fun _ _ => trivial) (n + 1) { pk := true, σ := a.σ, cnt := a.cnt } σ' hs').1
    refine Fwd.bind hb ?_
    rintro ys a4 ⟨hy, hσ⟩
    refine (Fwd.pure _ _).mono ?_
    rintro v' a5 ⟨rfl, rfl⟩
    exact ⟨by simp only [Value.erasePos, erase_of_children hy], hσ⟩

theorem fwd_object {c : Bool} {raw : Bytes} {ch : Children} {p : Pos} (hraw : raw = [])
    (hfields : ∀ x ∈ ch.toList, FwdValue c x.2.1) : FwdValue c (.mk .object raw ch p) := by
  subst hraw
  intro n a σ' hs
  cases n with
  | zero => exact Fwd.outOfFuel _ _ _
  | succ n =>
    unfold parseValueLiteral
    refine Fwd.bind (fwd_peek a) ?_
    rintro token a1 ⟨rfl, rfl⟩
    refine Fwd.bind (fwd_getSrc _) ?_
    rintro src a2 rfl
    have hk : a.σ.head.kind = .braceL := by
      simp only [printValue] at hs; exact hs.head_kind
    simp only [hk]
    unfold parseObjectWith
    refine Fwd.bind (fwd_peekPos _) ?_
    rintro pos a3 rfl
    have hs' : Starts a.σ (tP .braceL :: ch.toList.flatMap (fun x => tName x.1 :: tP .colon :: printValue x.2.1)
        ++ [tP .braceR]) σ' := by
      simpa [printValue, printObjFields_eq] using hs
    have hb := (fwd_bracket eraseChild (fun x => tName x.1 :: tP .colon :: printValue x.2.1) (fun _ => True) .braceL .braceR
      (cb := parseObjectFieldWith (parseValueLiteral n c)) ch.toList
      (fun x hx a0 σ1 hst _ => by
        obtain ⟨σa, h1, hst⟩ := hst.cons_single
        obtain ⟨σb, h2, h3⟩ := hst.cons_single
        unfold parseObjectFieldWith
        refine Fwd.bind (fwd_peekPos _) ?_
        rintro pos' b1 rfl
        refine Fwd.bind (fwd_parseName x.1 h1) ?_
        rintro nm b2 ⟨rfl, hσ2⟩
        refine Fwd.bind (fwd_punct .colon (by rw [hσ2]; exact h2)) ?_
        rintro _ b3 hσ3
        refine Fwd.bind (hfields x hx n b3 σ1 (by rw [hσ3]; exact h3)) ?_
        rintro v' b4 ⟨hv, hσ⟩
        refine (Fwd.pure _ _).mono ?_
        rintro y b5 ⟨rfl, rfl⟩
        exact ⟨by simp [eraseChild, hv], hσ⟩)
      (fun x _ => ⟨_, _, rfl, by simp [tName]⟩)
      (fun _ _ => trivial) (n + 1) { pk := true, σ := a.σ, cnt := a.cnt } σ' hs').1
    refine Fwd.bind hb ?_
    rintro ys a4 ⟨hy, hσ⟩
    refine (Fwd.pure _ _).mono ?_
    rintro v' a5 ⟨rfl, rfl⟩
    exact ⟨by simp only [Value.erasePos, erase_of_children hy], hσ⟩

/-- the value kind of a scalar literal token -/
def litKind (u : Token) : ValueKind :=
  match u.kind with
  | .int => .int
  | .float => .float
  | .string => .string
  | .blockString => .block
  | _ => nameValueKind u.value

theorem fwd_scalarToken (c : Bool) (n : Nat) {a : AS} {u : Token} {σ' : Stream} (hσ : a.σ = .cons u σ')
    (hk : u.kind = .int ∨ u.kind = .float ∨ u.kind = .string ∨ u.kind = .blockString ∨ u.kind = .name) :
    Fwd (parseValueLiteral (n + 1) c) a
      (fun v a' => v.erasePos = .mk (litKind u) u.value .nil Pos.zero ∧ a'.σ = σ') := by
  unfold parseValueLiteral
  refine Fwd.bind (fwd_peek a) ?_
  rintro token a1 ⟨rfl, rfl⟩
  refine Fwd.bind (fwd_getSrc _) ?_
  rintro src a2 rfl
  have hh : a.σ.head = u := by rw [hσ]; rfl
  rw [hh]
  have fin : ∀ k, k = litKind u → Fwd (litValue src u k) { pk := true, σ := a.σ, cnt := a.cnt }
      (fun v a' => v.erasePos = .mk (litKind u) u.value .nil Pos.zero ∧ a'.σ = σ') := by
    intro k hk'
    refine (fwd_litValue (a := { pk := true, σ := a.σ, cnt := a.cnt }) src k rfl hσ).mono ?_
    rintro v a' ⟨rfl, hσ'⟩
    exact ⟨by simp [Value.erasePos, Children.erasePos, hk'], hσ'⟩
  rcases hk with h | h | h | h | h <;> simp only [h] <;> exact fin _ (by simp [litKind, h])

mutual
  /-- **values**: parsing the printed tokens of a printable value gives the value back -/
  theorem fwd_value (c : Bool) : ∀ v : Value, ValueOK v → (c = true → ConstValue v) → FwdValue c v
    | .mk k raw ch p, hok, hc => by
      cases k with
      | list =>
        simp only [ValueOK] at hok
        exact fwd_list hok.1 (fwd_items c ch hok.2 fun h => (hc h).2)
      | object =>
        simp only [ValueOK] at hok
        exact fwd_object hok.1 (fwd_fields c ch hok.2 fun h => (hc h).2)
      | «variable» =>
        simp only [ValueOK] at hok
        subst hok
        have hcf : c = false := by
          cases c with
          | false => rfl
          | true => exact absurd rfl (hc rfl).1
        subst hcf
        intro n a σ' hs
        cases n with
        | zero => exact Fwd.outOfFuel _ _ _
        | succ n =>
          simp only [printValue] at hs
          unfold parseValueLiteral
          refine Fwd.bind (fwd_peek a) ?_
          rintro token a1 ⟨rfl, rfl⟩
          refine Fwd.bind (fwd_getSrc _) ?_
          rintro src a2 rfl
          have hk : a.σ.head.kind = .dollar := hs.head_kind
          simp only [hk]
          refine Fwd.ite_neg (by simp) (Fwd.bind (fwd_parseVariable raw hs) ?_)
          rintro r a3 ⟨rfl, hσ⟩
          refine (Fwd.pure _ _).mono ?_
          rintro v a' ⟨rfl, rfl⟩
          exact ⟨by simp [Value.erasePos, Children.erasePos], hσ⟩
      | int | float | string | block | boolean | null | «enum» =>
        all_goals
          simp only [ValueOK] at hok
          intro n a σ' hs
          cases n with
          | zero => exact Fwd.outOfFuel _ _ _
          | succ n =>
            simp only [printValue] at hs
            obtain ⟨u, hσ, hu⟩ := hs.single
            have hkk := ofToken_kind hu
            have hvv := ofToken_value hu
            simp only [tName] at hkk hvv
            refine (fwd_scalarToken c n hσ (by simp [hkk])).mono ?_
            rintro v a' ⟨hv, hσ'⟩
            refine ⟨?_, hσ'⟩
            rw [hv]
            first
              | (obtain ⟨rfl, hkind⟩ := hok
                 simp [Value.erasePos, Children.erasePos, litKind, hkk, hvv, ← hkind])
              | (subst hok
                 simp [Value.erasePos, Children.erasePos, litKind, hkk, hvv])
  theorem fwd_items (c : Bool) : ∀ ch : Children, ItemsOK ch → (c = true → ConstChildren ch) →
      ∀ x ∈ ch.toList, x.1 = [] ∧ FwdValue c x.2.1
    | .nil, _, _ => fun _ h => by cases h
    | .cons n v p rest, hok, hc => by
      simp only [ItemsOK] at hok
      intro x hx
      simp only [Children.toList, List.mem_cons] at hx
      rcases hx with rfl | hx
      · exact ⟨hok.1, fwd_value c v hok.2.1 fun h => (hc h).1⟩
      · exact fwd_items c rest hok.2.2 (fun h => (hc h).2) x hx
  theorem fwd_fields (c : Bool) : ∀ ch : Children, FieldsOK ch → (c = true → ConstChildren ch) →
      ∀ x ∈ ch.toList, FwdValue c x.2.1
    | .nil, _, _ => fun _ h => by cases h
    | .cons n v p rest, hok, hc => by
      simp only [FieldsOK] at hok
      intro x hx
      simp only [Children.toList, List.mem_cons] at hx
      rcases hx with rfl | hx
      · exact fwd_value c v hok.1 fun h => (hc h).1
      · exact fwd_fields c rest hok.2 (fun h => (hc h).2) x hx
end

/-! ### arguments and directives -/

def ArgsOK (as : List Argument) : Prop := ∀ a ∈ as, ValueOK a.value
def DirsOK (ds : List Directive) : Prop := ∀ d ∈ ds, ArgsOK d.args

theorem fwd_argument (c : Bool) (x : Argument) (hok : ValueOK x.value) (hc : c = true → ConstValue x.value)
    (n : Nat) (a : AS) (σ1 : Stream) (hs : Starts a.σ (printArgument x) σ1) :
    Fwd (parseArgument n c) a (fun y a' => y.erasePos = x.erasePos ∧ a'.σ = σ1) := by
  unfold printArgument at hs
  obtain ⟨σa, h1, hs⟩ := hs.cons_single
  obtain ⟨σb, h2, h3⟩ := hs.cons_single
  unfold parseArgument
  refine Fwd.bind (fwd_peekPos _) ?_
  rintro pos b1 rfl
  refine Fwd.bind (fwd_parseName x.name h1) ?_
  rintro nm b2 ⟨rfl, hσ2⟩
  refine Fwd.bind (fwd_punct .colon (by rw [hσ2]; exact h2)) ?_
  rintro _ b3 hσ3
  refine Fwd.bind (fwd_value c x.value hok hc n b3 σ1 (by rw [hσ3]; exact h3)) ?_
  rintro v' b4 ⟨hv, hσ⟩
  refine (Fwd.pure _ _).mono ?_
  rintro y b5 ⟨rfl, rfl⟩
  exact ⟨by simp [Argument.erasePos, hv], hσ⟩

theorem fwd_arguments (c : Bool) (as : List Argument) (hok : ArgsOK as) (hc : c = true → ∀ x ∈ as, ConstValue x.value)
    (n : Nat) (a : AS) (σ' : Stream) (hs : Starts a.σ (printArguments as) σ') (hfol : as = [] → σ'.head.kind ≠ .parenL) :
    Fwd (parseArguments n c) a (fun ys a' => ys.map Argument.erasePos = as.map Argument.erasePos ∧ a'.σ = σ') := by
  unfold parseArguments
  by_cases he : as = []
  · subst he
    simp only [printArguments, List.isEmpty_nil, if_true] at hs
    rw [Starts.nil_iff] at hs
    refine (fwd_bracket_absent .parenL .parenR n a (by rw [hs]; exact hfol rfl)).2.mono ?_
    rintro ys a' ⟨rfl, hσ⟩
    exact ⟨rfl, by rw [hσ, hs]⟩
  · have hp : printArguments as = tP .parenL :: as.flatMap printArgument ++ [tP .parenR] := by
      cases as with
      | nil => exact absurd rfl he
      | cons x r => simp [printArguments]
    rw [hp] at hs
    exact (fwd_bracket Argument.erasePos printArgument (fun _ => True) .parenL .parenR as
      (fun x hx a0 σ1 hst _ => fwd_argument c x (hok x hx) (fun h => hc h x hx) n a0 σ1 hst)
      (fun x _ => ⟨_, _, rfl, by simp [tName]⟩) (fun _ _ => trivial) n a σ' hs).2 he

theorem fwd_directive (c : Bool) (d : Directive) (hok : ArgsOK d.args) (hc : c = true → ∀ x ∈ d.args, ConstValue x.value)
    (n : Nat) (a : AS) (σ' : Stream) (hs : Starts a.σ (printDirective d) σ') (hfol : d.args = [] → σ'.head.kind ≠ .parenL) :
    Fwd (parseDirective n c) a (fun y a' => y.erasePos = d.erasePos ∧ a'.σ = σ') := by
  unfold printDirective at hs
  obtain ⟨σa, h1, hs⟩ := hs.cons_single
  obtain ⟨σb, h2, h3⟩ := hs.cons_single
  unfold parseDirective
  refine Fwd.bind (fwd_punct .at h1) ?_
  rintro _ b1 hσ1
  refine Fwd.bind (fwd_peekPos _) ?_
  rintro pos b2 rfl
  refine Fwd.bind (fwd_parseName d.name (by rw [hσ1]; exact h2)) ?_
  rintro nm b3 ⟨rfl, hσ3⟩
  refine Fwd.bind (fwd_arguments c d.args hok hc n b3 σ' (by rw [hσ3]; exact h3) hfol) ?_
  rintro as' b4 ⟨has, hσ⟩
  refine (Fwd.pure _ _).mono ?_
  rintro y b5 ⟨rfl, rfl⟩
  exact ⟨by simp [Directive.erasePos, has], hσ⟩

theorem head_printDirective (d : Directive) : ∃ rest, printDirective d = tP .at :: rest := ⟨_, rfl⟩

theorem fwd_directivesLoop (c : Bool) (m : Nat) : ∀ (ds : List Directive), DirsOK ds → (c = true → ConstDirectives ds) →
    ∀ (n : Nat) (acc : List Directive) (a : AS) (σ' : Stream), Starts a.σ (printDirectives ds) σ' →
      σ'.head.kind ≠ .at → σ'.head.kind ≠ .parenL →
      Fwd (directivesLoop (parseDirective m c) n acc) a
        (fun ys a' => ys.map Directive.erasePos = (ds.reverse ++ acc).map Directive.erasePos ∧ a'.σ = σ')
  | [], _, _ => by
    intro n acc a σ' hs h1 _
    simp only [printDirectives, List.flatMap_nil] at hs
    rw [Starts.nil_iff] at hs
    cases n with
    | zero => exact Fwd.outOfFuel _ _ _
    | succ n =>
      unfold directivesLoop
      refine Fwd.bind (fwd_peek a) ?_
      rintro t a1 ⟨rfl, rfl⟩
      refine Fwd.ite_neg (by rw [hs]; exact h1) ((Fwd.pure _ _).mono ?_)
      rintro ys a' ⟨rfl, rfl⟩
      exact ⟨by simp, hs⟩
  | d :: ds, hok, hc => by
    intro n acc a σ' hs h1 h2
    simp only [printDirectives, List.flatMap_cons] at hs
    rw [Starts.append_iff] at hs
    obtain ⟨σm, hd, hrest⟩ := hs
    cases n with
    | zero => exact Fwd.outOfFuel _ _ _
    | succ n =>
      unfold directivesLoop
      refine Fwd.bind (fwd_peek a) ?_
      rintro t a1 ⟨rfl, rfl⟩
      have hk : a.σ.head.kind = .at := hd.head_kind
      refine Fwd.ite_pos hk (Fwd.bind (fwd_hasErr _) ?_)
      rintro e a2 ⟨rfl, rfl⟩
      have hm : σm.head.kind ≠ .parenL := by
        cases ds with
        | nil =>
          simp only [List.flatMap_nil] at hrest
          rw [Starts.nil_iff] at hrest
          rw [hrest]; exact h2
        | cons d2 r =>
          simp only [List.flatMap_cons, printDirective, List.cons_append] at hrest
          rw [hrest.head_kind]; simp [tP]
      refine Fwd.ite_neg (by simp) (Fwd.bind (fwd_directive c d (hok d (by simp)) (fun h => hc h d (by simp)) m _ σm hd
        (fun _ => hm)) ?_)
      rintro y a3 ⟨hy, hσ3⟩
      refine (fwd_directivesLoop c m ds (fun z hz => hok z (by simp [hz])) (fun h z hz => hc h z (by simp [hz]))
        n (y :: acc) a3 σ' (by rw [hσ3]; exact hrest) h1 h2).mono ?_
      rintro ys a' ⟨e1, e2⟩
      exact ⟨by rw [e1]; simp [hy], e2⟩

/-- `Directives?`: what follows must not look like a directive or an argument list -/
theorem fwd_directives (c : Bool) (ds : List Directive) (hok : DirsOK ds) (hc : c = true → ConstDirectives ds)
    (n : Nat) (a : AS) (σ' : Stream) (hs : Starts a.σ (printDirectives ds) σ')
    (h1 : σ'.head.kind ≠ .at) (h2 : σ'.head.kind ≠ .parenL) :
    Fwd (parseDirectives n c) a (fun ys a' => ys.map Directive.erasePos = ds.map Directive.erasePos ∧ a'.σ = σ') := by
  unfold parseDirectives
  refine Fwd.bind (fwd_directivesLoop c n ds hok hc n [] a σ' hs h1 h2) ?_
  rintro ys a1 ⟨hy, hσ⟩
  refine (Fwd.pure _ _).mono ?_
  rintro zs a' ⟨rfl, rfl⟩
  exact ⟨by rw [List.map_reverse, hy]; simp, hσ⟩

/-! ### types and variable definitions -/

theorem fwd_type : ∀ (ty : GType) (n : Nat) (a : AS) (σ' : Stream), Starts a.σ (printType ty) σ' →
    (ty.nonNull = false → σ'.head.kind ≠ .bang) →
    Fwd (parseTypeReference n) a (fun y a' => y.erasePos = ty.erasePos ∧ a'.σ = σ')
  | .named nm nn p, n, a, σ', hs, hfol => by
    cases n with
    | zero => exact Fwd.outOfFuel _ _ _
    | succ n =>
      simp only [printType] at hs
      obtain ⟨σ1, h1, h2⟩ := hs.cons_single
      unfold parseTypeReference
      refine Fwd.bind (fwd_skipP_no .bracketL (by rw [hs.head_kind]; simp [tName])) ?_
      rintro b a1 ⟨rfl, hσ1⟩
      refine Fwd.ite_neg (by simp) (Fwd.bind (fwd_peekPos _) ?_)
      rintro pos a2 rfl
      refine Fwd.bind (fwd_parseName nm (by rw [hσ1]; exact h1)) ?_
      rintro x a3 ⟨rfl, hσ3⟩
      cases nn with
      | true =>
        simp only [bangIf, if_true] at h2
        refine Fwd.bind (fwd_skipP_yes .bang (by rw [hσ3]; exact h2)) ?_
        rintro b a4 ⟨rfl, hσ4⟩
        exact (Fwd.pure _ _).mono fun _ _ h => ⟨by rw [h.1]; rfl, by rw [h.2, hσ4]⟩
      | false =>
        simp only [bangIf, Bool.false_eq_true, if_false] at h2
        rw [Starts.nil_iff] at h2
        refine Fwd.bind (fwd_skipP_no .bang (by rw [hσ3, h2]; exact hfol rfl)) ?_
        rintro b a4 ⟨rfl, hσ4⟩
        exact (Fwd.pure _ _).mono fun _ _ h => ⟨by rw [h.1]; rfl, by rw [h.2, hσ4, hσ3, h2]⟩
  | .list e nn p, n, a, σ', hs, hfol => by
    cases n with
    | zero => exact Fwd.outOfFuel _ _ _
    | succ n =>
      simp only [printType] at hs
      obtain ⟨σ1, h1, hs2⟩ := hs.cons_single
      replace hs2 : Starts σ1 (printType e ++ (tP .bracketR :: bangIf nn)) σ' := hs2
      rw [Starts.append_iff] at hs2
      obtain ⟨σ2, he, hs3⟩ := hs2
      obtain ⟨σ3, h3, h4⟩ := hs3.cons_single
      unfold parseTypeReference
      refine Fwd.bind (fwd_skipP_yes .bracketL h1) ?_
      rintro b a1 ⟨rfl, hσ1⟩
      refine Fwd.ite_pos rfl (Fwd.bind (fwd_peekPos _) ?_)
      rintro pos a2 rfl
      refine Fwd.bind (fwd_type e n _ σ2 (by rw [hσ1]; exact he) (fun _ => by rw [h3.head_kind]; simp [tP])) ?_
      rintro e' a3 ⟨he', hσ3⟩
      refine Fwd.bind (fwd_punct .bracketR (by rw [hσ3]; exact h3)) ?_
      rintro _ a4 hσ4
      cases nn with
      | true =>
        simp only [bangIf, if_true] at h4
        refine Fwd.bind (fwd_skipP_yes .bang (by rw [hσ4]; exact h4)) ?_
        rintro b a5 ⟨rfl, hσ5⟩
        exact (Fwd.pure _ _).mono fun _ _ h => ⟨by rw [h.1]; simp [GType.erasePos, he'], by rw [h.2, hσ5]⟩
      | false =>
        simp only [bangIf, Bool.false_eq_true, if_false] at h4
        rw [Starts.nil_iff] at h4
        refine Fwd.bind (fwd_skipP_no .bang (by rw [hσ4, h4]; exact hfol rfl)) ?_
        rintro b a5 ⟨rfl, hσ5⟩
        exact (Fwd.pure _ _).mono fun _ _ h => ⟨by rw [h.1]; simp [GType.erasePos, he'], by rw [h.2, hσ5, hσ4, h4]⟩

/-! ### what a stream starts with: the kind of the first token of `ts ++ …` -/

def firstKind (ts : List Tok) (k : Kind) : Kind :=
  match ts with
  | [] => k
  | t :: _ => t.kind

theorem Starts.firstKind {σ σ' : Stream} {ts : List Tok} (h : Starts σ ts σ') : σ.head.kind = firstKind ts σ'.head.kind := by
  cases ts with
  | nil => rw [Starts.nil_iff] at h; rw [h]; rfl
  | cons t r => exact h.head_kind

@[simp] theorem firstKind_nil (k : Kind) : firstKind [] k = k := rfl
@[simp] theorem firstKind_cons (t : Tok) (r : List Tok) (k : Kind) : firstKind (t :: r) k = t.kind := rfl
@[simp] theorem firstKind_append (A B : List Tok) (k : Kind) : firstKind (A ++ B) k = firstKind A (firstKind B k) := by
  cases A <;> rfl

theorem firstKind_directives (ds : List Directive) (k : Kind) :
    firstKind (printDirectives ds) k = if ds = [] then k else .at := by
  cases ds <;> simp [printDirectives, printDirective, tP]

theorem firstKind_arguments (as : List Argument) (k : Kind) :
    firstKind (printArguments as) k = if as = [] then k else .parenL := by
  cases as <;> simp [printArguments, tP]

theorem firstKind_default (dv : Option Value) (k : Kind) :
    firstKind (printDefault dv) k = if dv = none then k else .equals := by
  cases dv <;> simp [printDefault, tP]

theorem firstKind_varDefs (vs : List VarDef) (k : Kind) :
    firstKind (printVarDefs vs) k = if vs = [] then k else .parenL := by
  cases vs <;> simp [printVarDefs, tP]

/-! ### variable definitions -/

def VarDefOK (v : VarDef) : Prop := (∀ d, v.default = some d → ValueOK d) ∧ DirsOK v.dirs

/-- what may not follow a variable definition (what does follow is `$` or `)`) -/
def FolVar (σ : Stream) : Prop :=
  σ.head.kind ≠ .bang ∧ σ.head.kind ≠ .equals ∧ σ.head.kind ≠ .at ∧ σ.head.kind ≠ .parenL

theorem fwd_varDef (v : VarDef) (hok : VarDefOK v) (hwf : WFVarDef v) (n : Nat) (a : AS) (σ' : Stream)
    (hs : Starts a.σ (printVarDef v) σ') (hfol : FolVar σ') :
    Fwd (parseVariableDefinition n) a (fun y a' => y.erasePos = v.erasePos ∧ a'.σ = σ') := by
  obtain ⟨f1, f2, f3, f4⟩ := hfol
  have hs : Starts a.σ ([tP .dollar, tName v.var] ++ ([tP .colon] ++ (printType v.type ++
      (printDefault v.default ++ printDirectives v.dirs)))) σ' := by simpa [printVarDef] using hs
  rw [Starts.append_iff] at hs
  obtain ⟨σ1, h1, hs⟩ := hs
  rw [Starts.append_iff] at hs
  obtain ⟨σ2, h2, hs⟩ := hs
  rw [Starts.append_iff] at hs
  obtain ⟨σ3, h3, hs⟩ := hs
  rw [Starts.append_iff] at hs
  obtain ⟨σ4, h4, h5⟩ := hs
  have k5 := h5.firstKind
  have k4 := h4.firstKind
  rw [firstKind_directives] at k5
  rw [firstKind_default] at k4
  unfold parseVariableDefinition
  refine Fwd.bind (fwd_peekPos _) ?_
  rintro pos b1 rfl
  refine Fwd.bind (fwd_parseVariable v.var h1) ?_
  rintro x b2 ⟨rfl, hσ2⟩
  refine Fwd.bind (fwd_punct .colon (by rw [hσ2]; exact h2)) ?_
  rintro _ b3 hσ3
  refine Fwd.bind (fwd_type v.type n b3 σ3 (by rw [hσ3]; exact h3) (fun _ => by
    rw [k4]; split
    · rw [k5]; split
      · exact f1
      · decide
    · decide)) ?_
  rintro ty' b4 ⟨hty, hσ4⟩
  have hdirs : ∀ (b : AS), b.σ = σ4 → Fwd (parseDirectives n true) b
      (fun ys a' => ys.map Directive.erasePos = v.dirs.map Directive.erasePos ∧ a'.σ = σ') :=
    fun b hb => fwd_directives true v.dirs hok.2 (fun _ => hwf.2) n b σ' (by rw [hb]; exact h5) f3 f4
  cases hdv : v.default with
  | none =>
    rw [hdv] at h4 k4
    simp only [printDefault] at h4
    rw [Starts.nil_iff] at h4
    subst h4
    refine Fwd.bind (fwd_skipP_no .equals (by
      rw [hσ4, k5]; split
      · exact f2
      · decide)) ?_
    rintro b b5 ⟨rfl, hσ5⟩
    refine Fwd.ite_neg (by simp) (Fwd.bind (Fwd.pure none _) ?_)
    rintro dv b6 ⟨rfl, rfl⟩
    refine Fwd.bind (hdirs _ (by rw [hσ5, hσ4])) ?_
    rintro ds' b7 ⟨hds, hσ⟩
    refine (Fwd.pure _ _).mono ?_
    rintro y b8 ⟨rfl, rfl⟩
    exact ⟨by simp [VarDef.erasePos, hty, hds, hdv], hσ⟩
  | some d =>
    rw [hdv] at h4
    simp only [printDefault] at h4
    obtain ⟨σe, he, hv⟩ := h4.cons_single
    refine Fwd.bind (fwd_skipP_yes .equals (by rw [hσ4]; exact he)) ?_
    rintro b b5 ⟨rfl, hσ5⟩
    refine Fwd.ite_pos rfl (Fwd.bind (fwd_value true d (hok.1 d hdv) (fun _ => hwf.1 d hdv) n b5 σ4 (by rw [hσ5]; exact hv)) ?_)
    rintro v' b6 ⟨hv', hσ6⟩
    refine Fwd.bind (Fwd.pure (Option.some v') _) ?_
    rintro dv b7 ⟨rfl, rfl⟩
    refine Fwd.bind (hdirs _ hσ6) ?_
    rintro ds' b8 ⟨hds, hσ⟩
    refine (Fwd.pure _ _).mono ?_
    rintro y b9 ⟨rfl, rfl⟩
    exact ⟨by simp [VarDef.erasePos, hty, hds, hdv, hv'], hσ⟩

/-- `VariableDefinitions?` -/
theorem fwd_varDefs (vs : List VarDef) (hok : ∀ v ∈ vs, VarDefOK v) (hwf : ∀ v ∈ vs, WFVarDef v)
    (n : Nat) (a : AS) (σ' : Stream) (hs : Starts a.σ (printVarDefs vs) σ') (hfol : vs = [] → σ'.head.kind ≠ .parenL) :
    Fwd (parseVariableDefinitions n) a (fun ys a' => ys.map VarDef.erasePos = vs.map VarDef.erasePos ∧ a'.σ = σ') := by
  unfold parseVariableDefinitions
  by_cases he : vs = []
  · subst he
    simp only [printVarDefs, List.isEmpty_nil, if_true] at hs
    rw [Starts.nil_iff] at hs
    refine (fwd_bracket_absent .parenL .parenR n a (by rw [hs]; exact hfol rfl)).2.mono ?_
    rintro ys a' ⟨rfl, hσ⟩
    exact ⟨rfl, by rw [hσ, hs]⟩
  · have hp : printVarDefs vs = tP .parenL :: vs.flatMap printVarDef ++ [tP .parenR] := by
      cases vs with
      | nil => exact absurd rfl he
      | cons x r => simp [printVarDefs]
    rw [hp] at hs
    exact (fwd_bracket VarDef.erasePos printVarDef FolVar .parenL .parenR vs
      (fun x hx a0 σ1 hst hf => fwd_varDef x (hok x hx) (hwf x hx) n a0 σ1 hst hf)
      (fun x _ => ⟨_, _, rfl, by simp [tP]⟩)
      (fun σ1 h => by
        rcases h with h | ⟨x, _, t, rest, hfx, ht⟩
        · simp [FolVar, h]
        · have : t = tP .dollar := by simp [printVarDef] at hfx; exact hfx.1.symm
          have hk : σ1.head.kind = .dollar := by rw [← show (Tok.ofToken σ1.head).kind = σ1.head.kind from rfl, ht, this]; rfl
          simp [FolVar, hk]) n a σ' hs).2 he

/-! ### selections -/

mutual
  def SelOK : Selection → Prop
    | .field _ _ args ds sel _ => ArgsOK args ∧ DirsOK ds ∧ SelsOK sel
    | .spread _ ds _ => DirsOK ds
    | .inline _ ds sel _ => DirsOK ds ∧ SelsOK sel
  def SelsOK : Selections → Prop
    | .nil => True
    | .cons s rest => SelOK s ∧ SelsOK rest
end

/-- what may not follow a selection (what does follow is a Name, `...` or `}`) -/
def FolSel (σ : Stream) : Prop :=
  σ.head.kind ≠ .colon ∧ σ.head.kind ≠ .parenL ∧ σ.head.kind ≠ .at ∧ σ.head.kind ≠ .braceL

theorem printSelections_eq : ∀ ss : Selections, printSelections ss = ss.toList.flatMap printSelection
  | .nil => rfl
  | .cons s rest => by simp [printSelections, Selections.toList, printSelections_eq rest]

theorem printSelection_field (al nm : Name) (args : List Argument) (ds : List Directive) (ss : Selections) (p : Pos) :
    printSelection (.field al nm args ds ss p) =
      (if al = nm then [] else [tName al, tP .colon]) ++ tName nm :: (printArguments args ++ (printDirectives ds ++ selOut ss)) := by
  cases ss <;> simp [printSelection, selOut]

theorem selOut_cons (s : Selection) (rest : Selections) : selOut (.cons s rest) = printSelectionSet (.cons s rest) := rfl

theorem head_printSelection (s : Selection) : ∃ t rest, printSelection s = t :: rest ∧ (t.kind = .name ∨ t.kind = .spread) := by
  cases s with
  | field al nm args ds ss p =>
    rw [printSelection_field]
    by_cases h : al = nm
    · exact ⟨tName nm, printArguments args ++ (printDirectives ds ++ selOut ss), by simp [h], .inl rfl⟩
    · exact ⟨tName al, tP .colon :: tName nm :: (printArguments args ++ (printDirectives ds ++ selOut ss)), by simp [h], .inl rfl⟩
  | spread nm ds p => exact ⟨_, _, rfl, .inr rfl⟩
  | inline tc ds ss p => exact ⟨_, _, rfl, .inr rfl⟩

theorem erase_of_selections {ys : List Selection} {ss : Selections}
    (h : ys.map Selection.erasePos = ss.toList.map Selection.erasePos) : (Selections.ofList ys).erasePos = ss.erasePos := by
  rw [Selections.erasePos_ofList, ← Selections.ofList_toList ss, Selections.erasePos_ofList]
  exact congrArg Selections.ofList h

/-- what the selection parser does on the printed tokens of `s` -/
def FwdSel (s : Selection) : Prop :=
  ∀ (n : Nat) (a : AS) (σ' : Stream), Starts a.σ (printSelection s) σ' → FolSel σ' →
    Fwd (parseSelection n) a (fun y a' => y.erasePos = s.erasePos ∧ a'.σ = σ')

/-- `{ Selection+ }` through `some` -/
theorem fwd_selBlock (xs : List Selection) (hsub : ∀ x ∈ xs, FwdSel x) (hne : xs ≠ []) (n m : Nat) (a : AS) (σ' : Stream)
    (hs : Starts a.σ (tP .braceL :: xs.flatMap printSelection ++ [tP .braceR]) σ') :
    Fwd (pSome .braceL .braceR n (parseSelection m)) a
      (fun ys a' => ys.map Selection.erasePos = xs.map Selection.erasePos ∧ a'.σ = σ') :=
  (fwd_bracket Selection.erasePos printSelection FolSel .braceL .braceR xs
    (fun x hx a0 σ1 hst hf => hsub x hx m a0 σ1 hst hf)
    (fun x _ => by
      obtain ⟨t, rest, h1, h2⟩ := head_printSelection x
      exact ⟨t, rest, h1, by rcases h2 with h | h <;> simp [h]⟩)
    (fun σ1 h => by
      rcases h with h | ⟨x, _, t, rest, hfx, ht⟩
      · simp [FolSel, h]
      · obtain ⟨t', rest', h1, h2⟩ := head_printSelection x
        rw [hfx] at h1
        have : t = t' := by simpa using (List.cons.inj h1).1
        subst this
        have hk : σ1.head.kind = t.kind := by rw [← ht]; rfl
        rcases h2 with h | h <;> simp [FolSel, hk, h]) n a σ' hs).2 hne

theorem fwd_selectionSet {ss : Selections} (hsub : ∀ x ∈ ss.toList, FwdSel x) (hne : ss ≠ .nil) (n m : Nat) (a : AS) (σ' : Stream)
    (hs : Starts a.σ (printSelectionSet ss) σ') :
    Fwd (parseRequiredSelectionSetWith (parseSelection m) n) a (fun y a' => y.erasePos = ss.erasePos ∧ a'.σ = σ') ∧
    Fwd (parseOptionalSelectionSetWith (parseSelection m) n) a (fun y a' => y.erasePos = ss.erasePos ∧ a'.σ = σ') := by
  have hl : ss.toList ≠ [] := by cases ss <;> simp_all [Selections.toList]
  have hs' : Starts a.σ (tP .braceL :: ss.toList.flatMap printSelection ++ [tP .braceR]) σ' := by
    simpa [printSelectionSet, printSelections_eq] using hs
  have hk : a.σ.head.kind = .braceL := hs'.head_kind
  constructor
  · unfold parseRequiredSelectionSetWith
    refine Fwd.bind (fwd_peek a) ?_
    rintro t a1 ⟨rfl, rfl⟩
    refine Fwd.ite_neg (by simp [hk]) (Fwd.bind (fwd_selBlock ss.toList hsub hl n m _ σ' hs') ?_)
    rintro ys a2 ⟨hy, hσ⟩
    exact (Fwd.pure _ _).mono fun _ _ h => ⟨by rw [h.1]; exact erase_of_selections hy, by rw [h.2, hσ]⟩
  · unfold parseOptionalSelectionSetWith
    refine Fwd.bind (fwd_selBlock ss.toList hsub hl n m _ σ' hs') ?_
    rintro ys a2 ⟨hy, hσ⟩
    exact (Fwd.pure _ _).mono fun _ _ h => ⟨by rw [h.1]; exact erase_of_selections hy, by rw [h.2, hσ]⟩

theorem fwd_fieldTail {args : List Argument} {ds : List Directive} {ss : Selections} (hsub : ∀ x ∈ ss.toList, FwdSel x)
    (ha : ArgsOK args) (hd : DirsOK ds) (n m : Nat) (pos p : Pos) (al nm : Name) (a : AS) (σ' : Stream)
    (hs : Starts a.σ (printArguments args ++ (printDirectives ds ++ selOut ss)) σ') (hfol : FolSel σ') :
    Fwd (fieldTail (parseSelection m) n pos al nm) a
      (fun y a' => y.erasePos = (Selection.field al nm args ds ss p).erasePos ∧ a'.σ = σ') := by
  obtain ⟨f1, f2, f3, f4⟩ := hfol
  rw [Starts.append_iff] at hs
  obtain ⟨σ1, h1, hs⟩ := hs
  rw [Starts.append_iff] at hs
  obtain ⟨σ2, h2, h3⟩ := hs
  have k2 := h2.firstKind
  rw [firstKind_directives] at k2
  -- the kind of the token after the directives
  have k3 : σ2.head.kind ≠ .parenL ∧ σ2.head.kind ≠ .at ∧ (σ2.head.kind = .braceL ↔ ∃ s rest, ss = .cons s rest) := by
    cases ss with
    | nil =>
      simp only [selOut] at h3
      rw [Starts.nil_iff] at h3
      rw [h3]
      exact ⟨f2, f3, ⟨fun h => absurd h f4, fun ⟨_, _, h⟩ => by cases h⟩⟩
    | cons s rest =>
      have := h3.head_kind
      simp only [selOut, tP] at this
      rw [this]
      exact ⟨by decide, by decide, ⟨fun _ => ⟨s, rest, rfl⟩, fun _ => rfl⟩⟩
  unfold fieldTail
  refine Fwd.bind (fwd_arguments false args ha (by simp) n a σ1 h1 (fun _ => by
    rw [k2]; split
    · exact k3.1
    · decide)) ?_
  rintro as' b1 ⟨has, hσ1⟩
  refine Fwd.bind (fwd_directives false ds hd (by simp) n b1 σ2 (by rw [hσ1]; exact h2) k3.2.1 k3.1) ?_
  rintro ds' b2 ⟨hds, hσ2⟩
  refine Fwd.bind (fwd_peek b2) ?_
  rintro t b3 ⟨rfl, rfl⟩
  cases ss with
  | nil =>
    simp only [selOut] at h3
    rw [Starts.nil_iff] at h3
    refine Fwd.ite_neg (by rw [hσ2, h3]; exact f4) (Fwd.bind (Fwd.pure Selections.nil _) ?_)
    rintro ss' b4 ⟨rfl, rfl⟩
    refine (Fwd.pure _ _).mono ?_
    rintro y b5 ⟨rfl, rfl⟩
    exact ⟨by simp [Selection.erasePos, has, hds], by simp [hσ2, h3]⟩
  | cons s rest =>
    rw [selOut_cons] at h3
    refine Fwd.ite_pos (by rw [hσ2]; exact k3.2.2.2 ⟨s, rest, rfl⟩) (Fwd.bind
      (fwd_selectionSet hsub (by simp) n m _ σ' (by simpa [hσ2] using h3)).2 ?_)
    rintro ss' b4 ⟨hss, hσ⟩
    refine (Fwd.pure _ _).mono ?_
    rintro y b5 ⟨rfl, rfl⟩
    exact ⟨by simp [Selection.erasePos, has, hds, hss], hσ⟩

theorem fwd_field {al nm : Name} {args : List Argument} {ds : List Directive} {ss : Selections} {p : Pos}
    (hsub : ∀ x ∈ ss.toList, FwdSel x) (ha : ArgsOK args) (hd : DirsOK ds) :
    FwdSel (.field al nm args ds ss p) := by
  intro n a σ' hs hfol
  cases n with
  | zero => exact Fwd.outOfFuel _ _ _
  | succ n =>
    rw [printSelection_field] at hs
    unfold parseSelection
    refine Fwd.bind (fwd_peek a) ?_
    rintro t a1 ⟨rfl, rfl⟩
    have hkn : a.σ.head.kind = .name := by
      rw [hs.firstKind]
      by_cases h : al = nm <;> simp [h, tName]
    refine Fwd.ite_neg (by rw [hkn]; decide) ?_
    rw [parseFieldWith_eq]
    refine Fwd.bind (fwd_peekPos _) ?_
    rintro pos a2 rfl
    by_cases h : al = nm
    · subst h
      simp only [if_true, List.nil_append] at hs
      obtain ⟨σ1, h1, h2⟩ := hs.cons_single
      refine Fwd.bind (fwd_parseName al h1) ?_
      rintro x a3 ⟨rfl, hσ3⟩
      have k2 := h2.firstKind
      simp only [firstKind_append, firstKind_arguments, firstKind_directives] at k2
      have ks : firstKind (selOut ss) σ'.head.kind ≠ .colon := by
        cases ss with
        | nil => exact hfol.1
        | cons s rest => simp [selOut, tP]
      refine Fwd.bind (fwd_skipP_no .colon (by
        rw [hσ3, k2]
        repeat' split
        all_goals first | exact ks | decide)) ?_
      rintro b a4 ⟨rfl, hσ4⟩
      refine Fwd.ite_neg (by simp) ?_
      exact fwd_fieldTail hsub ha hd (n + 1) n pos p x x a4 σ' (by rw [hσ4, hσ3]; exact h2) hfol
    · simp only [if_neg h, List.cons_append, List.nil_append] at hs
      obtain ⟨σ1, h1, hs⟩ := hs.cons_single
      obtain ⟨σ2, h2, hs⟩ := hs.cons_single
      obtain ⟨σ3, h3, h4⟩ := hs.cons_single
      refine Fwd.bind (fwd_parseName al h1) ?_
      rintro x a3 ⟨rfl, hσ3⟩
      refine Fwd.bind (fwd_skipP_yes .colon (by rw [hσ3]; exact h2)) ?_
      rintro b a4 ⟨rfl, hσ4⟩
      refine Fwd.ite_pos rfl (Fwd.bind (fwd_parseName nm (by rw [hσ4]; exact h3)) ?_)
      rintro y a5 ⟨rfl, hσ5⟩
      exact fwd_fieldTail hsub ha hd (n + 1) n pos p x y a5 σ' (by rw [hσ5]; exact h4) hfol

theorem fwd_parseFragmentName {a : AS} {σ' : Stream} (n : Name) (h : Starts a.σ [tName n] σ') (hn : n ≠ str "on") :
    Fwd parseFragmentName a (fun x a' => x = n ∧ a'.σ = σ') := by
  obtain ⟨u, hσ, hu⟩ := h.single
  unfold parseFragmentName
  refine Fwd.bind (fwd_peek a) ?_
  rintro t a1 ⟨rfl, rfl⟩
  have hv : a.σ.head.value = n := by rw [hσ]; exact ofToken_value hu
  refine Fwd.ite_neg (by rw [hv]; exact hn) ?_
  exact fwd_parseName n (by simpa using h)

theorem fwd_spread {nm : Name} {ds : List Directive} {p : Pos} (hnm : nm ≠ str "on") (hd : DirsOK ds) :
    FwdSel (.spread nm ds p) := by
  intro n a σ' hs hfol
  obtain ⟨f1, f2, f3, f4⟩ := hfol
  cases n with
  | zero => exact Fwd.outOfFuel _ _ _
  | succ n =>
    simp only [printSelection] at hs
    obtain ⟨σ1, h1, hs2⟩ := hs.cons_single
    obtain ⟨σ2, h2, h3⟩ := hs2.cons_single
    obtain ⟨u, hσu, hu⟩ := h2.single
    unfold parseSelection
    refine Fwd.bind (fwd_peek a) ?_
    rintro t a1 ⟨rfl, rfl⟩
    refine Fwd.ite_pos hs.head_kind ?_
    rw [parseFragmentWith_eq]
    refine Fwd.bind (fwd_punct .spread (by simpa using h1)) ?_
    rintro _ a2 hσ2
    refine Fwd.bind (fwd_peek a2) ?_
    rintro pk a3 ⟨rfl, rfl⟩
    have hk : a2.σ.head.kind = .name := by rw [hσ2, hσu]; exact ofToken_kind hu
    have hv : a2.σ.head.value = nm := by rw [hσ2, hσu]; exact ofToken_value hu
    refine Fwd.ite_pos ⟨hk, by rw [hv]; exact hnm⟩ (Fwd.bind (fwd_peekPos _) ?_)
    rintro pos a4 rfl
    refine Fwd.bind (fwd_parseFragmentName nm (by simpa [hσ2] using h2) hnm) ?_
    rintro x a5 ⟨rfl, hσ5⟩
    refine Fwd.bind (fwd_directives false ds hd (by simp) (n + 1) a5 σ' (by rw [hσ5]; exact h3) f3 f2) ?_
    rintro ds' a6 ⟨hds, hσ⟩
    refine (Fwd.pure _ _).mono ?_
    rintro y a7 ⟨rfl, rfl⟩
    exact ⟨by simp [Selection.erasePos, hds], hσ⟩

theorem fwd_inlineTail {ds : List Directive} {ss : Selections} (hsub : ∀ x ∈ ss.toList, FwdSel x) (hd : DirsOK ds)
    (hne : ss ≠ .nil) (n m : Nat) (pos p : Pos) (tc : Name) (a : AS) (σ' : Stream)
    (hs : Starts a.σ (printDirectives ds ++ printSelectionSet ss) σ') :
    Fwd (inlineTail (parseSelection m) n pos tc) a
      (fun y a' => y.erasePos = (Selection.inline tc ds ss p).erasePos ∧ a'.σ = σ') := by
  rw [Starts.append_iff] at hs
  obtain ⟨σ1, h1, h2⟩ := hs
  have k2 : σ1.head.kind = .braceL := by
    have := h2.head_kind (t := tP .braceL)
    exact this
  unfold inlineTail
  refine Fwd.bind (fwd_directives false ds hd (by simp) n a σ1 h1 (by rw [k2]; decide) (by rw [k2]; decide)) ?_
  rintro ds' a1 ⟨hds, hσ1⟩
  refine Fwd.bind (fwd_selectionSet hsub hne n m a1 σ' (by rw [hσ1]; exact h2)).1 ?_
  rintro ss' a2 ⟨hss, hσ⟩
  refine (Fwd.pure _ _).mono ?_
  rintro y a3 ⟨rfl, rfl⟩
  exact ⟨by simp [Selection.erasePos, hds, hss], hσ⟩

theorem fwd_inline {tc : Name} {ds : List Directive} {ss : Selections} {p : Pos} (hsub : ∀ x ∈ ss.toList, FwdSel x)
    (hd : DirsOK ds) (hne : ss ≠ .nil) : FwdSel (.inline tc ds ss p) := by
  intro n a σ' hs _
  cases n with
  | zero => exact Fwd.outOfFuel _ _ _
  | succ n =>
    have hs : Starts a.σ (tP .spread :: ((if tc = [] then [] else [tKw "on", tName tc]) ++
        (printDirectives ds ++ printSelectionSet ss))) σ' := by
      simpa [printSelection, printSelectionSet] using hs
    obtain ⟨σ1, h1, hs2⟩ := hs.cons_single
    unfold parseSelection
    refine Fwd.bind (fwd_peek a) ?_
    rintro t a1 ⟨rfl, rfl⟩
    refine Fwd.ite_pos hs.head_kind ?_
    rw [parseFragmentWith_eq]
    refine Fwd.bind (fwd_punct .spread (by simpa using h1)) ?_
    rintro _ a2 hσ2
    refine Fwd.bind (fwd_peek a2) ?_
    rintro pk a3 ⟨rfl, rfl⟩
    by_cases htc : tc = []
    · subst htc
      simp only [if_true, List.nil_append] at hs2
      have hk : a2.σ.head.kind ≠ .name := by
        rw [hσ2, hs2.firstKind]
        simp only [firstKind_append, firstKind_directives]
        split
        · simp [printSelectionSet, tP]
        · decide
      refine Fwd.ite_neg (fun h => hk h.1) (Fwd.bind (fwd_peekPos _) ?_)
      rintro pos a4 rfl
      refine Fwd.bind (fwd_peek _) ?_
      rintro t2 a5 ⟨rfl, rfl⟩
      refine Fwd.ite_neg (fun h => hk h.1) ?_
      exact fwd_inlineTail hsub hd hne (n + 1) n pos p [] _ σ' (by simpa [hσ2] using hs2)
    · simp only [if_neg htc, List.cons_append, List.nil_append] at hs2
      obtain ⟨σ2, h2, hs3⟩ := hs2.cons_single
      obtain ⟨σ3, h3, h4⟩ := hs3.cons_single
      obtain ⟨u, hσu, hu⟩ := h2.single
      have hk : a2.σ.head.kind = .name := by rw [hσ2, hσu]; exact ofToken_kind hu
      have hv : a2.σ.head.value = kwOn := by rw [hσ2, hσu]; exact ofToken_value hu
      refine Fwd.ite_neg (fun h => h.2 hv) (Fwd.bind (fwd_peekPos _) ?_)
      rintro pos a4 rfl
      refine Fwd.bind (fwd_peek _) ?_
      rintro t2 a5 ⟨rfl, rfl⟩
      refine Fwd.ite_pos ⟨hk, hv⟩ (Fwd.bind (fwd_next (a := { pk := true, σ := a2.σ, cnt := a2.cnt }) (t := u) (σ' := σ2) rfl
        (by simp [hσ2, hσu])) ?_)
      rintro _ a6 ⟨_, rfl⟩
      refine Fwd.bind (fwd_parseName tc (by simpa using h3)) ?_
      rintro x a7 ⟨rfl, hσ7⟩
      exact fwd_inlineTail hsub hd hne (n + 1) n pos p x a7 σ' (by rw [hσ7]; exact h4)

mutual
  /-- **selections**: parsing the printed tokens of a printable, well-formed selection gives it back -/
  theorem fwd_selection : ∀ s : Selection, SelOK s → WFSelection s → FwdSel s
    | .field al nm args ds ss p, hok, hwf => by
      simp only [SelOK] at hok
      simp only [WFSelection] at hwf
      exact fwd_field (fwd_selections ss hok.2.2 hwf) hok.1 hok.2.1
    | .spread nm ds p, hok, hwf => by
      simp only [SelOK] at hok
      simp only [WFSelection] at hwf
      exact fwd_spread hwf hok
    | .inline tc ds ss p, hok, hwf => by
      simp only [SelOK] at hok
      simp only [WFSelection] at hwf
      exact fwd_inline (fwd_selections ss hok.2 hwf.2) hok.1 hwf.1
  theorem fwd_selections : ∀ ss : Selections, SelsOK ss → WFSelections ss → ∀ x ∈ ss.toList, FwdSel x
    | .nil, _, _ => fun _ h => by cases h
    | .cons s rest, hok, hwf => by
      simp only [SelsOK] at hok
      simp only [WFSelections] at hwf
      intro x hx
      simp only [Selections.toList, List.mem_cons] at hx
      rcases hx with h | hx
      · rw [h]; exact fwd_selection s hok.1 hwf.1
      · exact fwd_selections rest hok.2 hwf.2 x hx
end

/-- `SelectionSet` at top level -/
theorem fwd_requiredSelectionSet (ss : Selections) (hok : SelsOK ss) (hwf : WFSelections ss) (hne : ss ≠ .nil)
    (n : Nat) (a : AS) (σ' : Stream) (hs : Starts a.σ (printSelectionSet ss) σ') :
    Fwd (parseRequiredSelectionSet n) a (fun y a' => y.erasePos = ss.erasePos ∧ a'.σ = σ') :=
  (fwd_selectionSet (fwd_selections ss hok hwf) hne n n a σ' hs).1

/-! ### definitions -/

def OpOK (o : OperationDef) : Prop := (∀ v ∈ o.vars, VarDefOK v) ∧ DirsOK o.dirs ∧ SelsOK o.sel
def FragOK (f : FragmentDef) : Prop := (∀ v ∈ f.vars, VarDefOK v) ∧ DirsOK f.dirs ∧ SelsOK f.sel

/-- the long form of an operation: the keyword is always written (what a formatter that never uses
    the query shorthand emits); equal to `printOperation o` unless `o` is bare -/
def opLong (o : OperationDef) : List Tok :=
  tName o.op :: ((if o.name = [] then [] else [tName o.name]) ++ (printVarDefs o.vars ++ (printDirectives o.dirs ++
    printSelectionSet o.sel)))

theorem printOperation_eq (o : OperationDef) :
    printOperation o = if OperationDef.isBare o then printSelectionSet o.sel else opLong o := by
  unfold printOperation opLong
  split <;> simp

theorem fwd_parseOperationType {a : AS} {u : Token} {σ1 : Stream} {op : Bytes} (hpk : a.pk = true)
    (hσ : a.σ = .cons u σ1) (hu : Tok.ofToken u = tName op)
    (hop : op = str "query" ∨ op = str "mutation" ∨ op = str "subscription") :
    Fwd parseOperationType a (fun x a' => x = op ∧ a'.σ = σ1) := by
  have hk : u.kind = .name := ofToken_kind hu
  have hv : u.value = op := ofToken_value hu
  unfold parseOperationType
  refine Fwd.bind (fwd_next hpk hσ) ?_
  rintro tok a1 ⟨rfl, rfl⟩
  rcases hop with h | h | h
  · refine Fwd.ite_pos ⟨hk, by rw [hv, h]; rfl⟩ ((Fwd.pure _ _).mono ?_)
    rintro x a' ⟨rfl, rfl⟩; exact ⟨by rw [h]; rfl, rfl⟩
  · refine Fwd.ite_neg (fun hc => by rw [hv, h] at hc; exact absurd hc.2 (by decide)) (Fwd.ite_pos ⟨hk, by rw [hv, h]; rfl⟩
      ((Fwd.pure _ _).mono ?_))
    rintro x a' ⟨rfl, rfl⟩; exact ⟨by rw [h]; rfl, rfl⟩
  · refine Fwd.ite_neg (fun hc => by rw [hv, h] at hc; exact absurd hc.2 (by decide)) (Fwd.ite_neg
      (fun hc => by rw [hv, h] at hc; exact absurd hc.2 (by decide)) (Fwd.ite_pos ⟨hk, by rw [hv, h]; rfl⟩
      ((Fwd.pure _ _).mono ?_)))
    rintro x a' ⟨rfl, rfl⟩; exact ⟨by rw [h]; rfl, rfl⟩

theorem fwd_opTail (o : OperationDef) (hok : OpOK o) (hwf : WFOperation o) (n : Nat) (pos : Pos) (a : AS) (σ' : Stream)
    (hs : Starts a.σ (printVarDefs o.vars ++ (printDirectives o.dirs ++ printSelectionSet o.sel)) σ') :
    Fwd (opTail n pos o.op o.name) a (fun y a' => y.erasePos = o.erasePos ∧ a'.σ = σ') := by
  obtain ⟨hop, hvars, hne, hsel⟩ := hwf
  rw [Starts.append_iff] at hs
  obtain ⟨σ1, h1, hs⟩ := hs
  rw [Starts.append_iff] at hs
  obtain ⟨σ2, h2, h3⟩ := hs
  have k3 : σ2.head.kind = .braceL := h3.head_kind (t := tP .braceL)
  have k2 := h2.firstKind
  rw [firstKind_directives, k3] at k2
  unfold opTail
  refine Fwd.bind (fwd_varDefs o.vars hok.1 hvars n a σ1 h1 (fun _ => by rw [k2]; split <;> decide)) ?_
  rintro vs' a1 ⟨hvs, hσ1⟩
  refine Fwd.bind (fwd_directives false o.dirs hok.2.1 (by simp) n a1 σ2 (by rw [hσ1]; exact h2)
    (by rw [k3]; decide) (by rw [k3]; decide)) ?_
  rintro ds' a2 ⟨hds, hσ2⟩
  refine Fwd.bind (fwd_requiredSelectionSet o.sel hok.2.2 hsel hne n a2 σ' (by rw [hσ2]; exact h3)) ?_
  rintro ss' a3 ⟨hss, hσ⟩
  refine (Fwd.pure _ _).mono ?_
  rintro y a4 ⟨rfl, rfl⟩
  exact ⟨by simp [OperationDef.erasePos, hvs, hds, hss], hσ⟩

/-- an operation written with its keyword -/
theorem fwd_opLong (o : OperationDef) (hok : OpOK o) (hwf : WFOperation o) (n : Nat) (a : AS) (σ' : Stream)
    (hs : Starts a.σ (opLong o) σ') :
    Fwd (parseOperationDefinition n) a (fun y a' => y.erasePos = o.erasePos ∧ a'.σ = σ') := by
  unfold opLong at hs
  obtain ⟨σ1, h1, hs2⟩ := hs.cons_single
  obtain ⟨u, hσu, hu⟩ := h1.single
  rw [parseOperationDefinition_eq]
  refine Fwd.bind (fwd_peek a) ?_
  rintro t a1 ⟨rfl, rfl⟩
  have hk : a.σ.head.kind = .name := by rw [hσu]; exact ofToken_kind hu
  refine Fwd.ite_neg (by rw [hk]; decide) (Fwd.bind (fwd_peekPos _) ?_)
  rintro pos a2 rfl
  refine Fwd.bind (fwd_parseOperationType (a := { pk := true, σ := a.σ, cnt := a.cnt }) rfl hσu hu hwf.1) ?_
  rintro op a3 ⟨rfl, hσ3⟩
  refine Fwd.bind (fwd_peek a3) ?_
  rintro t2 a4 ⟨rfl, rfl⟩
  by_cases hn : o.name = []
  · simp only [hn, if_true, List.nil_append] at hs2
    have hk2 : a3.σ.head.kind ≠ .name := by
      rw [hσ3, hs2.firstKind]
      simp only [firstKind_append, firstKind_varDefs, firstKind_directives]
      repeat' split
      all_goals first | decide | simp [printSelectionSet, tP]
    refine Fwd.ite_neg hk2 ?_
    have := fwd_opTail o hok hwf n pos { pk := true, σ := a3.σ, cnt := a3.cnt } σ' (by simpa [hσ3] using hs2)
    rw [hn] at this
    exact this
  · simp only [if_neg hn, List.cons_append, List.nil_append] at hs2
    obtain ⟨σ2, h2, h3⟩ := hs2.cons_single
    obtain ⟨u2, hσu2, hu2⟩ := h2.single
    have hk2 : a3.σ.head.kind = .name := by rw [hσ3, hσu2]; exact ofToken_kind hu2
    refine Fwd.ite_pos hk2 (Fwd.bind (fwd_next (a := { pk := true, σ := a3.σ, cnt := a3.cnt }) (t := u2) (σ' := σ2) rfl
      (by simp [hσ3, hσu2])) ?_)
    rintro tk a5 ⟨rfl, rfl⟩
    have := fwd_opTail o hok hwf n pos { pk := false, σ := σ2, cnt := a3.cnt } σ' (by simpa using h3)
    rw [show o.name = tk.value from (ofToken_value hu2).symm] at this
    exact this

/-- an operation written in the query shorthand -/
theorem fwd_opShort (o : OperationDef) (hok : OpOK o) (hwf : WFOperation o) (hbare : OperationDef.isBare o = true)
    (n : Nat) (a : AS) (σ' : Stream) (hs : Starts a.σ (printSelectionSet o.sel) σ') :
    Fwd (parseOperationDefinition n) a (fun y a' => y.erasePos = o.erasePos ∧ a'.σ = σ') := by
  simp only [OperationDef.isBare, Bool.and_eq_true, beq_iff_eq, List.isEmpty_iff] at hbare
  obtain ⟨⟨⟨b1, b2⟩, b3⟩, b4⟩ := hbare
  rw [parseOperationDefinition_eq]
  refine Fwd.bind (fwd_peek a) ?_
  rintro t a1 ⟨rfl, rfl⟩
  have hk : a.σ.head.kind = .braceL := hs.head_kind (t := tP .braceL)
  refine Fwd.ite_pos hk (Fwd.bind (fwd_peekPos _) ?_)
  rintro pos a2 rfl
  refine Fwd.bind (fwd_requiredSelectionSet o.sel hok.2.2 hwf.2.2.2 hwf.2.2.1 n _ σ' (by simpa using hs)) ?_
  rintro ss' a3 ⟨hss, hσ⟩
  refine (Fwd.pure _ _).mono ?_
  rintro y a4 ⟨rfl, rfl⟩
  exact ⟨by simp [OperationDef.erasePos, hss, b1, b2, b3, b4, kwQuery], hσ⟩

theorem fwd_fragment (f : FragmentDef) (hok : FragOK f) (hwf : WFFragment f) (n : Nat) (a : AS) (σ' : Stream)
    (hs : Starts a.σ (printFragment f) σ') :
    Fwd (parseFragmentDefinition n) a (fun y a' => y.erasePos = f.erasePos ∧ a'.σ = σ') := by
  obtain ⟨hname, hvars, hne, hsel⟩ := hwf
  have hs : Starts a.σ ([tKw "fragment"] ++ ([tName f.name] ++ (printVarDefs f.vars ++ ([tKw "on"] ++ ([tName f.typeCond] ++
      (printDirectives f.dirs ++ printSelectionSet f.sel)))))) σ' := by simpa [printFragment] using hs
  rw [Starts.append_iff] at hs
  obtain ⟨σ1, h1, hs⟩ := hs
  rw [Starts.append_iff] at hs
  obtain ⟨σ2, h2, hs⟩ := hs
  rw [Starts.append_iff] at hs
  obtain ⟨σ3, h3, hs⟩ := hs
  rw [Starts.append_iff] at hs
  obtain ⟨σ4, h4, hs⟩ := hs
  rw [Starts.append_iff] at hs
  obtain ⟨σ5, h5, hs⟩ := hs
  rw [Starts.append_iff] at hs
  obtain ⟨σ6, h6, h7⟩ := hs
  have k7 : σ6.head.kind = .braceL := h7.head_kind (t := tP .braceL)
  have k4 : σ3.head.kind = .name := h4.head_kind
  unfold parseFragmentDefinition
  refine Fwd.bind (fwd_peekPos _) ?_
  rintro pos a1 rfl
  refine Fwd.bind (fwd_keyword "fragment" (by simpa using h1)) ?_
  rintro _ a2 hσ2
  refine Fwd.bind (fwd_parseFragmentName f.name (by rw [hσ2]; exact h2) hname) ?_
  rintro x a3 ⟨rfl, hσ3⟩
  refine Fwd.bind (fwd_varDefs f.vars hok.1 hvars n a3 σ3 (by rw [hσ3]; exact h3) (fun _ => by rw [k4]; decide)) ?_
  rintro vs' a4 ⟨hvs, hσ4⟩
  refine Fwd.bind (fwd_keyword "on" (by rw [hσ4]; exact h4)) ?_
  rintro _ a5 hσ5
  refine Fwd.bind (fwd_parseName f.typeCond (by rw [hσ5]; exact h5)) ?_
  rintro tc a6 ⟨rfl, hσ6⟩
  refine Fwd.bind (fwd_directives false f.dirs hok.2.1 (by simp) n a6 σ6 (by rw [hσ6]; exact h6)
    (by rw [k7]; decide) (by rw [k7]; decide)) ?_
  rintro ds' a7 ⟨hds, hσ7⟩
  refine Fwd.bind (fwd_requiredSelectionSet f.sel hok.2.2 hsel hne n a7 σ' (by rw [hσ7]; exact h7)) ?_
  rintro ss' a8 ⟨hss, hσ⟩
  refine (Fwd.pure _ _).mono ?_
  rintro y a9 ⟨rfl, rfl⟩
  exact ⟨by simp [FragmentDef.erasePos, hvs, hds, hss], hσ⟩

end Gql.Parser
