import GqlProofs.Parser.FuelQuery
/-
  `Good` and `Progress` for every definition of `Parser/Schema.lean`, and the schema entry points.
-/
namespace Gql.Parser
open Gql Gql.Lexer

theorem Good.parseDescription {L n : Nat} : Good L n parseDescription := by
  unfold Gql.Parser.parseDescription; good
macro_rules | `(tactic| good_leaf) => `(tactic| with_reducible exact Good.parseDescription)

theorem Good.parseOperationTypeDefinition {L n : Nat} : Good L n parseOperationTypeDefinition := by
  unfold Gql.Parser.parseOperationTypeDefinition; good
theorem Progress.parseOperationTypeDefinition {L : Nat} : Progress L parseOperationTypeDefinition := by
  unfold Gql.Parser.parseOperationTypeDefinition; progress

theorem Good.opTypes {L n : Nat} : Good L n (pSome .braceL .braceR n Gql.Parser.parseOperationTypeDefinition) :=
  pSome_good _ _ (by decide) Good.parseOperationTypeDefinition Progress.parseOperationTypeDefinition (Nat.le_refl _)
    (Nat.le_succ _)
macro_rules | `(tactic| good_leaf) => `(tactic| with_reducible exact Good.opTypes)

theorem Good.parseSchemaDefinition {L n : Nat} (d : Bytes) : Good L n (parseSchemaDefinition n d) := by
  unfold Gql.Parser.parseSchemaDefinition; good
theorem Progress.parseSchemaDefinition {L : Nat} (n : Nat) (d : Bytes) : Progress L (parseSchemaDefinition n d) := by
  unfold Gql.Parser.parseSchemaDefinition; progress

theorem Good.parseScalarTypeDefinition {L n : Nat} (d : Bytes) : Good L n (parseScalarTypeDefinition n d) := by
  unfold Gql.Parser.parseScalarTypeDefinition; good
theorem Progress.parseScalarTypeDefinition {L : Nat} (n : Nat) (d : Bytes) : Progress L (parseScalarTypeDefinition n d) := by
  unfold Gql.Parser.parseScalarTypeDefinition; progress

theorem Good.parseImplementsInterfaces {L n : Nat} : Good L n (parseImplementsInterfaces n) := by
  have h (acc : List Name) := Good.sepLoop (L := L) .amp (by decide) (Good.parseName (n := n)) (Nat.le_refl n) acc
  unfold Gql.Parser.parseImplementsInterfaces; good
  exact h _
macro_rules | `(tactic| good_leaf) => `(tactic| with_reducible exact Good.parseImplementsInterfaces)

theorem Good.parseArgumentDef {L n : Nat} : Good L n (parseArgumentDef n) := by
  unfold Gql.Parser.parseArgumentDef; good
theorem Progress.parseArgumentDef {L : Nat} (n : Nat) : Progress L (parseArgumentDef n) := by
  unfold Gql.Parser.parseArgumentDef; progress

theorem Good.parseArgumentDefs {L n : Nat} : Good L n (parseArgumentDefs n) := by
  unfold Gql.Parser.parseArgumentDefs
  exact pSome_good _ _ (by decide) Good.parseArgumentDef (Progress.parseArgumentDef n) (Nat.le_refl _) (Nat.le_succ _)
macro_rules | `(tactic| good_leaf) => `(tactic| with_reducible exact Good.parseArgumentDefs)

theorem Good.parseFieldDefinition {L n : Nat} : Good L n (parseFieldDefinition n) := by
  unfold Gql.Parser.parseFieldDefinition; good
theorem Progress.parseFieldDefinition {L : Nat} (n : Nat) : Progress L (parseFieldDefinition n) := by
  unfold Gql.Parser.parseFieldDefinition; progress

theorem Good.parseFieldsDefinition {L n : Nat} : Good L n (parseFieldsDefinition n) := by
  unfold Gql.Parser.parseFieldsDefinition
  exact pSome_good _ _ (by decide) Good.parseFieldDefinition (Progress.parseFieldDefinition n) (Nat.le_refl _) (Nat.le_succ _)
macro_rules | `(tactic| good_leaf) => `(tactic| with_reducible exact Good.parseFieldsDefinition)

theorem Good.parseInputValueDef {L n : Nat} : Good L n (parseInputValueDef n) := by
  unfold Gql.Parser.parseInputValueDef; good
theorem Progress.parseInputValueDef {L : Nat} (n : Nat) : Progress L (parseInputValueDef n) := by
  unfold Gql.Parser.parseInputValueDef; progress

theorem Good.parseInputFieldsDefinition {L n : Nat} : Good L n (parseInputFieldsDefinition n) := by
  unfold Gql.Parser.parseInputFieldsDefinition
  exact pSome_good _ _ (by decide) Good.parseInputValueDef (Progress.parseInputValueDef n) (Nat.le_refl _) (Nat.le_succ _)
macro_rules | `(tactic| good_leaf) => `(tactic| with_reducible exact Good.parseInputFieldsDefinition)

theorem Good.parseObjectTypeDefinition {L n : Nat} (d : Bytes) : Good L n (parseObjectTypeDefinition n d) := by
  unfold Gql.Parser.parseObjectTypeDefinition; good
theorem Progress.parseObjectTypeDefinition {L : Nat} (n : Nat) (d : Bytes) : Progress L (parseObjectTypeDefinition n d) := by
  unfold Gql.Parser.parseObjectTypeDefinition; progress

theorem Good.parseInterfaceTypeDefinition {L n : Nat} (d : Bytes) : Good L n (parseInterfaceTypeDefinition n d) := by
  unfold Gql.Parser.parseInterfaceTypeDefinition; good
theorem Progress.parseInterfaceTypeDefinition {L : Nat} (n : Nat) (d : Bytes) :
    Progress L (parseInterfaceTypeDefinition n d) := by
  unfold Gql.Parser.parseInterfaceTypeDefinition; progress

theorem Good.parseUnionMemberTypes {L n : Nat} : Good L n (parseUnionMemberTypes n) := by
  have h (acc : List Name) := Good.sepLoop (L := L) .pipe (by decide) (Good.parseName (n := n)) (Nat.le_refl n) acc
  unfold Gql.Parser.parseUnionMemberTypes; good
  exact h _
macro_rules | `(tactic| good_leaf) => `(tactic| with_reducible exact Good.parseUnionMemberTypes)

theorem Good.parseUnionTypeDefinition {L n : Nat} (d : Bytes) : Good L n (parseUnionTypeDefinition n d) := by
  unfold Gql.Parser.parseUnionTypeDefinition; good
theorem Progress.parseUnionTypeDefinition {L : Nat} (n : Nat) (d : Bytes) : Progress L (parseUnionTypeDefinition n d) := by
  unfold Gql.Parser.parseUnionTypeDefinition; progress

theorem Good.parseEnumValueDefinition {L n : Nat} : Good L n (parseEnumValueDefinition n) := by
  unfold Gql.Parser.parseEnumValueDefinition; good
theorem Progress.parseEnumValueDefinition {L : Nat} (n : Nat) : Progress L (parseEnumValueDefinition n) := by
  unfold Gql.Parser.parseEnumValueDefinition; progress

theorem Good.parseEnumValuesDefinition {L n : Nat} : Good L n (parseEnumValuesDefinition n) := by
  unfold Gql.Parser.parseEnumValuesDefinition
  exact pSome_good _ _ (by decide) Good.parseEnumValueDefinition (Progress.parseEnumValueDefinition n) (Nat.le_refl _)
    (Nat.le_succ _)
macro_rules | `(tactic| good_leaf) => `(tactic| with_reducible exact Good.parseEnumValuesDefinition)

theorem Good.parseEnumTypeDefinition {L n : Nat} (d : Bytes) : Good L n (parseEnumTypeDefinition n d) := by
  unfold Gql.Parser.parseEnumTypeDefinition; good
theorem Progress.parseEnumTypeDefinition {L : Nat} (n : Nat) (d : Bytes) : Progress L (parseEnumTypeDefinition n d) := by
  unfold Gql.Parser.parseEnumTypeDefinition; progress

theorem Good.parseInputObjectTypeDefinition {L n : Nat} (d : Bytes) : Good L n (parseInputObjectTypeDefinition n d) := by
  unfold Gql.Parser.parseInputObjectTypeDefinition; good
theorem Progress.parseInputObjectTypeDefinition {L : Nat} (n : Nat) (d : Bytes) :
    Progress L (parseInputObjectTypeDefinition n d) := by
  unfold Gql.Parser.parseInputObjectTypeDefinition; progress

theorem Good.parseTypeSystemDefinition {L n : Nat} (d : Bytes) : Good L n (parseTypeSystemDefinition n d) := by
  have h1 := Good.parseScalarTypeDefinition (L := L) (n := n) d
  have h2 := Good.parseObjectTypeDefinition (L := L) (n := n) d
  have h3 := Good.parseInterfaceTypeDefinition (L := L) (n := n) d
  have h4 := Good.parseUnionTypeDefinition (L := L) (n := n) d
  have h5 := Good.parseEnumTypeDefinition (L := L) (n := n) d
  have h6 := Good.parseInputObjectTypeDefinition (L := L) (n := n) d
  unfold Gql.Parser.parseTypeSystemDefinition; good

theorem Progress.parseTypeSystemDefinition {L : Nat} (n : Nat) (d : Bytes) : Progress L (parseTypeSystemDefinition n d) := by
  have h1 := Progress.parseScalarTypeDefinition (L := L) n d
  have h2 := Progress.parseObjectTypeDefinition (L := L) n d
  have h3 := Progress.parseInterfaceTypeDefinition (L := L) n d
  have h4 := Progress.parseUnionTypeDefinition (L := L) n d
  have h5 := Progress.parseEnumTypeDefinition (L := L) n d
  have h6 := Progress.parseInputObjectTypeDefinition (L := L) n d
  unfold Gql.Parser.parseTypeSystemDefinition; progress

/-! ### extensions -/

theorem Good.parseSchemaExtension {L n : Nat} : Good L n (parseSchemaExtension n) := by
  unfold Gql.Parser.parseSchemaExtension; good
theorem Good.parseScalarTypeExtension {L n : Nat} : Good L n (parseScalarTypeExtension n) := by
  unfold Gql.Parser.parseScalarTypeExtension; good
theorem Good.parseObjectTypeExtension {L n : Nat} : Good L n (parseObjectTypeExtension n) := by
  unfold Gql.Parser.parseObjectTypeExtension; good
theorem Good.parseInterfaceTypeExtension {L n : Nat} : Good L n (parseInterfaceTypeExtension n) := by
  unfold Gql.Parser.parseInterfaceTypeExtension; good
theorem Good.parseUnionTypeExtension {L n : Nat} : Good L n (parseUnionTypeExtension n) := by
  unfold Gql.Parser.parseUnionTypeExtension; good
theorem Good.parseEnumTypeExtension {L n : Nat} : Good L n (parseEnumTypeExtension n) := by
  unfold Gql.Parser.parseEnumTypeExtension; good
theorem Good.parseInputObjectTypeExtension {L n : Nat} : Good L n (parseInputObjectTypeExtension n) := by
  unfold Gql.Parser.parseInputObjectTypeExtension; good

theorem Good.parseTypeSystemExtension {L n : Nat} (doc : SchemaDoc) : Good L n (parseTypeSystemExtension n doc) := by
  have h1 := Good.parseSchemaExtension (L := L) (n := n)
  have h2 := Good.parseScalarTypeExtension (L := L) (n := n)
  have h3 := Good.parseObjectTypeExtension (L := L) (n := n)
  have h4 := Good.parseInterfaceTypeExtension (L := L) (n := n)
  have h5 := Good.parseUnionTypeExtension (L := L) (n := n)
  have h6 := Good.parseEnumTypeExtension (L := L) (n := n)
  have h7 := Good.parseInputObjectTypeExtension (L := L) (n := n)
  unfold Gql.Parser.parseTypeSystemExtension; good

theorem Progress.parseTypeSystemExtension {L : Nat} (n : Nat) (doc : SchemaDoc) :
    Progress L (parseTypeSystemExtension n doc) := by
  unfold Gql.Parser.parseTypeSystemExtension; progress

/-! ### directive definitions -/

theorem Good.parseDirectiveLocation {L n : Nat} : Good L n parseDirectiveLocation := by
  unfold Gql.Parser.parseDirectiveLocation; good
macro_rules | `(tactic| good_leaf) => `(tactic| with_reducible exact Good.parseDirectiveLocation)

theorem Good.parseDirectiveLocations {L n : Nat} : Good L n (parseDirectiveLocations n) := by
  have h (acc : List Bytes) :=
    Good.sepLoop (L := L) .pipe (by decide) (Good.parseDirectiveLocation (n := n)) (Nat.le_refl n) acc
  unfold Gql.Parser.parseDirectiveLocations; good
  exact h _
macro_rules | `(tactic| good_leaf) => `(tactic| with_reducible exact Good.parseDirectiveLocations)

theorem Good.parseDirectiveDefinition {L n : Nat} (d : Bytes) : Good L n (parseDirectiveDefinition n d) := by
  unfold Gql.Parser.parseDirectiveDefinition; good
theorem Progress.parseDirectiveDefinition {L : Nat} (n : Nat) (d : Bytes) : Progress L (parseDirectiveDefinition n d) := by
  unfold Gql.Parser.parseDirectiveDefinition; progress

/-! ### the document loop -/

theorem Good.parseOptionalDescription {L n : Nat} : Good L n parseOptionalDescription := by
  unfold Gql.Parser.parseOptionalDescription; good

theorem Good.rejectDescription {L n : Nat} (d : Bool) : Good L n (rejectDescription d) := by
  unfold Gql.Parser.rejectDescription; good

theorem Good.run_bind_oof {α β : Type} {L m : Nat} {p : Prog α} {f : α → Prog β} (hg : Good L m p) {s : PState}
    (hm : mu s < m) (ho : s.oof = false)
    (h : ∀ a s', mu s' ≤ mu s → s'.oof = false → (run L (f a) s').2.oof = false) :
    (run L (p >>= f) s).2.oof = false := by
  rw [run_bind']
  exact h _ _ (run_mu_le L p s) (hg s hm ho)

/-- one iteration of a loop with positive remaining fuel; no liveness needed -/
theorem loop_step' {α β : Type} {L m k : Nat} {p : Prog α} {f : α → Prog β} (hg : Good L m p) (hp : Progress L p)
    {s : PState} (hk : mu s < k + 1) (hm : mu s < m) (ho : s.oof = false) (hk0 : 0 < k)
    (ih : ∀ a s', mu s' < k → mu s' < m → s'.oof = false → (run L (f a) s').2.oof = false) :
    (run L (p >>= f) s).2.oof = false := by
  rw [run_bind']
  have hle := run_mu_le L p s
  cases hd : dead s
  · have := hp s hd
    exact ih _ _ (by omega) (by omega) (hg s hm ho)
  · rw [mu_dead hd] at hle
    exact ih _ _ (by omega) (by omega) (hg s hm ho)

theorem schemaDocLoop_good {L m : Nat} : ∀ (k : Nat) (doc : SchemaDoc) (s : PState), mu s < k → mu s < m →
    s.oof = false → (run L (schemaDocLoop m k doc) s).2.oof = false := by
  intro k
  induction k with
  | zero => intro doc s h; omega
  | succ k ih =>
    intro doc s hk hm ho
    unfold schemaDocLoop
    rw [run_peek_bind]
    obtain ⟨p1, p2, p3⟩ := peek_spec L s
    have ho1 := p2 ho
    split
    · rw [run_hasErr_bind]
      split
      · simpa [run] using ho1
      · rename_i he
        have hd1 : dead (s.peek L).2 = false := by simp at he; simp [dead, he, ho1]
        have hk0 : 0 < k := by have := mu_pos_of_live hd1; omega
        refine Good.run_bind_oof (m := m) Good.parseOptionalDescription (by omega) ho1 fun description s3 h3 ho3 => ?_
        refine Good.run_bind_oof (m := m) Good.peek (by omega) ho3 fun c s4 h4 ho4 => ?_
        split
        · exact (show Good L m _ from by good) s4 (by omega) ho4
        · refine Good.run_bind_oof (m := m) Good.peek (by omega) ho4 fun d s5 h5 ho5 => ?_
          split
          · exact loop_step' (Good.parseTypeSystemDefinition _) (Progress.parseTypeSystemDefinition m _)
              (by omega) (by omega) ho5 hk0 fun a s' h1 h2 h3 => ih _ s' h1 h2 h3
          · split
            · exact loop_step' (Good.parseSchemaDefinition _) (Progress.parseSchemaDefinition m _)
                (by omega) (by omega) ho5 hk0 fun a s' h1 h2 h3 => ih _ s' h1 h2 h3
            · split
              · exact loop_step' (Good.parseDirectiveDefinition _) (Progress.parseDirectiveDefinition m _)
                  (by omega) (by omega) ho5 hk0 fun a s' h1 h2 h3 => ih _ s' h1 h2 h3
              · split
                · refine Good.run_bind_oof (m := m) (Good.rejectDescription _) (by omega) ho5 fun _ s6 h6 ho6 => ?_
                  exact loop_step' (Good.parseTypeSystemExtension _) (Progress.parseTypeSystemExtension m _)
                    (by omega) (by omega) ho6 hk0 fun a s' h1 h2 h3 => ih _ s' h1 h2 h3
                · exact (show Good L m _ from by good) s5 (by omega) ho5
    · simpa [run] using ho1

theorem Good.parseSchemaDocument {L n : Nat} : Good L n (parseSchemaDocument n) := by
  unfold Gql.Parser.parseSchemaDocument
  exact Good.bind Good.peekPos fun _ s hs ho => schemaDocLoop_good n _ s hs hs ho

/-- the schema entry point never runs out of fuel -/
theorem runSchema_oof (L src : Nat) (inp : Bytes) : (runSchema L src inp).2.oof = false := by
  unfold runSchema
  exact Good.parseSchemaDocument _ (by rw [mu_init]; unfold fuelFor; omega) rfl

end Gql.Parser
