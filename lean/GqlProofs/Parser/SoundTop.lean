import GqlProofs.Parser.SoundQuery
import GqlProofs.Parser.Results
/-
  From the program logic to the entry point `parseQuery`: a successful parse consumed exactly
  the significant tokens of `lexAll`, they derive `ExecutableDocument` with the unparse of the
  tree as canonical form, and every non-EOF token was counted exactly once.
-/
namespace Gql.Parser
open Gql Gql.Lexer Gql.Grammar Gql.Print

/-! ### from a live run to `lexAll` -/

theorem raw_len_of_eof {s : PState} {t : Token} (hw : WF s) (hp : s.peeked = true) (h : s.raw.sig = .eof t) :
    s.raw.len = 0 := by
  obtain ⟨_, w2⟩ := hw hp
  unfold PState.raw at h ⊢
  rw [hp] at h ⊢
  simp only [↓reduceIte] at h ⊢
  cases hpe : s.peekErr with
  | some e => rfl
  | none =>
    rw [hpe] at h
    simp only at h ⊢
    split
    · rfl
    · rename_i hk
      rw [if_neg hk] at h
      simp [Stream.sig, (w2 hpe).1] at h

/-- a stream whose significant part is `used` followed by EOF -/
theorem stream_of_sig {ρ : Stream} {used : List Token} {t : Token} (h : ρ.sig = Stream.app used (.eof t)) :
    ρ = Stream.app ρ.toks (.eof t) ∧ ρ.toks.filter (fun t => t.kind != .comment) = used := by
  have h1 : ρ.sig.toks = used := by rw [h, Stream.toks_app]; simp [Stream.toks]
  have h2 : ρ.sig.term = .eof t := by rw [h, Stream.term_app]; rfl
  rw [Stream.sig_toks] at h1
  rw [Stream.sig_term] at h2
  refine ⟨?_, h1⟩
  have := Stream.eq_app_toks ρ
  rw [h2] at this
  exact this

theorem Stream.NoEof.toks_ne {σ : Stream} (h : σ.NoEof) : ∀ t ∈ σ.toks, t.kind ≠ .eof := by
  induction σ with
  | eof t => intro t ht; cases ht
  | err e => intro t ht; cases ht
  | cons u σ ih =>
    intro t ht
    rcases List.mem_cons.1 ht with rfl | ht
    · exact h.1.1
    · exact ih h.2 t ht

/-- number of non-EOF tokens (comments included) of `lexAll inp` -/
def countTokens (inp : Bytes) : Nat := ((lexAll inp).tokens.filter fun t => t.kind != .eof).length

/-- What a live run of a whole-input program that stops with the look-ahead on EOF tells about
    `lexAll`: the lexer succeeds, the program consumed exactly the non-comment tokens, and the
    token counter is the number of non-EOF tokens. -/
theorem run_to_eof {α : Type} {p : Prog α} {R : α → AS → AS → Prop} (hp : Spec p R) (src : Nat) (inp : Bytes)
    (hlive : dead (run 0 p (PState.init src inp)).2 = false)
    (hR : ∀ x a a', R x a a' → ∃ used, Ate a a' used ∧ a'.pk = true ∧ a'.σ.head.kind = .eof) :
    ∃ (raw : List Token) (eof : Token), lexAll inp = .done (raw ++ [eof]) ∧ eof.kind = .eof ∧
      (∀ t ∈ raw, t.kind ≠ .eof) ∧
      raw.Pairwise (fun a b => a.start < b.start) ∧
      (run 0 p (PState.init src inp)).2.tokenCount = raw.length ∧
      R (run 0 p (PState.init src inp)).1 (abs (PState.init src inp)) (abs (run 0 p (PState.init src inp)).2) ∧
      (∀ used, Ate (abs (PState.init src inp)) (abs (run 0 p (PState.init src inp)).2) used →
        raw.filter (fun t => t.kind != .comment) = used) := by
  obtain ⟨wf, r⟩ := hp _ (WF.init src inp) hlive
  obtain ⟨used, hate, hpk, hk⟩ := hR _ _ _ r
  have hne := abs_noEof wf
  obtain ⟨t, ht⟩ := hne.eof_of_head hk
  have hσ := hate.σ
  rw [abs_init, ht] at hσ
  simp only at hσ
  obtain ⟨e1, e2⟩ := stream_of_sig hσ
  have hnoeof := rawS_noEof inp Cur.init
  have hteof : t.kind = .eof := by rw [ht] at hne; exact hne
  refine ⟨_, t, lexAll_of_rawS e1, hteof, hnoeof.toks_ne, (rawS_sorted inp Cur.init).2, ?_, r, ?_⟩
  · have hc := hate.cnt
    rw [abs_init] at hc
    simp only [abs] at hc
    have hl : (run 0 p (PState.init src inp)).2.raw.len = 0 := raw_len_of_eof wf hpk ht
    rw [hl, Stream.len_eq_toks] at hc
    omega
  · intro used' hate'
    have hσ' := hate'.σ
    rw [abs_init, ht] at hσ'
    simp only at hσ'
    exact (stream_of_sig hσ').2

theorem countTokens_of_done {inp : Bytes} {raw : List Token} {eof : Token} (h : lexAll inp = .done (raw ++ [eof]))
    (he : eof.kind = .eof) (hr : ∀ t ∈ raw, t.kind ≠ .eof) : countTokens inp = raw.length := by
  unfold countTokens
  rw [h]
  simp only [LexOut.tokens, List.filter_append]
  have h1 : raw.filter (fun t => t.kind != .eof) = raw := by
    apply List.filter_eq_self.2
    intro t ht; simpa using hr t ht
  simp [h1, he]

theorem tokensOf_of_done {inp : Bytes} {raw : List Token} {eof : Token} (h : lexAll inp = .done (raw ++ [eof]))
    (he : eof.kind = .eof) (hr : ∀ t ∈ raw, t.kind ≠ .eof) :
    tokensOf inp = some (tk (raw.filter fun t => t.kind != .comment)) := by
  unfold tokensOf
  rw [h]
  simp only [List.filter_append, List.map_append, tk]
  have h1 : raw.filter significant = raw.filter (fun t => t.kind != .comment) := by
    apply List.filter_congr
    intro t ht
    have := hr t ht
    simp [significant, this]
  simp [h1, significant, he]

/-! ### the document: derivation and unparse -/

def defItem : Def → Nat × List Tok
  | .inl o => (o.pos.start, printOperation o)
  | .inr f => (f.pos.start, printFragment f)

theorem items_perm (defs : List Def) :
    ((opsOf defs).map (fun o => (o.pos.start, printOperation o)) ++
      (fragsOf defs).map (fun f => (f.pos.start, printFragment f))).Perm (defs.map defItem) := by
  induction defs with
  | nil => simp [opsOf, fragsOf]
  | cons d r ih =>
    cases d with
    | inl o => simpa [opsOf, fragsOf, defItem] using ih
    | inr f =>
      simp only [opsOf, fragsOf, defItem, List.map_cons]
      exact List.perm_middle.trans (List.Perm.cons _ ih)

theorem eq_of_key {l : List (Nat × List Tok)} (hs : l.Pairwise fun a b => a.1 < b.1) {a b : Nat × List Tok}
    (ha : a ∈ l) (hb : b ∈ l) (h : a.1 = b.1) : a = b := by
  induction l with
  | nil => cases ha
  | cons x l ih =>
    rw [List.pairwise_cons] at hs
    rcases List.mem_cons.1 ha with ha' | ha' <;> rcases List.mem_cons.1 hb with hb' | hb'
    · rw [ha', hb']
    · have := hs.1 b hb'; rw [ha'] at h; omega
    · have := hs.1 a ha'; rw [hb'] at h; omega
    · exact ih hs.2 ha' hb'

/-- sorting a permutation of a strictly increasing list gives that list -/
theorem inSourceOrder_sorted {items l : List (Nat × List Tok)} (hp : items.Perm l)
    (hs : l.Pairwise fun a b => a.1 < b.1) : inSourceOrder items = l.map (·.2) := by
  unfold inSourceOrder
  congr 1
  apply List.Perm.eq_of_pairwise (le := fun a b => decide (a.1 ≤ b.1) = true)
  · intro a b ha hb hab hba
    have ha' : a ∈ l := hp.mem_iff.1 ((List.mergeSort_perm _ _).mem_iff.1 ha)
    simp only [decide_eq_true_eq] at hab hba
    exact eq_of_key hs ha' hb (by omega)
  · exact List.pairwise_mergeSort (fun a b c h1 h2 => by simp only [decide_eq_true_eq] at *; omega)
      (fun a b => by simp only [Bool.or_eq_true, decide_eq_true_eq]; omega) _
  · exact hs.imp fun h => by simp only [decide_eq_true_eq]; omega
  · exact (List.mergeSort_perm _ _).trans hp

theorem many_keys {defs : List Def} {used : List Token} (h : Many PDef defs used)
    (hs : used.Pairwise fun a b => a.start < b.start) :
    (∀ d ∈ defs, ∃ t ∈ used, (defItem d).1 = t.start) ∧ defs.Pairwise (fun a b => (defItem a).1 < (defItem b).1) := by
  induction h with
  | nil => exact ⟨fun _ h => (by cases h), List.Pairwise.nil⟩
  | @cons x xs u us hx _ ih =>
    rw [List.pairwise_append] at hs
    obtain ⟨s1, s2, s3⟩ := hs
    obtain ⟨i1, i2⟩ := ih s2
    have hfirst : ∃ t rest, u = t :: rest ∧ (defItem x).1 = t.start := by
      cases x with
      | inl o => exact hx.1
      | inr f => exact hx.1
    obtain ⟨t, rest, rfl, hkey⟩ := hfirst
    refine ⟨fun d hd => ?_, List.pairwise_cons.2 ⟨fun d hd => ?_, i2⟩⟩
    · rcases List.mem_cons.1 hd with rfl | hd
      · exact ⟨t, by simp, hkey⟩
      · obtain ⟨t', ht', hk'⟩ := i1 d hd
        exact ⟨t', by simp [ht'], hk'⟩
    · obtain ⟨t', ht', hk'⟩ := i1 d hd
      rw [hkey, hk']
      exact s3 t (by simp) t' ht'

theorem many_defs {defs : List Def} {used : List Token} (h : Many PDef defs used) :
    Derives gql (.star (.nt .executableDefinition)) (tk used) (defs.flatMap fun d => (defItem d).2) ∧
      (∀ o ∈ opsOf defs, WFOperation o) ∧ (∀ f ∈ fragsOf defs, WFFragment f) := by
  induction h with
  | nil => exact ⟨Derives.starNil, fun _ h => (by cases h), fun _ h => (by cases h)⟩
  | @cons x xs u us hx _ ih =>
    obtain ⟨i1, i2, i3⟩ := ih
    cases x with
    | inl o =>
      refine ⟨?_, ?_, by simpa [fragsOf] using i3⟩
      · simp only [tk_append, List.flatMap_cons, defItem]
        exact Derives.starCons (Derives.nt (n := NT.executableDefinition) (Derives.altL hx.2.1)) i1
      · intro o' ho'
        simp only [opsOf, List.mem_cons] at ho'
        rcases ho' with rfl | ho'
        · exact hx.2.2
        · exact i2 o' ho'
    | inr f =>
      refine ⟨?_, by simpa [opsOf] using i2, ?_⟩
      · simp only [tk_append, List.flatMap_cons, defItem]
        exact Derives.starCons (Derives.nt (n := NT.executableDefinition) (Derives.altR hx.2.1)) i1
      · intro f' hf'
        simp only [fragsOf, List.mem_cons] at hf'
        rcases hf' with rfl | hf'
        · exact hx.2.2
        · exact i3 f' hf'

theorem star_to_plus {g : Grammar NT} {a : Sym NT} {ts out : List Tok} (h : Derives g (.star a) ts out) (hne : ts ≠ []) :
    Derives g (.plus a) ts out := by
  generalize hs : Sym.star a = s at h
  induction h with
  | starNil => exact absurd rfl hne
  | @starCons a' t1 t2 o1 o2 h1 h2 _ _ =>
    cases hs
    exact Derives.plus h1 h2
  | _ => cases hs

theorem opsOf_nil_fragsOf_nil {defs : List Def} (h1 : opsOf defs = []) (h2 : fragsOf defs = []) : defs = [] := by
  cases defs with
  | nil => rfl
  | cons d r => cases d <;> simp [opsOf, fragsOf] at h1 h2

/-- **soundness of `parseQuery`** (with the counter of consumed tokens) -/
theorem parseQuery_sound (inp : Bytes) (doc : QueryDoc) (h : parseQuery 0 inp = .ok doc) :
    ∃ (raw : List Token) (eof : Token), lexAll inp = .done (raw ++ [eof]) ∧ eof.kind = .eof ∧
      (∀ t ∈ raw, t.kind ≠ .eof) ∧
      (runQuery 0 inp).2.tokenCount = raw.length ∧
      (doc.ops ≠ [] ∨ doc.frags ≠ [] →
        Derives gql (.nt .executableDocument) (tk (raw.filter fun t => t.kind != .comment)) (printQuery doc) ∧
        WFQuery doc) ∧
      (doc.ops = [] ∧ doc.frags = [] → raw.filter (fun t => t.kind != .comment) = []) := by
  obtain ⟨hoof, herr, hdoc⟩ := ofRun_ok.1 h
  have hlive : dead (runQuery 0 inp).2 = false := by simp [dead, hoof, herr]
  obtain ⟨raw, eof, hlex, heof, hraw, hsorted, hcount, r, huniq⟩ :=
    run_to_eof (spec_parseQueryDocument (fuelFor inp)) 0 inp hlive
      (fun _ _ _ ⟨_, used, h1, h2, h3, _⟩ => ⟨used, h1, h2, h3⟩)
  obtain ⟨defs, used, hate, hpk, hk, hops, hfrags, hm⟩ := r
  have hfilter := huniq used hate
  have hops' : doc.ops = opsOf defs := by rw [← hdoc]; simpa [runQuery] using hops
  have hfrags' : doc.frags = fragsOf defs := by rw [← hdoc]; simpa [runQuery] using hfrags
  refine ⟨raw, eof, hlex, heof, hraw, hcount, fun hne => ?_, fun hemp => ?_⟩
  · obtain ⟨d1, d2, d3⟩ := many_defs hm
    have hdefs : defs ≠ [] := by
      intro e; subst e
      rcases hne with h | h
      · exact h (by rw [hops']; rfl)
      · exact h (by rw [hfrags']; rfl)
    have hused_sorted : used.Pairwise (fun a b => a.start < b.start) := by
      rw [← hfilter]; exact hsorted.sublist List.filter_sublist
    obtain ⟨_, k2⟩ := many_keys hm hused_sorted
    have hprint : printQuery doc = defs.flatMap fun d => (defItem d).2 := by
      unfold printQuery
      rw [hops', hfrags', inSourceOrder_sorted (items_perm defs) (by simpa [List.pairwise_map] using k2)]
      simp [List.flatMap_def, List.map_map, Function.comp_def]
    have hused_ne : tk used ≠ [] := by
      cases hm with
      | nil => exact absurd rfl hdefs
      | @cons x xs u us hx _ =>
        have : ∃ t rest, u = t :: rest := by
          cases x with
          | inl o => obtain ⟨t, rest, e, _⟩ := hx.1; exact ⟨t, rest, e⟩
          | inr f => obtain ⟨t, rest, e, _⟩ := hx.1; exact ⟨t, rest, e⟩
        obtain ⟨t, rest, rfl⟩ := this
        simp
    refine ⟨?_, ⟨?_, ?_, ?_⟩⟩
    · rw [hfilter, hprint]
      exact Derives.nt (n := NT.executableDocument) (star_to_plus d1 hused_ne)
    · exact hne
    · rw [hops']; exact d2
    · rw [hfrags']; exact d3
  · have : defs = [] := opsOf_nil_fragsOf_nil (by rw [← hops']; exact hemp.1) (by rw [← hfrags']; exact hemp.2)
    subst this
    rw [hfilter]
    cases hm
    rfl

end Gql.Parser
