import GqlProofs.Parser.Fuel
/-
  `Good` and `Progress` for every definition of `Parser/Query.lean`.
-/
namespace Gql.Parser
open Gql Gql.Lexer

syntax "good_leaf" : tactic
macro_rules | `(tactic| good_leaf) => `(tactic| with_reducible first
  | exact Good.pure _ | exact Good.peek | exact Good.next | exact Good.hasErr | exact Good.getSrc
  | exact Good.getPrev | exact Good.failAt _ _ | exact Good.unexpectedToken _ | exact Good.unexpectedError
  | exact Good.peekPos | exact Good.expect _ | exact Good.expectKeyword _ | exact Good.skip _
  | exact Good.zero _ | assumption)

macro "good" : tactic => `(tactic| repeat' (first
  | good_leaf
  | (with_reducible refine Good.bind ?_ (fun _ => ?_))
  | split))

syntax "progress_leaf" : tactic
macro_rules | `(tactic| progress_leaf) => `(tactic| with_reducible first
  | exact Progress.expect _ (by decide) | exact Progress.expectKeyword _ | exact Progress.failAt _ _
  | exact Progress.unexpectedToken _ | exact Progress.unexpectedError | exact Progress.outOfFuel _ | assumption)

macro "progress" : tactic => `(tactic| repeat' (first
  | progress_leaf
  | (with_reducible refine Progress.bind_left _ ?_; progress_leaf)
  | (with_reducible refine Progress.bind_right _ (fun _ => ?_))
  | split))

/-! ### names, variables -/

theorem Good.parseName {L n : Nat} : Good L n parseName := by unfold Gql.Parser.parseName; good
macro_rules | `(tactic| good_leaf) => `(tactic| with_reducible exact Good.parseName)
theorem Progress.parseName {L : Nat} : Progress L parseName := by unfold Gql.Parser.parseName; progress
macro_rules | `(tactic| progress_leaf) => `(tactic| with_reducible exact Progress.parseName)

theorem Good.parseVariable {L n : Nat} : Good L n parseVariable := by unfold Gql.Parser.parseVariable; good
macro_rules | `(tactic| good_leaf) => `(tactic| with_reducible exact Good.parseVariable)
theorem Progress.parseVariable {L : Nat} : Progress L parseVariable := by unfold Gql.Parser.parseVariable; progress
macro_rules | `(tactic| progress_leaf) => `(tactic| with_reducible exact Progress.parseVariable)

/-! ### values -/

theorem Good.litValue {L n : Nat} (src : Nat) (t : Token) (k : ValueKind) : Good L n (litValue src t k) := by
  unfold Gql.Parser.litValue; good
macro_rules | `(tactic| good_leaf) => `(tactic| with_reducible exact Good.litValue _ _ _)

theorem Good.parseObjectFieldWith {L n : Nat} {pv : Prog Value} (h : Good L n pv) : Good L n (parseObjectFieldWith pv) := by
  unfold Gql.Parser.parseObjectFieldWith; good

theorem Progress.parseObjectFieldWith {L : Nat} (pv : Prog Value) : Progress L (parseObjectFieldWith pv) := by
  unfold Gql.Parser.parseObjectFieldWith; progress

theorem Good.parseListWith {L n : Nat} {pv : Prog Value} (hg : Good L n pv) (hp : Progress L pv) :
    Good L (n + 1) (parseListWith pv (n + 1)) := by
  unfold Gql.Parser.parseListWith
  refine Good.bind Good.peekPos fun _ => Good.bind ?_ fun _ => Good.pure _
  refine pMany_good _ _ (by decide) (m := n) ?_ ?_ (Nat.le_refl _) (Nat.le_refl _)
  · good
  · progress

theorem Good.parseObjectWith {L n : Nat} {pv : Prog Value} (hg : Good L n pv) :
    Good L (n + 1) (parseObjectWith pv (n + 1)) := by
  unfold Gql.Parser.parseObjectWith
  refine Good.bind Good.peekPos fun _ => Good.bind ?_ fun _ => Good.pure _
  exact pMany_good _ _ (by decide) (m := n) (Good.parseObjectFieldWith hg) (Progress.parseObjectFieldWith _)
    (Nat.le_refl _) (Nat.le_refl _)

theorem ProgRdy.parseListWith {L : Nat} {t : Token} (ht : t.kind = .bracketL) (pv : Prog Value) (k : Nat) :
    ProgRdy L t (parseListWith pv k) := by
  unfold Gql.Parser.parseListWith Gql.Parser.pMany
  refine ProgRdy.keep_bind Keeps.peekPos fun _ => ?_
  exact ProgRdy.bind_left _ (ProgRdy.bind_left _ (ProgRdy.skip _ (by decide) ht))

theorem ProgRdy.parseObjectWith {L : Nat} {t : Token} (ht : t.kind = .braceL) (pv : Prog Value) (k : Nat) :
    ProgRdy L t (parseObjectWith pv k) := by
  unfold Gql.Parser.parseObjectWith Gql.Parser.pMany
  refine ProgRdy.keep_bind Keeps.peekPos fun _ => ?_
  exact ProgRdy.bind_left _ (ProgRdy.bind_left _ (ProgRdy.skip _ (by decide) ht))

theorem ProgRdy.litValue {L : Nat} {t : Token} (src : Nat) (k : ValueKind) (ht : real t = true) :
    ProgRdy L t (litValue src t k) := by
  unfold Gql.Parser.litValue
  exact ProgRdy.bind_left _ (ProgRdy.next ht)

theorem parseValueLiteral_fuel {L : Nat} : ∀ (n : Nat) (c : Bool),
    Good L n (parseValueLiteral n c) ∧ Progress L (parseValueLiteral n c) := by
  intro n
  induction n with
  | zero => intro c; exact ⟨Good.zero _, by unfold parseValueLiteral; exact Progress.outOfFuel _⟩
  | succ n ih =>
    intro c
    obtain ⟨ihg, ihp⟩ := ih c
    constructor
    · unfold parseValueLiteral
      refine Good.bind Good.peek fun token => Good.bind Good.getSrc fun src => ?_
      split
      · exact Good.parseListWith ihg ihp
      · exact Good.parseObjectWith ihg
      all_goals good
    · unfold parseValueLiteral
      refine Progress.peek_bind fun token => ProgRdy.keep_bind Keeps.getSrc fun src => ?_
      split
      · rename_i h; exact ProgRdy.parseListWith h _ _
      · rename_i h; exact ProgRdy.parseObjectWith h _ _
      · split
        · exact ProgRdy.of_progress (by progress)
        · exact ProgRdy.of_progress (by progress)
      · rename_i h; exact ProgRdy.litValue _ _ (kind_real h (by decide))
      · rename_i h; exact ProgRdy.litValue _ _ (kind_real h (by decide))
      · rename_i h; exact ProgRdy.litValue _ _ (kind_real h (by decide))
      · rename_i h; exact ProgRdy.litValue _ _ (kind_real h (by decide))
      · rename_i h; exact ProgRdy.litValue _ _ (kind_real h (by decide))
      · exact ProgRdy.of_progress (by progress)

theorem Good.parseValueLiteral {L n : Nat} (c : Bool) : Good L n (parseValueLiteral n c) := (parseValueLiteral_fuel n c).1
theorem Progress.parseValueLiteral {L : Nat} (n : Nat) (c : Bool) : Progress L (parseValueLiteral n c) :=
  (parseValueLiteral_fuel n c).2
macro_rules | `(tactic| good_leaf) => `(tactic| with_reducible exact Good.parseValueLiteral _)
macro_rules | `(tactic| progress_leaf) => `(tactic| with_reducible exact Progress.parseValueLiteral _ _)

/-! ### loop wrappers -/

theorem Good.directivesLoop {L n k : Nat} {pd : Prog Directive} (hg : Good L n pd) (hp : Progress L pd) (hk : n ≤ k)
    (acc : List Directive) : Good L n (directivesLoop pd k acc) :=
  fun s hs ho => directivesLoop_good hg hp k acc s (by omega) hs ho

theorem Good.sepLoop {α : Type} {L n k : Nat} (sep : Kind) (hsep : sep ≠ .eof) {item : Prog α} (hg : Good L n item)
    (hk : n ≤ k) (acc : List α) : Good L n (sepLoop sep item k acc) :=
  fun s hs ho => sepLoop_good sep hsep hg k acc s (by omega) hs ho

/-- `skip k >>= f`: the `true` branch runs after a real token has been consumed -/
theorem Good.skip_bind {α : Type} {L n : Nat} (k : Kind) (hk : k ≠ .eof) {f : Bool → Prog α}
    (ht : Good L n (f true)) (hf : Good L (n + 1) (f false)) : Good L (n + 1) (Gql.Parser.skip k >>= f) := by
  intro s hs ho
  rw [run_bind']
  have ho1 := Good.skip (L := L) (n := n + 1) k s hs ho
  have hle := run_mu_le L (Gql.Parser.skip k) s
  cases hb : (run L (Gql.Parser.skip k) s).1
  · exact hf _ (by omega) ho1
  · have hlt := skip_true k hk s (live_of_skip_true ho hb) hb
    exact ht _ (by omega) ho1

/-! ### arguments, directives, types -/

theorem Good.parseArgument {L n : Nat} (c : Bool) : Good L n (parseArgument n c) := by
  unfold Gql.Parser.parseArgument; good
theorem Progress.parseArgument {L : Nat} (n : Nat) (c : Bool) : Progress L (parseArgument n c) := by
  unfold Gql.Parser.parseArgument; progress

theorem Good.parseArguments {L n : Nat} (c : Bool) : Good L n (parseArguments n c) := by
  unfold Gql.Parser.parseArguments
  exact pSome_good _ _ (by decide) (Good.parseArgument c) (Progress.parseArgument n c) (Nat.le_refl _) (Nat.le_succ _)
macro_rules | `(tactic| good_leaf) => `(tactic| with_reducible exact Good.parseArguments _)

theorem Good.parseDirective {L n : Nat} (c : Bool) : Good L n (parseDirective n c) := by
  unfold Gql.Parser.parseDirective; good
theorem Progress.parseDirective {L : Nat} (n : Nat) (c : Bool) : Progress L (parseDirective n c) := by
  unfold Gql.Parser.parseDirective; progress

theorem Good.parseDirectives {L n : Nat} (c : Bool) : Good L n (parseDirectives n c) := by
  unfold Gql.Parser.parseDirectives
  exact Good.bind (Good.directivesLoop (Good.parseDirective c) (Progress.parseDirective n c) (Nat.le_refl _) _)
    fun _ => Good.pure _
macro_rules | `(tactic| good_leaf) => `(tactic| with_reducible exact Good.parseDirectives _)

theorem Good.parseTypeReference {L : Nat} : ∀ n, Good L n (parseTypeReference n) := by
  intro n
  induction n with
  | zero => exact Good.zero _
  | succ n ih =>
    unfold Gql.Parser.parseTypeReference
    refine Good.skip_bind _ (by decide) ?_ ?_
    · simp only [↓reduceIte]; good
    · simp only [Bool.false_eq_true, ↓reduceIte]; good
macro_rules | `(tactic| good_leaf) => `(tactic| with_reducible exact Good.parseTypeReference _)

theorem Good.parseVariableDefinition {L n : Nat} : Good L n (parseVariableDefinition n) := by
  unfold Gql.Parser.parseVariableDefinition; good
theorem Progress.parseVariableDefinition {L : Nat} (n : Nat) : Progress L (parseVariableDefinition n) := by
  unfold Gql.Parser.parseVariableDefinition; progress

theorem Good.parseVariableDefinitions {L n : Nat} : Good L n (parseVariableDefinitions n) := by
  unfold Gql.Parser.parseVariableDefinitions
  exact pSome_good _ _ (by decide) Good.parseVariableDefinition (Progress.parseVariableDefinition n) (Nat.le_refl _)
    (Nat.le_succ _)
macro_rules | `(tactic| good_leaf) => `(tactic| with_reducible exact Good.parseVariableDefinitions)

/-! ### selections -/

theorem Good.parseOptionalSelectionSetWith {L n m k : Nat} {sel : Prog Selection} (hg : Good L m sel)
    (hp : Progress L sel) (hk : n ≤ k) (hm : n ≤ m + 1) : Good L n (parseOptionalSelectionSetWith sel k) := by
  unfold Gql.Parser.parseOptionalSelectionSetWith
  exact Good.bind (pSome_good _ _ (by decide) hg hp hk hm) fun _ => Good.pure _

theorem Good.parseRequiredSelectionSetWith {L n m k : Nat} {sel : Prog Selection} (hg : Good L m sel)
    (hp : Progress L sel) (hk : n ≤ k) (hm : n ≤ m + 1) : Good L n (parseRequiredSelectionSetWith sel k) := by
  unfold Gql.Parser.parseRequiredSelectionSetWith
  refine Good.bind Good.peek fun t => ?_
  split
  · good
  · exact Good.bind (pSome_good _ _ (by decide) hg hp hk hm) fun _ => Good.pure _

theorem Progress.parseRequiredSelectionSetWith {L : Nat} (sel : Prog Selection) (k : Nat) :
    Progress L (parseRequiredSelectionSetWith sel k) := by
  unfold Gql.Parser.parseRequiredSelectionSetWith
  refine Progress.peek_bind fun t => ?_
  split
  · exact ProgRdy.of_progress (by progress)
  · rename_i h
    have ht : t.kind = .braceL := by simpa using h
    unfold Gql.Parser.pSome
    exact ProgRdy.bind_left _ (ProgRdy.bind_left _ (ProgRdy.skip _ (by decide) ht))

theorem Good.parseFragmentName {L n : Nat} : Good L n parseFragmentName := by
  unfold Gql.Parser.parseFragmentName; good
macro_rules | `(tactic| good_leaf) => `(tactic| with_reducible exact Good.parseFragmentName)

theorem Good.parseFieldWith {L n : Nat} {sel : Prog Selection} (hg : Good L n sel) (hp : Progress L sel) :
    Good L (n + 1) (parseFieldWith sel (n + 1)) := by
  have h1 := Good.parseOptionalSelectionSetWith (n := n + 1) hg hp (Nat.le_refl (n + 1)) (Nat.le_refl _)
  unfold Gql.Parser.parseFieldWith; good

theorem Good.parseFragmentWith {L n : Nat} {sel : Prog Selection} (hg : Good L n sel) (hp : Progress L sel) :
    Good L (n + 1) (parseFragmentWith sel (n + 1)) := by
  have h1 := Good.parseRequiredSelectionSetWith (n := n + 1) hg hp (Nat.le_refl (n + 1)) (Nat.le_refl _)
  unfold Gql.Parser.parseFragmentWith; good

theorem Progress.parseFieldWith {L : Nat} (sel : Prog Selection) (k : Nat) : Progress L (parseFieldWith sel k) := by
  unfold Gql.Parser.parseFieldWith; progress

theorem Progress.parseFragmentWith {L : Nat} (sel : Prog Selection) (k : Nat) : Progress L (parseFragmentWith sel k) := by
  unfold Gql.Parser.parseFragmentWith; progress

theorem Progress.parseSelection {L : Nat} : ∀ n, Progress L (parseSelection n) := by
  intro n
  cases n with
  | zero => unfold Gql.Parser.parseSelection; exact Progress.outOfFuel _
  | succ n =>
    unfold Gql.Parser.parseSelection
    refine Progress.bind_right _ fun t => ?_
    split
    · exact Progress.parseFragmentWith _ _
    · exact Progress.parseFieldWith _ _

theorem Good.parseSelection {L : Nat} : ∀ n, Good L n (parseSelection n) := by
  intro n
  induction n with
  | zero => exact Good.zero _
  | succ n ih =>
    unfold Gql.Parser.parseSelection
    refine Good.bind Good.peek fun t => ?_
    split
    · exact Good.parseFragmentWith ih (Progress.parseSelection n)
    · exact Good.parseFieldWith ih (Progress.parseSelection n)

theorem Good.parseRequiredSelectionSet {L n : Nat} : Good L n (parseRequiredSelectionSet n) := by
  unfold Gql.Parser.parseRequiredSelectionSet
  exact Good.parseRequiredSelectionSetWith (Good.parseSelection n) (Progress.parseSelection n) (Nat.le_refl _)
    (Nat.le_succ _)
macro_rules | `(tactic| good_leaf) => `(tactic| with_reducible exact Good.parseRequiredSelectionSet)

theorem Progress.parseRequiredSelectionSet {L : Nat} (n : Nat) : Progress L (parseRequiredSelectionSet n) :=
  Progress.parseRequiredSelectionSetWith _ _
macro_rules | `(tactic| progress_leaf) => `(tactic| with_reducible exact Progress.parseRequiredSelectionSet _)

/-! ### definitions -/

theorem Good.parseOperationType {L n : Nat} : Good L n parseOperationType := by
  unfold Gql.Parser.parseOperationType; good
macro_rules | `(tactic| good_leaf) => `(tactic| with_reducible exact Good.parseOperationType)

theorem Good.parseOperationDefinition {L n : Nat} : Good L n (parseOperationDefinition n) := by
  unfold Gql.Parser.parseOperationDefinition; good
theorem Progress.parseOperationDefinition {L : Nat} (n : Nat) : Progress L (parseOperationDefinition n) := by
  unfold Gql.Parser.parseOperationDefinition; progress

theorem Good.parseFragmentDefinition {L n : Nat} : Good L n (parseFragmentDefinition n) := by
  unfold Gql.Parser.parseFragmentDefinition; good
theorem Progress.parseFragmentDefinition {L : Nat} (n : Nat) : Progress L (parseFragmentDefinition n) := by
  unfold Gql.Parser.parseFragmentDefinition; progress

/-! ### the document loop -/

theorem run_peek_bind {α : Type} (L : Nat) (f : Token → Prog α) (s : PState) :
    run L (peek >>= f) s = run L (f (s.peek L).1) (s.peek L).2 := by
  simp [Gql.Parser.peek, Prog.bind, run]

theorem run_hasErr_bind {α : Type} (L : Nat) (f : Bool → Prog α) (s : PState) :
    run L (hasErr >>= f) s = run L (f s.err.isSome) s := by
  simp [Gql.Parser.hasErr, Prog.bind, run]

theorem run_keep {α β : Type} {L : Nat} {p : Prog α} (hk : Keeps L p) (f : α → Prog β) {t : Token} {s : PState}
    (hr : Ready t s) (hd : dead s = false) : run L (p >>= f) s = run L (f (run L p s).1) s := by
  rw [run_bind', hk t s hr hd]

/-- one iteration: a good, progressing definition followed by the rest of the loop -/
theorem loop_step {α β : Type} {L m k : Nat} {p : Prog α} {f : α → Prog β} (hg : Good L m p) (hp : Progress L p)
    {s : PState} (hd : dead s = false) (hk : mu s < k + 1) (hm : mu s < m) (ho : s.oof = false)
    (ih : ∀ a s', mu s' < k → mu s' < m → s'.oof = false → (run L (f a) s').2.oof = false) :
    (run L (p >>= f) s).2.oof = false := by
  rw [run_bind']
  have := hp s hd
  exact ih _ _ (by omega) (by omega) (hg s hm ho)

theorem queryDocLoop_good {L m : Nat} : ∀ (k : Nat) (doc : QueryDoc) (s : PState), mu s < k → mu s < m →
    s.oof = false → (run L (queryDocLoop m k doc) s).2.oof = false := by
  intro k
  induction k with
  | zero => intro doc s h; omega
  | succ k ih =>
    intro doc s hk hm ho
    unfold queryDocLoop
    rw [run_peek_bind]
    obtain ⟨p1, p2, p3⟩ := peek_spec L s
    have ho1 := p2 ho
    split
    · rw [run_hasErr_bind]
      split
      · simpa [run] using ho1
      · rename_i he
        have hd1 : dead (s.peek L).2 = false := by simp at he; simp [dead, he, ho1]
        have hr : Ready (s.peek L).1 (s.peek L).2 := by
          rcases p3 with h | h
          · rw [hd1] at h; cases h
          · exact h
        rw [run_keep Keeps.peekPos _ hr hd1, run_keep Keeps.peek _ hr hd1]
        have hk1 : mu (s.peek L).2 < k + 1 := by omega
        have hm1 : mu (s.peek L).2 < m := by omega
        split
        · rw [run_keep Keeps.peek _ hr hd1]
          split
          · exact loop_step Good.parseOperationDefinition (Progress.parseOperationDefinition m) hd1 hk1 hm1 ho1
              fun a s' h1 h2 h3 => ih _ s' h1 h2 h3
          · split
            · exact loop_step Good.parseFragmentDefinition (Progress.parseFragmentDefinition m) hd1 hk1 hm1 ho1
                fun a s' h1 h2 h3 => ih _ s' h1 h2 h3
            · exact loop_step Good.unexpectedError Progress.unexpectedError hd1 hk1 hm1 ho1
                fun a s' h1 h2 h3 => ih _ s' h1 h2 h3
        · exact loop_step Good.parseOperationDefinition (Progress.parseOperationDefinition m) hd1 hk1 hm1 ho1
            fun a s' h1 h2 h3 => ih _ s' h1 h2 h3
        · exact loop_step Good.unexpectedError Progress.unexpectedError hd1 hk1 hm1 ho1
            fun a s' h1 h2 h3 => ih _ s' h1 h2 h3
    · simpa [run] using ho1

theorem Good.parseQueryDocument {L n : Nat} : Good L n (parseQueryDocument n) := by
  unfold Gql.Parser.parseQueryDocument
  exact fun s hs ho => queryDocLoop_good n _ s hs hs ho

theorem mu_init (src : Nat) (inp : Bytes) : mu (PState.init src inp) = inp.length + 1 := by
  simp [mu, dead, bonus, PState.init]

/-- the query entry point never runs out of fuel -/
theorem runQuery_oof (L : Nat) (inp : Bytes) : (runQuery L inp).2.oof = false := by
  unfold runQuery
  exact Good.parseQueryDocument _ (by rw [mu_init]; unfold fuelFor; omega) rfl

end Gql.Parser
