import GqlProofs.Parser.FwdSchema
import GqlProofs.Parser.SoundSchemaTop
import GqlProofs.Parser.FuelSchema
/-
  Schema definitions / extensions, directive definitions, the extension dispatcher, the document
  loop on printed items, and the entry points `parseSchemaSrc` / `parseSchema`.
-/
namespace Gql.Parser
open Gql Gql.Lexer Gql.Grammar Gql.Print

/-! ### schema definition and extension -/

def SchemaDefOK (s : SchemaDef) : Prop := CDirs s.dirs ∧ s.opTypes ≠ [] ∧ ∀ o ∈ s.opTypes, isOperationType o.op
def SchemaExtOK (s : SchemaDef) : Prop :=
  s.desc = [] ∧ CDirs s.dirs ∧ (s.dirs ≠ [] ∨ s.opTypes ≠ []) ∧ ∀ o ∈ s.opTypes, isOperationType o.op

theorem fwd_schemaDefinition (s : SchemaDef) (hok : SchemaDefOK s) (n : Nat) (a : AS) (σ' : Stream)
    (hs : Starts a.σ (tKw "schema" :: printDirectives s.dirs ++ tP .braceL :: s.opTypes.flatMap printOpType ++ [tP .braceR]) σ') :
    Fwd (parseSchemaDefinition n s.desc) a (fun y a' => y.erasePos = s.erasePos ∧ a'.σ = σ') := by
  obtain ⟨hcd, hne, hops⟩ := hok
  have hb : printBlock printOpType s.opTypes = tP .braceL :: s.opTypes.flatMap printOpType ++ [tP .braceR] := by
    cases hs' : s.opTypes with
    | nil => exact absurd hs' hne
    | cons o r => simp [printBlock]
  have hs : Starts a.σ ([tKw "schema"] ++ (printDirectives s.dirs ++ printBlock printOpType s.opTypes)) σ' := by
    rw [hb]; simpa using hs
  rw [Starts.append_iff] at hs
  obtain ⟨σ1, h1, hs⟩ := hs
  rw [Starts.append_iff] at hs
  obtain ⟨σ2, h2, h3⟩ := hs
  have k3 : σ2.head.kind = .braceL := by rw [hb] at h3; exact h3.head_kind
  unfold parseSchemaDefinition
  refine Fwd.bind (fwd_keyword "schema" (by simpa using h1)) ?_
  rintro _ b1 hσ1
  refine Fwd.bind (fwd_peekPos _) ?_
  rintro pos b2 rfl
  refine Fwd.bind (fwd_directives true s.dirs hcd.1 (fun _ => hcd.2) n _ σ2 (by simpa [hσ1] using h2)
    (by rw [k3]; decide) (by rw [k3]; decide)) ?_
  rintro ds' b3 ⟨hds, hσ3⟩
  refine Fwd.bind (fwd_peek b3) ?_
  rintro t b4 ⟨rfl, rfl⟩
  refine Fwd.ite_neg (by rw [hσ3, k3]; simp) (Fwd.bind (fwd_opTypes s.opTypes hops n _ σ' (by simpa [hσ3] using h3)
    (fun h => absurd h hne)) ?_)
  rintro os' b5 ⟨hos, hσ⟩
  refine (Fwd.pure _ _).mono ?_
  rintro y b6 ⟨rfl, rfl⟩
  exact ⟨by simp [SchemaDef.erasePos, hds, hos], hσ⟩

theorem fwd_schemaExtension (s : SchemaDef) (hok : SchemaExtOK s) (n : Nat) (a : AS) (σ' : Stream)
    (hs : Starts a.σ (tKw "schema" :: printDirectives s.dirs ++ printBlock printOpType s.opTypes) σ') (hfol : FolItem σ') :
    Fwd (parseSchemaExtension n) a (fun y a' => y.erasePos = s.erasePos ∧ a'.σ = σ') := by
  obtain ⟨g1, g2, g3, g4, g5, g6, g7, g8⟩ := hfol
  obtain ⟨hdesc, hcd, hsome, hops⟩ := hok
  have hs : Starts a.σ ([tKw "schema"] ++ (printDirectives s.dirs ++ printBlock printOpType s.opTypes)) σ' := by
    simpa using hs
  rw [Starts.append_iff] at hs
  obtain ⟨σ1, h1, hs⟩ := hs
  rw [Starts.append_iff] at hs
  obtain ⟨σ2, h2, h3⟩ := hs
  have k3 := h3.firstKind
  rw [firstKind_block] at k3
  unfold parseSchemaExtension
  refine Fwd.bind (fwd_keyword "schema" (by simpa using h1)) ?_
  rintro _ b1 hσ1
  refine Fwd.bind (fwd_peekPos _) ?_
  rintro pos b2 rfl
  refine Fwd.bind (fwd_directives true s.dirs hcd.1 (fun _ => hcd.2) n _ σ2 (by simpa [hσ1] using h2)
    (by rw [k3]; split
        · exact g1
        · decide)
    (by rw [k3]; split
        · exact g2
        · decide)) ?_
  rintro ds' b3 ⟨hds, hσ3⟩
  refine Fwd.bind (fwd_opTypes s.opTypes hops n b3 σ' (by rw [hσ3]; exact h3) (fun _ => g3)) ?_
  rintro os' b4 ⟨hos, hσ⟩
  refine Fwd.ite_neg (by
    intro hc
    have e1 := length_of_map_eq hds
    have e2 := length_of_map_eq hos
    rcases hsome with h | h
    · exact h (List.eq_nil_of_length_eq_zero (by omega))
    · exact h (List.eq_nil_of_length_eq_zero (by omega))) ?_
  refine (Fwd.pure _ _).mono ?_
  rintro y b5 ⟨rfl, rfl⟩
  exact ⟨by simp [SchemaDef.erasePos, hds, hos, hdesc], hσ⟩

/-! ### directive definitions -/

def DirectiveDefOK (d : DirectiveDef) : Prop :=
  (∀ a ∈ d.args, ArgDefOK a) ∧ d.locations ≠ [] ∧ ∀ l ∈ d.locations, l ∈ Gql.Grammar.directiveLocationNames

theorem fwd_directiveDefinition {dk : Bytes → Kind} (hdk : ∀ d, DescKind (dk d)) (d : DirectiveDef) (hok : DirectiveDefOK d) (n : Nat) (a : AS)
    (σ' : Stream)
    (hs : Starts a.σ (tKw "directive" :: tP .at :: tName d.name :: printArgDefsK dk d.args
      ++ (if d.repeatable then [tKw "repeatable"] else []) ++ tKw "on" :: printSep .pipe d.locations) σ')
    (hfol : σ'.head.kind ≠ .pipe) :
    Fwd (parseDirectiveDefinition n d.desc) a (fun y a' => y.erasePos = d.erasePos ∧ a'.σ = σ') := by
  obtain ⟨hargs, hne, hlocs⟩ := hok
  have hs : Starts a.σ ([tKw "directive"] ++ ([tP .at] ++ ([tName d.name] ++ (printArgDefsK dk d.args ++
      ((if d.repeatable then [tKw "repeatable"] else []) ++ ([tKw "on"] ++ printSep .pipe d.locations)))))) σ' := by
    simpa using hs
  rw [Starts.append_iff] at hs
  obtain ⟨σ1, h1, hs⟩ := hs
  rw [Starts.append_iff] at hs
  obtain ⟨σ2, h2, hs⟩ := hs
  rw [Starts.append_iff] at hs
  obtain ⟨σ3, h3, hs⟩ := hs
  rw [Starts.append_iff] at hs
  obtain ⟨σ4, h4, hs⟩ := hs
  rw [Starts.append_iff] at hs
  obtain ⟨σ5, h5, hs⟩ := hs
  rw [Starts.append_iff] at hs
  obtain ⟨σ6, h6, h7⟩ := hs
  have hon : σ5.head.kind = .name ∧ σ5.head.value = kwOn := by
    obtain ⟨u, hσu, hu⟩ := h6.single
    rw [hσu]; exact ⟨ofToken_kind hu, ofToken_value hu⟩
  rw [parseDirectiveDefinition_eq]
  refine Fwd.bind (fwd_keyword "directive" (by simpa using h1)) ?_
  rintro _ b1 hσ1
  refine Fwd.bind (fwd_punct .at (by rw [hσ1]; exact h2)) ?_
  rintro _ b2 hσ2
  refine Fwd.bind (fwd_peekPos _) ?_
  rintro pos b3 rfl
  refine Fwd.bind (fwd_parseName d.name (by simpa [hσ2] using h3)) ?_
  rintro nm b4 ⟨rfl, hσ4⟩
  have hk4 : σ4.head.kind = .name := by
    cases hr : d.repeatable with
    | true => rw [hr] at h5; exact h5.head_kind
    | false =>
      rw [hr] at h5
      simp only [Bool.false_eq_true, if_false] at h5
      rw [Starts.nil_iff] at h5
      rw [h5]; exact hon.1
  refine Fwd.bind (fwd_argDefs hdk d.args hargs n b4 σ4 (by rw [hσ4]; exact h4) (fun _ => by rw [hk4]; decide)) ?_
  rintro as' b5 ⟨has, hσ5⟩
  refine Fwd.bind (fwd_peek b5) ?_
  rintro pk b6 ⟨rfl, rfl⟩
  have tailFwd : ∀ (rep : Bool) (b : AS), b.σ = σ5 → Fwd (directiveTail n d.desc pos d.name as' rep) b
      (fun y a' => y.erasePos = ({ d with repeatable := rep } : DirectiveDef).erasePos ∧ a'.σ = σ') := by
    intro rep b hb
    unfold directiveTail
    refine Fwd.bind (fwd_keyword "on" (by rw [hb]; simpa using h6)) ?_
    rintro _ c1 hc1
    refine Fwd.bind (fwd_directiveLocations d.locations hne hlocs n c1 σ' (by rw [hc1]; exact h7) hfol) ?_
    rintro ls c2 ⟨rfl, hσ⟩
    refine (Fwd.pure _ _).mono ?_
    rintro y c3 ⟨rfl, rfl⟩
    exact ⟨by simp [DirectiveDef.erasePos, has], hσ⟩
  cases hr : d.repeatable with
  | true =>
    rw [hr] at h5
    simp only [if_true] at h5
    obtain ⟨u, hσu, hu⟩ := h5.single
    have hku : u.kind = .name := ofToken_kind hu
    have hvu : u.value = kwRepeatable := ofToken_value hu
    refine Fwd.ite_pos (by rw [hσ5, hσu]; exact ⟨hku, hvu⟩) (Fwd.bind
      (fwd_skip_yes (a := { pk := true, σ := b5.σ, cnt := b5.cnt }) (t := u) (σ' := σ5) .name (by simp [hσ5, hσu]) hku) ?_)
    rintro _ b7 ⟨_, rfl⟩
    refine (tailFwd true _ rfl).mono ?_
    rintro y a' ⟨hy, hσ⟩
    exact ⟨by rw [hy]; simp [DirectiveDef.erasePos, hr], hσ⟩
  | false =>
    rw [hr] at h5
    simp only [Bool.false_eq_true, if_false] at h5
    rw [Starts.nil_iff] at h5
    subst h5
    refine Fwd.ite_neg (by
      rw [hσ5]; intro hc
      rw [hon.2] at hc
      exact absurd hc.2 (by decide)) ?_
    refine (tailFwd false _ (by simp [hσ5])).mono ?_
    rintro y a' ⟨hy, hσ⟩
    exact ⟨by rw [hy]; simp [DirectiveDef.erasePos, hr], hσ⟩

/-! ### top-level items -/

/-- the side conditions of an item: what the grammar requires of it (well-formedness) and that
    its unprinted parts are what the parser builds -/
def ItemOK : SItem → Prop
  | .schema s => SchemaDefOK s
  | .schemaExt s => SchemaExtOK s
  | .directive d => DirectiveDefOK d
  | .definition d => DefOK d
  | .extension d => DefOK d ∧ d.desc = [] ∧ ExtendsSomething d

/-- the item as the parser run returns it: positions erased, `BuiltIn` not yet set -/
def SItem.norm : SItem → SItem
  | .schema s => .schema s.erasePos
  | .schemaExt s => .schemaExt s.erasePos
  | .directive d => .directive d.erasePos
  | .definition d => .definition ({ d with builtIn := false } : Definition).erasePos
  | .extension d => .extension ({ d with builtIn := false } : Definition).erasePos

def SItem.erasePos : SItem → SItem
  | .schema s => .schema s.erasePos
  | .schemaExt s => .schemaExt s.erasePos
  | .directive d => .directive d.erasePos
  | .definition d => .definition d.erasePos
  | .extension d => .extension d.erasePos

theorem erasePos_add (doc : SchemaDoc) (it : SItem) : (doc.add it).erasePos = doc.erasePos.add it.erasePos := by
  cases it <;> simp [SchemaDoc.add, SchemaDoc.erasePos, SItem.erasePos]

/-- the first token of a printed item: a description or a keyword; it satisfies the follow
    condition of the item before it -/
theorem folItem_of_item {dk : Bytes → Kind} (hdk : ∀ d, DescKind (dk d)) (it : SItem) {σ σ' : Stream} (h : Starts σ (printItemK dk it) σ') :
    FolItem σ ∧ σ.head.kind ≠ .eof := by
  have key : ∀ (desc : Bytes) (kw : Tok) (rest : List Tok), kw.kind = .name → kw.value ≠ kwImplements →
      Starts σ (printDescK dk desc ++ kw :: rest) σ' → FolItem σ ∧ σ.head.kind ≠ .eof := by
    intro desc kw rest hk hv hst
    by_cases hd : desc = []
    · simp only [printDescK, hd, if_true, List.nil_append] at hst
      have hh := hst.head
      have hkk : σ.head.kind = .name := by rw [← show (Tok.ofToken σ.head).kind = σ.head.kind from rfl, hh]; exact hk
      have hvv : σ.head.value = kw.value := by rw [← show (Tok.ofToken σ.head).value = σ.head.value from rfl, hh]
      exact ⟨⟨by simp [hkk], by simp [hkk], by simp [hkk], by simp [hkk], by simp [hkk], by simp [hkk], by simp [hkk],
        fun hc => hv (hvv ▸ hc.2)⟩, by simp [hkk]⟩
    · simp only [printDescK, if_neg hd, List.cons_append, List.nil_append] at hst
      have hkk : σ.head.kind = dk desc := hst.head_kind
      rcases hdk desc with h' | h' <;> rw [h'] at hkk <;>
        exact ⟨⟨by simp [hkk], by simp [hkk], by simp [hkk], by simp [hkk], by simp [hkk], by simp [hkk], by simp [hkk],
          noImplements_of_kind (by simp [hkk])⟩, by simp [hkk]⟩
  cases it with
  | schema s => exact key s.desc (tKw "schema") _ rfl (by decide) (by simpa [printItemK, printSchemaDefK] using h)
  | schemaExt s =>
    exact key [] (tKw "extend") _ rfl (by decide) (by simpa [printItemK, printSchemaExt, printDescK] using h)
  | directive d => exact key d.desc (tKw "directive") _ rfl (by decide) (by simpa [printItemK, printDirectiveDefK] using h)
  | definition d =>
    refine key d.desc (DefKind.keyword d.kind) _ (keyword_value d.kind).1 ?_ (by simpa [printItemK, printDefinitionK] using h)
    rw [(keyword_value d.kind).2]; cases d.kind <;> decide
  | extension d =>
    exact key [] (tKw "extend") _ rfl (by decide) (by simpa [printItemK, printExtensionK, printDescK] using h)

theorem folItem_of_eof {σ : Stream} (h : σ.head.kind = .eof) : FolItem σ :=
  ⟨by simp [h], by simp [h], by simp [h], by simp [h], by simp [h], by simp [h], by simp [h], noImplements_of_kind (by simp [h])⟩

/-- `extend …` -/
theorem fwd_typeSystemExtension {dk : Bytes → Kind} (hdk : ∀ d, DescKind (dk d)) (it : SItem) (hok : ItemOK it)
    (hext : (∃ s, it = .schemaExt s) ∨ (∃ d, it = .extension d)) (n : Nat) (doc : SchemaDoc) (a : AS) (σ' : Stream)
    (hs : Starts a.σ (printItemK dk it) σ') (hfol : FolItem σ') :
    Fwd (parseTypeSystemExtension n doc) a (fun y a' => y.erasePos = doc.erasePos.add it.norm ∧ a'.σ = σ') := by
  unfold parseTypeSystemExtension
  rcases hext with ⟨s, rfl⟩ | ⟨d, rfl⟩
  · simp only [printItemK, printSchemaExt] at hs
    obtain ⟨σ1, h1, h2⟩ := hs.cons_single
    refine Fwd.bind (fwd_keyword "extend" (by simpa using h1)) ?_
    rintro _ b1 hσ1
    refine Fwd.bind (fwd_peek b1) ?_
    rintro t b2 ⟨rfl, rfl⟩
    have hv : b1.σ.head.value = kwSchema := by
      rw [hσ1]
      obtain ⟨σ2, h3, _⟩ := h2.cons_single
      obtain ⟨u, hσu, hu⟩ := h3.single
      rw [hσu]; exact ofToken_value hu
    refine Fwd.ite_pos hv (Fwd.bind (fwd_schemaExtension s hok n _ σ' (by simpa [hσ1] using h2) hfol) ?_)
    rintro sd b3 ⟨hsd, hσ⟩
    refine (Fwd.pure _ _).mono ?_
    rintro y b4 ⟨rfl, rfl⟩
    exact ⟨by simp [SchemaDoc.erasePos, SchemaDoc.add, SItem.norm, hsd], hσ⟩
  · obtain ⟨hdok, hdesc, hx⟩ := hok
    simp only [printItemK, printExtensionK] at hs
    obtain ⟨σ1, h1, h2⟩ := hs.cons_single
    refine Fwd.bind (fwd_keyword "extend" (by simpa using h1)) ?_
    rintro _ b1 hσ1
    refine Fwd.bind (fwd_peek b1) ?_
    rintro t b2 ⟨rfl, rfl⟩
    have hv : b1.σ.head.value = (DefKind.keyword d.kind).value := by
      rw [hσ1, ← show (Tok.ofToken σ1.head).value = σ1.head.value from rfl, h2.head]
    rw [hv]
    have fin : ∀ (p : Prog Definition), Fwd p { pk := true, σ := b1.σ, cnt := b1.cnt }
        (fun y a' => y.erasePos = ({ d with builtIn := false } : Definition).erasePos ∧ a'.σ = σ') →
        Fwd (p >>= fun x => Pure.pure { doc with extensions := doc.extensions ++ [x] }) { pk := true, σ := b1.σ, cnt := b1.cnt }
          (fun y a' => y.erasePos = doc.erasePos.add (SItem.extension d).norm ∧ a'.σ = σ') := by
      intro p hp
      refine Fwd.bind hp ?_
      rintro x b3 ⟨hx', hσ⟩
      refine (Fwd.pure _ _).mono ?_
      rintro y b4 ⟨rfl, rfl⟩
      exact ⟨by simp [SchemaDoc.erasePos, SchemaDoc.add, SItem.norm, hx'], hσ⟩
    have hs2 : Starts ({ pk := true, σ := b1.σ, cnt := b1.cnt } : AS).σ (DefKind.keyword d.kind :: printDefBodyK dk d) σ' := by
      simpa [hσ1] using h2
    cases hkind : d.kind with
    | scalar =>
      refine Fwd.ite_neg (by decide) (Fwd.ite_pos rfl (fin _ ?_))
      exact fwd_parseScalarTypeExtension hdk d hkind hdok hdesc hx n _ σ' hs2 hfol
    | object =>
      refine Fwd.ite_neg (by decide) (Fwd.ite_neg (by decide) (Fwd.ite_pos rfl (fin _ ?_)))
      exact fwd_parseObjectTypeExtension hdk d hkind hdok hdesc hx n _ σ' hs2 hfol
    | interface =>
      refine Fwd.ite_neg (by decide) (Fwd.ite_neg (by decide) (Fwd.ite_neg (by decide) (Fwd.ite_pos rfl (fin _ ?_))))
      exact fwd_parseInterfaceTypeExtension hdk d hkind hdok hdesc hx n _ σ' hs2 hfol
    | union =>
      refine Fwd.ite_neg (by decide) (Fwd.ite_neg (by decide) (Fwd.ite_neg (by decide) (Fwd.ite_neg (by decide)
        (Fwd.ite_pos rfl (fin _ ?_)))))
      exact fwd_parseUnionTypeExtension hdk d hkind hdok hdesc hx n _ σ' hs2 hfol
    | «enum» =>
      refine Fwd.ite_neg (by decide) (Fwd.ite_neg (by decide) (Fwd.ite_neg (by decide) (Fwd.ite_neg (by decide)
        (Fwd.ite_neg (by decide) (Fwd.ite_pos rfl (fin _ ?_))))))
      exact fwd_parseEnumTypeExtension hdk d hkind hdok hdesc hx n _ σ' hs2 hfol
    | inputObject =>
      refine Fwd.ite_neg (by decide) (Fwd.ite_neg (by decide) (Fwd.ite_neg (by decide) (Fwd.ite_neg (by decide)
        (Fwd.ite_neg (by decide) (Fwd.ite_neg (by decide) (Fwd.ite_pos rfl (fin _ ?_)))))))
      exact fwd_parseInputObjectTypeExtension hdk d hkind hdok hdesc hx n _ σ' hs2 hfol

/-! ### the document loop -/

/-- the dispatch on the keyword inside the loop of `parseSchemaDocument` -/
def docDispatch (m n : Nat) (doc : SchemaDoc) (description : Bytes) (hasDescription : Bool) (v : Bytes) : Prog SchemaDoc :=
  if v = kwScalar ∨ v = kwType ∨ v = kwInterface ∨ v = kwUnion ∨ v = kwEnum ∨ v = kwInput then do
    let df ← parseTypeSystemDefinition m description
    schemaDocLoop m n { doc with definitions := doc.definitions ++ [df] }
  else if v = kwSchema then do
    let sd ← parseSchemaDefinition m description
    schemaDocLoop m n { doc with schema := doc.schema ++ [sd] }
  else if v = kwDirective then do
    let dd ← parseDirectiveDefinition m description
    schemaDocLoop m n { doc with directives := doc.directives ++ [dd] }
  else if v = kwExtend then do
    rejectDescription hasDescription
    let doc' ← parseTypeSystemExtension m doc
    schemaDocLoop m n doc'
  else do
    unexpectedError
    pure default

theorem schemaDocLoop_succ (m n : Nat) (doc : SchemaDoc) :
    schemaDocLoop m (n + 1) doc = (do
      let t ← peek
      if t.kind ≠ .eof then
        if ← hasErr then pure default
        else
          let (description, hasDescription) ← parseOptionalDescription
          let c ← peek
          if c.kind ≠ .name then
            unexpectedError
            pure doc
          else
            let d ← peek
            docDispatch m n doc description hasDescription d.value
      else pure doc) := rfl

/-- one iteration of the loop up to the dispatch: the description is read, the keyword is peeked -/
theorem fwd_loopStep {dk : Bytes → Kind} (hdk : ∀ d, DescKind (dk d)) (m n : Nat) (doc : SchemaDoc) (a : AS) (desc : Bytes) (kw : Tok)
    (body : List Tok) (σm : Stream) (hkw : kw.kind = .name) (hs : Starts a.σ (printDescK dk desc ++ kw :: body) σm)
    (R : SchemaDoc → AS → Prop)
    (hrest : ∀ (has : Bool) (a5 : AS), (has = true → desc ≠ []) → Starts a5.σ (kw :: body) σm →
      Fwd (docDispatch m n doc desc has kw.value) a5 R) :
    Fwd (schemaDocLoop m (n + 1) doc) a R := by
  rw [Starts.append_iff] at hs
  obtain ⟨σd, hd1, hd2⟩ := hs
  have hkd : σd.head.kind = .name := by rw [hd2.head_kind]; exact hkw
  have hvd : σd.head.value = kw.value := by
    rw [← show (Tok.ofToken σd.head).value = σd.head.value from rfl, hd2.head]
  have hne : a.σ.head.kind ≠ .eof := by
    rw [hd1.firstKind, firstKind_descK]
    split
    · rw [hkd]; decide
    · rcases hdk desc with h | h <;> rw [h] <;> decide
  rw [schemaDocLoop_succ]
  refine Fwd.bind (fwd_peek a) ?_
  rintro t a1 ⟨rfl, rfl⟩
  refine Fwd.ite_pos hne (Fwd.bind (fwd_hasErr _) ?_)
  rintro e a2 ⟨rfl, rfl⟩
  refine Fwd.ite_neg (by simp) ?_
  refine Fwd.bind (fwd_optionalDescription hdk desc _ σd (by simpa using hd1) (fun _ => ⟨by rw [hkd]; decide, by rw [hkd]; decide⟩)) ?_
  rintro ⟨description, has⟩ a3 ⟨hdesc, hhas, hσ3⟩
  simp only at hdesc hhas
  subst hdesc
  simp only
  refine Fwd.bind (fwd_peek a3) ?_
  rintro c a4 ⟨rfl, rfl⟩
  refine Fwd.ite_neg (by rw [hσ3]; simp [hkd]) (Fwd.bind (fwd_peek _) ?_)
  rintro dtok a5 ⟨rfl, rfl⟩
  simp only [hσ3, hvd]
  exact hrest has _ hhas (by simpa [hσ3] using hd2)

theorem fwd_schemaDocLoop {dk : Bytes → Kind} (hdk : ∀ d, DescKind (dk d)) (m : Nat) : ∀ (items : List SItem), (∀ it ∈ items, ItemOK it) →
    ∀ (n : Nat) (doc : SchemaDoc) (a : AS) (σ' : Stream), Starts a.σ (items.flatMap (printItemK dk)) σ' → σ'.head.kind = .eof →
      Fwd (schemaDocLoop m n doc) a (fun d a' =>
        d.erasePos = (items.map SItem.norm).foldl SchemaDoc.add doc.erasePos ∧ a'.σ = σ')
  | [], _ => by
    intro n doc a σ' hs heof
    rw [List.flatMap_nil, Starts.nil_iff] at hs
    cases n with
    | zero => exact Fwd.outOfFuel _ _ _
    | succ n =>
      unfold schemaDocLoop
      refine Fwd.bind (fwd_peek a) ?_
      rintro t a1 ⟨rfl, rfl⟩
      refine Fwd.ite_neg (by rw [hs]; simp [heof]) ((Fwd.pure _ _).mono ?_)
      rintro d a' ⟨rfl, rfl⟩
      exact ⟨rfl, hs⟩
  | it :: rest, hok => by
    intro n doc a σ' hs heof
    have hit := hok it (List.mem_cons_self)
    rw [List.flatMap_cons, Starts.append_iff] at hs
    obtain ⟨σm, hb, hrest⟩ := hs
    cases n with
    | zero => exact Fwd.outOfFuel _ _ _
    | succ n =>
      have ih := fwd_schemaDocLoop hdk m rest (fun b hb => hok b (List.mem_cons_of_mem _ hb)) n
      have hfolm : FolItem σm := by
        cases rest with
        | nil =>
          rw [List.flatMap_nil, Starts.nil_iff] at hrest
          rw [hrest]; exact folItem_of_eof heof
        | cons it2 r =>
          rw [List.flatMap_cons, Starts.append_iff] at hrest
          obtain ⟨σ2, h2, _⟩ := hrest
          exact (folItem_of_item hdk it2 h2).1
      have hcont : ∀ (doc' : SchemaDoc) (a3 : AS), doc'.erasePos = doc.erasePos.add it.norm → a3.σ = σm →
          Fwd (schemaDocLoop m n doc') a3 (fun d a' =>
            d.erasePos = ((it :: rest).map SItem.norm).foldl SchemaDoc.add doc.erasePos ∧ a'.σ = σ') := by
        intro doc' a3 hdoc' hσ3
        refine (ih doc' a3 σ' (by rw [hσ3]; exact hrest) heof).mono ?_
        rintro d a' ⟨e1, e2⟩
        exact ⟨by rw [e1, hdoc']; rfl, e2⟩
      cases it with
      | definition d =>
        refine fwd_loopStep hdk m n doc a d.desc (DefKind.keyword d.kind) (printDefBodyK dk d) σm (keyword_value d.kind).1
          (by simpa [printItemK, printDefinitionK] using hb) _ ?_
        intro has a5 _ hst
        unfold docDispatch
        refine Fwd.ite_pos (by rw [(keyword_value d.kind).2]; cases d.kind <;> simp) ?_
        refine Fwd.bind (fwd_typeSystemDefinition hdk d hit m a5 σm hst hfolm) ?_
        rintro df a6 ⟨hdf, hσ6⟩
        exact hcont _ a6 (by simp [SchemaDoc.erasePos, SchemaDoc.add, SItem.norm, hdf]) hσ6
      | schema s =>
        refine fwd_loopStep hdk m n doc a s.desc (tKw "schema") _ σm rfl
          (by simpa [printItemK, printSchemaDefK] using hb) _ ?_
        intro has a5 _ hst
        unfold docDispatch
        refine Fwd.ite_neg (by decide) (Fwd.ite_pos rfl ?_)
        refine Fwd.bind (fwd_schemaDefinition s hit m a5 σm (by simpa using hst)) ?_
        rintro sd a6 ⟨hsd, hσ6⟩
        exact hcont _ a6 (by simp [SchemaDoc.erasePos, SchemaDoc.add, SItem.norm, hsd]) hσ6
      | directive d =>
        refine fwd_loopStep hdk m n doc a d.desc (tKw "directive") _ σm rfl
          (by simpa [printItemK, printDirectiveDefK] using hb) _ ?_
        intro has a5 _ hst
        unfold docDispatch
        refine Fwd.ite_neg (by decide) (Fwd.ite_neg (by decide) (Fwd.ite_pos rfl ?_))
        refine Fwd.bind (fwd_directiveDefinition hdk d hit m a5 σm (by simpa using hst) hfolm.2.2.2.2.2.1) ?_
        rintro dd a6 ⟨hdd, hσ6⟩
        exact hcont _ a6 (by simp [SchemaDoc.erasePos, SchemaDoc.add, SItem.norm, hdd]) hσ6
      | schemaExt s =>
        refine fwd_loopStep hdk m n doc a [] (tKw "extend") _ σm rfl
          (by simpa [printItemK, printSchemaExt, printDescK] using hb) _ ?_
        intro has a5 hhas hst
        have hfalse : has = false := by
          cases has with
          | false => rfl
          | true => exact absurd rfl (hhas rfl)
        subst hfalse
        unfold docDispatch
        refine Fwd.ite_neg (by decide) (Fwd.ite_neg (by decide) (Fwd.ite_neg (by decide) (Fwd.ite_pos rfl ?_)))
        unfold rejectDescription
        refine Fwd.bind (Fwd.ite_neg (by simp) (Fwd.pure () a5)) ?_
        rintro _ a6 ⟨_, rfl⟩
        refine Fwd.bind (fwd_typeSystemExtension hdk (.schemaExt s) hit (.inl ⟨s, rfl⟩) m doc a6 σm
          (by simpa [printItemK, printSchemaExt] using hst) hfolm) ?_
        rintro doc' a7 ⟨hdoc', hσ7⟩
        exact hcont doc' a7 hdoc' hσ7
      | extension d =>
        refine fwd_loopStep hdk m n doc a [] (tKw "extend") _ σm rfl
          (by simpa [printItemK, printExtensionK, printDescK] using hb) _ ?_
        intro has a5 hhas hst
        have hfalse : has = false := by
          cases has with
          | false => rfl
          | true => exact absurd rfl (hhas rfl)
        subst hfalse
        unfold docDispatch
        refine Fwd.ite_neg (by decide) (Fwd.ite_neg (by decide) (Fwd.ite_neg (by decide) (Fwd.ite_pos rfl ?_)))
        unfold rejectDescription
        refine Fwd.bind (Fwd.ite_neg (by simp) (Fwd.pure () a5)) ?_
        rintro _ a6 ⟨_, rfl⟩
        refine Fwd.bind (fwd_typeSystemExtension hdk (.extension d) hit (.inr ⟨d, rfl⟩) m doc a6 σm
          (by simpa [printItemK, printExtensionK] using hst) hfolm) ?_
        rintro doc' a7 ⟨hdoc', hσ7⟩
        exact hcont doc' a7 hdoc' hσ7

/-! ### the entry point -/

def SItem.setBI (b : Bool) : SItem → SItem
  | .definition d => .definition { d with builtIn := b }
  | .extension d => .extension { d with builtIn := b }
  | x => x

theorem setBuiltIn_add (b : Bool) (doc : SchemaDoc) (it : SItem) :
    setBuiltIn b (doc.add it) = (setBuiltIn b doc).add (it.setBI b) := by
  cases it <;> simp [SchemaDoc.add, setBuiltIn, SItem.setBI]

theorem setBuiltIn_foldl (b : Bool) (items : List SItem) (doc : SchemaDoc) :
    setBuiltIn b (items.foldl SchemaDoc.add doc) = (items.map (SItem.setBI b)).foldl SchemaDoc.add (setBuiltIn b doc) := by
  induction items generalizing doc with
  | nil => rfl
  | cons it items ih => simp [List.foldl_cons, ih, setBuiltIn_add]

theorem erasePos_foldl (items : List SItem) (doc : SchemaDoc) :
    (items.foldl SchemaDoc.add doc).erasePos = (items.map SItem.erasePos).foldl SchemaDoc.add doc.erasePos := by
  induction items generalizing doc with
  | nil => rfl
  | cons it items ih => simp [List.foldl_cons, ih, erasePos_add]

theorem setBuiltIn_erasePos (b : Bool) (doc : SchemaDoc) : setBuiltIn b doc.erasePos = (setBuiltIn b doc).erasePos := by
  simp [setBuiltIn, SchemaDoc.erasePos, List.map_map, Function.comp_def, Definition.erasePos]

theorem setBI_norm (b : Bool) (it : SItem) : (it.norm).setBI b = (it.erasePos).setBI b := by
  cases it <;> simp [SItem.norm, SItem.setBI, SItem.erasePos, Definition.erasePos]

/-- **parsing printed items**: if the significant tokens of `inp` are the concatenation of the
    printed items (descriptions as tokens of kind `dk`), `ParseSchema` accepts `inp` and returns
    the items, each in its list and in item order, up to positions (and with the source's
    `BuiltIn` flag) -/
theorem parseSchemaSrc_items {dk : Bytes → Kind} (hdk : ∀ d, DescKind (dk d)) (items : List SItem) (hok : ∀ it ∈ items, ItemOK it)
    (src : Nat) (b : Bool) (inp : Bytes) (htok : tokensOf inp = some (items.flatMap (printItemK dk))) :
    ∃ d', parseSchemaSrc 0 src b inp = .ok d' ∧
      d'.erasePos = (setBuiltIn b (items.foldl SchemaDoc.add SchemaDoc.empty)).erasePos := by
  obtain ⟨t, hteof, hst⟩ := starts_of_tokensOf htok
  have hloop := fwd_schemaDocLoop hdk (fuelFor inp) items hok (fuelFor inp) SchemaDoc.empty
  have hrun : Fwd (parseSchemaDocument (fuelFor inp)) (abs (PState.init src inp)) (fun d a' =>
      d.erasePos = (items.map SItem.norm).foldl SchemaDoc.add SchemaDoc.empty.erasePos ∧ a'.σ = .eof t) := by
    unfold parseSchemaDocument
    refine Fwd.bind (fwd_peekPos _) ?_
    rintro _ a1 rfl
    exact hloop _ (.eof t) (by simpa [abs_init] using hst) hteof
  obtain ⟨hl, _, e1, _⟩ := hrun (PState.init src inp) (WF.init src inp) (by simp [dead, PState.init]) rfl (runSchema_oof 0 src inp)
  have hofrun : Result.ofRun (runSchema 0 src inp) = .ok (runSchema 0 src inp).1 := ofRun_ok.2 ⟨live_oof hl, live_err hl, rfl⟩
  refine ⟨setBuiltIn b (runSchema 0 src inp).1, parseSchemaSrc_ok.2 ⟨_, hofrun, rfl⟩, ?_⟩
  have e1' : (runSchema 0 src inp).1.erasePos = (items.map SItem.norm).foldl SchemaDoc.add SchemaDoc.empty.erasePos := e1
  rw [← setBuiltIn_erasePos, e1', setBuiltIn_foldl, ← setBuiltIn_erasePos, erasePos_foldl, setBuiltIn_foldl]
  simp only [List.map_map, Function.comp_def, setBI_norm]

/-! ### `printSchema`: the five lists interleaved by position -/

/-- the items of a document, list after list -/
def itemsOf (d : SchemaDoc) : List SItem :=
  d.schema.map .schema ++ d.schemaExt.map .schemaExt ++ d.directives.map .directive ++ d.definitions.map .definition ++
    d.extensions.map .extension

/-- … and in the order `printSchema` writes them -/
def sourceOrderS (d : SchemaDoc) : List SItem :=
  (itemsOf d).mergeSort fun a b => decide ((sItem a).1 ≤ (sItem b).1)

theorem printSchema_sourceOrder (d : SchemaDoc) : printSchema d = (sourceOrderS d).flatMap fun x => (sItem x).2 := by
  have hitems : docItems d = (itemsOf d).map sItem := by
    simp [docItems, itemsOf, List.map_map, Function.comp_def, sItem]
  rw [printSchema_eq, hitems]
  unfold inSourceOrder sourceOrderS
  rw [← List.map_mergeSort (f := sItem) (r := fun a b => decide ((sItem a).1 ≤ (sItem b).1))
    (s := fun a b => decide (a.1 ≤ b.1)) (fun _ _ _ _ => rfl)]
  simp [List.flatMap_def, List.map_map, Function.comp_def]

def getSchema : SItem → Option SchemaDef | .schema s => some s | _ => none
def getSchemaExt : SItem → Option SchemaDef | .schemaExt s => some s | _ => none
def getDirective : SItem → Option DirectiveDef | .directive s => some s | _ => none
def getDefinition : SItem → Option Definition | .definition s => some s | _ => none
def getExtension : SItem → Option Definition | .extension s => some s | _ => none

theorem filterMap_none' {α β : Type} (l : List α) : l.filterMap (fun _ => (none : Option β)) = [] := by
  induction l <;> simp_all [List.filterMap_cons]

theorem foldl_add_lists (items : List SItem) (doc : SchemaDoc) :
    items.foldl SchemaDoc.add doc =
      { schema := doc.schema ++ items.filterMap getSchema, schemaExt := doc.schemaExt ++ items.filterMap getSchemaExt,
        directives := doc.directives ++ items.filterMap getDirective,
        definitions := doc.definitions ++ items.filterMap getDefinition,
        extensions := doc.extensions ++ items.filterMap getExtension } := by
  induction items generalizing doc with
  | nil => simp
  | cons it items ih =>
    rw [List.foldl_cons, ih]
    cases it <;> simp [SchemaDoc.add, List.filterMap_cons, getSchema, getSchemaExt, getDirective, getDefinition, getExtension]

/-- stability: a projection of the sorted items is the corresponding list when that list is sorted -/
theorem proj_sourceOrder {α : Type} (d : SchemaDoc) (get : SItem → Option α) (mk : α → SItem) (xs : List α)
    (hget : ∀ x, get (mk x) = some x) (hsub : (xs.map mk).Sublist (itemsOf d))
    (hlen : ((itemsOf d).filterMap get).length = xs.length)
    (hsorted : xs.Pairwise fun a b => (sItem (mk a)).1 ≤ (sItem (mk b)).1) :
    (sourceOrderS d).filterMap get = xs := by
  have trans : ∀ a b c : SItem, decide ((sItem a).1 ≤ (sItem b).1) = true → decide ((sItem b).1 ≤ (sItem c).1) = true →
      decide ((sItem a).1 ≤ (sItem c).1) = true := by
    intro a b c; simp only [decide_eq_true_eq]; omega
  have total : ∀ a b : SItem, (decide ((sItem a).1 ≤ (sItem b).1) || decide ((sItem b).1 ≤ (sItem a).1)) = true := by
    intro a b; simp only [Bool.or_eq_true, decide_eq_true_eq]; omega
  have hperm := List.mergeSort_perm (itemsOf d) (fun a b : SItem => decide ((sItem a).1 ≤ (sItem b).1))
  have hs : (xs.map mk).Sublist (sourceOrderS d) :=
    List.sublist_mergeSort trans total (by
      rw [List.pairwise_map]
      exact hsorted.imp fun h => decide_eq_true h) hsub
  have h1 := hs.filterMap get
  have h2 : (xs.map mk).filterMap get = xs := by
    rw [List.filterMap_map]
    have : (get ∘ mk) = some := funext hget
    rw [this]; simp
  rw [h2] at h1
  refine (h1.eq_of_length ?_).symm
  rw [sourceOrderS, (hperm.filterMap get).length_eq, hlen]

def PrintableSchema (d : SchemaDoc) : Prop :=
  DocAll ItemOK d ∧
    d.schema.Pairwise (fun a b => a.pos.start ≤ b.pos.start) ∧ d.schemaExt.Pairwise (fun a b => a.pos.start ≤ b.pos.start) ∧
    d.directives.Pairwise (fun a b => a.pos.start ≤ b.pos.start) ∧ d.definitions.Pairwise (fun a b => a.pos.start ≤ b.pos.start) ∧
    d.extensions.Pairwise (fun a b => a.pos.start ≤ b.pos.start)

theorem sourceOrderS_foldl (d : SchemaDoc) (h1 : d.schema.Pairwise fun a b => a.pos.start ≤ b.pos.start)
    (h2 : d.schemaExt.Pairwise fun a b => a.pos.start ≤ b.pos.start) (h3 : d.directives.Pairwise fun a b => a.pos.start ≤ b.pos.start)
    (h4 : d.definitions.Pairwise fun a b => a.pos.start ≤ b.pos.start) (h5 : d.extensions.Pairwise fun a b => a.pos.start ≤ b.pos.start) :
    (sourceOrderS d).foldl SchemaDoc.add SchemaDoc.empty = d := by
  rw [foldl_add_lists]
  have e1 : (sourceOrderS d).filterMap getSchema = d.schema :=
    proj_sourceOrder d getSchema .schema d.schema (fun _ => rfl)
      (by simp only [itemsOf, List.append_assoc]; exact List.sublist_append_left _ _)
      (by simp [itemsOf, List.filterMap_append, List.filterMap_map, Function.comp_def, getSchema, filterMap_none']) h1
  have e2 : (sourceOrderS d).filterMap getSchemaExt = d.schemaExt :=
    proj_sourceOrder d getSchemaExt .schemaExt d.schemaExt (fun _ => rfl)
      (by simp only [itemsOf, List.append_assoc]
          exact (List.sublist_append_left _ _).trans (List.sublist_append_right _ _))
      (by simp [itemsOf, List.filterMap_append, List.filterMap_map, Function.comp_def, getSchemaExt, filterMap_none']) h2
  have e3 : (sourceOrderS d).filterMap getDirective = d.directives :=
    proj_sourceOrder d getDirective .directive d.directives (fun _ => rfl)
      (by simp only [itemsOf, List.append_assoc]
          exact ((List.sublist_append_left _ _).trans (List.sublist_append_right _ _)).trans (List.sublist_append_right _ _))
      (by simp [itemsOf, List.filterMap_append, List.filterMap_map, Function.comp_def, getDirective, filterMap_none']) h3
  have e4 : (sourceOrderS d).filterMap getDefinition = d.definitions :=
    proj_sourceOrder d getDefinition .definition d.definitions (fun _ => rfl)
      (by simp only [itemsOf, List.append_assoc]
          exact (((List.sublist_append_left _ _).trans (List.sublist_append_right _ _)).trans (List.sublist_append_right _ _)).trans
            (List.sublist_append_right _ _))
      (by simp [itemsOf, List.filterMap_append, List.filterMap_map, Function.comp_def, getDefinition, filterMap_none']) h4
  have e5 : (sourceOrderS d).filterMap getExtension = d.extensions :=
    proj_sourceOrder d getExtension .extension d.extensions (fun _ => rfl)
      (by simp only [itemsOf]; exact List.sublist_append_right _ _)
      (by simp [itemsOf, List.filterMap_append, List.filterMap_map, Function.comp_def, getExtension, filterMap_none']) h5
  simp [e1, e2, e3, e4, e5, SchemaDoc.empty]

theorem mem_itemsOf {d : SchemaDoc} {Q : SItem → Prop} (h : DocAll Q d) : ∀ it ∈ itemsOf d, Q it := by
  obtain ⟨h1, h2, h3, h4, h5⟩ := h
  intro it hit
  simp only [itemsOf, List.mem_append, List.mem_map] at hit
  rcases hit with (((⟨x, hx, rfl⟩ | ⟨x, hx, rfl⟩) | ⟨x, hx, rfl⟩) | ⟨x, hx, rfl⟩) | ⟨x, hx, rfl⟩
  · exact h1 x hx
  · exact h2 x hx
  · exact h3 x hx
  · exact h4 x hx
  · exact h5 x hx

/-- **parse ∘ print** for type-system documents -/
theorem parseSchemaSrc_print (d : SchemaDoc) (hp : PrintableSchema d) (src : Nat) (b : Bool) (inp : Bytes)
    (htok : tokensOf inp = some (printSchema d)) :
    ∃ d', parseSchemaSrc 0 src b inp = .ok d' ∧ d'.erasePos = (setBuiltIn b d).erasePos := by
  obtain ⟨hok, s1, s2, s3, s4, s5⟩ := hp
  have hitems : ∀ it ∈ sourceOrderS d, ItemOK it := fun it hit =>
    mem_itemsOf hok it ((List.mergeSort_perm _ _).mem_iff.1 hit)
  have hflat : (sourceOrderS d).flatMap (printItemK (fun _ => .string)) = printSchema d := by
    rw [printSchema_sourceOrder]
    simp only [List.flatMap_def]
    congr 2
    exact funext printItemK_string
  obtain ⟨d', h1, h2⟩ := parseSchemaSrc_items (fun _ => .inl rfl) (sourceOrderS d) hitems src b inp (by rw [hflat]; exact htok)
  rw [sourceOrderS_foldl d s1 s2 s3 s4 s5] at h2
  exact ⟨d', h1, h2⟩

end Gql.Parser
