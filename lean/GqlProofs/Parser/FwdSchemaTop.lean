import GqlProofs.Parser.FwdSchema
import GqlProofs.Parser.SoundSchemaTop
/-
  Schema definitions / extensions, directive definitions, the extension dispatcher, the document
  loop on printed items, and the entry points `parseSchemaSrc` / `parseSchema`.
-/
namespace Gql.Parser
open Gql Gql.Lexer Gql.Grammar Gql.Print

/-! ### schema definition and extension -/

def SchemaDefOK (s : SchemaDef) : Prop := CDirs s.dirs ∧ s.opTypes ≠ [] ∧ ∀ o ∈ s.opTypes, isOperationType o.op
def SchemaExtOK (s : SchemaDef) : Prop :=
  s.desc = [] ∧ CDirs s.dirs ∧ (s.dirs ≠ [] ∨ s.opTypes ≠ []) ∧ ∀ o ∈ s.opTypes, isOperationType o.op

theorem fwd_schemaDefinition (s : SchemaDef) (hok : SchemaDefOK s) (n : Nat) (a : AS) (σ' : Stream)
    (hs : Starts a.σ (tKw "schema" :: printDirectives s.dirs ++ tP .braceL :: s.opTypes.flatMap printOpType ++ [tP .braceR]) σ') :
    Fwd (parseSchemaDefinition n s.desc) a (fun y a' => y.erasePos = s.erasePos ∧ a'.σ = σ') := by
  obtain ⟨hcd, hne, hops⟩ := hok
  have hb : printBlock printOpType s.opTypes = tP .braceL :: s.opTypes.flatMap printOpType ++ [tP .braceR] := by
    cases hs' : s.opTypes with
    | nil => exact absurd hs' hne
    | cons o r => simp [printBlock]
  have hs : Starts a.σ ([tKw "schema"] ++ (printDirectives s.dirs ++ printBlock printOpType s.opTypes)) σ' := by
    rw [hb]; simpa using hs
  rw [Starts.append_iff] at hs
  obtain ⟨σ1, h1, hs⟩ := hs
  rw [Starts.append_iff] at hs
  obtain ⟨σ2, h2, h3⟩ := hs
  have k3 : σ2.head.kind = .braceL := by rw [hb] at h3; exact h3.head_kind
  unfold parseSchemaDefinition
  refine Fwd.bind (fwd_keyword "schema" (by simpa using h1)) ?_
  rintro _ b1 hσ1
  refine Fwd.bind (fwd_peekPos _) ?_
  rintro pos b2 rfl
  refine Fwd.bind (fwd_directives true s.dirs hcd.1 (fun _ => hcd.2) n _ σ2 (by simpa [hσ1] using h2)
    (by rw [k3]; decide) (by rw [k3]; decide)) ?_
  rintro ds' b3 ⟨hds, hσ3⟩
  refine Fwd.bind (fwd_peek b3) ?_
  rintro t b4 ⟨rfl, rfl⟩
  refine Fwd.ite_neg (by rw [hσ3, k3]; simp) (Fwd.bind (fwd_opTypes s.opTypes hops n _ σ' (by simpa [hσ3] using h3)
    (fun h => absurd h hne)) ?_)
  rintro os' b5 ⟨hos, hσ⟩
  refine (Fwd.pure _ _).mono ?_
  rintro y b6 ⟨rfl, rfl⟩
  exact ⟨by simp [SchemaDef.erasePos, hds, hos], hσ⟩

theorem fwd_schemaExtension (s : SchemaDef) (hok : SchemaExtOK s) (n : Nat) (a : AS) (σ' : Stream)
    (hs : Starts a.σ (tKw "schema" :: printDirectives s.dirs ++ printBlock printOpType s.opTypes) σ') (hfol : FolItem σ') :
    Fwd (parseSchemaExtension n) a (fun y a' => y.erasePos = s.erasePos ∧ a'.σ = σ') := by
  obtain ⟨g1, g2, g3, g4, g5, g6, g7, g8⟩ := hfol
  obtain ⟨hdesc, hcd, hsome, hops⟩ := hok
  have hs : Starts a.σ ([tKw "schema"] ++ (printDirectives s.dirs ++ printBlock printOpType s.opTypes)) σ' := by
    simpa using hs
  rw [Starts.append_iff] at hs
  obtain ⟨σ1, h1, hs⟩ := hs
  rw [Starts.append_iff] at hs
  obtain ⟨σ2, h2, h3⟩ := hs
  have k3 := h3.firstKind
  rw [firstKind_block] at k3
  unfold parseSchemaExtension
  refine Fwd.bind (fwd_keyword "schema" (by simpa using h1)) ?_
  rintro _ b1 hσ1
  refine Fwd.bind (fwd_peekPos _) ?_
  rintro pos b2 rfl
  refine Fwd.bind (fwd_directives true s.dirs hcd.1 (fun _ => hcd.2) n _ σ2 (by simpa [hσ1] using h2)
    (by rw [k3]; split
        · exact g1
        · decide)
    (by rw [k3]; split
        · exact g2
        · decide)) ?_
  rintro ds' b3 ⟨hds, hσ3⟩
  refine Fwd.bind (fwd_opTypes s.opTypes hops n b3 σ' (by rw [hσ3]; exact h3) (fun _ => g3)) ?_
  rintro os' b4 ⟨hos, hσ⟩
  refine Fwd.ite_neg (by
    intro hc
    have e1 := length_of_map_eq hds
    have e2 := length_of_map_eq hos
    rcases hsome with h | h
    · exact h (List.eq_nil_of_length_eq_zero (by omega))
    · exact h (List.eq_nil_of_length_eq_zero (by omega))) ?_
  refine (Fwd.pure _ _).mono ?_
  rintro y b5 ⟨rfl, rfl⟩
  exact ⟨by simp [SchemaDef.erasePos, hds, hos, hdesc], hσ⟩

/-! ### directive definitions -/

def DirectiveDefOK (d : DirectiveDef) : Prop :=
  (∀ a ∈ d.args, ArgDefOK a) ∧ d.locations ≠ [] ∧ ∀ l ∈ d.locations, l ∈ Gql.Grammar.directiveLocationNames

theorem fwd_directiveDefinition {dk : Kind} (hdk : DescKind dk) (d : DirectiveDef) (hok : DirectiveDefOK d) (n : Nat) (a : AS)
    (σ' : Stream)
    (hs : Starts a.σ (tKw "directive" :: tP .at :: tName d.name :: printArgDefsK dk d.args
      ++ (if d.repeatable then [tKw "repeatable"] else []) ++ tKw "on" :: printSep .pipe d.locations) σ')
    (hfol : σ'.head.kind ≠ .pipe) :
    Fwd (parseDirectiveDefinition n d.desc) a (fun y a' => y.erasePos = d.erasePos ∧ a'.σ = σ') := by
  obtain ⟨hargs, hne, hlocs⟩ := hok
  have hs : Starts a.σ ([tKw "directive"] ++ ([tP .at] ++ ([tName d.name] ++ (printArgDefsK dk d.args ++
      ((if d.repeatable then [tKw "repeatable"] else []) ++ ([tKw "on"] ++ printSep .pipe d.locations)))))) σ' := by
    simpa using hs
  rw [Starts.append_iff] at hs
  obtain ⟨σ1, h1, hs⟩ := hs
  rw [Starts.append_iff] at hs
  obtain ⟨σ2, h2, hs⟩ := hs
  rw [Starts.append_iff] at hs
  obtain ⟨σ3, h3, hs⟩ := hs
  rw [Starts.append_iff] at hs
  obtain ⟨σ4, h4, hs⟩ := hs
  rw [Starts.append_iff] at hs
  obtain ⟨σ5, h5, hs⟩ := hs
  rw [Starts.append_iff] at hs
  obtain ⟨σ6, h6, h7⟩ := hs
  have hon : σ5.head.kind = .name ∧ σ5.head.value = kwOn := by
    obtain ⟨u, hσu, hu⟩ := h6.single
    rw [hσu]; exact ⟨ofToken_kind hu, ofToken_value hu⟩
  rw [parseDirectiveDefinition_eq]
  refine Fwd.bind (fwd_keyword "directive" (by simpa using h1)) ?_
  rintro _ b1 hσ1
  refine Fwd.bind (fwd_punct .at (by rw [hσ1]; exact h2)) ?_
  rintro _ b2 hσ2
  refine Fwd.bind (fwd_peekPos _) ?_
  rintro pos b3 rfl
  refine Fwd.bind (fwd_parseName d.name (by simpa [hσ2] using h3)) ?_
  rintro nm b4 ⟨rfl, hσ4⟩
  have hk4 : σ4.head.kind = .name := by
    cases hr : d.repeatable with
    | true => rw [hr] at h5; exact h5.head_kind
    | false =>
      rw [hr] at h5
      simp only [Bool.false_eq_true, if_false] at h5
      rw [Starts.nil_iff] at h5
      rw [h5]; exact hon.1
  refine Fwd.bind (fwd_argDefs hdk d.args hargs n b4 σ4 (by rw [hσ4]; exact h4) (fun _ => by rw [hk4]; decide)) ?_
  rintro as' b5 ⟨has, hσ5⟩
  refine Fwd.bind (fwd_peek b5) ?_
  rintro pk b6 ⟨rfl, rfl⟩
  have tailFwd : ∀ (rep : Bool) (b : AS), b.σ = σ5 → Fwd (directiveTail n d.desc pos d.name as' rep) b
      (fun y a' => y.erasePos = ({ d with repeatable := rep } : DirectiveDef).erasePos ∧ a'.σ = σ') := by
    intro rep b hb
    unfold directiveTail
    refine Fwd.bind (fwd_keyword "on" (by rw [hb]; simpa using h6)) ?_
    rintro _ c1 hc1
    refine Fwd.bind (fwd_directiveLocations d.locations hne hlocs n c1 σ' (by rw [hc1]; exact h7) hfol) ?_
    rintro ls c2 ⟨rfl, hσ⟩
    refine (Fwd.pure _ _).mono ?_
    rintro y c3 ⟨rfl, rfl⟩
    exact ⟨by simp [DirectiveDef.erasePos, has], hσ⟩
  cases hr : d.repeatable with
  | true =>
    rw [hr] at h5
    simp only [if_true] at h5
    obtain ⟨u, hσu, hu⟩ := h5.single
    have hku : u.kind = .name := ofToken_kind hu
    have hvu : u.value = kwRepeatable := ofToken_value hu
    refine Fwd.ite_pos (by rw [hσ5, hσu]; exact ⟨hku, hvu⟩) (Fwd.bind
      (fwd_skip_yes (a := { pk := true, σ := b5.σ, cnt := b5.cnt }) (t := u) (σ' := σ5) .name (by simp [hσ5, hσu]) hku) ?_)
    rintro _ b7 ⟨_, rfl⟩
    refine (tailFwd true _ rfl).mono ?_
    rintro y a' ⟨hy, hσ⟩
    exact ⟨by rw [hy]; simp [DirectiveDef.erasePos, hr], hσ⟩
  | false =>
    rw [hr] at h5
    simp only [Bool.false_eq_true, if_false] at h5
    rw [Starts.nil_iff] at h5
    subst h5
    refine Fwd.ite_neg (by
      rw [hσ5]; intro hc
      rw [hon.2] at hc
      exact absurd hc.2 (by decide)) ?_
    refine (tailFwd false _ (by simp [hσ5])).mono ?_
    rintro y a' ⟨hy, hσ⟩
    exact ⟨by rw [hy]; simp [DirectiveDef.erasePos, hr], hσ⟩

/-! ### top-level items -/

/-- the side conditions of an item: what the grammar requires of it (well-formedness) and that
    its unprinted parts are what the parser builds -/
def ItemOK : SItem → Prop
  | .schema s => SchemaDefOK s
  | .schemaExt s => SchemaExtOK s
  | .directive d => DirectiveDefOK d
  | .definition d => DefOK d
  | .extension d => DefOK d ∧ d.desc = [] ∧ ExtendsSomething d

/-- the item as the parser run returns it: positions erased, `BuiltIn` not yet set -/
def SItem.norm : SItem → SItem
  | .schema s => .schema s.erasePos
  | .schemaExt s => .schemaExt s.erasePos
  | .directive d => .directive d.erasePos
  | .definition d => .definition ({ d with builtIn := false } : Definition).erasePos
  | .extension d => .extension ({ d with builtIn := false } : Definition).erasePos

def SItem.erasePos : SItem → SItem
  | .schema s => .schema s.erasePos
  | .schemaExt s => .schemaExt s.erasePos
  | .directive d => .directive d.erasePos
  | .definition d => .definition d.erasePos
  | .extension d => .extension d.erasePos

theorem erasePos_add (doc : SchemaDoc) (it : SItem) : (doc.add it).erasePos = doc.erasePos.add it.erasePos := by
  cases it <;> simp [SchemaDoc.add, SchemaDoc.erasePos, SItem.erasePos]

/-- the first token of a printed item: a description or a keyword; it satisfies the follow
    condition of the item before it -/
theorem folItem_of_item {dk : Kind} (hdk : DescKind dk) (it : SItem) {σ σ' : Stream} (h : Starts σ (printItemK dk it) σ') :
    FolItem σ ∧ σ.head.kind ≠ .eof := by
  have key : ∀ (desc : Bytes) (kw : Tok) (rest : List Tok), kw.kind = .name → kw.value ≠ kwImplements →
      Starts σ (printDescK dk desc ++ kw :: rest) σ' → FolItem σ ∧ σ.head.kind ≠ .eof := by
    intro desc kw rest hk hv hst
    by_cases hd : desc = []
    · simp only [printDescK, hd, if_true, List.nil_append] at hst
      have hh := hst.head
      have hkk : σ.head.kind = .name := by rw [← show (Tok.ofToken σ.head).kind = σ.head.kind from rfl, hh]; exact hk
      have hvv : σ.head.value = kw.value := by rw [← show (Tok.ofToken σ.head).value = σ.head.value from rfl, hh]
      exact ⟨⟨by simp [hkk], by simp [hkk], by simp [hkk], by simp [hkk], by simp [hkk], by simp [hkk], by simp [hkk],
        fun hc => hv (hvv ▸ hc.2)⟩, by simp [hkk]⟩
    · simp only [printDescK, if_neg hd, List.cons_append, List.nil_append] at hst
      have hkk : σ.head.kind = dk := hst.head_kind
      rcases hdk with h' | h' <;> rw [h'] at hkk <;>
        exact ⟨⟨by simp [hkk], by simp [hkk], by simp [hkk], by simp [hkk], by simp [hkk], by simp [hkk], by simp [hkk],
          noImplements_of_kind (by simp [hkk])⟩, by simp [hkk]⟩
  cases it with
  | schema s => exact key s.desc (tKw "schema") _ rfl (by decide) (by simpa [printItemK, printSchemaDefK] using h)
  | schemaExt s =>
    exact key [] (tKw "extend") _ rfl (by decide) (by simpa [printItemK, printSchemaExt, printDescK] using h)
  | directive d => exact key d.desc (tKw "directive") _ rfl (by decide) (by simpa [printItemK, printDirectiveDefK] using h)
  | definition d =>
    refine key d.desc (DefKind.keyword d.kind) _ (keyword_value d.kind).1 ?_ (by simpa [printItemK, printDefinitionK] using h)
    rw [(keyword_value d.kind).2]; cases d.kind <;> decide
  | extension d =>
    exact key [] (tKw "extend") _ rfl (by decide) (by simpa [printItemK, printExtensionK, printDescK] using h)

theorem folItem_of_eof {σ : Stream} (h : σ.head.kind = .eof) : FolItem σ :=
  ⟨by simp [h], by simp [h], by simp [h], by simp [h], by simp [h], by simp [h], by simp [h], noImplements_of_kind (by simp [h])⟩

/-- `extend …` -/
theorem fwd_typeSystemExtension {dk : Kind} (hdk : DescKind dk) (it : SItem) (hok : ItemOK it)
    (hext : (∃ s, it = .schemaExt s) ∨ (∃ d, it = .extension d)) (n : Nat) (doc : SchemaDoc) (a : AS) (σ' : Stream)
    (hs : Starts a.σ (printItemK dk it) σ') (hfol : FolItem σ') :
    Fwd (parseTypeSystemExtension n doc) a (fun y a' => y.erasePos = doc.erasePos.add it.norm ∧ a'.σ = σ') := by
  unfold parseTypeSystemExtension
  rcases hext with ⟨s, rfl⟩ | ⟨d, rfl⟩
  · simp only [printItemK, printSchemaExt] at hs
    obtain ⟨σ1, h1, h2⟩ := hs.cons_single
    refine Fwd.bind (fwd_keyword "extend" (by simpa using h1)) ?_
    rintro _ b1 hσ1
    refine Fwd.bind (fwd_peek b1) ?_
    rintro t b2 ⟨rfl, rfl⟩
    have hv : b1.σ.head.value = kwSchema := by
      rw [hσ1]
      obtain ⟨σ2, h3, _⟩ := h2.cons_single
      obtain ⟨u, hσu, hu⟩ := h3.single
      rw [hσu]; exact ofToken_value hu
    refine Fwd.ite_pos hv (Fwd.bind (fwd_schemaExtension s hok n _ σ' (by simpa [hσ1] using h2) hfol) ?_)
    rintro sd b3 ⟨hsd, hσ⟩
    refine (Fwd.pure _ _).mono ?_
    rintro y b4 ⟨rfl, rfl⟩
    exact ⟨by simp [SchemaDoc.erasePos, SchemaDoc.add, SItem.norm, hsd], hσ⟩
  · obtain ⟨hdok, hdesc, hx⟩ := hok
    simp only [printItemK, printExtensionK] at hs
    obtain ⟨σ1, h1, h2⟩ := hs.cons_single
    refine Fwd.bind (fwd_keyword "extend" (by simpa using h1)) ?_
    rintro _ b1 hσ1
    refine Fwd.bind (fwd_peek b1) ?_
    rintro t b2 ⟨rfl, rfl⟩
    have hv : b1.σ.head.value = (DefKind.keyword d.kind).value := by
      rw [hσ1, ← show (Tok.ofToken σ1.head).value = σ1.head.value from rfl, h2.head]
    rw [hv]
    have fin : ∀ (p : Prog Definition), Fwd p { pk := true, σ := b1.σ, cnt := b1.cnt }
        (fun y a' => y.erasePos = ({ d with builtIn := false } : Definition).erasePos ∧ a'.σ = σ') →
        Fwd (p >>= fun x => Pure.pure { doc with extensions := doc.extensions ++ [x] }) { pk := true, σ := b1.σ, cnt := b1.cnt }
          (fun y a' => y.erasePos = doc.erasePos.add (SItem.extension d).norm ∧ a'.σ = σ') := by
      intro p hp
      refine Fwd.bind hp ?_
      rintro x b3 ⟨hx', hσ⟩
      refine (Fwd.pure _ _).mono ?_
      rintro y b4 ⟨rfl, rfl⟩
      exact ⟨by simp [SchemaDoc.erasePos, SchemaDoc.add, SItem.norm, hx'], hσ⟩
    have hs2 : Starts ({ pk := true, σ := b1.σ, cnt := b1.cnt } : AS).σ (DefKind.keyword d.kind :: printDefBodyK dk d) σ' := by
      simpa [hσ1] using h2
    cases hkind : d.kind with
    | scalar =>
      refine Fwd.ite_neg (by decide) (Fwd.ite_pos rfl (fin _ ?_))
      exact fwd_parseScalarTypeExtension hdk d hkind hdok hdesc hx n _ σ' hs2 hfol
    | object =>
      refine Fwd.ite_neg (by decide) (Fwd.ite_neg (by decide) (Fwd.ite_pos rfl (fin _ ?_)))
      exact fwd_parseObjectTypeExtension hdk d hkind hdok hdesc hx n _ σ' hs2 hfol
    | interface =>
      refine Fwd.ite_neg (by decide) (Fwd.ite_neg (by decide) (Fwd.ite_neg (by decide) (Fwd.ite_pos rfl (fin _ ?_))))
      exact fwd_parseInterfaceTypeExtension hdk d hkind hdok hdesc hx n _ σ' hs2 hfol
    | union =>
      refine Fwd.ite_neg (by decide) (Fwd.ite_neg (by decide) (Fwd.ite_neg (by decide) (Fwd.ite_neg (by decide)
        (Fwd.ite_pos rfl (fin _ ?_)))))
      exact fwd_parseUnionTypeExtension hdk d hkind hdok hdesc hx n _ σ' hs2 hfol
    | «enum» =>
      refine Fwd.ite_neg (by decide) (Fwd.ite_neg (by decide) (Fwd.ite_neg (by decide) (Fwd.ite_neg (by decide)
        (Fwd.ite_neg (by decide) (Fwd.ite_pos rfl (fin _ ?_))))))
      exact fwd_parseEnumTypeExtension hdk d hkind hdok hdesc hx n _ σ' hs2 hfol
    | inputObject =>
      refine Fwd.ite_neg (by decide) (Fwd.ite_neg (by decide) (Fwd.ite_neg (by decide) (Fwd.ite_neg (by decide)
        (Fwd.ite_neg (by decide) (Fwd.ite_neg (by decide) (Fwd.ite_pos rfl (fin _ ?_)))))))
      exact fwd_parseInputObjectTypeExtension hdk d hkind hdok hdesc hx n _ σ' hs2 hfol

end Gql.Parser
