import GqlModel.Syntax.Ast
/-
  Position erasure: the tree with every `Pos` replaced by `Pos.zero`.  Two trees are "equal up to
  positions" when their erasures are equal.  (The parser records positions the unparser does not
  print, so round-trip statements are up to this erasure.)
-/
namespace Gql

def GType.erasePos : GType → GType
  | .named n nn _ => .named n nn Pos.zero
  | .list e nn _ => .list e.erasePos nn Pos.zero

mutual
  def Value.erasePos : Value → Value
    | .mk k raw ch _ => .mk k raw ch.erasePos Pos.zero
  def Children.erasePos : Children → Children
    | .nil => .nil
    | .cons n v _ rest => .cons n v.erasePos Pos.zero rest.erasePos
end

def Argument.erasePos (a : Argument) : Argument := { name := a.name, value := a.value.erasePos, pos := Pos.zero }

def Directive.erasePos (d : Directive) : Directive :=
  { name := d.name, args := d.args.map Argument.erasePos, pos := Pos.zero }

mutual
  def Selection.erasePos : Selection → Selection
    | .field al nm args ds sel _ =>
      .field al nm (args.map Argument.erasePos) (ds.map Directive.erasePos) sel.erasePos Pos.zero
    | .spread nm ds _ => .spread nm (ds.map Directive.erasePos) Pos.zero
    | .inline tc ds sel _ => .inline tc (ds.map Directive.erasePos) sel.erasePos Pos.zero
  def Selections.erasePos : Selections → Selections
    | .nil => .nil
    | .cons s rest => .cons s.erasePos rest.erasePos
end

def VarDef.erasePos (v : VarDef) : VarDef :=
  { var := v.var, type := v.type.erasePos, default := v.default.map Value.erasePos,
    dirs := v.dirs.map Directive.erasePos, pos := Pos.zero }

def OperationDef.erasePos (o : OperationDef) : OperationDef :=
  { op := o.op, name := o.name, vars := o.vars.map VarDef.erasePos, dirs := o.dirs.map Directive.erasePos,
    sel := o.sel.erasePos, pos := Pos.zero }

def FragmentDef.erasePos (f : FragmentDef) : FragmentDef :=
  { name := f.name, vars := f.vars.map VarDef.erasePos, typeCond := f.typeCond, dirs := f.dirs.map Directive.erasePos,
    sel := f.sel.erasePos, pos := Pos.zero }

def QueryDoc.erasePos (d : QueryDoc) : QueryDoc :=
  { ops := d.ops.map OperationDef.erasePos, frags := d.frags.map FragmentDef.erasePos }

/-! ### type-system documents -/

def ArgDef.erasePos (a : ArgDef) : ArgDef :=
  { desc := a.desc, name := a.name, default := a.default.map Value.erasePos, type := a.type.erasePos,
    dirs := a.dirs.map Directive.erasePos, pos := Pos.zero }

def FieldDef.erasePos (f : FieldDef) : FieldDef :=
  { desc := f.desc, name := f.name, args := f.args.map ArgDef.erasePos, default := f.default.map Value.erasePos,
    type := f.type.erasePos, dirs := f.dirs.map Directive.erasePos, pos := Pos.zero }

def EnumValDef.erasePos (e : EnumValDef) : EnumValDef :=
  { desc := e.desc, name := e.name, dirs := e.dirs.map Directive.erasePos, pos := Pos.zero }

def Definition.erasePos (d : Definition) : Definition :=
  { kind := d.kind, desc := d.desc, name := d.name, dirs := d.dirs.map Directive.erasePos, interfaces := d.interfaces,
    fields := d.fields.map FieldDef.erasePos, types := d.types, enumValues := d.enumValues.map EnumValDef.erasePos,
    pos := Pos.zero, builtIn := d.builtIn }

def DirectiveDef.erasePos (d : DirectiveDef) : DirectiveDef :=
  { desc := d.desc, name := d.name, args := d.args.map ArgDef.erasePos, locations := d.locations,
    repeatable := d.repeatable, pos := Pos.zero }

def OpTypeDef.erasePos (o : OpTypeDef) : OpTypeDef := { op := o.op, type := o.type, pos := Pos.zero }

def SchemaDef.erasePos (s : SchemaDef) : SchemaDef :=
  { desc := s.desc, dirs := s.dirs.map Directive.erasePos, opTypes := s.opTypes.map OpTypeDef.erasePos, pos := Pos.zero }

def SchemaDoc.erasePos (d : SchemaDoc) : SchemaDoc :=
  { schema := d.schema.map SchemaDef.erasePos, schemaExt := d.schemaExt.map SchemaDef.erasePos,
    directives := d.directives.map DirectiveDef.erasePos, definitions := d.definitions.map Definition.erasePos,
    extensions := d.extensions.map Definition.erasePos }

theorem Children.erasePos_ofList (xs : List (Name × Value × Pos)) :
    (Children.ofList xs).erasePos = Children.ofList (xs.map fun x => (x.1, x.2.1.erasePos, Pos.zero)) := by
  induction xs with
  | nil => rfl
  | cons x xs ih =>
    obtain ⟨n, v, p⟩ := x
    simp only [Children.ofList, Children.erasePos, List.map_cons, ih]

theorem Children.ofList_toList : ∀ ch : Children, Children.ofList ch.toList = ch
  | .nil => rfl
  | .cons n v p rest => by simp only [Children.toList, Children.ofList, Children.ofList_toList rest]

theorem Selections.erasePos_ofList (xs : List Selection) :
    (Selections.ofList xs).erasePos = Selections.ofList (xs.map Selection.erasePos) := by
  induction xs with
  | nil => rfl
  | cons x xs ih => simp only [Selections.ofList, Selections.erasePos, List.map_cons, ih]

theorem Selections.ofList_toList : ∀ ss : Selections, Selections.ofList ss.toList = ss
  | .nil => rfl
  | .cons s rest => by simp only [Selections.toList, Selections.ofList, Selections.ofList_toList rest]

end Gql
