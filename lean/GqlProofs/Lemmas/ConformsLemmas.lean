import GqlProofs.Lemmas.VarsLemmas
/- helper lemmas for C14_conforms / C14_rejects -/
namespace Gql
open Gql.Strconv

/-- what a SUPPLIED value satisfies when coercion accepts it: `CoercibleExceptTypename` -/
abbrev CL (s : Schema) (t : GType) (v : GoVal) : Prop := conformsWith .suppliedT s t v = true
/-- what a RESULT satisfies: `ConformsExceptTypename` -/
abbrev CR (s : Schema) (t : GType) (v : GoVal) : Prop := conformsWith .specT s t v = true

theorem leafName_suppliedT (t : GType) : leafName .suppliedT t = some t.name := by
  cases t <;> simp [leafName, Reading.suppliedT, GType.name]

/-- for a value that is neither null nor a list, only the innermost name of the type matters -/
theorem conformsWith_flat (s : Schema) (t t' : GType) (v : GoVal) (hn : t.name = t'.name)
    (h1 : v ≠ .nil) (h2 : ∀ e xs, v ≠ .slice e xs) :
    conformsWith .suppliedT s t v = conformsWith .suppliedT s t' v := by
  cases v with
  | nil => exact absurd rfl h1
  | slice e xs => exact absurd rfl (h2 e xs)
  | _ => simp [conformsWith, leafName_suppliedT, hn]

set_option linter.unusedSimpArgs false in
theorem scalar_accept_conforms (s : Schema) (n : Name) (nn : Bool) (p : Pos) (d : Definition)
    (hd : s.type? n = some d) (hk : d.kind = .scalar) (val : GoVal) (t : GoType) (hty : val.type? = some t)
    (h : builtinScalarAccepts n val t.kind ≠ some false) : CL s (.named n nn p) val := by
  unfold CL
  simp only [builtinScalarAccepts] at h
  cases hb : builtinOf n with
  | none =>
    cases val <;> simp [conformsWith, leafName, leafOK, hd, hk, isCustomScalar, isBuiltinScalarName, hb, GoVal.type?] at hty ⊢
  | some b =>
    simp only [hb] at h
    cases val with
    | float is32 text =>
      cases is32 <;> cases b <;> simp only [GoVal.type?, Option.some.injEq, reduceCtorEq] at hty <;> subst hty <;>
      simp_all [conformsWith, leafName, leafOK, isCustomScalar, isBuiltinScalarName,
        intOK, floatOK, stringOK, boolOK, idOK, Reading.suppliedT, isIntLikeKind, isFloatKind,
        isValidIntString, isValidFloatString, GoType.kind, GoVal.stringContent]
    | _ =>
      cases b <;> simp only [GoVal.type?, Option.some.injEq, reduceCtorEq] at hty <;> subst hty <;>
      simp_all [conformsWith, leafName, leafOK, isCustomScalar, isBuiltinScalarName,
        intOK, floatOK, stringOK, boolOK, idOK, Reading.suppliedT, isIntLikeKind, isFloatKind,
        isValidIntString, isValidFloatString, GoType.kind, GoVal.stringContent]

theorem conformsWith_nil (L : Reading) (s : Schema) (t : GType) : conformsWith L s t .nil = !t.nonNull := by
  cases t <;> simp [conformsWith]

theorem enumNameOK_of_any {d : Definition} {x : Bytes}
    (h : d.enumValues.any (fun ev => decide (x = ev.name)) = true) : enumNameOK d x = true := by
  simp only [enumNameOK, List.any_eq_true, decide_eq_true_eq] at h ⊢
  obtain ⟨ev, hev, e⟩ := h
  exact ⟨ev, hev, e.symm⟩

theorem enum_accept_conforms (s : Schema) (hplain : EnumNamesPlain s) (n : Name) (nn : Bool) (p : Pos) (d : Definition)
    (hd : s.type? n = some d) (hk : d.kind = .enum) (val : GoVal) (t : GoType) (hty : val.type? = some t)
    (hkind : (isIntLikeKind t.kind || decide (t.kind = .string)) = true)
    (hany : d.enumValues.any (fun ev => decide (val.reflectString = ev.name)) = true) :
    CL s (.named n nn p) val := by
  unfold CL
  have hpl := hplain n d hd
  cases val with
  | str x =>
    simp only [GoVal.reflectString] at hany
    simp [conformsWith, leafName, leafOK, hd, hk, enumOK, enumNameOK_of_any hany]
  | jsonNumber x =>
    simp only [GoVal.reflectString] at hany
    simp [conformsWith, leafName, leafOK, hd, hk, enumOK, Reading.suppliedT, enumNameOK_of_any hany]
  | int k i =>
    simp only [GoVal.reflectString, GoVal.type?, List.any_eq_true] at hany
    obtain ⟨ev, hev, e⟩ := hany
    have e' := of_decide_eq_true e
    exact absurd (by rw [← e']; rfl) (hpl ev hev)
  | float is32 x =>
    cases is32 <;> simp only [GoVal.type?, Option.some.injEq] at hty <;> subst hty <;>
      simp [isIntLikeKind, GoType.kind] at hkind
  | _ =>
    simp only [GoVal.type?, Option.some.injEq, reduceCtorEq] at hty <;> (try subst hty) <;>
      simp [isIntLikeKind, GoType.kind] at hkind

/- ---------- on a scalar / enum NAMED type `single` is irrelevant ---------- -/

theorem leafOK_specT (s : Schema) (n : Name) (v : GoVal) : leafOK .specT s n v = leafOK .suppliedT s n v := by
  cases v <;> rfl

theorem conformsWith_named_leaf (s : Schema) (n : Name) (nn : Bool) (p : Pos) (d : Definition)
    (hd : s.type? n = some d) (hk : d.kind = .scalar ∨ d.kind = .enum) (v : GoVal) :
    conformsWith .specT s (.named n nn p) v = conformsWith .suppliedT s (.named n nn p) v := by
  have hno : ¬ d.kind = .inputObject := by rcases hk with h | h <;> simp [h]
  cases v <;> simp [conformsWith, leafName, leafOK_specT, hd, hno]

/-- what a successful `validateVarType` call guarantees: the RETURNED value conforms (`CR`:
    `ConformsExceptTypename`, list nesting exact), the ARGUMENT was coercible (`CL`) -/
def Conf (s : Schema) (t : GType) (val : GoVal) : Res GoVal → Prop
  | .ok ret => CR s t ret ∧ CL s t val
  | _ => True

theorem listLoop_conforms (s : Schema) (e : GType) (f : Path → GoVal → Res GoVal) (path : Path) (b1 b2 : Bool)
    (hf : ∀ p x, wfB x = true → (x = .nil → b2 = false) → Conf s e x (f p x)) :
    ∀ (xs xs' : GoVals) (i : Nat), wfItemsB b1 xs = true → listLoop f path b1 b2 i xs = .ok xs' →
      allConform .specT s e xs' = true ∧ allConform .suppliedT s e xs = true
  | .nil, xs', i, _, h => by simp only [listLoop] at h; cases h; simp [allConform]
  | .cons x rest, xs', i, hw, h => by
    simp only [wfItemsB, Bool.and_eq_true] at hw
    simp only [listLoop] at h
    split at h
    · simp at h
    · rename_i hcond
      have hx := hf (path ++ [.idx i]) x hw.1.2 (listLoop_nil_nullable hw.1.1 hcond)
      cases hfx : f (path ++ [.idx i]) x with
      | ok ret =>
        simp only [hfx, Conf] at hx
        simp only [hfx] at h
        cases hl : listLoop f path b1 b2 (i + 1) rest with
        | ok rest' =>
          simp only [hl] at h; cases h
          obtain ⟨a, b⟩ := listLoop_conforms s e f path b1 b2 hf rest rest' (i + 1) hw.2 hl
          simp [allConform, hx.1, a, b, hx.2]
        | err m p a => simp [hl] at h
        | panic m => simp [hl] at h
        | outOfFuel => simp [hl] at h
      | err m p a => simp [hfx] at h
      | panic m => simp [hfx] at h
      | outOfFuel => simp [hfx] at h

/-- the list branch on a value that is neither null nor a slice: the single-value-to-list coercion -/
theorem vvt_list_nonslice (s : Schema) (fuel : Nat) (path : Path) (e : GType) (nn : Bool) (p : Pos) (val : GoVal)
    (hn : val ≠ .nil) (h : ∀ t xs, val ≠ .slice t xs) :
    validateVarType s (fuel + 1) path (.list e nn p) val =
      (match val.type? with
       | none => .panic typeOnZeroMsg
       | some t =>
         match validateVarType s fuel (path ++ [.idx 0]) e val with
         | .ok ret => .ok (.slice (storeElemType t (.cons val .nil) (.cons ret .nil)) (.cons ret .nil))
         | .err m p a => .err m p a
         | .panic m => .panic m
         | .outOfFuel => .outOfFuel) := by
  cases val <;> first | exact absurd rfl hn | exact absurd rfl (h _ _) | rfl

/-- a null where a list is expected is returned as it is -/
theorem vvt_list_nil (s : Schema) (fuel : Nat) (path : Path) (e : GType) (nn : Bool) (p : Pos) :
    validateVarType s (fuel + 1) path (.list e nn p) .nil = .ok .nil := by
  rfl

/- ---------- the field loop ---------- -/

theorem GoFields.contains_of_lookup {kvs : GoFields} {k : Bytes} {x : GoVal} (h : kvs.lookup k = some x) :
    kvs.contains k = true := by simp [GoFields.contains, h]

theorem GoFields.lookup_of_contains {kvs : GoFields} {k : Bytes} (h : kvs.contains k = true) :
    ∃ x, kvs.lookup k = some x := by
  simp only [GoFields.contains, Option.isSome_iff_exists] at h; exact h

/-- the first loop of the InputObject branch found no offending key -/
theorem unknownKeys_nil {fields : List FieldDef} : ∀ {kvs : GoFields}, unknownKeys fields kvs = [] →
    ∀ k x, kvs.lookup k = some x → k = str "__typename" ∨ ∃ fd, findField fields k = some fd
  | .nil, _, k, x, h => by simp [GoFields.lookup] at h
  | .cons a w r, hu, k, x, h => by
    simp only [unknownKeys] at hu
    simp only [GoFields.lookup] at h
    by_cases ha : a = str "__typename"
    · simp only [ha, if_true] at hu
      split at h
      · rename_i e; left; rw [← e, ha]
      · exact unknownKeys_nil hu k x h
    · simp only [ha, if_false] at hu
      cases hfd : findField fields a with
      | none => simp [hfd] at hu
      | some fd =>
        simp only [hfd] at hu
        split at h
        · rename_i e; right; rw [← e]; exact ⟨fd, hfd⟩
        · exact unknownKeys_nil hu k x h

/-- with unique keys, `fieldsDeclared` is a statement about `lookup` -/
theorem fieldsDeclared_of_lookup (L : Reading) (s : Schema) (fields : List FieldDef) (b : Bool) :
    ∀ (kvs : GoFields), wfFieldsB b kvs = true →
      (∀ k v, kvs.lookup k = some v →
        (match fields.find? (fun f => f.name = k) with
          | some fd => conformsWith L s fd.type v
          | none => L.typenameKey && decide (k = str "__typename")) = true) →
      fieldsDeclared L s fields kvs = true
  | .nil, _, _ => by simp [fieldsDeclared]
  | .cons a w r, hw, h => by
    simp only [wfFieldsB, Bool.and_eq_true] at hw
    simp only [fieldsDeclared, Bool.and_eq_true]
    refine ⟨h a w (by simp [GoFields.lookup]), fieldsDeclared_of_lookup L s fields b r hw.2 ?_⟩
    intro k v hk
    apply h k v
    have hne : a ≠ k := by
      intro e; subst e
      have := GoFields.contains_of_lookup hk
      simp [this] at hw
    simp [GoFields.lookup, hne, hk]

/-- the invariant of the field loop.  `hg`: the recursive call does not panic and keeps
    well-formedness; `hf`: it returns conforming values. -/
theorem fieldLoop_conforms (s : Schema) (f : Path → GType → GoVal → Res GoVal) (path : Path)
    (hg : ∀ p t x, InputTypeOK s t → wfB x = true → x ≠ .nil → GoodVal x (f p t x))
    (hf : ∀ p t x, InputTypeOK s t → wfB x = true → x ≠ .nil → Conf s t x (f p t x)) :
    ∀ (fields : List FieldDef) (elem : GoType) (kvs : GoFields) (elem' : GoType) (kvs' : GoFields),
      (fields.map (·.name)).Nodup → (∀ fd ∈ fields, InputTypeOK s fd.type) →
      wfFieldsB (decide (elem = .iface)) kvs = true →
      fieldLoop f path fields elem kvs = .ok (elem', kvs') →
        (∀ k, kvs'.contains k = kvs.contains k) ∧
        (∀ k, (∀ fd ∈ fields, fd.name ≠ k) → kvs'.lookup k = kvs.lookup k) ∧
        (∀ fd ∈ fields, (fd.required = true → kvs.contains fd.name = true) ∧
          ∀ x, kvs.lookup fd.name = some x → CL s fd.type x ∧ ∃ y, kvs'.lookup fd.name = some y ∧ CR s fd.type y)
  | [], elem, kvs, elem', kvs', _, _, _, h => by
    simp only [fieldLoop] at h; cases h
    exact ⟨fun _ => rfl, fun _ _ => rfl, fun fd hfd => by simp at hfd⟩
  | fd :: rest, elem, kvs, elem', kvs', hnd, ht, hw, h => by
    simp only [List.map_cons, List.nodup_cons, List.mem_map, not_exists, not_and] at hnd
    have htr : ∀ fd' ∈ rest, InputTypeOK s fd'.type := fun fd' h' => ht fd' (by simp [h'])
    have ih := fun e2 k2 => fieldLoop_conforms s f path hg hf rest e2 k2 elem' kvs' hnd.2 htr
    have hnotin : ∀ fd' ∈ rest, fd'.name ≠ fd.name := fun fd' h' e => hnd.1 fd' h' e
    -- the step that leaves the map unchanged
    have skip : fieldLoop f path rest elem kvs = .ok (elem', kvs') →
        (fd.required = true → kvs.contains fd.name = true) →
        (∀ x, kvs.lookup fd.name = some x → CL s fd.type x ∧ CR s fd.type x) →
        (∀ k, kvs'.contains k = kvs.contains k) ∧
        (∀ k, (∀ fd' ∈ fd :: rest, fd'.name ≠ k) → kvs'.lookup k = kvs.lookup k) ∧
        (∀ fd' ∈ fd :: rest, (fd'.required = true → kvs.contains fd'.name = true) ∧
          ∀ x, kvs.lookup fd'.name = some x → CL s fd'.type x ∧ ∃ y, kvs'.lookup fd'.name = some y ∧ CR s fd'.type y) := by
      intro h' hreq hx
      obtain ⟨a, b, c⟩ := ih elem kvs hw h'
      refine ⟨a, fun k hk => b k (fun fd' h'' => hk fd' (by simp [h''])), ?_⟩
      intro fd' hfd'
      rcases List.mem_cons.mp hfd' with e | hin
      · subst e
        refine ⟨hreq, fun x hxl => ⟨(hx x hxl).1, x, ?_, (hx x hxl).2⟩⟩
        rw [b fd'.name hnotin]; exact hxl
      · exact c fd' hin
    simp only [fieldLoop] at h
    cases hl : kvs.lookup fd.name with
    | none =>
      simp only [hl] at h
      have hx : ∀ x, kvs.lookup fd.name = some x → CL s fd.type x ∧ CR s fd.type x := by
        intro x hxl; rw [hl] at hxl; cases hxl
      by_cases hnn : fd.type.nonNull = true
      · simp only [hnn, if_true] at h
        cases hdf : fd.default with
        | none => simp [hdf] at h
        | some dv =>
          simp only [hdf] at h
          split at h
          · exact skip h (by simp [FieldDef.required, hdf]) hx
          · simp at h
      · simp only [hnn, Bool.false_eq_true, if_false] at h
        exact skip h (by simp [FieldDef.required, hnn]) hx
    | some x =>
      simp only [hl] at h
      obtain ⟨hxw, hxn⟩ := wfFields_lookup _ kvs fd.name x hw hl
      have hcont : kvs.contains fd.name = true := GoFields.contains_of_lookup hl
      by_cases hn : (decide (elem = .iface) && x.isNil) = true
      · simp only [hn, if_true] at h
        split at h
        · simp at h
        · rename_i hnn
          have hxnil : x = .nil := by
            simp only [Bool.and_eq_true] at hn; exact (GoVal.isNil_iff x).mp hn.2
          apply skip h (fun _ => hcont)
          intro x' hx'
          rw [hl] at hx'; cases hx'
          subst hxnil
          have : fd.type.nonNull = false := by simpa using hnn
          simp [CL, CR, conformsWith_nil, this]
      · simp only [hn, Bool.false_eq_true, if_false] at h
        have hxne : x ≠ .nil := by
          intro e; subst e
          cases h' : decide (elem = .iface) <;> simp_all [GoVal.isNil]
        have hgx := hg (path ++ [.name fd.name]) fd.type x (ht fd (by simp)) hxw hxne
        have hfx := hf (path ++ [.name fd.name]) fd.type x (ht fd (by simp)) hxw hxne
        cases hr : f (path ++ [.name fd.name]) fd.type x with
        | ok cval =>
          simp only [hr, GoodVal] at hgx
          simp only [hr, Conf] at hfx
          simp only [hr] at h
          cases hty : cval.type? with
          | none => simp [hty] at h
          | some t =>
            simp only [hty] at h
            have hcn : cval.isNil = false := (GoVal.isNil_false_iff cval).mpr (hgx.2 hxne)
            have hw2 : wfFieldsB (decide ((if assignable (some t) elem = true then elem else GoType.iface) = .iface))
                (kvs.set fd.name cval) = true := by
              apply wfFields_set _ kvs fd.name cval _ hgx.1 (by simp [hcn])
              split
              · exact hw
              · simpa using wfFields_mono kvs _ hw
            obtain ⟨a, b, c⟩ := ih _ _ hw2 h
            refine ⟨?_, ?_, ?_⟩
            · intro k
              rw [a k, GoFields.contains_set]
              by_cases e : fd.name = k
              · subst e; simp [hcont]
              · simp [e]
            · intro k hk
              rw [b k (fun fd' h'' => hk fd' (by simp [h''])), GoFields.lookup_set]
              simp [hk fd (by simp)]
            · intro fd' hfd'
              rcases List.mem_cons.mp hfd' with e | hin
              · subst e
                refine ⟨fun _ => hcont, fun x' hx' => ?_⟩
                rw [hl] at hx'; cases hx'
                refine ⟨hfx.2, cval, ?_, hfx.1⟩
                rw [b fd'.name hnotin, GoFields.lookup_set]; simp
              · obtain ⟨c1, c2⟩ := c fd' hin
                have hne : fd.name ≠ fd'.name := fun e => hnotin fd' hin e.symm
                refine ⟨fun hq => ?_, fun x' hx' => ?_⟩
                · have := c1 hq
                  rw [GoFields.contains_set] at this
                  simpa [hne] using this
                · apply c2 x'
                  rw [GoFields.lookup_set]; simp [hne, hx']
        | err m p a => simp [hr] at h
        | panic m => simp [hr] at h
        | outOfFuel => simp [hr] at h

/-- requiredPresent from the per-field statement -/
theorem requiredPresent_of (fields : List FieldDef) (kvs : GoFields)
    (h : ∀ fd ∈ fields, fd.required = true → kvs.contains fd.name = true) : requiredPresent fields kvs = true := by
  simp only [requiredPresent, List.all_eq_true, Bool.or_eq_true, Bool.not_eq_true']
  intro fd hfd
  cases hr : fd.required
  · exact Or.inl rfl
  · exact Or.inr (h fd hfd hr)

theorem validateVarType_conforms (s : Schema) (hc : InputsClosed s) (hfn : InputFieldsNodup s) (hplain : EnumNamesPlain s) :
    ∀ (fuel : Nat) (path : Path) (typ : GType) (val : GoVal),
      InputTypeOK s typ → wfB val = true → (val = .nil → typ.nonNull = false) →
      Conf s typ val (validateVarType s fuel path typ val)
  | 0, _, _, _, _, _, _ => by simp [validateVarType, Conf]
  | fuel + 1, path, typ, val, ht, hw, hnn => by
    have ih := validateVarType_conforms s hc hfn hplain fuel
    have ihg := validateVarType_good s hc fuel
    cases typ with
    | list e nn p =>
      have hte : InputTypeOK s e := by simpa [InputTypeOK, GType.name] using ht
      by_cases hvn : val = .nil
      · subst hvn
        have := hnn rfl
        simp only [GType.nonNull] at this
        subst this
        rw [vvt_list_nil]
        simp [Conf, CL, CR, conformsWith_nil, GType.nonNull]
      by_cases hsl : ∃ t xs, val = GoVal.slice t xs
      · obtain ⟨t, xs, rfl⟩ := hsl
        simp only [validateVarType, GoVal.isNil, Bool.false_eq_true, if_false]
        have hxs : wfItemsB (decide (t = .iface)) xs = true := by simpa [wfB] using hw
        cases hr : listLoop (fun p x => validateVarType s fuel p e x) path (decide (t = .iface)) e.nonNull 0 xs with
        | ok xs' =>
          obtain ⟨a, b⟩ := listLoop_conforms s e _ path _ _ (fun p x h1 h2 => ih p e x hte h1 h2) xs xs' 0 hxs hr
          simp [Conf, CL, CR, conformsWith, a, b]
        | err m p a => simp [Conf]
        | panic m => simp [Conf]
        | outOfFuel => simp [Conf]
      · have hns : ∀ t xs, val ≠ GoVal.slice t xs := fun t xs h => hsl ⟨t, xs, h⟩
        rw [vvt_list_nonslice s fuel path e nn p val hvn hns]
        cases hty : val.type? with
        | none => simp [Conf]
        | some t =>
          have hg := ih (path ++ [.idx 0]) e val hte hw (fun h => absurd h hvn)
          revert hg
          simp only []
          cases validateVarType s fuel (path ++ [.idx 0]) e val with
          | ok ret =>
            intro hg
            simp only [Conf] at hg
            obtain ⟨h1, h3⟩ := hg
            have hflat : conformsWith .suppliedT s (.list e nn p) val = conformsWith .suppliedT s e val :=
              conformsWith_flat s (.list e nn p) e val (by simp [GType.name]) hvn hns
            refine ⟨?_, ?_⟩
            · simp [CR, conformsWith, allConform, h1]
            · simp only [CL, hflat]; exact h3
          | err m p a => simp [Conf]
          | panic m => simp [Conf]
          | outOfFuel => simp [Conf]
    | named n nn p =>
      obtain ⟨d, hd, hk⟩ := ht
      simp only [GType.name] at hd
      simp only [validateVarType, hd]
      by_cases hnil : (!nn && val.isNil) = true
      · simp only [hnil, if_true, Conf, CL, CR]
        simp only [Bool.and_eq_true, Bool.not_eq_true'] at hnil
        have : val = .nil := (GoVal.isNil_iff val).mp hnil.2
        subst this
        simp [conformsWith_nil, GType.nonNull, hnil.1]
      · simp only [hnil, Bool.false_eq_true, if_false]
        rcases hk with hk | hk | hk
        · -- scalar
          have hcr : CL s (.named n nn p) val → CR s (.named n nn p) val := by
            intro h; simp only [CR, conformsWith_named_leaf s n nn p d hd (Or.inl hk) val]; exact h
          simp only [hk]
          cases hty : val.type? with
          | none => simp [Conf]
          | some t =>
            simp only []
            cases hacc : builtinScalarAccepts n val t.kind with
            | none =>
              have := scalar_accept_conforms s n nn p d hd hk val t hty (by simp [hacc])
              exact ⟨hcr this, this⟩
            | some b =>
              cases b
              · simp [Conf]
              · have := scalar_accept_conforms s n nn p d hd hk val t hty (by simp [hacc])
                exact ⟨hcr this, this⟩
        · -- enum
          have hcr : CL s (.named n nn p) val → CR s (.named n nn p) val := by
            intro h; simp only [CR, conformsWith_named_leaf s n nn p d hd (Or.inr hk) val]; exact h
          simp only [hk]
          cases hty : val.type? with
          | none => simp [Conf]
          | some t =>
            simp only []
            by_cases hkind : (isIntLikeKind t.kind || decide (t.kind = Kind.string)) = true
            · simp only [hkind, Bool.not_true, Bool.false_eq_true, if_false]
              by_cases hany : (d.enumValues.any fun ev => decide (val.reflectString = ev.name)) = true
              · simp only [hany, if_true]
                have := enum_accept_conforms s hplain n nn p d hd hk val t hty hkind hany
                exact ⟨hcr this, this⟩
              · simp [hany, Conf]
            · simp [hkind, Conf]
        · -- input object
          simp only [hk]
          cases val with
          | map elem kvs =>
            simp only []
            have hkvs : wfFieldsB (decide (elem = .iface)) kvs = true := by simpa [wfB] using hw
            cases hu : unknownKeys d.fields kvs with
            | cons k others => simp [Conf]
            | nil =>
              simp only []
              have hgf := fun p t x h0 h1 (h2 : x ≠ .nil) => ihg p t x h0 h1 (fun h => absurd h h2)
              have hcf := fun p t x h0 h1 (h2 : x ≠ .nil) => ih p t x h0 h1 (fun h => absurd h h2)
              have hgood := fieldLoop_good s (fun p t x => validateVarType s fuel p t x) path hgf d.fields elem kvs (hc n d hd hk) hkvs
              cases hr : fieldLoop (fun p t x => validateVarType s fuel p t x) path d.fields elem kvs with
              | ok pr =>
                obtain ⟨e', kvs'⟩ := pr
                simp only [hr, GoodFields] at hgood
                obtain ⟨a, b, c⟩ := fieldLoop_conforms s _ path hgf hcf d.fields elem kvs e' kvs' (hfn n d hd hk) (hc n d hd hk) hkvs hr
                have hun := unknownKeys_nil hu
                simp only [Conf, CR, CL, conformsWith, leafName, hd, hk, if_true, Bool.and_eq_true]
                refine ⟨⟨?_, ?_⟩, ⟨?_, ?_⟩⟩
                · -- the returned map holds only declared fields (and `__typename`), each conforming
                  apply fieldsDeclared_of_lookup _ s d.fields _ kvs' hgood
                  intro k v hkv
                  obtain ⟨x, hx⟩ := GoFields.lookup_of_contains (by rw [← a k]; exact GoFields.contains_of_lookup hkv)
                  cases hfd : d.fields.find? (fun f => f.name = k) with
                  | some fd =>
                    simp only []
                    have hmem := List.mem_of_find?_eq_some hfd
                    have hname : fd.name = k := by simpa using List.find?_some hfd
                    subst hname
                    obtain ⟨_, y, hy, hcy⟩ := (c fd hmem).2 x hx
                    rw [hkv] at hy; cases hy; exact hcy
                  | none =>
                    simp only []
                    rcases hun k x hx with e | ⟨fd, hfd'⟩
                    · simp [Reading.specT, e]
                    · simp only [findField] at hfd'; rw [hfd] at hfd'; cases hfd'
                · apply requiredPresent_of
                  intro fd hfd hreq
                  rw [a fd.name]; exact (c fd hfd).1 hreq
                · apply fieldsDeclared_of_lookup _ s d.fields _ kvs hkvs
                  intro k x hx
                  cases hfd : d.fields.find? (fun f => f.name = k) with
                  | some fd =>
                    simp only []
                    have hmem := List.mem_of_find?_eq_some hfd
                    have hname : fd.name = k := by simpa using List.find?_some hfd
                    subst hname
                    exact ((c fd hmem).2 x hx).1
                  | none =>
                    simp only []
                    rcases hun k x hx with e | ⟨fd, hfd'⟩
                    · simp [Reading.suppliedT, e]
                    · simp only [findField] at hfd'; rw [hfd] at hfd'; cases hfd'
                · apply requiredPresent_of
                  intro fd hfd hreq
                  exact (c fd hfd).1 hreq
              | err m p a => simp [Conf]
              | panic m => simp [Conf]
              | outOfFuel => simp [Conf]
          | _ => simp [Conf]

theorem lookup_mem {α β} [BEq α] [LawfulBEq α] {l : List (α × β)} {k : α} {v : β} (h : l.lookup k = some v) : (k, v) ∈ l := by
  induction l with
  | nil => simp at h
  | cons hd tl ih =>
    obtain ⟨a, b⟩ := hd
    simp only [List.lookup] at h
    split at h
    · rename_i heq; simp at heq; cases h; subst heq; simp
    · simp [ih h]

theorem builtinOf_Int : builtinOf (str "Int") = some .int := by decide
theorem builtinOf_Float : builtinOf (str "Float") = some .float := by decide

/-- the `json.Number` pre-conversion maps a coercible converted value back to a coercible supplied value -/
theorem jsonNumberPre_conforms_back (s : Schema) (typ : GType) (x rv : GoVal)
    (h : jsonNumberPre typ x = .ok rv) (hc : CL s typ rv) : CL s typ x := by
  unfold jsonNumberPre at h
  cases x with
  | jsonNumber t =>
    simp only [] at h
    cases typ with
    | list e nn p =>
      have h1 : ¬ ((GType.list e nn p).namedType = str "Int") := by simp [GType.namedType]; decide
      have h2 : ¬ ((GType.list e nn p).namedType = str "Float") := by simp [GType.namedType]; decide
      simp only [h1, h2, if_false] at h
      cases h; exact hc
    | named n nn p =>
      simp only [GType.namedType] at h
      by_cases h1 : n = str "Int"
      · subst h1
        simp only [if_true] at h
        cases hp : parseInt t with
        | ok i =>
          simp only [hp] at h; cases h
          simp only [CL, conformsWith, leafName, leafOK] at hc ⊢
          cases hd : s.type? (str "Int") with
          | none => simp [hd] at hc
          | some d =>
            simp only [hd] at hc ⊢
            cases hk : d.kind <;> simp only [hk] at hc ⊢ <;>
              simp_all [builtinOf_Int, intOK, enumOK, parseIntOk]
        | «syntax» => simp [hp] at h
        | range c => simp [hp] at h
      · simp only [h1, if_false] at h
        by_cases h2 : n = str "Float"
        · subst h2
          simp only [if_true] at h
          cases hp : parseFloat t with
          | ok =>
            simp only [hp] at h; cases h
            simp only [CL, conformsWith, leafName, leafOK] at hc ⊢
            cases hd : s.type? (str "Float") with
            | none => simp [hd] at hc
            | some d =>
              simp only [hd] at hc ⊢
              cases hk : d.kind <;> simp only [hk] at hc ⊢ <;>
                simp_all [builtinOf_Float, floatOK, enumOK, parseFloatOk]
          | «syntax» => simp [hp] at h
          | range c => simp [hp] at h
        · simp only [h2, if_false] at h
          cases h; exact hc
  | _ => simp only [] at h; cases h; exact hc

/-- what one successful `coerceSupplied` stores, and what it implies about the supplied value -/
theorem coerceSupplied_conforms (s : Schema) (hc : InputsClosed s) (hfn : InputFieldsNodup s) (hplain : EnumNamesPlain s)
    (op : OperationDef) (v : VarDef)
    (acc c : GoFields) (x : GoVal) (ht : InputTypeOK s v.type) (hwf : wfB x = true)
    (h : coerceSupplied s op v acc x = .ok c) :
    (∃ y, c = acc.set v.var y ∧ CR s v.type y) ∧ CL s v.type x := by
  unfold coerceSupplied at h
  by_cases hn : x.isNil = true
  · have hx : x = .nil := (GoVal.isNil_iff x).mp hn
    subst hx
    simp only [GoVal.isNil, if_true] at h
    split at h
    · simp at h
    · rename_i hnn
      cases h
      have hnn' : v.type.nonNull = false := by simpa using hnn
      exact ⟨⟨.nil, rfl, by simp [CR, conformsWith_nil, hnn']⟩, by simp [CL, conformsWith_nil, hnn']⟩
  · simp only [hn] at h
    cases hj : jsonNumberPre v.type x with
    | error m => simp [hj] at h
    | ok rv =>
      simp only [hj] at h
      obtain ⟨hrw, hrv⟩ := jsonNumberPre_good hwf (fun e => hn ((GoVal.isNil_iff x).mpr e)) hj
      have hg := validateVarType_conforms s hc hfn hplain (fuelFor s op rv) (varPath v) v.type rv ht
        hrw (fun e => absurd e hrv)
      revert hg h
      cases validateVarType s (fuelFor s op rv) (varPath v) v.type rv with
      | ok rval =>
        intro h hg
        simp only [Conf] at hg
        by_cases hr : rval.isNil = true
        · simp [hr] at h
        · simp [hr] at h
          subst h
          exact ⟨⟨rval, rfl, hg.1⟩, jsonNumberPre_conforms_back s v.type x rv hj hg.2⟩
      | err m p a => intro h _; simp at h
      | panic m => intro h _; simp at h
      | outOfFuel => intro h _; simp at h

/-- a variable that got through `coerceVar` has an input type that exists -/
theorem coerceVar_inputType {s : Schema} {op : OperationDef} {vars : VarMap} {v : VarDef} {coerced c : GoFields}
    (h : coerceVar s op vars v coerced = .ok c) : InputTypeOK s v.type := by
  unfold coerceVar at h
  cases hd : s.type? v.type.name with
  | none => simp [hd] at h
  | some d =>
    simp only [hd] at h
    by_cases hin : d.isInputType = true
    · exact ⟨d, hd, isInputType_kind hin⟩
    · simp [hin] at h

/- ---------- without the key `__typename` the R14c exception is not used ---------- -/

theorem leafOK_spec_specT (s : Schema) (n : Name) (v : GoVal) : leafOK .specT s n v = leafOK .spec s n v := by
  cases v <;> rfl
theorem leafOK_supplied_suppliedT (s : Schema) (n : Name) (v : GoVal) : leafOK .suppliedT s n v = leafOK .supplied s n v := by
  cases v <;> rfl

mutual
  theorem conforms_dropT (s : Schema) (b : Bool) : (t : GType) → (v : GoVal) → noTypenameB v = true →
      conformsWith { typenameKey := true, single := b } s t v = true → conformsWith { typenameKey := false, single := b } s t v = true
    | t, .nil, _, h => by simpa [conformsWith] using h
    | t, .slice e xs, hn, h => by
      cases t with
      | list el nn p =>
        simp only [conformsWith] at h ⊢
        exact allConform_dropT s b el xs (by simpa [noTypenameB] using hn) h
      | named n nn p => simpa [conformsWith] using h
    | t, .map e kvs, hn, h => by
      simp only [conformsWith] at h ⊢
      have hl : leafName { typenameKey := true, single := b } t = leafName { typenameKey := false, single := b } t := by
        cases t <;> rfl
      rw [← hl]
      cases hln : leafName { typenameKey := true, single := b } t with
      | none => simp [hln] at h
      | some n =>
        simp only [hln] at h ⊢
        cases hd : s.type? n with
        | none => simp [hd] at h
        | some d =>
          simp only [hd] at h ⊢
          by_cases hk : d.kind = .inputObject
          · simp only [hk, if_true, Bool.and_eq_true] at h ⊢
            exact ⟨fieldsDeclared_dropT s b d.fields kvs (by simpa [noTypenameB] using hn) h.1, h.2⟩
          · simpa [hk] using h
    | t, .bool x, _, h => by
      simp only [conformsWith] at h ⊢
      have hl : leafName { typenameKey := true, single := b } t = leafName { typenameKey := false, single := b } t := by
        cases t <;> rfl
      rw [← hl]; exact h
    | t, .int k x, _, h => by
      simp only [conformsWith] at h ⊢
      have hl : leafName { typenameKey := true, single := b } t = leafName { typenameKey := false, single := b } t := by
        cases t <;> rfl
      rw [← hl]; exact h
    | t, .uint k x, _, h => by
      simp only [conformsWith] at h ⊢
      have hl : leafName { typenameKey := true, single := b } t = leafName { typenameKey := false, single := b } t := by
        cases t <;> rfl
      rw [← hl]; exact h
    | t, .float k x, _, h => by
      simp only [conformsWith] at h ⊢
      have hl : leafName { typenameKey := true, single := b } t = leafName { typenameKey := false, single := b } t := by
        cases t <;> rfl
      rw [← hl]; exact h
    | t, .jsonNumber x, _, h => by
      simp only [conformsWith] at h ⊢
      have hl : leafName { typenameKey := true, single := b } t = leafName { typenameKey := false, single := b } t := by
        cases t <;> rfl
      rw [← hl]; exact h
    | t, .str x, _, h => by
      simp only [conformsWith] at h ⊢
      have hl : leafName { typenameKey := true, single := b } t = leafName { typenameKey := false, single := b } t := by
        cases t <;> rfl
      rw [← hl]; exact h
  theorem allConform_dropT (s : Schema) (b : Bool) (el : GType) : (xs : GoVals) → noTypenameItemsB xs = true →
      allConform { typenameKey := true, single := b } s el xs = true → allConform { typenameKey := false, single := b } s el xs = true
    | .nil, _, _ => by simp [allConform]
    | .cons v r, hn, h => by
      simp only [noTypenameItemsB, Bool.and_eq_true] at hn
      simp only [allConform, Bool.and_eq_true] at h ⊢
      exact ⟨conforms_dropT s b el v hn.1 h.1, allConform_dropT s b el r hn.2 h.2⟩
  theorem fieldsDeclared_dropT (s : Schema) (b : Bool) (fields : List FieldDef) : (kvs : GoFields) → noTypenameFieldsB kvs = true →
      fieldsDeclared { typenameKey := true, single := b } s fields kvs = true →
      fieldsDeclared { typenameKey := false, single := b } s fields kvs = true
    | .nil, _, _ => by simp [fieldsDeclared]
    | .cons k v r, hn, h => by
      simp only [noTypenameFieldsB, Bool.and_eq_true, decide_eq_true_eq] at hn
      simp only [fieldsDeclared, Bool.and_eq_true] at h ⊢
      refine ⟨?_, fieldsDeclared_dropT s b fields r hn.2 h.2⟩
      cases hf : fields.find? (fun f => f.name = k) with
      | some fd => simp only [hf] at h ⊢; exact conforms_dropT s b fd.type v hn.1.2 h.1
      | none => simp only [hf] at h; simp [hn.1.1] at h
end

/- ---------- coercion adds no `__typename` key ---------- -/

theorem noTypenameFields_lookup : ∀ (kvs : GoFields) (k : Bytes) (x : GoVal),
    noTypenameFieldsB kvs = true → kvs.lookup k = some x → noTypenameB x = true ∧ k ≠ str "__typename"
  | .nil, _, _, _, h => by simp [GoFields.lookup] at h
  | .cons a w r, k, x, hs, h => by
    simp only [noTypenameFieldsB, Bool.and_eq_true, decide_eq_true_eq] at hs
    simp only [GoFields.lookup] at h
    split at h
    · rename_i e; cases h; exact ⟨hs.1.2, by rw [← e]; exact hs.1.1⟩
    · exact noTypenameFields_lookup r k x hs.2 h

theorem noTypenameFields_set : ∀ (kvs : GoFields) (k : Bytes) (x : GoVal),
    noTypenameFieldsB kvs = true → noTypenameB x = true → k ≠ str "__typename" → noTypenameFieldsB (kvs.set k x) = true
  | .nil, k, x, _, hx, hk => by simp [GoFields.set, noTypenameFieldsB, hx, hk]
  | .cons a w r, k, x, hs, hx, hk => by
    simp only [noTypenameFieldsB, Bool.and_eq_true, decide_eq_true_eq] at hs
    simp only [GoFields.set]
    split
    · simp [noTypenameFieldsB, hx, hs.2, hs.1.1]
    · simp [noTypenameFieldsB, hs.1.1, hs.1.2, noTypenameFields_set r k x hs.2 hx hk]

theorem listLoop_noTypename (f : Path → GoVal → Res GoVal) (path : Path) (b1 b2 : Bool)
    (hf : ∀ p x r, f p x = .ok r → noTypenameB x = true → noTypenameB r = true) :
    ∀ (xs xs' : GoVals) (i : Nat), listLoop f path b1 b2 i xs = .ok xs' → noTypenameItemsB xs = true → noTypenameItemsB xs' = true
  | .nil, xs', i, h, _ => by simp only [listLoop] at h; cases h; rfl
  | .cons x rest, xs', i, h, hn => by
    simp only [noTypenameItemsB, Bool.and_eq_true] at hn
    simp only [listLoop] at h
    split at h
    · simp at h
    · cases hfx : f (path ++ [.idx i]) x with
      | ok ret =>
        simp only [hfx] at h
        cases hl : listLoop f path b1 b2 (i + 1) rest with
        | ok rest' =>
          simp only [hl] at h; cases h
          simp [noTypenameItemsB, hf _ _ _ hfx hn.1, listLoop_noTypename f path b1 b2 hf rest rest' (i + 1) hl hn.2]
        | err m p a => simp [hl] at h
        | panic m => simp [hl] at h
        | outOfFuel => simp [hl] at h
      | err m p a => simp [hfx] at h
      | panic m => simp [hfx] at h
      | outOfFuel => simp [hfx] at h

theorem fieldLoop_noTypename (f : Path → GType → GoVal → Res GoVal) (path : Path)
    (hf : ∀ p t x r, f p t x = .ok r → noTypenameB x = true → noTypenameB r = true) :
    ∀ (fields : List FieldDef) (elem : GoType) (kvs : GoFields) (elem' : GoType) (kvs' : GoFields),
      fieldLoop f path fields elem kvs = .ok (elem', kvs') → noTypenameFieldsB kvs = true → noTypenameFieldsB kvs' = true
  | [], elem, kvs, elem', kvs', h, hn => by simp only [fieldLoop] at h; cases h; exact hn
  | fd :: rest, elem, kvs, elem', kvs', h, hn => by
    have ih := fun e2 k2 => fieldLoop_noTypename f path hf rest e2 k2 elem' kvs'
    simp only [fieldLoop] at h
    cases hl : kvs.lookup fd.name with
    | none =>
      simp only [hl] at h
      by_cases hnn : fd.type.nonNull = true
      · simp only [hnn, if_true] at h
        cases hdf : fd.default with
        | none => simp [hdf] at h
        | some dv =>
          simp only [hdf] at h
          split at h
          · exact ih _ _ h hn
          · simp at h
      · simp only [hnn, Bool.false_eq_true, if_false] at h
        exact ih _ _ h hn
    | some x =>
      simp only [hl] at h
      obtain ⟨hx, hk⟩ := noTypenameFields_lookup kvs fd.name x hn hl
      split at h
      · split at h
        · simp at h
        · exact ih _ _ h hn
      · cases hr : f (path ++ [.name fd.name]) fd.type x with
        | ok cval =>
          simp only [hr] at h
          cases hty : cval.type? with
          | none => simp [hty] at h
          | some t =>
            simp only [hty] at h
            exact ih _ _ h (noTypenameFields_set kvs fd.name cval hn (hf _ _ _ _ hr hx) hk)
        | err m p a => simp [hr] at h
        | panic m => simp [hr] at h
        | outOfFuel => simp [hr] at h

/-- the returned value has the key `__typename` in some object only if the argument had it -/
theorem validateVarType_noTypename (s : Schema) :
    ∀ (fuel : Nat) (path : Path) (typ : GType) (val ret : GoVal),
      validateVarType s fuel path typ val = .ok ret → noTypenameB val = true → noTypenameB ret = true
  | 0, _, _, _, _, h, _ => by simp [validateVarType] at h
  | fuel + 1, path, typ, val, ret, h, hn => by
    have ih := validateVarType_noTypename s fuel
    cases typ with
    | list e nn p =>
      by_cases hvn : val = .nil
      · subst hvn; rw [vvt_list_nil] at h; cases h; rfl
      by_cases hsl : ∃ t xs, val = GoVal.slice t xs
      · obtain ⟨t, xs, rfl⟩ := hsl
        simp only [validateVarType, GoVal.isNil, Bool.false_eq_true, if_false] at h
        cases hr : listLoop (fun p x => validateVarType s fuel p e x) path (decide (t = .iface)) e.nonNull 0 xs with
        | ok xs' =>
          simp only [hr] at h; cases h
          simpa [noTypenameB] using listLoop_noTypename _ path _ _ (fun p x r h1 h2 => ih p e x r h1 h2) xs xs' 0 hr (by simpa [noTypenameB] using hn)
        | err m p a => simp [hr] at h
        | panic m => simp [hr] at h
        | outOfFuel => simp [hr] at h
      · have hns : ∀ t xs, val ≠ GoVal.slice t xs := fun t xs h => hsl ⟨t, xs, h⟩
        rw [vvt_list_nonslice s fuel path e nn p val hvn hns] at h
        cases hty : val.type? with
        | none => simp [hty] at h
        | some t =>
          simp only [hty] at h
          cases hr : validateVarType s fuel (path ++ [.idx 0]) e val with
          | ok r =>
            simp only [hr] at h; cases h
            simp [noTypenameB, noTypenameItemsB, ih _ _ _ _ hr hn]
          | err m p a => simp [hr] at h
          | panic m => simp [hr] at h
          | outOfFuel => simp [hr] at h
    | named n nn p =>
      simp only [validateVarType] at h
      cases hd : s.type? n with
      | none => simp [hd] at h
      | some d =>
        simp only [hd] at h
        split at h
        · cases h; exact hn
        · cases hk : d.kind <;> simp only [hk] at h
          case scalar =>
            cases hty : val.type? with
            | none => simp [hty] at h
            | some t =>
              simp only [hty] at h
              split at h <;> first | (cases h; exact hn) | simp at h
          case enum =>
            cases hty : val.type? with
            | none => simp [hty] at h
            | some t =>
              simp only [hty] at h
              split at h
              · simp at h
              · split at h <;> first | (cases h; exact hn) | simp at h
          case inputObject =>
            cases val with
            | map elem kvs =>
              simp only [] at h
              cases hu : unknownKeys d.fields kvs with
              | cons k others => simp [hu] at h
              | nil =>
                simp only [hu] at h
                cases hr : fieldLoop (fun p t x => validateVarType s fuel p t x) path d.fields elem kvs with
                | ok pr =>
                  obtain ⟨e', kvs'⟩ := pr
                  simp only [hr] at h; cases h
                  simpa [noTypenameB] using fieldLoop_noTypename _ path (fun p t x r h1 h2 => ih p t x r h1 h2) d.fields elem kvs e' kvs' hr (by simpa [noTypenameB] using hn)
                | err m p a => simp [hr] at h
                | panic m => simp [hr] at h
                | outOfFuel => simp [hr] at h
            | _ => simp at h
          all_goals simp at h

theorem jsonNumberPre_noTypename {typ : GType} {val rv : GoVal} (hn : noTypenameB val = true)
    (h : jsonNumberPre typ val = .ok rv) : noTypenameB rv = true := by
  unfold jsonNumberPre at h
  cases val with
  | jsonNumber t =>
    simp only [] at h
    split at h
    · split at h <;> first | (cases h; rfl) | simp at h
    · split at h
      · split at h <;> first | (cases h; rfl) | simp at h
      · cases h; rfl
  | _ => simp only [] at h; cases h; exact hn

theorem coerceSupplied_noTypename {s : Schema} {op : OperationDef} {v : VarDef} {acc c : GoFields} {x : GoVal}
    (hn : noTypenameB x = true) (h : coerceSupplied s op v acc x = .ok c) :
    ∃ y, c = acc.set v.var y ∧ noTypenameB y = true := by
  unfold coerceSupplied at h
  split at h
  · split at h
    · simp at h
    · cases h; exact ⟨.nil, rfl, rfl⟩
  · cases hj : jsonNumberPre v.type x with
    | error m => simp [hj] at h
    | ok rv =>
      simp only [hj] at h
      cases hr : validateVarType s (fuelFor s op rv) (varPath v) v.type rv with
      | ok rval =>
        simp only [hr] at h
        split at h
        · simp at h
        · cases h
          exact ⟨rval, rfl, validateVarType_noTypename s _ _ _ _ _ hr (jsonNumberPre_noTypename hn hj)⟩
      | err m p a => simp [hr] at h
      | panic m => simp [hr] at h
      | outOfFuel => simp [hr] at h

end Gql
