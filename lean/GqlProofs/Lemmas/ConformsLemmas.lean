import GqlProofs.Lemmas.VarsLemmas
/- helper lemmas for C14_conforms_partial / C14_rejects_partial (scalar- and enum-based types) -/
namespace Gql
open Gql.Strconv

/-- conformance with every legacy leniency (what a SUPPLIED value has to satisfy) -/
abbrev CL (s : Schema) (t : GType) (v : GoVal) : Prop := conformsWith .legacy s t v = true
/-- conformance with the five leniencies other than `flatNested` (what a RESULT satisfies since
    the repair of R14d) -/
abbrev CR (s : Schema) (t : GType) (v : GoVal) : Prop := conformsWith .afterR14d s t v = true

theorem leafName_legacy (t : GType) : leafName .legacy t = some t.name := by
  cases t <;> simp [leafName, Leniency.legacy, GType.name]

/-- for a value that is neither null nor a list, only the innermost name of the type matters -/
theorem conformsWith_flat (s : Schema) (t t' : GType) (v : GoVal) (hn : t.name = t'.name)
    (h1 : v ≠ .nil) (h2 : ∀ e xs, v ≠ .slice e xs) :
    conformsWith .legacy s t v = conformsWith .legacy s t' v := by
  cases v with
  | nil => exact absurd rfl h1
  | slice e xs => exact absurd rfl (h2 e xs)
  | _ => simp [conformsWith, leafName_legacy, hn]

theorem str_lt : Gql.str "<" = [60] := by rfl

theorem lower_eq_60 {d : Nat} (h : lower 60 = lower d) : d = 60 := by
  unfold lower at h
  split at h <;> split at h <;> omega

theorem equalFoldAscii_lt (r t : Bytes) (fuel : Nat) (ht : t.head? ≠ some 60) :
    equalFoldAscii (60 :: r) t fuel = false := by
  cases fuel with
  | zero => simp [equalFoldAscii]
  | succ fuel =>
    unfold equalFoldAscii
    cases t with
    | nil => simp
    | cons d t' =>
      simp only [List.head?_cons, ne_eq, Option.some.injEq] at ht
      have : ¬ (lower 60 = lower d) := fun h => ht (lower_eq_60 h)
      simp [this]

/-- enum value names do not start with `<` (they are Names) -/
def EnumNamesPlain (s : Schema) : Prop :=
  ∀ n d, s.type? n = some d → ∀ ev ∈ d.enumValues, ev.name.head? ≠ some 60

set_option linter.unusedSimpArgs false in
theorem GoVal.float_type? (is32 : Bool) (t : Bytes) :
    (GoVal.float is32 t).type? = some .float32 ∨ (GoVal.float is32 t).type? = some .float64 := by
  cases is32 <;> simp [GoVal.type?]

set_option linter.unusedSimpArgs false in
theorem scalar_accept_conforms (s : Schema) (n : Name) (nn : Bool) (p : Pos) (d : Definition)
    (hd : s.type? n = some d) (hk : d.kind = .scalar) (val : GoVal) (t : GoType) (hty : val.type? = some t)
    (h : builtinScalarAccepts n val t.kind ≠ some false) : CL s (.named n nn p) val := by
  unfold CL
  simp only [builtinScalarAccepts] at h
  cases hb : builtinOf n with
  | none =>
    cases val <;> simp [conformsWith, leafName, leafOK, hd, hk, isCustomScalar, isBuiltinScalarName, hb, GoVal.type?] at hty ⊢
  | some b =>
    simp only [hb] at h
    cases val with
    | float is32 text =>
      cases is32 <;> cases b <;> simp only [GoVal.type?, Option.some.injEq, reduceCtorEq] at hty <;> subst hty <;>
      simp_all [conformsWith, leafName, leafOK, isCustomScalar, isBuiltinScalarName,
        intOK, floatOK, stringOK, boolOK, idOK, Leniency.legacy, isIntLikeKind, isFloatKind,
        isValidIntString, isValidFloatString, GoType.kind, GoVal.stringContent]
    | _ =>
      cases b <;> simp only [GoVal.type?, Option.some.injEq, reduceCtorEq] at hty <;> subst hty <;>
      simp_all [conformsWith, leafName, leafOK, isCustomScalar, isBuiltinScalarName,
        intOK, floatOK, stringOK, boolOK, idOK, Leniency.legacy, isIntLikeKind, isFloatKind,
        isValidIntString, isValidFloatString, GoType.kind, GoVal.stringContent]

theorem any_equalFold_lt_false (r : Bytes) (fuel : Nat) (evs : List EnumValDef) (h : ∀ ev ∈ evs, ev.name.head? ≠ some 60) :
    evs.any (fun ev => equalFoldAscii (60 :: r) ev.name fuel) = false := by
  simp only [List.any_eq_false]
  intro ev hev
  simp [equalFoldAscii_lt r ev.name fuel (h ev hev)]

theorem enum_accept_conforms (s : Schema) (hplain : EnumNamesPlain s) (n : Name) (nn : Bool) (p : Pos) (d : Definition)
    (hd : s.type? n = some d) (hk : d.kind = .enum) (val : GoVal) (t : GoType) (hty : val.type? = some t)
    (hkind : (isIntLikeKind t.kind || decide (t.kind = .string)) = true)
    (hany : d.enumValues.any (fun ev => equalFoldAscii val.reflectString ev.name) = true) :
    CL s (.named n nn p) val := by
  unfold CL
  have hpl := hplain n d hd
  cases val with
  | str x =>
    simp only [GoVal.reflectString] at hany
    simp [conformsWith, leafName, leafOK, hd, hk, enumOK, enumNameOK, Leniency.legacy, hany]
  | jsonNumber x =>
    simp only [GoVal.reflectString] at hany
    simp [conformsWith, leafName, leafOK, hd, hk, enumOK, enumNameOK, Leniency.legacy, hany]
  | int k i =>
    simp only [GoVal.reflectString, GoVal.type?] at hany
    have e : (str "<" ++ str (GoType.int k).name ++ str " Value>") = 60 :: (str (GoType.int k).name ++ str " Value>") := by rfl
    rw [e, any_equalFold_lt_false _ _ _ hpl] at hany
    simp at hany
  | float is32 x =>
    cases is32 <;> simp only [GoVal.type?, Option.some.injEq] at hty <;> subst hty <;>
      simp [isIntLikeKind, GoType.kind] at hkind
  | _ =>
    simp only [GoVal.type?, Option.some.injEq, reduceCtorEq] at hty <;> (try subst hty) <;>
      simp [isIntLikeKind, GoType.kind] at hkind

end Gql

namespace Gql
open Gql.Strconv

/- ---------- the representation invariant `wfB` ---------- -/

mutual
  theorem safe_wf : (v : GoVal) → safeB v = true → wfB v = true
    | .slice e xs, h => by
      simp only [safeB] at h
      simpa [wfB] using safeItems_wf _ xs h
    | .map e kvs, h => by
      simp only [safeB, Bool.and_eq_true, decide_eq_true_eq] at h
      obtain ⟨he, hk⟩ := h
      subst he
      simpa [wfB] using safeFields_wf kvs hk
    | .nil, _ => rfl
    | .bool _, _ => rfl
    | .int _ _, _ => rfl
    | .uint _ _, _ => rfl
    | .float _ _, _ => rfl
    | .jsonNumber _, _ => rfl
    | .str _, _ => rfl
  theorem safeItems_wf (b : Bool) : (xs : GoVals) → safeItemsB b xs = true → wfItemsB b xs = true
    | .nil, _ => rfl
    | .cons v r, h => by
      simp only [safeItemsB, Bool.and_eq_true] at h
      simp only [wfItemsB, Bool.and_eq_true]
      exact ⟨⟨h.1.1, safe_wf v h.1.2⟩, safeItems_wf b r h.2⟩
  theorem safeFields_wf : (kvs : GoFields) → safeFieldsB kvs = true → wfFieldsB true kvs = true
    | .nil, _ => rfl
    | .cons _ v r, h => by
      simp only [safeFieldsB, Bool.and_eq_true] at h
      simp only [wfFieldsB, Bool.and_eq_true, Bool.true_or, true_and]
      exact ⟨safe_wf v h.1, safeFields_wf r h.2⟩
end

theorem wfFields_lookup (b : Bool) : ∀ (kvs : GoFields) (k : Bytes) (x : GoVal),
    wfFieldsB b kvs = true → kvs.lookup k = some x → wfB x = true
  | .nil, _, _, _, h => by simp [GoFields.lookup] at h
  | .cons a w r, k, x, hs, h => by
    simp only [wfFieldsB, Bool.and_eq_true] at hs
    simp only [GoFields.lookup] at h
    split at h
    · cases h; exact hs.1.2
    · exact wfFields_lookup b r k x hs.2 h

/-- the list loop calls `f` on a null item only when the element type is nullable -/
theorem listLoop_nil_nullable {b1 b2 : Bool} {x : GoVal} (h1 : (b1 || !x.isNil) = true)
    (hcond : ¬ (b1 && b2 && x.isNil) = true) : x = .nil → b2 = false := by
  intro hx
  subst hx
  cases b1 <;> cases b2 <;> simp_all [GoVal.isNil]

theorem jsonNumberPre_wf {typ : GType} {val rv : GoVal} (hs : wfB val = true)
    (h : jsonNumberPre typ val = .ok rv) : wfB rv = true := by
  unfold jsonNumberPre at h
  cases val with
  | jsonNumber t =>
    simp only [] at h
    split at h
    · split at h <;> first | (cases h; rfl) | simp at h
    · split at h
      · split at h <;> first | (cases h; rfl) | simp at h
      · cases h; rfl
  | _ => simp only [] at h; cases h; exact hs

theorem jsonNumberPre_ne_nil {typ : GType} {val rv : GoVal} (hn : val ≠ .nil)
    (h : jsonNumberPre typ val = .ok rv) : rv ≠ .nil := by
  unfold jsonNumberPre at h
  cases val with
  | jsonNumber t =>
    simp only [] at h
    split at h
    · split at h <;> first | (cases h; simp) | simp at h
    · split at h
      · split at h <;> first | (cases h; simp) | simp at h
      · cases h; simp
  | nil => exact absurd rfl hn
  | _ => simp only [] at h; cases h; exact hn

theorem suppliedValue_wf {vars : VarMap} {v : VarDef} {x : GoVal}
    (hvars : wfFieldsB true vars = true)
    (h : suppliedValue vars v = .ok (some x)) : wfB x = true := by
  unfold suppliedValue at h
  cases hl : vars.lookup v.var with
  | some y => simp only [hl] at h; cases h; exact wfFields_lookup true vars v.var _ hvars hl
  | none =>
    simp only [hl] at h
    cases hdv : v.default with
    | none => simp only [hdv] at h; split at h <;> simp at h
    | some dv =>
      simp only [hdv] at h
      cases hvv : valueValueConst dv with
      | ok y => simp only [hvv] at h; cases h; exact safe_wf _ (valueValueConst_safe dv _ hvv)
      | err e => simp [hvv] at h
      | diverge => simp [hvv] at h

/- ---------- on a scalar / enum NAMED type `flatNested` is irrelevant ---------- -/

theorem leafOK_afterR14d (s : Schema) (n : Name) (v : GoVal) : leafOK .afterR14d s n v = leafOK .legacy s n v := by
  cases v <;> rfl

theorem conformsWith_named_afterR14d (s : Schema) (n : Name) (nn : Bool) (p : Pos) (d : Definition)
    (hd : s.type? n = some d) (hk : d.kind = .scalar ∨ d.kind = .enum) (v : GoVal) :
    conformsWith .afterR14d s (.named n nn p) v = conformsWith .legacy s (.named n nn p) v := by
  have hno : ¬ d.kind = .inputObject := by rcases hk with h | h <;> simp [h]
  cases v <;> simp [conformsWith, leafName, leafOK_afterR14d, hd, hno]

theorem storeElem_eq_ret (ret upd : GoVal) : storeElem ret upd = ret := rfl

/-- the type's named type is a scalar or an enum (any list depth around it) -/
def LeafTyped (s : Schema) (t : GType) : Prop :=
  ∃ d, s.type? t.name = some d ∧ (d.kind = .scalar ∨ d.kind = .enum)

/-- what a successful `validateVarType` call guarantees on scalar-based and enum-based types: the
    RETURNED value conforms with list nesting exact (`CR`), the ARGUMENT conformed up to
    single-value-to-list coercion (`CL`) -/
def ConfTriple (s : Schema) (t : GType) (val : GoVal) : Res (GoVal × GoVal) → Prop
  | .ok (ret, _) => CR s t ret ∧ CL s t val
  | _ => True

theorem listLoop_conforms (s : Schema) (e : GType) (f : Path → GoVal → Res (GoVal × GoVal)) (path : Path) (b1 b2 : Bool)
    (hf : ∀ p x, wfB x = true → (x = .nil → b2 = false) → ConfTriple s e x (f p x)) :
    ∀ (xs xs' : GoVals) (i : Nat), wfItemsB b1 xs = true → listLoop f path b1 b2 i xs = .ok xs' →
      allConform .afterR14d s e xs' = true ∧ allConform .legacy s e xs = true
  | .nil, xs', i, _, h => by simp only [listLoop] at h; cases h; simp [allConform]
  | .cons x rest, xs', i, hw, h => by
    simp only [wfItemsB, Bool.and_eq_true] at hw
    simp only [listLoop] at h
    split at h
    · simp at h
    · rename_i hcond
      have hx := hf (path ++ [.idx i]) x hw.1.2 (listLoop_nil_nullable hw.1.1 hcond)
      cases hfx : f (path ++ [.idx i]) x with
      | ok pr =>
        obtain ⟨ret, upd⟩ := pr
        simp only [hfx, ConfTriple] at hx
        simp only [hfx] at h
        cases hl : listLoop f path b1 b2 (i + 1) rest with
        | ok rest' =>
          simp only [hl] at h; cases h
          obtain ⟨a, b⟩ := listLoop_conforms s e f path b1 b2 hf rest rest' (i + 1) hw.2 hl
          simp [allConform, storeElem_eq_ret, hx.1, a, b, hx.2]
        | err m p a => simp [hl] at h
        | panic m => simp [hl] at h
        | outOfFuel => simp [hl] at h
      | err m p a => simp [hfx] at h
      | panic m => simp [hfx] at h
      | outOfFuel => simp [hfx] at h

/-- the list branch on a value that is neither null nor a slice: the single-value-to-list coercion -/
theorem vvt_list_nonslice (s : Schema) (fuel : Nat) (path : Path) (e : GType) (nn : Bool) (p : Pos) (val : GoVal)
    (hn : val ≠ .nil) (h : ∀ t xs, val ≠ .slice t xs) :
    validateVarType s (fuel + 1) path (.list e nn p) val =
      (match val.type? with
       | none => .panic typeOnZeroMsg
       | some t =>
         match validateVarType s fuel (path ++ [.idx 0]) e val with
         | .ok (ret, upd) =>
           .ok (.slice (storeElemType t (.cons val .nil) (.cons (storeElem ret upd) .nil)) (.cons (storeElem ret upd) .nil), upd)
         | .err m p a => .err m p a
         | .panic m => .panic m
         | .outOfFuel => .outOfFuel) := by
  cases val <;> first | exact absurd rfl hn | exact absurd rfl (h _ _) | rfl

/-- since the repair of R14a a null where a list is expected is returned as it is -/
theorem vvt_list_nil (s : Schema) (fuel : Nat) (path : Path) (e : GType) (nn : Bool) (p : Pos) :
    validateVarType s (fuel + 1) path (.list e nn p) .nil = .ok (.nil, .nil) := by
  rfl

theorem validateVarType_conforms (s : Schema) (hplain : EnumNamesPlain s) :
    ∀ (fuel : Nat) (path : Path) (typ : GType) (val : GoVal),
      LeafTyped s typ → wfB val = true → (val = .nil → typ.nonNull = false) →
      ConfTriple s typ val (validateVarType s fuel path typ val)
  | 0, _, _, _, _, _, _ => by simp [validateVarType, ConfTriple]
  | fuel + 1, path, typ, val, ht, hw, hnn => by
    have ih := validateVarType_conforms s hplain fuel
    cases typ with
    | list e nn p =>
      have hte : LeafTyped s e := by simpa [LeafTyped, GType.name] using ht
      by_cases hvn : val = .nil
      · subst hvn
        have := hnn rfl
        simp only [GType.nonNull] at this
        subst this
        rw [vvt_list_nil]
        simp [ConfTriple, CL, CR, conformsWith, GType.nonNull]
      by_cases hsl : ∃ t xs, val = GoVal.slice t xs
      · obtain ⟨t, xs, rfl⟩ := hsl
        simp only [validateVarType, GoVal.isNil, Bool.and_false, Bool.false_eq_true, if_false]
        have hxs : wfItemsB (decide (t = .iface)) xs = true := by simpa [wfB] using hw
        cases hr : listLoop (fun p x => validateVarType s fuel p e x) path (decide (t = .iface)) e.nonNull 0 xs with
        | ok xs' =>
          obtain ⟨a, b⟩ := listLoop_conforms s e _ path _ _ (fun p x h1 h2 => ih p e x hte h1 h2) xs xs' 0 hxs hr
          simp [ConfTriple, CL, CR, conformsWith, a, b]
        | err m p a => simp [ConfTriple]
        | panic m => simp [ConfTriple]
        | outOfFuel => simp [ConfTriple]
      · have hns : ∀ t xs, val ≠ GoVal.slice t xs := fun t xs h => hsl ⟨t, xs, h⟩
        rw [vvt_list_nonslice s fuel path e nn p val hvn hns]
        cases hty : val.type? with
        | none => simp [ConfTriple]
        | some t =>
          have hg := ih (path ++ [.idx 0]) e val hte hw (fun h => absurd h hvn)
          revert hg
          simp only []
          cases validateVarType s fuel (path ++ [.idx 0]) e val with
          | ok pr =>
            obtain ⟨ret, upd⟩ := pr
            intro hg
            simp only [ConfTriple] at hg
            obtain ⟨h1, h3⟩ := hg
            have hflat : conformsWith .legacy s (.list e nn p) val = conformsWith .legacy s e val :=
              conformsWith_flat s (.list e nn p) e val (by simp [GType.name]) hvn hns
            refine ⟨?_, ?_⟩
            · simp [CR, conformsWith, allConform, storeElem_eq_ret, h1]
            · simp only [CL, hflat]; exact h3
          | err m p a => simp [ConfTriple]
          | panic m => simp [ConfTriple]
          | outOfFuel => simp [ConfTriple]
    | named n nn p =>
      obtain ⟨d, hd, hk⟩ := ht
      simp only [GType.name] at hd
      simp only [validateVarType, hd]
      by_cases hnil : (!nn && val.isNil) = true
      · simp only [hnil, if_true, ConfTriple, CL, CR]
        simp only [Bool.and_eq_true, Bool.not_eq_true'] at hnil
        have : val = .nil := (GoVal.isNil_iff val).mp hnil.2
        subst this
        simp [conformsWith, GType.nonNull, hnil.1]
      · simp only [hnil]
        have hcr : CL s (.named n nn p) val → CR s (.named n nn p) val := by
          intro h; simp only [CR, conformsWith_named_afterR14d s n nn p d hd hk val]; exact h
        cases hty : val.type? with
        | none =>
          rcases hk with hk | hk <;> simp [hk, ConfTriple]
        | some t =>
          rcases hk with hk | hk
          · simp only [hk]
            cases hacc : builtinScalarAccepts n val t.kind with
            | none =>
              have := scalar_accept_conforms s n nn p d hd hk val t hty (by simp [hacc])
              exact ⟨hcr this, this⟩
            | some b =>
              cases b
              · simp [ConfTriple]
              · have := scalar_accept_conforms s n nn p d hd hk val t hty (by simp [hacc])
                exact ⟨hcr this, this⟩
          · simp only [hk]
            by_cases hkind : (isIntLikeKind t.kind || decide (t.kind = Kind.string)) = true
            · simp only [hkind, Bool.not_true, Bool.false_eq_true, if_false]
              by_cases hany : (d.enumValues.any fun ev => equalFoldAscii val.reflectString ev.name) = true
              · simp only [hany, if_true]
                have := enum_accept_conforms s hplain n nn p d hd hk val t hty hkind hany
                exact ⟨hcr this, this⟩
              · simp [hany, ConfTriple]
            · simp [hkind, ConfTriple]

end Gql

namespace Gql
open Gql.Strconv

theorem lookup_mem {α β} [BEq α] [LawfulBEq α] {l : List (α × β)} {k : α} {v : β} (h : l.lookup k = some v) : (k, v) ∈ l := by
  induction l with
  | nil => simp at h
  | cons hd tl ih =>
    obtain ⟨a, b⟩ := hd
    simp only [List.lookup] at h
    split at h
    · rename_i heq; simp at heq; cases h; subst heq; simp
    · simp [ih h]

theorem builtinOf_Int : builtinOf (str "Int") = some .int := by decide
theorem builtinOf_Float : builtinOf (str "Float") = some .float := by decide

/-- the `json.Number` pre-conversion maps a leniently conforming converted value back to a
    leniently conforming supplied value -/
theorem jsonNumberPre_conforms_back (s : Schema) (typ : GType) (x rv : GoVal)
    (h : jsonNumberPre typ x = .ok rv) (hc : CL s typ rv) : CL s typ x := by
  unfold jsonNumberPre at h
  cases x with
  | jsonNumber t =>
    simp only [] at h
    cases typ with
    | list e nn p =>
      have h1 : ¬ ((GType.list e nn p).namedType = str "Int") := by simp [GType.namedType]; decide
      have h2 : ¬ ((GType.list e nn p).namedType = str "Float") := by simp [GType.namedType]; decide
      simp only [h1, h2, if_false] at h
      cases h; exact hc
    | named n nn p =>
      simp only [GType.namedType] at h
      by_cases h1 : n = str "Int"
      · subst h1
        simp only [if_true] at h
        cases hp : parseInt t with
        | ok i =>
          simp only [hp] at h; cases h
          simp only [CL, conformsWith, leafName, leafOK] at hc ⊢
          cases hd : s.type? (str "Int") with
          | none => simp [hd] at hc
          | some d =>
            simp only [hd] at hc ⊢
            cases hk : d.kind <;> simp only [hk] at hc ⊢ <;>
              simp_all [builtinOf_Int, intOK, enumOK, parseIntOk]
        | «syntax» => simp [hp] at h
        | range c => simp [hp] at h
      · simp only [h1, if_false] at h
        by_cases h2 : n = str "Float"
        · subst h2
          simp only [if_true] at h
          cases hp : parseFloat t with
          | ok =>
            simp only [hp] at h; cases h
            simp only [CL, conformsWith, leafName, leafOK] at hc ⊢
            cases hd : s.type? (str "Float") with
            | none => simp [hd] at hc
            | some d =>
              simp only [hd] at hc ⊢
              cases hk : d.kind <;> simp only [hk] at hc ⊢ <;>
                simp_all [builtinOf_Float, floatOK, enumOK, parseFloatOk]
          | «syntax» => simp [hp] at h
          | range c => simp [hp] at h
        · simp only [h2, if_false] at h
          cases h; exact hc
  | _ => simp only [] at h; cases h; exact hc

/-- what one successful `coerceSupplied` stores, and what it implies about the supplied value -/
theorem coerceSupplied_conforms (s : Schema) (hplain : EnumNamesPlain s) (op : OperationDef) (v : VarDef)
    (acc c : GoFields) (x : GoVal) (ht : LeafTyped s v.type) (hwf : wfB x = true)
    (h : coerceSupplied s op v acc x = .ok c) :
    (∃ y, c = acc.set v.var y ∧ CR s v.type y) ∧ CL s v.type x := by
  unfold coerceSupplied at h
  by_cases hn : x.isNil = true
  · have hx : x = .nil := (GoVal.isNil_iff x).mp hn
    subst hx
    simp only [GoVal.isNil, if_true] at h
    split at h
    · simp at h
    · rename_i hnn
      cases h
      have : conformsWith .legacy s v.type .nil = true := by
        cases hv : v.type <;> simp_all [conformsWith, GType.nonNull]
      have this' : conformsWith .afterR14d s v.type .nil = true := by
        cases hv : v.type <;> simp_all [conformsWith, GType.nonNull]
      exact ⟨⟨.nil, rfl, this'⟩, this⟩
  · simp only [hn] at h
    cases hj : jsonNumberPre v.type x with
    | error m => simp [hj] at h
    | ok rv =>
      simp only [hj] at h
      have hrv : rv ≠ .nil := jsonNumberPre_ne_nil (fun e => hn ((GoVal.isNil_iff x).mpr e)) hj
      have hg := validateVarType_conforms s hplain (fuelFor s op rv) (varPath v) v.type rv ht
        (jsonNumberPre_wf hwf hj) (fun e => absurd e hrv)
      revert hg h
      cases validateVarType s (fuelFor s op rv) (varPath v) v.type rv with
      | ok pr =>
        obtain ⟨rval, upd⟩ := pr
        intro h hg
        simp only [ConfTriple] at hg
        by_cases hr : rval.isNil = true
        · simp [hr] at h
        · simp [hr] at h
          subst h
          exact ⟨⟨rval, rfl, hg.1⟩, jsonNumberPre_conforms_back s v.type x rv hj hg.2⟩
      | err m p a => intro h _; simp at h
      | panic m => intro h _; simp at h
      | outOfFuel => intro h _; simp at h

end Gql
