import GqlProofs.Lemmas.VarsLemmas
/- the fuel `coerce` supplies to `validateVarType` suffices: `outOfFuel` is never the outcome -/
namespace Gql
open Gql.Strconv

def NotFuel {α : Type} : Res α → Prop
  | .outOfFuel => False
  | _ => True

/- ---------- sizes ---------- -/

theorem GoFields.lookup_size : ∀ (kvs : GoFields) (k : Bytes) (x : GoVal), kvs.lookup k = some x → x.size < kvs.size
  | .nil, _, _, h => by simp [GoFields.lookup] at h
  | .cons a w r, k, x, h => by
    simp only [GoFields.lookup] at h
    simp only [GoFields.size]
    split at h
    · cases h; omega
    · have := GoFields.lookup_size r k x h; omega

theorem mul_step {a b K : Nat} (h : a < b) : a * K + K ≤ b * K := by
  have : (a + 1) * K ≤ b * K := Nat.mul_le_mul_right K h
  rw [Nat.succ_mul] at this
  exact this

theorem listLoop_fuel (f : Path → GoVal → Res GoVal) (path : Path) (b1 b2 : Bool) (n : Nat)
    (hf : ∀ p x, x.size < n → NotFuel (f p x)) :
    ∀ (xs : GoVals) (i : Nat), xs.size ≤ n → NotFuel (listLoop f path b1 b2 i xs)
  | .nil, i, _ => by simp [listLoop, NotFuel]
  | .cons x rest, i, hs => by
    simp only [GoVals.size] at hs
    simp only [listLoop]
    split
    · simp [NotFuel]
    · have hx := hf (path ++ [.idx i]) x (by omega)
      cases hfx : f (path ++ [.idx i]) x with
      | ok ret =>
        have ih := listLoop_fuel f path b1 b2 n hf rest (i + 1) (by omega)
        simp only []
        cases hl : listLoop f path b1 b2 (i + 1) rest with
        | ok rest' => simp [NotFuel]
        | err m p a => simp [NotFuel]
        | panic m => simp [NotFuel]
        | outOfFuel => simp [hl, NotFuel] at ih
      | err m p a => simp [NotFuel]
      | panic m => simp [NotFuel]
      | outOfFuel => simp [hfx, NotFuel] at hx

/-- the field loop looks every field up under ITS OWN name: with different field names the entries
    it meets are entries of the original map -/
theorem fieldLoop_fuel (f : Path → GType → GoVal → Res GoVal) (path : Path) (D n : Nat)
    (hf : ∀ p t x, t.depth ≤ D → x.size < n → NotFuel (f p t x)) :
    ∀ (fields : List FieldDef) (elem : GoType) (kvs : GoFields),
      (fields.map (·.name)).Nodup → (∀ fd ∈ fields, fd.type.depth ≤ D) →
      (∀ fd ∈ fields, ∀ x, kvs.lookup fd.name = some x → x.size < n) →
      NotFuel (fieldLoop f path fields elem kvs)
  | [], elem, kvs, _, _, _ => by simp [fieldLoop, NotFuel]
  | fd :: rest, elem, kvs, hnd, hD, hsz => by
    simp only [List.map_cons, List.nodup_cons, List.mem_map, not_exists, not_and] at hnd
    have ih := fun e2 k2 h2 => fieldLoop_fuel f path D n hf rest e2 k2 hnd.2 (fun fd' h => hD fd' (by simp [h])) h2
    have hsame : ∀ fd' ∈ rest, ∀ x, kvs.lookup fd'.name = some x → x.size < n := fun fd' h => hsz fd' (by simp [h])
    simp only [fieldLoop]
    cases hl : kvs.lookup fd.name with
    | none =>
      simp only []
      split <;> (try split) <;> (try split) <;> first | exact ih elem kvs hsame | simp [NotFuel]
    | some x =>
      simp only []
      split
      · split
        · simp [NotFuel]
        · exact ih elem kvs hsame
      · have hx := hf (path ++ [.name fd.name]) fd.type x (hD fd (by simp)) (hsz fd (by simp) x hl)
        cases hr : f (path ++ [.name fd.name]) fd.type x with
        | ok cval =>
          simp only []
          cases hty : cval.type? with
          | none => simp [NotFuel]
          | some t =>
            simp only []
            apply ih
            intro fd' hfd' x' hx'
            have hne : fd.name ≠ fd'.name := fun e => hnd.1 fd' hfd' e.symm
            rw [GoFields.lookup_set] at hx'
            simp only [hne, if_false] at hx'
            exact hsame fd' hfd' x' hx'
        | err m p a => simp [NotFuel]
        | panic m => simp [NotFuel]
        | outOfFuel => simp [hr, NotFuel] at hx

/-- `D` bounds the list depth of every input-object field type of the schema -/
def FieldDepthsLe (s : Schema) (D : Nat) : Prop :=
  ∀ n d, s.type? n = some d → ∀ fd ∈ d.fields, fd.type.depth ≤ D

theorem validateVarType_fuel (s : Schema) (D : Nat) (hD : FieldDepthsLe s D) (hfn : InputFieldsNodup s) :
    ∀ (fuel : Nat) (path : Path) (typ : GType) (val : GoVal),
      typ.depth ≤ D → val.size * (D + 2) + typ.depth < fuel → NotFuel (validateVarType s fuel path typ val)
  | 0, _, _, _, _, h => by omega
  | fuel + 1, path, typ, val, htd, hm => by
    have ih := validateVarType_fuel s D hD hfn fuel
    cases typ with
    | list e nn p =>
      simp only [GType.depth] at htd hm
      simp only [validateVarType]
      split
      · simp [NotFuel]
      · cases val with
        | slice t xs =>
          simp only []
          have hl := listLoop_fuel (fun p x => validateVarType s fuel p e x) path (decide (t = .iface)) e.nonNull xs.size
            (fun p x hx => ih p e x (by omega) (by
              simp only [GoVal.size] at hm
              have := mul_step (K := D + 2) (show x.size < xs.size + 1 by omega)
              omega)) xs 0 (Nat.le_refl _)
          revert hl
          cases listLoop (fun p x => validateVarType s fuel p e x) path (decide (t = .iface)) e.nonNull 0 xs <;> simp [NotFuel]
        | nil => simp [GoVal.type?, NotFuel]
        | bool b =>
          have := ih (path ++ [.idx 0]) e (.bool b) (by omega) (by omega)
          revert this; simp only [GoVal.type?]
          cases validateVarType s fuel (path ++ [.idx 0]) e (.bool b) <;> simp [NotFuel]
        | int k i =>
          have := ih (path ++ [.idx 0]) e (.int k i) (by omega) (by omega)
          revert this; simp only [GoVal.type?]
          cases validateVarType s fuel (path ++ [.idx 0]) e (.int k i) <;> simp [NotFuel]
        | uint k i =>
          have := ih (path ++ [.idx 0]) e (.uint k i) (by omega) (by omega)
          revert this; simp only [GoVal.type?]
          cases validateVarType s fuel (path ++ [.idx 0]) e (.uint k i) <;> simp [NotFuel]
        | float k i =>
          have := ih (path ++ [.idx 0]) e (.float k i) (by omega) (by omega)
          revert this; simp only [GoVal.type?]
          cases validateVarType s fuel (path ++ [.idx 0]) e (.float k i) <;> simp [NotFuel]
        | jsonNumber i =>
          have := ih (path ++ [.idx 0]) e (.jsonNumber i) (by omega) (by omega)
          revert this; simp only [GoVal.type?]
          cases validateVarType s fuel (path ++ [.idx 0]) e (.jsonNumber i) <;> simp [NotFuel]
        | str i =>
          have := ih (path ++ [.idx 0]) e (.str i) (by omega) (by omega)
          revert this; simp only [GoVal.type?]
          cases validateVarType s fuel (path ++ [.idx 0]) e (.str i) <;> simp [NotFuel]
        | map t kvs =>
          have := ih (path ++ [.idx 0]) e (.map t kvs) (by omega) (by omega)
          revert this; simp only [GoVal.type?]
          cases validateVarType s fuel (path ++ [.idx 0]) e (.map t kvs) <;> simp [NotFuel]
    | named n nn p =>
      simp only [validateVarType]
      cases hd : s.type? n with
      | none => simp [NotFuel]
      | some d =>
        simp only []
        split
        · simp [NotFuel]
        · cases hk : d.kind <;> simp only []
          case scalar => split <;> (try split) <;> simp [NotFuel]
          case enum => split <;> (try split) <;> (try split) <;> simp [NotFuel]
          case inputObject =>
            cases val with
            | map elem kvs =>
              simp only []
              split
              · simp [NotFuel]
              · have hl := fieldLoop_fuel (fun p t x => validateVarType s fuel p t x) path D kvs.size
                  (fun p t x ht hx => ih p t x ht (by
                    simp only [GoVal.size, GType.depth] at hm
                    have h1 := mul_step (K := D + 2) hx
                    have h2 : kvs.size * (D + 2) ≤ (kvs.size + 1) * (D + 2) := Nat.mul_le_mul_right _ (by omega)
                    omega))
                  d.fields elem kvs (hfn n d hd hk) (hD n d hd) (fun fd _ x hx => GoFields.lookup_size kvs fd.name x hx)
                revert hl
                cases fieldLoop (fun p t x => validateVarType s fuel p t x) path d.fields elem kvs <;> simp [NotFuel]
            | _ => simp [NotFuel]
          all_goals simp [NotFuel]

/- ---------- the depth bound `maxTypeDepth` ---------- -/

theorem foldl_max_ge_init : ∀ (l : List Nat) (a : Nat), a ≤ l.foldl max a
  | [], a => Nat.le_refl a
  | x :: r, a => Nat.le_trans (Nat.le_max_left a x) (foldl_max_ge_init r (max a x))

theorem foldl_max_ge : ∀ (l : List Nat) (a x : Nat), x ∈ l → x ≤ l.foldl max a
  | y :: r, a, x, h => by
    simp only [List.foldl]
    rcases List.mem_cons.mp h with e | h'
    · subst e; exact Nat.le_trans (Nat.le_max_right a x) (foldl_max_ge_init r _)
    · exact foldl_max_ge r _ x h'

theorem lookup_mem' {α β} [BEq α] [LawfulBEq α] {l : List (α × β)} {k : α} {v : β} (h : l.lookup k = some v) : (k, v) ∈ l := by
  induction l with
  | nil => simp at h
  | cons hd tl ih =>
    obtain ⟨a, b⟩ := hd
    simp only [List.lookup] at h
    split at h
    · rename_i heq; simp at heq; cases h; subst heq; simp
    · simp [ih h]

theorem fieldDepths_maxTypeDepth (s : Schema) (op : OperationDef) : FieldDepthsLe s (maxTypeDepth s op) := by
  intro n d hd fd hfd
  have hmem := lookup_mem' (show s.types.lookup n = some d from hd)
  have h1 : fd.type.depth ≤ (d.fields.map fun f => f.type.depth).foldl max 0 :=
    foldl_max_ge _ 0 _ (List.mem_map.mpr ⟨fd, hfd, rfl⟩)
  have h2 : (d.fields.map fun f => f.type.depth).foldl max 0 ≤
      (s.types.map fun (p : Name × Definition) => (p.2.fields.map fun f => f.type.depth).foldl max 0).foldl max 0 :=
    foldl_max_ge _ 0 _ (List.mem_map.mpr ⟨(n, d), hmem, rfl⟩)
  simp only [maxTypeDepth]
  exact Nat.le_trans h1 (Nat.le_trans h2 (Nat.le_max_left _ _))

theorem varDepth_maxTypeDepth (s : Schema) (op : OperationDef) (v : VarDef) (hv : v ∈ op.vars) :
    v.type.depth ≤ maxTypeDepth s op := by
  have h1 : v.type.depth ≤ (op.vars.map fun v => v.type.depth).foldl max 0 :=
    foldl_max_ge _ 0 _ (List.mem_map.mpr ⟨v, hv, rfl⟩)
  simp only [maxTypeDepth]
  exact Nat.le_trans h1 (Nat.le_max_right _ _)

/- ---------- constant literals never diverge ---------- -/

mutual
  theorem vvw_noDiverge (dflt : Name → Option (ConvRes GoVal)) (vars : VarMap) (hd : ∀ n, dflt n ≠ some .diverge) :
      (v : Value) → valueValueWith dflt vars v ≠ .diverge
    | .mk kind raw ch p => by
      cases kind
      case «variable» =>
        simp only [valueValueWith]
        cases h1 : vars.lookup raw with
        | some x => simp
        | none =>
          cases h2 : dflt raw with
          | none => simp
          | some r => simp only []; intro e; exact hd raw (by rw [h2, e])
      case int => simp only [valueValueWith]; split <;> simp
      case float => simp only [valueValueWith]; split <;> simp
      case string => simp [valueValueWith]
      case block => simp [valueValueWith]
      case enum => simp [valueValueWith]
      case boolean => simp only [valueValueWith]; split <;> simp
      case null => simp [valueValueWith]
      case list =>
        simp only [valueValueWith]
        have := lvw_noDiverge dflt vars hd ch
        revert this
        cases listValueWith dflt vars ch <;> simp
      case object =>
        simp only [valueValueWith]
        have := ovw_noDiverge dflt vars hd ch .nil
        revert this
        cases objectValueWith dflt vars ch .nil <;> simp
  theorem lvw_noDiverge (dflt : Name → Option (ConvRes GoVal)) (vars : VarMap) (hd : ∀ n, dflt n ≠ some .diverge) :
      (c : Children) → listValueWith dflt vars c ≠ .diverge
    | .nil => by simp [listValueWith]
    | .cons n v p rest => by
      simp only [listValueWith]
      have h1 := vvw_noDiverge dflt vars hd v
      have h2 := lvw_noDiverge dflt vars hd rest
      revert h1 h2
      cases valueValueWith dflt vars v <;> cases listValueWith dflt vars rest <;> simp
  theorem ovw_noDiverge (dflt : Name → Option (ConvRes GoVal)) (vars : VarMap) (hd : ∀ n, dflt n ≠ some .diverge) :
      (c : Children) → ∀ acc, objectValueWith dflt vars c acc ≠ .diverge
    | .nil, acc => by simp [objectValueWith]
    | .cons n v p rest, acc => by
      simp only [objectValueWith]
      have h1 := vvw_noDiverge dflt vars hd v
      revert h1
      cases hx : valueValueWith dflt vars v with
      | ok x => intro _; exact ovw_noDiverge dflt vars hd rest (acc.set n x)
      | err e => simp
      | diverge => simp
end

theorem valueValueConst_noDiverge (dv : Value) : valueValueConst dv ≠ .diverge := by
  unfold valueValueConst valueValue
  simp only [List.length_nil, valueValueLvl]
  exact vvw_noDiverge _ .nil (by intro n; simp [findVarDef]) dv

/- ---------- VariableValues ---------- -/

theorem jsonNumberPre_size {typ : GType} {val rv : GoVal} (h : jsonNumberPre typ val = .ok rv) : rv.size = val.size := by
  unfold jsonNumberPre at h
  cases val with
  | jsonNumber t =>
    simp only [] at h
    split at h
    · split at h <;> first | (cases h; rfl) | simp at h
    · split at h
      · split at h <;> first | (cases h; rfl) | simp at h
      · cases h; rfl
  | _ => simp only [] at h; cases h; rfl

theorem coerceSupplied_fuel (s : Schema) (hfn : InputFieldsNodup s) (op : OperationDef) (v : VarDef) (hv : v ∈ op.vars)
    (coerced : GoFields) (val : GoVal) : NotFuel (coerceSupplied s op v coerced val) := by
  unfold coerceSupplied
  split
  · split <;> simp [NotFuel]
  · cases hj : jsonNumberPre v.type val with
    | error m => simp [NotFuel]
    | ok rv =>
      simp only []
      have hdep := varDepth_maxTypeDepth s op v hv
      have hg := validateVarType_fuel s (maxTypeDepth s op) (fieldDepths_maxTypeDepth s op) hfn (fuelFor s op rv) (varPath v) v.type rv hdep (by
        simp only [fuelFor]
        have : rv.size * (maxTypeDepth s op + 2) + (maxTypeDepth s op + 2) ≤ (rv.size + 1) * (maxTypeDepth s op + 2) :=
          mul_step (Nat.lt_succ_self _)
        omega)
      revert hg
      cases validateVarType s (fuelFor s op rv) (varPath v) v.type rv with
      | ok rval => intro _; by_cases hr : rval.isNil = true <;> simp [hr, NotFuel]
      | err m p a => simp [NotFuel]
      | panic m => simp [NotFuel]
      | outOfFuel => simp [NotFuel]

theorem suppliedValue_fuel (vars : VarMap) (v : VarDef) : NotFuel (suppliedValue vars v) := by
  unfold suppliedValue
  cases vars.lookup v.var with
  | some x => simp [NotFuel]
  | none =>
    simp only []
    cases hd : v.default with
    | none => simp only []; split <;> simp [NotFuel]
    | some dv =>
      simp only []
      have := valueValueConst_noDiverge dv
      revert this
      cases valueValueConst dv <;> simp [NotFuel]

theorem coerceVar_fuel (s : Schema) (hfn : InputFieldsNodup s) (op : OperationDef) (vars : VarMap) (v : VarDef) (hv : v ∈ op.vars)
    (coerced : GoFields) : NotFuel (coerceVar s op vars v coerced) := by
  unfold coerceVar
  cases s.type? v.type.name with
  | none => simp [NotFuel]
  | some d =>
    simp only []
    split
    · simp [NotFuel]
    · have := suppliedValue_fuel vars v
      revert this
      cases suppliedValue vars v with
      | ok o =>
        intro _
        cases o with
        | none => simp [NotFuel]
        | some x => exact coerceSupplied_fuel s hfn op v hv coerced x
      | err m p a => simp [NotFuel]
      | panic m => simp [NotFuel]
      | outOfFuel => simp [NotFuel]

theorem coerceLoop_fuel (s : Schema) (hfn : InputFieldsNodup s) (op : OperationDef) (vars : VarMap) :
    ∀ (vs : List VarDef) (coerced : GoFields), (∀ v ∈ vs, v ∈ op.vars) → NotFuel (coerceLoop s op vars vs coerced)
  | [], coerced, _ => by simp [coerceLoop, NotFuel]
  | v :: rest, coerced, hin => by
    have h1 := coerceVar_fuel s hfn op vars v (hin v (by simp)) coerced
    simp only [coerceLoop]
    revert h1
    cases coerceVar s op vars v coerced with
    | ok c => intro _; exact coerceLoop_fuel s hfn op vars rest c (fun v' h => hin v' (by simp [h]))
    | err m p a => simp [NotFuel]
    | panic m => simp [NotFuel]
    | outOfFuel => simp [NotFuel]

end Gql
