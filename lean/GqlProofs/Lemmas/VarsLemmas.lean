import GqlModel.Vars.Model
import GqlModel.Vars.Spec
import GqlProofs.Lemmas.ArgMapLemmas
/- helper lemmas for C14 -/
namespace Gql
open Gql.Strconv

theorem GoVal.type?_none_iff (v : GoVal) : v.type? = none ↔ v = .nil := by
  cases v <;> simp [GoVal.type?]

theorem GoVal.isNil_iff (v : GoVal) : v.isNil = true ↔ v = .nil := by
  cases v <;> simp [GoVal.isNil]

theorem GoVal.isNil_false_iff (v : GoVal) : v.isNil = false ↔ v ≠ .nil := by
  cases v <;> simp [GoVal.isNil]

theorem safeFields_lookup : ∀ (kvs : GoFields) (k : Bytes) (x : GoVal),
    safeFieldsB kvs = true → kvs.lookup k = some x → safeB x = true
  | .nil, _, _, _, h => by simp [GoFields.lookup] at h
  | .cons a w r, k, x, hs, h => by
    simp only [safeFieldsB, Bool.and_eq_true] at hs
    simp only [GoFields.lookup] at h
    split at h
    · cases h; exact hs.1
    · exact safeFields_lookup r k x hs.2 h

theorem safeFields_set : ∀ (kvs : GoFields) (k : Bytes) (x : GoVal),
    safeFieldsB kvs = true → safeB x = true → safeFieldsB (kvs.set k x) = true
  | .nil, k, x, _, hx => by simp [GoFields.set, safeFieldsB, hx]
  | .cons a w r, k, x, hs, hx => by
    simp only [safeFieldsB, Bool.and_eq_true] at hs
    simp only [GoFields.set]
    split
    · simp [safeFieldsB, hx, hs.2]
    · simp [safeFieldsB, hs.1, safeFields_set r k x hs.2 hx]

theorem safeFields_erase : ∀ (kvs : GoFields) (k : Bytes),
    safeFieldsB kvs = true → safeFieldsB (kvs.erase k) = true
  | .nil, k, _ => by simp [GoFields.erase, safeFieldsB]
  | .cons a w r, k, hs => by
    simp only [safeFieldsB, Bool.and_eq_true] at hs
    simp only [GoFields.erase]
    split
    · exact safeFields_erase r k hs.2
    · simp [safeFieldsB, hs.1, safeFields_erase r k hs.2]

/-- a slice that may hold null items is at least as safe -/
theorem safeItems_mono : ∀ (xs : GoVals) (b : Bool), safeItemsB b xs = true → safeItemsB true xs = true
  | .nil, _, _ => by simp [safeItemsB]
  | .cons x r, b, h => by
    simp only [safeItemsB, Bool.and_eq_true] at h
    simp [safeItemsB, h.1.2, safeItems_mono r b h.2]

/-- the element type of a result slice is the original one or `interface{}` -/
theorem storeElemType_cases (t : GoType) (a b : GoVals) : storeElemType t a b = t ∨ storeElemType t a b = .iface := by
  unfold storeElemType
  split
  · exact Or.inl rfl
  · split
    · exact Or.inl rfl
    · exact Or.inr rfl

theorem safeItems_storeElemType {t : GoType} {a b xs : GoVals} (h : safeItemsB (decide (t = .iface)) xs = true) :
    safeItemsB (decide (storeElemType t a b = .iface)) xs = true := by
  rcases storeElemType_cases t a b with e | e
  · rw [e]; exact h
  · rw [e]; simpa using safeItems_mono xs _ h

mutual
  theorem jsonLike_safe : (v : GoVal) → jsonLikeB v = true → safeB v = true
    | .slice e xs, h => by
      simp only [jsonLikeB, Bool.and_eq_true, decide_eq_true_eq] at h
      obtain ⟨he, hx⟩ := h
      subst he
      simpa [safeB] using jsonLikeItems_safe xs hx
    | .map e kvs, h => by
      simp only [jsonLikeB, Bool.and_eq_true, decide_eq_true_eq] at h
      simp [safeB, h.1, jsonLikeFields_safe kvs h.2]
    | .nil, _ => rfl
    | .bool _, _ => rfl
    | .int _ _, _ => rfl
    | .uint _ _, _ => rfl
    | .float _ _, _ => rfl
    | .jsonNumber _, _ => rfl
    | .str _, _ => rfl
  theorem jsonLikeItems_safe : (xs : GoVals) → jsonLikeItemsB xs = true → safeItemsB true xs = true
    | .nil, _ => rfl
    | .cons v r, h => by
      simp only [jsonLikeItemsB, Bool.and_eq_true] at h
      simp [safeItemsB, jsonLike_safe v h.1, jsonLikeItems_safe r h.2]
  theorem jsonLikeFields_safe : (kvs : GoFields) → jsonLikeFieldsB kvs = true → safeFieldsB kvs = true
    | .nil, _ => rfl
    | .cons _ v r, h => by
      simp only [jsonLikeFieldsB, Bool.and_eq_true] at h
      simp [safeFieldsB, jsonLike_safe v h.1, jsonLikeFields_safe r h.2]
end

/-- outcome of a `validateVarType` call on `val` that the totality proof needs: no panic; the
    results are safe; a non-null value is not turned into the zero Value -/
def GoodPair (val : GoVal) : Res (GoVal × GoVal) → Prop
  | .panic _ => False
  | .ok (ret, upd) => safeB ret = true ∧ safeB upd = true ∧ (val ≠ .nil → ret ≠ .nil ∧ upd ≠ .nil)
  | _ => True

def GoodItems (nilOK : Bool) : Res GoVals → Prop
  | .panic _ => False
  | .ok xs => safeItemsB nilOK xs = true
  | _ => True

def GoodFields : Res GoFields → Prop
  | .panic _ => False
  | .ok kvs => safeFieldsB kvs = true
  | _ => True

theorem storeElem_good {ret upd : GoVal} (h1 : safeB ret = true) (h2 : safeB upd = true) :
    safeB (storeElem ret upd) = true := by
  unfold storeElem; split <;> simp_all

theorem storeElem_ne_nil {ret upd : GoVal} (h3 : ret ≠ .nil) (h4 : upd ≠ .nil) : storeElem ret upd ≠ .nil := by
  unfold storeElem; split <;> simp_all

/-- the list loop: `f` is only ever called on a null item when the element type is nullable (the
    loop itself rejects a null item of an `interface{}` slice at a non-null element type, and a
    typed slice holds no null item) -/
theorem listLoop_good (f : Path → GoVal → Res (GoVal × GoVal)) (path : Path) (b1 b2 : Bool)
    (hf : ∀ p x, safeB x = true → (x = .nil → b2 = false) → GoodPair x (f p x)) :
    ∀ (xs : GoVals) (i : Nat), safeItemsB b1 xs = true → GoodItems b1 (listLoop f path b1 b2 i xs)
  | .nil, i, _ => by simp [listLoop, safeItemsB, GoodItems]
  | .cons x rest, i, hs => by
    simp only [safeItemsB, Bool.and_eq_true, Bool.or_eq_true, Bool.not_eq_true'] at hs
    obtain ⟨⟨hx1, hx2⟩, hr⟩ := hs
    simp only [listLoop]
    split
    · simp [GoodItems]
    · rename_i hcond
      have hnn : x = .nil → b2 = false := by
        intro hx
        subst hx
        cases b2
        · rfl
        · rcases hx1 with h | h
          · subst h; simp [GoVal.isNil] at hcond
          · simp [GoVal.isNil] at h
      have hg := hf (path ++ [.idx i]) x hx2 hnn
      cases hfx : f (path ++ [.idx i]) x with
      | ok pr =>
        obtain ⟨ret, upd⟩ := pr
        simp only [hfx, GoodPair] at hg
        have ih := listLoop_good f path b1 b2 hf rest (i + 1) hr
        cases hl : listLoop f path b1 b2 (i + 1) rest with
        | ok rest' =>
          simp only [hl, GoodItems] at ih
          have hsafe := storeElem_good hg.1 hg.2.1
          have hnil : b1 = true ∨ (storeElem ret upd).isNil = false := by
            rcases hx1 with h | h
            · exact Or.inl h
            · have := hg.2.2 ((GoVal.isNil_false_iff x).mp h)
              exact Or.inr ((GoVal.isNil_false_iff _).mpr (storeElem_ne_nil this.1 this.2))
          simp only [GoodItems, safeItemsB, Bool.and_eq_true, Bool.or_eq_true, Bool.not_eq_true']
          exact ⟨⟨hnil, hsafe⟩, ih⟩
        | err m p a => simp [GoodItems]
        | panic m => simp [hl, GoodItems] at ih
        | outOfFuel => simp [GoodItems]
      | err m p a => simp [GoodItems]
      | panic m => simp [hfx, GoodPair] at hg
      | outOfFuel => simp [GoodItems]

theorem fieldLoop_good (s : Schema) (f : Path → GType → GoVal → Res (GoVal × GoVal)) (path : Path)
    (hf : ∀ p t x, InputTypeOK s t → safeB x = true → x ≠ .nil → GoodPair x (f p t x)) :
    ∀ (fields : List FieldDef) (kvs : GoFields), (∀ fd ∈ fields, InputTypeOK s fd.type) → safeFieldsB kvs = true →
      GoodFields (fieldLoop f path .iface fields kvs)
  | [], kvs, _, hs => by simp [fieldLoop, hs, GoodFields]
  | fd :: rest, kvs, ht, hs => by
    have ih := fun kvs' h' => fieldLoop_good s f path hf rest kvs' (fun fd' h => ht fd' (by simp [h])) h'
    simp only [fieldLoop]
    cases hl : kvs.lookup fd.name with
    | none =>
      simp only []
      split <;> (try split) <;> (try split) <;> first | exact ih kvs hs | simp [GoodFields]
    | some x =>
      simp only []
      have hx := safeFields_lookup kvs fd.name x hs hl
      by_cases hn : x.isNil = true
      · simp only [hn, Bool.and_true, decide_true, if_true]
        split
        · simp [GoodFields]
        · exact ih kvs hs
      · have hn' : x.isNil = false := by simpa using hn
        simp only [hn', Bool.and_false, Bool.false_eq_true, if_false]
        have hxne : x ≠ .nil := (GoVal.isNil_false_iff x).mp hn'
        have hg := hf (path ++ [.name fd.name]) fd.type x (ht fd (by simp)) hx hxne
        cases hfx : f (path ++ [.name fd.name]) fd.type x with
        | ok pr =>
          obtain ⟨cval, upd⟩ := pr
          simp only [hfx, GoodPair] at hg
          simp only []
          cases hty : cval.type? with
          | none => exact absurd ((GoVal.type?_none_iff cval).mp hty) (hg.2.2 hxne).1
          | some t =>
            simp only [assignable, decide_true, Bool.true_or, if_true]
            exact ih _ (safeFields_set kvs fd.name cval hs hg.1)
        | err m p a => simp [GoodFields]
        | panic m => simp [hfx, GoodPair] at hg
        | outOfFuel => simp [GoodFields]

end Gql

namespace Gql
open Gql.Strconv

theorem GoodPair_self {v : GoVal} (h1 : safeB v = true) : GoodPair v (.ok (v, v)) := by
  simp [GoodPair, h1]

/-- `validateVarType` does not panic on a safe value, PROVIDED a null value only meets a nullable
    type — which every caller (the loop of `VariableValues`, the list loop, the field loop)
    establishes before the call -/
theorem validateVarType_good (s : Schema) (hc : InputsClosed s) :
    ∀ (fuel : Nat) (path : Path) (typ : GType) (val : GoVal),
      InputTypeOK s typ → safeB val = true → (val = .nil → typ.nonNull = false) →
      GoodPair val (validateVarType s fuel path typ val)
  | 0, _, _, _, _, _, _ => by simp [validateVarType, GoodPair]
  | fuel + 1, path, typ, val, ht, hs, hn => by
    have ih := validateVarType_good s hc fuel
    cases typ with
    | list e nn p =>
      have hte : InputTypeOK s e := by simpa [InputTypeOK, GType.name] using ht
      by_cases hnil : val.isNil = true
      · -- the repaired R14a branch: a null where a list is expected is returned as it is
        simp only [validateVarType, legacyNullIntoListPanics, hnil, Bool.not_false, Bool.and_self, if_true]
        exact GoodPair_self hs
      · have hnil' : val.isNil = false := by simpa using hnil
        have hvn : val ≠ .nil := (GoVal.isNil_false_iff val).mp hnil'
        simp only [validateVarType, hnil', Bool.and_false, Bool.false_eq_true, if_false]
        cases val with
        | nil => exact absurd rfl hvn
        | slice t xs =>
          simp only []
          have hxs : safeItemsB (decide (t = .iface)) xs = true := by simpa [safeB] using hs
          have hl := listLoop_good (fun p x => validateVarType s fuel p e x) path (decide (t = .iface)) e.nonNull
            (fun p x h1 h2 => ih p e x hte h1 h2) xs 0 hxs
          cases hr : listLoop (fun p x => validateVarType s fuel p e x) path (decide (t = .iface)) e.nonNull 0 xs with
          | ok xs' =>
            simp only [hr, GoodItems] at hl
            have := safeItems_storeElemType (a := xs) (b := xs') hl
            simp [GoodPair, safeB, this]
          | err m p a => simp [GoodPair]
          | panic m => simp [hr, GoodItems] at hl
          | outOfFuel => simp [GoodPair]
        | _ =>
          simp only [GoVal.type?]
          have hg := ih (path ++ [.idx 0]) e _ hte hs (fun h => absurd h hvn)
          revert hg
          cases validateVarType s fuel (path ++ [.idx 0]) e _ with
          | ok pr =>
            obtain ⟨ret, upd⟩ := pr
            intro hg
            simp only [GoodPair] at hg
            have hne := hg.2.2 hvn
            have h1 := storeElem_good hg.1 hg.2.1
            have h2 := (GoVal.isNil_false_iff _).mpr (storeElem_ne_nil hne.1 hne.2)
            simp [GoodPair, safeB, safeItemsB, h1, h2, hg.2.1, hne.2]
          | err m p a => simp [GoodPair]
          | panic m => simp [GoodPair]
          | outOfFuel => simp [GoodPair]
    | named n nn p =>
      obtain ⟨d, hd, hk⟩ := ht
      simp only [GType.name] at hd
      simp only [validateVarType, hd]
      by_cases hnil : (!nn && val.isNil) = true
      · simp only [hnil, if_true]
        exact GoodPair_self hs
      · simp only [hnil, Bool.false_eq_true, if_false]
        have hvn : val ≠ .nil := by
          intro h
          have h1 := hn h
          simp only [GType.nonNull] at h1
          subst h; subst h1
          simp [GoVal.isNil] at hnil
        obtain ⟨t, hty⟩ : ∃ t, val.type? = some t := by
          cases h : val.type? with
          | none => exact absurd ((GoVal.type?_none_iff val).mp h) hvn
          | some t => exact ⟨t, rfl⟩
        rcases hk with hk | hk | hk
        · -- scalar
          simp only [hk, hty]
          split <;> first | exact GoodPair_self hs | simp [GoodPair]
        · -- enum
          simp only [hk, hty]
          split
          · simp [GoodPair]
          · split <;> first | exact GoodPair_self hs | simp [GoodPair]
        · -- input object
          simp only [hk]
          cases val with
          | map elem kvs =>
            simp only []
            have hs' : elem = .iface ∧ safeFieldsB kvs = true := by simpa [safeB] using hs
            obtain ⟨he, hkvs⟩ := hs'
            subst he
            split
            · simp [GoodPair]
            · have hl := fieldLoop_good s (fun p t x => validateVarType s fuel p t x) path
                (fun p t x h0 h1 h2 => ih p t x h0 h1 (fun h => absurd h h2)) d.fields kvs (hc n d hd hk) hkvs
              revert hl
              cases fieldLoop (fun p t x => validateVarType s fuel p t x) path .iface d.fields kvs with
              | ok kvs' => intro hl; simp only [GoodFields] at hl; simp [GoodPair, safeB, hl]
              | err m p a => simp [GoodPair]
              | panic m => simp [GoodFields]
              | outOfFuel => simp [GoodPair]
          | _ => simp [GoodPair]

end Gql

namespace Gql
open Gql.Strconv

/- ---------- converted literals (default values) are safe ---------- -/

mutual
  theorem vvw_safe (dflt : Name → Option (ConvRes GoVal)) (vars : VarMap)
      (hv : safeFieldsB vars = true) (hd : ∀ n x, dflt n = some (.ok x) → safeB x = true) :
      (v : Value) → ∀ x, valueValueWith dflt vars v = .ok x → safeB x = true
    | .mk kind raw ch p, x, h => by
      cases kind
      case «variable» =>
        simp only [valueValueWith] at h
        cases h1 : vars.lookup raw with
        | some y => simp only [h1] at h; cases h; exact safeFields_lookup vars raw _ hv h1
        | none =>
          simp only [h1] at h
          cases h2 : dflt raw with
          | none => simp only [h2] at h; cases h; rfl
          | some r => simp only [h2] at h; subst h; exact hd raw x h2
      case int => simp only [valueValueWith] at h; split at h <;> first | (cases h; rfl) | simp at h
      case float => simp only [valueValueWith] at h; split at h <;> first | (cases h; rfl) | simp at h
      case string => simp only [valueValueWith] at h; cases h; rfl
      case block => simp only [valueValueWith] at h; cases h; rfl
      case enum => simp only [valueValueWith] at h; cases h; rfl
      case boolean => simp only [valueValueWith] at h; split at h <;> first | (cases h; rfl) | simp at h
      case null => simp only [valueValueWith] at h; cases h; rfl
      case list =>
        simp only [valueValueWith] at h
        cases hl : listValueWith dflt vars ch with
        | ok xs =>
          simp only [hl] at h; cases h
          simpa [safeB] using lvw_safe dflt vars hv hd ch xs hl
        | err e => simp [hl] at h
        | diverge => simp [hl] at h
      case object =>
        simp only [valueValueWith] at h
        cases hl : objectValueWith dflt vars ch .nil with
        | ok kvs =>
          simp only [hl] at h; cases h
          simpa [safeB] using ovw_safe dflt vars hv hd ch .nil kvs (by simp [safeFieldsB]) hl
        | err e => simp [hl] at h
        | diverge => simp [hl] at h
  theorem lvw_safe (dflt : Name → Option (ConvRes GoVal)) (vars : VarMap)
      (hv : safeFieldsB vars = true) (hd : ∀ n x, dflt n = some (.ok x) → safeB x = true) :
      (c : Children) → ∀ xs, listValueWith dflt vars c = .ok xs → safeItemsB true xs = true
    | .nil, xs, h => by simp only [listValueWith] at h; cases h; simp [safeItemsB]
    | .cons n v p rest, xs, h => by
      simp only [listValueWith] at h
      cases h1 : valueValueWith dflt vars v with
      | ok x =>
        simp only [h1] at h
        cases h2 : listValueWith dflt vars rest with
        | ok ys =>
          simp only [h2] at h; cases h
          simp [safeItemsB, vvw_safe dflt vars hv hd v x h1, lvw_safe dflt vars hv hd rest ys h2]
        | err e => simp [h2] at h
        | diverge => simp [h2] at h
      | err e => simp [h1] at h
      | diverge => simp [h1] at h
  theorem ovw_safe (dflt : Name → Option (ConvRes GoVal)) (vars : VarMap)
      (hv : safeFieldsB vars = true) (hd : ∀ n x, dflt n = some (.ok x) → safeB x = true) :
      (c : Children) → ∀ acc kvs, safeFieldsB acc = true → objectValueWith dflt vars c acc = .ok kvs → safeFieldsB kvs = true
    | .nil, acc, kvs, ha, h => by simp only [objectValueWith] at h; cases h; exact ha
    | .cons n v p rest, acc, kvs, ha, h => by
      simp only [objectValueWith] at h
      cases h1 : valueValueWith dflt vars v with
      | ok x =>
        simp only [h1] at h
        exact ovw_safe dflt vars hv hd rest (acc.set n x) kvs
          (safeFields_set acc n x ha (vvw_safe dflt vars hv hd v x h1)) h
      | err e => simp [h1] at h
      | diverge => simp [h1] at h
end

/-- every converted constant literal (a default value) is safe: literal conversion only builds
    `[]interface{}` / `map[string]interface{}` containers -/
theorem valueValueConst_safe (dv : Value) (x : GoVal) (h : valueValueConst dv = .ok x) : safeB x = true := by
  unfold valueValueConst valueValue at h
  simp only [List.length_nil, valueValueLvl] at h
  exact vvw_safe _ .nil (by simp [safeFieldsB]) (by intro n x h; simp [findVarDef] at h) dv x h

theorem jsonNumberPre_good {typ : GType} {val rv : GoVal} (hs : safeB val = true) (hn : val ≠ .nil)
    (h : jsonNumberPre typ val = .ok rv) : safeB rv = true ∧ rv ≠ .nil := by
  unfold jsonNumberPre at h
  cases val with
  | jsonNumber t =>
    simp only [] at h
    split at h
    · split at h <;> first | (cases h; simp [safeB]) | simp at h
    · split at h
      · split at h <;> first | (cases h; simp [safeB]) | simp at h
      · cases h; simp [safeB]
  | nil => exact absurd rfl hn
  | _ => simp only [] at h; cases h; exact ⟨hs, hn⟩

def NoPanic {α : Type} : Res α → Prop
  | .panic _ => False
  | _ => True

theorem isInputType_kind {d : Definition} (h : d.isInputType = true) :
    d.kind = .scalar ∨ d.kind = .enum ∨ d.kind = .inputObject := by
  simpa [Definition.isInputType, or_assoc] using h

theorem coerceSupplied_noPanic (s : Schema) (op : OperationDef) (v : VarDef) (coerced : GoFields) (val : GoVal)
    (hc : InputsClosed s) (hty : InputTypeOK s v.type) (hs : safeB val = true) :
    NoPanic (coerceSupplied s op v coerced val) := by
  unfold coerceSupplied
  by_cases hn : val.isNil = true
  · simp only [hn, if_true]; split <;> simp [NoPanic]
  · have hn' : val ≠ .nil := fun e => hn ((GoVal.isNil_iff val).mpr e)
    simp only [hn]
    cases hj : jsonNumberPre v.type val with
    | error m => simp [NoPanic]
    | ok rv =>
      obtain ⟨h1, h2⟩ := jsonNumberPre_good hs hn' hj
      have hg := validateVarType_good s hc (fuelFor s op rv) (varPath v) v.type rv hty h1 (fun h => absurd h h2)
      revert hg
      simp only []
      cases validateVarType s (fuelFor s op rv) (varPath v) v.type rv with
      | ok pr =>
        obtain ⟨rval, upd⟩ := pr
        intro hg
        simp only [GoodPair] at hg
        simp [(GoVal.isNil_false_iff rval).mpr (hg.2.2 h2).1, NoPanic]
      | err m p a => simp [NoPanic]
      | panic m => simp [GoodPair]
      | outOfFuel => simp [NoPanic]

theorem suppliedValue_safe {vars : VarMap} {v : VarDef} {x : GoVal}
    (hvars : safeFieldsB vars = true)
    (h : suppliedValue vars v = .ok (some x)) : safeB x = true := by
  unfold suppliedValue at h
  cases hl : vars.lookup v.var with
  | some y => simp only [hl] at h; cases h; exact safeFields_lookup vars v.var _ hvars hl
  | none =>
    simp only [hl] at h
    cases hdv : v.default with
    | none => simp only [hdv] at h; split at h <;> simp at h
    | some dv =>
      simp only [hdv] at h
      cases hvv : valueValueConst dv with
      | ok y => simp only [hvv] at h; cases h; exact valueValueConst_safe dv _ hvv
      | err e => simp [hvv] at h
      | diverge => simp [hvv] at h

theorem suppliedValue_noPanic (vars : VarMap) (v : VarDef) : NoPanic (suppliedValue vars v) := by
  unfold suppliedValue
  repeat' split
  all_goals simp [NoPanic]

theorem coerceVar_noPanic (s : Schema) (op : OperationDef) (vars : VarMap) (v : VarDef) (coerced : GoFields)
    (hc : InputsClosed s) (hop : ∃ d, s.type? v.type.name = some d)
    (hvars : safeFieldsB vars = true) :
    NoPanic (coerceVar s op vars v coerced) := by
  obtain ⟨d, hd⟩ := hop
  unfold coerceVar
  simp only [hd]
  by_cases hin : d.isInputType = true
  · simp only [hin, Bool.not_true, Bool.false_eq_true, if_false]
    have hty : InputTypeOK s v.type := ⟨d, hd, isInputType_kind hin⟩
    have hsp := suppliedValue_noPanic vars v
    cases hsv : suppliedValue vars v with
    | ok o =>
      cases o with
      | none => simp [NoPanic]
      | some x => exact coerceSupplied_noPanic s op v coerced x hc hty (suppliedValue_safe hvars hsv)
    | err m p a => simp [NoPanic]
    | panic m => simp [hsv, NoPanic] at hsp
    | outOfFuel => simp [NoPanic]
  · simp [hin, NoPanic]

theorem coerceLoop_noPanic (s : Schema) (op : OperationDef) (vars : VarMap)
    (hc : InputsClosed s) (hvars : safeFieldsB vars = true) :
    ∀ (vs : List VarDef) (coerced : GoFields),
      (∀ v ∈ vs, ∃ d, s.type? v.type.name = some d) →
      NoPanic (coerceLoop s op vars vs coerced)
  | [], coerced, _ => by simp [coerceLoop, NoPanic]
  | v :: rest, coerced, hop => by
    have h1 := coerceVar_noPanic s op vars v coerced hc (hop v (by simp)) hvars
    simp only [coerceLoop]
    revert h1
    cases coerceVar s op vars v coerced with
    | ok c =>
      intro _
      exact coerceLoop_noPanic s op vars hc hvars rest c (fun v' h => hop v' (by simp [h]))
    | err m p a => simp [NoPanic]
    | panic m => simp [NoPanic]
    | outOfFuel => simp [NoPanic]

end Gql

namespace Gql
open Gql.Strconv

/- ---------- defaults ---------- -/

theorem coerceSupplied_shape {s : Schema} {op : OperationDef} {v : VarDef} {coerced c : GoFields} {val : GoVal}
    (h : coerceSupplied s op v coerced val = .ok c) : ∃ y, c = coerced.set v.var y := by
  unfold coerceSupplied at h
  split at h
  · split at h
    · simp at h
    · cases h; exact ⟨_, rfl⟩
  · split at h
    · simp at h
    · split at h
      · split at h
        · simp at h
        · cases h; exact ⟨_, rfl⟩
      all_goals simp at h

theorem coerceVar_shape {s : Schema} {op : OperationDef} {vars : VarMap} {v : VarDef} {coerced c : GoFields}
    (h : coerceVar s op vars v coerced = .ok c) :
    (c = coerced ∧ suppliedValue vars v = .ok none) ∨
      (∃ x y, suppliedValue vars v = .ok (some x) ∧ coerceSupplied s op v coerced x = .ok c ∧ c = coerced.set v.var y) := by
  unfold coerceVar at h
  split at h
  · simp at h
  · split at h
    · simp at h
    · split at h
      · simp at h
      · simp at h
      · simp at h
      · cases h; left; exact ⟨rfl, by assumption⟩
      · rename_i val hsv
        obtain ⟨y, hy⟩ := coerceSupplied_shape h
        right; exact ⟨val, y, hsv, h, hy⟩

theorem coerceLoop_contains_mono {s : Schema} {op : OperationDef} {vars : VarMap} :
    ∀ (vs : List VarDef) (coerced m : GoFields), coerceLoop s op vars vs coerced = .ok m →
      ∀ k, coerced.contains k = true → m.contains k = true
  | [], coerced, m, h, k, hk => by simp only [coerceLoop] at h; cases h; exact hk
  | v :: rest, coerced, m, h, k, hk => by
    simp only [coerceLoop] at h
    cases hv : coerceVar s op vars v coerced with
    | ok c =>
      simp only [hv] at h
      apply coerceLoop_contains_mono rest c m h k
      rcases coerceVar_shape hv with ⟨e, _⟩ | ⟨x, y, _, _, e⟩
      · rw [e]; exact hk
      · rw [e, GoFields.contains_set]; simp [hk]
    | err a b c => simp [hv] at h
    | panic a => simp [hv] at h
    | outOfFuel => simp [hv] at h

theorem suppliedValue_default {vars : VarMap} {v : VarDef} (hd : v.default.isSome = true) :
    suppliedValue vars v ≠ .ok none := by
  unfold suppliedValue
  cases hl : vars.lookup v.var with
  | some x => simp
  | none =>
    cases hdv : v.default with
    | none => simp [hdv] at hd
    | some dv => simp only []; split <;> simp

/-- after the loop every variable that has a default is in the result -/
theorem coerceLoop_defaults {s : Schema} {op : OperationDef} {vars : VarMap} :
    ∀ (vs : List VarDef) (coerced m : GoFields), coerceLoop s op vars vs coerced = .ok m →
      ∀ v ∈ vs, v.default.isSome = true → m.contains v.var = true
  | [], _, _, _, v, hv, _ => by simp at hv
  | v0 :: rest, coerced, m, h, v, hv, hd => by
    simp only [coerceLoop] at h
    cases hc : coerceVar s op vars v0 coerced with
    | ok c =>
      simp only [hc] at h
      rcases List.mem_cons.mp hv with e | hv'
      · subst e
        apply coerceLoop_contains_mono rest c m h
        rcases coerceVar_shape hc with ⟨_, e2⟩ | ⟨x, y, _, _, e⟩
        · exact absurd e2 (suppliedValue_default hd)
        · rw [e, GoFields.contains_set]; simp
      · exact coerceLoop_defaults rest c m h v hv' hd
    | err a b c => simp [hc] at h
    | panic a => simp [hc] at h
    | outOfFuel => simp [hc] at h

theorem coerceLoop_lookup_other {s : Schema} {op : OperationDef} {vars : VarMap} :
    ∀ (vs : List VarDef) (coerced m : GoFields), coerceLoop s op vars vs coerced = .ok m →
      ∀ k, (∀ v ∈ vs, v.var ≠ k) → m.lookup k = coerced.lookup k
  | [], coerced, m, h, k, _ => by simp only [coerceLoop] at h; cases h; rfl
  | v :: rest, coerced, m, h, k, hk => by
    simp only [coerceLoop] at h
    cases hv : coerceVar s op vars v coerced with
    | ok c =>
      simp only [hv] at h
      rw [coerceLoop_lookup_other rest c m h k (fun v' h' => hk v' (by simp [h']))]
      rcases coerceVar_shape hv with ⟨e, _⟩ | ⟨x, y, _, _, e⟩
      · rw [e]
      · rw [e, GoFields.lookup_set]; simp [hk v (by simp)]
    | err a b c => simp [hv] at h
    | panic a => simp [hv] at h
    | outOfFuel => simp [hv] at h

/-- with unique variable names: the entry of a declared variable is what its own iteration stored -/
theorem coerceLoop_entry {s : Schema} {op : OperationDef} {vars : VarMap} :
    ∀ (vs : List VarDef) (coerced m : GoFields), (vs.map (·.var)).Nodup →
      coerceLoop s op vars vs coerced = .ok m →
      ∀ v ∈ vs, ∃ acc c, coerceVar s op vars v acc = .ok c ∧ m.lookup v.var = c.lookup v.var
        ∧ (acc.lookup v.var = coerced.lookup v.var)
  | [], _, _, _, _, v, hv => by simp at hv
  | v0 :: rest, coerced, m, hnd, h, v, hv => by
    simp only [coerceLoop] at h
    simp only [List.map_cons, List.nodup_cons, List.mem_map, not_exists, not_and] at hnd
    cases hc : coerceVar s op vars v0 coerced with
    | ok c =>
      simp only [hc] at h
      rcases List.mem_cons.mp hv with e | hv'
      · subst e
        exact ⟨coerced, c, hc, coerceLoop_lookup_other rest c m h v.var (fun v' h' e => hnd.1 v' h' e), rfl⟩
      · obtain ⟨acc, c', h1, h2, h3⟩ := coerceLoop_entry rest c m hnd.2 h v hv'
        refine ⟨acc, c', h1, h2, ?_⟩
        rw [h3]
        have hne : v0.var ≠ v.var := fun e => hnd.1 v hv' e.symm
        rcases coerceVar_shape hc with ⟨e, _⟩ | ⟨x, y, _, _, e⟩
        · rw [e]
        · rw [e, GoFields.lookup_set]; simp [hne]
    | err a b c => simp [hc] at h
    | panic a => simp [hc] at h
    | outOfFuel => simp [hc] at h

end Gql
